// Harness for C37: pkg/workqueue runs each accepted task exactly once.
//
// Every case builds one real queue (BoundedPool, BoundedBatchPool,
// BoundedWorkerQueue or ShardedMailbox), drives it from several goroutines
// (submits racing with one Close), and records the history: every Submit call
// (call/return stamp, result class), every handler delivery (begin/end stamp,
// position in the batch), every CancelAccepted hook, every Close call and, for
// the mailbox, every shard drain (from the public Observer). All stamps come
// from ONE global atomic ticket. The history is printed as a Coq term of type
// c37_case (Model/WorkQueue.v) and judged by C37_monitor inside Coq.
//
// Scenarios k1..k4 are scripted schedules (a parked context / a parked
// observer / blocked handlers emulate a goroutine being descheduled at one
// program point) that reproduce the four confirmed defects; they live in
// corpus/C37.
package main

import (
	"context"
	"errors"
	"fmt"
	"math/rand/v2"
	"runtime"
	"sort"
	"strings"
	"sync"
	"sync/atomic"
	"time"

	"github.com/WuKongIM/WuKongIM/internal/verifh/vh"
	"github.com/WuKongIM/WuKongIM/pkg/workqueue"
)

type op struct {
	T int    `json:"t"`           // producer goroutine
	K string `json:"k"`           // "sub" | "subw" (SubmitWait) | "subc" (cancelled ctx) | "suby" (ctx.Err yields: widens the window after Submit's closed checks) | "close"
	H uint64 `json:"h,omitempty"` // mailbox hash
	W int    `json:"w,omitempty"` // handler work for this item, microseconds
	D int    `json:"d,omitempty"` // yields before the call
}

type input struct {
	Kind      string `json:"kind"` // pool | batch | worker | mailbox
	Workers   int    `json:"workers"`
	QSize     int    `json:"qsize"`
	Shards    int    `json:"shards,omitempty"`
	Batch     int    `json:"batch,omitempty"`
	WaitUs    int    `json:"wait_us,omitempty"`
	CancelAcc bool   `json:"cancel_acc,omitempty"`
	CancelRun bool   `json:"cancel_run,omitempty"`
	Threads   int    `json:"threads"`
	Scenario  string `json:"scenario,omitempty"`
	Trials    int    `json:"trials,omitempty"` // scenario spin: racing submit/close trials (stops at the first lost task)
	Per       int    `json:"per,omitempty"`    // scenario spin: Submit calls per producer and trial
	Ops       []op   `json:"ops"`
}

type task struct {
	id    uint64
	shard uint64
	work  int
}

type subRec struct {
	task, shard, b, e uint64
	res               int // 0 ok 1 full 2 closed 3 ctx
}
type runRec struct{ task, shard, b, e, pos uint64 }
type canRec struct{ task, at uint64 }
type cloRec struct {
	b, e uint64
	ok   bool
}
type drainEv struct {
	shard uint64
	at    uint64
	end   bool
}
type drnRec struct{ shard, b, e uint64 }

type recorder struct {
	ticket atomic.Uint64
	mu     sync.Mutex
	subs   []subRec
	runs   []runRec
	cans   []canRec
	clos   []cloRec
	devs   []drainEv
	hook   func(o workqueue.ShardedMailboxObservation, end bool) // scenario k2
}

func (r *recorder) tick() uint64 { return r.ticket.Add(1) }

func spin(us int) {
	if us <= 0 {
		return
	}
	if us >= 50 {
		time.Sleep(time.Duration(us) * time.Microsecond)
		return
	}
	t0 := time.Now()
	for time.Since(t0) < time.Duration(us)*time.Microsecond {
	}
}

func (r *recorder) single(_ context.Context, t task) error {
	b := r.tick()
	spin(t.work)
	e := r.tick()
	r.mu.Lock()
	r.runs = append(r.runs, runRec{t.id, t.shard, b, e, 0})
	r.mu.Unlock()
	return nil
}

func (r *recorder) batch(_ context.Context, ts []task) error {
	b := r.tick()
	w := 0
	for _, t := range ts {
		if t.work > w {
			w = t.work
		}
	}
	spin(w)
	cp := append([]task(nil), ts...)
	e := r.tick()
	r.mu.Lock()
	for i, t := range cp {
		r.runs = append(r.runs, runRec{t.id, t.shard, b, e, uint64(i)})
	}
	r.mu.Unlock()
	return nil
}

func (r *recorder) cancelHook(t task, _ error) {
	at := r.tick()
	r.mu.Lock()
	r.cans = append(r.cans, canRec{t.id, at})
	r.mu.Unlock()
}

// ObserveShardedMailbox: the two "worker" observations of drainScheduledShard
// delimit one drain; the second one comes from its deferred closure.
func (r *recorder) ObserveShardedMailbox(o workqueue.ShardedMailboxObservation) {
	if o.Kind != "worker" || o.Shard < 0 {
		return
	}
	var pcs [16]uintptr
	n := runtime.Callers(2, pcs[:])
	end := false
	fr := runtime.CallersFrames(pcs[:n])
	for {
		f, more := fr.Next()
		if strings.Contains(f.Function, "drainScheduledShard.func") {
			end = true
			break
		}
		if !more {
			break
		}
	}
	at := r.tick()
	r.mu.Lock()
	r.devs = append(r.devs, drainEv{uint64(o.Shard), at, end})
	r.mu.Unlock()
	if r.hook != nil {
		r.hook(o, end)
	}
}

type queue interface {
	submit(ctx context.Context, t task, wait bool) error
	close(ctx context.Context) error
}

type poolQ struct{ p *workqueue.BoundedPool[task] }

func (q poolQ) submit(ctx context.Context, t task, wait bool) error {
	if wait {
		return q.p.SubmitWait(ctx, t)
	}
	return q.p.Submit(ctx, t)
}
func (q poolQ) close(ctx context.Context) error { return q.p.Close(ctx) }

type batchQ struct {
	p *workqueue.BoundedBatchPool[task]
}

func (q batchQ) submit(ctx context.Context, t task, _ bool) error { return q.p.Submit(ctx, t) }
func (q batchQ) close(ctx context.Context) error                  { return q.p.Close(ctx) }

type workerQ struct {
	p *workqueue.BoundedWorkerQueue[task]
}

func (q workerQ) submit(ctx context.Context, t task, wait bool) error {
	if wait {
		return q.p.SubmitWait(ctx, t)
	}
	return q.p.Submit(ctx, t)
}
func (q workerQ) close(ctx context.Context) error { return q.p.Close(ctx) }

type mailQ struct {
	p *workqueue.ShardedMailbox[task]
}

func (q mailQ) submit(ctx context.Context, t task, _ bool) error {
	return q.p.SubmitHash(ctx, t.shard, t)
}
func (q mailQ) close(ctx context.Context) error { return q.p.Close(ctx) }

func norm(in *input) {
	if in.Workers <= 0 {
		in.Workers = 1
	}
	if in.QSize <= 0 {
		in.QSize = 1
	}
	if in.Kind != "mailbox" || in.Shards <= 0 {
		if in.Kind == "mailbox" {
			in.Shards = 1
		} else {
			in.Shards = 0
		}
	}
	if in.Threads <= 0 {
		in.Threads = 1
	}
}

// effBatch is the largest batch the configuration allows.
func effBatch(in input) int {
	switch in.Kind {
	case "batch":
		b := in.Batch
		if b <= 1 {
			return 1
		}
		if b > in.QSize {
			b = in.QSize
		}
		return b
	case "mailbox":
		if in.Batch <= 0 {
			return 1
		}
		return in.Batch
	}
	return 1
}

func build(in input, r *recorder) queue {
	switch in.Kind {
	case "pool":
		p, err := workqueue.NewBoundedPool[task](workqueue.BoundedPoolConfig{Name: "c37", Workers: in.Workers, QueueSize: in.QSize}, r.single)
		if err != nil {
			panic(err)
		}
		return poolQ{p}
	case "batch":
		cfg := workqueue.BoundedBatchPoolConfig[task]{Name: "c37", Workers: in.Workers, QueueSize: in.QSize,
			CancelAcceptedOnClose: in.CancelAcc, CancelRunningOnClose: in.CancelRun, CancelAccepted: r.cancelHook}
		if in.Batch > 0 {
			mi, mw := in.Batch, time.Duration(in.WaitUs)*time.Microsecond
			cfg.Policy = func(task) workqueue.BatchOptions { return workqueue.BatchOptions{MaxItems: mi, MaxWait: mw} }
		}
		p, err := workqueue.NewBoundedBatchPool[task](cfg, r.batch)
		if err != nil {
			panic(err)
		}
		return batchQ{p}
	case "worker":
		p, err := workqueue.NewBoundedWorkerQueue[task](workqueue.BoundedWorkerQueueConfig{Name: "c37", Workers: in.Workers, QueueSize: in.QSize}, r.single)
		if err != nil {
			panic(err)
		}
		return workerQ{p}
	case "mailbox":
		p, err := workqueue.NewShardedMailbox[task](workqueue.ShardedMailboxConfig{Name: "c37", Shards: in.Shards, Workers: in.Workers,
			QueueSizePerShard: in.QSize, BatchMaxItems: in.Batch, BatchMaxWait: time.Duration(in.WaitUs) * time.Microsecond, Observer: r},
			func(ctx context.Context, b workqueue.MailboxBatch[task]) error { return r.batch(ctx, b.Items) })
		if err != nil {
			panic(err)
		}
		return mailQ{p}
	}
	panic("unknown kind " + in.Kind)
}

func classify(err error) int {
	switch {
	case err == nil:
		return 0
	case errors.Is(err, workqueue.ErrFull):
		return 1
	case errors.Is(err, workqueue.ErrClosed):
		return 2
	case errors.Is(err, context.Canceled), errors.Is(err, context.DeadlineExceeded):
		return 3
	}
	panic(fmt.Sprintf("unexpected Submit error %v", err))
}

func (r *recorder) doSubmit(q queue, ctx context.Context, t task, wait bool) int {
	b := r.tick()
	err := q.submit(ctx, t, wait)
	e := r.tick()
	res := classify(err)
	r.mu.Lock()
	r.subs = append(r.subs, subRec{t.id, t.shard, b, e, res})
	r.mu.Unlock()
	return res
}

func (r *recorder) doClose(q queue) {
	b := r.tick()
	err := q.close(context.Background())
	e := r.tick()
	r.mu.Lock()
	r.clos = append(r.clos, cloRec{b, e, err == nil})
	r.mu.Unlock()
}

func shardOf(in input, h uint64) uint64 {
	if in.Kind != "mailbox" {
		return 0
	}
	return h % uint64(in.Shards)
}

// ---- generic run: producers race with one Close ------------------------------------------

func runGeneric(in input) *recorder {
	r := &recorder{}
	q := build(in, r)
	per := make([][]int, in.Threads)
	for i, o := range in.Ops {
		if o.T >= 0 && o.T < in.Threads {
			per[o.T] = append(per[o.T], i)
		}
	}
	cancelled, cancel := context.WithCancel(context.Background())
	cancel()
	var wg sync.WaitGroup
	start := make(chan struct{})
	for t := 0; t < in.Threads; t++ {
		wg.Add(1)
		go func(idx []int) {
			defer wg.Done()
			<-start
			for _, i := range idx {
				o := in.Ops[i]
				for k := 0; k < o.D; k++ {
					runtime.Gosched()
				}
				tk := task{id: uint64(i + 1), shard: shardOf(in, o.H), work: o.W}
				switch o.K {
				case "sub":
					r.doSubmit(q, context.Background(), tk, false)
				case "subw":
					r.doSubmit(q, context.Background(), tk, true)
				case "subc":
					r.doSubmit(q, cancelled, tk, false)
				case "suby":
					r.doSubmit(q, yieldCtx{context.Background(), 1 + o.D}, tk, false)
				case "close":
					r.doClose(q)
				}
			}
		}(per[t])
	}
	close(start)
	wg.Wait()
	r.doClose(q)
	// anything still running now ran after Close returned: give it time to show up
	time.Sleep(300 * time.Microsecond)
	return r
}

// ---- scripted schedules for the confirmed defects ---------------------------------------------

// gateCtx parks the caller inside its at-th ctx.Err() call: BoundedPool.submit calls Err() once, right
// after its closed check; BoundedBatchPool.Submit calls it a second time inside the admissionMu.RLock
// section, right after the second closed check.
type gateCtx struct {
	context.Context
	at               int32
	calls            atomic.Int32
	entered, release chan struct{}
}

func newGate(at int32) *gateCtx {
	return &gateCtx{Context: context.Background(), at: at, entered: make(chan struct{}), release: make(chan struct{})}
}

func (g *gateCtx) Err() error {
	if g.calls.Add(1) == g.at {
		close(g.entered)
		<-g.release
	}
	return nil
}
func (g *gateCtx) Done() <-chan struct{} { return nil }

// yieldCtx deschedules the caller n times inside every ctx.Err() call.
type yieldCtx struct {
	context.Context
	n int
}

func (y yieldCtx) Err() error {
	for i := 0; i < y.n; i++ {
		runtime.Gosched()
	}
	return nil
}
func (y yieldCtx) Done() <-chan struct{} { return nil }

func lostIn(r *recorder) bool {
	seen := map[uint64]bool{}
	for _, x := range r.runs {
		seen[x.task] = true
	}
	for _, x := range r.cans {
		seen[x.task] = true
	}
	for _, s := range r.subs {
		if s.res == 0 && !seen[s.task] {
			return true
		}
	}
	return false
}

// k1: BoundedPool — Submit passes closed.Load, Close runs to completion, Submit continues:
// both selects have two ready cases; with probability 1/4 the item is queued after the dispatcher left.
func scenarioK1(in input) *recorder {
	var r *recorder
	for attempt := 0; attempt < 64; attempt++ {
		r = &recorder{}
		q := build(in, r)
		r.doSubmit(q, context.Background(), task{id: 1, work: 0}, false)
		g := newGate(1)
		done := make(chan struct{})
		go func() { r.doSubmit(q, g, task{id: 2}, false); close(done) }()
		<-g.entered
		r.doClose(q)
		close(g.release)
		<-done
		time.Sleep(300 * time.Microsecond)
		if lostIn(r) {
			break
		}
	}
	return r
}

// gate: the Submit is parked INSIDE its admission critical section (BoundedBatchPool: second ctx.Err(), under
// admissionMu.RLock) while Close is called. The real Close cannot store closed before the Submit leaves the
// section, so the item is queued before stop is closed and is drained; a Close that does not exclude the
// section completes first and the item is stranded (no known finding for this configuration).
func scenarioGate(in input) *recorder {
	var r *recorder
	for attempt := 0; attempt < 8; attempt++ {
		r = &recorder{}
		q := build(in, r)
		r.doSubmit(q, context.Background(), task{id: 1}, false)
		g := newGate(2)
		done := make(chan struct{})
		go func() { r.doSubmit(q, g, task{id: 2}, false); close(done) }()
		<-g.entered
		closed := make(chan struct{})
		go func() { r.doClose(q); close(closed) }()
		select {
		case <-closed:
		case <-time.After(15 * time.Millisecond):
		}
		close(g.release)
		<-done
		<-closed
		time.Sleep(300 * time.Microsecond)
		if lostIn(r) {
			break
		}
	}
	return r
}

// spin: every producer hammers Submit (no pauses, trivial handlers, yields on ErrFull, stops on ErrClosed or
// after Per calls) while Close is called a few microseconds after the start — producers are in the middle of their
// admission sections when Close publishes its flags. Repeated Trials times on fresh queues; the history of the first
// trial that lost an admitted task (else of the last trial) is reported.
func scenarioSpin(in input) *recorder {
	var r *recorder
	trials, per := in.Trials, in.Per
	if trials <= 0 {
		trials = 1
	}
	if per <= 0 {
		per = 20
	}
	for trial := 0; trial < trials; trial++ {
		r = &recorder{}
		q := build(in, r)
		var wg sync.WaitGroup
		start := make(chan struct{})
		for t := 0; t < in.Threads; t++ {
			wg.Add(1)
			go func(t int) {
				defer wg.Done()
				<-start
				for j := 0; j < per; j++ {
					tk := task{id: uint64(t*per + j + 1), shard: shardOf(in, uint64(t+j))}
					switch r.doSubmit(q, context.Background(), tk, false) {
					case 1:
						runtime.Gosched()
					case 2:
						return
					}
				}
			}(t)
		}
		close(start)
		spin((trial % 8) * 6)
		for k := 0; k < trial%3; k++ {
			runtime.Gosched()
		}
		r.doClose(q)
		wg.Wait()
		time.Sleep(200 * time.Microsecond)
		if lostIn(r) {
			break
		}
	}
	return r
}

// wqpin: BoundedWorkerQueue — "Submit calls are already contending for the admission lock when Close starts".
// The harness holds q.mu (export) the way a slow in-flight Submit would, parks real Submit calls and then a real
// Close behind it, gives the idle workers time to act on whatever Close has published so far, and releases the lock.
// Whatever order the waiters then get the lock in, every Submit that returns nil must be run before Close returns.
func scenarioWqPin(in input) *recorder {
	var r *recorder
	for round := 0; round < 3; round++ {
		r = &recorder{}
		p, err := workqueue.NewBoundedWorkerQueue[task](workqueue.BoundedWorkerQueueConfig{Name: "c37", Workers: in.Workers, QueueSize: in.QSize}, r.single)
		if err != nil {
			panic(err)
		}
		q := workerQ{p}
		r.doSubmit(q, context.Background(), task{id: 1}, false)
		p.VerifHoldAdmission()
		var wg sync.WaitGroup
		for i := 0; i < in.Threads; i++ {
			wg.Add(1)
			go func(i int) { defer wg.Done(); r.doSubmit(q, context.Background(), task{id: uint64(i + 2)}, false) }(i)
		}
		time.Sleep(2 * time.Millisecond) // submitters are parked on q.mu
		closed := make(chan struct{})
		go func() { r.doClose(q); close(closed) }()
		time.Sleep(5 * time.Millisecond) // Close is parked behind them; workers act on what it has published
		p.VerifReleaseAdmission()
		wg.Wait()
		<-closed
		time.Sleep(200 * time.Microsecond)
		if lostIn(r) {
			break
		}
	}
	return r
}

// k2: ShardedMailbox — the drain has seen its queue empty and is parked in its deferred
// observation; an item is admitted (scheduled is still true, so no new drain is scheduled),
// Close starts, finishShardDrain sees closed and does not reschedule.
func scenarioK2(in input) *recorder {
	var r *recorder
	for attempt := 0; attempt < 32; attempt++ {
		r = &recorder{}
		var q queue
		var ends atomic.Int64
		closed := make(chan struct{})
		r.hook = func(o workqueue.ShardedMailboxObservation, end bool) {
			if !end || ends.Add(1) != 1 {
				return
			}
			r.doSubmit(q, context.Background(), task{id: 2, shard: 0}, false)
			go func() { r.doClose(q); close(closed) }()
			time.Sleep(2 * time.Millisecond) // Close has stored closed=true; it now waits for this drain
		}
		q = build(in, r)
		r.doSubmit(q, context.Background(), task{id: 1, shard: 0}, false)
		<-closed
		time.Sleep(300 * time.Microsecond)
		if lostIn(r) {
			break
		}
	}
	return r
}

// k3 / k4: BoundedBatchPool, one worker kept busy by item 1, dispatcher retrying item 2 against the
// saturated executor, items 3.. still queued when Close starts.
func scenarioBatch(in input) *recorder {
	r := &recorder{}
	block := make(chan struct{})
	started := make(chan struct{}, 1)
	cfg := workqueue.BoundedBatchPoolConfig[task]{Name: "c37", Workers: 1, QueueSize: in.QSize,
		CancelAcceptedOnClose: in.CancelAcc, CancelRunningOnClose: in.CancelRun, CancelAccepted: r.cancelHook}
	p, err := workqueue.NewBoundedBatchPool[task](cfg, func(ctx context.Context, ts []task) error {
		b := r.tick()
		if ts[0].id == 1 {
			started <- struct{}{}
			<-block
		}
		e := r.tick()
		r.mu.Lock()
		for i, t := range ts {
			r.runs = append(r.runs, runRec{t.id, 0, b, e, uint64(i)})
		}
		r.mu.Unlock()
		return nil
	})
	if err != nil {
		panic(err)
	}
	q := batchQ{p}
	n := len(in.Ops)
	if n < 3 {
		n = 4
	}
	for i := 1; i <= n; i++ {
		r.doSubmit(q, context.Background(), task{id: uint64(i)}, false)
		if i == 1 {
			<-started
		}
	}
	time.Sleep(2 * time.Millisecond)
	done := make(chan struct{})
	go func() { r.doClose(q); close(done) }()
	time.Sleep(3 * time.Millisecond)
	close(block)
	<-done
	time.Sleep(300 * time.Microsecond)
	return r
}

// ---- rendering ---------------------------------------------------------------------------------

func pairDrains(evs []drainEv) ([]drnRec, bool) {
	sort.Slice(evs, func(i, j int) bool { return evs[i].at < evs[j].at })
	open := map[uint64][]uint64{}
	var out []drnRec
	okPair := true
	for _, e := range evs {
		if !e.end {
			open[e.shard] = append(open[e.shard], e.at)
			continue
		}
		l := open[e.shard]
		if len(l) == 0 {
			okPair = false
			continue
		}
		out = append(out, drnRec{e.shard, l[0], e.at})
		open[e.shard] = l[1:]
	}
	for _, l := range open {
		if len(l) > 0 {
			okPair = false
		}
	}
	return out, okPair
}

func resName(i int) string { return [...]string{"ROk", "RFull", "RClosed", "RCtx"}[i] }

func run(in input) vh.Result {
	norm(&in)
	var r *recorder
	switch in.Scenario {
	case "":
		r = runGeneric(in)
	case "k1":
		in.Kind = "pool"
		r = scenarioK1(in)
	case "gate":
		in.Kind, in.CancelAcc, in.CancelRun = "batch", false, false
		r = scenarioGate(in)
	case "spin":
		r = scenarioSpin(in)
	case "wqpin":
		in.Kind = "worker"
		r = scenarioWqPin(in)
	case "k2":
		in.Kind, in.Shards, in.Workers = "mailbox", 1, 1
		r = scenarioK2(in)
	case "k3":
		in.Kind, in.CancelAcc, in.CancelRun, in.Batch, in.Workers = "batch", false, true, 0, 1
		r = scenarioBatch(in)
	case "k4":
		in.Kind, in.CancelAcc, in.Batch, in.Workers = "batch", true, 0, 1
		r = scenarioBatch(in)
	default:
		panic("unknown scenario " + in.Scenario)
	}
	r.mu.Lock()
	defer r.mu.Unlock()
	drains, paired := pairDrains(r.devs)
	if !paired {
		panic("mailbox worker observations do not pair up as drain begin/end: drainScheduledShard changed shape (correspondence broken)")
	}
	sort.Slice(r.subs, func(i, j int) bool { return r.subs[i].task < r.subs[j].task })
	sort.Slice(r.runs, func(i, j int) bool {
		if r.runs[i].b != r.runs[j].b {
			return r.runs[i].b < r.runs[j].b
		}
		return r.runs[i].pos < r.runs[j].pos
	})
	sort.Slice(r.cans, func(i, j int) bool { return r.cans[i].at < r.cans[j].at })
	sort.Slice(r.clos, func(i, j int) bool { return r.clos[i].e < r.clos[j].e })

	kind := map[string]string{"pool": "KPool", "batch": "KBatch", "worker": "KWorker", "mailbox": "KMailbox"}[in.Kind]
	shards := in.Shards
	if shards == 0 {
		shards = 1
	}
	cfg := vh.App("Cfg", kind, vh.N(uint64(in.Workers)), vh.N(uint64(in.QSize)), vh.N(uint64(shards)),
		vh.N(uint64(effBatch(in))), vh.B(in.CancelAcc && in.Kind == "batch"), vh.B(in.CancelRun && in.Kind == "batch"))
	coq := vh.App("Hist", cfg,
		vh.ListOf(r.subs, func(s subRec) string {
			return vh.App("Sub", vh.N(s.task), vh.N(s.shard), vh.N(s.b), vh.N(s.e), resName(s.res))
		}),
		vh.ListOf(r.runs, func(x runRec) string {
			return vh.App("Run", vh.N(x.task), vh.N(x.shard), vh.N(x.b), vh.N(x.e), vh.N(x.pos))
		}),
		vh.ListOf(r.cans, func(x canRec) string { return vh.App("Can", vh.N(x.task), vh.N(x.at)) }),
		vh.ListOf(r.clos, func(x cloRec) string { return vh.App("Clo", vh.N(x.b), vh.N(x.e), vh.B(x.ok)) }),
		vh.ListOf(drains, func(x drnRec) string { return vh.App("Drn", vh.N(x.shard), vh.N(x.b), vh.N(x.e)) }))

	// distribution class
	var nOk, nFull, nClosed, nCtx, maxPos int
	for _, s := range r.subs {
		switch s.res {
		case 0:
			nOk++
		case 1:
			nFull++
		case 2:
			nClosed++
		default:
			nCtx++
		}
	}
	term := map[uint64]bool{}
	for _, x := range r.runs {
		term[x.task] = true
		if int(x.pos) > maxPos {
			maxPos = int(x.pos)
		}
	}
	for _, x := range r.cans {
		term[x.task] = true
	}
	lost := 0
	for _, s := range r.subs {
		if s.res == 0 && !term[s.task] {
			lost++
		}
	}
	closeRace := false // some Submit call overlapped the first Close call
	if len(r.clos) > 0 {
		c := r.clos[0]
		for _, s := range r.subs {
			if s.b < c.e && c.b < s.e {
				closeRace = true
			}
		}
	}
	class := fmt.Sprintf("%s%s,full=%v,closed=%v,batched=%v,cancelled=%v,closerace=%v,lost=%v", in.Kind,
		map[bool]string{true: "+ca", false: ""}[in.CancelAcc && in.Kind == "batch"]+map[bool]string{true: "+cr", false: ""}[in.CancelRun && in.Kind == "batch"],
		nFull > 0, nClosed > 0, maxPos > 0, len(r.cans) > 0, closeRace, lost > 0)
	if in.Scenario == "spin" {
		class = "spin-" + class
	} else if in.Scenario != "" {
		class = "scenario-" + in.Scenario + fmt.Sprintf(",lost=%v", lost > 0)
	}
	obs := map[string]any{"subs": len(r.subs), "ok": nOk, "full": nFull, "closed": nClosed, "ctx": nCtx, "runs": len(r.runs),
		"cancels": len(r.cans), "closes": len(r.clos), "drains": len(drains), "lost": lost}
	if lost > 0 || len(r.subs) <= 12 {
		obs["history"] = coq
	}
	return vh.Result{Coq: coq, Obs: obs, Class: class, Trivial: nOk < 2 && in.Scenario == ""}
}

// ---- generator ---------------------------------------------------------------------------------

func gen(r *rand.Rand, tier string, i int) input {
	in := input{Kind: vh.Pick(r, "pool", "batch", "batch", "worker", "mailbox", "mailbox")}
	in.Workers = vh.Pick(r, 1, 1, 2, 3, 4)
	in.QSize = vh.Pick(r, 1, 2, 3, 4, 8, 16)
	in.Threads = 2 + r.IntN(6)
	switch in.Kind {
	case "batch":
		in.Batch = vh.Pick(r, 0, 1, 2, 3, 5, 32)
		in.WaitUs = vh.Pick(r, 0, 0, 20, 200)
		switch r.IntN(6) {
		case 0:
			in.CancelAcc = true
		case 1:
			in.CancelRun = true
		case 2:
			in.CancelAcc, in.CancelRun = true, true
		}
	case "mailbox":
		in.Shards = vh.Pick(r, 1, 2, 3, 5)
		in.Batch = vh.Pick(r, 0, 1, 2, 4, 16)
		in.WaitUs = vh.Pick(r, 0, 0, 20, 200)
	}
	if r.IntN(10) == 0 {
		// racing submit/close trials: producers spin on Submit while Close is called
		in.Scenario = "spin"
		in.Kind = vh.Pick(r, "worker", "worker", "worker", "worker", "batch", "batch", "pool", "mailbox")
		in.CancelAcc, in.CancelRun = false, false
		in.Workers = vh.Pick(r, 1, 2, 3)
		in.QSize = vh.Pick(r, 1, 2, 4, 16)
		in.Threads = 4 + r.IntN(5)
		in.Per = 8 + r.IntN(25)
		in.Trials = 40
		if tier == "thorough" {
			in.Trials = 120
		}
		in.Ops = []op{}
		return in
	}
	n := 10 + r.IntN(70)
	if tier == "thorough" && r.IntN(4) == 0 {
		n += r.IntN(150)
	}
	heavy := r.IntN(3) == 0 // slow handlers: saturation, Full results, executor retries
	for j := 0; j < n; j++ {
		o := op{T: r.IntN(in.Threads), K: "sub", H: uint64(r.IntN(8))}
		switch r.IntN(20) {
		case 0:
			o.K = "subc"
		case 1, 2, 3:
			if in.Kind == "pool" || in.Kind == "worker" {
				o.K = "subw"
			}
		case 4, 5, 6, 7, 8:
			o.K = "suby"
		}
		if heavy {
			o.W = vh.Pick(r, 0, 5, 20, 60, 150)
		} else {
			o.W = vh.Pick(r, 0, 0, 0, 2, 10)
		}
		if r.IntN(4) == 0 {
			o.D = r.IntN(4)
		}
		in.Ops = append(in.Ops, o)
	}
	// one Close somewhere in the second half of one producer's work (4 of 5 cases); the
	// harness always closes again at the end
	if r.IntN(5) != 0 {
		pos := n/2 + r.IntN(n-n/2)
		in.Ops[pos].K = "close"
	}
	return in
}

func main() {
	vh.Main(vh.Harness[input]{Gen: gen, Run: run})
}
