// Harness for C36: send permission decisions are consistent across paths.
//
// One case = a configuration (system uids, system device id, person whitelist
// switch), a short list of send commands, and a store of raw permission facts
// that is a pure pseudo-random function of (case seed, read key).  The same
// commands are pushed through every permission path of message.App:
//
//	0  Send()                      point reads, no cache          (permission.go)
//	1  Send()                      read-through cache, cold       (permission_cache.go)
//	2  Send()                      same App again, cache warm
//	3  Send()                      same App after TTL expiry / ResetAfterRestore
//	4  SendBatch(all items)        PermissionBatchStore read plans (permission_batch.go)
//	5  SendBatch([item]) per item  read plan of a single-item batch
//	6  SendBatch(all items)        no batch store: per-group fallback workers
//	7  SendBatch(all items)        cached App: fallback through the cache
//
// Both store interfaces (PermissionStore and PermissionBatchStore) answer from
// the one fact function, and every read any path performs is logged with its
// answer; the log is the `facts` table of the Coq case.  Observed per item and
// path: reason, error class, channel id handed to the (fake) submitter.
package main

import (
	"context"
	"encoding/base64"
	"errors"
	"fmt"
	"io"
	"math/rand/v2"
	"sort"
	"strconv"
	"strings"
	"sync"
	"time"

	"github.com/WuKongIM/WuKongIM/internal/contracts/channelmembers"
	"github.com/WuKongIM/WuKongIM/internal/usecase/message"
	"github.com/WuKongIM/WuKongIM/internal/verifh/vh"
	metadb "github.com/WuKongIM/WuKongIM/pkg/db/meta"
	"github.com/WuKongIM/WuKongIM/pkg/protocol/channelid"
)

type item struct {
	From   string `json:"from"`
	Dev    string `json:"dev"`
	Chan   string `json:"chan"`
	Type   uint8  `json:"type"`
	Norm   bool   `json:"norm"`
	Req    bool   `json:"req"`
	Scoped int    `json:"scoped"`
}

type input struct {
	Seed      uint64   `json:"seed"`
	PBad      int      `json:"pbad"`  // percent: a "rejecting" flag / list entry is set
	PErr      int      `json:"perr"`  // percent: a read fails
	PMiss     int      `json:"pmiss"` // percent: a channel row is absent
	SysUIDs   []string `json:"sys"`
	SysNil    bool     `json:"sysnil"` // Options.SystemUIDs left nil
	SysDev    string   `json:"sysdev"`
	Whitelist bool     `json:"wl"`
	Reset     bool     `json:"reset"` // path 3: ResetAfterRestore instead of TTL expiry
	Ops       []item   `json:"ops"`
}

// ---- the fact store ---------------------------------------------------------------

var errStore = errors.New("verif: store failure")

const listPrefix = "__wk_internal_memberlist__/"

// parseListID inverts channelmembers.{Deny,Allow}listChannelID: (1|2, key type, key id);
// 0 for an ordinary id. The inversion is checked by re-encoding.
func parseListID(id string) (kind uint64, ltype uint64, plain string) {
	if !strings.HasPrefix(id, listPrefix) {
		return 0, 0, id
	}
	parts := strings.Split(id[len(listPrefix):], "/")
	if len(parts) != 3 {
		return 0, 0, id
	}
	t, err := strconv.ParseUint(parts[1], 10, 8)
	if err != nil {
		return 0, 0, id
	}
	raw, err := base64.RawURLEncoding.DecodeString(parts[2])
	if err != nil {
		return 0, 0, id
	}
	key := channelmembers.ChannelKey{ChannelID: string(raw), ChannelType: uint8(t)}
	switch {
	case parts[0] == "deny" && channelmembers.DenylistChannelID(key) == id:
		return 1, t, string(raw)
	case parts[0] == "allow" && channelmembers.AllowlistChannelID(key) == id:
		return 2, t, string(raw)
	}
	return 0, 0, id
}

type world struct {
	in    *input
	mu    sync.Mutex
	order []message.PermissionRead
	seen  map[message.PermissionRead]message.PermissionReadResult
}

func newWorld(in *input) *world {
	return &world{in: in, seen: map[message.PermissionRead]message.PermissionReadResult{}}
}

func fnv(h uint64, s string) uint64 {
	for i := 0; i < len(s); i++ {
		h ^= uint64(s[i])
		h *= 1099511628211
	}
	h ^= 0xff
	h *= 1099511628211
	return h
}

func flagValue(r *rand.Rand, pct int) int64 {
	if r.IntN(100) >= pct {
		return 0
	}
	return vh.Pick(r, int64(1), 1, 2, -1)
}

// answer is a pure function of (seed, read).
func (w *world) answer(rd message.PermissionRead) message.PermissionReadResult {
	w.mu.Lock()
	defer w.mu.Unlock()
	if res, ok := w.seen[rd]; ok {
		return res
	}
	h := fnv(14695981039346656037^w.in.Seed, strconv.Itoa(int(rd.Kind)))
	h = fnv(h, rd.ChannelID)
	h = fnv(h, strconv.FormatInt(rd.ChannelType, 10))
	h = fnv(h, rd.UID)
	r := rand.New(rand.NewPCG(h, w.in.Seed))
	kind, _, _ := parseListID(rd.ChannelID)
	var res message.PermissionReadResult
	res.Found = r.IntN(100) >= w.in.PMiss
	res.Channel = metadb.Channel{
		ChannelID: rd.ChannelID, ChannelType: rd.ChannelType,
		SendBan: flagValue(r, w.in.PBad), Ban: flagValue(r, w.in.PBad), Disband: flagValue(r, w.in.PBad),
		AllowStranger: flagValue(r, 50),
	}
	switch {
	case rd.Kind == message.PermissionReadSubscriberHasAny:
		res.Value = r.IntN(100) < 60
	case kind == 1: // deny list entry
		res.Value = r.IntN(100) < w.in.PBad
	case kind == 2: // allow list entry
		res.Value = r.IntN(100) < 50
	default: // ordinary subscriber
		res.Value = r.IntN(100) >= w.in.PBad
	}
	if r.IntN(100) < w.in.PErr {
		res.Err = errStore
	}
	w.seen[rd] = res
	w.order = append(w.order, rd)
	return res
}

// pointStore is the PermissionStore view of the facts.
type pointStore struct{ w *world }

func (s pointStore) GetChannelForPermission(_ context.Context, id string, t int64) (metadb.Channel, error) {
	res := s.w.answer(message.PermissionRead{Kind: message.PermissionReadChannel, ChannelID: id, ChannelType: t})
	if res.Err != nil {
		return metadb.Channel{}, res.Err
	}
	if !res.Found {
		return metadb.Channel{}, metadb.ErrNotFound
	}
	return res.Channel, nil
}

func (s pointStore) ContainsChannelSubscriber(_ context.Context, id string, t int64, uid string) (bool, error) {
	res := s.w.answer(message.PermissionRead{Kind: message.PermissionReadSubscriberContains, ChannelID: id, ChannelType: t, UID: uid})
	if res.Err != nil {
		return false, res.Err
	}
	return res.Value, nil
}

func (s pointStore) HasChannelSubscribers(_ context.Context, id string, t int64) (bool, error) {
	res := s.w.answer(message.PermissionRead{Kind: message.PermissionReadSubscriberHasAny, ChannelID: id, ChannelType: t})
	if res.Err != nil {
		return false, res.Err
	}
	return res.Value, nil
}

// batchStore is the PermissionBatchStore view of the same facts.
type batchStore struct{ w *world }

func (s batchStore) ReadPermissionsBatch(_ context.Context, reads []message.PermissionRead) []message.PermissionReadResult {
	out := make([]message.PermissionReadResult, len(reads))
	for i, rd := range reads {
		out[i] = s.w.answer(rd)
	}
	return out
}

type sysUIDs map[string]bool

func (s sysUIDs) IsSystemUID(uid string) bool { return s[uid] }

// ---- the submitter -----------------------------------------------------------------

type submitter struct {
	mu  sync.Mutex
	got map[uint64]string // ClientSeq -> channel id handed over
}

func (s *submitter) reset() {
	s.mu.Lock()
	s.got = map[uint64]string{}
	s.mu.Unlock()
}

func (s *submitter) Send(_ context.Context, cmd message.SendCommand) (message.SendResult, error) {
	s.mu.Lock()
	s.got[cmd.ClientSeq] = cmd.ChannelID
	s.mu.Unlock()
	return message.SendResult{Reason: message.ReasonSuccess, MessageID: 7, MessageSeq: 1}, nil
}

func (s *submitter) SendBatch(items []message.SendBatchItem) []message.SendBatchItemResult {
	out := make([]message.SendBatchItemResult, len(items))
	for i, it := range items {
		out[i].Result, out[i].Err = s.Send(context.Background(), it.Command)
	}
	return out
}

// ---- running one case ----------------------------------------------------------------

type obs struct {
	Reason uint8   `json:"reason"`
	Err    int     `json:"err"`
	Chan   *string `json:"chan,omitempty"`
}

func errClass(err error) int {
	switch {
	case err == nil:
		return 0
	case errors.Is(err, errStore):
		return 1
	case errors.Is(err, channelid.ErrInvalidPersonChannel):
		return 2
	case errors.Is(err, channelid.ErrInvalidAgentChannel):
		return 3
	}
	return 4
}

func command(i int, it item) message.SendCommand {
	cmd := message.SendCommand{
		FromUID: it.From, DeviceID: it.Dev, ChannelID: it.Chan, ChannelType: it.Type,
		NormalizePersonChannel: it.Norm, RequestScoped: it.Req,
		ClientSeq: uint64(i + 1), ClientMsgNo: "m" + strconv.Itoa(i), Payload: []byte("p"),
	}
	for k := 0; k < it.Scoped; k++ {
		cmd.MessageScopedUIDs = append(cmd.MessageScopedUIDs, "t"+strconv.Itoa(k))
	}
	return cmd
}

func run(in input) vh.Result {
	w := newWorld(&in)
	sub := &submitter{}
	clock := time.Unix(1_700_000_000, 0)
	var checker message.SystemUIDChecker
	if !in.SysNil {
		m := sysUIDs{}
		for _, u := range in.SysUIDs {
			m[u] = true
		}
		checker = m
	}
	base := message.Options{
		Submitter: sub, PermissionStore: pointStore{w}, SystemUIDs: checker,
		PersonWhitelistEnabled: in.Whitelist, SystemDeviceID: in.SysDev,
		Now: func() time.Time { return clock },
	}
	withBatch, withCache := base, base
	withBatch.PermissionBatchStore = batchStore{w}
	withCache.PermissionCacheTTL = 10 * time.Second
	withCache.PermissionBatchStore = batchStore{w} // must be ignored while the cache is on
	appPoint, appBatch, appCache := message.New(base), message.New(withBatch), message.New(withCache)

	n := len(in.Ops)
	collect := func(reasons []uint8, errs []error) []obs {
		out := make([]obs, n)
		sub.mu.Lock()
		defer sub.mu.Unlock()
		for i := range out {
			out[i] = obs{Reason: reasons[i], Err: errClass(errs[i])}
			if ch, ok := sub.got[uint64(i+1)]; ok {
				c := ch
				out[i].Chan = &c
			}
		}
		return out
	}
	single := func(app *message.App) []obs {
		sub.reset()
		reasons, errs := make([]uint8, n), make([]error, n)
		for i, it := range in.Ops {
			res, err := app.Send(context.Background(), command(i, it))
			reasons[i], errs[i] = uint8(res.Reason), err
		}
		return collect(reasons, errs)
	}
	batchAll := func(app *message.App) []obs {
		sub.reset()
		items := make([]message.SendBatchItem, n)
		for i, it := range in.Ops {
			items[i] = message.SendBatchItem{Context: context.Background(), Command: command(i, it)}
		}
		res := app.SendBatch(items)
		reasons, errs := make([]uint8, n), make([]error, n)
		for i := range res {
			reasons[i], errs[i] = uint8(res[i].Result.Reason), res[i].Err
		}
		return collect(reasons, errs)
	}
	batchEach := func(app *message.App) []obs {
		sub.reset()
		reasons, errs := make([]uint8, n), make([]error, n)
		for i, it := range in.Ops {
			res := app.SendBatch([]message.SendBatchItem{{Command: command(i, it)}})
			reasons[i], errs[i] = uint8(res[0].Result.Reason), res[0].Err
		}
		return collect(reasons, errs)
	}

	paths := make([][]obs, 8)
	paths[0] = single(appPoint)
	paths[1] = single(appCache)
	paths[2] = single(appCache)
	if in.Reset {
		appCache.ResetAfterRestore()
	} else {
		clock = clock.Add(11 * time.Second)
	}
	paths[3] = single(appCache)
	paths[4] = batchAll(appBatch)
	paths[5] = batchEach(appBatch)
	paths[6] = batchAll(appPoint)
	paths[7] = batchAll(appCache)

	// ---- Coq term
	sysList := in.SysUIDs
	if in.SysNil {
		sysList = nil
	}
	cfg := vh.App("PCfg", vh.ListOf(sysList, vh.HexS), vh.HexS(in.SysDev), vh.B(in.Whitelist))
	w.mu.Lock()
	table := make([]string, len(w.order))
	for i, rd := range w.order {
		res := w.seen[rd]
		kind, lt, plain := parseListID(rd.ChannelID)
		table[i] = vh.Pair(
			vh.App("PRead", vh.N(uint64(rd.Kind)), vh.N(kind), vh.N(lt), vh.HexS(plain), vh.N(uint64(rd.ChannelType)), vh.HexS(rd.UID)),
			vh.App("RR", vh.B(res.Found), vh.B(res.Channel.SendBan != 0), vh.B(res.Channel.Ban != 0),
				vh.B(res.Channel.Disband != 0), vh.B(res.Channel.AllowStranger != 0), vh.B(res.Value), vh.B(res.Err != nil)))
	}
	w.mu.Unlock()
	cmds := vh.ListOf(in.Ops, func(it item) string {
		return vh.App("PCmd", vh.HexS(it.From), vh.HexS(it.Dev), vh.HexS(it.Chan), vh.N(uint64(it.Type)),
			vh.B(it.Norm), vh.B(it.Req), vh.N(uint64(it.Scoped)))
	})
	pathTerms := make([]string, len(paths))
	for p, os := range paths {
		pathTerms[p] = vh.Pair(vh.N(uint64(p)), vh.ListOf(os, func(o obs) string {
			ch := vh.None()
			if o.Chan != nil {
				ch = vh.Some(vh.HexS(*o.Chan))
			}
			return vh.App("Obs", vh.N(uint64(o.Reason)), vh.N(uint64(o.Err)), ch)
		}))
	}
	coq := vh.App("C36Case", cfg, vh.List(table), cmds, vh.List(pathTerms))

	// ---- histogram class: first item, its decision on path 0, whether any path deviates
	class, trivial := "empty", n == 0
	if n > 0 {
		dev := "same"
		for p := 1; p < len(paths) && dev == "same"; p++ {
			for i := range paths[p] {
				a, b := paths[0][i], paths[p][i]
				if a.Reason != b.Reason || a.Err != b.Err || (a.Chan == nil) != (b.Chan == nil) || (a.Chan != nil && *a.Chan != *b.Chan) {
					dev = "DIFF"
					break
				}
			}
		}
		it := in.Ops[0]
		trust := "user"
		if !in.SysNil && contains(in.SysUIDs, it.From) {
			trust = "sysuid"
		} else if in.SysDev != "" && it.Dev == in.SysDev {
			trust = "sysdev"
		}
		class = fmt.Sprintf("type=%s,%s,reason=%d,err=%d,%s", typeName(it.Type), trust, paths[0][0].Reason, paths[0][0].Err, dev)
	}
	return vh.Result{
		Coq:     coq,
		Obs:     map[string]any{"paths": paths, "reads": len(w.order)},
		Class:   class,
		Trivial: trivial,
	}
}

func contains(xs []string, x string) bool {
	for _, y := range xs {
		if x == y {
			return true
		}
	}
	return false
}

func typeName(t uint8) string {
	switch t {
	case message.VerifChannelTypePerson:
		return "person"
	case message.VerifChannelTypeGroup:
		return "group"
	case message.VerifChannelTypeCustomerService:
		return "cs"
	case message.VerifChannelTypeInfo:
		return "info"
	case message.VerifChannelTypeVisitors:
		return "visitors"
	case message.VerifChannelTypeAgent:
		return "agent"
	}
	return "other"
}

// ---- generator -----------------------------------------------------------------------

const suffix = channelid.CommandChannelSuffix

func genItem(r *rand.Rand, tier string) item {
	uids := []string{"a", "b", "c", "sys", "s2", "x"}
	it := item{
		From: vh.Pick(r, "a", "a", "b", "c", "sys", "s2", "a", "b"),
		Dev:  vh.Pick(r, "d1", "d1", "sysdev", ""),
	}
	if r.IntN(40) == 0 {
		it.From = vh.Pick(r, "", "b"+suffix, "a@b")
	}
	withSuffix := func(s string, p1, p2 int) string {
		k := r.IntN(100)
		switch {
		case k < p2:
			return s + suffix + suffix
		case k < p2+p1:
			return s + suffix
		}
		return s
	}
	p2 := 2 // percent of ids whose permission id still carries the command suffix (known finding C36-K1)
	switch k := r.IntN(100); {
	case k < 36:
		it.Type = message.VerifChannelTypePerson
		it.Norm = r.IntN(10) < 7
		peer := vh.Pick(r, uids...)
		if r.IntN(100) < p2 {
			peer += suffix
		}
		switch r.IntN(12) {
		case 0, 1, 2:
			it.Chan = peer
		case 3, 4:
			it.Chan = it.From + "@" + peer
		case 5, 6:
			it.Chan = peer + "@" + it.From
		case 7, 8:
			it.Chan = channelid.EncodePersonChannel(it.From, peer)
		case 9:
			it.Chan = vh.Pick(r, "b@c", "c@x", "x@sys")
		case 10:
			it.Chan = vh.Pick(r, "@"+peer, peer+"@", "a@b@c", "", "@")
		default:
			it.Chan = channelid.EncodePersonChannel(peer, vh.Pick(r, uids...))
		}
		it.Chan = withSuffix(it.Chan, 18, p2)
	case k < 72:
		it.Type = message.VerifChannelTypeGroup
		it.Norm = r.IntN(10) == 0
		it.Chan = withSuffix(vh.Pick(r, "g1", "g1", "g2", "g3"), 18, p2)
	case k < 80:
		it.Type = message.VerifChannelTypeVisitors
		it.Chan = withSuffix(vh.Pick(r, it.From, "v1", "v2"), 10, 1)
	case k < 88:
		it.Type = message.VerifChannelTypeAgent
		it.Chan = withSuffix(vh.Pick(r, it.From+"@bot", "bot@"+it.From, "c@bot", "bot", "@", "a@b@c", "x@"), 10, 1)
	case k < 92:
		it.Type = message.VerifChannelTypeCustomerService
		it.Chan = withSuffix(vh.Pick(r, "c1", "c2"), 15, 1)
	case k < 96:
		it.Type = message.VerifChannelTypeInfo
		it.Chan = withSuffix(vh.Pick(r, "c1", "c2"), 15, 1)
	default:
		it.Type = vh.Pick(r, uint8(0), 4, 5, 7, 200, 255)
		it.Chan = withSuffix(vh.Pick(r, "c1", "g1", "a@b"), 15, 1)
	}
	switch r.IntN(40) {
	case 0:
		it.Req = true
	case 1:
		it.Scoped = 1 + r.IntN(2)
	case 2:
		it.Scoped = 1
		it.Chan = ""
	}
	return it
}

func gen(r *rand.Rand, tier string, i int) input {
	in := input{
		Seed:      r.Uint64() >> 1, // JSON numbers: keep below 2^63
		PBad:      vh.Pick(r, 0, 10, 25, 25, 40),
		PErr:      vh.Pick(r, 0, 0, 0, 4, 10),
		PMiss:     vh.Pick(r, 5, 15, 40),
		SysUIDs:   vh.Pick(r, []string{"sys"}, []string{"sys", "s2"}, []string{"sys", "b"}, []string{}),
		SysNil:    r.IntN(8) == 0,
		SysDev:    vh.Pick(r, "sysdev", "sysdev", ""),
		Whitelist: r.IntN(2) == 0,
		Reset:     r.IntN(2) == 0,
	}
	// a small pool of commands; half of the later ones share the previous command's channel with
	// another sender / device, so that one case holds several senders' facts about one channel
	// (distinct cache keys and batch reads that differ only in the uid)
	pool := make([]item, 1+r.IntN(5))
	for k := range pool {
		pool[k] = genItem(r, tier)
		if k > 0 && r.IntN(2) == 0 {
			prev := pool[k-1]
			pool[k] = prev
			switch r.IntN(4) {
			case 0:
				pool[k].Dev = vh.Pick(r, "d1", "sysdev", "")
			default:
				pool[k].From = vh.Pick(r, "a", "b", "c", "sys", "x")
			}
		}
	}
	n := 1 + r.IntN(7)
	if tier == "thorough" && r.IntN(10) == 0 {
		n = 6 + r.IntN(10)
	}
	for k := 0; k < n; k++ {
		in.Ops = append(in.Ops, pool[r.IntN(len(pool))])
	}
	return in
}

// ---- constants -------------------------------------------------------------------------

func emitConsts(w io.Writer) {
	fmt.Fprintln(w, "(* GENERATED by harness/cmd/C36 -emit-consts from the compiled /repo tree. Do not edit. *)")
	fmt.Fprintln(w, "From WK Require Import Base.Base.")
	fmt.Fprintln(w, "Open Scope N_scope.")
	fmt.Fprintln(w, "(* internal/contracts/channelappend Reason values used by the permission code *)")
	reasons := []struct {
		name string
		v    message.Reason
	}{
		{"ReasonSuccess", message.ReasonSuccess}, {"ReasonChannelNotExist", message.ReasonChannelNotExist},
		{"ReasonSystemError", message.ReasonSystemError}, {"ReasonSubscriberNotExist", message.ReasonSubscriberNotExist},
		{"ReasonInBlacklist", message.ReasonInBlacklist}, {"ReasonNotAllowSend", message.ReasonNotAllowSend},
		{"ReasonNotInWhitelist", message.ReasonNotInWhitelist}, {"ReasonBan", message.ReasonBan},
		{"ReasonDisband", message.ReasonDisband}, {"ReasonSendBan", message.ReasonSendBan},
	}
	for _, c := range reasons {
		fmt.Fprintf(w, "Definition %s : N := %d.\n", c.name, uint8(c.v))
	}
	fmt.Fprintln(w, "(* internal/usecase/message/send.go channel type constants *)")
	types := []struct {
		name string
		v    uint8
	}{
		{"channelTypePerson", message.VerifChannelTypePerson}, {"channelTypeGroup", message.VerifChannelTypeGroup},
		{"channelTypeCustomerService", message.VerifChannelTypeCustomerService}, {"channelTypeInfo", message.VerifChannelTypeInfo},
		{"channelTypeVisitors", message.VerifChannelTypeVisitors}, {"channelTypeAgent", message.VerifChannelTypeAgent},
	}
	for _, c := range types {
		fmt.Fprintf(w, "Definition %s : N := %d.\n", c.name, c.v)
	}
	fmt.Fprintln(w, "(* internal/usecase/message/app.go PermissionReadKind *)")
	fmt.Fprintf(w, "Definition PermissionReadChannel : N := %d.\n", message.PermissionReadChannel)
	fmt.Fprintf(w, "Definition PermissionReadSubscriberContains : N := %d.\n", message.PermissionReadSubscriberContains)
	fmt.Fprintf(w, "Definition PermissionReadSubscriberHasAny : N := %d.\n", message.PermissionReadSubscriberHasAny)
	fmt.Fprintln(w, "(* internal/usecase/message/permission_cache.go *)")
	fmt.Fprintf(w, "Definition permissionCacheMaxEntries : N := %d.\n", message.VerifPermissionCacheMaxEntries)
	// all reason values in use must be pairwise distinct for the precedence theorems to be about reasons
	vals := make([]int, 0, len(reasons))
	for _, c := range reasons {
		vals = append(vals, int(c.v))
	}
	sort.Ints(vals)
	fmt.Fprintf(w, "(* sorted reason values: %v *)\n", vals)
}

func main() {
	vh.Main(vh.Harness[input]{EmitConsts: emitConsts, Gen: gen, Run: run})
}
