package main

// pkg/cluster/propose/codec.go (payload envelope, forward request) and
// pkg/cluster/net/codec.go (version/kind header).

import (
	"encoding/binary"
	"math/rand/v2"
	"strings"

	"github.com/WuKongIM/WuKongIM/internal/verifh/vh"
	clusternet "github.com/WuKongIM/WuKongIM/pkg/cluster/net"
	"github.com/WuKongIM/WuKongIM/pkg/cluster/propose"
)

type payloadVal struct {
	HashSlot uint16
	Command  []byte
}

type headerVal struct {
	Version, Kind uint8
	Payload       []byte
}

func smallBytes(r *rand.Rand) []byte {
	switch r.IntN(6) {
	case 0:
		return nil
	case 1:
		return []byte{}
	case 2:
		return vh.Bytes(r, 40+r.IntN(80))
	default:
		return vh.Bytes(r, 1+r.IntN(16))
	}
}

func init() {
	register(&codec{
		name: "propose_payload", weight: 5,
		gen: func(r *rand.Rand) (any, string) {
			return payloadVal{HashSlot: uint16(vh.Pick(r, 0, 1, 255, 256, 65535, r.IntN(65536))), Command: smallBytes(r)}, ""
		},
		enc: func(v any) ([]byte, bool) {
			p := v.(payloadVal)
			return propose.EncodePayload(p.HashSlot, p.Command), true
		},
		dec: func(_ any, data []byte) (any, bool) {
			slot, cmd, err := propose.DecodePayload(data)
			return payloadVal{slot, cmd}, err == nil
		},
		payload: func(v any, hasV bool, data []byte, res any, resOK, same bool) string {
			pr := func(x any) string { p := x.(payloadVal); return vh.Pair(vh.N(uint64(p.HashSlot)), vh.Hex(p.Command)) }
			vt := vh.None()
			if hasV {
				vt = vh.Some(pr(v))
			}
			return vh.App("PProposePayload", vt, resTerm(resOK && !same, func() string { return pr(res) }))
		},
		rawHint: func(r *rand.Rand) []byte { return []byte{byte(vh.Pick(r, 1, 1, 1, 0, 2))} },
	})
	register(&codec{
		name: "propose_forward", weight: 9,
		gen: func(r *rand.Rand) (any, string) {
			req := propose.ForwardRequest{
				SlotID:   uint32(vh.Pick(r, 1, 2, 255, 65536, 1<<32-1, 1+r.IntN(1<<20))),
				HashSlot: uint16(vh.Pick(r, 0, 1, 65535, r.IntN(65536))),
				Class:    propose.ProposalClass(vh.Pick(r, 0, 0, 1, 1, 2, 255)),
				WantResult: vh.Chance(r, 0.5), Payload: smallBytes(r),
			}
			class := "ok"
			switch {
			case vh.Chance(r, 0.08):
				req.SlotID, class = 0, "slot0"
			case len(req.Payload) == 0:
				class = "nopayload"
			case req.Class > 1:
				class = "class-denormal"
			}
			return req, class
		},
		enc: func(v any) ([]byte, bool) {
			b, err := propose.EncodeForwardRequest(v.(propose.ForwardRequest))
			return b, err == nil
		},
		dec: func(_ any, data []byte) (any, bool) {
			req, err := propose.DecodeForwardRequest(data)
			return req, err == nil
		},
		payload: func(v any, hasV bool, data []byte, res any, resOK, same bool) string {
			pr := func(x any) string {
				q := x.(propose.ForwardRequest)
				return vh.App("ForwardRequest", vh.N(uint64(q.SlotID)), vh.N(uint64(q.HashSlot)), vh.N(uint64(q.Class)), vh.B(q.WantResult), vh.Hex(q.Payload))
			}
			vt := vh.None()
			if hasV {
				vt = vh.Some(pr(v))
			}
			return vh.App("PForward", vt, resTerm(resOK && !same, func() string { return pr(res) }))
		},
		// well-formed legacy (v1, v2) and current frames, so that the old layouts are decoded too
		rawHint: func(r *rand.Rand) []byte {
			payload := vh.Bytes(r, r.IntN(6))
			n := uint32(len(payload))
			if vh.Chance(r, 0.3) {
				n += uint32(r.IntN(3)) - 1
			}
			var b []byte
			switch r.IntN(3) {
			case 0:
				b = []byte{1}
			case 1:
				b = []byte{2, byte(r.IntN(4))}
			default:
				b = []byte{3, byte(r.IntN(4)), byte(r.IntN(4))}
			}
			b = binary.BigEndian.AppendUint32(b, uint32(r.IntN(5)))
			b = binary.BigEndian.AppendUint16(b, uint16(r.IntN(70000)))
			b = binary.BigEndian.AppendUint32(b, n)
			return append(b, payload...)
		},
	})
	register(&codec{
		name: "net_header", weight: 4,
		gen: func(r *rand.Rand) (any, string) {
			return headerVal{Version: uint8(vh.Pick(r, 1, 1, 2, 0, 255)), Kind: uint8(vh.Pick(r, 1, 2, 3, 9, 0, 255)), Payload: smallBytes(r)}, ""
		},
		enc: func(v any) ([]byte, bool) {
			h := v.(headerVal)
			return append(clusternet.PutHeader(nil, h.Version, h.Kind), h.Payload...), true
		},
		dec: func(v any, data []byte) (any, bool) {
			want := headerVal{Version: 1, Kind: 1}
			if v != nil {
				want = v.(headerVal)
			}
			p, err := clusternet.CheckHeader(data, want.Version, want.Kind)
			return headerVal{want.Version, want.Kind, p}, err == nil
		},
		payload: func(v any, hasV bool, data []byte, res any, resOK, same bool) string {
			want := headerVal{Version: 1, Kind: 1}
			if v != nil {
				want = v.(headerVal)
			}
			vt := vh.None()
			if hasV {
				vt = vh.Some(vh.Hex(want.Payload))
			}
			return vh.App("PNetHeader", vh.N(uint64(want.Version)), vh.N(uint64(want.Kind)), vt,
				resTerm(resOK && !same, func() string { return vh.Hex(res.(headerVal).Payload) }))
		},
		rawHint: func(r *rand.Rand) []byte { return []byte{byte(r.IntN(3)), byte(r.IntN(3))} },
	})
	constEmitters = append(constEmitters, func(sb *strings.Builder) {
		sb.WriteString("(* pkg/cluster/propose *)\n")
		defN(sb, "payloadVersion", uint64(propose.VerifPayloadVersion))
		defN(sb, "forwardVersionLegacy", uint64(propose.VerifForwardVersionLegacy))
		defN(sb, "forwardVersionClass", uint64(propose.VerifForwardVersionClass))
		defN(sb, "forwardVersion", uint64(propose.VerifForwardVersion))
		defN(sb, "forwardFlagWantResult", uint64(propose.VerifForwardFlagWantResult))
		defN(sb, "ProposalClassForeground", uint64(propose.ProposalClassForeground))
		defN(sb, "ProposalClassBackground", uint64(propose.ProposalClassBackground))
		// the envelopes copy the payload once
		defN(sb, "EnvelopeAllocBase", 65536)
		defN(sb, "EnvelopeAllocPerByte", 4)
	})
}
