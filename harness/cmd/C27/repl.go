package main

// pkg/channel/replication/codec.go: ExchangeBatch and ExchangeBatchResult.

import (
	"math/rand/v2"
	"reflect"
	"strings"

	"github.com/WuKongIM/WuKongIM/internal/verifh/vh"
	ch "github.com/WuKongIM/WuKongIM/pkg/channel"
	"github.com/WuKongIM/WuKongIM/pkg/channel/replication"
)

func init() {
	register(&codec{
		name: "repl_batch", weight: 18,
		gen: func(r *rand.Rand) (any, string) { return genBatch(r) },
		enc: func(v any) ([]byte, bool) {
			b, err := replication.EncodeExchangeBatch(v.(replication.ExchangeBatch))
			return b, err == nil
		},
		dec: func(_ any, data []byte) (any, bool) {
			b, err := replication.DecodeExchangeBatch(data)
			return b, err == nil
		},
		payload: func(v any, hasV bool, data []byte, res any, resOK, same bool) string {
			var bits []bool
			vt := vh.None()
			if hasV {
				b := v.(replication.ExchangeBatch)
				bits = batchValidBits(b)
				vt = vh.Some(coqBatch(b))
			} else {
				bits = replication.VerifExchangeBatchValidBits(data)
			}
			return vh.App("PReplBatch", boolList(bits), vt,
				resTerm(resOK && !same, func() string { return coqBatch(res.(replication.ExchangeBatch)) }))
		},
		rawHint: func(r *rand.Rand) []byte {
			return []byte{byte(replication.ExchangeVersion), byte(r.IntN(3)), byte(r.IntN(4)), byte(1 + r.IntN(3)), byte(r.IntN(5))}
		},
	})
	register(&codec{
		name: "repl_result", weight: 12,
		gen: func(r *rand.Rand) (any, string) { return genBatchResult(r) },
		enc: func(v any) ([]byte, bool) {
			b, err := replication.EncodeExchangeBatchResult(v.(replication.ExchangeBatchResult))
			return b, err == nil
		},
		dec: func(_ any, data []byte) (any, bool) {
			b, err := replication.DecodeExchangeBatchResult(data)
			return b, err == nil
		},
		payload: func(v any, hasV bool, data []byte, res any, resOK, same bool) string {
			vt := vh.None()
			if hasV {
				vt = vh.Some(coqBatchResult(v.(replication.ExchangeBatchResult)))
			}
			return vh.App("PReplResult", vt,
				resTerm(resOK && !same, func() string { return coqBatchResult(res.(replication.ExchangeBatchResult)) }))
		},
		rawHint: func(r *rand.Rand) []byte {
			return []byte{byte(replication.ExchangeVersion), byte(r.IntN(4)), byte(1 + r.IntN(3)), byte(r.IntN(9))}
		},
	})
	constEmitters = append(constEmitters, func(sb *strings.Builder) {
		sb.WriteString("(* pkg/channel/replication *)\n")
		defN(sb, "ExchangeVersion", uint64(replication.ExchangeVersion))
		defN(sb, "ExchangePriorityForeground", uint64(replication.ExchangePriorityForeground))
		defN(sb, "ExchangePriorityBackground", uint64(replication.ExchangePriorityBackground))
		defN(sb, "ExchangeReplicate", uint64(replication.ExchangeReplicate))
		defN(sb, "ExchangeProbe", uint64(replication.ExchangeProbe))
		defN(sb, "ExchangeFetch", uint64(replication.ExchangeFetch))
		defN(sb, "MaxExchangeBatchItems", uint64(replication.MaxExchangeBatchItems))
		defN(sb, "MaxExchangeBatchBytes", uint64(replication.MaxExchangeBatchBytes))
		defN(sb, "maxRecoveryProbeIndexes", uint64(replication.VerifMaxRecoveryProbeIndexes))
		defN(sb, "maxRecoveryReplacementProposals", uint64(replication.VerifMaxRecoveryReplacementProposals))
		// allocation ceiling of the exchange decoders: what the declared bounds permit.
		// One make() of at most 256 top-level items, and every further make() of at
		// most 256 elements costs at least one input byte (its count).
		sz := replication.VerifExchangeSizes()
		top := max(sz["ExchangeItem"], sz["ExchangeItemResult"])
		inner := uintptr(8)
		for _, k := range []string{"EntryProbe", "RecoveryProposal"} {
			inner = max(inner, sz[k])
		}
		inner = max(inner, sizeofRecord)
		defN(sb, "ReplAllocBase", uint64(replication.MaxExchangeBatchItems)*uint64(top)+65536)
		defN(sb, "ReplAllocPerByte", 256*uint64(inner))
	})
}

func batchValidBits(b replication.ExchangeBatch) []bool {
	bits := make([]bool, len(b.Items))
	for i, it := range b.Items {
		switch {
		case it.Replicate != nil:
			bits[i] = it.Replicate.Valid()
		case it.Probe != nil:
			bits[i] = it.Probe.Valid()
		case it.Fetch != nil:
			bits[i] = it.Fetch.Valid()
		}
	}
	return bits
}

// ---- generators --------------------------------------------------------------------------

func rnd32(r *rand.Rand) (d [32]byte) {
	for i := range d {
		d[i] = byte(r.UintN(256))
	}
	if d == ([32]byte{}) {
		d[0] = 1
	}
	return d
}

func smallU64(r *rand.Rand) uint64 {
	switch r.IntN(6) {
	case 0:
		return 1
	case 1:
		return uint64(1 + r.IntN(127))
	case 2:
		return uint64(128 + r.IntN(1<<14))
	case 3:
		return ^uint64(0) - uint64(r.IntN(2))
	default:
		return 1 + r.Uint64()>>uint(r.IntN(64))
	}
}

func genIdent(r *rand.Rand) (ch.ChannelKey, ch.ChannelID) {
	id := vh.Pick(r, "g1", "u1@u2", "room", "x") + randStr(r, 6)
	return ch.ChannelKey("k/" + id), ch.ChannelID{ID: id, Type: vh.Pick(r, uint8(1), 2, 5, 255)}
}

func genNodes(r *rand.Rand) (ch.NodeID, ch.NodeID) {
	a := ch.NodeID(1 + r.IntN(5))
	b := ch.NodeID(1 + r.IntN(5))
	if a == b {
		b = a + 1
	}
	return a, b
}

func genRecords(r *rand.Rand, n int, epoch, base uint64) []ch.Record {
	recs := make([]ch.Record, n)
	for i := range recs {
		var payload []byte
		switch r.IntN(5) {
		case 0:
			payload = nil
		case 1:
			payload = []byte{}
		case 2:
			payload = vh.Bytes(r, 100+r.IntN(200))
		default:
			payload = vh.Bytes(r, 1+r.IntN(12))
		}
		idx := uint64(0)
		if vh.Chance(r, 0.6) {
			idx = base + uint64(i) + 1
		}
		recs[i] = ch.Record{
			ID: smallU64(r), Index: idx, Epoch: epoch, Setting: uint8(r.UintN(256)),
			FromUID: randStr(r, 8), ClientMsgNo: randStr(r, 10),
			ServerTimestampMS: int64(1 + r.Int64N(1<<uint(1+r.IntN(62)))), SyncOnce: vh.Chance(r, 0.3),
			Payload: payload, SizeBytes: r.IntN(1 << uint(r.IntN(40))),
		}
	}
	return recs
}

// a sealed (manifest, records) pair that satisfies ReplicateRequest.Valid
func genProposal(r *rand.Rand, n int) (ch.ProposalManifest, []ch.Record) {
	epoch := smallU64(r)
	base := uint64(0)
	if vh.Chance(r, 0.6) {
		base = smallU64(r) >> 1
	}
	m := ch.ProposalManifest{
		Version: ch.ProposalManifestVersion, ChannelEpoch: epoch, LeaderTerm: smallU64(r), FenceVersion: smallU64(r),
		CommandID: ch.CommandID(rnd32(r)), BaseOffset: base, LastOffset: base + uint64(n), PreviousIndex: base,
	}
	if base != 0 {
		m.PreviousTerm = smallU64(r)
		m.PreviousDigest = ch.EntryDigest(rnd32(r))
	}
	recs := genRecords(r, n, epoch, base)
	if sealed, _, ok := ch.SealProposalManifest(m, recs); ok {
		m = sealed
	} else {
		m.Digest = ch.EntryDigest(rnd32(r))
	}
	return m, recs
}

func genEntryIdentity(r *rand.Rand, index uint64) ch.EntryIdentity {
	e := ch.EntryIdentity{
		Version: ch.ProposalManifestVersion, ChannelEpoch: smallU64(r), LeaderTerm: smallU64(r), FenceVersion: smallU64(r),
		Index: index, PreviousIndex: index - 1, CommandID: ch.CommandID(rnd32(r)), Digest: ch.EntryDigest(rnd32(r)),
	}
	if index > 1 {
		e.PreviousTerm = smallU64(r)
		e.PreviousDigest = ch.EntryDigest(rnd32(r))
	}
	return e
}

// a ReplicaState that satisfies validReplicaState with LEO = leo > 0
func genReplicaState(r *rand.Rand, leo uint64) replication.ReplicaState {
	tail := genEntryIdentity(r, leo)
	base := leo - 1 - uint64(r.IntN(int(min(leo, 3))))
	m := ch.ProposalManifest{
		Version: tail.Version, ChannelEpoch: tail.ChannelEpoch, LeaderTerm: tail.LeaderTerm, FenceVersion: tail.FenceVersion,
		CommandID: tail.CommandID, BaseOffset: base, LastOffset: leo, PreviousIndex: base, Digest: tail.Digest,
	}
	if base != 0 {
		m.PreviousTerm = smallU64(r)
		m.PreviousDigest = ch.EntryDigest(rnd32(r))
	}
	return replication.ReplicaState{LEO: leo, Committed: uint64(r.Int64N(int64(min(leo, 1<<40)) + 1)), Manifest: m, TailIdentity: tail}
}

func genIndexes(r *rand.Rand, max int) []uint64 {
	switch r.IntN(8) {
	case 0:
		return nil
	case 1:
		return []uint64{}
	case 2:
		n := max
		out := make([]uint64, n)
		for i := range out {
			out[i] = uint64(i + 1)
		}
		return out
	}
	n := 1 + r.IntN(4)
	out := make([]uint64, 0, n)
	seen := map[uint64]bool{}
	for len(out) < n {
		x := smallU64(r)
		if !seen[x] {
			seen[x] = true
			out = append(out, x)
		}
	}
	return out
}

func genReplicate(r *rand.Rand) *replication.ReplicateRequest {
	key, id := genIdent(r)
	l, f := genNodes(r)
	n := 1 + r.IntN(3)
	if vh.Chance(r, 0.03) {
		n = 40
	}
	m, recs := genProposal(r, n)
	return &replication.ReplicateRequest{ChannelKey: key, ChannelID: id, Leader: l, Follower: f, Manifest: m, Records: recs,
		Committed: m.BaseOffset + uint64(r.IntN(n+1)), ServerAllocatedMessageIDs: vh.Chance(r, 0.5)}
}

func genProbe(r *rand.Rand) *replication.ProbeRequest {
	key, id := genIdent(r)
	l, f := genNodes(r)
	return &replication.ProbeRequest{ChannelKey: key, ChannelID: id, Leader: l, Follower: f, Indexes: genIndexes(r, 256)}
}

func genFetch(r *rand.Rand) *replication.FetchRequest {
	key, id := genIdent(r)
	l, f := genNodes(r)
	from := uint64(1)
	if vh.Chance(r, 0.6) {
		from = 2 + smallU64(r)>>2
	}
	through := from + uint64(r.IntN(256))
	leo := through + uint64(r.IntN(3))
	q := &replication.FetchRequest{ChannelKey: key, ChannelID: id, Leader: l, Follower: f, Expected: genReplicaState(r, leo),
		From: from, Through: through, MaxBytes: 1 + r.IntN(1<<uint(1+r.IntN(30)))}
	if from > 1 {
		q.Previous = genEntryIdentity(r, from-1)
	}
	return q
}

func genBatch(r *rand.Rand) (replication.ExchangeBatch, string) {
	b := replication.ExchangeBatch{Version: replication.ExchangeVersion, Priority: replication.ExchangePriorityForeground}
	class := "fg"
	if vh.Chance(r, 0.3) {
		b.Priority = replication.ExchangePriorityBackground
		class = "bg"
	}
	n := 1 + r.IntN(3)
	switch r.IntN(60) {
	case 0:
		if b.Priority == replication.ExchangePriorityForeground || genTier == "thorough" {
			n, class = 256, class+"-256items"
		}
	case 1:
		if b.Priority == replication.ExchangePriorityForeground || genTier == "thorough" {
			n, class = 257, class+"-257items"
		}
	case 2:
		n, class = 0, class+"-0items"
	}
	for i := 0; i < n; i++ {
		it := replication.ExchangeItem{RequestID: smallU64(r)}
		k := r.IntN(3)
		if b.Priority == replication.ExchangePriorityBackground && vh.Chance(r, 0.9) || n > 8 {
			k = 0
		}
		if n > 8 {
			k = 1
			if b.Priority == replication.ExchangePriorityBackground {
				k = 0
			}
		}
		switch k {
		case 0:
			it.Kind, it.Replicate = replication.ExchangeReplicate, genReplicate(r)
			if n > 8 {
				it.Replicate.Records = it.Replicate.Records[:1]
				m, recs := genProposal(r, 1)
				it.Replicate.Manifest, it.Replicate.Records, it.Replicate.Committed = m, recs, m.BaseOffset
			}
		case 1:
			it.Kind, it.Probe = replication.ExchangeProbe, genProbe(r)
			if n > 8 {
				it.Probe.Indexes = []uint64{uint64(i + 1)}
			}
		default:
			it.Kind, it.Fetch = replication.ExchangeFetch, genFetch(r)
		}
		b.Items = append(b.Items, it)
	}
	// now and then break exactly one thing the encoder / Valid() must notice
	if len(b.Items) > 0 && vh.Chance(r, 0.12) {
		it := &b.Items[r.IntN(len(b.Items))]
		switch r.IntN(6) {
		case 0:
			it.RequestID, class = 0, class+"-reqid0"
		case 1:
			b.Version, class = 2, class+"-badversion"
		case 2:
			b.Priority, class = 2, class+"-badpriority"
		case 3:
			class += "-invalid"
			switch {
			case it.Replicate != nil:
				it.Replicate.Committed = it.Replicate.Manifest.LastOffset + 1
			case it.Probe != nil:
				it.Probe.Follower = it.Probe.Leader
			case it.Fetch != nil:
				it.Fetch.MaxBytes = 0
			}
		case 4:
			class += "-baddigest"
			if it.Replicate != nil {
				it.Replicate.Manifest.Digest[3] ^= 0x10
			} else if it.Probe != nil {
				it.Probe.Indexes = []uint64{7, 7}
			} else {
				it.Fetch.Through = it.Fetch.Expected.LEO + 1
			}
		default:
			class += "-badkind"
			it.Kind = replication.ExchangeKind(vh.Pick(r, 0, 4, 9))
		}
	}
	return b, class
}

func genManifestAny(r *rand.Rand) ch.ProposalManifest {
	if vh.Chance(r, 0.3) {
		return ch.ProposalManifest{}
	}
	return ch.ProposalManifest{
		Version: uint16(vh.Pick(r, 0, 1, 1, 1, 65535, r.IntN(65536))), ChannelEpoch: vh.U64Edge(r), LeaderTerm: vh.U64Edge(r),
		FenceVersion: vh.U64Edge(r), CommandID: ch.CommandID(rnd32(r)), BaseOffset: vh.U64Edge(r), LastOffset: vh.U64Edge(r),
		PreviousTerm: vh.U64Edge(r), PreviousIndex: vh.U64Edge(r), PreviousDigest: ch.EntryDigest(rnd32(r)), Digest: ch.EntryDigest(rnd32(r)),
	}
}

func genEntryAny(r *rand.Rand) ch.EntryIdentity {
	if vh.Chance(r, 0.3) {
		return ch.EntryIdentity{}
	}
	return ch.EntryIdentity{
		Version: uint16(vh.Pick(r, 0, 1, 1, 65535, r.IntN(65536))), ChannelEpoch: vh.U64Edge(r), LeaderTerm: vh.U64Edge(r),
		FenceVersion: vh.U64Edge(r), Index: vh.U64Edge(r), PreviousTerm: vh.U64Edge(r), PreviousIndex: vh.U64Edge(r),
		CommandID: ch.CommandID(rnd32(r)), PreviousDigest: ch.EntryDigest(rnd32(r)), Digest: ch.EntryDigest(rnd32(r)),
	}
}

func genStateAny(r *rand.Rand) replication.ReplicaState {
	if vh.Chance(r, 0.4) {
		return replication.ReplicaState{}
	}
	return replication.ReplicaState{LEO: vh.U64Edge(r), Committed: vh.U64Edge(r), Manifest: genManifestAny(r), TailIdentity: genEntryAny(r)}
}

func genRecordsAny(r *rand.Rand, n int) []ch.Record {
	if n < 0 {
		return nil
	}
	recs := genRecords(r, n, vh.U64Edge(r), vh.U64Edge(r)>>1)
	for i := range recs {
		if vh.Chance(r, 0.3) {
			recs[i].ServerTimestampMS = vh.Pick(r, int64(0), -1, -1<<63, 1<<63-1, -r.Int64N(1<<40))
			recs[i].ID = vh.U64Edge(r)
		}
	}
	return recs
}

func sliceLen(r *rand.Rand) int { // -1 = nil
	switch r.IntN(8) {
	case 0:
		return -1
	case 1:
		return 0
	default:
		return 1 + r.IntN(3)
	}
}

func genBatchResult(r *rand.Rand) (replication.ExchangeBatchResult, string) {
	b := replication.ExchangeBatchResult{Version: replication.ExchangeVersion}
	class := "small"
	n := vh.Pick(r, 1, 1, 1, 1, 1, 2, 2, 3)
	switch r.IntN(120) {
	case 0: // ~220 KB on the wire, ~1 MB of case text: thorough tier only
		if genTier == "thorough" {
			n, class = 256, "256items"
		}
	case 1, 2:
		n, class = 257, "257items"
	case 3, 4, 5:
		n, class = 0, "0items"
	}
	for i := 0; i < n; i++ {
		var it replication.ExchangeItemResult
		it.RequestID = smallU64(r)
		if n <= 8 {
			key, id := genIdent(r)
			l, f := genNodes(r)
			it.Replicate = replication.ReplicateResult{Status: replication.ReplicateStatus(r.IntN(9)), LastOffset: vh.U64Edge(r), NeedFrom: vh.U64Edge(r)}
			if vh.Chance(r, 0.5) {
				it.Replicate.Proof = replication.ReplicateProof{ChannelKey: key, ChannelID: id, Leader: l, Follower: f, Manifest: genManifestAny(r)}
			}
			if vh.Chance(r, 0.45) {
				it.Probe.Proof = replication.ProbeProof{ChannelKey: key, ChannelID: id, Leader: l, Follower: f, Indexes: genIndexes(r, 256)}
				it.Probe.State = genStateAny(r)
				if k := sliceLen(r); k >= 0 {
					it.Probe.Entries = make([]replication.EntryProbe, k)
					for j := range it.Probe.Entries {
						it.Probe.Entries[j] = replication.EntryProbe{Index: vh.U64Edge(r), Present: vh.Chance(r, 0.7), Identity: genEntryAny(r)}
					}
				}
			}
			if vh.Chance(r, 0.45) {
				it.Fetch.Proof = replication.FetchProof{ChannelKey: key, ChannelID: id, Leader: l, Follower: f, Expected: genStateAny(r),
					From: vh.U64Edge(r), Through: vh.U64Edge(r), Previous: genEntryAny(r), MaxBytes: r.IntN(1 << uint(r.IntN(62)))}
				it.Fetch.State = genStateAny(r)
				if k := sliceLen(r); k >= 0 {
					it.Fetch.Proposals = make([]replication.RecoveryProposal, k)
					for j := range it.Fetch.Proposals {
						it.Fetch.Proposals[j] = replication.RecoveryProposal{Manifest: genManifestAny(r), Records: genRecordsAny(r, sliceLen(r))}
					}
				}
			}
		}
		b.Items = append(b.Items, it)
	}
	if len(b.Items) > 0 && n <= 8 {
		it := &b.Items[r.IntN(len(b.Items))]
		switch r.IntN(30) {
		case 0:
			it.RequestID, class = 0, "reqid0"
		case 1:
			b.Version, class = 4, "badversion"
		case 2: // the bounds the encoder checks
			it.Probe.Entries, class = make([]replication.EntryProbe, 257), "257entries"
		case 3:
			it.Fetch.Proposals, class = make([]replication.RecoveryProposal, 257), "257proposals"
		case 4: // at the bounds
			it.Probe.Entries, class = make([]replication.EntryProbe, 256), "256entries"
		case 5: // bounds only the decoder checks
			it.Fetch.Proposals = []replication.RecoveryProposal{{Manifest: genManifestAny(r), Records: genRecordsAny(r, 257)}}
			class = "257records"
		case 6:
			idx := make([]uint64, 257)
			it.Probe.Proof.Indexes, class = idx, "257proofindexes"
		case 7:
			it.Fetch.Proposals = []replication.RecoveryProposal{{Manifest: genManifestAny(r), Records: genRecordsAny(r, 256)}}
			class = "256records"
		}
	}
	return b, class
}

// ---- Coq printers ----------------------------------------------------------------------------

var sizeofRecord = func() uintptr {
	var r ch.Record
	return sizeOf(r)
}()

func coqIdent(key ch.ChannelKey, id ch.ChannelID) string {
	if key == "" && id == (ch.ChannelID{}) {
		return "zI"
	}
	return vh.App("ChanIdent", hexS(string(key)), hexS(id.ID), vh.N(uint64(id.Type)))
}

func hex32(d [32]byte) string {
	if d == ([32]byte{}) {
		return "z32"
	}
	return vh.Hex(d[:])
}

func hexS(s string) string {
	if s == "" {
		return "[]"
	}
	return vh.HexS(s)
}

func coqManifest(m ch.ProposalManifest) string {
	if m == (ch.ProposalManifest{}) {
		return "zM"
	}
	return vh.App("Manifest", vh.N(uint64(m.Version)), vh.N(m.ChannelEpoch), vh.N(m.LeaderTerm), vh.N(m.FenceVersion),
		hex32(m.CommandID), vh.N(m.BaseOffset), vh.N(m.LastOffset), vh.N(m.PreviousTerm), vh.N(m.PreviousIndex),
		hex32(m.PreviousDigest), hex32(m.Digest))
}

func coqEntry(e ch.EntryIdentity) string {
	if e == (ch.EntryIdentity{}) {
		return "zE"
	}
	return vh.App("EntryIdent", vh.N(uint64(e.Version)), vh.N(e.ChannelEpoch), vh.N(e.LeaderTerm), vh.N(e.FenceVersion),
		vh.N(e.Index), vh.N(e.PreviousTerm), vh.N(e.PreviousIndex), hex32(e.CommandID), hex32(e.PreviousDigest), hex32(e.Digest))
}

func coqState(s replication.ReplicaState) string {
	if s == (replication.ReplicaState{}) {
		return "zS"
	}
	return vh.App("ReplicaState", vh.N(s.LEO), vh.N(s.Committed), coqManifest(s.Manifest), coqEntry(s.TailIdentity))
}

func coqRecord(x ch.Record) string {
	return vh.App("RRecord", vh.N(x.ID), vh.N(x.Index), vh.N(x.Epoch), vh.N(uint64(x.Setting)), hexS(x.FromUID), hexS(x.ClientMsgNo),
		vh.Z(x.ServerTimestampMS), vh.B(x.SyncOnce), bigHex(x.Payload), vh.N(uint64(x.SizeBytes)))
}

func coqRecords(recs []ch.Record) string {
	return optList(recs == nil, mapS(recs, coqRecord))
}

func mapS[T any](xs []T, f func(T) string) []string {
	out := make([]string, len(xs))
	for i, x := range xs {
		out[i] = f(x)
	}
	return out
}

func coqIndexes(xs []uint64) string { return optList(xs == nil, mapS(xs, vh.N)) }

func coqReplicate(q replication.ReplicateRequest) string {
	return vh.App("ReplicateRequest", coqIdent(q.ChannelKey, q.ChannelID), vh.N(uint64(q.Leader)), vh.N(uint64(q.Follower)),
		coqManifest(q.Manifest), coqRecords(q.Records), vh.N(q.Committed), vh.B(q.ServerAllocatedMessageIDs))
}

func coqProbe(key ch.ChannelKey, id ch.ChannelID, l, f ch.NodeID, idx []uint64) string {
	return vh.App("ProbeRequest", coqIdent(key, id), vh.N(uint64(l)), vh.N(uint64(f)), coqIndexes(idx))
}

func coqFetch(key ch.ChannelKey, id ch.ChannelID, l, f ch.NodeID, exp replication.ReplicaState, from, through uint64, prev ch.EntryIdentity, maxBytes int) string {
	return vh.App("FetchRequest", coqIdent(key, id), vh.N(uint64(l)), vh.N(uint64(f)), coqState(exp), vh.N(from), vh.N(through),
		coqEntry(prev), vh.N(uint64(maxBytes)))
}

func coqBatch(b replication.ExchangeBatch) string {
	items := mapS(b.Items, func(it replication.ExchangeItem) string {
		body := ""
		switch {
		case it.Replicate != nil:
			body = vh.App("IReplicate", coqReplicate(*it.Replicate))
		case it.Probe != nil:
			p := it.Probe
			body = vh.App("IProbe", coqProbe(p.ChannelKey, p.ChannelID, p.Leader, p.Follower, p.Indexes))
		case it.Fetch != nil:
			q := it.Fetch
			body = vh.App("IFetch", coqFetch(q.ChannelKey, q.ChannelID, q.Leader, q.Follower, q.Expected, q.From, q.Through, q.Previous, q.MaxBytes))
		default:
			panic("exchange item without a request")
		}
		return vh.App("ExchangeItem", vh.N(it.RequestID), vh.N(uint64(it.Kind)), body)
	})
	return vh.App("ExchangeBatch", vh.N(uint64(b.Version)), vh.N(uint64(b.Priority)), vh.List(items))
}

func coqBatchResult(b replication.ExchangeBatchResult) string {
	items := mapS(b.Items, func(it replication.ExchangeItemResult) string {
		rp := it.Replicate.Proof
		rep, probe, fetch := "zRR", "zPR", "zFR"
		if it.Replicate != (replication.ReplicateResult{}) {
			rep = vh.App("ReplicateResult", vh.N(uint64(it.Replicate.Status)), vh.N(it.Replicate.LastOffset), vh.N(it.Replicate.NeedFrom),
				vh.App("ReplicateProof", coqIdent(rp.ChannelKey, rp.ChannelID), vh.N(uint64(rp.Leader)), vh.N(uint64(rp.Follower)), coqManifest(rp.Manifest)))
		}
		pp := it.Probe.Proof
		if !reflect.DeepEqual(it.Probe, replication.ProbeResult{}) {
			probe = vh.App("ProbeResult", coqProbe(pp.ChannelKey, pp.ChannelID, pp.Leader, pp.Follower, pp.Indexes), coqState(it.Probe.State),
				optList(it.Probe.Entries == nil, mapS(it.Probe.Entries, func(e replication.EntryProbe) string {
					return vh.App("EntryProbe", vh.N(e.Index), vh.B(e.Present), coqEntry(e.Identity))
				})))
		}
		fp := it.Fetch.Proof
		if !reflect.DeepEqual(it.Fetch, replication.FetchResult{}) {
			fetch = vh.App("FetchResult", coqFetch(fp.ChannelKey, fp.ChannelID, fp.Leader, fp.Follower, fp.Expected, fp.From, fp.Through, fp.Previous, fp.MaxBytes),
				coqState(it.Fetch.State),
				optList(it.Fetch.Proposals == nil, mapS(it.Fetch.Proposals, func(p replication.RecoveryProposal) string {
					return vh.App("RecoveryProposal", coqManifest(p.Manifest), coqRecords(p.Records))
				})))
		}
		return vh.App("ExchangeItemResult", vh.N(it.RequestID), rep, probe, fetch)
	})
	return vh.App("ExchangeBatchResult", vh.N(uint64(b.Version)), vh.List(items))
}
