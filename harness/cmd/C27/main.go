// Harness for C27: internal cluster codecs round-trip and reject garbage.
//
// One case = one codec x one way of producing the bytes handed to its decoder:
//
//	value   a random value is encoded by the real encoder; the encoding is decoded
//	        (round trip), EVERY strict prefix of it is decoded (truncation sweep,
//	        sampled above 4 KiB) and the allocation of the decodes is measured
//	trunc   one strict prefix of such an encoding (so that the Coq model is run on it)
//	mutate  such an encoding with byte edits (set / xor / insert / delete / a large
//	        uvarint written over a position, to inflate declared counts)
//	raw     arbitrary bytes
//
// Every decode runs under panic recovery (vh.Main) and between two
// runtime.ReadMemStats calls; the TotalAlloc delta goes into the case so that
// the monitor can hold it against the ceiling of Gen/Consts_C27.v.
package main

import (
	"encoding/hex"
	"fmt"
	"io"
	"math/rand/v2"
	"reflect"
	"runtime"
	"sort"
	"strings"
	"unsafe"

	"github.com/WuKongIM/WuKongIM/internal/verifh/vh"
)

// mutOp is one byte edit of the "mutate" mode. They live in input.ops so that
// the driver's shrinker can delete edits.
type mutOp struct {
	Pos  int    `json:"pos"`
	Kind string `json:"kind"` // set | xor | ins | del | big
	Val  uint64 `json:"val"`
}

type input struct {
	Codec string  `json:"codec"`
	Mode  string  `json:"mode"` // value | trunc | mutate | raw
	Seed  uint64  `json:"seed,omitempty"`
	Cut   int     `json:"cut,omitempty"`
	Ops   []mutOp `json:"ops,omitempty"`
	Data  string  `json:"data,omitempty"` // raw: hex
	Tier  string  `json:"tier,omitempty"` // value generator tier (thorough adds the very large values)
	Fixed string  `json:"fixed,omitempty"` // a named hand-written value of the codec instead of a generated one (corpus witnesses)
}

// codec describes one encode/decode pair of the implementation.
type codec struct {
	name   string
	weight int
	// gen draws a value; class names the generator branch for the histogram.
	gen func(r *rand.Rand) (v any, class string)
	// enc / dec call the implementation; ok=false means it returned an error.
	enc func(v any) ([]byte, bool)
	// dec gets the generated value as context (nil in raw mode): CheckHeader needs the wanted header
	dec func(v any, data []byte) (any, bool)
	// payload renders the Coq c27_payload term: the generated value (hasV), the
	// bytes handed to dec and what dec returned.
	payload func(v any, hasV bool, data []byte, res any, resOK, same bool) string
	// rawHint produces a plausible frame start for the raw mode (may be nil).
	rawHint func(r *rand.Rand) []byte
	// fixed holds named hand-written values (corpus witnesses independent of the generator).
	fixed map[string]any
	// rawExact produces a complete hand-built frame used as is in raw mode (half of the raw cases when set).
	rawExact func(r *rand.Rand) []byte
	// rawShare is the percentage of raw-mode cases (default 10); codecs whose interesting
	// inputs are hand-built frames (TLV fields with odd lengths) ask for more.
	rawShare int
}

// tier of the run ("quick" leaves out the few-hundred-kilobyte values)
var genTier = "quick"

var codecs []*codec
var codecByName = map[string]*codec{}

func register(c *codec) {
	codecs = append(codecs, c)
	codecByName[c.name] = c
}

func measure(f func()) uint64 {
	var a, b runtime.MemStats
	runtime.ReadMemStats(&a)
	f()
	runtime.ReadMemStats(&b)
	return b.TotalAlloc - a.TotalAlloc
}

var sink any

func sizeOf[T any](x T) uintptr { return unsafe.Sizeof(x) }

func applyOps(data []byte, ops []mutOp) []byte {
	out := append([]byte(nil), data...)
	for _, op := range ops {
		if len(out) == 0 && op.Kind != "ins" && op.Kind != "big" {
			continue
		}
		pos := 0
		if len(out) > 0 {
			pos = ((op.Pos % len(out)) + len(out)) % len(out)
		}
		switch op.Kind {
		case "set":
			out[pos] = byte(op.Val)
		case "xor":
			out[pos] ^= byte(op.Val) | 1
		case "ins":
			out = append(out[:pos], append([]byte{byte(op.Val)}, out[pos:]...)...)
		case "del":
			out = append(out[:pos], out[pos+1:]...)
		case "big":
			var buf [10]byte
			n := putUvarint(buf[:], op.Val)
			tail := []byte(nil)
			if pos < len(out) {
				tail = append(tail, out[pos+1:]...)
			}
			out = append(append(out[:pos], buf[:n]...), tail...)
		}
	}
	return out
}

func putUvarint(buf []byte, x uint64) int {
	i := 0
	for x >= 0x80 {
		buf[i] = byte(x) | 0x80
		x >>= 7
		i++
	}
	buf[i] = byte(x)
	return i + 1
}

// Declared counts written over a position.  Nothing between ~1e6 and 2^62: a
// decoder that trusted such a count would not panic (recoverable) but exhaust
// the address space (fatal), and the whole run would be lost instead of the
// one case being reported.
// the declared counts of the inflation sweep, and how many decodes share one allocation measurement
var inflateVals = []uint64{1000000, 1 << 62}

const inflateChunk = 8

var bigVals = []uint64{257, 300, 1000, 70000, 1000000, 1 << 62, ^uint64(0)}

func genOps(r *rand.Rand, n int) []mutOp {
	k := 1 + r.IntN(3)
	ops := make([]mutOp, 0, k)
	for i := 0; i < k; i++ {
		pos := 0
		if n > 0 {
			if vh.Chance(r, 0.4) {
				pos = r.IntN(min(n, 12)) // headers and the first counts
			} else {
				pos = r.IntN(n)
			}
		}
		switch r.IntN(10) {
		case 0, 1, 2:
			ops = append(ops, mutOp{Pos: pos, Kind: "set", Val: uint64(vh.Pick(r, byte(0), 1, 2, 3, 0x7f, 0x80, 0xff, byte(r.UintN(256))))})
		case 3, 4:
			ops = append(ops, mutOp{Pos: pos, Kind: "xor", Val: uint64(1) << uint(r.IntN(8))})
		case 5:
			ops = append(ops, mutOp{Pos: pos, Kind: "ins", Val: uint64(r.UintN(256))})
		case 6:
			ops = append(ops, mutOp{Pos: pos, Kind: "del"})
		default:
			if n > 0 && vh.Chance(r, 0.5) {
				pos = r.IntN(min(n, 5)) // the frame's first count
			}
			ops = append(ops, mutOp{Pos: pos, Kind: "big", Val: bigVals[r.IntN(len(bigVals))]})
		}
	}
	return ops
}

func pickCodec(r *rand.Rand) *codec {
	total := 0
	for _, c := range codecs {
		total += c.weight
	}
	x := r.IntN(total)
	for _, c := range codecs {
		if x < c.weight {
			return c
		}
		x -= c.weight
	}
	return codecs[0]
}

func gen(r *rand.Rand, tier string, i int) input {
	genTier = tier
	c := pickCodec(r)
	in := input{Codec: c.name, Seed: r.Uint64() | 1, Tier: tier}
	x := r.IntN(100)
	if c.rawShare > 0 && r.IntN(100) < c.rawShare {
		x = 99
	}
	switch {
	case x < 34:
		in.Mode = "value"
	case x < 52:
		in.Mode = "trunc"
		in.Cut = r.IntN(1 << 20)
	case x < 90:
		in.Mode = "mutate"
		// the ops need the encoding's length: draw it now (the value generator is deterministic in Seed)
		v, _ := c.gen(rand.New(rand.NewPCG(in.Seed, 27)))
		enc, ok := c.enc(v)
		n := 0
		if ok {
			n = len(enc)
		}
		in.Ops = genOps(r, n)
	default:
		in.Mode = "raw"
		in.Seed = 0
		var data []byte
		if c.rawExact != nil && vh.Chance(r, 0.5) {
			data = c.rawExact(r)
		} else if c.rawHint != nil && vh.Chance(r, 0.3) {
			// a plausible frame start, then an inflated declared count / length, then noise
			h := c.rawHint(r)
			var buf [10]byte
			k := putUvarint(buf[:], bigVals[r.IntN(len(bigVals))])
			data = append(append(h[:r.IntN(len(h)+1)], buf[:k]...), vh.Bytes(r, r.IntN(24))...)
		} else if c.rawHint != nil && vh.Chance(r, 0.7) {
			data = append(c.rawHint(r), vh.Bytes(r, r.IntN(40))...)
		} else {
			data = vh.Bytes(r, r.IntN(48))
		}
		in.Data = hex.EncodeToString(data)
	}
	return in
}

// truncation points checked against the implementation for one encoding
func truncPoints(n int, seed uint64) []int {
	if n <= 4096 {
		pts := make([]int, n)
		for i := range pts {
			pts[i] = i
		}
		return pts
	}
	set := map[int]bool{}
	for i := 0; i < 1536; i++ {
		set[i] = true
	}
	for i := n - 768; i < n; i++ {
		set[i] = true
	}
	r := rand.New(rand.NewPCG(seed, 99))
	for i := 0; i < 768; i++ {
		set[r.IntN(n)] = true
	}
	pts := make([]int, 0, len(set))
	for k := range set {
		pts = append(pts, k)
	}
	sort.Ints(pts)
	return pts
}

func run(in input) vh.Result {
	c := codecByName[in.Codec]
	if c == nil {
		panic("unknown codec " + in.Codec)
	}
	var (
		v       any
		hasV    bool
		vclass  string
		enc     []byte
		encOK   bool
		data    []byte
		mode    int
		truncOK []uint64
		allocTr uint64
		allocIn uint64
	)
	if in.Mode != "raw" {
		genTier = in.Tier
		if in.Fixed != "" {
			fv, ok := c.fixed[in.Fixed]
			if !ok {
				panic("unknown fixed value " + in.Fixed)
			}
			v, vclass = fv, "fixed-"+in.Fixed
		} else {
			v, vclass = c.gen(rand.New(rand.NewPCG(in.Seed, 27)))
		}
		enc, encOK = c.enc(v)
	}
	switch in.Mode {
	case "value":
		mode, hasV, data = 0, true, enc
	case "trunc":
		mode = 1
		if !encOK || len(enc) == 0 {
			mode, data = 3, enc
		} else if _, ok := c.dec(v, enc); !ok {
			mode, data = 3, enc // not a round-tripping value: just bytes
		} else {
			data = enc[:in.Cut%len(enc)]
		}
	case "mutate":
		mode = 2
		data = applyOps(enc, in.Ops)
	case "raw":
		mode = 3
		d, err := hex.DecodeString(in.Data)
		if err != nil {
			panic(err)
		}
		data = d
	default:
		panic("unknown mode " + in.Mode)
	}

	var res any
	var resOK bool
	var alloc uint64
	if mode == 0 && !encOK {
		data = nil
	} else {
		alloc = measure(func() {
			res, resOK = c.dec(v, data)
			sink = res
		})
	}
	if mode == 0 && encOK {
		pts := truncPoints(len(enc), in.Seed)
		stride := len(pts)/48 + 1
		for j, k := range pts {
			if j%stride == 0 {
				a := measure(func() {
					r2, ok := c.dec(v, enc[:k])
					sink = r2
					if ok {
						truncOK = append(truncOK, uint64(k))
					}
				})
				if a > allocTr {
					allocTr = a
				}
				continue
			}
			if _, ok := c.dec(v, enc[:k]); ok {
				truncOK = append(truncOK, uint64(k))
			}
		}
	}
	// count-inflation sweep: at every position of the encoding (sampled above 1 KiB) a large
	// uvarint is written over one byte — wherever a declared count or length sits, the
	// decoder now sees a huge one.  A decoder that allocates from it before checking either
	// panics (makeslice: recovered by vh.Main, reported) or shows up in the allocation.
	if mode == 0 && encOK {
		var pos []int
		if len(enc) <= 1024 {
			for i := range enc {
				pos = append(pos, i)
			}
		} else {
			for i := 0; i < 512; i++ {
				pos = append(pos, i)
			}
			rr := rand.New(rand.NewPCG(in.Seed, 77))
			for i := 0; i < 256; i++ {
				pos = append(pos, rr.IntN(len(enc)))
			}
		}
		var buf [10]byte
		for _, val := range inflateVals {
			k := putUvarint(buf[:], val)
			for a := 0; a < len(pos); a += inflateChunk {
				chunk := pos[a:min(len(pos), a+inflateChunk)]
				total := measure(func() {
					for _, i := range chunk {
						d := make([]byte, 0, len(enc)+10)
						d = append(append(append(d, enc[:i]...), buf[:k]...), enc[i+1:]...)
						r2, _ := c.dec(v, d)
						sink = r2
					}
				})
				if avg := total / uint64(len(chunk)); avg > allocIn {
					allocIn = avg
				}
			}
		}
	}
	outcome := "err"
	if resOK {
		outcome = "ok"
	}
	if mode == 0 && !encOK {
		outcome = "encode-rejected"
	}
	class := fmt.Sprintf("%s/%s/%s", c.name, [...]string{"value", "trunc", "mutate", "raw"}[mode], outcome)
	if mode == 0 && vclass != "" {
		class += "/" + vclass
	}
	// a decoded value identical to the generated one is not printed a second time
	same := mode == 0 && encOK && resOK && reflect.DeepEqual(v, res)
	coq := vh.App("C27Case", vh.N(uint64(mode)), bigHex(data), vh.B(encOK),
		c.payload(v, hasV, data, res, resOK, same), vh.B(same), vh.NList(truncOK), vh.N(alloc), vh.N(allocTr), vh.N(allocIn))
	return vh.Result{
		Coq: coq,
		Obs: map[string]any{"mode": mode, "len": len(data), "enc_ok": encOK, "dec_ok": resOK,
			"trunc_accepted": truncOK, "alloc": alloc, "alloc_trunc_max": allocTr, "alloc_inflate_avg_max": allocIn},
		Class:   class,
		Trivial: false,
	}
}

func emitConsts(w io.Writer) {
	fmt.Fprintln(w, "(* GENERATED by harness/cmd/C27 -emit-consts from the compiled /repo tree. Do not edit. *)")
	fmt.Fprintln(w, "From Coq Require Import List NArith ZArith. Import ListNotations. Open Scope N_scope.")
	var sb strings.Builder
	for _, f := range constEmitters {
		f(&sb)
	}
	fmt.Fprint(w, sb.String())
	fmt.Fprintln(w, "(* platform *)")
	fmt.Fprintf(w, "Definition IntMax : N := %d.\n", uint64(^uint(0)>>1))
	fmt.Fprintln(w, "Definition MaxUint16 : N := 65535.")
}

var constEmitters []func(sb *strings.Builder)

func defN(sb *strings.Builder, name string, v uint64) {
	fmt.Fprintf(sb, "Definition %s : N := %d.\n", name, v)
}

func main() {
	vh.Main(vh.Harness[input]{EmitConsts: emitConsts, Gen: gen, Run: run})
}

// ---- shared printers -----------------------------------------------------------------

// bigHex renders byte strings for the case file: (hx "..") when short and dense,
// otherwise a chain (hxc "chunk" (hz 96 (hxc "chunk" []))) — zero runs (unset
// digests) by length, hex in chunks of at most 1 KiB (one string literal of
// several hundred kilobytes is a term too deep for coqc's stack).
func bigHex(b []byte) string {
	const chunk = 1024
	const minRun = 24
	type seg struct {
		zero bool
		a, b int
	}
	var segs []seg
	i := 0
	start := 0
	for i < len(b) {
		if b[i] == 0 {
			j := i
			for j < len(b) && b[j] == 0 {
				j++
			}
			if j-i >= minRun {
				if i > start {
					segs = append(segs, seg{false, start, i})
				}
				segs = append(segs, seg{true, i, j})
				start = j
			}
			i = j
			continue
		}
		i++
	}
	if start < len(b) {
		segs = append(segs, seg{false, start, len(b)})
	}
	if len(segs) == 0 {
		return "[]"
	}
	if len(segs) == 1 && !segs[0].zero && len(b) <= chunk {
		return vh.Hex(b)
	}
	var sb strings.Builder
	n := 0
	for _, sg := range segs {
		if sg.zero {
			fmt.Fprintf(&sb, "(hz %d ", sg.b-sg.a)
			n++
			continue
		}
		for k := sg.a; k < sg.b; k += chunk {
			sb.WriteString(`(hxc "` + hex.EncodeToString(b[k:min(sg.b, k+chunk)]) + `" `)
			n++
		}
	}
	sb.WriteString("[]" + strings.Repeat(")", n))
	return sb.String()
}

func optList(isNil bool, items []string) string {
	if isNil {
		return vh.None()
	}
	return vh.Some(vh.List(items))
}

func resTerm(ok bool, term func() string) string {
	if !ok {
		return vh.None()
	}
	return vh.Some(term())
}

func boolList(bs []bool) string { return vh.ListOf(bs, vh.B) }

func randStr(r *rand.Rand, max int) string {
	switch r.IntN(6) {
	case 0:
		return ""
	case 1:
		return vh.Pick(r, "u1", "u2", "g1", "a", "chan")
	case 2:
		return string(vh.Bytes(r, 1+r.IntN(max))) // arbitrary bytes, not only UTF-8
	default:
		n := 1 + r.IntN(max)
		b := make([]byte, n)
		for i := range b {
			b[i] = "abcdefgh0123456789_@"[r.IntN(20)]
		}
		return string(b)
	}
}
