package main

// pkg/slot/fsm/command.go: the TLV command codec (modelled: noop, upsert/create
// user, upsert device; the other command types through the decoder table only),
// and pkg/controller/command/codec.go: the JSON command envelope (not modelled).

import (
	"math/rand/v2"
	"reflect"
	"strings"
	"time"

	"github.com/WuKongIM/WuKongIM/internal/verifh/vh"
	ctlcommand "github.com/WuKongIM/WuKongIM/pkg/controller/command"
	metadb "github.com/WuKongIM/WuKongIM/pkg/db/meta"
	"github.com/WuKongIM/WuKongIM/pkg/slot/fsm"
)

type fsmVal struct {
	Kind   string // noop | upsert_user | create_user | upsert_device
	User   metadb.User
	Device metadb.Device
}

func fsmConst(name string) uint8 {
	for _, kv := range fsm.VerifFSMConsts() {
		if kv[0].(string) == name {
			return kv[1].(uint8)
		}
	}
	panic(name)
}

func coqUser(u metadb.User) string {
	return vh.App("User", hexS(u.UID), hexS(u.Token), vh.Z(u.DeviceFlag), vh.Z(u.DeviceLevel))
}

func coqDevice(d metadb.Device) string {
	return vh.App("Device", hexS(d.UID), vh.Z(d.DeviceFlag), hexS(d.Token), vh.Z(d.DeviceLevel))
}

func coqFsmVal(v fsmVal) string {
	switch v.Kind {
	case "noop":
		return "CmdNoop"
	case "upsert_user":
		return vh.App("CmdUpsertUser", coqUser(v.User))
	case "create_user":
		return vh.App("CmdCreateUser", coqUser(v.User))
	default:
		return vh.App("CmdUpsertDevice", coqDevice(v.Device))
	}
}

func coqFsmRes(c fsm.VerifCommand) string {
	if !c.Modelled {
		return vh.App("CmdOther", vh.N(uint64(c.Type)))
	}
	switch c.Type {
	case fsmConst("cmdTypeNoop"):
		return "CmdNoop"
	case fsmConst("cmdTypeUpsertUser"):
		return vh.App("CmdUpsertUser", coqUser(c.User))
	case fsmConst("cmdTypeCreateUser"):
		return vh.App("CmdCreateUser", coqUser(c.User))
	default:
		return vh.App("CmdUpsertDevice", coqDevice(c.Device))
	}
}

func genI64(r *rand.Rand) int64 {
	return vh.Pick(r, int64(0), 1, -1, 255, 256, 1<<31, -1<<31, 1<<63-1, -1<<63, r.Int64N(1<<uint(1+r.IntN(62))))
}

func decFsm(_ any, data []byte) (any, bool) {
	c, err := fsm.VerifDecodeCommand(data)
	return c, err == nil
}

func init() {
	register(&codec{
		name: "fsm_cmd", weight: 24, rawShare: 55,
		gen: func(r *rand.Rand) (any, string) {
			v := fsmVal{Kind: vh.Pick(r, "noop", "upsert_user", "upsert_user", "create_user", "upsert_device", "upsert_device")}
			v.User = metadb.User{UID: randStr(r, 10), Token: randStr(r, 12), DeviceFlag: genI64(r), DeviceLevel: genI64(r)}
			v.Device = metadb.Device{UID: randStr(r, 10), Token: randStr(r, 12), DeviceFlag: genI64(r), DeviceLevel: genI64(r)}
			return v, v.Kind
		},
		enc: func(x any) ([]byte, bool) {
			v := x.(fsmVal)
			switch v.Kind {
			case "noop":
				return fsm.EncodeNoopCommand(), true
			case "upsert_user":
				return fsm.EncodeUpsertUserCommand(v.User), true
			case "create_user":
				return fsm.EncodeCreateUserCommand(v.User), true
			default:
				return fsm.EncodeUpsertDeviceCommand(v.Device), true
			}
		},
		dec: decFsm,
		payload: func(v any, hasV bool, data []byte, res any, resOK, same bool) string {
			vt := vh.None()
			if hasV {
				vt = vh.Some(coqFsmVal(v.(fsmVal)))
			}
			return vh.App("PFsm", vt, resTerm(resOK && !same, func() string { return coqFsmRes(res.(fsm.VerifCommand)) }))
		},
		rawHint: func(r *rand.Rand) []byte {
			types := fsm.VerifCommandTypes()
			t := types[r.IntN(len(types))]
			switch x := r.IntN(10); {
			case x < 6: // the modelled commands: their per-field length guards are compared with the model
				t = vh.Pick(r, fsmConst("cmdTypeUpsertUser"), fsmConst("cmdTypeCreateUser"), fsmConst("cmdTypeUpsertDevice"), fsmConst("cmdTypeNoop"))
			case x < 8:
				t = uint8(r.UintN(256))
			}
			b := []byte{vh.Pick(r, uint8(1), 1, 1, 1, 1, 1, 0, 2), t}
			// 1-5 fields over the tags of the user / device commands; half of them with the
			// 8-byte length an int64 field must have, half with another one
			for i := 1 + r.IntN(5); i > 0; i-- {
				tag := byte(1 + r.IntN(4))
				if vh.Chance(r, 0.1) {
					tag = byte(r.UintN(256))
				}
				n := 8
				if vh.Chance(r, 0.5) {
					n = vh.Pick(r, 0, 1, 3, 7, 9, 16)
				}
				val := vh.Bytes(r, n)
				b = append(b, tag, 0, 0, 0, byte(len(val)))
				b = append(b, val...)
			}
			return b
		},
	})
	// a real encoding of a modelled command with ONE field given another length (the
	// per-field guards "len(value) != 8"), or one field dropped / duplicated / retagged
	codecByName["fsm_cmd"].rawExact = func(r *rand.Rand) []byte {
		c := codecByName["fsm_cmd"]
		v, _ := c.gen(r)
		for v.(fsmVal).Kind == "noop" {
			v, _ = c.gen(r)
		}
		enc, _ := c.enc(v)
		type field struct {
			tag byte
			val []byte
		}
		var fields []field
		for off := 2; off+5 <= len(enc); {
			n := int(enc[off+1])<<24 | int(enc[off+2])<<16 | int(enc[off+3])<<8 | int(enc[off+4])
			if off+5+n > len(enc) {
				break
			}
			fields = append(fields, field{enc[off], enc[off+5 : off+5+n]})
			off += 5 + n
		}
		if len(fields) > 0 {
			i := r.IntN(len(fields))
			if vh.Chance(r, 0.7) { // an int64 field: the ones with a length guard
				var ints []int
				for k, f := range fields {
					if len(f.val) == 8 {
						ints = append(ints, k)
					}
				}
				if len(ints) > 0 {
					i = ints[r.IntN(len(ints))]
				}
			}
			switch r.IntN(8) {
			case 0:
				fields = append(fields[:i], fields[i+1:]...)
			case 1:
				fields = append(fields, fields[i])
			case 2:
				fields[i].tag = byte(1 + r.IntN(6))
			default:
				fields[i].val = vh.Bytes(r, vh.Pick(r, 0, 1, 3, 7, 9, 16))
			}
		}
		out := []byte{enc[0], enc[1]}
		for _, f := range fields {
			out = append(out, f.tag, byte(len(f.val)>>24), byte(len(f.val)>>16), byte(len(f.val)>>8), byte(len(f.val)))
			out = append(out, f.val...)
		}
		return out
	}
	// command types without a model: encodings of the real encoders must decode,
	// their truncations and mutations go through the same monitor
	register(&codec{
		name: "fsm_other", weight: 5,
		gen: func(r *rand.Rand) (any, string) {
			uids := make([]string, r.IntN(4))
			for i := range uids {
				uids[i] = "u" + randStr(r, 5)
			}
			switch r.IntN(6) {
			case 0:
				return fsm.EncodeUpsertChannelCommand(metadb.Channel{ChannelID: randStr(r, 8), ChannelType: genI64(r), Ban: genI64(r), Large: genI64(r)}), "upsert_channel"
			case 1:
				return fsm.EncodeDeleteChannelCommand(randStr(r, 8), genI64(r)), "delete_channel"
			case 2:
				return fsm.EncodeAddSubscribersCommand("g"+randStr(r, 5), genI64(r), uids, uint64(r.IntN(3))), "add_subscribers"
			case 3:
				return fsm.EncodeRemoveSubscribersCommand("g"+randStr(r, 5), genI64(r), uids), "remove_subscribers"
			case 4:
				return fsm.EncodeUpsertChannelRuntimeMetaCommand(metadb.ChannelRuntimeMeta{ChannelID: "c" + randStr(r, 5), ChannelType: 2,
					ChannelEpoch: 1 + uint64(r.IntN(9)), LeaderEpoch: 1 + uint64(r.IntN(9)), Replicas: []uint64{1, 2, 3}, ISR: []uint64{1, 2}, Leader: 1, MinISR: 2,
					Status: 1, LeaseUntilMS: 1 + r.Int64N(1<<40)}), "upsert_runtime_meta"
			default:
				return fsm.EncodeCreateChannelCommand(metadb.Channel{ChannelID: randStr(r, 8), ChannelType: genI64(r)}), "create_channel"
			}
		},
		enc: func(x any) ([]byte, bool) { return x.([]byte), true },
		dec: decFsm,
		payload: func(v any, hasV bool, data []byte, res any, resOK, same bool) string {
			return vh.App("PFsmOther", resTerm(resOK && !same, func() string { return coqFsmRes(res.(fsm.VerifCommand)) }))
		},
	})
	register(&codec{
		name: "ctl_cmd", weight: 6,
		gen: func(r *rand.Rand) (any, string) {
			rev := uint64(r.IntN(100))
			c := ctlcommand.Command{Kind: ctlcommand.Kind(vh.Pick(r, "upsert_node", "report_node_health", "x", "")),
				IssuedAt: time.Unix(int64(r.IntN(1<<31)), int64(r.IntN(1e9))).UTC()}
			if vh.Chance(r, 0.5) {
				c.ExpectedRevision = &rev
			}
			return c, string(c.Kind)
		},
		enc: func(x any) ([]byte, bool) {
			b, err := ctlcommand.Encode(x.(ctlcommand.Command))
			return b, err == nil
		},
		dec: func(_ any, data []byte) (any, bool) {
			c, err := ctlcommand.Decode(data)
			return c, err == nil
		},
		payload: func(v any, hasV bool, data []byte, res any, resOK, same bool) string {
			return vh.App("POpaque", vh.N(100), vh.B(resOK), vh.B(hasV && resOK && reflect.DeepEqual(v, res)))
		},
		rawHint: func(r *rand.Rand) []byte {
			return []byte(vh.Pick(r, `{"version":1,"command":{"kind":"x","issued_at":"2024-01-01T00:00:00Z"}}`,
				`{"version":2,"command":{}}`, `{"version":1,"command":{"kind":"x"},"extra":1}`, `[[[[[[[[`, `{"version":1,"command":{"kind":"x","issued_at":"2024-01-01T00:00:00Z"}} 7`))
		},
	})
	constEmitters = append(constEmitters, func(sb *strings.Builder) {
		sb.WriteString("(* pkg/slot/fsm *)\n")
		for _, kv := range fsm.VerifFSMConsts() {
			defN(sb, kv[0].(string), uint64(kv[1].(uint8)))
		}
		types := fsm.VerifCommandTypes()
		ts := make([]string, len(types))
		for i, t := range types {
			ts[i] = vh.N(uint64(t))
		}
		sb.WriteString("(* the keys of the commandDecoders table *)\n")
		sb.WriteString("Definition commandTypes : list N := " + vh.List(ts) + ".\n")
		// TLV values are sub-slices and strings of the input; set members cost a string header each
		defN(sb, "FsmAllocBase", 65536)
		defN(sb, "FsmAllocPerByte", 64)
		sb.WriteString("(* pkg/controller/command (encoding/json) *)\n")
		defN(sb, "JsonAllocBase", 262144)
		defN(sb, "JsonAllocPerByte", 256)
	})
}
