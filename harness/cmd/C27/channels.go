package main

// pkg/cluster/channels/codec.go: the request codecs and the result codecs.

import (
	"fmt"
	"math/rand/v2"
	"reflect"
	"strings"
	"time"

	"github.com/WuKongIM/WuKongIM/internal/verifh/vh"
	ch "github.com/WuKongIM/WuKongIM/pkg/channel"
	channelstore "github.com/WuKongIM/WuKongIM/pkg/channel/store"
	channeltransport "github.com/WuKongIM/WuKongIM/pkg/channel/transport"
	"github.com/WuKongIM/WuKongIM/pkg/cluster/channels"
)

// chVal is a frame: the codec version it is written with, and the body.
type chVal[T any] struct {
	Ver uint8
	V   T
}

func genVer(r *rand.Rand) (uint8, string) {
	switch x := r.IntN(20); {
	case x < 12:
		return 7, "v7"
	case x < 15:
		return 6, "v6"
	case x < 18:
		return 5, "v5"
	default: // not writable: the encoder must refuse
		v := vh.Pick(r, uint8(4), 3, 8, 0)
		return v, fmt.Sprintf("v%d", v)
	}
}

// regCh registers a modelled channels codec: ctor is the Coq payload constructor.
func regCh[T any](name string, weight int, ctor string, gen func(*rand.Rand) (T, string),
	enc func(T, uint8) ([]byte, error), dec func([]byte) (T, error), coq func(T) string, hint byte) {
	pr := func(ver uint8, v T) string { return vh.Pair(vh.N(uint64(ver)), coq(v)) }
	register(&codec{
		name: name, weight: weight,
		gen: func(r *rand.Rand) (any, string) {
			ver, vc := genVer(r)
			v, c := gen(r)
			if c != "" {
				vc += "-" + c
			}
			return chVal[T]{ver, v}, vc
		},
		enc: func(v any) ([]byte, bool) {
			x := v.(chVal[T])
			b, err := enc(x.V, x.Ver)
			return b, err == nil
		},
		dec: func(_ any, data []byte) (any, bool) {
			v, err := dec(data)
			ver := uint8(0)
			if len(data) > 0 {
				ver = data[0]
			}
			return chVal[T]{ver, v}, err == nil
		},
		payload: func(v any, hasV bool, data []byte, res any, resOK, same bool) string {
			vt := vh.None()
			if hasV {
				x := v.(chVal[T])
				vt = vh.Some(pr(x.Ver, x.V))
			}
			return vh.App(ctor, vt, resTerm(resOK && !same, func() string { x := res.(chVal[T]); return pr(x.Ver, x.V) }))
		},
		rawHint: func(r *rand.Rand) []byte {
			return []byte{vh.Pick(r, uint8(7), 7, 6, 5, 4, 3), hint, byte(r.IntN(3))}
		},
	})
}

// regOpaque registers a channels codec that is NOT modelled in Coq: the harness
// itself compares Decode(Encode(v)) with v (reflect.DeepEqual).
func regOpaque[T any](name string, weight int, id int, gen func(*rand.Rand) T,
	enc func(T, uint8) ([]byte, error), dec func([]byte) (T, error), hint byte, vers ...uint8) {
	if len(vers) == 0 {
		vers = []uint8{7, 7, 6, 5}
	}
	register(&codec{
		name: name, weight: weight,
		gen: func(r *rand.Rand) (any, string) {
			ver := vers[r.IntN(len(vers))]
			return chVal[T]{ver, gen(r)}, fmt.Sprintf("v%d", ver)
		},
		enc: func(v any) ([]byte, bool) {
			x := v.(chVal[T])
			b, err := enc(x.V, x.Ver)
			return b, err == nil
		},
		dec: func(_ any, data []byte) (any, bool) {
			v, err := dec(data)
			return v, err == nil
		},
		payload: func(v any, hasV bool, data []byte, res any, resOK, same bool) string {
			rt := false
			if hasV && resOK {
				rt = reflect.DeepEqual(v.(chVal[T]).V, res.(T))
			}
			return vh.App("POpaque", vh.N(uint64(id)), vh.B(resOK), vh.B(rt))
		},
		rawHint: func(r *rand.Rand) []byte {
			return []byte{vh.Pick(r, uint8(7), 7, 6, 5, 4, 3), hint, byte(r.IntN(2)), byte(r.IntN(3)), byte(r.IntN(4))}
		},
	})
}

var chKind = map[string]byte{}

func init() {
	for _, kv := range channels.VerifCodecConsts() {
		chKind[kv[0].(string)] = kv[1].(uint8)
	}
	regCh("ch_pull", 4, "PChPull", func(r *rand.Rand) (channeltransport.PullRequest, string) { return genPull(r), "" },
		func(v channeltransport.PullRequest, ver uint8) ([]byte, error) { return channels.VerifEncodePull(v, ver) },
		channels.DecodePullRequest, coqPull, chKind["kindPull"])
	regCh("ch_pull_batch", 4, "PChPullBatch", func(r *rand.Rand) ([]channeltransport.PullRequest, string) {
		n := r.IntN(4)
		items := make([]channeltransport.PullRequest, n)
		for i := range items {
			items[i] = genPull(r)
		}
		return items, fmt.Sprintf("%ditems", n)
	},
		func(v []channeltransport.PullRequest, ver uint8) ([]byte, error) {
			return channels.VerifEncodePullBatch(channeltransport.PullBatchRequest{Items: v}, ver)
		},
		func(d []byte) ([]channeltransport.PullRequest, error) {
			b, err := channels.VerifDecodePullBatch(d)
			return b.Items, err
		},
		func(v []channeltransport.PullRequest) string { return vh.List(mapS(v, coqPull)) }, chKind["kindPullBatch"])
	regCh("ch_ack", 3, "PChAck", func(r *rand.Rand) (channeltransport.AckRequest, string) {
		return channeltransport.AckRequest{ChannelKey: ch.ChannelKey(randStr(r, 8)), Epoch: vh.U64Edge(r), LeaderEpoch: vh.U64Edge(r),
			Follower: ch.NodeID(vh.U64Edge(r)), MatchOffset: vh.U64Edge(r), ActivityVersion: vh.U64Edge(r), Stopped: vh.Chance(r, 0.5)}, ""
	}, channels.VerifEncodeAck, channels.VerifDecodeAck, func(q channeltransport.AckRequest) string {
		return vh.App("AckRequest", hexS(string(q.ChannelKey)), vh.N(q.Epoch), vh.N(q.LeaderEpoch), vh.N(uint64(q.Follower)),
			vh.N(q.MatchOffset), vh.N(q.ActivityVersion), vh.B(q.Stopped))
	}, chKind["kindAck"])
	regCh("ch_pull_hint", 3, "PChPullHint", func(r *rand.Rand) (channeltransport.PullHintRequest, string) { return genPullHint(r), "" },
		channels.VerifEncodePullHint, channels.VerifDecodePullHint, coqPullHint, chKind["kindPullHint"])
	regCh("ch_pull_hint_batch", 3, "PChPullHintBatch", func(r *rand.Rand) ([]channeltransport.PullHintRequest, string) {
		n := r.IntN(4)
		items := make([]channeltransport.PullHintRequest, n)
		for i := range items {
			items[i] = genPullHint(r)
		}
		return items, fmt.Sprintf("%ditems", n)
	},
		func(v []channeltransport.PullHintRequest, ver uint8) ([]byte, error) {
			return channels.VerifEncodePullHintBatch(channeltransport.PullHintBatchRequest{Items: v}, ver)
		},
		func(d []byte) ([]channeltransport.PullHintRequest, error) {
			b, err := channels.VerifDecodePullHintBatch(d)
			return b.Items, err
		},
		func(v []channeltransport.PullHintRequest) string { return vh.List(mapS(v, coqPullHint)) }, chKind["kindPullHintBatch"])
	regCh("ch_notify", 3, "PChNotify", func(r *rand.Rand) (channeltransport.NotifyRequest, string) {
		return channeltransport.NotifyRequest{ChannelKey: ch.ChannelKey(randStr(r, 8)), ChannelID: genChanID(r), Epoch: vh.U64Edge(r),
			LeaderEpoch: vh.U64Edge(r), Leader: ch.NodeID(vh.U64Edge(r)), LeaderLEO: vh.U64Edge(r)}, ""
	}, channels.VerifEncodeNotify, channels.VerifDecodeNotify, func(q channeltransport.NotifyRequest) string {
		return vh.App("NotifyRequest", hexS(string(q.ChannelKey)), coqChanID(q.ChannelID), vh.N(q.Epoch), vh.N(q.LeaderEpoch),
			vh.N(uint64(q.Leader)), vh.N(q.LeaderLEO))
	}, chKind["kindNotify"])
	regCh("ch_append", 6, "PChAppend", func(r *rand.Rand) (ch.AppendRequest, string) {
		m, c := genMessage(r)
		return ch.AppendRequest{ChannelID: genChanID(r), Message: m, CommitMode: ch.CommitMode(r.IntN(4)),
			ExpectedChannelEpoch: vh.U64Edge(r), ExpectedLeaderEpoch: vh.U64Edge(r)}, c
	}, channels.VerifEncodeAppend, channels.VerifDecodeAppend, func(q ch.AppendRequest) string {
		return vh.App("AppendRequest", coqChanID(q.ChannelID), coqMessage(q.Message), vh.N(uint64(q.CommitMode)),
			vh.N(q.ExpectedChannelEpoch), vh.N(q.ExpectedLeaderEpoch))
	}, chKind["kindAppend"])
	regCh("ch_append_batch", 7, "PChAppendBatch", func(r *rand.Rand) (ch.AppendBatchRequest, string) {
		msgs, c := genMessages(r)
		return ch.AppendBatchRequest{ChannelID: genChanID(r), Messages: msgs, TraceID: randStr(r, 6), ChannelKey: randStr(r, 6),
			Attempt: int(vh.Pick(r, int64(0), 1, 2, -1, 1<<62, -1<<63)), CommitMode: ch.CommitMode(r.IntN(4)),
			ExpectedChannelEpoch: vh.U64Edge(r), ExpectedLeaderEpoch: vh.U64Edge(r), OmitResultPayload: vh.Chance(r, 0.5),
			ServerAllocatedMessageIDs: vh.Chance(r, 0.5)}, c
	}, channels.VerifEncodeAppendBatch, channels.VerifDecodeAppendBatch, func(q ch.AppendBatchRequest) string {
		return vh.App("AppendBatchRequest", coqChanID(q.ChannelID), coqMessages(q.Messages), hexS(q.TraceID), hexS(q.ChannelKey),
			vh.Z(int64(q.Attempt)), vh.N(uint64(q.CommitMode)), vh.N(q.ExpectedChannelEpoch), vh.N(q.ExpectedLeaderEpoch),
			vh.B(q.OmitResultPayload), vh.B(q.ServerAllocatedMessageIDs))
	}, chKind["kindAppendBatch"])
	regCh("ch_last_visible", 3, "PChLastVisible", func(r *rand.Rand) (channels.LastVisibleRequest, string) {
		return channels.LastVisibleRequest{ChannelID: genChanID(r), VisibleAfterSeq: vh.U64Edge(r), ExpectedLeader: ch.NodeID(vh.U64Edge(r)),
			ExpectedChannelEpoch: vh.U64Edge(r), ExpectedLeaderEpoch: vh.U64Edge(r), HeadUID: randStr(r, 6), ExpectedMinISR: r.IntN(1 << uint(r.IntN(62)))}, ""
	}, channels.VerifEncodeLastVisible, channels.VerifDecodeLastVisible, func(q channels.LastVisibleRequest) string {
		return vh.App("LastVisibleRequest", coqChanID(q.ChannelID), vh.N(q.VisibleAfterSeq), vh.N(uint64(q.ExpectedLeader)),
			vh.N(q.ExpectedChannelEpoch), vh.N(q.ExpectedLeaderEpoch), hexS(q.HeadUID), vh.N(uint64(q.ExpectedMinISR)))
	}, chKind["kindLastVisible"])
	regCh("ch_conversation_heads", 3, "PChConversationHeads", func(r *rand.Rand) (channels.ConversationHeadsRequest, string) {
		q := channels.ConversationHeadsRequest{UID: randStr(r, 6)}
		if n := sliceLen(r); n >= 0 {
			q.Items = make([]channels.ConversationHeadRequest, n)
			for i := range q.Items {
				q.Items[i] = channels.ConversationHeadRequest{ChannelID: genChanID(r), RetentionThroughSeq: vh.U64Edge(r),
					ExpectedLeader: ch.NodeID(vh.U64Edge(r)), ExpectedChannelEpoch: vh.U64Edge(r), ExpectedLeaderEpoch: vh.U64Edge(r),
					ExpectedMinISR: r.IntN(1 << uint(r.IntN(62)))}
			}
		}
		return q, ""
	}, channels.VerifEncodeConversationHeads, channels.VerifDecodeConversationHeads, func(q channels.ConversationHeadsRequest) string {
		return vh.App("ConversationHeadsRequest", hexS(q.UID), optList(q.Items == nil, mapS(q.Items, func(it channels.ConversationHeadRequest) string {
			return vh.App("ConversationHeadRequest", coqChanID(it.ChannelID), vh.N(it.RetentionThroughSeq), vh.N(uint64(it.ExpectedLeader)),
				vh.N(it.ExpectedChannelEpoch), vh.N(it.ExpectedLeaderEpoch), vh.N(uint64(it.ExpectedMinISR)))
		})))
	}, chKind["kindConversationHeads"])
	regCh("ch_committed_reads", 3, "PChCommittedReads", func(r *rand.Rand) ([]channels.CommittedReadRequest, string) {
		n := sliceLen(r)
		if n < 0 {
			return nil, "nil"
		}
		items := make([]channels.CommittedReadRequest, n)
		for i := range items {
			items[i] = channels.CommittedReadRequest{
				CommittedRead: channels.CommittedRead{ChannelID: genChanID(r), Request: channelstore.ReadCommittedRequest{
					FromSeq: vh.U64Edge(r), MaxSeq: vh.U64Edge(r), MinSeq: vh.U64Edge(r), Limit: genInt(r), MaxBytes: genInt(r), Reverse: vh.Chance(r, 0.5)}},
				RetentionThroughSeq: vh.U64Edge(r), ExpectedLeader: ch.NodeID(vh.U64Edge(r)), ExpectedChannelEpoch: vh.U64Edge(r),
				ExpectedLeaderEpoch: vh.U64Edge(r), ExpectedMinISR: genInt(r)}
		}
		return items, ""
	},
		func(v []channels.CommittedReadRequest, ver uint8) ([]byte, error) {
			return channels.VerifEncodeCommittedReads(channels.CommittedReadsRequest{Items: v}, ver)
		},
		func(d []byte) ([]channels.CommittedReadRequest, error) {
			b, err := channels.VerifDecodeCommittedReads(d)
			return b.Items, err
		},
		func(v []channels.CommittedReadRequest) string {
			return optList(v == nil, mapS(v, func(it channels.CommittedReadRequest) string {
				q := it.Request
				return vh.App("CommittedReadRequest", coqChanID(it.ChannelID), vh.N(q.FromSeq), vh.N(q.MaxSeq), vh.N(q.MinSeq),
					vh.Z(int64(q.Limit)), vh.Z(int64(q.MaxBytes)), vh.B(q.Reverse), vh.N(it.RetentionThroughSeq), vh.N(uint64(it.ExpectedLeader)),
					vh.N(it.ExpectedChannelEpoch), vh.N(it.ExpectedLeaderEpoch), vh.Z(int64(it.ExpectedMinISR)))
			}))
		}, chKind["kindCommittedReads"])

	regCh("ch_pull_response", 6, "PChPullResponse", func(r *rand.Rand) (channeltransport.PullResponse, string) {
		class := ""
		p := channeltransport.PullResponse{ChannelKey: ch.ChannelKey(randStr(r, 8)), Epoch: vh.U64Edge(r), LeaderEpoch: vh.U64Edge(r),
			LeaderHW: vh.U64Edge(r), LeaderLEO: vh.U64Edge(r), ActivityVersion: vh.U64Edge(r),
			NextPullAfter: time.Duration(genInt(r)), Control: channeltransport.PullControl(r.IntN(5))}
		if vh.Chance(r, 0.6) {
			m := genMeta(r)
			p.Meta = &m
			if m.RouteGeneration != 0 {
				class = "routegen"
			}
		}
		if n := sliceLen(r); n >= 0 {
			p.Records = genRecordsAny(r, n)
			for i := range p.Records {
				p.Records[i].SizeBytes = genInt(r)
				p.Records[i].SyncOnce = vh.Chance(r, 0.05)
				if p.Records[i].SyncOnce {
					class = "synconce"
				}
				if p.Records[i].Payload != nil && len(p.Records[i].Payload) == 0 {
					p.Records[i].Payload = nil
				}
			}
		}
		return p, class
	}, channels.VerifEncodePullResponse, channels.VerifDecodePullResponse, func(p channeltransport.PullResponse) string {
		meta := vh.None()
		if p.Meta != nil {
			meta = vh.Some(coqMeta(*p.Meta))
		}
		return vh.App("PullResponse", hexS(string(p.ChannelKey)), vh.N(p.Epoch), vh.N(p.LeaderEpoch), vh.N(p.LeaderHW), vh.N(p.LeaderLEO),
			vh.N(p.ActivityVersion), vh.Z(int64(p.NextPullAfter)), vh.N(uint64(p.Control)), meta,
			optList(p.Records == nil, mapS(p.Records, coqCRecord)))
	}, chKind["kindPullResponse"])
	regCh("ch_append_response", 4, "PChAppendResponse", func(r *rand.Rand) (ch.AppendResult, string) {
		m, c := genMessage(r)
		return ch.AppendResult{MessageID: vh.U64Edge(r), MessageSeq: vh.U64Edge(r), Message: m}, c
	}, channels.VerifEncodeAppendResponse, channels.VerifDecodeAppendResponse, func(q ch.AppendResult) string {
		return vh.App("AppendResult", vh.N(q.MessageID), vh.N(q.MessageSeq), coqMessage(q.Message))
	}, chKind["kindAppendResponse"])
	regCh("ch_last_visible_response", 4, "PChLastVisibleResponse", func(r *rand.Rand) (channels.LastVisibleResponse, string) {
		q := channels.LastVisibleResponse{LastCommittedSeq: vh.U64Edge(r), RetentionThroughSeq: vh.U64Edge(r), CurrentUserLastSendSeq: vh.U64Edge(r)}
		c := "notfound"
		if vh.Chance(r, 0.6) {
			q.Found = true
			q.Message, c = genMessage(r)
		}
		return q, c
	}, channels.VerifEncodeLastVisibleResponse, channels.VerifDecodeLastVisibleResponse, func(q channels.LastVisibleResponse) string {
		m := vh.None()
		if q.Found {
			m = vh.Some(coqMessage(q.Message))
		}
		return vh.App("LastVisibleResponse", m, vh.N(q.LastCommittedSeq), vh.N(q.RetentionThroughSeq), vh.N(q.CurrentUserLastSendSeq))
	}, chKind["kindLastVisibleResponse"])

	// result codecs with item-scoped errors: implementation-only checks
	regOpaque("ch_pull_batch_response", 2, 1, func(r *rand.Rand) channeltransport.PullBatchResponse {
		items := make([]channeltransport.PullBatchItemResult, r.IntN(3))
		for i := range items {
			if items[i].Err = genSentinel(r); items[i].Err == nil {
				items[i].Response = channeltransport.PullResponse{ChannelKey: ch.ChannelKey(randStr(r, 8)), Epoch: vh.U64Edge(r),
					LeaderHW: vh.U64Edge(r), Control: channeltransport.PullControl(r.IntN(4))}
			}
		}
		return channeltransport.PullBatchResponse{Items: items}
	}, channels.VerifEncodePullBatchResponse, channels.VerifDecodePullBatchResponse, chKind["kindPullBatchResponse"])
	regOpaque("ch_pull_hint_batch_response", 2, 2, func(r *rand.Rand) channeltransport.PullHintBatchResponse {
		items := make([]channeltransport.PullHintBatchItemResult, r.IntN(4))
		for i := range items {
			items[i].Err = genSentinel(r)
		}
		return channeltransport.PullHintBatchResponse{Items: items}
	}, channels.VerifEncodePullHintBatchResponse, channels.VerifDecodePullHintBatchResponse, chKind["kindPullHintBatchResponse"])
	regOpaque("ch_append_batch_response", 2, 3, func(r *rand.Rand) ch.AppendBatchResult {
		n := sliceLen(r)
		if n < 0 {
			return ch.AppendBatchResult{}
		}
		items := make([]ch.AppendBatchItemResult, n)
		for i := range items {
			items[i] = ch.AppendBatchItemResult{MessageID: vh.U64Edge(r), MessageSeq: vh.U64Edge(r), Message: genCleanMessage(r), Err: genSentinel(r)}
		}
		return ch.AppendBatchResult{Items: items}
	}, channels.VerifEncodeAppendBatchResponse, channels.VerifDecodeAppendBatchResponse, chKind["kindAppendBatchResponse"])
	regOpaque("ch_conversation_heads_response", 2, 4, func(r *rand.Rand) channels.ConversationHeadsResponse {
		n := sliceLen(r)
		if n < 0 {
			return channels.ConversationHeadsResponse{}
		}
		items := make([]channels.ConversationHeadResult, n)
		for i := range items {
			items[i].Err = genSentinel(r)
			items[i].Head = channels.ConversationHead{LastCommittedSeq: vh.U64Edge(r), RetentionThroughSeq: vh.U64Edge(r), CurrentUserLastSendSeq: vh.U64Edge(r)}
			if vh.Chance(r, 0.5) {
				items[i].Head.Found, items[i].Head.Message = true, genCleanMessage(r)
			}
		}
		return channels.ConversationHeadsResponse{Items: items}
	}, channels.VerifEncodeConversationHeadsResponse, channels.VerifDecodeConversationHeadsResponse, chKind["kindConversationHeadsResponse"],
		7) // the three head sequences are written from version 7 on only
	regOpaque("ch_committed_reads_response", 2, 5, func(r *rand.Rand) channels.CommittedReadsResponse {
		n := sliceLen(r)
		if n < 0 {
			return channels.CommittedReadsResponse{}
		}
		items := make([]channels.CommittedReadResult, n)
		for i := range items {
			items[i].Err = genSentinel(r)
			items[i].Read.NextSeq = vh.U64Edge(r)
			if k := sliceLen(r); k >= 0 {
				items[i].Read.Messages = make([]ch.Message, k)
				for j := range items[i].Read.Messages {
					items[i].Read.Messages[j] = genCleanMessage(r)
				}
			}
		}
		return channels.CommittedReadsResponse{Items: items}
	}, channels.VerifEncodeCommittedReadsResponse, channels.VerifDecodeCommittedReadsResponse, chKind["kindCommittedReadsResponse"])

	// C27-K1 witnesses (the values of Proof/ClusterCodec_Channels.v and of the scratch test)
	k1msg := ch.Message{MessageID: 7, FromUID: "u1", ClientMsgNo: "c1", ServerTimestampMS: 1, SyncOnce: true, Payload: []byte("cmd")}
	codecByName["ch_append_batch"].fixed = map[string]any{
		"k1_synconce": chVal[ch.AppendBatchRequest]{7, ch.AppendBatchRequest{ChannelID: ch.ChannelID{ID: "g1", Type: 2}, Messages: []ch.Message{k1msg}}},
	}
	codecByName["ch_append_response"].fixed = map[string]any{
		"k1_synconce": chVal[ch.AppendResult]{7, ch.AppendResult{MessageID: 7, MessageSeq: 3, Message: k1msg}},
	}
	codecByName["ch_pull_response"].fixed = map[string]any{
		"k1_record_synconce_routegen": chVal[channeltransport.PullResponse]{7, channeltransport.PullResponse{ChannelKey: "k",
			Meta:    &ch.Meta{Key: "k", RouteGeneration: 9},
			Records: []ch.Record{{ID: 1, Index: 1, Epoch: 1, SyncOnce: true, Payload: []byte("x"), SizeBytes: 1}}}},
	}

	constEmitters = append(constEmitters, func(sb *strings.Builder) {
		sb.WriteString("(* pkg/cluster/channels *)\n")
		for _, kv := range channels.VerifCodecConsts() {
			defN(sb, kv[0].(string), uint64(kv[1].(uint8)))
		}
		// counts are checked against the remaining input: a decoder allocates at most
		// (largest element) * |input|, plus the copies of the strings and payloads
		defN(sb, "ChannelsAllocBase", 65536)
		defN(sb, "ChannelsAllocPerByte", uint64(channels.VerifMaxElemSize())+8)
	})
}

// ---- generators ---------------------------------------------------------------------------------

func genInt(r *rand.Rand) int {
	return int(vh.Pick(r, int64(0), 1, -1, 63, 64, -64, -65, 1<<20, 1<<62, -1<<63, 1<<63-1, r.Int64N(1<<uint(1+r.IntN(62)))))
}

func genChanID(r *rand.Rand) ch.ChannelID {
	return ch.ChannelID{ID: randStr(r, 8), Type: vh.Pick(r, uint8(0), 1, 2, 127, 128, 255)}
}

func genPull(r *rand.Rand) channeltransport.PullRequest {
	return channeltransport.PullRequest{ChannelKey: ch.ChannelKey(randStr(r, 8)), ChannelID: genChanID(r), Epoch: vh.U64Edge(r),
		LeaderEpoch: vh.U64Edge(r), Follower: ch.NodeID(vh.U64Edge(r)), NextOffset: vh.U64Edge(r), AckOffset: vh.U64Edge(r),
		MaxBytes: genInt(r), NeedMeta: vh.Chance(r, 0.5)}
}

func genPullHint(r *rand.Rand) channeltransport.PullHintRequest {
	return channeltransport.PullHintRequest{ChannelKey: ch.ChannelKey(randStr(r, 8)), ChannelID: genChanID(r), Epoch: vh.U64Edge(r),
		LeaderEpoch: vh.U64Edge(r), Leader: ch.NodeID(vh.U64Edge(r)), LeaderLEO: vh.U64Edge(r), ActivityVersion: vh.U64Edge(r),
		Reason: channeltransport.PullHintReason(r.IntN(4))}
}

func genPayload(r *rand.Rand) []byte {
	switch r.IntN(8) {
	case 0:
		return nil
	case 1:
		return vh.Bytes(r, 60+r.IntN(100))
	default:
		return vh.Bytes(r, 1+r.IntN(12))
	}
}

// genCleanMessage: only fields the wire carries
func genCleanMessage(r *rand.Rand) ch.Message {
	return ch.Message{MessageID: vh.U64Edge(r), MessageSeq: vh.U64Edge(r), ChannelID: randStr(r, 8), ChannelType: uint8(r.UintN(256)),
		Setting: uint8(r.UintN(256)), FromUID: randStr(r, 6), ClientMsgNo: randStr(r, 8), ServerTimestampMS: int64(genInt(r)),
		TraceID: randStr(r, 6), ChannelKey: randStr(r, 6), Payload: genPayload(r)}
}

// genMessage also sets, now and then, what the codec is not expected to lose
func genMessage(r *rand.Rand) (ch.Message, string) {
	m := genCleanMessage(r)
	switch r.IntN(20) {
	case 0:
		m.SyncOnce = true
		return m, "synconce"
	case 1:
		m.Payload = []byte{}
		return m, "emptypayload"
	}
	return m, ""
}

func genMessages(r *rand.Rand) ([]ch.Message, string) {
	n := sliceLen(r)
	if n < 0 {
		return nil, "nil"
	}
	class := ""
	msgs := make([]ch.Message, n)
	for i := range msgs {
		var c string
		msgs[i], c = genMessage(r)
		if c != "" {
			class = c
		}
	}
	return msgs, class
}

func genTime(r *rand.Rand) time.Time {
	switch r.IntN(4) {
	case 0:
		return time.Time{}
	case 1:
		return time.Unix(0, 0)
	default:
		return time.Unix(0, int64(genInt(r)))
	}
}

func genNodeIDs(r *rand.Rand) []ch.NodeID {
	n := sliceLen(r)
	if n < 0 {
		return nil
	}
	ids := make([]ch.NodeID, n)
	for i := range ids {
		ids[i] = ch.NodeID(vh.U64Edge(r))
	}
	return ids
}

func genMeta(r *rand.Rand) ch.Meta {
	m := ch.Meta{Key: ch.ChannelKey(randStr(r, 6)), ID: genChanID(r), Epoch: vh.U64Edge(r), LeaderEpoch: vh.U64Edge(r),
		Leader: ch.NodeID(vh.U64Edge(r)), Replicas: genNodeIDs(r), ISR: genNodeIDs(r), MinISR: genInt(r), LeaseUntil: genTime(r),
		Status: ch.Status(r.IntN(5))}
	if vh.Chance(r, 0.6) {
		m.RetentionThroughSeq = vh.U64Edge(r)
		m.WriteFence = ch.WriteFence{Token: randStr(r, 6), Version: vh.U64Edge(r), Reason: ch.WriteFenceReason(r.IntN(4)), Until: genTime(r)}
	}
	if vh.Chance(r, 0.08) {
		m.RouteGeneration = 1 + vh.U64Edge(r)>>1
	}
	return m
}

var sentinels = []error{nil, nil, nil, ch.ErrNotLeader, ch.ErrStaleMeta, ch.ErrChannelNotFound, ch.ErrNotReady, ch.ErrBackpressured}

func genSentinel(r *rand.Rand) error { return sentinels[r.IntN(len(sentinels))] }

// ---- Coq printers ------------------------------------------------------------------------------------

func coqChanID(id ch.ChannelID) string { return vh.App("ChanId", hexS(id.ID), vh.N(uint64(id.Type))) }

func optBytes(b []byte) string {
	if b == nil {
		return vh.None()
	}
	return vh.Some(bigHex(b))
}

func optTime(t time.Time) string {
	if t.IsZero() {
		return vh.None()
	}
	return vh.Some(vh.Z(t.UnixNano()))
}

func coqPull(q channeltransport.PullRequest) string {
	return vh.App("PullRequest", hexS(string(q.ChannelKey)), coqChanID(q.ChannelID), vh.N(q.Epoch), vh.N(q.LeaderEpoch),
		vh.N(uint64(q.Follower)), vh.N(q.NextOffset), vh.N(q.AckOffset), vh.Z(int64(q.MaxBytes)), vh.B(q.NeedMeta))
}

func coqPullHint(q channeltransport.PullHintRequest) string {
	return vh.App("PullHintRequest", hexS(string(q.ChannelKey)), coqChanID(q.ChannelID), vh.N(q.Epoch), vh.N(q.LeaderEpoch),
		vh.N(uint64(q.Leader)), vh.N(q.LeaderLEO), vh.N(q.ActivityVersion), vh.N(uint64(q.Reason)))
}

func coqMessage(m ch.Message) string {
	return vh.App("CMessage", vh.N(m.MessageID), vh.N(m.MessageSeq), hexS(m.ChannelID), vh.N(uint64(m.ChannelType)), vh.N(uint64(m.Setting)),
		hexS(m.FromUID), hexS(m.ClientMsgNo), vh.Z(m.ServerTimestampMS), hexS(m.TraceID), hexS(m.ChannelKey), vh.B(m.SyncOnce), optBytes(m.Payload))
}

func coqMessages(ms []ch.Message) string { return optList(ms == nil, mapS(ms, coqMessage)) }

func coqCRecord(x ch.Record) string {
	return vh.App("CRecord", vh.N(x.ID), vh.N(x.Index), vh.N(x.Epoch), vh.N(uint64(x.Setting)), hexS(x.FromUID), hexS(x.ClientMsgNo),
		vh.Z(x.ServerTimestampMS), vh.B(x.SyncOnce), optBytes(x.Payload), vh.Z(int64(x.SizeBytes)))
}

func coqNodeIDs(ids []ch.NodeID) string {
	return optList(ids == nil, mapS(ids, func(id ch.NodeID) string { return vh.N(uint64(id)) }))
}

func coqMeta(m ch.Meta) string {
	return vh.App("CMeta", hexS(string(m.Key)), coqChanID(m.ID), vh.N(m.Epoch), vh.N(m.LeaderEpoch), vh.N(m.RouteGeneration), vh.N(uint64(m.Leader)),
		coqNodeIDs(m.Replicas), coqNodeIDs(m.ISR), vh.Z(int64(m.MinISR)), optTime(m.LeaseUntil), vh.N(m.RetentionThroughSeq),
		hexS(m.WriteFence.Token), vh.N(m.WriteFence.Version), vh.N(uint64(m.WriteFence.Reason)), optTime(m.WriteFence.Until), vh.N(uint64(m.Status)))
}
