// Harness for C35: person / command / agent channel ids are canonical.
//
// One case = four byte strings (two uids a and b, an arbitrary channel-id
// string c handed to NormalizePersonChannel by sender a, a string x for the
// command-suffix functions) and everything the public channelid package
// returns for them.
package main

import (
	"encoding/hex"
	"fmt"
	"hash/crc32"
	"io"
	"math/rand/v2"
	"strings"
	"sync"

	"github.com/WuKongIM/WuKongIM/internal/verifh/vh"
	"github.com/WuKongIM/WuKongIM/pkg/protocol/channelid"
)

type input struct {
	A string `json:"a"` // hex
	B string `json:"b"`
	C string `json:"c"`
	X string `json:"x"`
}

// ---- CRC collisions ----------------------------------------------------------

var revTop [256]byte // top byte of IEEETable[i] -> i

func init() {
	for i, v := range crc32.IEEETable {
		revTop[v>>24] = byte(i)
	}
}

// forge returns prefix||4 bytes whose CRC-32 equals target.
func forge(prefix []byte, target uint32) []byte {
	t := crc32.IEEETable
	f := ^target // register wanted after the four bytes
	var idx [4]byte
	for k := 3; k >= 0; k-- {
		i := revTop[f>>24]
		idx[k] = i
		f = (f ^ t[i]) << 8
	}
	s := ^crc32.ChecksumIEEE(prefix) // register after the prefix
	out := append([]byte{}, prefix...)
	for k := 0; k < 4; k++ {
		b := byte(s) ^ idx[k]
		out = append(out, b)
		s = t[idx[k]] ^ (s >> 8)
	}
	return out
}

var (
	asciiOnce sync.Once
	asciiColl [][2]string // pairs of distinct lowercase uids with equal CRC
)

// birthday search over short lowercase uids; deterministic.
func asciiCollisions() [][2]string {
	asciiOnce.Do(func() {
		r := rand.New(rand.NewPCG(35, 35))
		seen := make(map[uint32]string, 1<<19)
		for len(asciiColl) < 8 && len(seen) < 1<<20 {
			n := 5 + r.IntN(3)
			b := make([]byte, n)
			for j := range b {
				b[j] = byte('a' + r.IntN(26))
			}
			h := crc32.ChecksumIEEE(b)
			if o, ok := seen[h]; ok && o != string(b) {
				asciiColl = append(asciiColl, [2]string{o, string(b)})
				continue
			}
			seen[h] = string(b)
		}
	})
	return asciiColl
}

// ---- generator -----------------------------------------------------------------

const alpha = "abcuv12_"

func ascii(r *rand.Rand, n int) []byte {
	b := make([]byte, n)
	for j := range b {
		b[j] = alpha[r.IntN(len(alpha))]
	}
	return b
}

func genUID(r *rand.Rand) []byte {
	switch r.IntN(14) {
	case 0:
		return nil
	case 1:
		return []byte(vh.Pick(r, "a", "b", "u1", "u2", "alice", "bob"))
	case 2:
		return []byte(vh.Pick(r, "a@b", "@", "u1@", "@u2", "a@@b", "u1@u2", "b@a"))
	case 3:
		return []byte(vh.Pick(r, "u1"+channelid.CommandChannelSuffix, channelid.CommandChannelSuffix, "a____cm", "a_____cmd"))
	case 4:
		return vh.Bytes(r, 1+r.IntN(8))
	case 5:
		b := vh.Bytes(r, 1+r.IntN(6))
		for j := range b {
			b[j] |= 0x80
		}
		return b
	default:
		return ascii(r, 1+r.IntN(6))
	}
}

func gen(r *rand.Rand, tier string, i int) input {
	a := genUID(r)
	var b []byte
	switch r.IntN(12) {
	case 0:
		b = append([]byte{}, a...)
	case 1, 2: // forged collision with a
		b = forge(ascii(r, r.IntN(5)), crc32.ChecksumIEEE(a))
	case 3: // ascii collision pair
		if cs := asciiCollisions(); len(cs) > 0 {
			p := cs[r.IntN(len(cs))]
			a, b = []byte(p[0]), []byte(p[1])
			if vh.Chance(r, 0.5) {
				a, b = b, a
			}
		} else {
			b = genUID(r)
		}
	case 4: // prefix / extension of a (string-order edge)
		if len(a) > 0 && vh.Chance(r, 0.5) {
			b = append([]byte{}, a[:len(a)-1]...)
		} else {
			b = append(append([]byte{}, a...), alpha[r.IntN(len(alpha))])
		}
	default:
		b = genUID(r)
	}
	z, w := genUID(r), genUID(r)
	join := func(p, q []byte) []byte { return append(append(append([]byte{}, p...), '@'), q...) }
	var c []byte
	switch r.IntN(14) {
	case 0:
		c = join(a, b)
	case 1:
		c = join(b, a)
	case 2:
		c = []byte(channelid.EncodePersonChannel(string(a), string(b)))
	case 3:
		c = join(a, z)
	case 4:
		c = join(z, a)
	case 5:
		c = join(z, w)
	case 6:
		c = join(join(a, b), z)
	case 7:
		c = join(nil, a)
	case 8:
		c = join(a, nil)
	case 9:
		c = nil
	case 10:
		c = append([]byte{}, a...)
	case 11:
		c = join(a, a)
	default:
		c = z
	}
	suf := []byte(channelid.CommandChannelSuffix)
	var x []byte
	switch r.IntN(10) {
	case 0:
		x = append(append([]byte{}, z...), suf...)
	case 1:
		x = append(append(append([]byte{}, z...), suf...), suf...)
	case 2:
		x = suf
	case 3:
		x = suf[1:]
	case 4:
		x = append(append([]byte{}, z...), suf[:len(suf)-1]...)
	case 5:
		x = append(append([]byte{}, suf...), z...)
	case 6:
		x = append([]byte(channelid.EncodePersonChannel(string(a), string(b))), suf...)
	case 7:
		x = nil
	default:
		x = z
	}
	return input{A: hex.EncodeToString(a), B: hex.EncodeToString(b), C: hex.EncodeToString(c), X: hex.EncodeToString(x)}
}

// ---- run ------------------------------------------------------------------------

func unhex(s string) string {
	b, err := hex.DecodeString(s)
	if err != nil {
		panic(err)
	}
	return string(b)
}

// strtab shares byte-string literals inside one case term: every distinct string
// is bound once by a let (elaborating string literals dominates the cost of a
// case file, and a case repeats the same few strings many times).
type strtab struct {
	names map[string]string
	lets  []string
}

func (t *strtab) s(v string) string {
	if n, ok := t.names[v]; ok {
		return n
	}
	if t.names == nil {
		t.names = map[string]string{}
	}
	n := fmt.Sprintf("s%d", len(t.names))
	t.names[v] = n
	t.lets = append(t.lets, "let "+n+" := "+vh.HexS(v)+" in ")
	return n
}

func (t *strtab) wrap(term string) string {
	return "(" + strings.Join(t.lets, "") + term + ")"
}

func (t *strtab) optPair(l, r string, err error) string {
	if err != nil {
		return vh.None()
	}
	return vh.Some(vh.Pair(t.s(l), t.s(r)))
}

func (t *strtab) optStr(s string, err error) string {
	if err != nil {
		return vh.None()
	}
	return vh.Some(t.s(s))
}

func obsStr(s string, err error) any {
	if err != nil {
		return "error"
	}
	return hex.EncodeToString([]byte(s))
}

func run(in input) vh.Result {
	a, b, c, x := unhex(in.A), unhex(in.B), unhex(in.C), unhex(in.X)
	crcA, crcB := crc32.ChecksumIEEE([]byte(a)), crc32.ChecksumIEEE([]byte(b))

	encAB := channelid.EncodePersonChannel(a, b)
	encBA := channelid.EncodePersonChannel(b, a)
	dl, dr, derr := channelid.DecodePersonChannel(encAB)
	cl, cr, cerr := channelid.DecodePersonChannel(c)
	nAB, nABerr := channelid.NormalizePersonChannel(a, b)
	nBA, nBAerr := channelid.NormalizePersonChannel(b, a)
	nAE, nAEerr := channelid.NormalizePersonChannel(a, encAB)
	nBE, nBEerr := channelid.NormalizePersonChannel(b, encAB)
	nAC, nACerr := channelid.NormalizePersonChannel(a, c)
	nAC2, nAC2err := "", error(channelid.ErrInvalidPersonChannel)
	if nACerr == nil {
		nAC2, nAC2err = channelid.NormalizePersonChannel(a, nAC)
	}

	isX := channelid.IsCommandChannel(x)
	toX := channelid.ToCommandChannel(x)
	toToX := channelid.ToCommandChannel(toX)
	isToX := channelid.IsCommandChannel(toX)
	fromX, fromXok := channelid.FromCommandChannel(x)
	fromToX, fromToXok := channelid.FromCommandChannel(toX)

	agEnc := channelid.EncodeAgentChannel(a, b)
	al, ar, aerr := channelid.DecodeAgentChannel(agEnc)
	acl, acr, acerr := channelid.DecodeAgentChannel(c)

	rel := "distinct"
	switch {
	case a == b:
		rel = "equal"
	case crcA == crcB:
		rel = "collision"
	}
	clean := "clean"
	switch {
	case a == "" || b == "":
		clean = "empty"
	case strings.Contains(a, "@") || strings.Contains(b, "@"):
		clean = "at"
	}
	nk := "norm-ok"
	if nACerr != nil {
		nk = "norm-err"
	}
	var t strtab
	xk := "plain"
	if isX {
		xk = "cmd"
	}
	return vh.Result{
		Coq: t.wrap(vh.App("C35Case",
			t.s(a), t.s(b), t.s(c), t.s(x),
			vh.N(uint64(crcA)), vh.N(uint64(crcB)),
			t.s(encAB), t.s(encBA),
			t.optPair(dl, dr, derr), t.optPair(cl, cr, cerr),
			t.optStr(nAB, nABerr), t.optStr(nBA, nBAerr), t.optStr(nAE, nAEerr), t.optStr(nBE, nBEerr),
			t.optStr(nAC, nACerr), t.optStr(nAC2, nAC2err),
			vh.B(isX), t.s(toX), t.s(toToX), vh.B(isToX),
			vh.Pair(t.s(fromX), vh.B(fromXok)), vh.Pair(t.s(fromToX), vh.B(fromToXok)),
			t.s(agEnc), t.optPair(al, ar, aerr), t.optPair(acl, acr, acerr))),
		Obs: map[string]any{
			"crc_a": crcA, "crc_b": crcB,
			"enc_ab": hex.EncodeToString([]byte(encAB)), "enc_ba": hex.EncodeToString([]byte(encBA)),
			"dec_enc_ok": derr == nil, "dec_c_ok": cerr == nil,
			"norm_ab": obsStr(nAB, nABerr), "norm_ba": obsStr(nBA, nBAerr),
			"norm_a_enc": obsStr(nAE, nAEerr), "norm_b_enc": obsStr(nBE, nBEerr),
			"norm_ac": obsStr(nAC, nACerr), "norm_ac2": obsStr(nAC2, nAC2err),
			"is_x": isX, "to_x": hex.EncodeToString([]byte(toX)), "to_to_x": hex.EncodeToString([]byte(toToX)),
			"from_x": []any{hex.EncodeToString([]byte(fromX)), fromXok},
			"from_to_x": []any{hex.EncodeToString([]byte(fromToX)), fromToXok},
			"agent_enc": hex.EncodeToString([]byte(agEnc)), "agent_dec_ok": aerr == nil,
		},
		Class:   rel + "/" + clean + "/" + nk + "/" + xk,
		Trivial: false,
	}
}

func emitConsts(w io.Writer) {
	fmt.Fprintln(w, "(* GENERATED by harness/cmd/C35 -emit-consts from the compiled /repo tree. Do not edit. *)")
	fmt.Fprintln(w, "From WK Require Import Base.Base.")
	fmt.Fprintln(w, "Open Scope N_scope.")
	fmt.Fprintln(w, "(* channelid.CommandChannelSuffix *)")
	fmt.Fprintf(w, "Definition CommandChannelSuffix : bytes := %s.\n", vh.List(bytesN(channelid.CommandChannelSuffix)))
	fmt.Fprintln(w, "(* channelid.EncodePersonChannel(\"\", \"\"): the separator the encoder writes *)")
	fmt.Fprintf(w, "Definition PersonSeparator : bytes := %s.\n", vh.List(bytesN(channelid.EncodePersonChannel("", ""))))
	fmt.Fprintln(w, "(* channelid.EncodeAgentChannel(\"\", \"\") *)")
	fmt.Fprintf(w, "Definition AgentSeparator : bytes := %s.\n", vh.List(bytesN(channelid.EncodeAgentChannel("", ""))))
}

func bytesN(s string) []string {
	out := make([]string, len(s))
	for i := 0; i < len(s); i++ {
		out[i] = fmt.Sprint(s[i])
	}
	return out
}

func main() {
	vh.Main(vh.Harness[input]{EmitConsts: emitConsts, Gen: gen, Run: run})
}
