package main

// Reference pipeline used ONLY to fill the oracle tables of a case: which AES
// blocks, MD5 messages and X25519 pairs the abstract model will ask for, and
// what the Go standard library answers.  It is written independently of
// pkg/protocol/wkprotoenc (stdlib primitives, own padding / chaining / sign
// bytes); if it ever disagrees with the model the model's lookups miss and the
// case is reported as a correspondence mismatch.

import (
	"crypto/aes"
	"crypto/md5"
	"encoding/base64"
	"strconv"

	"github.com/WuKongIM/WuKongIM/internal/verifh/vh"
	"github.com/WuKongIM/WuKongIM/pkg/protocol/frame"
	penc "github.com/WuKongIM/WuKongIM/pkg/protocol/wkprotoenc"
	"golang.org/x/crypto/curve25519"
)

type blockEntry struct{ key, in, out []byte }
type md5Entry struct {
	msg []byte
	sum [16]byte
}
type dhEntry struct {
	scalar, point, out []byte
	ok                 bool
}

type oracle struct {
	seenE, seenD, seenM, seenDH map[string]bool
	es, ds                      []blockEntry
	ms                          []md5Entry
	dhs                         []dhEntry
}

func newOracle() *oracle {
	return &oracle{seenE: map[string]bool{}, seenD: map[string]bool{}, seenM: map[string]bool{}, seenDH: map[string]bool{}}
}

func (o *oracle) aesE(key, in []byte) []byte {
	blk, err := aes.NewCipher(key)
	if err != nil {
		panic(err)
	}
	out := make([]byte, 16)
	blk.Encrypt(out, in)
	k := string(key) + "|" + string(in)
	if !o.seenE[k] {
		o.seenE[k] = true
		o.es = append(o.es, blockEntry{append([]byte(nil), key...), append([]byte(nil), in...), out})
	}
	return out
}

func (o *oracle) aesD(key, in []byte) []byte {
	blk, err := aes.NewCipher(key)
	if err != nil {
		panic(err)
	}
	out := make([]byte, 16)
	blk.Decrypt(out, in)
	k := string(key) + "|" + string(in)
	if !o.seenD[k] {
		o.seenD[k] = true
		o.ds = append(o.ds, blockEntry{append([]byte(nil), key...), append([]byte(nil), in...), out})
	}
	return out
}

func (o *oracle) md5(msg []byte) [16]byte {
	sum := md5.Sum(msg)
	if !o.seenM[string(msg)] {
		o.seenM[string(msg)] = true
		o.ms = append(o.ms, md5Entry{append([]byte(nil), msg...), sum})
	}
	return sum
}

// dh returns nil when X25519 reports an error.
func (o *oracle) dh(scalar, point []byte) []byte {
	out, err := curve25519.X25519(scalar, point)
	k := string(scalar) + "|" + string(point)
	if !o.seenDH[k] {
		o.seenDH[k] = true
		o.dhs = append(o.dhs, dhEntry{append([]byte(nil), scalar...), append([]byte(nil), point...), append([]byte(nil), out...), err == nil})
	}
	if err != nil {
		return nil
	}
	return out
}

func usable(keys penc.SessionKeys) bool { return len(keys.AESKey) >= 16 && len(keys.AESIV) >= 16 }

// refEncrypt: PKCS7 + CBC + base64; returns the base64 text (nil when the keys are unusable).
func (o *oracle) refEncrypt(keys penc.SessionKeys, plain []byte) []byte {
	if !usable(keys) {
		return nil
	}
	key, prev := keys.AESKey[:16], append([]byte(nil), keys.AESIV[:16]...)
	pad := 16 - len(plain)%16
	buf := append([]byte(nil), plain...)
	for i := 0; i < pad; i++ {
		buf = append(buf, byte(pad))
	}
	var ct []byte
	for off := 0; off < len(buf); off += 16 {
		x := make([]byte, 16)
		for i := range x {
			x[i] = buf[off+i] ^ prev[i]
		}
		c := o.aesE(key, x)
		ct = append(ct, c...)
		prev = c
	}
	return []byte(base64.StdEncoding.EncodeToString(ct))
}

// refDecrypt records the block decryptions DecryptPayload needs for data.
func (o *oracle) refDecrypt(keys penc.SessionKeys, data []byte) {
	if !usable(keys) {
		return
	}
	raw, err := base64.StdEncoding.DecodeString(string(data))
	if err != nil || len(raw) == 0 || len(raw)%16 != 0 {
		return
	}
	for off := 0; off < len(raw); off += 16 {
		o.aesD(keys.AESKey[:16], raw[off:off+16])
	}
}

func (o *oracle) refMsgKey(keys penc.SessionKeys, sign []byte) {
	enc := o.refEncrypt(keys, sign)
	if enc == nil {
		return
	}
	o.md5(enc)
}

func (o *oracle) refSendMsgKey(keys penc.SessionKeys, p frame.SendPacket) {
	var sign []byte
	sign = strconv.AppendUint(sign, p.ClientSeq, 10)
	sign = append(sign, p.ClientMsgNo...)
	sign = append(sign, p.ChannelID...)
	sign = strconv.AppendUint(sign, uint64(p.ChannelType), 10)
	sign = append(sign, p.Payload...)
	o.refMsgKey(keys, sign)
}

func (o *oracle) refSealRecv(keys penc.SessionKeys, p frame.RecvPacket) {
	enc := o.refEncrypt(keys, p.Payload)
	if enc == nil {
		return
	}
	var sign []byte
	sign = strconv.AppendInt(sign, p.MessageID, 10)
	sign = strconv.AppendUint(sign, p.MessageSeq, 10)
	sign = append(sign, p.ClientMsgNo...)
	sign = strconv.AppendInt(sign, int64(p.Timestamp), 10)
	sign = append(sign, p.FromUID...)
	sign = append(sign, p.ChannelID...)
	sign = strconv.AppendUint(sign, uint64(p.ChannelType), 10)
	sign = append(sign, enc...)
	o.refMsgKey(keys, sign)
}

func (o *oracle) refSecret(scalar []byte, encodedPoint string) {
	point, err := base64.StdEncoding.DecodeString(encodedPoint)
	if err != nil || len(point) != 32 {
		return
	}
	secret := o.dh(scalar, point)
	if secret == nil {
		return
	}
	o.md5([]byte(base64.StdEncoding.EncodeToString(secret)))
}

func (o *oracle) refNegotiate(clientKey string, rnd []byte) {
	o.dh(rnd[:32], curve25519.Basepoint)
	o.refSecret(rnd[:32], clientKey)
}

func (o *oracle) refDerive(cpriv []byte, serverKey string) { o.refSecret(cpriv, serverKey) }

// ---- Coq tables ---------------------------------------------------------------------

// blockTab groups the entries by key and packs them: [(key, in0 ‖ out0 ‖ in1 ‖ out1 ‖ ...); ...]
func blockTab(es []blockEntry) string {
	var keys []string
	byKey := map[string][]byte{}
	for _, e := range es {
		k := string(e.key)
		if _, ok := byKey[k]; !ok {
			keys = append(keys, k)
		}
		byKey[k] = append(append(byKey[k], e.in...), e.out...)
	}
	return vh.ListOf(keys, func(k string) string { return vh.Pair(lit([]byte(k)), lit(byKey[k])) })
}

func (o *oracle) tabE() string { return blockTab(o.es) }
func (o *oracle) tabD() string { return blockTab(o.ds) }
func (o *oracle) tabMD5() string {
	return vh.ListOf(o.ms, func(e md5Entry) string { return vh.Pair(lit(e.msg), lit(e.sum[:])) })
}
func (o *oracle) tabDH() string {
	return vh.ListOf(o.dhs, func(e dhEntry) string {
		out := vh.None()
		if e.ok {
			out = vh.Some(lit(e.out))
		}
		return vh.Pair(vh.Pair(lit(e.scalar), lit(e.point)), out)
	})
}
