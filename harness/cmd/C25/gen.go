package main

import (
	"crypto/aes"
	"crypto/cipher"
	"encoding/base64"
	"encoding/hex"
	"math/rand/v2"

	"github.com/WuKongIM/WuKongIM/internal/verifh/vh"
	"golang.org/x/crypto/curve25519"
)

func hx(b []byte) string { return hex.EncodeToString(b) }

// small pools so that equal keys / equal header fields across ops are frequent
var keyPool = [][]byte{
	[]byte("0123456789abcdef"),
	[]byte("a3f1c0de9b7e4d21"),
	[]byte("ffffffffffffffff0000"), // longer than a block: the first 16 bytes are used
	{0, 0, 0, 0, 0, 0, 0, 0, 0, 0, 0, 0, 0, 0, 0, 0},
}
var ivPool = [][]byte{
	[]byte("abcdefghijklmnop"),
	[]byte("ZZZZ0000zzzz9999"),
	[]byte("q8Xw2LmN0pRs7TuVextra"),
	{255, 254, 253, 252, 251, 250, 249, 248, 247, 246, 245, 244, 243, 242, 241, 240},
}
var msgNos = []string{"", "1", "7abc", "m-001", "0", "cmn9", "e3b0c44298fc1c149afbf4c8996fb924"}
var chIDs = []string{"", "u1", "u2", "1u", "g100", "9", "a@b", "channel-with-a-long-name-0123456789"}
var uids = []string{"", "u1", "u2", "10", "system"}

func genKeys(r *rand.Rand) (key, iv []byte) {
	key, iv = vh.Pick(r, keyPool...), vh.Pick(r, ivPool...)
	switch r.IntN(24) {
	case 0:
		key = vh.Bytes(r, 16)
	case 1:
		iv = vh.Bytes(r, 16)
	case 2:
		key = key[:15] // unusable
	case 3:
		iv = iv[:15]
	case 4:
		key = nil
	case 5:
		iv = nil
	case 6:
		key = vh.Bytes(r, 32)
	}
	return
}

func genGoodKeys(r *rand.Rand) (key, iv []byte) {
	key, iv = vh.Pick(r, keyPool...), vh.Pick(r, ivPool...)
	if r.IntN(6) == 0 {
		key, iv = vh.Bytes(r, 16), vh.Bytes(r, 16)
	}
	return
}

func genPayload(r *rand.Rand) []byte {
	var n int
	switch r.IntN(10) {
	case 0:
		n = vh.Pick(r, 0, 1, 15, 16, 17, 31, 32, 33, 47, 48, 49)
	case 1:
		n = 50 + r.IntN(40)
		if r.IntN(8) == 0 {
			n = 100 + r.IntN(200)
		}
	default:
		n = r.IntN(49)
	}
	p := vh.Bytes(r, n)
	switch r.IntN(8) {
	case 0: // looks like padding
		for i := range p {
			p[i] = 16
		}
	case 1:
		if n > 0 {
			k := 1 + r.IntN(16)
			for i := n - 1; i >= 0 && i >= n-k; i-- {
				p[i] = byte(k)
			}
		}
	case 2: // ASCII JSON-ish
		const a = `{"type":1,"content":"hi"} 0123456789`
		for i := range p {
			p[i] = a[r.IntN(len(a))]
		}
	case 3:
		for i := range p {
			p[i] = 0
		}
	}
	return p
}

// rawCBC encrypts blocks WITHOUT padding (stdlib CBC) and returns the base64 text: lets the
// generator choose the bytes pkcs7UnpadView will see.
func rawCBC(key, iv, blocks []byte) []byte {
	blk, err := aes.NewCipher(key[:16])
	if err != nil {
		panic(err)
	}
	out := make([]byte, len(blocks))
	cipher.NewCBCEncrypter(blk, iv[:16]).CryptBlocks(out, blocks)
	return []byte(base64.StdEncoding.EncodeToString(out))
}

func genDecData(r *rand.Rand, key, iv []byte) []byte {
	usableKeys := len(key) >= 16 && len(iv) >= 16
	if !usableKeys || r.IntN(6) == 0 {
		switch r.IntN(5) {
		case 0:
			return nil
		case 1:
			return []byte("====")
		case 2:
			return []byte(base64.StdEncoding.EncodeToString(vh.Bytes(r, r.IntN(40))))
		case 3:
			b := vh.Bytes(r, r.IntN(30))
			return b
		default:
			const a = "ABCDwxyz0189+/=\n\r -_"
			b := make([]byte, r.IntN(30))
			for i := range b {
				b[i] = a[r.IntN(len(a))]
			}
			return b
		}
	}
	// crafted last block: every branch of pkcs7UnpadView
	nb := 1 + r.IntN(3)
	blocks := vh.Bytes(r, 16*nb)
	n := len(blocks)
	switch r.IntN(9) {
	case 0, 6, 7: // valid padding k
		k := 1 + r.IntN(16)
		for i := n - k; i < n; i++ {
			blocks[i] = byte(k)
		}
	case 1: // padding byte 0
		blocks[n-1] = 0
	case 2: // padding byte > block size
		blocks[n-1] = byte(17 + r.IntN(239))
	case 3: // last byte k but an earlier padding byte differs
		k := 2 + r.IntN(15)
		for i := n - k; i < n; i++ {
			blocks[i] = byte(k)
		}
		blocks[n-k+r.IntN(k-1)] ^= byte(1 + r.IntN(255))
	case 4: // full block of 16s (empty tail) — with one block the plaintext is empty
		for i := n - 16; i < n; i++ {
			blocks[i] = 16
		}
	case 5: // padding 16 on a single block whose first byte differs
		for i := n - 16; i < n; i++ {
			blocks[i] = 16
		}
		blocks[n-16] = 15
	default:
	}
	data := rawCBC(key, iv, blocks)
	switch r.IntN(10) {
	case 0: // newline inside: still valid base64
		k := r.IntN(len(data) + 1)
		data = append(append(append([]byte(nil), data[:k]...), vh.Pick(r, byte('\n'), byte('\r'))), data[k:]...)
	case 1: // bad character
		data[r.IntN(len(data))] = vh.Pick(r, byte('-'), byte('_'), byte(' '), byte(0), byte(200))
	case 2: // cut: not a multiple of 4 / of the block size
		data = data[:r.IntN(len(data))]
	case 3: // padding games
		data = append(data, '=')
	case 4: // raw length not a multiple of 16
		raw, _ := base64.StdEncoding.DecodeString(string(data))
		raw = raw[:len(raw)-1-r.IntN(15)]
		data = []byte(base64.StdEncoding.EncodeToString(raw))
		if r.IntN(2) == 0 && len(data) > 0 && data[len(data)-1] == '=' {
			k := len(data) - 1
			if r.IntN(2) == 0 { // "=" then newline then "="
				data = append(append(append([]byte(nil), data[:k]...), '\n'), data[k:]...)
			} else { // drop the last "="
				data = data[:k]
			}
		}
	}
	return data
}

func genTamper(r *rand.Rand) *tamper {
	kinds := []string{
		"none",
		"pay_flip", "pay_flip", "pay_raw_flip", "pay_raw_flip", "pay_raw_flip", "pay_trunc_block", "pay_dup_block", "pay_swap_blocks",
		"pay_newline", "pay_append", "pay_empty", "pay_replace",
		"key_flip", "key_flip", "key_flip", "key_trunc", "key_upper", "key_empty", "key_set",
		"seq", "msgno", "chid", "chtype", "shift_seq_msgno", "shift_msgno_chid", "resign",
	}
	t := &tamper{Kind: vh.Pick(r, kinds...)}
	t.Pos = r.IntN(400)
	if r.IntN(3) == 0 {
		t.Pos = vh.Pick(r, 0, 1, 15, 16, 17, 31, 32, -1)
	}
	t.Mask = uint8(1) << uint(r.IntN(8))
	if r.IntN(3) == 0 {
		t.Mask = uint8(1 + r.IntN(255))
	}
	switch t.Kind {
	case "pay_append":
		t.Val = hx([]byte(vh.Pick(r, "A", "=", "\n", "AAAA", "QUJD")))
	case "pay_replace", "resign":
		t.Val = hx(genPayload(r))
	case "key_set":
		t.Val = hx([]byte(vh.Pick(r, "d41d8cd98f00b204e9800998ecf8427e", "0", "00000000000000000000000000000000")))
	case "seq":
		t.Num = vh.U64Edge(r)
	case "msgno":
		t.Val = hx([]byte(vh.Pick(r, msgNos...)))
	case "chid":
		t.Val = hx([]byte(vh.Pick(r, chIDs...)))
	case "chtype":
		t.Num = uint64(r.IntN(256))
	}
	return t
}

func genOp(r *rand.Rand) opIn {
	switch k := r.IntN(20); {
	case k < 3: // negotiation
		op := opIn{K: "neg", CPriv: hx(vh.Bytes(r, 32)), Rnd: hx(vh.Bytes(r, 48)), Honest: true}
		if r.IntN(8) == 0 { // raw bytes at the edges of the IV alphabet map
			rnd := vh.Bytes(r, 48)
			for i := 32; i < 48; i++ {
				rnd[i] = vh.Pick(r, byte(0), 61, 62, 123, 124, 185, 186, 247, 248, 255)
			}
			op.Rnd = hx(rnd)
		}
		switch r.IntN(12) {
		case 0: // malformed client key
			op.Honest = false
			op.CKey = hx([]byte(vh.Pick(r, "", "!!!!", "QUJD", "QUJDRA", "AAAA\nAAAA")))
		case 1: // 32 zero bytes: low-order point, X25519 reports an error
			op.Honest = false
			op.CKey = hx([]byte(base64.StdEncoding.EncodeToString(make([]byte, 32))))
		case 2: // some other valid public key (not the client's)
			op.Honest = false
			pub, _ := curve25519.X25519(vh.Bytes(r, 32), curve25519.Basepoint)
			op.CKey = hx([]byte(base64.StdEncoding.EncodeToString(pub)))
		case 3: // wrong length
			op.Honest = false
			op.CKey = hx([]byte(base64.StdEncoding.EncodeToString(vh.Bytes(r, vh.Pick(r, 0, 31, 33, 64)))))
		case 4: // client is handed a different server key
			var s string
			switch r.IntN(4) {
			case 0:
				s = "not-base64!"
			case 1:
				s = base64.StdEncoding.EncodeToString(make([]byte, 32))
			case 2:
				s = base64.StdEncoding.EncodeToString(vh.Bytes(r, 31))
			default:
				pub, _ := curve25519.X25519(vh.Bytes(r, 32), curve25519.Basepoint)
				s = base64.StdEncoding.EncodeToString(pub)
			}
			h := hx([]byte(s))
			op.CliSKey = &h
		case 5: // client is handed a different salt
			h := hx([]byte(vh.Pick(r, "", "short", "abcdefghijklmnopQ", "0000000000000000")))
			op.CliIV = &h
		}
		return op
	case k < 7:
		key, iv := genKeys(r)
		return opIn{K: "enc", Key: hx(key), IV: hx(iv), Payload: hx(genPayload(r))}
	case k < 10:
		key, iv := genKeys(r)
		return opIn{K: "dec", Key: hx(key), IV: hx(iv), Data: hx(genDecData(r, key, iv))}
	case k < 17:
		key, iv := genGoodKeys(r)
		if r.IntN(20) == 0 {
			key, iv = genKeys(r)
		}
		path := vh.Pick(r, 0, 0, 1, 2, 2, 2)
		if r.IntN(30) == 0 {
			path = 3
		}
		msgno := vh.Pick(r, msgNos...)
		chid := vh.Pick(r, chIDs...)
		seq := uint64(r.IntN(30))
		if r.IntN(6) == 0 {
			seq = vh.U64Edge(r)
		}
		return opIn{K: "send", Key: hx(key), IV: hx(iv), Payload: hx(genPayload(r)), Seq: seq, MsgNo: hx([]byte(msgno)),
			ChID: hx([]byte(chid)), ChType: uint8(vh.Pick(r, 0, 1, 1, 2, 2, 12, 255)), Path: path, Tamper: genTamper(r)}
	default:
		key, iv := genGoodKeys(r)
		if r.IntN(12) == 0 {
			key, iv = genKeys(r)
		}
		msgid := int64(vh.U64Edge(r))
		if r.IntN(4) == 0 {
			msgid = -msgid
		}
		ts := int32(r.Uint32())
		if r.IntN(3) == 0 {
			ts = vh.Pick(r, int32(0), 1, -1, 2147483647, -2147483648, 1700000000)
		}
		return opIn{K: "recv", Key: hx(key), IV: hx(iv), Payload: hx(genPayload(r)), MsgID: msgid, MsgSeq: vh.U64Edge(r),
			MsgNo: hx([]byte(vh.Pick(r, msgNos...))), Ts: ts, From: hx([]byte(vh.Pick(r, uids...))),
			ChID: hx([]byte(vh.Pick(r, chIDs...))), ChType: uint8(vh.Pick(r, 0, 1, 2, 255)), Path: vh.Pick(r, 0, 1, 2, 2, 4, 4, 3)}
	}
}

func gen(r *rand.Rand, tier string, i int) input {
	n := 1 + r.IntN(4)
	ops := make([]opIn, n)
	for j := range ops {
		ops[j] = genOp(r)
	}
	return input{Ops: ops}
}
