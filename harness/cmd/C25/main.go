// Harness for C25: end-to-end payload encryption is correct and tamper-evident.
//
// One case is a short list of independent operations on the public wkprotoenc
// API (both packages) and on the gateway adapter's decrypt/seal helpers:
//
//	neg   key negotiation (NegotiateServerSession with a deterministic
//	      crypto/rand.Reader, then DeriveClientSession)
//	enc   EncryptPayload then DecryptPayload
//	dec   DecryptPayload on arbitrary / crafted / mutated input
//	send  client seals a SEND (EncryptPayload + SendMsgKey), the server side
//	      validates and decrypts it (ValidateSendPacket and the adapter's
//	      decryptSendPacketForSession), then the same for a tampered copy
//	recv  SealRecvPacket (direct or through the adapter) then client decrypt
//
// AES, MD5 and X25519 are abstract in the Coq model; the case carries oracle
// tables (per-block AES results, MD5 digests, X25519 results) computed here
// with the Go standard library by an independent reference pipeline
// (oracle.go), so that the model's ciphertext and message key can be compared
// byte for byte with what the implementation returned.
package main

import (
	"bytes"
	"crypto/aes"
	crand "crypto/rand"
	"encoding/base64"
	"encoding/hex"
	"errors"
	"fmt"
	"io"
	"strconv"
	"strings"

	"github.com/WuKongIM/WuKongIM/internal/verifh/vh"
	gwproto "github.com/WuKongIM/WuKongIM/pkg/gateway/protocol/wkproto"
	"github.com/WuKongIM/WuKongIM/pkg/gateway/session"
	gatewaytypes "github.com/WuKongIM/WuKongIM/pkg/gateway/types"
	gwenc "github.com/WuKongIM/WuKongIM/pkg/gateway/wkprotoenc"
	"github.com/WuKongIM/WuKongIM/pkg/protocol/frame"
	penc "github.com/WuKongIM/WuKongIM/pkg/protocol/wkprotoenc"
	"golang.org/x/crypto/curve25519"
)

// ---- input ---------------------------------------------------------------------

type tamper struct {
	Kind string `json:"kind"`          // see applyTamper
	Pos  int    `json:"pos,omitempty"` // position (mod length)
	Mask uint8  `json:"mask,omitempty"`
	Val  string `json:"val,omitempty"` // hex
	Num  uint64 `json:"num,omitempty"`
}

type opIn struct {
	K   string `json:"k"`
	Key string `json:"key,omitempty"` // hex AESKey
	IV  string `json:"iv,omitempty"`  // hex AESIV

	// neg
	CPriv   string  `json:"cpriv,omitempty"` // hex, 32 bytes
	CKey    string  `json:"ckey,omitempty"`  // hex of the client key STRING sent in CONNECT ("" = honest key)
	Honest  bool    `json:"honest,omitempty"`
	Rnd     string  `json:"rnd,omitempty"`      // hex, bytes served by crypto/rand.Reader
	CliSKey *string `json:"cli_skey,omitempty"` // hex override of the server key string given to the client
	CliIV   *string `json:"cli_iv,omitempty"`   // hex override of the salt given to the client

	// enc / send / recv
	Payload string `json:"payload,omitempty"` // hex plaintext
	// dec
	Data string `json:"data,omitempty"` // hex of the base64 text handed to DecryptPayload

	// send
	Seq    uint64  `json:"seq,omitempty"`
	MsgNo  string  `json:"msgno,omitempty"` // hex
	ChID   string  `json:"chid,omitempty"`  // hex
	ChType uint8   `json:"chtype,omitempty"`
	Path   int     `json:"path,omitempty"` // 0 keys as []byte, 1 keys as string, 2 SessionCrypto (+keys), 3 empty session, 4 direct (recv only)
	Tamper *tamper `json:"tamper,omitempty"`

	// recv
	MsgID  int64  `json:"msgid,omitempty"`
	MsgSeq uint64 `json:"msgseq,omitempty"`
	Ts     int32  `json:"ts,omitempty"`
	From   string `json:"from,omitempty"` // hex
}

type input struct {
	Ops []opIn `json:"ops"`
}

func unhex(s string) []byte {
	b, err := hex.DecodeString(s)
	if err != nil {
		panic("bad hex in input: " + err.Error())
	}
	return b
}

// ---- deterministic crypto/rand ----------------------------------------------------

type detReader struct {
	buf  []byte
	used int
}

func (d *detReader) Read(p []byte) (int, error) {
	for i := range p {
		if d.used < len(d.buf) {
			p[i] = d.buf[d.used]
		} else {
			p[i] = 0
		}
		d.used++
	}
	return len(p), nil
}

var det = &detReader{}

func withRand(b []byte, f func()) {
	det.buf, det.used = b, 0
	old := crand.Reader
	crand.Reader = det
	defer func() { crand.Reader = old }()
	f()
}

// ---- error classes ------------------------------------------------------------------

const (
	eNone       = 0
	eInvalidPub = 1
	eMissingKey = 2
	eMsgKey     = 3
	eBase64     = 4
	eOther      = 5
)

func ecode(err error) uint64 {
	var ce base64.CorruptInputError
	switch {
	case err == nil:
		return eNone
	case errors.Is(err, penc.ErrInvalidPublicKey):
		return eInvalidPub
	case errors.Is(err, penc.ErrMissingSessionKey):
		return eMissingKey
	case errors.Is(err, penc.ErrMsgKeyMismatch):
		return eMsgKey
	case errors.As(err, &ce):
		return eBase64
	default:
		return eOther
	}
}

func resBytes(b []byte, err error) string {
	if err != nil {
		return vh.App("Err", vh.N(ecode(err)))
	}
	return vh.App("Ok", lit(b))
}

// lit renders a byte string as (pk len [w0; w1; ...]%uint63): 7 bytes per primitive 63-bit
// integer, little-endian.  String / hex literals cost ~100 us per character to elaborate, which
// dominated the check; primitive integers are one node each.
func lit(b []byte) string {
	if len(b) == 0 {
		return "[]"
	}
	var sb strings.Builder
	sb.WriteString("(pk ")
	sb.WriteString(strconv.Itoa(len(b)))
	sb.WriteString(" [")
	for i := 0; i < len(b); i += 7 {
		var w uint64
		for j := 6; j >= 0; j-- {
			w <<= 8
			if i+j < len(b) {
				w |= uint64(b[i+j])
			}
		}
		if i > 0 {
			sb.WriteString("; ")
		}
		sb.WriteString(strconv.FormatUint(w, 10))
	}
	sb.WriteString("]%uint63)")
	return sb.String()
}

func litS(s string) string { return lit([]byte(s)) }

func keysTerm(k penc.SessionKeys) string { return vh.App("Keys", lit(k.AESKey), lit(k.AESIV)) }

// ---- session stub ----------------------------------------------------------------------

type stubSession struct{ vals map[string]any }

func (s *stubSession) ID() uint64                                           { return 1 }
func (s *stubSession) Listener() string                                     { return "verif" }
func (s *stubSession) RemoteAddr() string                                   { return "" }
func (s *stubSession) LocalAddr() string                                    { return "" }
func (s *stubSession) WriteFrame(frame.Frame, ...session.WriteOption) error { return nil }
func (s *stubSession) Close() error                                         { return nil }
func (s *stubSession) SetValue(k string, v any)                             { s.vals[k] = v }
func (s *stubSession) Value(k string) any                                   { return s.vals[k] }

// letKeys binds the key and IV literals once: (let k := .. in let iv := .. in body); body refers to k, iv.
func letKeys(keys penc.SessionKeys, body string) string {
	return "(let k := " + lit(keys.AESKey) + " in let iv := " + lit(keys.AESIV) + " in " + body + ")"
}

// buildSession returns the session for a path and its Coq description (Sess crypto key iv),
// written with the names bound by letKeys.
func buildSession(path int, keys penc.SessionKeys) (*stubSession, string) {
	s := &stubSession{vals: map[string]any{gatewaytypes.SessionValueEncryptionEnabled: true}}
	crypto, key, iv := vh.None(), vh.None(), vh.None()
	switch path {
	case 0:
		s.vals[gatewaytypes.SessionValueAESKey] = append([]byte(nil), keys.AESKey...)
		s.vals[gatewaytypes.SessionValueAESIV] = append([]byte(nil), keys.AESIV...)
		key, iv = "(Some k)", "(Some iv)"
	case 1:
		s.vals[gatewaytypes.SessionValueAESKey] = string(keys.AESKey)
		s.vals[gatewaytypes.SessionValueAESIV] = string(keys.AESIV)
		key, iv = "(Some k)", "(Some iv)"
	case 2:
		// what pkg/gateway/auth.go installs: the keys and the cached crypto object
		s.vals[gatewaytypes.SessionValueAESKey] = append([]byte(nil), keys.AESKey...)
		s.vals[gatewaytypes.SessionValueAESIV] = append([]byte(nil), keys.AESIV...)
		key, iv = "(Some k)", "(Some iv)"
		if sc, err := gwenc.NewSessionCrypto(keys); err == nil {
			s.vals[gatewaytypes.SessionValueCrypto] = sc
			crypto = "(Some (Keys k iv))"
		}
	default:
	}
	return s, vh.App("Sess", crypto, key, iv)
}

// ---- tampering -----------------------------------------------------------------------------

func flipAt(b []byte, pos int, mask uint8) []byte {
	out := append([]byte(nil), b...)
	if len(out) == 0 {
		return out
	}
	if mask == 0 {
		mask = 1
	}
	p := ((pos % len(out)) + len(out)) % len(out)
	out[p] ^= mask
	return out
}

// applyTamper derives the attacker's packet from the honest one.
func applyTamper(o *oracle, tp *tamper, honest frame.SendPacket, keys penc.SessionKeys) frame.SendPacket {
	t := tamper{Kind: "none"}
	if tp != nil {
		t = *tp
	}
	p := honest
	p.Payload = append([]byte(nil), honest.Payload...)
	switch t.Kind {
	case "", "none":
	case "pay_flip": // flip bits of one character of the base64 text
		p.Payload = flipAt(p.Payload, t.Pos, t.Mask)
	case "pay_raw_flip": // flip bits of one ciphertext byte, re-encode
		raw, err := base64.StdEncoding.DecodeString(string(p.Payload))
		if err == nil && len(raw) > 0 {
			p.Payload = []byte(base64.StdEncoding.EncodeToString(flipAt(raw, t.Pos, t.Mask)))
		} else {
			p.Payload = append(p.Payload, 'A')
		}
	case "pay_trunc_block": // drop the last ciphertext block
		raw, err := base64.StdEncoding.DecodeString(string(p.Payload))
		if err == nil && len(raw) >= 16 {
			p.Payload = []byte(base64.StdEncoding.EncodeToString(raw[:len(raw)-16]))
		} else {
			p.Payload = nil
		}
	case "pay_dup_block": // repeat the first ciphertext block at the end
		raw, err := base64.StdEncoding.DecodeString(string(p.Payload))
		if err == nil && len(raw) >= 16 {
			p.Payload = []byte(base64.StdEncoding.EncodeToString(append(raw, raw[:16]...)))
		} else {
			p.Payload = append(p.Payload, '=')
		}
	case "pay_swap_blocks":
		raw, err := base64.StdEncoding.DecodeString(string(p.Payload))
		if err == nil && len(raw) >= 32 {
			sw := append([]byte(nil), raw...)
			copy(sw[0:16], raw[16:32])
			copy(sw[16:32], raw[0:16])
			p.Payload = []byte(base64.StdEncoding.EncodeToString(sw))
		} else {
			p.Payload = flipAt(p.Payload, t.Pos, 1)
		}
	case "pay_newline": // same ciphertext, different base64 text (newline accepted by the decoder)
		k := 0
		if len(p.Payload) > 0 {
			k = ((t.Pos % (len(p.Payload) + 1)) + len(p.Payload) + 1) % (len(p.Payload) + 1)
		}
		p.Payload = append(append(append([]byte(nil), p.Payload[:k]...), '\n'), p.Payload[k:]...)
	case "pay_append":
		p.Payload = append(p.Payload, unhex(t.Val)...)
	case "pay_empty":
		p.Payload = nil
	case "pay_replace": // ciphertext of another plaintext under the same keys, MsgKey kept
		enc, err := penc.EncryptPayload(unhex(t.Val), keys)
		if err == nil {
			o.refEncrypt(keys, unhex(t.Val))
			p.Payload = enc
		} else {
			p.Payload = unhex(t.Val)
		}
	case "key_flip":
		p.MsgKey = string(flipAt([]byte(p.MsgKey), t.Pos, t.Mask))
		if p.MsgKey == honest.MsgKey {
			p.MsgKey += "0"
		}
	case "key_trunc":
		if len(p.MsgKey) > 0 {
			p.MsgKey = p.MsgKey[:len(p.MsgKey)-1]
		} else {
			p.MsgKey = "0"
		}
	case "key_upper":
		p.MsgKey = strings.ToUpper(p.MsgKey)
		if p.MsgKey == honest.MsgKey {
			p.MsgKey += "F"
		}
	case "key_empty":
		p.MsgKey = ""
		if honest.MsgKey == "" {
			p.MsgKey = "0"
		}
	case "key_set":
		p.MsgKey = string(unhex(t.Val))
	case "seq":
		p.ClientSeq = t.Num
	case "msgno":
		p.ClientMsgNo = string(unhex(t.Val))
	case "chid":
		p.ChannelID = string(unhex(t.Val))
	case "chtype":
		p.ChannelType = uint8(t.Num)
	case "shift_seq_msgno": // ClientSeq d‖"x…" -> ClientSeq (d·10+k), "…": same sign bytes when msgno starts with the digit k
		if len(p.ClientMsgNo) > 0 && p.ClientMsgNo[0] >= '0' && p.ClientMsgNo[0] <= '9' && p.ClientSeq < 1<<56 {
			p.ClientSeq = p.ClientSeq*10 + uint64(p.ClientMsgNo[0]-'0')
			p.ClientMsgNo = p.ClientMsgNo[1:]
		} else {
			p.ClientSeq++
		}
	case "shift_msgno_chid": // last char of msgno moves to the front of the channel id
		if len(p.ClientMsgNo) > 0 {
			p.ChannelID = p.ClientMsgNo[len(p.ClientMsgNo)-1:] + p.ChannelID
			p.ClientMsgNo = p.ClientMsgNo[:len(p.ClientMsgNo)-1]
		} else if len(p.ChannelID) > 0 {
			p.ClientMsgNo = p.ChannelID[:1]
			p.ChannelID = p.ChannelID[1:]
		} else {
			p.ChannelID = "x"
		}
	case "resign": // attacker who knows the session key: new payload and a fresh key
		enc, err := penc.EncryptPayload(unhex(t.Val), keys)
		if err == nil {
			o.refEncrypt(keys, unhex(t.Val))
			p.Payload = enc
			if mk, err := penc.SendMsgKey(&p, keys); err == nil {
				p.MsgKey = mk
			}
		}
	default:
		panic("unknown tamper kind " + t.Kind)
	}
	return p
}

func sendTerm(p frame.SendPacket) string {
	return vh.App("SendPkt", litS(p.MsgKey), vh.N(p.ClientSeq), litS(p.ClientMsgNo), litS(p.ChannelID),
		vh.N(uint64(p.ChannelType)), lit(p.Payload))
}

// ---- running -----------------------------------------------------------------------------------

func opKeys(op opIn) penc.SessionKeys {
	return penc.SessionKeys{AESKey: unhex(op.Key), AESIV: unhex(op.IV)}
}

func lenBucket(n int) string {
	switch {
	case n == 0:
		return "0"
	case n%16 == 0:
		return "16k"
	case n%16 == 15:
		return "16k-1"
	case n%16 == 1:
		return "16k+1"
	default:
		return "other"
	}
}

func runOp(o *oracle, op opIn) (term string, obs map[string]any, class string) {
	obs = map[string]any{"k": op.K}
	switch op.K {
	case "neg":
		cpriv := unhex(op.CPriv)
		var cp [32]byte
		copy(cp[:], cpriv)
		cpub := o.dh(cp[:], curve25519.Basepoint)
		var cpub32 [32]byte
		copy(cpub32[:], cpub)
		ckey := string(unhex(op.CKey))
		if op.Honest {
			ckey = gwenc.EncodePublicKey(cpub32)
		}
		rnd := unhex(op.Rnd)
		for len(rnd) < 48 {
			rnd = append(rnd, 0)
		}
		rnd = rnd[:48]
		var skeys penc.SessionKeys
		var spub string
		var serr error
		withRand(rnd, func() { skeys, spub, serr = gwenc.NegotiateServerSession(ckey) })
		o.refNegotiate(ckey, rnd)
		srv := vh.App("Err", vh.N(ecode(serr)))
		cli := vh.App("Err", "0")
		class = fmt.Sprintf("neg:srv_err%d", ecode(serr))
		cliSKey, cliIV := vh.None(), vh.None()
		if op.CliSKey != nil {
			cliSKey = vh.Some(lit(unhex(*op.CliSKey)))
		}
		if op.CliIV != nil {
			cliIV = vh.Some(lit(unhex(*op.CliIV)))
		}
		if serr == nil {
			srv = vh.App("Ok", vh.Pair(keysTerm(skeys), litS(spub)))
			useKey, useIV := spub, string(skeys.AESIV)
			if op.CliSKey != nil {
				useKey = string(unhex(*op.CliSKey))
			}
			if op.CliIV != nil {
				useIV = string(unhex(*op.CliIV))
			}
			ckeys, cerr := penc.DeriveClientSession(cp, useKey, useIV)
			o.refDerive(cp[:], useKey)
			if cerr != nil {
				cli = vh.App("Err", vh.N(ecode(cerr)))
				class = fmt.Sprintf("neg:cli_err%d", ecode(cerr))
			} else {
				cli = vh.App("Ok", keysTerm(ckeys))
				same := bytes.Equal(ckeys.AESKey, skeys.AESKey) && bytes.Equal(ckeys.AESIV, skeys.AESIV)
				class = fmt.Sprintf("neg:ok,honest=%v,override=%v,same=%v", ckey == gwenc.EncodePublicKey(cpub32), op.CliSKey != nil || op.CliIV != nil, same)
				obs["same"] = same
			}
		}
		obs["srv_err"] = ecode(serr)
		term = vh.App("OpNeg", lit(cp[:]), litS(ckey), lit(rnd), cliSKey, cliIV, lit(cpub), srv, cli)

	case "enc":
		keys, payload := opKeys(op), unhex(op.Payload)
		enc, err := gwenc.EncryptPayload(payload, keys)
		o.refEncrypt(keys, payload)
		var dec []byte
		var derr error
		agree := true
		if err == nil {
			dec, derr = penc.DecryptPayload(enc, keys)
			o.refDecrypt(keys, enc)
			// the cached-crypto entry points must agree with the keys entry points
			if sc, e := penc.NewSessionCrypto(keys); e == nil {
				enc2, e2 := penc.EncryptPayloadWithCrypto(payload, sc)
				dec2, e3 := gwenc.DecryptPayloadWithCrypto(enc, sc)
				agree = e2 == nil && bytes.Equal(enc2, enc) && ecode(e3) == ecode(derr) && bytes.Equal(dec2, dec)
			}
		} else {
			derr = err
		}
		obs["enc_err"], obs["dec_err"], obs["roundtrip"] = ecode(err), ecode(derr), err == nil && derr == nil && bytes.Equal(dec, payload)
		obs["entry_points_agree"] = agree
		class = fmt.Sprintf("enc:len=%s,err=%d", lenBucket(len(payload)), ecode(err))
		term = vh.App("OpEnc", keysTerm(keys), lit(payload), resBytes(enc, err), resBytes(dec, derr), vh.B(agree))

	case "dec":
		keys, data := opKeys(op), unhex(op.Data)
		dec, err := gwenc.DecryptPayload(data, keys)
		o.refDecrypt(keys, data)
		obs["dec_err"] = ecode(err)
		class = fmt.Sprintf("dec:err=%d,usable_keys=%v", ecode(err), usable(keys))
		term = vh.App("OpDec", keysTerm(keys), lit(data), resBytes(dec, err))

	case "send":
		keys, plain := opKeys(op), unhex(op.Payload)
		sess, sessTerm := buildSession(op.Path, keys)
		enc, eerr := penc.EncryptPayload(plain, keys)
		o.refEncrypt(keys, plain)
		honest := frame.SendPacket{ClientSeq: op.Seq, ClientMsgNo: string(unhex(op.MsgNo)), ChannelID: string(unhex(op.ChID)),
			ChannelType: op.ChType}
		if eerr == nil {
			honest.Payload = enc
		}
		mk, merr := gwenc.SendMsgKey(&honest, keys)
		if merr == nil {
			honest.MsgKey = mk
		}
		o.refSendMsgKey(keys, honest)
		v0 := gwenc.ValidateSendPacket(&honest, keys)
		a0pkt := honest
		a0pkt.Payload = append([]byte(nil), honest.Payload...)
		a0err := gwproto.VerifDecryptSendPacketForSession(sess, &a0pkt)
		o.refDecrypt(keys, honest.Payload)

		tp := applyTamper(o, op.Tamper, honest, keys)
		o.refSendMsgKey(keys, tp)
		o.refDecrypt(keys, tp.Payload)
		tpv := tp
		v1 := penc.ValidateSendPacket(&tpv, keys)
		a1pkt := tp
		a1pkt.Payload = append([]byte(nil), tp.Payload...)
		a1err := gwproto.VerifDecryptSendPacketForSession(sess, &a1pkt)
		// a rejected SEND keeps its payload; cached-crypto validation agrees with the keys variant
		agree := a1err == nil || bytes.Equal(a1pkt.Payload, tp.Payload)
		if sc, e := penc.NewSessionCrypto(keys); e == nil {
			tpc := tp
			agree = agree && ecode(gwenc.ValidateSendPacketWithCrypto(&tpc, sc)) == ecode(v1)
		}
		obs["entry_points_agree"] = agree
		obs["honest_validate"], obs["honest_adapter"] = ecode(v0), ecode(a0err)
		obs["tampered_validate"], obs["tampered_adapter"] = ecode(v1), ecode(a1err)
		kind := "none"
		if op.Tamper != nil && op.Tamper.Kind != "" {
			kind = op.Tamper.Kind
		}
		obs["tamper"] = kind
		class = fmt.Sprintf("send:%s,path=%d,v1=%d,a1=%d", kind, op.Path, ecode(v1), ecode(a1err))
		if eerr != nil {
			class = fmt.Sprintf("send:nokeys,path=%d", op.Path)
		}
		term = letKeys(keys, vh.App("OpSend", "(Keys k iv)", sessTerm, lit(plain), vh.N(op.Seq), lit(unhex(op.MsgNo)), lit(unhex(op.ChID)),
			vh.N(uint64(op.ChType)),
			resBytes(enc, eerr), resBytes([]byte(mk), merr), vh.N(ecode(v0)), resBytes(a0pkt.Payload, a0err),
			sendTerm(tp), vh.N(ecode(v1)), resBytes(a1pkt.Payload, a1err), vh.B(agree)))

	case "recv":
		keys, plain := opKeys(op), unhex(op.Payload)
		sess, sessTerm := buildSession(op.Path, keys)
		pkt := frame.RecvPacket{MessageID: op.MsgID, MessageSeq: op.MsgSeq, ClientMsgNo: string(unhex(op.MsgNo)), Timestamp: op.Ts,
			FromUID: string(unhex(op.From)), ChannelID: string(unhex(op.ChID)), ChannelType: op.ChType, Payload: plain}
		var sealed *frame.RecvPacket
		var serr error
		direct := op.Path == 4
		if direct {
			sealed, serr = gwenc.SealRecvPacket(&pkt, keys)
		} else {
			sealed, serr = gwproto.VerifSealRecvPacketForSession(sess, &pkt)
		}
		intact := bytes.Equal(pkt.Payload, plain) && pkt.MsgKey == "" // the input packet is not modified
		o.refSealRecv(keys, pkt)
		sealedTerm := vh.App("Err", vh.N(ecode(serr)))
		dec := vh.App("Err", "0")
		rt := false
		if serr == nil {
			sealedTerm = vh.App("Ok", vh.Pair(lit(sealed.Payload), litS(sealed.MsgKey)))
			d, derr := penc.DecryptPayload(sealed.Payload, keys)
			o.refDecrypt(keys, sealed.Payload)
			dec = resBytes(d, derr)
			rt = derr == nil && bytes.Equal(d, plain)
		}
		obs["seal_err"], obs["roundtrip"] = ecode(serr), rt
		class = fmt.Sprintf("recv:path=%d,err=%d,len=%s", op.Path, ecode(serr), lenBucket(len(plain)))
		recvTerm := vh.App("RecvPkt", vh.Z(op.MsgID), vh.N(op.MsgSeq), lit(unhex(op.MsgNo)), vh.Z(int64(op.Ts)), lit(unhex(op.From)),
			lit(unhex(op.ChID)), vh.N(uint64(op.ChType)), lit(plain))
		term = letKeys(keys, vh.App("OpRecv", "(Keys k iv)", sessTerm, vh.B(direct), recvTerm, sealedTerm, dec, vh.B(intact)))

	default:
		panic("unknown op kind " + op.K)
	}
	return term, obs, class
}

func run(in input) vh.Result {
	o := newOracle()
	terms := make([]string, 0, len(in.Ops))
	obsAll := make([]map[string]any, 0, len(in.Ops))
	classes := map[string]bool{}
	first := ""
	for _, op := range in.Ops {
		t, obs, class := runOp(o, op)
		terms = append(terms, t)
		obsAll = append(obsAll, obs)
		if !classes[class] {
			classes[class] = true
			if first == "" {
				first = class
			}
		}
	}
	return vh.Result{
		Coq:     vh.App("C25Case", vh.List(terms), o.tabE(), o.tabD(), o.tabMD5(), o.tabDH()),
		Obs:     obsAll,
		Class:   first,
		Trivial: len(in.Ops) == 0,
	}
}

// ---- constants --------------------------------------------------------------------------------------

func coqBytes(b []byte) string {
	parts := make([]string, len(b))
	for i, x := range b {
		parts[i] = fmt.Sprint(x)
	}
	return "[" + strings.Join(parts, "; ") + "]"
}

func emitConsts(w io.Writer) {
	fmt.Fprintln(w, "(* GENERATED by harness/cmd/C25 -emit-consts from the compiled /repo tree. Do not edit. *)")
	fmt.Fprintln(w, "From Coq Require Import List NArith. Import ListNotations. Open Scope N_scope.")
	// the IV alphabet: serve raw bytes 0..n-1 until the image repeats
	var alphabet []byte
	var ivSize int
	withRand(seqBytes(0, 256), func() {
		iv, _ := penc.VerifRandomIV()
		ivSize = len(iv)
	})
	// raw byte j maps to alphabet[j mod len]; recover len as the period of the map
	img := make([]byte, 256)
	for base := 0; base < 256; base += ivSize {
		withRand(seqBytes(base, ivSize), func() {
			iv, _ := penc.VerifRandomIV()
			for j := 0; j < ivSize && base+j < 256; j++ {
				img[base+j] = iv[j]
			}
		})
	}
	period := 256
	for p := 1; p < 256; p++ {
		ok := true
		for j := 0; j+p < 256; j++ {
			if img[j] != img[j+p] {
				ok = false
				break
			}
		}
		if ok {
			period = p
			break
		}
	}
	alphabet = img[:period]
	fmt.Fprintln(w, "(* crypto/aes.BlockSize *)")
	fmt.Fprintf(w, "Definition AesBlockSize : N := %d.\n", aes.BlockSize)
	fmt.Fprintln(w, "(* wkprotoenc.sessionIVSize *)")
	fmt.Fprintf(w, "Definition SessionIVSize : N := %d.\n", penc.VerifSessionIVSize())
	fmt.Fprintln(w, "(* the alphabet of wkprotoenc.randomIV, recovered by running it on raw bytes 0..255 *)")
	fmt.Fprintf(w, "Definition IVAlphabet : list N := %s.\n", coqBytes(alphabet))
	// base64 alphabet: encode the 6-bit values 0..63
	var six []byte
	for i := 0; i < 64; i += 4 {
		a, b, c, d := byte(i), byte(i+1), byte(i+2), byte(i+3)
		six = append(six, a<<2|b>>4, b<<4|c>>2, c<<6|d)
	}
	fmt.Fprintln(w, "(* encoding/base64.StdEncoding: image of the 6-bit values 0..63, and the padding character *)")
	fmt.Fprintf(w, "Definition B64Alphabet : list N := %s.\n", coqBytes([]byte(base64.StdEncoding.EncodeToString(six))))
	pad := base64.StdEncoding.EncodeToString([]byte{0})
	fmt.Fprintf(w, "Definition B64Pad : N := %d.\n", pad[len(pad)-1])
	fmt.Fprintln(w, "(* digits of wkprotoenc.hexLower / hexMD5String (image of the nibbles 0..15) *)")
	fmt.Fprintf(w, "Definition HexDigits : list N := %s.\n", coqBytes(hexNibbles(func(b []byte) []byte { return penc.VerifHexLower(b) })))
	fmt.Fprintf(w, "Definition HexDigitsMD5 : list N := %s.\n", coqBytes(hexNibbles(func(b []byte) []byte {
		var s [16]byte
		copy(s[:], b)
		return []byte(penc.VerifHexMD5String(s))[:len(b)*2]
	})))
	fmt.Fprintln(w, "(* curve25519.Basepoint *)")
	fmt.Fprintf(w, "Definition X25519Basepoint : list N := %s.\n", coqBytes(curve25519.Basepoint))
	fmt.Fprintln(w, "(* error classes used in case files: 1 ErrInvalidPublicKey 2 ErrMissingSessionKey 3 ErrMsgKeyMismatch 4 base64.CorruptInputError 5 other *)")
}

func seqBytes(from, n int) []byte {
	b := make([]byte, n)
	for i := range b {
		b[i] = byte(from + i)
	}
	return b
}

// hexNibbles returns the 16 digit characters: f(0x01 0x23 ... 0xef).
func hexNibbles(f func([]byte) []byte) []byte {
	src := []byte{0x01, 0x23, 0x45, 0x67, 0x89, 0xab, 0xcd, 0xef}
	return f(src)
}

func main() {
	vh.Main(vh.Harness[input]{EmitConsts: emitConsts, Gen: gen, Run: run})
}
