// Harness for C40: message event projection is monotonic and fail-closed.
//
// Four streams of cases (see coq/Model/MsgEvent_C40.v):
//   - "reduce": one call of the exported pure reducer reduceMessageEventAppend;
//   - "merge":  one call of the exported mergeMessageEventTerminalPayload;
//   - "meta":   a history of meta.Shard.AppendMessageEvent / meta.WriteBatch
//     (AppendMessageEvent...; Commit) calls on a fresh Pebble-backed DB in a
//     temporary directory; the state, cursor and applied-id tables of every
//     message of the history are read back after every call;
//   - "node":   a history of Node.appendMessageEventLocal calls on a skeletal
//     leader node (export VerifC40Node: the real stream cache, finish path and
//     coalescer) whose proposer applies the proposed slot commands to the real
//     slot FSM on a fresh temporary DB, records them, and can reject them;
//     interleaved with cache losses (slot authority lost / regained through the
//     router publication path, restore reset, restore pause / resume).
//
// encoding/json is not modelled in Coq: every payload is printed with the
// views encoding/json gives of it (computed here, never through the
// implementation's decoders).
package main

import (
	"context"
	"encoding/hex"
	"encoding/json"
	"errors"
	"fmt"
	"io"
	"math/rand/v2"
	"os"
	"sort"
	"strings"
	"time"

	"github.com/WuKongIM/WuKongIM/internal/verifh/vh"
	"github.com/WuKongIM/WuKongIM/pkg/cluster"
	"github.com/WuKongIM/WuKongIM/pkg/cluster/propose"
	"github.com/WuKongIM/WuKongIM/pkg/cluster/routing"
	"github.com/WuKongIM/WuKongIM/pkg/db/meta"
	"github.com/WuKongIM/WuKongIM/pkg/slot/fsm"
	"github.com/WuKongIM/WuKongIM/pkg/slot/multiraft"
	"github.com/WuKongIM/WuKongIM/pkg/wklog"
)

// ---- JSON input ---------------------------------------------------------------------

type evJ struct {
	Ch  string `json:"ch"`
	Ty  int64  `json:"ty"`
	Mn  string `json:"mn"`
	ID  string `json:"id"`
	Key string `json:"key"`
	Et  string `json:"et"`
	Vis string `json:"vis"`
	At  int64  `json:"at"`
	P   string `json:"p"` // payload bytes, hex
	Up  int64  `json:"up"`
}

type stateJ struct {
	Ch       string `json:"ch"`
	Ty       int64  `json:"ty"`
	Mn       string `json:"mn"`
	Key      string `json:"key"`
	Status   string `json:"status"`
	Seq      uint64 `json:"seq"`
	LastID   string `json:"last_id"`
	LastType string `json:"last_type"`
	LastVis  string `json:"last_vis"`
	LastAt   int64  `json:"last_at"`
	Snap     string `json:"snap"` // hex
	Reason   uint8  `json:"reason"`
	Err      string `json:"err"`
	Up       int64  `json:"up"`
}

type cursorJ struct {
	Ch  string `json:"ch"`
	Ty  int64  `json:"ty"`
	Mn  string `json:"mn"`
	Seq uint64 `json:"seq"`
	Up  int64  `json:"up"`
}

type bevJ struct {
	HS uint16 `json:"hs"`
	Ev evJ    `json:"ev"`
}

// opJ: meta history: k = "append" (HS, Ev) | "batch" (B);
// node history: k = "ev" (Ev, Fail) | "lose" | "gain" (Slot) | "reset" | "pause" | "resume".
type opJ struct {
	K    string `json:"k"`
	HS   uint16 `json:"hs,omitempty"`
	Ev   *evJ   `json:"ev,omitempty"`
	B    []bevJ `json:"b,omitempty"`
	Slot uint32 `json:"slot,omitempty"`
	Fail bool   `json:"fail,omitempty"`
}

type input struct {
	Kind string `json:"kind"` // reduce | merge | meta | node
	// reduce
	State        *stateJ  `json:"state,omitempty"`
	StateExists  bool     `json:"state_exists,omitempty"`
	Cursor       *cursorJ `json:"cursor,omitempty"`
	CursorExists bool     `json:"cursor_exists,omitempty"`
	Event        *evJ     `json:"event,omitempty"`
	// merge
	P string `json:"p,omitempty"`
	S string `json:"s,omitempty"`
	// node
	MaxSessions int  `json:"max_sessions,omitempty"`
	Coalesce    bool `json:"coalesce,omitempty"`
	// meta, node
	Ops []opJ `json:"ops,omitempty"`
}

func unhex(s string) []byte {
	b, err := hex.DecodeString(s)
	if err != nil {
		panic("bad hex in input: " + err.Error())
	}
	return b
}

func (e evJ) real() meta.MessageEventAppend {
	return meta.MessageEventAppend{ChannelID: e.Ch, ChannelType: e.Ty, ClientMsgNo: e.Mn, EventID: e.ID, EventKey: e.Key,
		EventType: e.Et, Visibility: e.Vis, OccurredAt: e.At, Payload: unhex(e.P), UpdatedAt: e.Up}
}

func (s stateJ) real() meta.MessageEventState {
	return meta.MessageEventState{ChannelID: s.Ch, ChannelType: s.Ty, ClientMsgNo: s.Mn, EventKey: s.Key, Status: s.Status,
		LastMsgEventSeq: s.Seq, LastEventID: s.LastID, LastEventType: s.LastType, LastVisibility: s.LastVis, LastOccurredAt: s.LastAt,
		SnapshotPayload: unhex(s.Snap), EndReason: s.Reason, Error: s.Err, UpdatedAt: s.Up}
}

func (c cursorJ) real() meta.MessageEventCursor {
	return meta.MessageEventCursor{ChannelID: c.Ch, ChannelType: c.Ty, ClientMsgNo: c.Mn, LastMsgEventSeq: c.Seq, UpdatedAt: c.Up}
}

// ---- the views encoding/json gives of a payload -----------------------------------------

type views struct {
	delta, text *string
	canon       []byte
	tok         bool
	tsnap       []byte
	hasTsnap    bool
	tsnapCanon  []byte
	reason      uint8
	terr        string
	obj         bool
	hassnap     bool
}

// canonOf = what json.Marshal makes of cloneJSONRawMessage(raw) inside a map value:
// valid JSON is compacted and HTML-escaped, anything else becomes a JSON string.
func canonOf(raw []byte) []byte {
	if len(raw) == 0 {
		return nil
	}
	if json.Valid(raw) {
		out, err := json.Marshal(json.RawMessage(raw))
		if err != nil {
			panic(err)
		}
		return out
	}
	out, err := json.Marshal(string(raw))
	if err != nil {
		panic(err)
	}
	return out
}

func viewsOf(raw []byte) views {
	var v views
	var d struct {
		Kind  string `json:"kind"`
		Delta string `json:"delta"`
	}
	if err := json.Unmarshal(raw, &d); err == nil && d.Kind == "text" {
		s := d.Delta
		v.delta = &s
	}
	var c struct {
		Kind string `json:"kind"`
		Text string `json:"text"`
	}
	if err := json.Unmarshal(raw, &c); err == nil && c.Kind == "text" {
		s := c.Text
		v.text = &s
	}
	v.canon = canonOf(raw)
	var t struct {
		Snapshot  json.RawMessage `json:"snapshot"`
		EndReason uint8           `json:"end_reason"`
		Error     string          `json:"error"`
	}
	if err := json.Unmarshal(raw, &t); err == nil {
		v.tok = true
		v.reason, v.terr = t.EndReason, t.Error
		if len(t.Snapshot) > 0 && string(t.Snapshot) != "null" {
			v.tsnap, v.hasTsnap = append([]byte(nil), t.Snapshot...), true
			v.tsnapCanon = canonOf(v.tsnap)
		}
	}
	body := map[string]json.RawMessage{}
	if len(raw) == 0 {
		v.obj = true
	} else if err := json.Unmarshal(raw, &body); err == nil {
		v.obj = true
		if s, ok := body["snapshot"]; ok {
			switch strings.TrimSpace(string(s)) {
			case "", "null":
			default:
				v.hassnap = true
			}
		}
	}
	return v
}

// ---- Coq printers ------------------------------------------------------------------------

// interner: parsing string literals dominates Coq's time on a case file, and a
// case repeats a handful of strings hundreds of times.  Every distinct byte
// string / payload term of a case is bound once by a let in front of the case
// term: (let s0 := hx "..." in let p0 := mkPayload s0 ... in C40Node ...).
type interner struct {
	names map[string]string
	defs  []string
}

var cur *interner

func (in *interner) bind(prefix, term string) string {
	if in == nil {
		return term
	}
	if n, ok := in.names[term]; ok {
		return n
	}
	n := fmt.Sprintf("%s%d", prefix, len(in.defs))
	in.names[term] = n
	in.defs = append(in.defs, "let "+n+" := "+term+" in ")
	return n
}

func (in *interner) wrap(term string) string {
	if in == nil || len(in.defs) == 0 {
		return term
	}
	return "(" + strings.Join(in.defs, "") + term + ")"
}

func hxb(b []byte) string { return cur.bind("s", vh.Hex(b)) }
func hxs(s string) string { return hxb([]byte(s)) }

func optStr(s *string) string {
	if s == nil {
		return vh.None()
	}
	return vh.Some(hxs(*s))
}

func coqPayload(raw []byte) string {
	v := viewsOf(raw)
	ts := vh.None()
	if v.hasTsnap {
		ts = vh.Some(hxb(v.tsnap))
	}
	return cur.bind("p", vh.App("mkPayload", hxb(raw), optStr(v.delta), optStr(v.text), hxb(v.canon), vh.B(v.tok), ts, hxb(v.tsnapCanon),
		vh.N(uint64(v.reason)), hxs(v.terr), vh.B(v.obj), vh.B(v.hassnap)))
}

func coqSnap(raw []byte) string {
	v := viewsOf(raw)
	return vh.App("mkSnap", hxb(raw), optStr(v.text), hxb(v.canon))
}

func coqEvent(e meta.MessageEventAppend) string {
	return vh.App("mkEvent", hxs(e.ChannelID), vh.Z(e.ChannelType), hxs(e.ClientMsgNo), hxs(e.EventID), hxs(e.EventKey),
		hxs(e.EventType), hxs(e.Visibility), vh.Z(e.OccurredAt), coqPayload(e.Payload), vh.Z(e.UpdatedAt))
}

// snapshot printing modes: views needed by the model (reducer inputs), the
// canonical view only (cache dumps, read by the monitor), bytes only (outputs).
const (
	snapViews = iota
	snapCanon
	snapRaw
)

func coqStateIn(s meta.MessageEventState) string    { return coqStateM(s, snapViews) }
func coqStateCache(s meta.MessageEventState) string { return coqStateM(s, snapCanon) }
func coqState(s meta.MessageEventState) string      { return coqStateM(s, snapRaw) }

func coqStateM(s meta.MessageEventState, mode int) string {
	snap := vh.App("osnap", hxb(s.SnapshotPayload))
	switch mode {
	case snapViews:
		snap = coqSnap(s.SnapshotPayload)
	case snapCanon:
		snap = vh.App("mkSnap", hxb(s.SnapshotPayload), vh.None(), hxb(canonOf(s.SnapshotPayload)))
	}
	return vh.App("mkState", hxs(s.ChannelID), vh.Z(s.ChannelType), hxs(s.ClientMsgNo), hxs(s.EventKey), hxs(s.Status),
		vh.N(s.LastMsgEventSeq), hxs(s.LastEventID), hxs(s.LastEventType), hxs(s.LastVisibility), vh.Z(s.LastOccurredAt),
		snap, vh.N(uint64(s.EndReason)), hxs(s.Error), vh.Z(s.UpdatedAt))
}

func coqCursor(c meta.MessageEventCursor) string {
	return vh.App("mkCursor", hxs(c.ChannelID), vh.Z(c.ChannelType), hxs(c.ClientMsgNo), vh.N(c.LastMsgEventSeq), vh.Z(c.UpdatedAt))
}

func coqApplied(a meta.MessageEventApplied) string {
	return vh.App("mkApplied", hxs(a.ChannelID), vh.Z(a.ChannelType), hxs(a.ClientMsgNo), hxs(a.EventID), hxs(a.EventKey),
		vh.N(a.MsgEventSeq), hxs(a.Status), vh.Z(a.UpdatedAt))
}

func coqResult(r meta.MessageEventAppendResult) string {
	return vh.App("mkResult", hxs(r.ChannelID), vh.Z(r.ChannelType), hxs(r.ClientMsgNo), hxs(r.EventID), hxs(r.EventKey),
		vh.N(r.MsgEventSeq), hxs(r.Status), coqState(r.State))
}

func coqOutcome(r meta.MessageEventAppendResult, err error) string {
	if err != nil {
		return vh.Pair(errClass(err), vh.None())
	}
	return vh.Pair("ENone", vh.Some(coqResult(r)))
}

func errClass(err error) string {
	switch {
	case err == nil:
		return "ENone"
	case errors.Is(err, meta.ErrInvalidArgument):
		return "EInvalidArgument"
	case errors.Is(err, cluster.ErrNotLeader):
		return "ENotLeader"
	case errors.Is(err, cluster.ErrMaintenance):
		return "EMaintenance"
	case errors.Is(err, cluster.ErrBackpressured):
		return "EBackpressured"
	case errors.Is(err, cluster.ErrMessageEventStreamCacheMiss):
		return "ECacheMiss"
	default:
		return "EOther"
	}
}

// ---- alphabets ---------------------------------------------------------------------------

type chanT struct {
	id string
	ty int64
}

var channels = []chanT{{"g1", 2}, {"u1@u2", 1}, {"g2", 2}}

var deltaPayloads = []string{
	`{"kind":"text","delta":"ab"}`,
	`{"kind":"text","delta":"c"}`,
	`{"kind":"text","delta":"x<y>&\"q\"\n\t\\"}`,
	`{"kind":"text","delta":"é中"}`,
	"{\"kind\":\"text\",\"delta\":\"a b \"}",
	`{"kind":"text","delta":"\u0001\u001f\b\f\r"}`,
	`{"kind":"text","delta":""}`,
	`{ "kind" : "text" , "delta" : "sp" }`,
	`{"kind":"json","delta":"x"}`,
	`{"delta":"nokind"}`,
	`{"kind":"text","delta":5}`,
}

var snapshotPayloads = []string{
	`{"kind":"text","text":"hello"}`,
	`{"kind":"text","text":"a<b"}`,
	`{ "kind" : "text", "text" : "spaced" }`,
	`{"kind":"card","x":1}`,
	`{"kind":"text","text":"é"}`,
	`[1, 2]`,
	`"str"`,
	`null`,
}

var terminalPayloads = []string{
	`{"end_reason":2}`,
	`{"end_reason":3,"error":"boom"}`,
	`{"error":"only"}`,
	`{"snapshot":{"kind":"text","text":"final"},"end_reason":1}`,
	`{"snapshot":{"kind":"text","text":"a<b"}}`,
	`{"snapshot": {"k": 1} ,"end_reason":4}`,
	`{"snapshot":null,"end_reason":2}`,
	`{"snapshot":"s"}`,
	`{"snapshot":""}`,
	`{}`,
	`{"other":true}`,
}

var junkPayloads = []string{``, `not-json`, `5`, `null`, `{"a":`, "\xff\xfe", `[]`}

// payloads whose JSON object does not decode into the terminal struct
// (decodeMessageEventTerminalPayload returns the zero payload): known finding C40-K1
var undecodablePayloads = []string{
	`{"end_reason":300}`,
	`{"end_reason":"done"}`,
	`{"error":5,"end_reason":1}`,
	`{"snapshot":{"kind":"text","text":"mine"},"end_reason":-1}`,
}

func pick(r *rand.Rand, xs []string) string { return xs[r.IntN(len(xs))] }

func genPayload(r *rand.Rand, et string) []byte {
	x := r.IntN(100)
	var s string
	switch {
	case x < 4:
		s = pick(r, junkPayloads)
	case x < 8: // a payload meant for another event type
		switch r.IntN(3) {
		case 0:
			s = pick(r, deltaPayloads)
		case 1:
			s = pick(r, snapshotPayloads)
		default:
			s = pick(r, terminalPayloads)
		}
	case x < 9:
		s = pick(r, undecodablePayloads)
	default:
		switch et {
		case meta.EventTypeStreamDelta:
			s = pick(r, deltaPayloads)
		case meta.EventTypeStreamSnapshot:
			s = pick(r, snapshotPayloads)
		case meta.EventTypeStreamOpen:
			s = vh.Pick(r, ``, `{}`, `{"kind":"text","text":"ignored"}`)
		default:
			s = pick(r, terminalPayloads)
		}
	}
	return []byte(s)
}

func spaced(r *rand.Rand, s string) string {
	switch r.IntN(14) {
	case 0:
		return " " + s
	case 1:
		return s + "\t"
	case 2:
		return "\n" + s + " "
	}
	return s
}

func genType(r *rand.Rand, weights [7]int) string {
	types := [7]string{meta.EventTypeStreamOpen, meta.EventTypeStreamDelta, meta.EventTypeStreamSnapshot, meta.EventTypeStreamClose,
		meta.EventTypeStreamError, meta.EventTypeStreamCancel, meta.EventTypeStreamFinish}
	total := 0
	for _, w := range weights {
		total += w
	}
	x := r.IntN(total)
	for i, w := range weights {
		if x < w {
			return types[i]
		}
		x -= w
	}
	return types[0]
}

// genEvent draws one event over the small alphabets; ids collide often.
func genEvent(r *rand.Rand, weights [7]int, nIDs int, clock *int64) evJ {
	ch := channels[0]
	switch x := r.IntN(10); {
	case x < 6:
	case x < 9:
		ch = channels[1]
	default:
		ch = channels[2]
	}
	et := genType(r, weights)
	e := evJ{Ch: spaced(r, ch.id), Ty: ch.ty, Mn: spaced(r, vh.Pick(r, "m1", "m1", "m2")), Et: et}
	e.ID = spaced(r, fmt.Sprintf("e%d", 1+r.IntN(nIDs)))
	e.Key = vh.Pick(r, "", "main", "main", "tool", "tool", "aux", " tool ", "__finish__")
	if vh.Chance(r, 0.7) && e.Key == "__finish__" {
		e.Key = "main"
	}
	e.Vis = vh.Pick(r, "", "public", "private", " restricted ")
	*clock += int64(r.IntN(3))
	e.At, e.Up = *clock, *clock+int64(r.IntN(2))
	e.P = hex.EncodeToString(genPayload(r, et))
	switch r.IntN(40) {
	case 0:
		e.Et = strings.ToUpper(et)
	case 1:
		e.Et = " " + et + " "
	case 2:
		e.Et = vh.Pick(r, "stream.bogus", "", "stream")
	case 3:
		e.ID = vh.Pick(r, "", "  ")
	case 4:
		e.Ty = vh.Pick(r, int64(0), -1)
	case 5:
		e.Mn = ""
	case 6:
		e.Ch = " "
	}
	return e
}

// ---- generators ----------------------------------------------------------------------------

func genReduce(r *rand.Rand) input {
	var clock int64 = 100
	ev := genEvent(r, [7]int{2, 6, 2, 3, 2, 2, 2}, 4, &clock)
	// the reducer is called on normalized events
	ev.Ch, ev.Mn, ev.ID, ev.Key, ev.Vis = strings.TrimSpace(ev.Ch), strings.TrimSpace(ev.Mn), strings.TrimSpace(ev.ID), strings.TrimSpace(ev.Key), strings.TrimSpace(ev.Vis)
	ev.Et = strings.ToLower(strings.TrimSpace(ev.Et))
	if ev.Key == "" {
		ev.Key = "main"
	}
	if ev.Et == meta.EventTypeStreamFinish {
		ev.Key = "__finish__"
	}
	st := stateJ{Ch: ev.Ch, Ty: ev.Ty, Mn: ev.Mn, Key: ev.Key}
	st.Status = vh.Pick(r, "open", "open", "open", "closed", "error", "cancelled", "", "weird")
	st.Seq = uint64(r.IntN(6))
	st.LastID = fmt.Sprintf("e%d", 1+r.IntN(4))
	st.LastType = genType(r, [7]int{1, 3, 1, 1, 1, 1, 1})
	st.LastVis, st.LastAt, st.Up = "public", int64(r.IntN(100)), int64(r.IntN(100))
	switch r.IntN(6) {
	case 0:
	case 1:
		st.Snap = hex.EncodeToString([]byte(pick(r, snapshotPayloads)))
	case 2:
		st.Snap = hex.EncodeToString([]byte(pick(r, junkPayloads)))
	default:
		st.Snap = hex.EncodeToString(meta.VerifC40ReduceMessageEventDelta(nil, []byte(pick(r, deltaPayloads[:6]))))
	}
	st.Reason, st.Err = uint8(r.IntN(3)), vh.Pick(r, "", "", "old")
	cu := cursorJ{Ch: ev.Ch, Ty: ev.Ty, Mn: ev.Mn, Up: int64(r.IntN(100))}
	switch r.IntN(10) {
	case 0:
		cu.Seq = vh.U64Edge(r)
	default:
		cu.Seq = st.Seq + uint64(r.IntN(3))
	}
	return input{Kind: "reduce", State: &st, StateExists: !vh.Chance(r, 0.2), Cursor: &cu, CursorExists: !vh.Chance(r, 0.15), Event: &ev}
}

func genMerge(r *rand.Rand) input {
	var p, s string
	switch r.IntN(10) {
	case 0:
		p = pick(r, junkPayloads)
	case 1:
		p = pick(r, undecodablePayloads)
	case 2:
		p = pick(r, deltaPayloads)
	default:
		p = pick(r, terminalPayloads)
	}
	switch r.IntN(10) {
	case 0:
		s = ""
	case 1:
		s = pick(r, junkPayloads)
	case 2, 3, 4:
		s = pick(r, snapshotPayloads)
	default:
		s = string(meta.VerifC40ReduceMessageEventDelta([]byte(pick(r, snapshotPayloads[:3])), []byte(pick(r, deltaPayloads[:6]))))
	}
	return input{Kind: "merge", P: hex.EncodeToString([]byte(p)), S: hex.EncodeToString([]byte(s))}
}

func genMeta(r *rand.Rand, tier string) input {
	maxOps := 14
	if tier == "thorough" {
		maxOps = 36
	}
	n := 4 + r.IntN(maxOps-3)
	var clock int64 = 1000
	nIDs := 3 + r.IntN(5)
	var ops []opJ
	var past []evJ
	draw := func() evJ {
		if len(past) > 0 && vh.Chance(r, 0.18) { // exact replay, possibly on another lane / with another type
			e := past[r.IntN(len(past))]
			switch r.IntN(4) {
			case 0:
				e.Key = vh.Pick(r, "main", "tool", "aux")
			case 1:
				e.Et = genType(r, [7]int{1, 3, 1, 2, 1, 1, 1})
			}
			return e
		}
		e := genEvent(r, [7]int{2, 8, 2, 3, 1, 1, 2}, nIDs, &clock)
		past = append(past, e)
		return e
	}
	hsOf := func() uint16 {
		if vh.Chance(r, 0.85) {
			return 0
		}
		return 1
	}
	for len(ops) < n {
		if vh.Chance(r, 0.72) {
			e := draw()
			ops = append(ops, opJ{K: "append", HS: hsOf(), Ev: &e})
			continue
		}
		var b []bevJ
		hs := hsOf()
		for m := 1 + r.IntN(4); m > 0; m-- {
			h := hs
			if vh.Chance(r, 0.1) {
				h = hsOf()
			}
			b = append(b, bevJ{HS: h, Ev: draw()})
		}
		ops = append(ops, opJ{K: "batch", B: b})
	}
	return input{Kind: "meta", Ops: ops}
}

func genNode(r *rand.Rand, tier string) input {
	maxOps := 18
	if tier == "thorough" {
		maxOps = 48
	}
	n := 5 + r.IntN(maxOps-4)
	in := input{Kind: "node", MaxSessions: vh.Pick(r, 0, 0, 1, 2, 2, 3), Coalesce: vh.Chance(r, 0.4)}
	var clock int64 = 5000
	nIDs := 4 + r.IntN(6)
	finishes := 0
	for len(in.Ops) < n {
		switch x := r.IntN(100); {
		case x < 84:
			e := genEvent(r, [7]int{3, 20, 4, 4, 2, 2, 7}, nIDs, &clock)
			if strings.TrimSpace(strings.ToLower(e.Et)) == meta.EventTypeStreamFinish && vh.Chance(r, 0.7) {
				finishes++
				e.ID = fmt.Sprintf("f%d", finishes)
			}
			in.Ops = append(in.Ops, opJ{K: "ev", Ev: &e, Fail: vh.Chance(r, 0.06)})
		case x < 88:
			in.Ops = append(in.Ops, opJ{K: "lose", Slot: uint32(1 + r.IntN(2))})
		case x < 93:
			in.Ops = append(in.Ops, opJ{K: "gain", Slot: uint32(1 + r.IntN(2))})
		case x < 96:
			in.Ops = append(in.Ops, opJ{K: "reset"})
		case x < 98:
			in.Ops = append(in.Ops, opJ{K: "pause"})
		default:
			in.Ops = append(in.Ops, opJ{K: "resume"})
		}
	}
	return in
}

func gen(r *rand.Rand, tier string, i int) input {
	switch i % 10 {
	case 0, 5:
		return genMeta(r, tier)
	case 2, 7, 9:
		return genNode(r, tier)
	case 4:
		return genMerge(r)
	default:
		return genReduce(r)
	}
}

// ---- running: reduce / merge ---------------------------------------------------------------

func runReduce(in input) vh.Result {
	st, cu, ev := in.State.real(), in.Cursor.real(), in.Event.real()
	if !in.StateExists {
		st = meta.MessageEventState{}
	}
	if !in.CursorExists {
		cu = meta.MessageEventCursor{}
	}
	oSt, oCu, did, res := meta.VerifC40ReduceMessageEventAppend(st, in.StateExists, cu, in.CursorExists, ev)
	class := "reduce:"
	switch {
	case in.StateExists && meta.VerifC40IsMessageEventTerminal(st.Status):
		class += "finalized"
	case in.StateExists && st.LastEventID == ev.EventID:
		class += "last-id"
	case !in.StateExists:
		class += "new-lane:" + ev.EventType
	default:
		class += "applied:" + ev.EventType
	}
	if in.CursorExists && cu.LastMsgEventSeq == ^uint64(0) {
		class += "+cursor-max"
	}
	return vh.Result{
		Coq: vh.App("C40Reduce", coqStateIn(st), vh.B(in.StateExists), coqCursor(cu), vh.B(in.CursorExists), coqEvent(ev),
			coqState(oSt), coqCursor(oCu), vh.B(did), coqResult(res)),
		Obs:   map[string]any{"state": oSt, "cursor": oCu, "applied": did, "result_seq": res.MsgEventSeq, "result_status": res.Status},
		Class: class,
	}
}

func runMerge(in input) vh.Result {
	p, s := unhex(in.P), unhex(in.S)
	out, panicked := func() (out []byte, panicked string) {
		defer func() {
			if r := recover(); r != nil {
				panicked = fmt.Sprint(r)
			}
		}()
		return cluster.VerifC40MergeTerminalPayload(p, s), ""
	}()
	pv := viewsOf(p)
	class := "merge:"
	switch {
	case len(s) == 0:
		class += "no-snapshot"
	case !pv.obj:
		class += "raw-payload"
	case pv.hassnap:
		class += "own-snapshot"
	case !pv.tok:
		class += "undecodable"
	default:
		class += "inserted"
	}
	o := vh.Some(coqPayload(out))
	if panicked != "" {
		o, class = vh.None(), "merge:PANIC"
	}
	return vh.Result{
		Coq:   vh.App("C40Merge", coqPayload(p), coqSnap(s), o),
		Obs:   map[string]any{"merged": string(out), "panic": panicked},
		Class: class,
	}
}

// ---- running: meta history -------------------------------------------------------------------

func tmpBase() string {
	if st, err := os.Stat("/dev/shm"); err == nil && st.IsDir() {
		return "/dev/shm"
	}
	return ""
}

type msgKey struct {
	hs uint16
	ch string
	ty int64
	mn string
}

func dumpOne(ctx context.Context, db *meta.DB, k msgKey) (string, any) {
	shard := db.MetaDB().HashSlot(meta.HashSlot(k.hs))
	states, err := shard.ListMessageEventStates(ctx, k.ch, k.ty, k.mn, 0)
	if err != nil {
		panic(fmt.Sprintf("ListMessageEventStates(%v): %v", k, err))
	}
	cur, ok, err := meta.VerifC40MessageEventCursor(ctx, shard, k.ch, k.ty, k.mn)
	if err != nil {
		panic(fmt.Sprintf("cursor(%v): %v", k, err))
	}
	applied, err := meta.VerifC40MessageEventAppliedRows(ctx, shard, k.ch, k.ty, k.mn)
	if err != nil {
		panic(fmt.Sprintf("applied(%v): %v", k, err))
	}
	c := vh.None()
	if ok {
		c = vh.Some(coqCursor(cur))
	}
	js := map[string]any{"hs": k.hs, "ch": k.ch, "mn": k.mn, "states": states, "applied": applied}
	if ok {
		js["cursor"] = cur
	}
	return vh.App("mkDump", vh.N(uint64(k.hs)), hxs(k.ch), vh.Z(k.ty), hxs(k.mn), vh.ListOf(states, coqState), c,
		vh.ListOf(applied, coqApplied)), js
}

func validMsg(e evJ) (string, string, bool) {
	ch, mn := strings.TrimSpace(e.Ch), strings.TrimSpace(e.Mn)
	return ch, mn, ch != "" && mn != "" && e.Ty > 0
}

func runMeta(in input) vh.Result {
	dir, err := os.MkdirTemp(tmpBase(), "verif-c40-")
	if err != nil {
		panic(err)
	}
	defer os.RemoveAll(dir)
	db, err := meta.OpenWithLogger(dir, wklog.NewNop())
	if err != nil {
		panic(err)
	}
	defer db.Close()
	ctx := context.Background()

	var keys []msgKey
	seen := map[msgKey]bool{}
	add := func(hs uint16, e evJ) {
		if ch, mn, ok := validMsg(e); ok {
			k := msgKey{hs, ch, e.Ty, mn}
			if !seen[k] {
				seen[k] = true
				keys = append(keys, k)
			}
		}
	}
	for _, op := range in.Ops {
		if op.Ev != nil {
			add(op.HS, *op.Ev)
		}
		for _, b := range op.B {
			add(b.HS, b.Ev)
		}
	}
	flags := map[string]bool{}
	note := func(db *meta.DB, hs uint16, e evJ, res meta.MessageEventAppendResult, err error, before map[msgKey]uint64) {
		if err != nil {
			flags["invalid"] = true
			return
		}
		k := msgKey{hs, res.ChannelID, res.ChannelType, res.ClientMsgNo}
		switch {
		case res.MsgEventSeq > before[k]:
			flags["applied"] = true
			if meta.VerifC40IsMessageEventTerminal(res.Status) {
				flags["terminal"] = true
			}
		case res.State.LastEventID == res.EventID && res.State.LastMsgEventSeq == res.MsgEventSeq && res.State.LastEventType != "":
			flags["noop-last-or-replay"] = true
		case meta.VerifC40IsMessageEventTerminal(res.Status):
			flags["noop-finalized-or-replay"] = true
		default:
			flags["replay-synth"] = true
		}
	}
	cursors := func() map[msgKey]uint64 {
		out := map[msgKey]uint64{}
		for _, k := range keys {
			cur, ok, _ := meta.VerifC40MessageEventCursor(ctx, db.MetaDB().HashSlot(meta.HashSlot(k.hs)), k.ch, k.ty, k.mn)
			if ok {
				out[k] = cur.LastMsgEventSeq
			}
		}
		return out
	}

	var steps []string
	var obsJSON []any
	for opIdx, op := range in.Ops {
		var coqOp string
		var outs []string
		var outsJ []any
		commit := "ENone"
		before := cursors()
		switch op.K {
		case "append":
			ev := op.Ev.real()
			res, err := db.MetaDB().HashSlot(meta.HashSlot(op.HS)).AppendMessageEvent(ctx, ev)
			coqOp = vh.App("MAppend", vh.N(uint64(op.HS)), coqEvent(ev))
			outs = append(outs, coqOutcome(res, err))
			outsJ = append(outsJ, map[string]any{"err": errClass(err), "seq": res.MsgEventSeq, "status": res.Status, "key": res.EventKey})
			note(db, op.HS, *op.Ev, res, err, before)
		case "batch":
			wb := db.NewWriteBatch()
			items := make([]string, len(op.B))
			for i, b := range op.B {
				ev := b.Ev.real()
				res, err := wb.AppendMessageEvent(b.HS, ev)
				items[i] = vh.Pair(vh.N(uint64(b.HS)), coqEvent(ev))
				outs = append(outs, coqOutcome(res, err))
				outsJ = append(outsJ, map[string]any{"err": errClass(err), "seq": res.MsgEventSeq, "status": res.Status, "key": res.EventKey})
				note(db, b.HS, b.Ev, res, err, before)
				if err == nil && res.MsgEventSeq > before[msgKey{b.HS, res.ChannelID, res.ChannelType, res.ClientMsgNo}] {
					before[msgKey{b.HS, res.ChannelID, res.ChannelType, res.ClientMsgNo}] = res.MsgEventSeq
				}
			}
			cerr := wb.Commit()
			wb.Close()
			commit = errClass(cerr)
			coqOp = vh.App("MBatch", vh.List(items))
			flags["batch"] = true
			if cerr != nil {
				flags["commit-failed"] = true
			}
		default:
			panic("bad meta op kind " + op.K)
		}
		// tables of the messages this call addresses; of every message after the last call
		touched := map[msgKey]bool{}
		if op.Ev != nil {
			if ch, mn, ok := validMsg(*op.Ev); ok {
				touched[msgKey{op.HS, ch, op.Ev.Ty, mn}] = true
			}
		}
		for _, b := range op.B {
			if ch, mn, ok := validMsg(b.Ev); ok {
				touched[msgKey{b.HS, ch, b.Ev.Ty, mn}] = true
			}
		}
		var dumps []string
		var dumpsJ []any
		for _, k := range keys {
			if touched[k] || opIdx == len(in.Ops)-1 {
				d, j := dumpOne(ctx, db, k)
				dumps, dumpsJ = append(dumps, d), append(dumpsJ, j)
			}
		}
		steps = append(steps, vh.Pair(coqOp, vh.App("mkMetaObs", vh.List(outs), commit, vh.List(dumps))))
		obsJSON = append(obsJSON, map[string]any{"results": outsJ, "commit": commit, "tables": dumpsJ})
	}
	return vh.Result{
		Coq:     vh.App("C40Meta", vh.List(steps)),
		Obs:     obsJSON,
		Class:   "meta:" + flagNames(flags),
		Trivial: len(in.Ops) == 0,
	}
}

func flagNames(flags map[string]bool) string {
	names := make([]string, 0, len(flags))
	for f := range flags {
		names = append(names, f)
	}
	sort.Strings(names)
	return strings.Join(names, ",")
}

// ---- running: node history -----------------------------------------------------------------------

const hashSlotCount = 2
const nodeID = 1

type proposalRec struct {
	events  []meta.MessageEventAppend
	results []meta.MessageEventAppendResult // nil when rejected
}

type recProposer struct {
	machines map[uint32]multiraft.StateMachine
	index    uint64
	failNext bool
	log      []proposalRec
}

func (p *recProposer) Propose(ctx context.Context, req propose.Request) error {
	_, err := p.ProposeResult(ctx, req)
	return err
}

func (p *recProposer) ProposeResult(ctx context.Context, req propose.Request) ([]byte, error) {
	events, ok, err := fsm.VerifC40DecodeMessageEventCommand(req.Command)
	if err != nil || !ok {
		panic(fmt.Sprintf("unexpected slot command proposed by the message event path: ok=%v err=%v", ok, err))
	}
	rec := proposalRec{events: events}
	if p.failNext {
		p.log = append(p.log, rec)
		return nil, errors.New("verif: injected proposal rejection")
	}
	hs := routing.HashSlotForKey(req.Key, hashSlotCount)
	slotID := uint32(hs) + 1
	p.index++
	out, err := p.machines[slotID].Apply(ctx, multiraft.Command{SlotID: multiraft.SlotID(slotID), HashSlot: hs, Index: p.index, Term: 1, Data: req.Command})
	if err != nil {
		p.log = append(p.log, rec)
		return nil, err
	}
	results, derr := fsm.DecodeAppendMessageEventResults(out)
	if derr == nil && len(results) == len(events) {
		rec.results = results
	} else if derr == nil {
		panic(fmt.Sprintf("FSM returned %d results for %d events", len(results), len(events)))
	}
	p.log = append(p.log, rec)
	return out, nil
}

func tick() {
	t0 := time.Now()
	for !time.Now().After(t0) {
	}
}

func runNode(in input) vh.Result {
	dir, err := os.MkdirTemp(tmpBase(), "verif-c40n-")
	if err != nil {
		panic(err)
	}
	defer os.RemoveAll(dir)
	db, err := meta.OpenWithLogger(dir, wklog.NewNop())
	if err != nil {
		panic(err)
	}
	defer db.Close()
	ctx := context.Background()
	prop := &recProposer{machines: map[uint32]multiraft.StateMachine{}}
	for hs := uint16(0); hs < hashSlotCount; hs++ {
		sm, err := fsm.NewStateMachineWithHashSlots(db, uint64(hs)+1, []uint16{hs})
		if err != nil {
			panic(err)
		}
		prop.machines[uint32(hs)+1] = sm
	}
	window := time.Duration(0)
	if in.Coalesce {
		window = 200 * time.Microsecond
	}
	node, err := cluster.VerifC40NewNode(nodeID, hashSlotCount, in.MaxSessions, window, prop)
	if err != nil {
		panic(err)
	}

	var keys []msgKey
	seen := map[msgKey]bool{}
	chans := map[string]bool{}
	var chanList []string
	for _, op := range in.Ops {
		if op.Ev == nil {
			continue
		}
		if ch, mn, ok := validMsg(*op.Ev); ok {
			k := msgKey{routing.HashSlotForKey(ch, hashSlotCount), ch, op.Ev.Ty, mn}
			if !seen[k] {
				seen[k] = true
				keys = append(keys, k)
			}
			if !chans[ch] {
				chans[ch] = true
				chanList = append(chanList, ch)
			}
		}
	}
	chanHS := make([]string, len(chanList))
	for i, ch := range chanList {
		chanHS[i] = vh.Pair(hxs(ch), vh.N(uint64(routing.HashSlotForKey(ch, hashSlotCount))))
	}

	flags := map[string]bool{}
	var steps []string
	var obsJSON []any
	for opIdx, op := range in.Ops {
		tick()
		var coqOp string
		errC, resC := "ENone", vh.None()
		var resJ any
		panicJ := ""
		prop.log = nil
		switch op.K {
		case "ev":
			ev := op.Ev.real()
			prop.failNext = op.Fail
			sessionsBefore := node.CacheObservation().Sessions
			res, err, panicked := func() (res meta.MessageEventAppendResult, err error, panicked string) {
				defer func() {
					if r := recover(); r != nil {
						panicked = fmt.Sprint(r)
					}
				}()
				res, err = node.Append(ctx, ev)
				return res, err, ""
			}()
			prop.failNext = false
			coqOp = vh.App("NEv", coqEvent(ev), vh.B(op.Fail))
			errC = errClass(err)
			if panicked != "" {
				// a panic inside the append path: recorded as an error class of its own
				// (the monitor decides whether it matches a known-finding signature)
				errC, err = "EPanic", errors.New("panic: "+panicked)
				panicJ = panicked
			}
			if err == nil {
				resC = vh.Some(coqResult(res))
				resJ = map[string]any{"key": res.EventKey, "seq": res.MsgEventSeq, "status": res.Status}
			}
			et := strings.ToLower(strings.TrimSpace(ev.EventType))
			switch errC {
			case "ENone":
				switch {
				case et == meta.EventTypeStreamFinish && len(prop.log) == 1 && len(prop.log[0].events) > 1:
					flags["finish-flush"] = true
				case et == meta.EventTypeStreamFinish:
					flags["finish-snapshot-only"] = true
				case len(prop.log) > 0:
					flags["terminal"] = true
					if string(prop.log[0].events[0].Payload) != string(ev.Payload) {
						flags["terminal-merged"] = true
					}
				default:
					flags["cached"] = true
					if node.CacheObservation().Sessions <= sessionsBefore && sessionsBefore > 0 && in.MaxSessions > 0 && sessionsBefore >= in.MaxSessions {
						flags["maybe-evict"] = true
					}
				}
			case "EPanic":
				flags["PANIC"] = true
			case "ECacheMiss":
				flags["cache-miss"] = true
			case "EBackpressured":
				flags["backpressure"] = true
			case "ENotLeader":
				flags["not-leader"] = true
			case "EMaintenance":
				flags["maintenance"] = true
			case "EInvalidArgument":
				flags["invalid"] = true
			default:
				flags["rejected"] = true
			}
		case "lose":
			if err := node.SetSlotLeader(op.Slot, false); err != nil {
				panic(err)
			}
			coqOp = vh.App("NLose", vh.N(uint64(op.Slot)))
			flags["lose"] = true
		case "gain":
			if err := node.SetSlotLeader(op.Slot, true); err != nil {
				panic(err)
			}
			coqOp = vh.App("NGain", vh.N(uint64(op.Slot)))
		case "reset":
			node.ResetRestore()
			coqOp = "NReset"
			flags["reset"] = true
		case "pause":
			node.PauseRestore()
			coqOp = "NPause"
		case "resume":
			node.ResumeRestore()
			coqOp = "NResume"
		default:
			panic("bad node op kind " + op.K)
		}
		props := make([]string, len(prop.log))
		var propsJ []any
		for i, rec := range prop.log {
			items := make([]string, len(rec.events))
			var ids []string
			for j, e := range rec.events {
				r := vh.None()
				if rec.results != nil {
					r = vh.Some(coqResult(rec.results[j]))
				}
				items[j] = vh.Pair(coqEvent(e), r)
				ids = append(ids, e.EventID+"@"+e.EventKey+":"+e.EventType)
			}
			props[i] = vh.List(items)
			propsJ = append(propsJ, map[string]any{"events": ids, "applied": rec.results != nil})
		}
		caches := make([]string, len(keys))
		cachesJ := make([]any, len(keys))
		for i, k := range keys {
			states := node.CacheStates(meta.MessageEventMessageKey{ChannelID: k.ch, ChannelType: k.ty, ClientMsgNo: k.mn})
			sort.Slice(states, func(a, b int) bool { return states[a].EventKey < states[b].EventKey })
			caches[i] = vh.App("mkCacheDump", hxs(k.ch), vh.Z(k.ty), hxs(k.mn), vh.ListOf(states, coqStateCache))
			cachesJ[i] = map[string]any{"ch": k.ch, "mn": k.mn, "lanes": states}
		}
		// tables of the message this call addresses; of every message after the last step
		var dumps []string
		var dumpsJ []any
		for _, k := range keys {
			touched := false
			if op.Ev != nil {
				if ch, mn, ok := validMsg(*op.Ev); ok && k.ch == ch && k.mn == mn && k.ty == op.Ev.Ty {
					touched = true
				}
			}
			if touched || opIdx == len(in.Ops)-1 {
				d, j := dumpOne(ctx, db, k)
				dumps, dumpsJ = append(dumps, d), append(dumpsJ, j)
			}
		}
		sessions := node.CacheObservation().Sessions
		steps = append(steps, vh.Pair(coqOp, vh.App("mkNodeObs", errC, resC, vh.List(props), vh.List(caches), vh.N(uint64(sessions)), vh.List(dumps))))
		obsJSON = append(obsJSON, map[string]any{"err": errC, "panic": panicJ, "result": resJ, "proposals": propsJ, "cache": cachesJ, "sessions": sessions, "tables": dumpsJ})
	}
	return vh.Result{
		Coq:     vh.App("C40Node", vh.N(uint64(in.MaxSessions)), vh.N(hashSlotCount), vh.List(chanHS), vh.List(steps)),
		Obs:     obsJSON,
		Class:   "node:" + flagNames(flags),
		Trivial: len(in.Ops) == 0,
	}
}

func run(in input) vh.Result {
	cur = &interner{names: map[string]string{}}
	var res vh.Result
	switch in.Kind {
	case "reduce":
		res = runReduce(in)
	case "merge":
		res = runMerge(in)
	case "meta":
		res = runMeta(in)
	case "node":
		res = runNode(in)
	default:
		panic("bad case kind " + in.Kind)
	}
	res.Coq = cur.wrap(res.Coq)
	return res
}

// ---- constants -----------------------------------------------------------------------------------

func emitConsts(w io.Writer) {
	def := func(name, value string) {
		fmt.Fprintf(w, "Definition %s : bytes := hx \"%s\".\n", name, hex.EncodeToString([]byte(value)))
	}
	fmt.Fprintln(w, "(* GENERATED by harness/cmd/C40 -emit-consts from the compiled /repo tree. Do not edit. *)")
	fmt.Fprintln(w, "From WK Require Import Base.Base.")
	fmt.Fprintln(w, "Open Scope N_scope.")
	fmt.Fprintln(w, "(* pkg/db/meta event types (table_message_event.go) *)")
	def("EventTypeStreamOpen", meta.EventTypeStreamOpen)
	def("EventTypeStreamDelta", meta.EventTypeStreamDelta)
	def("EventTypeStreamClose", meta.EventTypeStreamClose)
	def("EventTypeStreamError", meta.EventTypeStreamError)
	def("EventTypeStreamCancel", meta.EventTypeStreamCancel)
	def("EventTypeStreamSnapshot", meta.EventTypeStreamSnapshot)
	def("EventTypeStreamFinish", meta.EventTypeStreamFinish)
	fmt.Fprintln(w, "(* lane statuses *)")
	def("EventStatusOpen", meta.EventStatusOpen)
	def("EventStatusClosed", meta.EventStatusClosed)
	def("EventStatusError", meta.EventStatusError)
	def("EventStatusCancelled", meta.EventStatusCancelled)
	fmt.Fprintln(w, "(* reserved lane keys, default visibility *)")
	def("EventKeyDefault", meta.EventKeyDefault)
	def("EventKeyFinish", meta.EventKeyFinish)
	def("VisibilityPublic", meta.VisibilityPublic)
	fmt.Fprintln(w, "(* json.Marshal(struct{Kind,Text}{SnapshotKindText, \"\"}) split around the text: prefix, suffix *)")
	empty := meta.VerifC40ReduceMessageEventDelta(nil, []byte(`{"kind":"`+meta.SnapshotKindText+`","delta":""}`))
	if len(empty) < 2 || string(empty[len(empty)-3:]) != `""}` {
		panic("unexpected empty text snapshot " + string(empty))
	}
	def("TextSnapshotPrefix", string(empty[:len(empty)-2]))
	def("TextSnapshotSuffix", string(empty[len(empty)-2:]))
	fmt.Fprintln(w, "(* pkg/cluster finishFlushMessageEventID(\"\", \"\") *)")
	def("FinishFlushSeparator", cluster.VerifC40FinishFlushEventID("", ""))
	fmt.Fprintln(w, "(* pkg/cluster defaultMessageEventStreamCacheMaxSessions, pkg/db/meta maxKeyStringLen *)")
	fmt.Fprintf(w, "Definition defaultMessageEventStreamCacheMaxSessions : N := %d.\n", cluster.VerifC40DefaultMaxSessions)
	fmt.Fprintf(w, "Definition maxKeyStringLen : N := %d.\n", meta.VerifC40MaxKeyStringLen)
}

func main() {
	vh.Main(vh.Harness[input]{EmitConsts: emitConsts, Gen: gen, Run: run})
}
