// Harness for C32: receive-acknowledgement tracking is exact.
//
// One case = one sequential history of AckTracker API calls on a fresh tracker
// with an injected clock.  Opaque bind tokens are canonicalised by first
// occurrence (1, 2, 3, ... in the order the implementation's results show
// them); ops refer to tokens by that number.  The generator runs the real
// tracker while it plans, so that most ops hit live reservations.
package main

import (
	"fmt"
	"io"
	"math"
	"math/rand/v2"
	"sort"
	"strconv"
	"strings"
	"time"

	"github.com/WuKongIM/WuKongIM/internal/runtime/delivery"
	"github.com/WuKongIM/WuKongIM/internal/verifh/vh"
)

// ---- input ---------------------------------------------------------------

type pend struct {
	U  uint64 `json:"u"` // uid index: 0 = "", n = "u<n>"
	S  uint64 `json:"s"`
	M  uint64 `json:"m"`
	Q  uint64 `json:"q"`  // MessageSeq
	C  uint64 `json:"c"`  // channel index: 0 = "", n = "c<n>"
	T  uint8  `json:"t"`  // ChannelType
	At int64  `json:"at"` // DeliveredAt (0 = tracker clock)
}

type op struct {
	K    string   `json:"k"` // bind batch finish finishb cancel ack close expire reset clock bindc
	P    *pend    `json:"p,omitempty"`
	Ps   []pend   `json:"ps,omitempty"`
	Tok  uint64   `json:"tok,omitempty"`
	Toks []uint64 `json:"toks,omitempty"`
	Idx  []int64  `json:"idx,omitempty"`
	TTL  int64    `json:"ttl,omitempty"`
	Now  int64    `json:"now,omitempty"`
}

type input struct {
	Shards int   `json:"shards"`
	Limit  int   `json:"limit"`
	Now    int64 `json:"now"`
	Ops    []op  `json:"ops"`
}

// ---- executing one op on the real tracker --------------------------------------

func uidStr(u uint64) string {
	if u == 0 {
		return ""
	}
	return "u" + strconv.FormatUint(u, 10)
}

func chanStr(c uint64) string {
	if c == 0 {
		return ""
	}
	return "c" + strconv.FormatUint(c, 10)
}

func idxOf(s string, prefix string) uint64 {
	if s == "" {
		return 0
	}
	n, err := strconv.ParseUint(strings.TrimPrefix(s, prefix), 10, 64)
	if err != nil {
		panic("unexpected opaque string from tracker: " + s)
	}
	return n
}

func toPending(p pend) delivery.PendingRecvAck {
	return delivery.PendingRecvAck{UID: uidStr(p.U), SessionID: p.S, MessageID: p.M, MessageSeq: p.Q,
		ChannelID: chanStr(p.C), ChannelType: p.T, DeliveredAt: p.At}
}

func fromPending(p delivery.PendingRecvAck) pend {
	return pend{U: idxOf(p.UID, "u"), S: p.SessionID, M: p.MessageID, Q: p.MessageSeq,
		C: idxOf(p.ChannelID, "c"), T: p.ChannelType, At: p.DeliveredAt}
}

func coqPend(p pend) string {
	return vh.App("Pend", vh.N(p.U), vh.N(p.S), vh.N(p.M), vh.N(p.Q), vh.N(p.C), vh.N(uint64(p.T)), vh.Z(p.At))
}

func lessPend(a, b pend) bool {
	if a.U != b.U {
		return a.U < b.U
	}
	if a.S != b.S {
		return a.S < b.S
	}
	if a.M != b.M {
		return a.M < b.M
	}
	return a.At < b.At
}

// world is one tracker plus the canonical token table and the scripted clock.
type world struct {
	tr    *delivery.AckTracker
	now   int64
	toks  []delivery.AckBindToken
	canon map[delivery.AckBindToken]uint64
}

func newWorld(in input) *world {
	w := &world{now: in.Now, canon: map[delivery.AckBindToken]uint64{}}
	w.tr = delivery.NewAckTracker(delivery.AckTrackerOptions{ShardCount: in.Shards, MaxPendingPerSession: in.Limit,
		Now: func() int64 { return w.now }})
	return w
}

// see canonicalises a token returned by the implementation.
func (w *world) see(t delivery.AckBindToken) uint64 {
	if !t.Valid() {
		return 0
	}
	if k, ok := w.canon[t]; ok {
		return k
	}
	w.toks = append(w.toks, t)
	w.canon[t] = uint64(len(w.toks))
	return uint64(len(w.toks))
}

// tok resolves a canonical token number of the input to an implementation token.
func (w *world) tok(k uint64) delivery.AckBindToken {
	if k == 0 {
		return delivery.AckBindToken{}
	}
	if k <= uint64(len(w.toks)) {
		return w.toks[k-1]
	}
	return delivery.VerifAckToken(1<<62 + k) // never issued
}

// result of one op, already canonical.
type result struct {
	Kind     string   `json:"r"`
	B1, B2   bool     `json:"-"`
	Tok      uint64   `json:"tok,omitempty"`
	Toks     []uint64 `json:"toks,omitempty"`
	N1, N2   int64    `json:"-"`
	N3       int64    `json:"-"`
	Count    int64    `json:"count"`
	P        *pend    `json:"p,omitempty"`
	Ps       []pend   `json:"ps,omitempty"`
	Flags    string   `json:"flags,omitempty"`
	CountAft int64    `json:"after"`
}

func (w *world) apply(o op) result {
	var r result
	r.Kind = o.K
	tr := w.tr
	switch o.K {
	case "clock":
		w.now = o.Now
	case "bind":
		res := tr.BindResult(toPending(*o.P))
		r.B1, r.B2, r.Tok, r.Count = res.Bound, res.Added, w.see(res.Token), int64(res.PendingCount)
	case "bindc":
		r.B1 = tr.Bind(toPending(*o.P))
	case "batch":
		ps := make([]delivery.PendingRecvAck, len(o.Ps))
		for i := range o.Ps {
			ps[i] = toPending(o.Ps[i])
		}
		res := tr.BindBatch(ps)
		r.Toks = make([]uint64, len(res.Tokens))
		for i, t := range res.Tokens {
			r.Toks[i] = w.see(t)
		}
		r.N1, r.N2, r.N3, r.Count = int64(res.Bound), int64(res.Added), int64(res.Shards), int64(res.PendingCount)
	case "finish":
		r.B1 = tr.FinishBind(toPending(*o.P), w.tok(o.Tok))
	case "finishb":
		ps := make([]delivery.PendingRecvAck, len(o.Ps))
		for i := range o.Ps {
			ps[i] = toPending(o.Ps[i])
		}
		ts := make([]delivery.AckBindToken, len(o.Toks))
		for i := range o.Toks {
			ts[i] = w.tok(o.Toks[i])
		}
		idx := make([]int, len(o.Idx))
		for i := range o.Idx {
			idx[i] = int(o.Idx[i])
		}
		r.N1 = int64(tr.FinishBindBatch(ps, ts, idx))
	case "cancel":
		res := tr.CancelBind(toPending(*o.P), w.tok(o.Tok))
		r.B1, r.B2, r.Count = res.Canceled, res.Removed, int64(res.PendingCount)
	case "ack":
		p, ok := tr.Ack(delivery.Recvack{UID: uidStr(o.P.U), SessionID: o.P.S, MessageID: o.P.M, MessageSeq: o.P.Q})
		r.B1 = ok
		pp := fromPending(p)
		r.P = &pp
	case "close":
		for _, p := range tr.SessionClosed(uidStr(o.P.U), o.P.S) {
			r.Ps = append(r.Ps, fromPending(p))
		}
		sort.Slice(r.Ps, func(i, j int) bool { return lessPend(r.Ps[i], r.Ps[j]) })
	case "expire":
		for _, p := range tr.Expire(time.Duration(o.TTL)) {
			r.Ps = append(r.Ps, fromPending(p))
		}
		sort.Slice(r.Ps, func(i, j int) bool { return lessPend(r.Ps[i], r.Ps[j]) })
	case "reset":
		tr.Reset()
	default:
		panic("unknown op kind " + o.K)
	}
	r.CountAft = int64(tr.PendingCount())
	return r
}

func coqOp(o op) string {
	pl := func(ps []pend) string { return vh.ListOf(ps, coqPend) }
	switch o.K {
	case "clock":
		return vh.App("OClock", vh.Z(o.Now))
	case "bind":
		return vh.App("OBind", coqPend(*o.P))
	case "bindc":
		return vh.App("OBindCompat", coqPend(*o.P))
	case "batch":
		return vh.App("OBindBatch", pl(o.Ps))
	case "finish":
		return vh.App("OFinish", coqPend(*o.P), vh.N(o.Tok))
	case "finishb":
		return vh.App("OFinishBatch", pl(o.Ps), vh.NList(o.Toks), vh.ListOf(o.Idx, vh.Z))
	case "cancel":
		return vh.App("OCancel", coqPend(*o.P), vh.N(o.Tok))
	case "ack":
		return vh.App("OAck", vh.N(o.P.U), vh.N(o.P.S), vh.N(o.P.M))
	case "close":
		return vh.App("OClose", vh.N(o.P.U), vh.N(o.P.S))
	case "expire":
		return vh.App("OExpire", vh.Z(o.TTL))
	case "reset":
		return "OReset"
	}
	panic("unknown op kind " + o.K)
}

func coqRes(o op, r result) string {
	switch o.K {
	case "clock", "reset":
		return "RUnit"
	case "bind":
		return vh.App("RBind", vh.B(r.B1), vh.B(r.B2), vh.N(r.Tok), vh.Z(r.Count))
	case "bindc", "finish":
		return vh.App("RBool", vh.B(r.B1))
	case "batch":
		return vh.App("RBindBatch", vh.NList(r.Toks), vh.Z(r.N1), vh.Z(r.N2), vh.Z(r.N3), vh.Z(r.Count))
	case "finishb":
		return vh.App("RCount", vh.Z(r.N1))
	case "cancel":
		return vh.App("RCancel", vh.B(r.B1), vh.B(r.B2), vh.Z(r.Count))
	case "ack":
		return vh.App("RAck", vh.B(r.B1), coqPend(*r.P))
	case "close", "expire":
		return vh.App("RList", vh.ListOf(r.Ps, coqPend))
	}
	panic("unknown op kind " + o.K)
}

// ---- snapshots (through the export) ----------------------------------------------

type snapEntry struct {
	Key       pend
	Pending   pend
	Committed bool
	Primary   uint64
	Extra     []snapAtt
}
type snapAtt struct {
	Tok uint64
	P   pend
}
type snapSess struct {
	U, S uint64
	Ms   []uint64
}

func (w *world) snapshot() ([]snapEntry, []snapSess) {
	es, ss := w.tr.VerifSnapshot()
	var oe []snapEntry
	for _, e := range es {
		row := snapEntry{Key: pend{U: idxOf(e.UID, "u"), S: e.SessionID, M: e.MessageID}, Pending: fromPending(e.Pending),
			Committed: e.Committed, Primary: w.see(e.Primary)}
		for _, a := range e.Extra {
			row.Extra = append(row.Extra, snapAtt{Tok: w.see(a.Token), P: fromPending(a.Pending)})
		}
		oe = append(oe, row)
	}
	sort.Slice(oe, func(i, j int) bool { return lessPend(oe[i].Key, oe[j].Key) })
	var os []snapSess
	for _, s := range ss {
		row := snapSess{U: idxOf(s.UID, "u"), S: s.SessionID, Ms: append([]uint64(nil), s.MessageIDs...)}
		sort.Slice(row.Ms, func(i, j int) bool { return row.Ms[i] < row.Ms[j] })
		os = append(os, row)
	}
	sort.Slice(os, func(i, j int) bool {
		if os[i].U != os[j].U {
			return os[i].U < os[j].U
		}
		return os[i].S < os[j].S
	})
	return oe, os
}

func coqKey(p pend) string {
	return "(" + vh.N(p.U) + ", " + vh.N(p.S) + ", " + vh.N(p.M) + ")"
}

func coqSnapshot(es []snapEntry, ss []snapSess) (string, string) {
	e := vh.ListOf(es, func(e snapEntry) string {
		ex := vh.ListOf(e.Extra, func(a snapAtt) string { return vh.App("Att", vh.N(a.Tok), coqPend(a.P)) })
		return vh.Pair(coqKey(e.Key), vh.App("Ent", coqPend(e.Pending), vh.B(e.Committed), vh.N(e.Primary), ex))
	})
	s := vh.ListOf(ss, func(s snapSess) string {
		return vh.Pair("("+vh.N(s.U)+", "+vh.N(s.S)+")", vh.NList(s.Ms))
	})
	return e, s
}

// ---- run -------------------------------------------------------------------------

// feature letters for the histogram, computed from implementation state only.
func features(before []snapEntry, o op, r result, now int64) string {
	f := ""
	find := func(p *pend) *snapEntry {
		if p == nil {
			return nil
		}
		for i := range before {
			if before[i].Key.U == p.U && before[i].Key.S == p.S && before[i].Key.M == p.M {
				return &before[i]
			}
		}
		return nil
	}
	switch o.K {
	case "bind":
		if !r.B1 && o.P.U != 0 && o.P.S != 0 && o.P.M != 0 {
			f += "L" // per-session limit rejected a valid bind
		}
		if r.B1 && !r.B2 {
			f += "X" // overlapping bind on an existing identity
		}
	case "batch":
		if r.N1 > r.N2 {
			f += "X"
		}
		if r.N3 > 1 {
			f += "H" // batch spanning several shards
		}
		valid := 0
		for _, p := range o.Ps {
			if p.U != 0 && p.S != 0 && p.M != 0 {
				valid++
			}
		}
		if int64(valid) > r.N1 {
			f += "L"
		}
	case "finish", "cancel":
		e := find(o.P)
		if !r.B1 {
			f += "T" // stale / foreign / zero token
		} else if e != nil {
			for i, a := range e.Extra {
				if a.Tok == o.Tok {
					if i != len(e.Extra)-1 {
						f += "S" // swap-remove of a non-last extra attempt
					}
					if o.K == "finish" && !e.Committed && e.Primary != 0 {
						f += "F" // extra attempt finished before the live primary
					}
				}
			}
			if o.K == "cancel" && e.Primary == o.Tok && len(e.Extra) > 0 {
				f += "P" // primary cancelled, last extra promoted
			}
			if o.K == "cancel" && !r.B2 {
				f += "K" // rollback kept the identity
			}
			if o.K == "cancel" && r.B2 {
				f += "R" // rollback removed the identity
			}
		}
	case "finishb":
		if r.N1 > 0 {
			f += "B"
		}
	case "ack":
		if r.B1 {
			f += "A"
			if e := find(o.P); e != nil && (e.Primary != 0 || len(e.Extra) > 0) {
				f += "I" // ack won against in-flight reservations
			}
		}
	case "close":
		if len(r.Ps) > 0 {
			f += "C"
		}
	case "expire":
		if len(r.Ps) > 0 {
			f += "E"
		}
		if o.TTL > 0 {
			secs := o.TTL / int64(time.Second)
			if o.TTL%int64(time.Second) != 0 {
				secs++
			}
			cutoff := now - secs
			for _, e := range before {
				if e.Pending.At <= cutoff {
					for _, a := range e.Extra {
						if a.P.At > cutoff {
							f += "G" // stale snapshot protected by a fresher in-flight attempt
							break
						}
					}
				}
			}
			if o.TTL > math.MaxInt64-int64(time.Second) {
				f += "O" // ttl in the range where ttl+1s overflows
			}
		}
	case "reset":
		if len(before) > 0 {
			f += "Z"
		}
	}
	return f
}

func run(in input) vh.Result {
	w := newWorld(in)
	steps := make([]string, 0, len(in.Ops))
	obs := make([]result, 0, len(in.Ops))
	seen := map[rune]bool{}
	maxExtra := 0
	for _, o := range in.Ops {
		before, _ := w.snapshot()
		now := w.now
		r := w.apply(o)
		r.Flags = features(before, o, r, now)
		for _, c := range r.Flags {
			seen[c] = true
		}
		for _, e := range before {
			if len(e.Extra) > maxExtra {
				maxExtra = len(e.Extra)
			}
		}
		steps = append(steps, "("+coqOp(o)+", "+coqRes(o, r)+", "+vh.Z(r.CountAft)+")")
		obs = append(obs, r)
	}
	es, ss := w.snapshot()
	ce, cs := coqSnapshot(es, ss)
	var letters []string
	for c := range seen {
		// the histogram class keeps the rarer branches only:
		// F extra attempt finished before the live primary, G stale snapshot protected from expiry by a
		// fresher in-flight attempt, L per-session limit rejection, O ttl in the former overflow range,
		// P primary cancelled with promotion of the last extra, S swap-remove of a non-last extra,
		// E expiry removed something, K rollback kept a committed/overlapped identity
		if strings.ContainsRune("EFGKLOPS", c) {
			letters = append(letters, string(c))
		}
	}
	sort.Strings(letters)
	class := fmt.Sprintf("x%d:%s", min(maxExtra, 3), strings.Join(letters, ""))
	return vh.Result{
		Coq: vh.App("C32Case", vh.Z(int64(in.Shards)), vh.Z(int64(in.Limit)), vh.Z(in.Now), vh.List(steps), ce, cs),
		Obs: map[string]any{"steps": obs, "final_entries": len(es), "final_sessions": len(ss),
			"final_count": w.tr.PendingCount()},
		Class:   class,
		Trivial: len(in.Ops) == 0,
	}
}

// ---- generator -------------------------------------------------------------------

type issued struct {
	tok uint64
	p   pend
}

func genPend(r *rand.Rand, now int64, live []issued, outstanding []pend) pend {
	var p pend
	switch {
	case len(outstanding) > 0 && vh.Chance(r, 0.45): // re-deliver an outstanding identity
		p = outstanding[r.IntN(len(outstanding))]
	case len(live) > 0 && vh.Chance(r, 0.2):
		p = live[r.IntN(len(live))].p
	default:
		p = pend{U: uint64(1 + r.IntN(2)), S: vh.Pick(r, uint64(1), 1, 2, 3, 33, 65), M: uint64(1 + r.IntN(4))}
	}
	if vh.Chance(r, 0.03) {
		p.U = 0
	}
	if vh.Chance(r, 0.03) {
		p.S = 0
	}
	if vh.Chance(r, 0.03) {
		p.M = 0
	}
	p.Q = uint64(r.IntN(5))
	p.C = uint64(r.IntN(3))
	p.T = uint8(r.IntN(3))
	switch r.IntN(6) {
	case 0, 1, 2:
		p.At = 0
	case 3:
		p.At = now
	case 4:
		p.At = now - int64(r.IntN(6))
	default:
		p.At = now + int64(r.IntN(3)) - 1
	}
	return p
}

func genTTL(r *rand.Rand) int64 {
	s := int64(time.Second)
	switch r.IntN(16) {
	case 0:
		return 0
	case 1:
		return -s
	case 2:
		return 1
	case 3:
		return s + s/2
	case 4:
		return s - 1
	case 5:
		return vh.Pick(r, int64(math.MaxInt64), math.MaxInt64-999999999, math.MaxInt64-999999998, math.MaxInt64-1000000000, math.MaxInt64-s-s/2)
	case 6:
		return 10 * s
	case 7:
		return 2*s + 1
	default:
		return int64(1+r.IntN(5)) * s
	}
}

func gen(r *rand.Rand, tier string, i int) input {
	in := input{
		Shards: vh.Pick(r, 0, 1, 1, 2, 3, 32, 64, 65, 100, -1),
		Limit:  vh.Pick(r, 0, 0, 0, 1, 2, 2, 3, -1),
		Now:    vh.Pick(r, int64(1000), 1000, 5, 0, 1700000000),
	}
	maxOps := 40
	if tier == "thorough" {
		maxOps = 120
	}
	nOps := r.IntN(maxOps + 1)
	if i%50 == 0 {
		nOps = 0
	}
	w := newWorld(in)
	var live []issued // every reservation ever issued (finished/cancelled ones stay: stale tokens)
	outstanding := func() []pend {
		es, _ := w.snapshot()
		ps := make([]pend, len(es))
		for i, e := range es {
			ps[i] = e.Key
		}
		return ps
	}
	pickAttempt := func() (pend, uint64) {
		// mostly a live reservation of the real tracker, sometimes stale / foreign / unknown / zero
		es, _ := w.snapshot()
		var cands []issued
		for _, e := range es {
			if e.Primary != 0 {
				cands = append(cands, issued{e.Primary, e.Key})
			}
			for _, a := range e.Extra {
				cands = append(cands, issued{a.Tok, e.Key})
			}
		}
		c := r.IntN(20)
		switch {
		case c < 14 && len(cands) > 0:
			a := cands[r.IntN(len(cands))]
			return a.p, a.tok
		case c < 16 && len(live) > 0: // possibly stale
			a := live[r.IntN(len(live))]
			return a.p, a.tok
		case c < 17 && len(live) > 1: // token of another identity
			a, b := live[r.IntN(len(live))], live[r.IntN(len(live))]
			return a.p, b.tok
		case c < 18:
			return genPend(r, w.now, live, nil), uint64(len(w.toks) + 1 + r.IntN(3))
		case c < 19:
			return genPend(r, w.now, live, nil), 0
		default:
			p := genPend(r, w.now, live, nil)
			return p, uint64(r.IntN(len(w.toks) + 2))
		}
	}
	for len(in.Ops) < nOps {
		var o op
		c := r.IntN(100)
		switch {
		case c < 10:
			d := int64(r.IntN(4))
			if vh.Chance(r, 0.1) {
				d = vh.Pick(r, int64(10), -1, 100)
			}
			o = op{K: "clock", Now: w.now + d}
		case c < 33:
			p := genPend(r, w.now, live, outstanding())
			o = op{K: "bind", P: &p}
		case c < 36:
			p := genPend(r, w.now, live, outstanding())
			o = op{K: "bindc", P: &p}
		case c < 45:
			n := 1 + r.IntN(6)
			out := outstanding()
			for j := 0; j < n; j++ {
				o.Ps = append(o.Ps, genPend(r, w.now, live, out))
			}
			if vh.Chance(r, 0.05) {
				o.Ps = nil
			}
			o.K = "batch"
		case c < 60:
			p, t := pickAttempt()
			o = op{K: "finish", P: &p, Tok: t}
		case c < 66:
			n := 1 + r.IntN(5)
			for j := 0; j < n; j++ {
				p, t := pickAttempt()
				o.Ps = append(o.Ps, p)
				o.Toks = append(o.Toks, t)
			}
			for j := 0; j < n; j++ {
				if vh.Chance(r, 0.7) {
					o.Idx = append(o.Idx, int64(j))
				}
			}
			if vh.Chance(r, 0.2) {
				o.Idx = append(o.Idx, vh.Pick(r, int64(-1), int64(n), int64(n+3), 0))
			}
			if vh.Chance(r, 0.1) && len(o.Toks) > 1 {
				o.Toks = o.Toks[:len(o.Toks)-1]
			}
			r.Shuffle(len(o.Idx), func(a, b int) { o.Idx[a], o.Idx[b] = o.Idx[b], o.Idx[a] })
			o.K = "finishb"
		case c < 80:
			p, t := pickAttempt()
			o = op{K: "cancel", P: &p, Tok: t}
		case c < 88:
			var p pend
			if out := outstanding(); len(out) > 0 && vh.Chance(r, 0.75) {
				p = out[r.IntN(len(out))]
			} else {
				p = genPend(r, w.now, nil, nil)
			}
			p.Q, p.C, p.T, p.At = uint64(r.IntN(5)), 0, 0, 0
			o = op{K: "ack", P: &p}
		case c < 92:
			var p pend
			if out := outstanding(); len(out) > 0 && vh.Chance(r, 0.75) {
				p = out[r.IntN(len(out))]
			} else {
				p = genPend(r, w.now, nil, nil)
			}
			p = pend{U: p.U, S: p.S}
			o = op{K: "close", P: &p}
		case c < 99:
			o = op{K: "expire", TTL: genTTL(r)}
		default:
			o = op{K: "reset"}
		}
		res := w.apply(o)
		switch o.K {
		case "bind":
			if res.Tok != 0 {
				live = append(live, issued{res.Tok, *o.P})
			}
		case "batch":
			for j, t := range res.Toks {
				if t != 0 {
					live = append(live, issued{t, o.Ps[j]})
				}
			}
		}
		in.Ops = append(in.Ops, o)
	}
	return in
}

func emitConsts(w io.Writer) {
	fmt.Fprintln(w, "(* GENERATED by harness/cmd/C32 -emit-consts from the compiled /repo tree. Do not edit. *)")
	fmt.Fprintln(w, "From Coq Require Import ZArith.")
	fmt.Fprintln(w, "(* time.Second in nanoseconds (unit of AckTracker.Expire's ttl) *)")
	fmt.Fprintf(w, "Definition time_second : Z := %d%%Z.\n", int64(time.Second))
	fmt.Fprintln(w, "(* delivery.defaultAckTrackerShardCount *)")
	fmt.Fprintf(w, "Definition default_ack_tracker_shard_count : Z := %d%%Z.\n", delivery.VerifDefaultAckTrackerShardCount)
}

func main() {
	vh.Main(vh.Harness[input]{EmitConsts: emitConsts, Gen: gen, Run: run})
}
