// Harness for C33: presence routing is fenced by slot authority.
//
// One case = one sequential history of presence.Directory calls on a fresh
// directory.  Time is scripted: every Expire op carries its own `now`.  Pending
// route tokens are opaque strings; they are canonicalised per hash slot by
// first occurrence and ops refer to them by that number.  After every call the
// active routes of every installed slot are read through the VerifDump export
// (identity, owner sequence, activity second): the monitor evaluates the
// property on these observations; the full final state is compared with the model.
package main

import (
	"errors"
	"fmt"
	"io"
	"math"
	"math/rand/v2"
	"sort"
	"strconv"
	"strings"
	"time"

	"github.com/WuKongIM/WuKongIM/internal/runtime/presence"
	"github.com/WuKongIM/WuKongIM/internal/verifh/vh"
)

// ---- input -----------------------------------------------------------------

type tgt struct {
	HS     uint16 `json:"hs"`
	Slot   uint32 `json:"slot"`
	Leader uint64 `json:"leader"`
	Term   uint64 `json:"term"`
	Epoch  uint64 `json:"epoch"`
	Rev    uint64 `json:"rev"`
	AE     uint64 `json:"ae"`
}

type rt struct {
	U     uint64 `json:"u"` // uid index: 0 = "", n = "u<n>" (n < 10 so that string order = numeric order)
	Node  uint64 `json:"node"`
	Boot  uint64 `json:"boot"`
	Seq   uint64 `json:"seq"`
	Sess  uint64 `json:"sess"`
	Dev   uint64 `json:"dev"` // device id index
	Flag  uint8  `json:"flag"`
	Level uint8  `json:"level"`
	Lis   uint64 `json:"lis"`
	Conn  int64  `json:"conn"`
	Seen  int64  `json:"seen"`
}

type grp struct {
	T    tgt      `json:"t"`
	UIDs []uint64 `json:"uids"`
}

type op struct {
	K    string   `json:"k"` // become lose register commit abort unregister touch expire lookup lookup1 lookupt snapshot
	T    *tgt     `json:"t,omitempty"`
	HS   uint16   `json:"hs,omitempty"`
	R    *rt      `json:"r,omitempty"`
	Rs   []rt     `json:"rs,omitempty"`
	Tok  uint64   `json:"tok,omitempty"`
	Seq  uint64   `json:"seq,omitempty"`
	UIDs []uint64 `json:"uids,omitempty"`
	Gs   []grp    `json:"gs,omitempty"`
	NowS int64    `json:"now_s,omitempty"`
	NowN int64    `json:"now_n,omitempty"`
	TTL  int64    `json:"ttl,omitempty"`
}

type input struct {
	Local  uint64 `json:"local"`
	Shards int    `json:"shards"`
	Ops    []op   `json:"ops"`
}

// ---- conversions ----------------------------------------------------------------

func str(prefix string, n uint64) string {
	if n == 0 {
		return ""
	}
	return prefix + strconv.FormatUint(n, 10)
}

func idx(s, prefix string) uint64 {
	if s == "" {
		return 0
	}
	n, err := strconv.ParseUint(strings.TrimPrefix(s, prefix), 10, 64)
	if err != nil {
		panic("unexpected opaque string from directory: " + s)
	}
	return n
}

func toTarget(t tgt) presence.RouteTarget {
	return presence.RouteTarget{HashSlot: t.HS, SlotID: t.Slot, LeaderNodeID: t.Leader, LeaderTerm: t.Term,
		ConfigEpoch: t.Epoch, RouteRevision: t.Rev, AuthorityEpoch: t.AE}
}

func fromTarget(t presence.RouteTarget) tgt {
	return tgt{HS: t.HashSlot, Slot: t.SlotID, Leader: t.LeaderNodeID, Term: t.LeaderTerm, Epoch: t.ConfigEpoch,
		Rev: t.RouteRevision, AE: t.AuthorityEpoch}
}

func toRoute(r rt) presence.Route {
	return presence.Route{UID: str("u", r.U), OwnerNodeID: r.Node, OwnerBootID: r.Boot, OwnerSeq: r.Seq, SessionID: r.Sess,
		DeviceID: str("d", r.Dev), DeviceFlag: r.Flag, DeviceLevel: r.Level, Listener: str("l", r.Lis),
		ConnectedUnix: r.Conn, LastSeenUnix: r.Seen}
}

func fromRoute(r presence.Route) rt {
	return rt{U: idx(r.UID, "u"), Node: r.OwnerNodeID, Boot: r.OwnerBootID, Seq: r.OwnerSeq, Sess: r.SessionID,
		Dev: idx(r.DeviceID, "d"), Flag: r.DeviceFlag, Level: r.DeviceLevel, Lis: idx(r.Listener, "l"),
		Conn: r.ConnectedUnix, Seen: r.LastSeenUnix}
}

type ident struct{ U, Node, Boot, Sess uint64 }

func fromIdentity(i presence.RouteIdentity) ident {
	return ident{idx(i.UID, "u"), i.OwnerNodeID, i.OwnerBootID, i.SessionID}
}

func lessIdent(a, b ident) bool {
	if a.U != b.U {
		return a.U < b.U
	}
	if a.Node != b.Node {
		return a.Node < b.Node
	}
	if a.Boot != b.Boot {
		return a.Boot < b.Boot
	}
	return a.Sess < b.Sess
}

func coqTarget(t tgt) string {
	return vh.App("Tg", vh.N(uint64(t.HS)), vh.N(uint64(t.Slot)), vh.N(t.Leader), vh.N(t.Term), vh.N(t.Epoch), vh.N(t.Rev), vh.N(t.AE))
}

func coqRoute(r rt) string {
	return vh.App("Rt", vh.N(r.U), vh.N(r.Node), vh.N(r.Boot), vh.N(r.Seq), vh.N(r.Sess), vh.N(r.Dev),
		vh.N(uint64(r.Flag)), vh.N(uint64(r.Level)), vh.N(r.Lis), vh.Z(r.Conn), vh.Z(r.Seen))
}

func coqIdent(i ident) string {
	return "(" + vh.N(i.U) + ", " + vh.N(i.Node) + ", " + vh.N(i.Boot) + ", " + vh.N(i.Sess) + ")"
}

func coqErr(err error) string {
	switch {
	case err == nil:
		return "EOk"
	case errors.Is(err, presence.ErrNotLeader):
		return "ENotLeader"
	case errors.Is(err, presence.ErrStaleRoute):
		return "EStale"
	case errors.Is(err, presence.ErrRouteNotReady):
		return "ENotReady"
	}
	panic("unclassified error: " + err.Error())
}

// ---- world ----------------------------------------------------------------------

type world struct {
	d *presence.Directory
	// toks[hashSlot] lists token strings in order of first occurrence.
	toks map[uint16][]presence.PendingRouteToken
}

func newWorld(in input) *world {
	return &world{d: presence.NewDirectory(presence.DirectoryOptions{LocalNodeID: in.Local, ShardCount: in.Shards}),
		toks: map[uint16][]presence.PendingRouteToken{}}
}

func (w *world) see(hs uint16, t presence.PendingRouteToken) uint64 {
	if t == "" {
		return 0
	}
	for i, x := range w.toks[hs] {
		if x == t {
			return uint64(i + 1)
		}
	}
	w.toks[hs] = append(w.toks[hs], t)
	return uint64(len(w.toks[hs]))
}

func (w *world) tok(hs uint16, k uint64) presence.PendingRouteToken {
	if k == 0 {
		return ""
	}
	if k <= uint64(len(w.toks[hs])) {
		return w.toks[hs][k-1]
	}
	return presence.PendingRouteToken("never-issued-" + strconv.FormatUint(k, 10))
}

func uidStrs(us []uint64) []string {
	out := make([]string, len(us))
	for i, u := range us {
		out[i] = str("u", u)
	}
	return out
}

func routesCoq(rs []presence.Route) string {
	return vh.ListOf(rs, func(r presence.Route) string { return coqRoute(fromRoute(r)) })
}

// apply executes one op and returns the Coq term of its result plus a short JSON rendering.
func (w *world) apply(o op) (string, any) {
	d := w.d
	switch o.K {
	case "become":
		d.BecomeAuthority(toTarget(*o.T))
		return "RUnit", nil
	case "lose":
		d.LoseAuthority(o.HS)
		return "RUnit", nil
	case "register":
		res, err := d.RegisterRoute(toTarget(*o.T), toRoute(*o.R))
		tok := w.see(o.T.HS, res.PendingToken)
		acts := vh.ListOf(res.Actions, func(a presence.RouteAction) string {
			kick := false
			switch a.Kind {
			case "close":
			case "kick_then_close":
				kick = true
			default:
				panic("unknown action kind " + a.Kind)
			}
			if a.Reason != "presence_conflict" || a.DelayMS != 0 {
				panic("unexpected action reason/delay")
			}
			return vh.App("Act", vh.N(idx(a.UID, "u")), vh.N(a.OwnerNodeID), vh.N(a.OwnerBootID), vh.N(a.SessionID), vh.B(kick))
		})
		return vh.App("RRegister", coqErr(err), vh.N(tok), acts), map[string]any{"err": coqErr(err), "tok": tok, "actions": len(res.Actions)}
	case "commit":
		err := d.CommitRoute(toTarget(*o.T), w.tok(o.T.HS, o.Tok))
		return vh.App("RErr", coqErr(err)), coqErr(err)
	case "abort":
		err := d.AbortRoute(toTarget(*o.T), w.tok(o.T.HS, o.Tok))
		return vh.App("RErr", coqErr(err)), coqErr(err)
	case "unregister":
		r := toRoute(*o.R)
		err := d.UnregisterRoute(toTarget(*o.T), r.Identity(), o.Seq)
		return vh.App("RErr", coqErr(err)), coqErr(err)
	case "touch":
		rs := make([]presence.Route, len(o.Rs))
		for i := range o.Rs {
			rs[i] = toRoute(o.Rs[i])
		}
		err := d.TouchRoutes(toTarget(*o.T), rs)
		return vh.App("RErr", coqErr(err)), coqErr(err)
	case "expire":
		res := d.ExpireRoutesDetailed(time.Unix(o.NowS, o.NowN), time.Duration(o.TTL))
		return vh.App("RExpire", vh.Z(int64(res.Expired)), vh.Z(int64(res.DueBuckets)), vh.Z(int64(res.Examined)),
			vh.Z(int64(res.IndexRoutes)), vh.Z(int64(res.IndexBuckets))), res
	case "lookup":
		rs, err := d.EndpointsByUIDs(toTarget(*o.T), uidStrs(o.UIDs))
		return vh.App("RRoutes", coqErr(err), routesCoq(rs)), map[string]any{"err": coqErr(err), "n": len(rs)}
	case "lookup1":
		rs, err := d.EndpointsByUID(toTarget(*o.T), str("u", o.UIDs[0]))
		return vh.App("RRoutes", coqErr(err), routesCoq(rs)), map[string]any{"err": coqErr(err), "n": len(rs)}
	case "lookupt":
		gs := make([]presence.EndpointLookupGroup, len(o.Gs))
		for i, g := range o.Gs {
			gs[i] = presence.EndpointLookupGroup{Target: toTarget(g.T), UIDs: uidStrs(g.UIDs)}
		}
		res := d.EndpointsByTargets(gs)
		if len(res) != len(gs) {
			panic("EndpointsByTargets: result not aligned with groups")
		}
		items := vh.ListOf(res, func(r presence.EndpointLookupResult) string {
			return vh.Pair(coqErr(r.Err), routesCoq(r.Routes))
		})
		return vh.App("RGroups", items), len(res)
	case "snapshot":
		s := d.Snapshot()
		type kv struct {
			hs uint16
			n  int
		}
		var rows []kv
		for hs, n := range s.ByHashSlot {
			rows = append(rows, kv{hs, n})
		}
		sort.Slice(rows, func(i, j int) bool { return rows[i].hs < rows[j].hs })
		by := vh.ListOf(rows, func(r kv) string { return vh.Pair(vh.N(uint64(r.hs)), vh.Z(int64(r.n))) })
		return vh.App("RSnap", vh.Z(int64(s.Active)), by, vh.N(s.TouchRoutesTotal), vh.N(s.ExpiredRoutesTotal),
			vh.Z(int64(s.ExpiryIndexRoutes)), vh.Z(int64(s.ExpiryIndexBuckets))), s
	}
	panic("unknown op kind " + o.K)
}

func coqOp(o op) string {
	nl := func(us []uint64) string { return vh.NList(us) }
	switch o.K {
	case "become":
		return vh.App("OBecome", coqTarget(*o.T))
	case "lose":
		return vh.App("OLose", vh.N(uint64(o.HS)))
	case "register":
		return vh.App("ORegister", coqTarget(*o.T), coqRoute(*o.R))
	case "commit":
		return vh.App("OCommit", coqTarget(*o.T), vh.N(o.Tok))
	case "abort":
		return vh.App("OAbort", coqTarget(*o.T), vh.N(o.Tok))
	case "unregister":
		return vh.App("OUnregister", coqTarget(*o.T), coqIdent(ident{o.R.U, o.R.Node, o.R.Boot, o.R.Sess}), vh.N(o.Seq))
	case "touch":
		return vh.App("OTouch", coqTarget(*o.T), vh.ListOf(o.Rs, coqRoute))
	case "expire":
		return vh.App("OExpire", vh.Z(o.NowS), vh.Z(o.NowN), vh.Z(o.TTL))
	case "lookup":
		return vh.App("OLookup", coqTarget(*o.T), nl(o.UIDs))
	case "lookup1":
		return vh.App("OLookup1", coqTarget(*o.T), vh.N(o.UIDs[0]))
	case "lookupt":
		return vh.App("OLookupT", vh.ListOf(o.Gs, func(g grp) string { return vh.Pair(coqTarget(g.T), nl(g.UIDs)) }))
	case "snapshot":
		return "OSnapshot"
	}
	panic("unknown op kind " + o.K)
}

// ---- observations through the export ------------------------------------------------

type brief struct {
	HS   uint16
	ID   ident
	Seq  uint64
	Seen int64
}

func (w *world) dump() []presence.VerifSlotDump {
	ds := w.d.VerifDump()
	sort.Slice(ds, func(i, j int) bool { return ds[i].HashSlot < ds[j].HashSlot })
	return ds
}

func activeBrief(ds []presence.VerifSlotDump) []brief {
	var out []brief
	for _, s := range ds {
		var rows []brief
		for _, r := range s.Active {
			x := fromRoute(r)
			rows = append(rows, brief{s.HashSlot, ident{x.U, x.Node, x.Boot, x.Sess}, x.Seq, x.Seen})
		}
		sort.Slice(rows, func(i, j int) bool { return lessIdent(rows[i].ID, rows[j].ID) })
		out = append(out, rows...)
	}
	return out
}

func coqBrief(bs []brief) string {
	return vh.ListOf(bs, func(b brief) string {
		return "(" + vh.N(uint64(b.HS)) + ", " + coqIdent(b.ID) + ", " + vh.N(b.Seq) + ", " + vh.Z(b.Seen) + ")"
	})
}

func sameBrief(a, b []brief) bool {
	if len(a) != len(b) {
		return false
	}
	for i := range a {
		if a[i] != b[i] {
			return false
		}
	}
	return true
}

func coqSeqs(xs []presence.VerifSeq, seen bool) string {
	rows := append([]presence.VerifSeq(nil), xs...)
	sort.Slice(rows, func(i, j int) bool { return lessIdent(fromIdentity(rows[i].ID), fromIdentity(rows[j].ID)) })
	return vh.ListOf(rows, func(x presence.VerifSeq) string {
		if seen {
			return vh.Pair(coqIdent(fromIdentity(x.ID)), vh.Z(x.Seen))
		}
		return vh.Pair(coqIdent(fromIdentity(x.ID)), vh.N(x.Seq))
	})
}

func (w *world) coqSlot(s presence.VerifSlotDump) string {
	act := append([]presence.Route(nil), s.Active...)
	sort.Slice(act, func(i, j int) bool {
		a, b := fromRoute(act[i]), fromRoute(act[j])
		return lessIdent(ident{a.U, a.Node, a.Boot, a.Sess}, ident{b.U, b.Node, b.Boot, b.Sess})
	})
	active := vh.ListOf(act, func(r presence.Route) string {
		x := fromRoute(r)
		return vh.Pair(coqIdent(ident{x.U, x.Node, x.Boot, x.Sess}), coqRoute(x))
	})
	by := append([]presence.VerifUID(nil), s.ByUID...)
	sort.Slice(by, func(i, j int) bool { return by[i].UID < by[j].UID })
	byuid := vh.ListOf(by, func(u presence.VerifUID) string {
		ids := make([]ident, len(u.IDs))
		for i := range u.IDs {
			ids[i] = fromIdentity(u.IDs[i])
		}
		sort.Slice(ids, func(i, j int) bool { return lessIdent(ids[i], ids[j]) })
		return vh.Pair(vh.N(idx(u.UID, "u")), vh.ListOf(ids, coqIdent))
	})
	type pend struct {
		tok uint64
		p   presence.VerifPending
	}
	var ps []pend
	for _, p := range s.Pending {
		ps = append(ps, pend{w.see(s.HashSlot, p.Token), p})
	}
	sort.Slice(ps, func(i, j int) bool { return ps[i].tok < ps[j].tok })
	pending := vh.ListOf(ps, func(p pend) string {
		cs := vh.ListOf(p.p.Conflicts, func(i presence.RouteIdentity) string { return coqIdent(fromIdentity(i)) })
		return vh.Pair(vh.N(p.tok), vh.Pair(coqRoute(fromRoute(p.p.Route)), cs))
	})
	return vh.Pair(vh.N(uint64(s.HashSlot)), vh.App("SlotObs", coqTarget(fromTarget(s.Target)), active, byuid, pending,
		coqSeqs(s.OwnerSeq, false), coqSeqs(s.Tombstone, false), coqSeqs(s.Expiry, true),
		vh.Z(int64(s.Buckets)), vh.Z(int64(s.HeapLen)), vh.B(s.IndexOK)))
}

// ---- run ------------------------------------------------------------------------------

func classOf(in input, seen map[string]bool) string {
	var ls []string
	for k := range seen {
		if k != "K" && k != "I" {
			ls = append(ls, k)
		}
	}
	sort.Strings(ls)
	return strings.Join(ls, "")
}

func run(in input) vh.Result {
	w := newWorld(in)
	steps := make([]string, 0, len(in.Ops))
	obs := make([]any, 0, len(in.Ops))
	feat := map[string]bool{}
	prev := []brief{}
	for _, o := range in.Ops {
		before := w.dump()
		res, js := w.apply(o)
		after := w.dump()
		ab := activeBrief(after)
		act := vh.None()
		if !sameBrief(prev, ab) {
			act = vh.Some(coqBrief(ab))
		}
		features(feat, o, res, before, after)
		prev = ab
		steps = append(steps, "("+coqOp(o)+", "+res+", "+act+")")
		obs = append(obs, map[string]any{"k": o.K, "res": js, "active_after": len(ab)})
	}
	final := w.dump()
	slots := make([]string, len(final))
	for i, s := range final {
		slots[i] = w.coqSlot(s)
	}
	return vh.Result{
		Coq:     vh.App("C33Case", vh.N(in.Local), vh.Z(int64(in.Shards)), vh.List(steps), vh.List(slots)),
		Obs:     map[string]any{"steps": obs, "final_slots": len(final)},
		Class:   classOf(in, feat),
		Trivial: len(in.Ops) == 0,
	}
}

// features marks the branches a history reached (letters form the histogram class):
// N stale-target rejection, P pending created, C commit ok, Y commit not-ready (new conflict), S stale route
// rejection (tombstone / owner seq), T touch recreated a missing route, I touch ignored, U unregister removed an
// active route, X expiry removed routes, K expiry kept a not-yet-due or unindexed route, R revision-only become,
// F fresh become over an existing slot (state cleared), L lookup returning >= 2 routes for one uid.
func features(f map[string]bool, o op, res string, before, after []presence.VerifSlotDump) {
	count := func(ds []presence.VerifSlotDump) int {
		n := 0
		for _, s := range ds {
			n += len(s.Active)
		}
		return n
	}
	if strings.Contains(res, "ENotLeader") {
		f["N"] = true
	}
	if strings.Contains(res, "EStale") {
		f["S"] = true
	}
	switch o.K {
	case "register":
		if strings.HasPrefix(res, "(RRegister EOk") && !strings.HasPrefix(res, "(RRegister EOk 0 ") {
			f["P"] = true
		}
	case "commit":
		if res == "(RErr EOk)" {
			f["C"] = true
		}
		if res == "(RErr ENotReady)" {
			f["Y"] = true
		}
	case "touch":
		if res == "(RErr EOk)" {
			if count(after) > count(before) {
				f["T"] = true
			} else if len(o.Rs) > 0 {
				f["I"] = true
			}
		}
	case "unregister":
		if count(after) < count(before) {
			f["U"] = true
		}
	case "expire":
		if count(after) < count(before) {
			f["X"] = true
		}
		if count(after) > 0 {
			f["K"] = true
		}
	case "become":
		for _, s := range before {
			if s.HashSlot == o.T.HS {
				same := false
				for _, a := range after {
					if a.HashSlot == o.T.HS && a.NextID == s.NextID && len(a.Active) == len(s.Active) && (len(s.Active) > 0 || s.NextID > 0) {
						same = true
					}
				}
				if same {
					f["R"] = true
				} else if len(s.Active) > 0 {
					f["F"] = true
				}
			}
		}
	case "lookup", "lookup1", "lookupt":
		for _, s := range after {
			for _, u := range s.ByUID {
				if len(u.IDs) >= 2 {
					for _, q := range o.UIDs {
						if str("u", q) == u.UID {
							f["L"] = true
						}
					}
				}
			}
		}
	}
}

// ---- generator ----------------------------------------------------------------------------

func genRoute(r *rand.Rand, now int64, known []rt) rt {
	var x rt
	if len(known) > 0 && vh.Chance(r, 0.3) {
		// another connection of the same user and device category: a conflict candidate
		x = known[r.IntN(len(known))]
		switch r.IntN(3) {
		case 0:
			x.Sess = 1 + x.Sess%3
		case 1:
			x.Node = 3 - x.Node
		default:
			x.Boot = 3 - x.Boot
		}
		x.Level = vh.Pick(r, uint8(1), 1, 0)
		if vh.Chance(r, 0.5) {
			x.Dev = 3 - x.Dev
		}
		x.Seq = uint64(r.IntN(4))
	} else if len(known) > 0 && vh.Chance(r, 0.5) {
		x = known[r.IntN(len(known))] // same identity again (newer / older sequence)
		switch r.IntN(4) {
		case 0:
			x.Seq++
		case 1:
			if x.Seq > 0 {
				x.Seq--
			}
		}
	} else {
		x = rt{U: uint64(1 + r.IntN(2)), Node: uint64(1 + r.IntN(2)), Boot: vh.Pick(r, uint64(1), 1, 1, 2), Sess: uint64(1 + r.IntN(3)),
			Seq: uint64(r.IntN(5)), Dev: uint64(1 + r.IntN(2)), Flag: uint8(r.IntN(2)), Level: vh.Pick(r, uint8(0), 0, 1, 1, 2), Lis: uint64(r.IntN(2))}
	}
	if vh.Chance(r, 0.02) {
		x.U = 0
	}
	x.Conn = vh.Pick(r, now, now-1, now-3, 0, now-10)
	x.Seen = vh.Pick(r, int64(0), 0, now, now-1, now-2, now-5)
	return x
}

func staleTarget(r *rand.Rand, t tgt) tgt {
	switch r.IntN(6) {
	case 0:
		t.Term++
	case 1:
		if t.Term > 0 {
			t.Term--
		}
	case 2:
		t.Epoch++
	case 3:
		t.Leader = 3 - t.Leader
	case 4:
		t.Slot++
	default:
		t.HS = vh.Pick(r, uint16(1), 2, 33, 7)
	}
	return t
}

func gen(r *rand.Rand, tier string, i int) input {
	in := input{Local: vh.Pick(r, uint64(0), 1, 1), Shards: vh.Pick(r, 0, 1, 2, 32, -1)}
	maxOps := 30
	if tier == "thorough" {
		maxOps = 90
	}
	nOps := r.IntN(maxOps + 1)
	if i%50 == 0 {
		nOps = 0
	}
	w := newWorld(in)
	now := int64(1000)
	installed := map[uint16]tgt{}
	var known []rt
	var fenced []rt // identities that were unregistered, carrying the unregister sequence
	pickTarget := func() tgt {
		var hss []uint16
		for hs := range installed {
			hss = append(hss, hs)
		}
		sort.Slice(hss, func(a, b int) bool { return hss[a] < hss[b] })
		if len(hss) == 0 {
			return tgt{HS: vh.Pick(r, uint16(1), 2, 33), Slot: 1, Leader: 1, Term: 1, Epoch: 1, Rev: 1}
		}
		t := installed[hss[r.IntN(len(hss))]]
		if vh.Chance(r, 0.1) {
			return staleTarget(r, t)
		}
		if vh.Chance(r, 0.2) {
			t.Rev = uint64(r.IntN(4)) // the revision is not part of the fence
			t.AE = uint64(r.IntN(3))
		}
		return t
	}
	for len(in.Ops) < nOps {
		var o op
		c := r.IntN(100)
		if len(installed) == 0 && c >= 10 && vh.Chance(r, 0.9) {
			c = 0
		}
		if len(installed) > 0 && c < 10 && vh.Chance(r, 0.4) {
			c = 13 + r.IntN(27) // fewer authority changes once a slot is installed: register instead
		}
		switch {
		case c < 10:
			hs := vh.Pick(r, uint16(1), 1, 2, 33)
			t := tgt{HS: hs, Slot: uint32(1 + r.IntN(2)), Leader: vh.Pick(r, uint64(1), 1, 1, 2), Term: uint64(1 + r.IntN(2)),
				Epoch: uint64(1 + r.IntN(2)), Rev: uint64(r.IntN(4)), AE: uint64(r.IntN(3))}
			if cur, ok := installed[hs]; ok && vh.Chance(r, 0.5) { // revision-only update of the same identity
				t = cur
				t.Rev = uint64(r.IntN(5))
				t.AE++
			}
			o = op{K: "become", T: &t}
		case c < 13:
			o = op{K: "lose", HS: vh.Pick(r, uint16(1), 2, 33)}
		case c < 40:
			t := pickTarget()
			x := genRoute(r, now, known)
			if len(fenced) > 0 && vh.Chance(r, 0.25) { // come back at / just below / just above the unregister fence
				x = fenced[r.IntN(len(fenced))]
				x.Seq = uint64(max(0, int64(x.Seq)+int64(r.IntN(3))-1))
			}
			o = op{K: "register", T: &t, R: &x}
		case c < 54:
			t := pickTarget()
			n := uint64(len(w.toks[t.HS]))
			o = op{K: "commit", T: &t, Tok: uint64(r.IntN(int(n) + 2))}
			if c >= 50 {
				o.K = "abort"
			}
			var pend []uint64
			for _, sd := range w.d.VerifDump() {
				if sd.HashSlot == t.HS {
					for _, p := range sd.Pending {
						pend = append(pend, w.see(t.HS, p.Token))
					}
				}
			}
			sort.Slice(pend, func(a, b int) bool { return pend[a] < pend[b] })
			if len(pend) > 0 && vh.Chance(r, 0.8) {
				o.Tok = pend[r.IntN(len(pend))]
			}
		case c < 64:
			t := pickTarget()
			x := genRoute(r, now, known)
			o = op{K: "unregister", T: &t, R: &x, Seq: x.Seq + uint64(r.IntN(3))}
			if vh.Chance(r, 0.3) && x.Seq > 0 {
				o.Seq = x.Seq - 1
			}
		case c < 76:
			t := pickTarget()
			n := r.IntN(4)
			for j := 0; j < n; j++ {
				x := genRoute(r, now, known)
				if len(fenced) > 0 && vh.Chance(r, 0.25) {
					x = fenced[r.IntN(len(fenced))]
					x.Seq = uint64(max(0, int64(x.Seq)+int64(r.IntN(3))-1))
					x.Seen = vh.Pick(r, int64(0), now, now-1)
				}
				o.Rs = append(o.Rs, x)
			}
			o.K, o.T = "touch", &t
		case c < 86:
			now += int64(r.IntN(4))
			o = op{K: "expire", NowS: now, NowN: vh.Pick(r, int64(0), 0, 1, 500000000, 999999999),
				TTL: vh.Pick(r, int64(time.Second), int64(2*time.Second), int64(3*time.Second), int64(5*time.Second), 1, int64(1500*time.Millisecond), 0, -1, math.MaxInt64, int64(time.Second)-1)}
			if vh.Chance(r, 0.03) {
				o.NowS, o.NowN = time.Time{}.Unix(), 0 // the zero time: expiry disabled
			}
		case c < 92:
			t := pickTarget()
			o = op{K: "lookup", T: &t, UIDs: []uint64{uint64(1 + r.IntN(2))}}
			for vh.Chance(r, 0.5) && len(o.UIDs) < 4 {
				o.UIDs = append(o.UIDs, uint64(r.IntN(4)))
			}
		case c < 94:
			t := pickTarget()
			o = op{K: "lookup1", T: &t, UIDs: []uint64{uint64(r.IntN(3))}}
		case c < 98:
			n := 1 + r.IntN(4)
			for j := 0; j < n; j++ {
				g := grp{T: pickTarget(), UIDs: []uint64{uint64(1 + r.IntN(2))}}
				if vh.Chance(r, 0.5) {
					g.UIDs = append(g.UIDs, uint64(r.IntN(3)))
				}
				if vh.Chance(r, 0.1) {
					g.UIDs = nil
				}
				o.Gs = append(o.Gs, g)
			}
			o.K = "lookupt"
		default:
			o = op{K: "snapshot"}
		}
		w.apply(o)
		switch o.K {
		case "become":
			installed = map[uint16]tgt{}
			for _, s := range w.d.VerifDump() {
				installed[s.HashSlot] = fromTarget(s.Target)
			}
		case "lose":
			delete(installed, o.HS)
		case "register":
			known = append(known, *o.R)
		case "unregister":
			f := *o.R
			f.Seq = o.Seq
			fenced = append(fenced, f)
			if len(fenced) > 6 {
				fenced = fenced[len(fenced)-6:]
			}
		case "touch":
			known = append(known, o.Rs...)
		}
		if len(known) > 12 {
			known = known[len(known)-12:]
		}
		in.Ops = append(in.Ops, o)
	}
	return in
}

func emitConsts(w io.Writer) {
	fmt.Fprintln(w, "(* GENERATED by harness/cmd/C33 -emit-consts from the compiled /repo tree. Do not edit. *)")
	fmt.Fprintln(w, "From Coq Require Import ZArith NArith.")
	fmt.Fprintln(w, "(* presence.deviceLevelSlave / deviceLevelMaster *)")
	fmt.Fprintf(w, "Definition device_level_slave : N := %d%%N.\n", presence.VerifDeviceLevelSlave)
	fmt.Fprintf(w, "Definition device_level_master : N := %d%%N.\n", presence.VerifDeviceLevelMaster)
	fmt.Fprintln(w, "(* time.Second in nanoseconds; Unix seconds of the zero time.Time (IsZero) *)")
	fmt.Fprintf(w, "Definition c33_time_second : Z := %d%%Z.\n", int64(time.Second))
	fmt.Fprintf(w, "Definition zero_time_unix : Z := (%d)%%Z.\n", time.Time{}.Unix())
	fmt.Fprintln(w, "(* presence.defaultShardCount *)")
	fmt.Fprintf(w, "Definition presence_default_shard_count : Z := %d%%Z.\n", presence.VerifDefaultShardCount)
}

func main() {
	vh.Main(vh.Harness[input]{EmitConsts: emitConsts, Gen: gen, Run: run})
}
