// Harness for C15: channel routing metadata never regresses.
//
// Two streams of cases:
//   - "resolve": one call of the (exported) pure resolveMonotonicChannelRuntimeMeta
//     on a random (existing, exists, candidate) triple drawn from small value
//     alphabets, together with NormalizeChannelRuntimeMeta of both rows and the
//     verdict of validateChannelRuntimeMeta;
//   - "history": a sequence of public meta.Shard / meta.WriteBatch operations
//     (monotonic upsert, delete, retention advance, write batches mixing upsert,
//     create-if-absent, delete and retention advance) on a fresh Pebble-backed
//     DB in a temporary directory; after every operation GetChannelRuntimeMeta
//     is read for every key of the history's key alphabet.
package main

import (
	"context"
	"errors"
	"fmt"
	"io"
	"math/rand/v2"
	"os"
	"sort"
	"strings"

	"github.com/WuKongIM/WuKongIM/internal/verifh/vh"
	"github.com/WuKongIM/WuKongIM/pkg/db/meta"
	"github.com/WuKongIM/WuKongIM/pkg/wklog"
)

// ---- JSON input ----------------------------------------------------------------

type metaJ struct {
	ID       string   `json:"id"`
	Type     int64    `json:"ty"`
	CE       uint64   `json:"ce"`
	LE       uint64   `json:"le"`
	RG       uint64   `json:"rg"`
	Replicas []uint64 `json:"rep"`
	ISR      []uint64 `json:"isr"`
	Leader   uint64   `json:"ldr"`
	MinISR   int64    `json:"min"`
	Status   uint8    `json:"st"`
	Features uint64   `json:"ft"`
	Lease    int64    `json:"lease"`
	Ret      uint64   `json:"ret"`
	RetAt    int64    `json:"retat"`
	Token    string   `json:"tok"`
	WFV      uint64   `json:"wfv"`
	Reason   uint8    `json:"wfr"`
	Until    int64    `json:"wfu"`
	DG       uint64   `json:"dg"`
}

type keyJ struct {
	Slot uint16 `json:"slot"`
	ID   string `json:"id"`
	Type int64  `json:"ty"`
}

type advJ struct {
	ID     string `json:"id"`
	Type   int64  `json:"ty"`
	CE     uint64 `json:"ce"`
	LE     uint64 `json:"le"`
	Leader uint64 `json:"ldr"`
	Lease  int64  `json:"lease"`
	Ret    uint64 `json:"ret"`
	RetAt  int64  `json:"retat"`
}

// opJ is a direct Shard op (k = "upsert" | "delete" | "advance"), a write batch
// (k = "batch", ops in B), or — inside a batch — "upsert" | "create" | "delete" | "advance".
type opJ struct {
	K    string `json:"k"`
	Slot uint16 `json:"slot,omitempty"`
	Meta *metaJ `json:"meta,omitempty"`
	Key  *keyJ  `json:"key,omitempty"`
	Adv  *advJ  `json:"adv,omitempty"`
	B    []opJ  `json:"b,omitempty"`
}

type input struct {
	Kind string `json:"kind"` // "resolve" | "history"
	// resolve
	Existing     *metaJ `json:"existing,omitempty"`
	Exists       bool   `json:"exists,omitempty"`
	NormExisting bool   `json:"norm_existing,omitempty"`
	Candidate    *metaJ `json:"candidate,omitempty"`
	// history
	Ops []opJ `json:"ops,omitempty"`
}

func (m metaJ) real() meta.ChannelRuntimeMeta {
	return meta.ChannelRuntimeMeta{
		ChannelID: m.ID, ChannelType: m.Type, ChannelEpoch: m.CE, LeaderEpoch: m.LE, RouteGeneration: m.RG,
		Replicas: append([]uint64(nil), m.Replicas...), ISR: append([]uint64(nil), m.ISR...), Leader: m.Leader,
		MinISR: m.MinISR, Status: m.Status, Features: m.Features, LeaseUntilMS: m.Lease,
		RetentionThroughSeq: m.Ret, RetentionUpdatedAtMS: m.RetAt, WriteFenceToken: m.Token,
		WriteFenceVersion: m.WFV, WriteFenceReason: m.Reason, WriteFenceUntilMS: m.Until, DirectoryGeneration: m.DG,
	}
}

func (a advJ) real() meta.ChannelRetentionAdvance {
	return meta.ChannelRetentionAdvance{
		ChannelID: a.ID, ChannelType: a.Type, ExpectedChannelEpoch: a.CE, ExpectedLeaderEpoch: a.LE,
		ExpectedLeader: a.Leader, ExpectedLeaseUntilMS: a.Lease, RetentionThroughSeq: a.Ret, RetentionUpdatedAtMS: a.RetAt,
	}
}

// ---- Coq printers ------------------------------------------------------------------

func coqMeta(m meta.ChannelRuntimeMeta) string {
	return vh.App("RuntimeMeta", vh.HexS(m.ChannelID), vh.Z(m.ChannelType), vh.N(m.ChannelEpoch), vh.N(m.LeaderEpoch),
		vh.N(m.RouteGeneration), vh.NList(m.Replicas), vh.NList(m.ISR), vh.N(m.Leader), vh.Z(m.MinISR),
		vh.N(uint64(m.Status)), vh.N(m.Features), vh.Z(m.LeaseUntilMS), vh.N(m.RetentionThroughSeq),
		vh.Z(m.RetentionUpdatedAtMS), vh.HexS(m.WriteFenceToken), vh.N(m.WriteFenceVersion),
		vh.N(uint64(m.WriteFenceReason)), vh.Z(m.WriteFenceUntilMS), vh.N(m.DirectoryGeneration))
}

func coqKey(k keyJ) string {
	return vh.App("RmKey", vh.N(uint64(k.Slot)), vh.HexS(k.ID), vh.Z(k.Type))
}

func coqAdv(a advJ) string {
	return vh.App("RetentionAdvance", vh.HexS(a.ID), vh.Z(a.Type), vh.N(a.CE), vh.N(a.LE), vh.N(a.Leader),
		vh.Z(a.Lease), vh.N(a.Ret), vh.Z(a.RetAt))
}

func errClass(err error) string {
	switch {
	case err == nil:
		return "ENone"
	case errors.Is(err, meta.ErrInvalidArgument):
		return "EInvalidArgument"
	case errors.Is(err, meta.ErrNotFound):
		return "ENotFound"
	case errors.Is(err, meta.ErrAlreadyExists):
		return "EAlreadyExists"
	case errors.Is(err, meta.ErrStaleMeta):
		return "EConflict"
	default:
		return "EOther"
	}
}

// ---- generator ---------------------------------------------------------------------

const u64max = ^uint64(0)

var baseKeys = []keyJ{{3, "u1@u2", 1}, {3, "g1", 2}, {7, "g1", 2}}

func subset(r *rand.Rand, from []uint64) []uint64 {
	var out []uint64
	for _, v := range from {
		if vh.Chance(r, 0.6) {
			out = append(out, v)
		}
	}
	if len(out) == 0 {
		out = append(out, from[r.IntN(len(from))])
	}
	r.Shuffle(len(out), func(i, j int) { out[i], out[j] = out[j], out[i] })
	return out
}

func genRG(r *rand.Rand) uint64 {
	switch x := r.IntN(40); {
	case x < 14:
		return 0
	case x < 36:
		return uint64(1 + r.IntN(8))
	case x < 38:
		return u64max
	default:
		return u64max - 1
	}
}

// genMeta draws an independent, mostly valid row for key k.
func genMeta(r *rand.Rand, k keyJ) metaJ {
	m := metaJ{ID: k.ID, Type: k.Type}
	m.CE, m.LE, m.RG = uint64(r.IntN(4)), uint64(r.IntN(4)), genRG(r)
	m.Replicas = subset(r, []uint64{1, 2, 3, 4})
	if vh.Chance(r, 0.1) {
		m.Replicas = append(m.Replicas, m.Replicas[0])
	}
	if vh.Chance(r, 0.03) {
		m.Replicas = nil
	}
	if len(m.Replicas) > 0 {
		m.ISR = subset(r, m.Replicas)
	}
	if vh.Chance(r, 0.04) {
		m.ISR = append(m.ISR, 9)
	}
	if len(m.ISR) > 0 && !vh.Chance(r, 0.15) {
		m.Leader = m.ISR[r.IntN(len(m.ISR))]
	}
	if vh.Chance(r, 0.03) {
		m.Leader = 8
	}
	distinct := map[uint64]bool{}
	for _, v := range m.Replicas {
		distinct[v] = true
	}
	m.MinISR = 1
	if len(distinct) > 0 {
		m.MinISR = int64(1 + r.IntN(len(distinct)))
	}
	if vh.Chance(r, 0.04) {
		m.MinISR = vh.Pick(r, int64(0), -1, int64(len(distinct)+1))
	}
	m.Status, m.Features = uint8(r.IntN(3)), vh.Pick(r, uint64(0), 1, 3)
	m.Lease = vh.Pick(r, int64(-5), 0, 100, 200, 300)
	m.Ret, m.RetAt = vh.Pick(r, uint64(0), 5, 10, 20), vh.Pick(r, int64(-1), 0, 1000, 2000)
	m.WFV = uint64(r.IntN(4))
	if vh.Chance(r, 0.5) {
		m.Token, m.Reason, m.Until = vh.Pick(r, "t1", "t2"), uint8(1+r.IntN(2)), vh.Pick(r, int64(500), 900)
		if m.WFV == 0 {
			m.WFV = 1
		}
	}
	if vh.Chance(r, 0.04) {
		switch r.IntN(3) {
		case 0:
			m.Token = ""
			m.Reason = 1
		case 1:
			m.Token, m.WFV = "t1", 0
		default:
			m.Token, m.Until = "t2", 0
		}
	}
	m.DG = uint64(r.IntN(3))
	return m
}

// mutate derives a candidate from base by a few field edits (forward and backward).
func mutate(r *rand.Rand, base metaJ) metaJ {
	m := base
	m.Replicas = append([]uint64(nil), base.Replicas...)
	m.ISR = append([]uint64(nil), base.ISR...)
	for n := 1 + r.IntN(3); n > 0; n-- {
		switch r.IntN(22) {
		case 0:
			m.CE++
		case 1:
			m.LE++
		case 2:
			if m.CE > 0 {
				m.CE--
			}
		case 3:
			if m.LE > 0 {
				m.LE--
			}
		case 4: // leader switch inside the ISR
			if len(m.ISR) > 0 {
				m.Leader = m.ISR[r.IntN(len(m.ISR))]
			}
		case 5:
			m.Lease += 100
		case 6:
			m.Lease -= 100
		case 7:
			m.Ret += 5
		case 8:
			if m.Ret >= 5 {
				m.Ret -= 5
			}
		case 9:
			m.RetAt += vh.Pick(r, int64(-1000), 1000)
		case 10: // new fence
			m.WFV++
			m.Token, m.Reason, m.Until = vh.Pick(r, "t1", "t2"), uint8(1+r.IntN(2)), vh.Pick(r, int64(500), 900)
		case 11: // clear fence at the next version
			m.WFV++
			m.Token, m.Reason, m.Until = "", 0, 0
		case 12: // same version, different fence
			if m.Token != "" {
				m.Token = vh.Pick(r, "t1", "t2")
				m.Until = vh.Pick(r, int64(500), 900)
			}
		case 13:
			if m.WFV > 0 {
				m.WFV--
			}
		case 14: // membership change keeping validity mostly
			m.Replicas = append(m.Replicas, uint64(1+r.IntN(5)))
		case 15:
			if len(m.ISR) > 1 {
				drop := r.IntN(len(m.ISR))
				if m.ISR[drop] != m.Leader {
					m.ISR = append(m.ISR[:drop], m.ISR[drop+1:]...)
				}
			}
		case 16:
			m.Status = uint8(r.IntN(3))
		case 17:
			m.Features ^= 1
		case 18:
			m.RG = 0
		case 19:
			switch r.IntN(4) {
			case 0:
				m.RG = base.RG + 1
			case 1:
				if base.RG > 1 {
					m.RG = base.RG - 1
				}
			case 2:
				m.RG = u64max
			default:
				m.RG = uint64(1 + r.IntN(8))
			}
		case 20:
			m.DG = uint64(r.IntN(3))
		default:
			m.MinISR = int64(1 + r.IntN(2))
		}
	}
	return m
}

// approxApply keeps the generator's idea of the stored row (no route generation
// logic; it only has to be right often enough to make follow-up ops hit).
func approxApply(shadow map[keyJ]metaJ, k keyJ, c metaJ) {
	old, ok := shadow[k]
	if !ok {
		shadow[k] = c
		return
	}
	switch {
	case c.CE < old.CE || (c.CE == old.CE && c.LE < old.LE):
		return
	case c.CE == old.CE && c.LE == old.LE:
		if c.Leader != old.Leader {
			return
		}
		if c.Lease < old.Lease {
			c.Lease = old.Lease
		}
	}
	if c.Ret < old.Ret {
		c.Ret = old.Ret
	}
	shadow[k] = c
}

func pickKey(r *rand.Rand) keyJ {
	switch x := r.IntN(10); {
	case x < 5:
		return baseKeys[0]
	case x < 8:
		return baseKeys[1]
	default:
		return baseKeys[2]
	}
}

func genCandidate(r *rand.Rand, shadow map[keyJ]metaJ, k keyJ) metaJ {
	old, ok := shadow[k]
	switch x := r.IntN(20); {
	case ok && x < 13:
		return mutate(r, old)
	case ok && x < 15:
		return old
	default:
		return genMeta(r, k)
	}
}

func genAdvance(r *rand.Rand, shadow map[keyJ]metaJ, k keyJ) advJ {
	old := shadow[k]
	a := advJ{ID: k.ID, Type: k.Type, CE: old.CE, LE: old.LE, Leader: old.Leader, Lease: old.Lease}
	a.Ret = old.Ret + vh.Pick(r, uint64(0), 5, 5, 10)
	if vh.Chance(r, 0.15) && old.Ret >= 5 {
		a.Ret = old.Ret - 5
	}
	a.RetAt = vh.Pick(r, int64(-1), 500, 3000)
	if vh.Chance(r, 0.2) {
		switch r.IntN(4) {
		case 0:
			a.CE++
		case 1:
			a.LE++
		case 2:
			a.Leader++
		default:
			a.Lease += 100
		}
	}
	return a
}

func genHistory(r *rand.Rand, tier string) input {
	maxOps := 16
	if tier == "thorough" {
		maxOps = 48
	}
	n := 4 + r.IntN(maxOps-3)
	shadow := map[keyJ]metaJ{}
	var ops []opJ
	for len(ops) < n {
		k := pickKey(r)
		switch x := r.IntN(20); {
		case x < 9:
			c := genCandidate(r, shadow, k)
			ops = append(ops, opJ{K: "upsert", Slot: k.Slot, Meta: &c})
			if c.ID == k.ID {
				approxApply(shadow, k, c)
			}
		case x < 10:
			kk := k
			if vh.Chance(r, 0.1) {
				kk.ID = ""
			}
			ops = append(ops, opJ{K: "delete", Key: &kk})
			delete(shadow, kk)
		case x < 13:
			a := genAdvance(r, shadow, k)
			if vh.Chance(r, 0.05) {
				a.ID = ""
			}
			ops = append(ops, opJ{K: "advance", Slot: k.Slot, Adv: &a})
			if old, ok := shadow[k]; ok && a.Ret > old.Ret && a.CE == old.CE && a.LE == old.LE && a.Leader == old.Leader && a.Lease == old.Lease {
				old.Ret, old.RetAt = a.Ret, a.RetAt
				shadow[k] = old
			}
		default:
			var b []opJ
			for m := 1 + r.IntN(4); m > 0; m-- {
				bk := k
				if vh.Chance(r, 0.4) {
					bk = pickKey(r)
				}
				switch y := r.IntN(20); {
				case y < 9:
					c := genCandidate(r, shadow, bk)
					b = append(b, opJ{K: "upsert", Slot: bk.Slot, Meta: &c})
					approxApply(shadow, bk, c)
				case y < 14:
					c := genCandidate(r, shadow, bk)
					b = append(b, opJ{K: "create", Slot: bk.Slot, Meta: &c})
					if _, ok := shadow[bk]; !ok {
						shadow[bk] = c
					}
				case y < 16:
					kk := bk
					b = append(b, opJ{K: "delete", Key: &kk})
					delete(shadow, bk)
				default:
					a := genAdvance(r, shadow, bk)
					b = append(b, opJ{K: "advance", Slot: bk.Slot, Adv: &a})
					if old, ok := shadow[bk]; ok && a.Ret > old.Ret && a.CE == old.CE && a.LE == old.LE && a.Leader == old.Leader && a.Lease == old.Lease {
						old.Ret, old.RetAt = a.Ret, a.RetAt
						shadow[bk] = old
					}
				}
			}
			ops = append(ops, opJ{K: "batch", B: b})
		}
	}
	return input{Kind: "history", Ops: ops}
}

func genResolve(r *rand.Rand) input {
	k := pickKey(r)
	ex := genMeta(r, k)
	var c metaJ
	if vh.Chance(r, 0.65) {
		c = mutate(r, ex)
	} else {
		c = genMeta(r, k)
	}
	return input{Kind: "resolve", Existing: &ex, Exists: !vh.Chance(r, 0.08), NormExisting: !vh.Chance(r, 0.15), Candidate: &c}
}

func gen(r *rand.Rand, tier string, i int) input {
	if i%8 == 0 {
		return genHistory(r, tier)
	}
	return genResolve(r)
}

// ---- running the implementation ---------------------------------------------------------

func runResolve(in input) vh.Result {
	var existing meta.ChannelRuntimeMeta
	if in.Existing != nil {
		existing = in.Existing.real()
	}
	if in.NormExisting {
		existing = meta.NormalizeChannelRuntimeMeta(existing)
	}
	if !in.Exists {
		existing = meta.ChannelRuntimeMeta{}
	}
	cand := in.Candidate.real()
	en := meta.NormalizeChannelRuntimeMeta(existing)
	cn := meta.NormalizeChannelRuntimeMeta(cand)
	valid := meta.VerifValidateChannelRuntimeMeta(cand) == nil
	next, result := meta.VerifResolveMonotonicChannelRuntimeMeta(existing, in.Exists, in.Candidate.real())

	class := "resolve:"
	switch {
	case !in.Exists:
		class += "absent"
	case result == meta.MonotonicIgnoredStale:
		class += "stale"
	case result == meta.MonotonicConflict:
		class += "conflict"
	case cand.ChannelEpoch > en.ChannelEpoch:
		class += "applied-channel-epoch"
	case cand.LeaderEpoch > en.LeaderEpoch:
		class += "applied-leader-epoch"
	default:
		class += "applied-same-epochs"
	}
	if in.Exists && result == meta.MonotonicApplied {
		if en.RouteGeneration == u64max {
			class += "+saturated"
		} else if next.RouteGeneration > en.RouteGeneration {
			class += "+bump"
		}
		if next.LeaseUntilMS != cn.LeaseUntilMS || next.RetentionThroughSeq != cn.RetentionThroughSeq || next.WriteFenceVersion != cn.WriteFenceVersion || next.WriteFenceToken != cn.WriteFenceToken {
			class += "+preserved"
		}
	}
	if !valid {
		class += "+invalid-candidate"
	}
	return vh.Result{
		Coq: vh.App("C15Resolve", coqMeta(existing), vh.B(in.Exists), coqMeta(cand), coqMeta(en), coqMeta(cn), coqMeta(next),
			vh.N(uint64(result)), vh.B(valid)),
		Obs:   map[string]any{"existing_norm": en, "candidate_norm": cn, "next": next, "result": uint8(result), "valid": valid},
		Class: class,
	}
}

func tmpBase() string {
	if st, err := os.Stat("/dev/shm"); err == nil && st.IsDir() {
		return "/dev/shm"
	}
	return ""
}

func keyOfMeta(slot uint16, m *metaJ) keyJ { return keyJ{slot, m.ID, m.Type} }

// keyAlphabet = the three base keys plus every other non-empty key an op names.
func keyAlphabet(ops []opJ) []keyJ {
	keys := append([]keyJ(nil), baseKeys...)
	seen := map[keyJ]bool{}
	for _, k := range keys {
		seen[k] = true
	}
	add := func(k keyJ) {
		if k.ID != "" && len(k.ID) < 200 && !seen[k] {
			seen[k] = true
			keys = append(keys, k)
		}
	}
	var walk func(ops []opJ)
	walk = func(ops []opJ) {
		for _, op := range ops {
			switch {
			case op.Meta != nil:
				add(keyOfMeta(op.Slot, op.Meta))
			case op.Key != nil:
				add(*op.Key)
			case op.Adv != nil:
				add(keyJ{op.Slot, op.Adv.ID, op.Adv.Type})
			}
			walk(op.B)
		}
	}
	walk(ops)
	return keys
}

func runHistory(in input) vh.Result {
	dir, err := os.MkdirTemp(tmpBase(), "verif-c15-")
	if err != nil {
		panic(err)
	}
	defer os.RemoveAll(dir)
	db, err := meta.OpenWithLogger(dir, wklog.NewNop())
	if err != nil {
		panic(err)
	}
	defer db.Close()
	ctx := context.Background()
	keys := keyAlphabet(in.Ops)
	flags := map[string]bool{}
	var steps []string
	var obsJSON []any

	snapshot := func() (string, []any) {
		items := make([]string, len(keys))
		js := make([]any, len(keys))
		for i, k := range keys {
			row, ok, err := db.MetaDB().HashSlot(meta.HashSlot(k.Slot)).GetChannelRuntimeMeta(ctx, k.ID, k.Type)
			if err != nil {
				panic(fmt.Sprintf("GetChannelRuntimeMeta(%v): %v", k, err))
			}
			if ok {
				items[i] = vh.Some(coqMeta(row))
				js[i] = row
			} else {
				items[i] = vh.None()
			}
		}
		return vh.List(items), js
	}

	for _, op := range in.Ops {
		var coqOp, coqObs string
		var o any
		switch op.K {
		case "upsert":
			shard := db.MetaDB().HashSlot(meta.HashSlot(op.Slot))
			res, err := shard.UpsertChannelRuntimeMeta(ctx, op.Meta.real())
			coqOp = vh.App("OpUpsert", vh.N(uint64(op.Slot)), coqMeta(op.Meta.real()))
			coqObs = vh.App("ObsUpsert", vh.N(uint64(res)), errClass(err))
			o = map[string]any{"result": uint8(res), "err": errClass(err)}
			switch {
			case err != nil && res == 0:
				flags["invalid"] = true
			case res == meta.MonotonicIgnoredStale:
				flags["stale"] = true
			case res == meta.MonotonicConflict:
				flags["conflict"] = true
			default:
				flags["applied"] = true
			}
		case "delete":
			shard := db.MetaDB().HashSlot(meta.HashSlot(op.Key.Slot))
			err := shard.DeleteChannelRuntimeMeta(ctx, op.Key.ID, op.Key.Type)
			coqOp = vh.App("OpDelete", coqKey(*op.Key))
			coqObs = vh.App("ObsErr", errClass(err))
			o = map[string]any{"err": errClass(err)}
			if err == nil {
				flags["delete"] = true
			}
		case "advance":
			shard := db.MetaDB().HashSlot(meta.HashSlot(op.Slot))
			err := shard.AdvanceChannelRetentionThroughSeq(ctx, op.Adv.real())
			coqOp = vh.App("OpAdvance", vh.N(uint64(op.Slot)), coqAdv(*op.Adv))
			coqObs = vh.App("ObsErr", errClass(err))
			o = map[string]any{"err": errClass(err)}
			if err == nil {
				flags["advance-ok"] = true
			} else {
				flags["advance-rejected"] = true
			}
		case "batch":
			wb := db.NewWriteBatch()
			bops := make([]string, len(op.B))
			stage := make([]string, len(op.B))
			created := make([]*meta.ChannelRuntimeMetaCreateResult, len(op.B))
			for i, b := range op.B {
				var serr error
				switch b.K {
				case "upsert":
					serr = wb.UpsertChannelRuntimeMeta(b.Slot, b.Meta.real())
					bops[i] = vh.App("BUpsert", vh.N(uint64(b.Slot)), coqMeta(b.Meta.real()))
				case "create":
					created[i], serr = wb.CreateChannelRuntimeMeta(b.Slot, b.Meta.real())
					bops[i] = vh.App("BCreate", vh.N(uint64(b.Slot)), coqMeta(b.Meta.real()))
				case "delete":
					serr = wb.DeleteChannelRuntimeMeta(b.Key.Slot, b.Key.ID, b.Key.Type)
					bops[i] = vh.App("BDelete", coqKey(*b.Key))
				case "advance":
					serr = wb.AdvanceChannelRetentionThroughSeq(b.Slot, b.Adv.real())
					bops[i] = vh.App("BAdvance", vh.N(uint64(b.Slot)), coqAdv(*b.Adv))
				default:
					panic("bad batch op kind " + b.K)
				}
				stage[i] = errClass(serr)
			}
			cerr := wb.Commit()
			wb.Close()
			obsItems := make([]string, len(op.B))
			var crJ []bool
			for i := range op.B {
				c := cerr == nil && created[i] != nil && created[i].Created
				crJ = append(crJ, c)
				if c {
					flags["created"] = true
				} else if created[i] != nil && cerr == nil && stage[i] == "ENone" {
					flags["create-existing"] = true
				}
				obsItems[i] = vh.Pair(stage[i], vh.B(c))
			}
			coqOp = vh.App("OpBatch", vh.List(bops))
			coqObs = vh.App("ObsBatch", vh.List(obsItems), errClass(cerr))
			o = map[string]any{"stage": stage, "created": crJ, "commit": errClass(cerr)}
			if cerr == nil {
				flags["batch-ok"] = true
			} else {
				flags["batch-"+strings.TrimPrefix(errClass(cerr), "E")] = true
			}
		default:
			panic("bad op kind " + op.K)
		}
		snap, snapJ := snapshot()
		for _, row := range snapJ {
			if m, ok := row.(meta.ChannelRuntimeMeta); ok && m.RouteGeneration == u64max {
				flags["saturated"] = true
			}
		}
		steps = append(steps, "("+coqOp+", "+coqObs+", "+snap+")")
		obsJSON = append(obsJSON, map[string]any{"obs": o, "rows": snapJ})
	}
	names := make([]string, 0, len(flags))
	for f := range flags {
		names = append(names, f)
	}
	sort.Strings(names)
	return vh.Result{
		Coq:     vh.App("C15History", vh.ListOf(keys, coqKey), vh.List(steps)),
		Obs:     obsJSON,
		Class:   "history:" + strings.Join(names, ","),
		Trivial: len(in.Ops) == 0,
	}
}

func run(in input) vh.Result {
	switch in.Kind {
	case "resolve":
		return runResolve(in)
	case "history":
		return runHistory(in)
	default:
		panic("bad case kind " + in.Kind)
	}
}

func emitConsts(w io.Writer) {
	fmt.Fprintln(w, "(* GENERATED by harness/cmd/C15 -emit-consts from the compiled /repo tree. Do not edit. *)")
	fmt.Fprintln(w, "From Coq Require Import NArith. Open Scope N_scope.")
	fmt.Fprintln(w, "(* pkg/db/meta MonotonicResult *)")
	fmt.Fprintf(w, "Definition MonotonicApplied : N := %d.\n", uint8(meta.MonotonicApplied))
	fmt.Fprintf(w, "Definition MonotonicIgnoredStale : N := %d.\n", uint8(meta.MonotonicIgnoredStale))
	fmt.Fprintf(w, "Definition MonotonicConflict : N := %d.\n", uint8(meta.MonotonicConflict))
	fmt.Fprintln(w, "(* pkg/db/meta maxKeyStringLen (validateKeyString) *)")
	fmt.Fprintf(w, "Definition maxKeyStringLen : N := %d.\n", meta.VerifMaxKeyStringLen)
}

func main() {
	vh.Main(vh.Harness[input]{EmitConsts: emitConsts, Gen: gen, Run: run})
}
