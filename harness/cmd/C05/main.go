// Harness for C05: an entry identity binds every field of its message.
// Runs quorumlog.SealProposalManifest / DeriveProposalEntries / VerifyEntry /
// digestProposalEntry (and the pkg/channel wrappers) on generated manifests and
// records and on single-field perturbations ("probes") of the sealed pairs.
package main

import (
	"crypto/sha256"
	"encoding/binary"
	"encoding/hex"
	"fmt"
	"io"
	"math"
	"math/rand/v2"
	"reflect"
	"regexp"
	"strings"

	"github.com/WuKongIM/WuKongIM/internal/verifh/vh"
	"github.com/WuKongIM/WuKongIM/pkg/channel"
	"github.com/WuKongIM/WuKongIM/pkg/quorumlog"
)

type manifestIn struct {
	Version        uint16 `json:"version"`
	ChannelEpoch   uint64 `json:"epoch"`
	LeaderTerm     uint64 `json:"term"`
	FenceVersion   uint64 `json:"fence"`
	CommandID      string `json:"cmd"` // hex, 32 bytes
	BaseOffset     uint64 `json:"base"`
	LastOffset     uint64 `json:"last"`
	PreviousTerm   uint64 `json:"prev_term"`
	PreviousIndex  uint64 `json:"prev_index"`
	PreviousDigest string `json:"prev_digest"`
	Digest         string `json:"digest"`
}

type recordIn struct {
	ID          uint64 `json:"id"`
	Index       uint64 `json:"index"`
	Epoch       uint64 `json:"epoch"`
	Setting     uint8  `json:"setting"`
	FromUID     string `json:"uid"`      // hex
	ClientMsgNo string `json:"clientno"` // hex
	TS          int64  `json:"ts"`
	SyncOnce    bool   `json:"sync"`
	Payload     string `json:"payload"` // hex
}

// probeIn perturbs one field of the sealed pair number Idx (or of a synthetic
// pair built from the manifest when nothing was sealed) and asks VerifyEntry.
type probeIn struct {
	Idx    int    `json:"idx"`
	Field  string `json:"field"`  // none | e.<field> | r.<field> | boundary | other
	Mode   string `json:"mode"`   // add | set | flip | append | trunc
	U      uint64 `json:"u"`      // operand of add / set / flip (bit position) / other record index
	Hex    string `json:"hex"`    // operand of set / append on byte fields
	Rehash bool   `json:"rehash"` // afterwards set entry.Digest to the digest of the perturbed pair
}

type input struct {
	Manifest manifestIn `json:"manifest"`
	Records  []recordIn `json:"records"`
	Ops      []probeIn  `json:"ops"`
}

func arr32(s string) (a [32]byte) {
	b, err := hex.DecodeString(s)
	if err != nil {
		panic(err)
	}
	copy(a[:], b)
	return a
}

func unhex(s string) []byte {
	b, err := hex.DecodeString(s)
	if err != nil {
		panic(err)
	}
	return b
}

func (m manifestIn) q() quorumlog.ProposalManifest {
	return quorumlog.ProposalManifest{Version: m.Version, ChannelEpoch: m.ChannelEpoch, LeaderTerm: m.LeaderTerm,
		FenceVersion: m.FenceVersion, CommandID: arr32(m.CommandID), BaseOffset: m.BaseOffset, LastOffset: m.LastOffset,
		PreviousTerm: m.PreviousTerm, PreviousIndex: m.PreviousIndex, PreviousDigest: arr32(m.PreviousDigest), Digest: arr32(m.Digest)}
}

func (r recordIn) q() quorumlog.Record {
	return quorumlog.Record{ID: r.ID, Index: r.Index, Epoch: r.Epoch, Setting: r.Setting, FromUID: string(unhex(r.FromUID)),
		ClientMsgNo: string(unhex(r.ClientMsgNo)), ServerTimestampMS: r.TS, SyncOnce: r.SyncOnce, Payload: unhex(r.Payload)}
}

// ---- Coq printers -------------------------------------------------------------------

func coqManifest(m quorumlog.ProposalManifest) string {
	return vh.App("Manifest", vh.N(uint64(m.Version)), vh.N(m.ChannelEpoch), vh.N(m.LeaderTerm), vh.N(m.FenceVersion),
		vh.Hex(m.CommandID[:]), vh.N(m.BaseOffset), vh.N(m.LastOffset), vh.N(m.PreviousTerm), vh.N(m.PreviousIndex),
		vh.Hex(m.PreviousDigest[:]), vh.Hex(m.Digest[:]))
}

func coqEntry(e quorumlog.EntryIdentity) string {
	return vh.App("Entry", vh.N(uint64(e.Version)), vh.N(e.ChannelEpoch), vh.N(e.LeaderTerm), vh.N(e.FenceVersion),
		vh.N(e.Index), vh.N(e.PreviousTerm), vh.N(e.PreviousIndex), vh.Hex(e.CommandID[:]), vh.Hex(e.PreviousDigest[:]),
		vh.Hex(e.Digest[:]))
}

func coqRecord(r quorumlog.Record) string {
	return vh.App("Rec", vh.N(r.ID), vh.N(r.Index), vh.N(r.Epoch), vh.N(uint64(r.Setting)), vh.HexS(r.FromUID),
		vh.HexS(r.ClientMsgNo), vh.Z(r.ServerTimestampMS), vh.B(r.SyncOnce), vh.Hex(r.Payload))
}

// rebuildPreimage lays out the bytes the MODEL says are hashed (same field
// order as Model/Identity.v preimage); Coq compares them with the model's own
// pre-image, Go compares their sha256 with the digest the code produced.
func rebuildPreimage(e quorumlog.EntryIdentity, r quorumlog.Record) []byte {
	var b []byte
	for _, lit := range quorumlog.VerifDomainLiterals() {
		b = append(b, lit...)
	}
	u64 := func(v uint64) { b = binary.BigEndian.AppendUint64(b, v) }
	u64(e.ChannelEpoch)
	u64(e.LeaderTerm)
	u64(e.FenceVersion)
	u64(e.Index)
	u64(e.PreviousTerm)
	u64(e.PreviousIndex)
	b = append(b, e.CommandID[:]...)
	b = append(b, e.PreviousDigest[:]...)
	u64(r.ID)
	b = append(b, r.Setting)
	if r.SyncOnce {
		b = append(b, 1)
	} else {
		b = append(b, 0)
	}
	u64(uint64(r.ServerTimestampMS))
	for _, f := range [][]byte{[]byte(r.FromUID), []byte(r.ClientMsgNo), r.Payload} {
		u64(uint64(len(f)))
		b = append(b, f...)
	}
	return b
}

// ---- generator --------------------------------------------------------------------------

var smallIDs = []string{"", "61", "6162", "75313233", "7531323334", "00", "ff", "6100", "0061"}

func rnd32(r *rand.Rand) string {
	switch r.IntN(8) {
	case 0:
		return strings.Repeat("00", 32)
	case 1:
		return "01" + strings.Repeat("00", 31)
	case 2:
		return strings.Repeat("00", 31) + "01"
	}
	return hex.EncodeToString(vh.Bytes(r, 32))
}

func nz32(r *rand.Rand) string {
	for {
		s := rnd32(r)
		if s != strings.Repeat("00", 32) {
			return s
		}
	}
}

func smallU(r *rand.Rand) uint64 {
	switch r.IntN(6) {
	case 0:
		return uint64(1 + r.IntN(3))
	case 1:
		if v := vh.U64Edge(r); v != 0 { // zero (a guard) comes from the malformed stream only
			return v
		}
		return 1
	default:
		return uint64(1 + r.IntN(1000))
	}
}

func genBytes(r *rand.Rand) string {
	switch r.IntN(14) {
	case 0, 1:
		return ""
	case 2, 3, 4, 5:
		return vh.Pick(r, smallIDs...)
	case 6, 7, 8:
		return hex.EncodeToString(vh.Bytes(r, 1+r.IntN(12)))
	case 9:
		return hex.EncodeToString(vh.Bytes(r, 40+r.IntN(100)))
	default:
		return hex.EncodeToString([]byte(fmt.Sprintf("u%d", r.IntN(50))))
	}
}

func genRecord(r *rand.Rand, epoch, index uint64) recordIn {
	rec := recordIn{ID: smallU(r), Index: index, Epoch: epoch, Setting: uint8(r.IntN(256)), FromUID: genBytes(r),
		ClientMsgNo: genBytes(r), TS: 1 + r.Int64N(1<<41), SyncOnce: r.IntN(2) == 0, Payload: genBytes(r)}
	if r.IntN(3) == 0 {
		rec.Index = 0
	}
	// a field that itself looks like "bytes, u64 length, that many bytes": only the
	// length prefix of the PRECEDING field keeps the "embed" probes from colliding
	switch r.IntN(8) {
	case 0:
		rec.ClientMsgNo = embedShape(r)
	case 1:
		rec.Payload = embedShape(r)
	}
	switch r.IntN(120) {
	case 0:
		rec.ID = 0
	case 1:
		rec.Index = index + 1
	case 2:
		rec.Epoch = epoch + 1
	case 3:
		rec.TS = vh.Pick(r, int64(0), -1, math.MinInt64)
	case 4, 5:
		rec.TS = math.MaxInt64
	}
	return rec
}

func embedShape(r *rand.Rand) string {
	a, b := vh.Bytes(r, r.IntN(4)), vh.Bytes(r, r.IntN(5))
	out := append([]byte(nil), a...)
	out = binary.BigEndian.AppendUint64(out, uint64(len(b)))
	return hex.EncodeToString(append(out, b...))
}

// splitEmbedded finds y = a ‖ be64(len(b)) ‖ b.
func splitEmbedded(y []byte) (a, b []byte, ok bool) {
	for k := 0; k+8 <= len(y); k++ {
		if binary.BigEndian.Uint64(y[k:k+8]) == uint64(len(y)-k-8) {
			return y[:k], y[k+8:], true
		}
	}
	return nil, nil, false
}

var entryFields = []string{"e.version", "e.epoch", "e.term", "e.fence", "e.index", "e.prev_term", "e.prev_index",
	"e.cmd", "e.prev_digest", "e.digest"}
var recordFields = []string{"r.id", "r.index", "r.epoch", "r.setting", "r.uid", "r.clientno", "r.ts", "r.sync", "r.payload"}

func genProbe(r *rand.Rand, nrec int) probeIn {
	p := probeIn{Idx: r.IntN(nrec + 1)}
	if p.Idx == nrec && r.IntN(3) != 0 {
		p.Idx = r.IntN(nrec)
	}
	switch x := r.IntN(20); {
	case x == 0:
		p.Field = "none"
	case x == 1:
		p.Field, p.Mode = "boundary", vh.Pick(r, "uid>clientno", "clientno>payload", "clientno<payload", "uid<clientno")
	case x == 2:
		p.Field, p.U = "other", uint64(r.IntN(nrec+1))
	case x == 3:
		p.Field, p.Mode = "embed", vh.Pick(r, "uid", "clientno")
	case x < 9:
		p.Field = vh.Pick(r, entryFields...)
	default:
		p.Field = vh.Pick(r, recordFields...)
	}
	switch p.Field {
	case "e.cmd", "e.prev_digest", "e.digest":
		switch r.IntN(4) {
		case 0:
			p.Mode, p.Hex = "set", strings.Repeat("00", 32)
		case 1:
			p.Mode, p.Hex = "set", rnd32(r)
		default:
			p.Mode, p.U = "flip", uint64(r.IntN(256))
		}
	case "r.uid", "r.clientno", "r.payload":
		switch r.IntN(5) {
		case 0:
			p.Mode, p.Hex = "set", genBytes(r)
		case 1:
			p.Mode, p.Hex = "append", vh.Pick(r, "00", "61", "ff", "0000000000000001")
		case 2:
			p.Mode, p.U = "trunc", uint64(1+r.IntN(3))
		default:
			p.Mode, p.U = "flip", uint64(r.IntN(64))
		}
	case "r.sync":
		p.Mode = "flip"
	case "none", "boundary", "other", "embed":
	default:
		switch r.IntN(6) {
		case 0:
			p.Mode, p.U = "set", 0
		case 1:
			p.Mode, p.U = "set", vh.U64Edge(r)
		case 2:
			p.Mode, p.U = "add", math.MaxUint64 // -1
		case 3:
			p.Mode, p.U = "flip", uint64(r.IntN(64))
		default:
			p.Mode, p.U = "add", 1
		}
	}
	// a perturbed identity re-sealed over the perturbed content must verify again
	// (unless a guard stops it): exercises the guards with a matching digest
	p.Rehash = r.IntN(4) == 0
	return p
}

func gen(r *rand.Rand, tier string, i int) input {
	n := 1 + r.IntN(3)
	if r.IntN(12) == 0 {
		n = 4 + r.IntN(3)
	}
	m := manifestIn{Version: quorumlog.ProposalManifestVersion, ChannelEpoch: smallU(r), LeaderTerm: smallU(r),
		FenceVersion: smallU(r), CommandID: nz32(r), PreviousDigest: strings.Repeat("00", 32), Digest: rnd32(r)}
	switch r.IntN(5) {
	case 0, 1: // genesis
	case 2:
		m.BaseOffset = math.MaxUint64 - uint64(n) - uint64(r.IntN(3))
		if r.IntN(8) == 0 {
			m.BaseOffset = math.MaxUint64 - uint64(n) + 1 // one too far: uint64 overflow guard
		}
	default:
		m.BaseOffset = smallU(r)
	}
	if m.BaseOffset != 0 {
		m.PreviousTerm, m.PreviousDigest = smallU(r), nz32(r)
	}
	m.PreviousIndex = m.BaseOffset
	m.LastOffset = m.BaseOffset + uint64(n)
	// malformed stream
	switch r.IntN(60) {
	case 0:
		m.Version = vh.Pick(r, uint16(0), 2, 65535)
	case 1:
		m.ChannelEpoch = 0
	case 2:
		m.LeaderTerm = 0
	case 3:
		m.FenceVersion = 0
	case 4:
		m.CommandID = strings.Repeat("00", 32)
	case 5:
		m.LastOffset += vh.Pick(r, uint64(1), math.MaxUint64)
	case 6:
		m.PreviousIndex++
	case 7:
		m.PreviousTerm = vh.Pick(r, uint64(0), 7)
		if r.IntN(2) == 0 {
			m.PreviousDigest = rnd32(r)
		}
	case 8:
		n = 0
	}
	in := input{Manifest: m}
	for k := 0; k < n; k++ {
		in.Records = append(in.Records, genRecord(r, m.ChannelEpoch, m.BaseOffset+uint64(k)+1))
	}
	// duplicate content in two positions now and then: identical records at
	// different indexes must still get different digests
	if n >= 2 && r.IntN(6) == 0 {
		in.Records[1] = in.Records[0]
		if in.Records[1].Index != 0 {
			in.Records[1].Index++
		}
	}
	np := 2 + r.IntN(4)
	for k := 0; k < np; k++ {
		in.Ops = append(in.Ops, genProbe(r, max(n, 1)))
	}
	return in
}

// ---- probes --------------------------------------------------------------------------------

func flipBytes(b []byte, bit uint64) []byte {
	out := append([]byte(nil), b...)
	if len(out) == 0 {
		return []byte{1}
	}
	bit %= uint64(len(out) * 8)
	out[bit/8] ^= 1 << (bit % 8)
	return out
}

func pertU64(v uint64, p probeIn) uint64 {
	switch p.Mode {
	case "set":
		return p.U
	case "flip":
		return v ^ (1 << (p.U % 64))
	default:
		return v + p.U
	}
}

func pertBytes(b []byte, p probeIn) []byte {
	switch p.Mode {
	case "set":
		return unhex(p.Hex)
	case "append":
		return append(append([]byte(nil), b...), unhex(p.Hex)...)
	case "trunc":
		n := int(p.U)
		if n > len(b) {
			n = len(b)
		}
		return append([]byte(nil), b[:len(b)-n]...)
	default:
		return flipBytes(b, p.U)
	}
}

func pert32(a [32]byte, p probeIn) [32]byte {
	if p.Mode == "set" {
		return arr32(p.Hex)
	}
	var out [32]byte
	copy(out[:], flipBytes(a[:], p.U))
	return out
}

func applyProbe(p probeIn, e quorumlog.EntryIdentity, r quorumlog.Record, recs []quorumlog.Record) (quorumlog.EntryIdentity, quorumlog.Record) {
	r.Payload = append([]byte(nil), r.Payload...)
	switch p.Field {
	case "none":
	case "other":
		if len(recs) > 0 {
			r = recs[int(p.U)%len(recs)]
		}
	case "boundary":
		uid, cno, pl := []byte(r.FromUID), []byte(r.ClientMsgNo), r.Payload
		switch p.Mode {
		case "uid>clientno":
			if len(uid) > 0 {
				cno = append([]byte{uid[len(uid)-1]}, cno...)
				uid = uid[:len(uid)-1]
			}
		case "uid<clientno":
			if len(cno) > 0 {
				uid = append(append([]byte(nil), uid...), cno[0])
				cno = cno[1:]
			}
		case "clientno>payload":
			if len(cno) > 0 {
				pl = append([]byte{cno[len(cno)-1]}, pl...)
				cno = cno[:len(cno)-1]
			}
		default:
			if len(pl) > 0 {
				cno = append(append([]byte(nil), cno...), pl[0])
				pl = pl[1:]
			}
		}
		r.FromUID, r.ClientMsgNo, r.Payload = string(uid), string(cno), pl
	case "embed":
		// x ‖ L(y) ‖ y with y = a ‖ be64(len b) ‖ b  becomes  x' = x ‖ be64(len y) ‖ a, y' = b:
		// the same bytes after x's own length prefix
		uid, cno, pl := []byte(r.FromUID), []byte(r.ClientMsgNo), r.Payload
		if p.Mode == "uid" {
			if a, b, ok := splitEmbedded(cno); ok {
				uid = append(binary.BigEndian.AppendUint64(append([]byte(nil), uid...), uint64(len(cno))), a...)
				cno = b
			}
		} else if a, b, ok := splitEmbedded(pl); ok {
			cno = append(binary.BigEndian.AppendUint64(append([]byte(nil), cno...), uint64(len(pl))), a...)
			pl = b
		}
		r.FromUID, r.ClientMsgNo, r.Payload = string(uid), string(cno), pl
	case "e.version":
		e.Version = uint16(pertU64(uint64(e.Version), p))
	case "e.epoch":
		e.ChannelEpoch = pertU64(e.ChannelEpoch, p)
	case "e.term":
		e.LeaderTerm = pertU64(e.LeaderTerm, p)
	case "e.fence":
		e.FenceVersion = pertU64(e.FenceVersion, p)
	case "e.index":
		e.Index = pertU64(e.Index, p)
	case "e.prev_term":
		e.PreviousTerm = pertU64(e.PreviousTerm, p)
	case "e.prev_index":
		e.PreviousIndex = pertU64(e.PreviousIndex, p)
	case "e.cmd":
		e.CommandID = pert32(e.CommandID, p)
	case "e.prev_digest":
		e.PreviousDigest = pert32(e.PreviousDigest, p)
	case "e.digest":
		e.Digest = pert32(e.Digest, p)
	case "r.id":
		r.ID = pertU64(r.ID, p)
	case "r.index":
		r.Index = pertU64(r.Index, p)
	case "r.epoch":
		r.Epoch = pertU64(r.Epoch, p)
	case "r.setting":
		r.Setting = uint8(pertU64(uint64(r.Setting), p))
	case "r.ts":
		r.ServerTimestampMS = int64(pertU64(uint64(r.ServerTimestampMS), p))
	case "r.sync":
		r.SyncOnce = !r.SyncOnce
	case "r.uid":
		r.FromUID = string(pertBytes([]byte(r.FromUID), p))
	case "r.clientno":
		r.ClientMsgNo = string(pertBytes([]byte(r.ClientMsgNo), p))
	case "r.payload":
		r.Payload = pertBytes(r.Payload, p)
	default:
		panic("unknown probe field " + p.Field)
	}
	if p.Rehash {
		e.Digest = quorumlog.VerifDigestProposalEntry(e, r)
	}
	return e, r
}

// ---- runner -------------------------------------------------------------------------------------

func toChannel(rs []quorumlog.Record) []channel.Record {
	out := make([]channel.Record, len(rs))
	for i, r := range rs {
		out[i] = channel.Record{ID: r.ID, Index: r.Index, Epoch: r.Epoch, Setting: r.Setting, FromUID: r.FromUID,
			ClientMsgNo: r.ClientMsgNo, ServerTimestampMS: r.ServerTimestampMS, SyncOnce: r.SyncOnce, Payload: r.Payload,
			SizeBytes: 17 + i}
	}
	return out
}

func run(in input) vh.Result {
	m := in.Manifest.q()
	recs := make([]quorumlog.Record, len(in.Records))
	coqRecs := make([]string, len(recs))
	for i, r := range in.Records {
		recs[i] = r.q()
		coqRecs[i] = coqRecord(recs[i])
	}
	sealed, entries, ok := quorumlog.SealProposalManifest(m, recs)

	// the pkg/channel wrappers and a direct Derive on the sealed manifest agree
	cs, ce, cok := channel.SealProposalManifest(m, toChannel(recs))
	same := cok == ok && reflect.DeepEqual(cs, sealed) && reflect.DeepEqual(ce, entries)
	if ok {
		de, dok := quorumlog.DeriveProposalEntries(sealed, len(recs), func(i int) quorumlog.Record { return recs[i] })
		cde, cdok := channel.DeriveProposalEntries(sealed, len(recs), func(i int) channel.Record { return toChannel(recs)[i] })
		same = same && dok && cdok && reflect.DeepEqual(de, entries) && reflect.DeepEqual(cde, entries)
	} else {
		same = same && sealed == (quorumlog.ProposalManifest{}) && entries == nil
	}

	seal := vh.None()
	var self []string
	structValid, validFor := false, false
	if ok {
		seal = vh.Some(vh.Pair(coqManifest(sealed), vh.ListOf(entries, coqEntry)))
		structValid = sealed.StructurallyValid()
		validFor = sealed.ValidFor(m.BaseOffset, len(recs))
		for i := range entries {
			self = append(self, vh.B(quorumlog.VerifyEntry(entries[i], recs[i])))
		}
	}

	classes := map[string]bool{}
	var probes []string
	obsProbes := []map[string]any{}
	for _, p := range in.Ops {
		var e quorumlog.EntryIdentity
		var r quorumlog.Record
		switch {
		case ok && p.Idx < len(entries):
			e, r = entries[p.Idx], recs[p.Idx]
		case ok:
			// an identity one past the proposal, for the first record
			e, r = entries[len(entries)-1], recs[0]
			e.PreviousTerm, e.PreviousIndex, e.PreviousDigest = e.LeaderTerm, e.Index, e.Digest
			e.Index++
		default:
			// nothing sealed: the identity the manifest would give its first entry
			e = quorumlog.EntryIdentity{Version: m.Version, ChannelEpoch: m.ChannelEpoch, LeaderTerm: m.LeaderTerm,
				FenceVersion: m.FenceVersion, Index: m.BaseOffset + 1, PreviousTerm: m.PreviousTerm,
				PreviousIndex: m.PreviousIndex, CommandID: m.CommandID, PreviousDigest: m.PreviousDigest, Digest: m.Digest}
			if len(recs) > 0 {
				r = recs[p.Idx%len(recs)]
			}
		}
		e, r = applyProbe(p, e, r, recs)
		v := quorumlog.VerifyEntry(e, r)
		d := quorumlog.VerifDigestProposalEntry(e, r)
		pre := rebuildPreimage(e, r)
		preOK := sha256.Sum256(pre) == d
		coqPre := vh.None()
		if len(probes) == 0 {
			coqPre = vh.Some(vh.Hex(pre))
		}
		probes = append(probes, vh.App("Probe", coqEntry(e), coqRecord(r), vh.B(v), vh.Hex(d[:]), coqPre, vh.B(preOK)))
		obsProbes = append(obsProbes, map[string]any{"field": p.Field, "verify": v, "digest": hex.EncodeToString(d[:]), "pre_ok": preOK})
		cl := p.Field
		if p.Rehash {
			cl += "+rehash"
		}
		if v {
			cl += "=accept"
		}
		classes[cl] = true
	}

	class := "sealed"
	if !ok {
		class = "rejected"
	}
	acc := 0
	for c := range classes {
		if strings.HasSuffix(c, "=accept") {
			acc++
		}
	}
	class = fmt.Sprintf("%s,n=%d,accepted_probes=%d", class, len(recs), min(acc, 3))
	return vh.Result{
		Coq: internHex(vh.App("C05Case", coqManifest(m), vh.List(coqRecs), seal, vh.B(same), vh.B(structValid), vh.B(validFor),
			vh.List(self), vh.List(probes))),
		Obs: map[string]any{"sealed": ok, "manifest_digest": hex.EncodeToString(sealed.Digest[:]), "same": same,
			"self_verify": self, "probes": obsProbes},
		Class:   class,
		Trivial: len(in.Ops) == 0 && !ok,
	}
}

var hexTok = regexp.MustCompile(`\(hx "[0-9a-f]{16,}"\)`)

// internHex binds every byte string that occurs more than once in the case term
// to a let variable (Coq spends most of its time parsing string literals).
func internHex(term string) string {
	count := map[string]int{}
	var order []string
	for _, t := range hexTok.FindAllString(term, -1) {
		if count[t] == 0 {
			order = append(order, t)
		}
		count[t]++
	}
	var lets strings.Builder
	k := 0
	for _, t := range order {
		if count[t] < 2 {
			continue
		}
		name := fmt.Sprintf("b%d", k)
		k++
		term = strings.ReplaceAll(term, t, name)
		fmt.Fprintf(&lets, "let %s := %s in ", name, t)
	}
	if k == 0 {
		return term
	}
	return "(" + lets.String() + term + ")"
}

func emitConsts(w io.Writer) {
	fmt.Fprintln(w, "(* GENERATED by harness/cmd/C05 -emit-consts from the compiled /repo tree. Do not edit. *)")
	fmt.Fprintln(w, "From Coq Require Import List NArith. Import ListNotations. Open Scope N_scope.")
	fmt.Fprintln(w, "(* pkg/quorumlog.ProposalManifestVersion *)")
	fmt.Fprintf(w, "Definition ProposalManifestVersion : N := %d.\n", quorumlog.ProposalManifestVersion)
	fmt.Fprintln(w, "(* the string literals digestProposalEntry writes to the hash before the fields,")
	fmt.Fprintln(w, "   read back from pkg/quorumlog/proposal.go as compiled into the harness *)")
	var dom []byte
	for _, lit := range quorumlog.VerifDomainLiterals() {
		dom = append(dom, lit...)
	}
	fmt.Fprintf(w, "(* hex %s *)\n", hex.EncodeToString(dom))
	fmt.Fprint(w, "Definition entry_domain : list N := [")
	for i, b := range dom {
		if i > 0 {
			fmt.Fprint(w, "; ")
		}
		fmt.Fprintf(w, "%d", b)
	}
	fmt.Fprintln(w, "].")
	fmt.Fprintf(w, "Definition sha256_size : N := %d.\n", sha256.Size)
}

func main() {
	vh.Main(vh.Harness[input]{EmitConsts: emitConsts, Gen: gen, Run: run})
}
