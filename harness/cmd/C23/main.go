// Harness for C23: client stream decoding is robust to arbitrary bytes and splits.
//
// One case = (session version, inbound limit, claimed frames, chunks).  Observed:
//   - EncodeFrame of every claimed frame (the stream of a "valid" case is their concatenation);
//   - wkproto.Adapter.Decode on the whole stream (frames, consumed, error), and whether SEND
//     payloads survive overwriting the input buffer afterwards (payload detach);
//   - the real gateway core.Server fed chunk by chunk through the fake transport, with a
//     recording wrapper around the real adapter: per chunk the batches of frames the server
//     obtained, and the server's buffered inbound bytes / closed flag afterwards.
package main

import (
	"bytes"
	"encoding/hex"
	"fmt"
	"math/rand/v2"
	"sync"

	"github.com/WuKongIM/WuKongIM/internal/verifh/vh"
	"github.com/WuKongIM/WuKongIM/internal/verifh/wkp"
	"github.com/WuKongIM/WuKongIM/pkg/gateway/core"
	adapterpkg "github.com/WuKongIM/WuKongIM/pkg/gateway/protocol/wkproto"
	"github.com/WuKongIM/WuKongIM/pkg/gateway/session"
	"github.com/WuKongIM/WuKongIM/pkg/gateway/testkit"
	gatewaytypes "github.com/WuKongIM/WuKongIM/pkg/gateway/types"
	"github.com/WuKongIM/WuKongIM/pkg/protocol/codec"
	"github.com/WuKongIM/WuKongIM/pkg/protocol/frame"
)

const smallLimit = 48

type input struct {
	SV     int           `json:"sv"`    // -1: the session carries no protocol version
	Limit  int           `json:"limit"` // 0: default MaxInboundBytes; otherwise the small-limit server
	Frames []wkp.FrameIn `json:"frames"`
	Ops    []string      `json:"ops"` // chunks, hex
	Kind   string        `json:"kind,omitempty"`
}

func effVersion(sv int) uint8 {
	if sv <= 0 {
		return frame.LatestVersion
	}
	return uint8(sv)
}

// ---- generator -------------------------------------------------------------------

func encodeOK(f wkp.FrameIn, v uint8) (b []byte, ok bool) {
	defer func() {
		if r := recover(); r != nil {
			b, ok = nil, false
		}
	}()
	out, err := codec.New().EncodeFrame(wkp.Build(f), v)
	return out, err == nil
}

func genSV(r *rand.Rand) int {
	switch r.IntN(10) {
	case 0:
		return -1
	case 1:
		return 0
	case 2:
		return int(r.UintN(256))
	default:
		return 1 + r.IntN(int(frame.LatestVersion)+1)
	}
}

func split(r *rand.Rand, stream []byte, bounds []int) [][]byte {
	n := len(stream)
	var cuts []int
	switch r.IntN(7) {
	case 0: // one chunk
	case 1: // byte at a time
		if n <= 40 {
			for i := 1; i < n; i++ {
				cuts = append(cuts, i)
			}
		} else {
			cuts = append(cuts, 1, 2, 3)
		}
	case 2: // at frame boundaries
		cuts = append(cuts, bounds...)
	case 3: // just after a header byte / inside the length / one before a boundary
		for _, b := range bounds {
			cuts = append(cuts, b+vh.Pick(r, 1, 2, -1))
		}
		cuts = append(cuts, 1)
	default:
		k := 1 + r.IntN(6)
		for i := 0; i < k && n > 0; i++ {
			cuts = append(cuts, r.IntN(n+1))
		}
	}
	mark := make([]bool, n+1)
	for _, c := range cuts {
		if c > 0 && c < n {
			mark[c] = true
		}
	}
	var out [][]byte
	start := 0
	for i := 1; i < n; i++ {
		if mark[i] {
			out = append(out, stream[start:i])
			start = i
		}
	}
	out = append(out, stream[start:])
	if r.IntN(8) == 0 { // an empty read in between
		i := r.IntN(len(out) + 1)
		out = append(out[:i], append([][]byte{{}}, out[i:]...)...)
	}
	return out
}

func crafted(r *rand.Rand) []byte {
	hdr := func() byte { return byte(vh.Pick(r, 0, 1, 2, 3, 3, 4, 5, 6, 7, 8, 9, 10, 11, 12, 13, 14, 15))<<4 | byte(r.UintN(16)) }
	var b []byte
	switch r.IntN(8) {
	case 0: // four continuation bytes: decodeLength reports a five-byte length without reading a fifth
		b = append(b, hdr(), 0x80, 0x80, 0x80, 0x80)
		b = append(b, vh.Bytes(r, r.IntN(12))...)
	case 1: // oversize remaining length
		b = append(b, hdr(), 0xff, 0xff, 0xff, 0x7f)
		b = append(b, vh.Bytes(r, r.IntN(6))...)
	case 2: // just above / at MaxRemaingLength (1 MiB): 0x80 0x80 0x40 = 1048576, 0x81 0x80 0x40 = 1048577
		b = append(b, hdr(), vh.Pick(r, byte(0x80), 0x81), 0x80, 0x40)
		b = append(b, vh.Bytes(r, r.IntN(6))...)
	case 3: // truncated varint
		b = append(b, hdr())
		for i := r.IntN(4); i > 0; i-- {
			b = append(b, 0x80|byte(r.UintN(128)))
		}
	case 4: // small length, random body of exactly / almost that size
		n := r.IntN(40)
		b = append(b, hdr(), byte(n))
		b = append(b, vh.Bytes(r, max(0, n+vh.Pick(r, 0, 0, 0, -1, 1, 5)))...)
	case 5: // zero length body
		b = append(b, hdr(), 0)
		b = append(b, vh.Bytes(r, r.IntN(4))...)
	case 6: // non-minimal varint: 0x85 0x00 = 5
		n := r.IntN(20)
		b = append(b, hdr(), 0x80|byte(n), 0x00)
		b = append(b, vh.Bytes(r, n+r.IntN(3))...)
	default:
		b = vh.Bytes(r, 1+r.IntN(40))
	}
	return b
}

func gen(r *rand.Rand, tier string, i int) input {
	in := input{SV: genSV(r)}
	v := effVersion(in.SV)
	// a valid stream of 1..6 small frames
	var stream []byte
	var bounds []int
	nf := 1 + r.IntN(6)
	if r.IntN(10) == 0 {
		nf = 0
	}
	for k := 0; k < nf; k++ {
		for try := 0; try < 8; try++ {
			t := wkp.GenType(r)
			if r.IntN(2) == 0 { // what clients send
				t = vh.Pick(r, uint8(1), 3, 3, 3, 6, 7, 9, 10)
			}
			f := wkp.GenFrame(r, t, v, wkp.GenOpts{Big: r.IntN(40) == 0, Short: r.IntN(4) != 0})
			if b, ok := encodeOK(f, v); ok && len(b) < 1500 {
				in.Frames = append(in.Frames, f)
				stream = append(stream, b...)
				bounds = append(bounds, len(stream))
				break
			}
		}
	}
	kind := r.IntN(100)
	switch {
	case kind < 50:
		in.Kind = "valid"
	case kind < 60:
		in.Kind = "valid-smalllimit"
		in.Limit = smallLimit
	case kind < 80 && len(stream) > 0: // mutate
		in.Kind = "mutated"
		in.Frames = nil
		for m := 1 + r.IntN(2); m > 0 && len(stream) > 0; m-- {
			p := r.IntN(len(stream))
			switch r.IntN(5) {
			case 0:
				stream[p] ^= 1 << uint(r.IntN(8))
			case 1:
				stream = append(stream[:p], stream[p+1:]...)
			case 2:
				stream = append(stream[:p], append([]byte{byte(r.UintN(256))}, stream[p:]...)...)
			case 3:
				stream = stream[:p]
			case 4:
				stream[p] = vh.Pick(r, byte(0), 0x80, 0xff, 0x7f)
			}
		}
	case kind < 90:
		in.Kind = "crafted"
		in.Frames = nil
		// a valid prefix followed by crafted bytes, or crafted bytes alone
		if r.IntN(2) == 0 {
			stream, bounds = nil, nil
		}
		stream = append(stream, crafted(r)...)
	default:
		in.Kind = "valid-truncated"
		in.Frames = nil
		if len(stream) > 0 {
			stream = stream[:r.IntN(len(stream))]
		}
	}
	if r.IntN(30) == 0 {
		in.Limit = smallLimit
	}
	for _, c := range split(r, stream, bounds) {
		in.Ops = append(in.Ops, hex.EncodeToString(c))
	}
	return in
}

// ---- recording adapter -------------------------------------------------------------

type nopHandler struct{}

func (nopHandler) OnListenerError(string, error)                        {}
func (nopHandler) OnSessionOpen(gatewaytypes.Context) error             { return nil }
func (nopHandler) OnFrame(gatewaytypes.Context, frame.Frame) error      { return nil }
func (nopHandler) OnSessionClose(gatewaytypes.Context) error            { return nil }
func (nopHandler) OnSessionError(gatewaytypes.Context, error)           {}

type recAdapter struct {
	real *adapterpkg.Adapter
	mu   sync.Mutex
	sess session.Session
	it   *wkp.Interner
	// batches rendered at Decode time (payloads of non-SEND frames alias the buffer)
	batches []string
}

func (a *recAdapter) Name() string              { return "wkproto" }
func (a *recAdapter) OwnsDecodedFrames() bool   { return a.real.OwnsDecodedFrames() }
func (a *recAdapter) OnOpen(session.Session) error  { return nil }
func (a *recAdapter) OnClose(session.Session) error { return nil }
func (a *recAdapter) Encode(s session.Session, f frame.Frame, m session.OutboundMeta) ([]byte, error) {
	return a.real.Encode(s, f, m)
}
func (a *recAdapter) Decode(_ session.Session, in []byte) ([]frame.Frame, int, error) {
	a.mu.Lock()
	sess := a.sess
	a.mu.Unlock()
	frames, n, err := a.real.Decode(sess, in)
	if err == nil && n > 0 {
		a.mu.Lock()
		a.batches = append(a.batches, framesCoq(a.it, frames))
		a.mu.Unlock()
	}
	return frames, n, err
}

func framesCoq(it *wkp.Interner, frames []frame.Frame) string {
	return vh.ListOf(frames, func(f frame.Frame) string {
		fi, m := wkp.FromFrame(f)
		return vh.Pair(it.Ref(fi.Coq()), m.Coq())
	})
}

type gw struct {
	srv     *core.Server
	factory *testkit.FakeTransportFactory
	rec     *recAdapter
	nextID  uint64
	limit   int
}

var servers = map[int]*gw{}

func server(limit int) *gw {
	if g, ok := servers[limit]; ok {
		return g
	}
	rec := &recAdapter{real: adapterpkg.New()}
	factory := testkit.NewFakeTransportFactory("fake")
	registry := core.NewRegistry()
	if err := registry.RegisterTransport(factory); err != nil {
		panic(err)
	}
	if err := registry.RegisterProtocol(rec); err != nil {
		panic(err)
	}
	opts := gatewaytypes.Options{
		Handler:        nopHandler{},
		DefaultSession: gatewaytypes.SessionOptions{MaxInboundBytes: limit},
		Listeners: []gatewaytypes.ListenerOptions{{Name: "l", Network: "tcp", Address: "127.0.0.1:1",
			Transport: "fake", Protocol: "wkproto"}},
	}
	srv, err := core.NewServer(registry, &opts)
	if err != nil {
		panic(err)
	}
	if err := srv.Start(); err != nil {
		panic(err)
	}
	g := &gw{srv: srv, factory: factory, rec: rec, limit: limit}
	servers[limit] = g
	return g
}

func newSess(sv int) session.Session {
	s := testkit.NewProtocolSession()
	if sv >= 0 {
		s.SetValue(gatewaytypes.SessionValueProtocolVersion, uint8(sv))
	}
	return s
}

// ---- run -----------------------------------------------------------------------------

func wholeDecode(it *wkp.Interner, sv int, whole []byte) (term string, class string, detach bool, alias []string) {
	defer func() {
		if r := recover(); r != nil {
			term, class, detach = "APanic", "panic", true
		}
	}()
	buf := append([]byte(nil), whole...)
	frames, n, err := adapterpkg.New().Decode(newSess(sv), buf)
	if err != nil {
		return "AErr", "err", true, nil
	}
	term = vh.App("AOk", framesCoq(it, frames), vh.N(uint64(n)))
	// overwrite the buffer the frames were decoded from: SEND payloads must have been detached
	before := make([]string, len(frames))
	for i, f := range frames {
		fi, _ := wkp.FromFrame(f)
		before[i] = fi.Coq()
	}
	for i := range buf {
		buf[i] ^= 0xff
	}
	detach = true
	for i, f := range frames {
		fi, _ := wkp.FromFrame(f)
		if fi.Coq() != before[i] {
			if fi.T == 3 {
				detach = false
			} else {
				alias = append(alias, fmt.Sprintf("frame %d type %d aliases the input buffer", i, fi.T))
			}
		}
	}
	class = "ok"
	if len(frames) == 0 {
		class = "need"
	}
	return term, class, detach, alias
}

func run(in input) vh.Result {
	v := effVersion(in.SV)
	chunks := make([][]byte, len(in.Ops))
	var whole []byte
	for i, h := range in.Ops {
		b, err := hex.DecodeString(h)
		if err != nil {
			panic(err)
		}
		chunks[i] = b
		whole = append(whole, b...)
	}
	it := &wkp.Interner{}
	// the implementation's own encoding of the claimed frames; printed as a slice of the
	// stream when it literally is one (same bytes, shorter term)
	off := 0
	encs := vh.ListOf(in.Frames, func(f wkp.FrameIn) string {
		b, ok := encodeOK(f, v)
		if !ok {
			return "(EncLit EncErr)"
		}
		if off >= 0 && off+len(b) <= len(whole) && bytes.Equal(b, whole[off:off+len(b)]) {
			t := vh.App("EncAt", vh.N(uint64(off)), vh.N(uint64(len(b))))
			off += len(b)
			return t
		}
		off = -1
		return vh.App("EncLit", vh.App("EncOk", wkp.CoqBytes(b)))
	})

	wholeTerm, wclass, detach, alias := wholeDecode(it, in.SV, whole)

	// the real gateway server, chunk by chunk
	limit := in.Limit
	if limit == 0 {
		limit = 1 << 20
	}
	g := server(in.Limit)
	g.nextID++
	id := g.nextID
	g.rec.mu.Lock()
	g.rec.sess = newSess(in.SV)
	g.rec.it = it
	g.rec.batches = nil
	g.rec.mu.Unlock()
	g.factory.MustOpen("l", id)
	h := g.srv.VerifState("l", id)
	if h == nil {
		panic("gateway did not register the session")
	}
	steps := make([]string, 0, len(chunks))
	closedAtEnd := false
	var received []byte
	for _, c := range chunks {
		data := append([]byte(nil), c...)
		g.factory.MustData("l", id, data)
		for i := range data { // the transport reuses its read buffer
			data[i] ^= 0xff
		}
		g.rec.mu.Lock()
		batches := g.rec.batches
		g.rec.batches = nil
		g.rec.mu.Unlock()
		inbound, closed := h.Snapshot()
		if closed {
			inbound = nil
		}
		closedAtEnd = closed
		received = append(received, c...)
		inbTerm := vh.App("InBytes", wkp.CoqBytes(inbound))
		if len(inbound) <= len(received) && bytes.Equal(inbound, received[len(received)-len(inbound):]) {
			inbTerm = vh.App("InSuffix", vh.N(uint64(len(inbound)))) // same bytes, shorter term
		}
		steps = append(steps, vh.App("StepR", vh.List(batches), inbTerm, vh.B(closed)))
	}
	if l := g.factory.Listener("l"); l != nil {
		l.EmitClose(id, nil)
	}

	svTerm := vh.None()
	if in.SV >= 0 {
		svTerm = vh.Some(vh.N(uint64(in.SV)))
	}
	cls := fmt.Sprintf("%s/whole-%s", in.Kind, wclass)
	if closedAtEnd {
		cls += "/closed"
	}
	if in.Limit != 0 {
		cls += "/lim"
	}
	return vh.Result{
		Coq: it.Wrap(vh.App("C23Case", svTerm, vh.N(uint64(limit)),
			vh.ListOf(in.Frames, func(f wkp.FrameIn) string { return it.Ref(f.Coq()) }), encs,
			vh.ListOf(chunks, wkp.CoqBytes), wholeTerm, vh.List(steps), vh.B(detach))),
		Obs:     map[string]any{"whole": wholeTerm, "steps": steps, "detach": detach, "alias": alias},
		Class:   cls,
		Trivial: len(whole) == 0,
	}
}

func main() {
	vh.Main(vh.Harness[input]{EmitConsts: wkp.EmitConsts, Gen: gen, Run: run})
}
