package main

import (
	"context"
	"errors"
	"fmt"
	"sync"
	"sync/atomic"
	"time"

	"github.com/WuKongIM/WuKongIM/internal/runtime/channelappend"
	"github.com/WuKongIM/WuKongIM/internal/verifh/vh"
)

// slow fake Appender: latency and failure are encoded in the first message's payload
type fakeAppender struct {
	mu  sync.Mutex
	seq map[string]uint64
}

func (a *fakeAppender) AppendBatch(ctx context.Context, req channelappend.AppendBatchRequest) (channelappend.AppendBatchResult, error) {
	lat, fail := 0, 0
	for _, m := range req.Messages {
		if len(m.Payload) >= 5 {
			l := int(m.Payload[0])<<8 | int(m.Payload[1])
			if l > lat {
				lat = l
			}
			if m.Payload[4] != 0 {
				fail = 1
			}
		}
	}
	// cooperative: a cancelled runtime context aborts the append
	end := time.Now().Add(time.Duration(lat) * time.Microsecond)
	for time.Now().Before(end) {
		if err := ctx.Err(); err != nil {
			return channelappend.AppendBatchResult{}, err
		}
		spin(20)
	}
	if err := ctx.Err(); err != nil {
		return channelappend.AppendBatchResult{}, err
	}
	if fail != 0 {
		return channelappend.AppendBatchResult{}, errors.New("c41: append failed")
	}
	key := fmt.Sprintf("%d:%s", req.ChannelID.Type, req.ChannelID.ID)
	a.mu.Lock()
	defer a.mu.Unlock()
	out := channelappend.AppendBatchResult{}
	for _, m := range req.Messages {
		a.seq[key]++
		m.MessageSeq = a.seq[key]
		out.Items = append(out.Items, channelappend.AppendBatchItemResult{MessageID: m.MessageID, MessageSeq: m.MessageSeq, Message: m})
	}
	return out, nil
}

type seqIDs struct{ n atomic.Uint64 }

func (s *seqIDs) Next() uint64 { return s.n.Add(1) }

// slow post-commit effect
type fakePersistAfter struct {
	calls     atomic.Int64
	cancelled atomic.Int64
}

func (p *fakePersistAfter) EnqueuePersistAfter(ctx context.Context, ev channelappend.CommittedEnvelope) {
	p.calls.Add(1)
	lat := 0
	if len(ev.Payload) >= 5 {
		lat = int(ev.Payload[2])<<8 | int(ev.Payload[3])
	}
	spin(lat)
	if ctx != nil && ctx.Err() != nil {
		p.cancelled.Add(1)
	}
}

// parkCtx is a caller context whose first Done() call parks: it pins a SubmitLocal
// caller at the caller-context check (the point where a goroutine could be preempted)
// until a stop call has returned or the park budget is used up. afterPark is called on
// the submitter's goroutine when the park ends, i.e. before any admission step.
type parkCtx struct {
	context.Context
	once      sync.Once
	wait      func()
	afterPark func()
}

func (c *parkCtx) Done() <-chan struct{} {
	c.once.Do(func() {
		c.wait()
		c.afterPark()
	})
	return c.Context.Done()
}

func classifyResults(results []channelappend.SendBatchItemResult) int {
	res := resOK
	for _, r := range results {
		if r.Err != nil {
			if errors.Is(r.Err, context.Canceled) {
				return resCancel
			}
			res = resErr
		}
	}
	return res
}

func runAppend(in input) vh.Result {
	if in.Threads <= 0 {
		in.Threads = 1
	}
	if in.Stoppers <= 0 {
		in.Stoppers = 1
	}
	if in.Channels <= 0 {
		in.Channels = 1
	}
	rec := newC41rec()
	app := &fakeAppender{seq: map[string]uint64{}}
	pa := &fakePersistAfter{}
	g := channelappend.New(channelappend.Options{
		LocalNodeID:               1,
		Appender:                  app,
		MessageID:                 &seqIDs{},
		AuthorityShardCount:       in.Shards,
		AdvancePoolSize:           in.Pool,
		EffectPoolSize:            in.Pool,
		AdmissionCapacityPerShard: in.Admission,
		PersistAfterEnqueuer:      pa,
	})
	if err := g.Start(context.Background()); err != nil {
		panic(err)
	}

	type taskInfo struct {
		future *channelappend.Future
	}
	var tmu sync.Mutex
	tasks := map[int]*taskInfo{}
	var nextTask atomic.Int64
	var pending atomic.Int64 // submit calls that may already own admission
	var waiters sync.WaitGroup
	var stopGen atomic.Int64          // number of stop calls that have returned
	giveUp := make(chan struct{})     // closed once every legitimately admitted future must be terminal
	var unresolved atomic.Int64

	submit := func(o op) {
		task := int(nextTask.Add(1)) - 1
		ch := fmt.Sprintf("room-%d", o.S)
		target := channelappend.AuthorityTarget{
			ChannelID: channelappend.ChannelID{ID: ch, Type: 2}, ChannelKey: "2:" + ch, LeaderNodeID: 1, Epoch: 1, LeaderEpoch: 1,
		}
		n := o.N
		if n <= 0 {
			n = 1
		}
		lat, plat, fail := 0, 0, 0
		if len(o.Lat) > 0 {
			lat = o.Lat[0]
		}
		if len(o.Lat) > 1 {
			plat = o.Lat[1]
		}
		if len(o.Fail) > 0 {
			fail = o.Fail[0]
		}
		items := make([]channelappend.SendBatchItem, n)
		for i := range items {
			items[i] = channelappend.SendBatchItem{
				Context: context.Background(),
				Command: channelappend.SendCommand{
					FromUID: fmt.Sprintf("u%d", task), ChannelID: ch, ChannelType: 2,
					ClientMsgNo: fmt.Sprintf("t%d-%d", task, i),
					Payload:     []byte{byte(lat >> 8), byte(lat), byte(plat >> 8), byte(plat), byte(fail)},
				},
			}
		}
		parked := o.K == "psubmit"
		var ctx context.Context = context.Background()
		t0 := rec.tick()
		if parked {
			gen := stopGen.Load()
			budget := time.Duration(o.Us) * time.Microsecond
			if budget <= 0 {
				budget = 5 * time.Millisecond
			}
			ctx = &parkCtx{Context: context.Background(),
				wait: func() {
					end := time.Now().Add(budget)
					for stopGen.Load() == gen && time.Now().Before(end) {
						time.Sleep(20 * time.Microsecond)
					}
				},
				afterPark: func() {
					// every admission step of SubmitLocal lies after this point
					pending.Add(1)
					t0 = rec.tick()
				}}
		} else {
			pending.Add(1)
		}
		f, err := g.SubmitLocal(ctx, target, items)
		if err == nil {
			tmu.Lock()
			tasks[task] = &taskInfo{future: f}
			tmu.Unlock()
		}
		t1 := rec.tick()
		rec.mu.Lock()
		rec.subs = append(rec.subs, subRec{task: task, t0: t0, t1: t1, acc: err == nil})
		rec.mu.Unlock()
		pending.Add(-1)
		if err == nil {
			waiters.Add(1)
			go func() {
				defer waiters.Done()
				ctx, cancel := context.WithCancel(context.Background())
				defer cancel()
				go func() {
					select {
					case <-giveUp:
						cancel()
					case <-ctx.Done():
					}
				}()
				results, werr := f.Wait(ctx)
				if werr != nil {
					unresolved.Add(1)
					return // an admitted future that never resolved: no terminal record
				}
				rec.term(task, classifyResults(results), true)
			}()
		}
	}

	stop := func(us int, limit time.Duration) bool {
		ctx := context.Background()
		var cancel context.CancelFunc
		if us > 0 {
			ctx, cancel = context.WithTimeout(ctx, time.Duration(us)*time.Microsecond)
		} else {
			ctx, cancel = context.WithTimeout(ctx, limit)
		}
		defer cancel()
		t0 := rec.tick()
		err := g.Stop(ctx)
		tr := rec.tick() // the stop call has returned
		stopGen.Add(1)
		if err == nil {
			// evidence: every admitted future already has its terminal results.
			// (submit calls still in flight were either rejected or completed before
			// the stop could finish; wait for their bookkeeping)
			for pending.Load() > 0 {
				time.Sleep(20 * time.Microsecond)
			}
			tmu.Lock()
			for id, ti := range tasks {
				if channelappend.VerifC41FutureDone(ti.future) {
					rec.term(id, resOK, false)
				}
			}
			tmu.Unlock()
		}
		t1 := rec.tick()
		rec.mu.Lock()
		// (t0, tr): a stop call had returned by tr (admission fence); for a nil return the
		// second record carries the later stamp taken after the done-evidence
		rec.stops = append(rec.stops, stopRec{t0: t0, t1: tr, ok: false})
		if err == nil {
			rec.stops = append(rec.stops, stopRec{t0: t0, t1: t1, ok: true})
		}
		rec.mu.Unlock()
		return err == nil
	}

	threads := in.Threads + in.Stoppers
	per := make([][]op, threads)
	for _, o := range in.Ops {
		if o.T >= 0 && o.T < threads {
			per[o.T] = append(per[o.T], o)
		}
	}
	var wg sync.WaitGroup
	for t := 0; t < threads; t++ {
		wg.Add(1)
		go func(t int) {
			defer wg.Done()
			for _, o := range per[t] {
				switch {
				case o.K == "sleep":
					spin(o.Us)
				case t < in.Threads && (o.K == "submit" || o.K == "psubmit"):
					submit(o)
				case t >= in.Threads && o.K == "stop":
					stop(o.Us, 10*time.Second)
				}
			}
		}(t)
	}
	wg.Wait()
	finalOK := stop(0, 15*time.Second)
	// a nil stop means every admitted future is terminal; anything still unresolved
	// after a grace period is an admitted send that was lost
	done := make(chan struct{})
	go func() { waiters.Wait(); close(done) }()
	select {
	case <-done:
	case <-time.After(400 * time.Millisecond):
		close(giveUp)
		<-done
	}
	final := true
	if !finalOK {
		panic("the final Group.Stop without a deadline did not return: admitted appends are stuck")
	}
	return vh.Result{
		Coq: rec.caseTerm(1, final),
		Obs: map[string]any{"tasks": int(nextTask.Load()), "post_commit_calls": pa.calls.Load(),
			"post_commit_cancelled": pa.cancelled.Load(), "final_stop_ok": finalOK,
			"unresolved_admitted_futures": unresolved.Load()},
		Class:   classOf("append", rec, final),
		Trivial: len(rec.terms) < 2,
	}
}
