package main

import (
	"context"
	"fmt"
	"strconv"
	"strings"
	"sync"
	"sync/atomic"
	"time"

	"github.com/WuKongIM/WuKongIM/internal/contracts/authority"
	channelappendcontract "github.com/WuKongIM/WuKongIM/internal/contracts/channelappend"
	"github.com/WuKongIM/WuKongIM/internal/contracts/onlinedelivery"
	"github.com/WuKongIM/WuKongIM/internal/runtime/delivery"
	"github.com/WuKongIM/WuKongIM/internal/verifh/vh"
)

// slow presence resolver: the plan's recipient uid is "p<task>:<latency µs>"; the
// resolver is cooperative (a cancelled run context makes it return early).
type slowPresence struct {
	mu    sync.Mutex
	byGID map[uint64]int // worker goroutine -> task it is processing
}

func parseRecipient(uid string) (task, lat int) {
	p := strings.Split(strings.TrimPrefix(uid, "p"), ":")
	if len(p) != 2 {
		return -1, 0
	}
	task, _ = strconv.Atoi(p[0])
	lat, _ = strconv.Atoi(p[1])
	return
}

func (s *slowPresence) EndpointsByTargets(ctx context.Context, targets []onlinedelivery.RecipientTargetBatch) []delivery.TargetPresenceResult {
	out := make([]delivery.TargetPresenceResult, len(targets))
	if len(targets) == 0 || len(targets[0].Recipients) == 0 {
		return out
	}
	task, lat := parseRecipient(targets[0].Recipients[0].UID)
	s.mu.Lock()
	s.byGID[goid()] = task
	s.mu.Unlock()
	end := time.Now().Add(time.Duration(lat) * time.Microsecond)
	for time.Now().Before(end) {
		if err := ctx.Err(); err != nil {
			out[0].Err = err
			return out
		}
		spin(20)
	}
	if err := ctx.Err(); err != nil {
		out[0].Err = err
	}
	return out
}

type planObserver struct {
	rec *c41rec
	p   *slowPresence
}

func (o *planObserver) ObservePlanAdmission(delivery.PlanAdmissionEvent) {}
func (o *planObserver) SetRuntimePressure(delivery.RuntimePressureEvent) {}
func (o *planObserver) ObserveOwnerPush(delivery.OwnerPushEvent)         {}
func (o *planObserver) ObservePlanTerminal(ev delivery.PlanTerminalEvent) {
	task := -1
	if ev.Failure.RecipientUID != "" {
		task, _ = parseRecipient(ev.Failure.RecipientUID)
	}
	if task < 0 {
		o.p.mu.Lock()
		if t, ok := o.p.byGID[goid()]; ok {
			task = t
		}
		o.p.mu.Unlock()
	}
	res := resOK
	switch ev.Result {
	case delivery.ObservationResultOK:
	case delivery.ObservationResultCanceled:
		res = resCancel
	default:
		res = resErr
	}
	if task < 0 {
		task = 1 << 20 // a terminal observation that cannot be attributed to an admitted plan
	}
	o.rec.mu.Lock()
	if _, dup := o.rec.terms[task]; dup {
		task += 1 << 21 // a second terminal observation for the same plan
	}
	o.rec.mu.Unlock()
	o.rec.term(task, res, true)
}

func runDelivery(in input) vh.Result {
	if in.Threads <= 0 {
		in.Threads = 1
	}
	if in.Stoppers <= 0 {
		in.Stoppers = 1
	}
	if in.Channels <= 0 {
		in.Channels = 1
	}
	comp := 2
	if in.Comp == "dstop" {
		comp = 3
	}
	rec := newC41rec()
	pres := &slowPresence{byGID: map[uint64]int{}}
	rt := delivery.NewRuntime(delivery.RuntimeOptions{
		LocalNodeID: 1, QueueSize: in.Admission, Workers: in.Shards, PlanTimeout: 60 * time.Second,
		Presence: pres, Observer: &planObserver{rec: rec, p: pres},
	})
	if err := rt.Start(context.Background()); err != nil {
		panic(err)
	}
	var nextTask atomic.Int64

	submit := func(o op) {
		task := int(nextTask.Add(1)) - 1
		lat := 0
		if len(o.Lat) > 0 {
			lat = o.Lat[0]
		}
		ch := fmt.Sprintf("room-%d", o.S)
		plan := onlinedelivery.RecipientDeliveryPlan{
			Mode:  onlinedelivery.ModeDurable,
			Event: channelappendcontract.CommittedEnvelope{MessageID: uint64(task + 1), MessageSeq: uint64(task + 1), ChannelID: ch, ChannelType: 2, FromUID: "sender"},
			Targets: []onlinedelivery.RecipientTargetBatch{{
				Target:     authority.Target{LeaderNodeID: 1, LeaderTerm: 1},
				Recipients: []channelappendcontract.Recipient{{UID: fmt.Sprintf("p%d:%d", task, lat)}},
			}},
		}
		// a bounded admission wait: a full queue is a rejection, not a hang
		ctx, cancel := context.WithTimeout(context.Background(), 5*time.Millisecond)
		t0 := rec.tick()
		err := rt.EnqueueRecipientDeliveryPlan(ctx, plan)
		t1 := rec.tick()
		cancel()
		rec.mu.Lock()
		rec.subs = append(rec.subs, subRec{task: task, t0: t0, t1: t1, acc: err == nil})
		rec.mu.Unlock()
	}

	stop := func(us int, limit time.Duration) bool {
		ctx := context.Background()
		var cancel context.CancelFunc
		if us > 0 {
			ctx, cancel = context.WithTimeout(ctx, time.Duration(us)*time.Microsecond)
		} else {
			ctx, cancel = context.WithTimeout(ctx, limit)
		}
		defer cancel()
		t0 := rec.tick()
		var err error
		if comp == 2 {
			err = rt.Quiesce(ctx)
		} else {
			err = rt.Stop(ctx)
		}
		t1 := rec.tick()
		rec.mu.Lock()
		rec.stops = append(rec.stops, stopRec{t0: t0, t1: t1, ok: err == nil})
		rec.mu.Unlock()
		return err == nil
	}

	threads := in.Threads + in.Stoppers
	per := make([][]op, threads)
	for _, o := range in.Ops {
		if o.T >= 0 && o.T < threads {
			per[o.T] = append(per[o.T], o)
		}
	}
	var wg sync.WaitGroup
	for t := 0; t < threads; t++ {
		wg.Add(1)
		go func(t int) {
			defer wg.Done()
			for _, o := range per[t] {
				switch {
				case o.K == "sleep":
					spin(o.Us)
				case t < in.Threads && o.K == "submit":
					submit(o)
				case t >= in.Threads && o.K == "stop":
					stop(o.Us, 10*time.Second)
				}
			}
		}(t)
	}
	wg.Wait()
	if !stop(0, 15*time.Second) {
		panic("the final " + in.Comp + " call without a deadline did not return: admitted delivery plans are stuck")
	}
	if comp == 2 {
		ctx, cancel := context.WithTimeout(context.Background(), 10*time.Second)
		_ = rt.Stop(ctx)
		cancel()
	}
	return vh.Result{
		Coq:     rec.caseTerm(comp, true),
		Obs:     map[string]any{"tasks": int(nextTask.Load())},
		Class:   classOf(in.Comp, rec, true),
		Trivial: len(rec.terms) < 2,
	}
}
