// Harness for C41 (stopping the send pipeline never drops accepted sends) — model StopPipeline_C41.
//
// Every case drives ONE real component under -race with concurrent submitters and
// stop callers whose deadlines expire at random points, and records one history
// (submit calls with their admission result, terminal results of admitted work,
// stop calls with their result), all stamped by one global atomic ticket:
//   gateway   core.Server + testkit fakes + the real access handler (the C28 stack):
//             tasks = SEND frames, terminal = the handler is finished with the item,
//             stop = Server.DrainSends (with deadlines) / Server.Stop;
//   append    channelappend.Group with a slow fake Appender and a slow PersistAfter
//             post-commit effect: tasks = SubmitLocal futures, stop = Group.Stop;
//   quiesce / dstop   delivery.Runtime with a slow presence resolver: tasks =
//             recipient delivery plans, terminal = the plan terminal observation,
//             stop = Runtime.Quiesce resp. Runtime.Stop.
package main

import (
	"fmt"
	"math/rand/v2"
	"sort"
	"sync"
	"sync/atomic"

	"github.com/WuKongIM/WuKongIM/internal/verifh/vh"
)

type op struct {
	T     int    `json:"t"`
	K     string `json:"k"` // send|close|sleep|push|drain|stop (gateway); submit|psubmit|sleep|stop (append, delivery)
	S     int    `json:"s,omitempty"`
	N     int    `json:"n,omitempty"`
	Bytes []int  `json:"bytes,omitempty"`
	Lat   []int  `json:"lat,omitempty"`
	Fail  []int  `json:"fail,omitempty"`
	Ord   []int  `json:"ord,omitempty"`
	Us    int    `json:"us,omitempty"`
	Tag   int    `json:"tag,omitempty"`
}

type input struct {
	Comp string `json:"comp"` // gateway | append | quiesce | dstop
	// gateway (same meaning as in the C28 harness)
	Workers    int  `json:"workers,omitempty"`
	Capacity   int  `json:"capacity,omitempty"`
	MaxRecords int  `json:"max_records,omitempty"`
	MaxBytes   int  `json:"max_bytes,omitempty"`
	MaxWaitUs  int  `json:"max_wait_us,omitempty"`
	Sessions   int  `json:"sessions,omitempty"`
	Aux        int  `json:"aux,omitempty"`
	Batch      bool `json:"batch,omitempty"`
	CloseOnErr bool `json:"close_on_err,omitempty"`
	// append / delivery
	Threads   int `json:"threads,omitempty"`   // submitter goroutines
	Stoppers  int `json:"stoppers,omitempty"`  // stop-caller goroutines
	Shards    int `json:"shards,omitempty"`    // authority shards / plan workers
	Pool      int `json:"pool,omitempty"`      // effect / advance pool size
	Admission int `json:"admission,omitempty"` // admission capacity per shard / queue size
	Channels  int `json:"channels,omitempty"`
	Ops       []op `json:"ops"`
}

// ---- the C41 history recorder -----------------------------------------------------------------

const (
	resOK = iota
	resErr
	resCancel
)

type subRec struct {
	task   int
	t0, t1 uint64
	acc    bool
}

type termRec struct {
	t   uint64
	res int
}

type stopRec struct {
	t0, t1 uint64
	ok     bool
}

type c41rec struct {
	ticket atomic.Uint64
	mu     sync.Mutex
	subs   []subRec
	terms  map[int]*termRec
	stops  []stopRec
	dupTerm bool
}

func newC41rec() *c41rec { return &c41rec{terms: map[int]*termRec{}} }

func (r *c41rec) tick() uint64 { return r.ticket.Add(1) }

// term records the terminal result of a task; the first stamp wins (evidence that the
// task was terminal no later than that stamp), a definite result overrides "unknown".
func (r *c41rec) term(task int, res int, definite bool) {
	t := r.tick()
	r.mu.Lock()
	if e := r.terms[task]; e == nil {
		r.terms[task] = &termRec{t: t, res: res}
	} else if definite {
		e.res = res
	}
	r.mu.Unlock()
}

func (r *c41rec) caseTerm(comp int, final bool) string {
	r.mu.Lock()
	defer r.mu.Unlock()
	subs := vh.ListOf(r.subs, func(s subRec) string {
		return vh.App("HSub", natLit(s.task), vh.N(s.t0), vh.N(s.t1), vh.B(s.acc))
	})
	ids := make([]int, 0, len(r.terms))
	for id := range r.terms {
		ids = append(ids, id)
	}
	sort.Slice(ids, func(i, j int) bool { return r.terms[ids[i]].t < r.terms[ids[j]].t })
	terms := vh.ListOf(ids, func(id int) string {
		e := r.terms[id]
		return vh.App("HTerm", natLit(id), vh.N(e.t), [...]string{"ROk", "RErr", "RCancel"}[e.res])
	})
	stops := vh.ListOf(r.stops, func(s stopRec) string { return vh.App("HStop", vh.N(s.t0), vh.N(s.t1), vh.B(s.ok)) })
	return vh.App("C41Case", vh.N(uint64(comp)), vh.B(final), vh.App("SHist", subs, terms, stops))
}

func (r *c41rec) summary() (acc, rej, okStops, expStops, cancels int) {
	r.mu.Lock()
	defer r.mu.Unlock()
	for _, s := range r.subs {
		if s.acc {
			acc++
		} else {
			rej++
		}
	}
	for _, s := range r.stops {
		if s.ok {
			okStops++
		} else {
			expStops++
		}
	}
	for _, e := range r.terms {
		if e.res == resCancel {
			cancels++
		}
	}
	return
}

func natLit(n int) string { return fmt.Sprintf("%d%%nat", n) }

func classOf(comp string, r *c41rec, final bool) string {
	acc, rej, okS, expS, cancels := r.summary()
	return fmt.Sprintf("%s,admitted=%v,rejected=%v,stop_ok=%v,stop_expired=%v,cancelled=%v,final=%v",
		comp, acc > 0, rej > 0, okS > 1, expS > 0, cancels > 0, final)
}

// ---- generators -----------------------------------------------------------------------------------

func genGateway(r *rand.Rand, tier string) input {
	in := input{Comp: "gateway"}
	in.Workers = vh.Pick(r, 1, 1, 2, 3)
	in.Capacity = vh.Pick(r, 2, 4, 8, 16, 32, 64)
	in.MaxRecords = vh.Pick(r, 1, 2, 4, 128)
	in.MaxBytes = vh.Pick(r, 16, 64, 1000)
	in.MaxWaitUs = vh.Pick(r, 0, 20, 200)
	in.Sessions = 1 + r.IntN(5)
	in.Aux = 1 + r.IntN(2)
	in.Batch = r.IntN(5) != 0
	in.CloseOnErr = true
	n := 15 + r.IntN(50)
	if tier == "thorough" {
		n = 20 + r.IntN(120)
	}
	withStop := r.IntN(100) < 20
	for j := 0; j < n; j++ {
		t := r.IntN(in.Sessions + in.Aux)
		if t < in.Sessions {
			if r.IntN(8) == 0 {
				in.Ops = append(in.Ops, op{T: t, K: "sleep", Us: vh.Pick(r, 1, 10, 50, 200)})
				continue
			}
			o := op{T: t, K: "send", N: 1 + r.IntN(4)}
			for i := 0; i < o.N; i++ {
				o.Bytes = append(o.Bytes, r.IntN(2*in.MaxBytes))
				o.Lat = append(o.Lat, vh.Pick(r, 0, 20, 100, 300, 800, 2000))
				o.Fail = append(o.Fail, 0)
				o.Ord = append(o.Ord, r.IntN(3))
			}
			in.Ops = append(in.Ops, o)
			continue
		}
		switch x := r.IntN(10); {
		case x < 5:
			in.Ops = append(in.Ops, op{T: t, K: "sleep", Us: vh.Pick(r, 1, 20, 100, 400)})
		case x < 9:
			if j > n*6/10 {
				in.Ops = append(in.Ops, op{T: t, K: "drain", Us: vh.Pick(r, 1, 30, 300, 2000, 0)})
			}
		default:
			if j > n/2 && withStop {
				withStop = false
				in.Ops = append(in.Ops, op{T: t, K: "stop"})
			}
		}
	}
	return in
}


// genBlockedStop: every worker is parked in a slow handler call, other sessions'
// accepted SENDs are backlogged on their own shards, then Server.Stop (optionally
// after an expired DrainSends) runs out of its release budget; the slow calls end
// well after every stop-related deadline.
func genBlockedStop(r *rand.Rand) input {
	in := input{Comp: "gateway"}
	in.Workers = 2
	in.Capacity = vh.Pick(r, 8, 16, 32)
	in.MaxRecords = vh.Pick(r, 1, 2, 128)
	in.MaxBytes = 1000
	in.MaxWaitUs = vh.Pick(r, 0, 20)
	in.Sessions = 3 + r.IntN(3)
	in.Aux = 1
	in.Batch = r.IntN(4) != 0
	in.CloseOnErr = true
	slow := vh.Pick(r, 100000, 150000)
	for s := 0; s < 2; s++ {
		in.Ops = append(in.Ops, op{T: s, K: "send", N: 1, Bytes: []int{3}, Lat: []int{slow}, Fail: []int{0}, Ord: []int{0}})
	}
	for s := 2; s < in.Sessions; s++ {
		in.Ops = append(in.Ops, op{T: s, K: "sleep", Us: 4000 + 1000*s})
		n := 1 + r.IntN(3)
		o := op{T: s, K: "send", N: n}
		for i := 0; i < n; i++ {
			o.Bytes = append(o.Bytes, r.IntN(20))
			o.Lat = append(o.Lat, vh.Pick(r, 0, 50, 300))
			o.Fail = append(o.Fail, 0)
			o.Ord = append(o.Ord, 0)
		}
		in.Ops = append(in.Ops, o)
	}
	a := in.Sessions
	in.Ops = append(in.Ops, op{T: a, K: "sleep", Us: 20000})
	if r.IntN(2) == 0 {
		in.Ops = append(in.Ops, op{T: a, K: "drain", Us: 1000})
	}
	in.Ops = append(in.Ops, op{T: a, K: "stop"})
	return in
}

func genPipeline(r *rand.Rand, tier, comp string) input {
	in := input{Comp: comp}
	in.Threads = 1 + r.IntN(4)
	in.Stoppers = 1 + r.IntN(3)
	in.Shards = vh.Pick(r, 1, 1, 2, 4)
	in.Pool = vh.Pick(r, 1, 2, 3)
	in.Admission = vh.Pick(r, 2, 4, 16, 64, 64)
	in.Channels = 1 + r.IntN(4)
	n := 12 + r.IntN(40)
	if tier == "thorough" {
		n = 15 + r.IntN(100)
	}
	for j := 0; j < n; j++ {
		t := r.IntN(in.Threads + in.Stoppers)
		if t < in.Threads {
			if r.IntN(6) == 0 {
				in.Ops = append(in.Ops, op{T: t, K: "sleep", Us: vh.Pick(r, 1, 10, 100)})
				continue
			}
			o := op{T: t, K: "submit", S: r.IntN(in.Channels), N: 1 + r.IntN(3)}
			o.Lat = []int{vh.Pick(r, 0, 50, 200, 800, 3000), vh.Pick(r, 0, 0, 100, 1000)} // append / post-commit latency
			if r.IntN(15) == 0 {
				o.Fail = []int{1}
			}
			if comp == "append" && j > n/3 && r.IntN(4) == 0 {
				// held inside SubmitLocal at the caller-context check until a stop call
				// has returned (or the budget is used up)
				o.K = "psubmit"
				o.Us = vh.Pick(r, 500, 3000, 10000)
			}
			in.Ops = append(in.Ops, o)
			continue
		}
		switch x := r.IntN(10); {
		case x < 5:
			in.Ops = append(in.Ops, op{T: t, K: "sleep", Us: vh.Pick(r, 1, 50, 300, 1000)})
		default:
			if j > n*6/10 {
				in.Ops = append(in.Ops, op{T: t, K: "stop", Us: vh.Pick(r, 1, 50, 500, 3000, 0)})
			}
		}
	}
	return in
}

func gen(r *rand.Rand, tier string, i int) input {
	switch x := r.IntN(10); {
	case x < 3:
		if r.IntN(3) == 0 {
			return genBlockedStop(r)
		}
		return genGateway(r, tier)
	case x < 7:
		return genPipeline(r, tier, "append")
	case x < 9:
		return genPipeline(r, tier, "quiesce")
	default:
		// Runtime.Stop: only deadlines that do not expire while work is pending
		// (an expiring Runtime.Stop cancels the run context by design: corpus/C41)
		in := genPipeline(r, tier, "dstop")
		for i := range in.Ops {
			if in.Ops[i].K == "stop" {
				in.Ops[i].Us = 0
			}
		}
		return in
	}
}

func run(in input) vh.Result {
	switch in.Comp {
	case "gateway":
		return runGateway(in)
	case "append":
		return runAppend(in)
	default:
		return runDelivery(in)
	}
}

func main() {
	vh.Main(vh.Harness[input]{Gen: gen, Run: run})
}
