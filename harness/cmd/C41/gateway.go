package main

import (
	"sync"
	"time"

	"github.com/WuKongIM/WuKongIM/internal/verifh/vh"
)

// runGateway drives the C28 stack and maps its history to the C41 vocabulary:
// task = SEND frame, terminal = the usecase call that handled it returned
// (before completeAdmission), stop = DrainSends / Server.Stop.
func runGateway(in input) vh.Result {
	if in.Sessions <= 0 {
		in.Sessions = 1
	}
	if in.Aux <= 0 {
		in.Aux = 1
	}
	st := newStack(in)
	threads := in.Sessions + in.Aux
	per := make([][]op, threads)
	for _, o := range in.Ops {
		if o.T >= 0 && o.T < threads {
			per[o.T] = append(per[o.T], o)
		}
	}
	var stopOnce sync.Once
	var stopT0, stopT1 uint64
	var wg sync.WaitGroup
	for t := 0; t < threads; t++ {
		wg.Add(1)
		go func(t int) {
			defer wg.Done()
			seq := uint64(1)
			for _, o := range per[t] {
				switch {
				case o.K == "sleep":
					spin(o.Us)
				case t < in.Sessions && o.K == "send":
					seq += uint64(st.emitSend(t, seq, o))
				case t >= in.Sessions && o.K == "drain":
					st.drain(o.Us)
				case t >= in.Sessions && o.K == "stop":
					stopOnce.Do(func() {
						st.stopped.Store(true)
						stopT0 = st.rec.tick()
						_ = st.srv.Stop()
						stopT1 = st.rec.tick()
					})
				}
			}
		}(t)
	}
	wg.Wait()
	final := true
	// the terminal drain must complete — also after Server.Stop, whose own bounded
	// wait may have expired (the executor stays reachable through the handle)
	finalOK := st.drainCap(5 * time.Second)
	handled := st.waitHandled(3 * time.Second)
	if !finalOK && handled {
		finalOK = st.drainCap(3 * time.Second)
	}

	rec := newC41rec()
	rec.ticket.Store(st.rec.ticket.Load())
	id := map[[2]uint64]int{}
	for i, s := range st.rec.sends {
		id[[2]uint64{s.sid, s.seq}] = i
		rec.subs = append(rec.subs, subRec{task: i, t0: s.t0, t1: s.t1, acc: s.accepted})
	}
	unknown := len(st.rec.sends)
	for _, b := range st.rec.batches {
		res := resOK
		if b.res != 0 {
			res = resErr
		}
		for _, it := range b.items {
			task, ok := id[[2]uint64{it.sid, it.seq}]
			if !ok {
				task = unknown // handled without ever having been submitted
				unknown++
			}
			if _, dup := rec.terms[task]; dup {
				task = unknown // a second terminal result for the same task
				unknown++
				rec.subs = append(rec.subs, subRec{task: task, acc: false})
			}
			rec.terms[task] = &termRec{t: b.t1, res: res}
		}
	}
	for _, d := range st.rec.drains {
		rec.stops = append(rec.stops, stopRec{t0: d.t0, t1: d.t1, ok: d.ok})
	}
	if st.stopped.Load() {
		// Server.Stop bounds its own wait by AsyncPoolReleaseTimeout and discards the
		// result: recorded as a stop call whose deadline expired
		rec.stops = append(rec.stops, stopRec{t0: stopT0, t1: stopT1, ok: false})
	}
	_ = st.srv.Stop()
	if !finalOK && handled {
		panic("the final DrainSends without a deadline did not return although every admitted SEND is handled")
	}
	return vh.Result{
		Coq:     rec.caseTerm(0, final),
		Obs: map[string]any{"sends": len(st.rec.sends), "batches": len(st.rec.batches), "drains": len(st.rec.drains),
			"final_drain_ok": finalOK, "all_handled": handled},
		Class:   classOf("gateway", rec, final),
		Trivial: len(rec.terms) < 2,
	}
}
