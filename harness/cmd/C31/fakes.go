package main

import (
	"context"
	"errors"
	"math/rand/v2"
	"runtime"
	"sort"
	"strconv"
	"sync"
	"sync/atomic"
	"time"

	"github.com/WuKongIM/WuKongIM/internal/contracts/authority"
	channelappendcontract "github.com/WuKongIM/WuKongIM/internal/contracts/channelappend"
	"github.com/WuKongIM/WuKongIM/internal/contracts/onlinedelivery"
	"github.com/WuKongIM/WuKongIM/internal/runtime/delivery"
)

type Route = onlinedelivery.Route

const (
	kPresence = iota
	kOffline
	kRemote
	kWrite
	kOwnerObs
	kTerminal
)

// one recorded port call
type pev struct {
	kind   int
	gid    uint64
	t0, t1 uint64
	plan   int // index into world.plans, -1 unknown
	msgid  uint64
	owner  uint64
	routes []Route // remote: push.Routes
	route  Route   // write
	disp   int     // write: disposition code returned (9 = panicked)
	cancel bool    // write: context cancelled while it ran
	acc, retry, drop []Route
	err    int // remote: 0 nil 1 error 2 panic
	obs    [5]uint64
	fail   Route
	uids   []string
	label  int
}

// world = recorder + fake ports for one case
type world struct {
	kind   string
	cfg    cfgIn
	ticket atomic.Uint64
	mu     sync.Mutex
	evs    []*pev
	plans  []*planIn          // rt / plan kinds
	byMsg  map[uint64]int     // rt: message id -> plan index
	cur    atomic.Int64       // sequential kinds: current plan / push index
	beh    map[uint64]behIn   // by message id (push kind: by step)
	curBeh behIn
	rngs   map[[2]uint64]*rand.Rand
	rcalls map[[2]uint64]int // remote port calls so far per (plan, owner)
	cancel context.CancelFunc // sequential kinds: cancels the context of the running call
}

func newWorld(kind string, cfg cfgIn) *world {
	w := &world{kind: kind, cfg: cfg, byMsg: map[uint64]int{}, beh: map[uint64]behIn{}, rngs: map[[2]uint64]*rand.Rand{}, rcalls: map[[2]uint64]int{}}
	w.cur.Store(-1)
	return w
}

func goid() uint64 {
	var buf [64]byte
	n := runtime.Stack(buf[:], false)
	// "goroutine 123 ["
	s := buf[len("goroutine "):n]
	i := 0
	for i < len(s) && s[i] >= '0' && s[i] <= '9' {
		i++
	}
	id, _ := strconv.ParseUint(string(s[:i]), 10, 64)
	return id
}

func (w *world) begin(kind int) *pev {
	return &pev{kind: kind, gid: goid(), t0: w.ticket.Add(1), plan: -1}
}

func (w *world) end(e *pev) {
	e.t1 = w.ticket.Add(1)
	w.mu.Lock()
	w.evs = append(w.evs, e)
	w.mu.Unlock()
}

func (w *world) planOfMsg(msg uint64) int {
	if w.kind != "rt" {
		return int(w.cur.Load())
	}
	if i, ok := w.byMsg[msg]; ok {
		return i
	}
	return -1
}

func (w *world) behOf(plan int, msg uint64) behIn {
	if w.kind == "push" {
		return w.curBeh
	}
	if plan >= 0 && plan < len(w.plans) {
		return w.plans[plan].Beh
	}
	return behIn{}
}

// PRNG owned by one (plan, owner): only the goroutine executing that owner draws from it
func (w *world) rng(b behIn, plan int, salt uint64) *rand.Rand {
	key := [2]uint64{uint64(plan + 1), salt}
	w.mu.Lock()
	defer w.mu.Unlock()
	if r, ok := w.rngs[key]; ok {
		return r
	}
	r := rand.New(rand.NewPCG(b.Seed^uint64(plan+1)*0x9E3779B97F4A7C15, salt*2654435761+17))
	w.rngs[key] = r
	return r
}

func (w *world) sleep(r *rand.Rand, b behIn) {
	if w.kind != "rt" || b.LatUs <= 0 {
		return
	}
	if d := r.IntN(b.LatUs + 1); d > 0 {
		if d < 5 {
			runtime.Gosched()
			return
		}
		time.Sleep(time.Duration(d) * time.Microsecond)
	}
}

// ---- presence

type fakePresence struct{ w *world }

func (f fakePresence) EndpointsByTargets(_ context.Context, targets []onlinedelivery.RecipientTargetBatch) []delivery.TargetPresenceResult {
	w := f.w
	e := w.begin(kPresence)
	defer w.end(e)
	if w.kind == "rt" {
		if len(targets) > 0 {
			e.plan = int(targets[0].Target.RouteRevision) - 1
		}
	} else {
		e.plan = int(w.cur.Load())
	}
	if e.plan < 0 || e.plan >= len(w.plans) {
		return nil
	}
	p := w.plans[e.plan]
	e.msgid = p.Ev.MsgID
	w.sleep(w.rng(p.Beh, e.plan, 0), p.Beh)
	if p.PresPanic {
		e.err = 2
		panic("verif: presence port panic")
	}
	out := make([]delivery.TargetPresenceResult, 0, len(p.Answers))
	for _, a := range p.Answers {
		if a.Err {
			out = append(out, delivery.TargetPresenceResult{Err: errors.New("verif: presence target error")})
			continue
		}
		rs := make([]Route, 0, len(a.Routes))
		for _, r := range a.Routes {
			rs = append(rs, mkRoute(r))
		}
		out = append(out, delivery.TargetPresenceResult{Routes: rs})
	}
	return out
}

// ---- offline observer

type fakeOffline struct{ w *world }

func (f fakeOffline) ObserveOfflineRecipients(_ context.Context, ev delivery.OfflineRecipientsEvent) {
	w := f.w
	e := w.begin(kOffline)
	defer w.end(e)
	e.msgid = ev.Event.MessageID
	e.plan = w.planOfMsg(e.msgid)
	e.uids = append([]string(nil), ev.UIDs...)
	b := w.behOf(e.plan, e.msgid)
	r := w.rng(b, e.plan, 1<<40)
	w.sleep(r, b)
	if b.PPanic > 0 && r.IntN(100) < b.PPanic {
		panic("verif: offline observer panic")
	}
}

// ---- remote owner pusher

type fakeRemote struct{ w *world }

func (f fakeRemote) PushOwner(_ context.Context, push onlinedelivery.OwnerPush) (onlinedelivery.OwnerPushResult, error) {
	w := f.w
	e := w.begin(kRemote)
	defer w.end(e)
	e.msgid = push.Event.MessageID
	e.plan = w.planOfMsg(e.msgid)
	e.owner = push.OwnerNodeID
	e.routes = append([]Route(nil), push.Routes...)
	b := w.behOf(e.plan, e.msgid)
	r := w.rng(b, e.plan, push.OwnerNodeID+1)
	w.sleep(r, b)
	w.mu.Lock()
	ck := [2]uint64{uint64(e.plan + 1), push.OwnerNodeID}
	call := w.rcalls[ck]
	w.rcalls[ck] = call + 1
	w.mu.Unlock()
	if call < len(b.RScript) {
		partial := func() onlinedelivery.OwnerPushResult {
			var res onlinedelivery.OwnerPushResult
			for i, rt := range push.Routes {
				if i == 0 && len(push.Routes) > 1 {
					res.Accepted = append(res.Accepted, rt)
				} else {
					res.Retryable = append(res.Retryable, rt)
				}
			}
			return res
		}
		switch b.RScript[call] {
		case "partial":
			res := partial()
			e.acc, e.retry, e.drop = res.Accepted, res.Retryable, res.Dropped
			return res, nil
		case "retry":
			res := onlinedelivery.OwnerPushResult{Retryable: append([]Route(nil), push.Routes...)}
			e.retry = res.Retryable
			return res, nil
		case "ok":
			res := onlinedelivery.OwnerPushResult{Accepted: append([]Route(nil), push.Routes...)}
			e.acc = res.Accepted
			return res, nil
		case "err":
			e.err = 1
			return onlinedelivery.OwnerPushResult{}, errors.New("verif: scripted remote transport error")
		case "errres":
			res := partial()
			e.acc, e.retry, e.drop = res.Accepted, res.Retryable, res.Dropped
			e.err = 1
			return res, errors.New("verif: scripted remote transport error with partial result")
		case "panic":
			e.err = 2
			e.retry = e.routes
			panic("verif: scripted remote owner pusher panic")
		}
	}
	if b.PPanic > 0 && r.IntN(100) < b.PPanic {
		e.err = 2
		e.retry = e.routes
		panic("verif: remote owner pusher panic")
	}
	var res onlinedelivery.OwnerPushResult
	for _, rt := range push.Routes {
		x := r.IntN(100)
		switch {
		case x < b.PRetry:
			res.Retryable = append(res.Retryable, rt)
		case x < b.PRetry+b.PDrop:
			res.Dropped = append(res.Dropped, rt)
		default:
			res.Accepted = append(res.Accepted, rt)
		}
	}
	e.acc, e.retry, e.drop = res.Accepted, res.Retryable, res.Dropped
	if b.PErr > 0 && r.IntN(100) < b.PErr {
		e.err = 1
		if r.IntN(2) == 0 {
			e.acc, e.retry, e.drop = nil, nil, nil
			return onlinedelivery.OwnerPushResult{}, errors.New("verif: remote transport error")
		}
		return res, errors.New("verif: remote transport error with partial result")
	}
	return res, nil
}

// ---- local session writer

type fakeWriter struct{ w *world }

func (f fakeWriter) WriteSession(_ context.Context, wr delivery.LocalSessionWrite) delivery.SessionWriteResult {
	w := f.w
	e := w.begin(kWrite)
	defer w.end(e)
	e.msgid = wr.Event.MessageID
	e.plan = w.planOfMsg(e.msgid)
	e.owner = wr.Route.OwnerNodeID
	e.route = wr.Route
	b := w.behOf(e.plan, e.msgid)
	r := w.rng(b, e.plan, 1<<41)
	w.sleep(r, b)
	if b.PCancel > 0 && w.cancel != nil && r.IntN(100) < b.PCancel {
		w.cancel()
		e.cancel = true
	}
	if b.PPanic > 0 && r.IntN(100) < b.PPanic {
		e.disp = 9
		panic("verif: session writer panic")
	}
	x := r.IntN(100)
	switch {
	case x < b.PRetry:
		e.disp = int(delivery.SessionWriteRetryable)
	case x < b.PRetry+b.PDrop:
		e.disp = int(delivery.SessionWriteDropped)
		if r.IntN(4) == 0 {
			e.disp = 0 // an unknown disposition takes the default branch
		}
	default:
		e.disp = int(delivery.SessionWriteAccepted)
	}
	return delivery.SessionWriteResult{Disposition: delivery.SessionWriteDisposition(e.disp), Err: errors.New("verif: write classification")}
}

// ---- runtime observer

type fakeObserver struct{ w *world }

func (fakeObserver) ObservePlanAdmission(delivery.PlanAdmissionEvent) {}
func (fakeObserver) SetRuntimePressure(delivery.RuntimePressureEvent) {}

func obsLabel(r delivery.ObservationResult) int {
	switch r {
	case delivery.ObservationResultOK:
		return 0
	case delivery.ObservationResultError:
		return 1
	case delivery.ObservationResultRetryable:
		return 2
	case delivery.ObservationResultDropped:
		return 3
	case delivery.ObservationResultRetryExhausted:
		return 4
	case delivery.ObservationResultCanceled:
		return 5
	case delivery.ObservationResultPanic:
		return 7
	case delivery.ObservationResultTimeout:
		return 8
	}
	return 9
}

func (f fakeObserver) ObserveOwnerPush(ev delivery.OwnerPushEvent) {
	w := f.w
	e := w.begin(kOwnerObs)
	defer w.end(e)
	e.owner = ev.OwnerNodeID
	e.obs = [5]uint64{uint64(obsLabel(ev.Result)), uint64(ev.Routes), uint64(ev.Accepted), uint64(ev.Retryable), uint64(ev.Dropped)}
	e.fail = ev.Failure.Route
	if w.kind != "rt" {
		e.plan = int(w.cur.Load())
	} else if ev.Failure.Route.OwnerSeq >= 1000 {
		e.plan = int(ev.Failure.Route.OwnerSeq/1000) - 1 // routes carry their plan in OwnerSeq
	}
}

func (f fakeObserver) ObservePlanTerminal(ev delivery.PlanTerminalEvent) {
	w := f.w
	e := w.begin(kTerminal)
	defer w.end(e)
	e.label = obsLabel(ev.Result)
	if w.kind != "rt" {
		e.plan = int(w.cur.Load())
	}
}

// ---- construction helpers

func mkRoute(r routeIn) Route {
	return Route{UID: r.UID, OwnerNodeID: r.Owner, OwnerBootID: r.Boot, OwnerSeq: r.Seq, SessionID: r.Sess, DeviceID: r.Dev, DeviceFlag: r.Flag, DeviceLevel: r.Level}
}

func mkEvent(e eventIn) channelappendcontract.CommittedEnvelope {
	return channelappendcontract.CommittedEnvelope{MessageID: e.MsgID, MessageSeq: e.Seq, ChannelID: e.ChID, ChannelType: e.ChType,
		FromUID: e.From, SenderNodeID: e.SNode, SenderSessionID: e.SSess, Payload: []byte("p")}
}

func mkPlan(p *planIn, idx int) onlinedelivery.RecipientDeliveryPlan {
	out := onlinedelivery.RecipientDeliveryPlan{Mode: onlinedelivery.Mode(p.Mode), Event: mkEvent(p.Ev)}
	for _, t := range p.Targets {
		b := onlinedelivery.RecipientTargetBatch{Target: authority.Target{HashSlot: 1, SlotID: 1, LeaderNodeID: t.Leader, LeaderTerm: 1, RouteRevision: uint64(idx + 1)}}
		for _, u := range t.Recips {
			b.Recipients = append(b.Recipients, channelappendcontract.Recipient{UID: u})
		}
		out.Targets = append(out.Targets, b)
	}
	return out
}

func (w *world) newRuntime() *delivery.Runtime {
	c := w.cfg
	if w.kind != "rt" && c.QSize <= 0 {
		c.QSize = 4 // the plan queue is not used by the push / plan kinds; keep construction cheap
	}
	opts := delivery.RuntimeOptions{
		LocalNodeID: c.Local, QueueSize: c.QSize, Workers: c.Workers, PlanTimeout: 120 * time.Second,
		MaxPlanRecipients: c.MaxRecip, OwnerPushBatchSize: c.Batch, OwnerConcurrency: c.OC,
		RetryMaxAttempts: c.Retry, RetryInitialBackoff: time.Microsecond, RetryMaxBackoff: 4 * time.Microsecond,
		Observer: fakeObserver{w},
	}
	if !c.NoPresence {
		opts.Presence = fakePresence{w}
	}
	if !c.NoRemote {
		opts.RemoteOwnerPusher = fakeRemote{w}
	}
	if !c.NoWriter {
		opts.SessionWriter = fakeWriter{w}
	}
	if c.Offline {
		opts.OfflineRecipientsObserver = fakeOffline{w}
	}
	if c.AckLimit > 0 {
		opts.Acks = delivery.NewAckTracker(delivery.AckTrackerOptions{MaxPendingPerSession: c.AckLimit})
	}
	return delivery.NewRuntime(opts)
}

// events sorted by start ticket
func (w *world) sorted() []*pev {
	w.mu.Lock()
	out := append([]*pev(nil), w.evs...)
	w.mu.Unlock()
	sort.Slice(out, func(i, j int) bool { return out[i].t0 < out[j].t0 })
	return out
}
