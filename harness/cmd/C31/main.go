// Harness for C31: online delivery preserves per-channel order and recipient coverage.
//
// Five kinds of cases:
//
//	queue  the unexported orderedPlanQueue driven sequentially, link structure snapshotted after every call
//	shard  orderedPlanQueue.shardIndex on random channels / shard counts
//	push   Runtime.PushOwner (owner-local execution) with a scripted session writer, exact result observed
//	plan   Runtime.processPlan called directly, OwnerConcurrency 1: the exact sequence of port calls
//	rt     a started Runtime: concurrent producers, several workers, owner concurrency, random port
//	       latencies, stop / quiesce / restart; every port call stamped by one atomic ticket
package main

import (
	"fmt"
	"io"
	"math/rand/v2"

	"github.com/WuKongIM/WuKongIM/internal/contracts/onlinedelivery"
	"github.com/WuKongIM/WuKongIM/internal/runtime/delivery"
	"github.com/WuKongIM/WuKongIM/internal/verifh/vh"
)

type routeIn struct {
	UID   string `json:"u"`
	Owner uint64 `json:"o"`
	Boot  uint64 `json:"b,omitempty"`
	Seq   uint64 `json:"q,omitempty"`
	Sess  uint64 `json:"s"`
	Dev   string `json:"d,omitempty"`
	Flag  uint8  `json:"f,omitempty"`
	Level uint8  `json:"l,omitempty"`
}

type targetIn struct {
	Leader uint64   `json:"leader"`
	Recips []string `json:"recips"`
}

type answerIn struct {
	Err    bool      `json:"err,omitempty"`
	Routes []routeIn `json:"routes,omitempty"`
}

// behaviour of the fake ports for one plan / push (all draws from PRNGs seeded here)
type behIn struct {
	Seed    uint64 `json:"seed"`
	PRetry  int    `json:"pretry,omitempty"`  // % of writes / remote routes classified retryable
	PDrop   int    `json:"pdrop,omitempty"`   // % dropped
	PPanic  int    `json:"ppanic,omitempty"`  // % of port calls that panic
	PErr    int    `json:"perr,omitempty"`    // % of remote pushes returning an error
	PCancel int    `json:"pcancel,omitempty"` // % of writes during which the context is cancelled (plan / push kinds)
	LatUs   int    `json:"lat,omitempty"`     // max port latency in microseconds (rt kind)
	// RScript scripts the first calls of the remote owner port per owner of this plan:
	// "partial" (first route accepted, the others retryable; a single route: retryable), "err" (transport
	// error, no result), "errres" (error together with a partial result), "panic", "ok" (all accepted),
	// "retry" (all retryable); later calls / other words fall back to the percentages above
	RScript []string `json:"rscript,omitempty"`
}

type eventIn struct {
	MsgID  uint64 `json:"msg"`
	Seq    uint64 `json:"seq,omitempty"`
	ChID   string `json:"ch"`
	ChType uint8  `json:"ct"`
	From   string `json:"from,omitempty"`
	SNode  uint64 `json:"snode,omitempty"`
	SSess  uint64 `json:"ssess,omitempty"`
}

type planIn struct {
	Mode      uint8      `json:"mode"`
	Ev        eventIn    `json:"ev"`
	Targets   []targetIn `json:"targets"`
	Answers   []answerIn `json:"answers"`
	PresPanic bool       `json:"prespanic,omitempty"`
	Cx0       bool       `json:"cx0,omitempty"` // plan kind: context already cancelled; rt kind: Enqueue with a cancelled context
	Beh       behIn      `json:"beh"`
}

type pushIn struct {
	Owner  uint64    `json:"owner"`
	Ev     eventIn   `json:"ev"`
	Routes []routeIn `json:"routes"`
	Cx0    bool      `json:"cx0,omitempty"`
	Closed bool      `json:"closed,omitempty"` // call PushOwner on a stopped runtime
	Beh    behIn     `json:"beh"`
}

type cfgIn struct {
	Local      uint64 `json:"local"`
	Batch      int    `json:"batch"`
	Retry      int    `json:"retry"`
	OC         int    `json:"oc"`
	MaxRecip   int    `json:"maxrecip"`
	QSize      int    `json:"qsize"`
	Workers    int    `json:"workers"`
	Offline    bool   `json:"offline"`
	NoWriter   bool   `json:"nowriter,omitempty"`
	NoRemote   bool   `json:"noremote,omitempty"`
	NoPresence bool   `json:"nopresence,omitempty"`
	AckLimit   int    `json:"acklimit,omitempty"`
	Cap        int    `json:"cap,omitempty"`    // queue kind
	Shards     int    `json:"shards,omitempty"` // queue kind
}

type op struct {
	K      string  `json:"k"` // queue: enq|pop|deq ; shard: sh ; push: push ; plan: plan ; rt: plan|stop|quiesce|start
	Plan   *planIn `json:"plan,omitempty"`
	Push   *pushIn `json:"push,omitempty"`
	Ev     *eventIn `json:"ev,omitempty"` // queue / shard kinds
	Shard  int     `json:"shard,omitempty"`
	Closed bool    `json:"closed,omitempty"`
	P      int     `json:"p,omitempty"`     // rt: producer
	After  int     `json:"after,omitempty"` // rt control op: wait for this many Enqueue returns
}

type input struct {
	Kind string `json:"kind"`
	Cfg  cfgIn  `json:"cfg"`
	Ops  []op   `json:"ops"`
}

// ---------------------------------------------------------------- generator

var uidAlpha = []string{"a", "b", "c", "d", "e"}
var chanAlpha = []string{"g1", "g2", "x", "room-7", "", "u1@u2", "g10", "\xff\x00z"}

func genEvent(r *rand.Rand, msg uint64) eventIn {
	e := eventIn{MsgID: msg, Seq: msg, ChID: vh.Pick(r, chanAlpha...), ChType: vh.Pick(r, uint8(1), 2, 2, 5)}
	if r.IntN(2) == 0 {
		e.From = vh.Pick(r, uidAlpha...)
		e.SNode = vh.Pick(r, uint64(1), 1, 2, 3, 0)
		e.SSess = vh.Pick(r, uint64(1), 2, 3, 0)
	}
	return e
}

// ownerBias != 0: most routes of the plan belong to that owner (several routes in one owner batch)
var ownerBias uint64

func genRoute(r *rand.Rand, uid string, tag uint64, serial *uint64) routeIn {
	*serial++
	owner := vh.Pick(r, uint64(1), 1, 1, 2, 2, 3)
	if ownerBias != 0 && r.IntN(4) != 0 {
		owner = ownerBias
	}
	rt := routeIn{UID: uid, Owner: owner, Sess: vh.Pick(r, uint64(1), 2, 3),
		Boot: uint64(1 + r.IntN(2)), Seq: tag*1000 + *serial, Dev: vh.Pick(r, "d1", "d2", ""), Flag: uint8(r.IntN(3)), Level: uint8(r.IntN(2))}
	if r.IntN(30) == 0 {
		rt.Owner = 0
	}
	if r.IntN(30) == 0 {
		rt.Sess = 0
	}
	return rt
}

func genBeh(r *rand.Rand, kind string) behIn {
	b := behIn{Seed: r.Uint64() >> 1}
	switch r.IntN(4) {
	case 0: // everything accepted
	case 1:
		b.PRetry = 10 + r.IntN(50)
	case 2:
		b.PRetry, b.PDrop = r.IntN(40), r.IntN(30)
	default:
		b.PRetry, b.PDrop, b.PPanic, b.PErr = r.IntN(40), r.IntN(20), r.IntN(8), r.IntN(30)
	}
	if kind != "rt" && r.IntN(6) == 0 {
		b.PCancel = 1 + r.IntN(12)
	}
	if kind == "rt" {
		b.LatUs = vh.Pick(r, 0, 0, 20, 80, 250)
	}
	if (kind == "plan" && r.IntN(2) == 0) || (kind == "rt" && r.IntN(5) < 2) {
		// narrowed retry set followed by a failing attempt (and the other orders)
		b.RScript = vh.Pick(r,
			[]string{"partial", "err"}, []string{"partial", "err"}, []string{"partial", "panic"},
			[]string{"partial", "errres"}, []string{"partial", "partial", "err"}, []string{"partial", "err", "err"},
			[]string{"err", "partial"}, []string{"retry", "err", "partial"}, []string{"partial", "err", "ok"})
	}
	return b
}

func genPlan(r *rand.Rand, kind string, idx int, ev eventIn) *planIn {
	p := &planIn{Mode: 1, Ev: ev, Beh: genBeh(r, kind)}
	ownerBias = 0
	if len(p.Beh.RScript) > 0 || r.IntN(4) == 0 {
		ownerBias = vh.Pick(r, uint64(2), 2, 3, 1)
	}
	defer func() { ownerBias = 0 }()
	switch r.IntN(20) {
	case 0, 1, 2, 3, 4:
		p.Mode = 2
	case 5:
		p.Mode = vh.Pick(r, uint8(0), 3)
	}
	if r.IntN(40) == 0 {
		p.Ev.MsgID = 0
	}
	tag := uint64(idx + 1)
	var serial uint64
	nt := 1 + r.IntN(3)
	if r.IntN(50) == 0 {
		nt = 0
	}
	for t := 0; t < nt; t++ {
		tg := targetIn{Leader: uint64(1 + r.IntN(3))}
		if r.IntN(50) == 0 {
			tg.Leader = 0
		}
		nr := 1 + r.IntN(4)
		if r.IntN(50) == 0 {
			nr = 0
		}
		for j := 0; j < nr; j++ {
			u := vh.Pick(r, uidAlpha...)
			if r.IntN(60) == 0 {
				u = ""
			}
			tg.Recips = append(tg.Recips, u)
		}
		p.Targets = append(p.Targets, tg)
		a := answerIn{}
		if r.IntN(10) == 0 {
			a.Err = true
		} else {
			for _, u := range tg.Recips {
				if r.IntN(10) < 3 {
					continue // offline
				}
				nrt := 1 + r.IntN(2)
				for k := 0; k < nrt; k++ {
					a.Routes = append(a.Routes, genRoute(r, u, tag, &serial))
				}
			}
			if r.IntN(15) == 0 { // a route of somebody who is not a recipient of this target
				a.Routes = append(a.Routes, genRoute(r, vh.Pick(r, uidAlpha...), tag, &serial))
			}
			if len(a.Routes) > 0 && r.IntN(12) == 0 { // exact duplicate row
				a.Routes = append(a.Routes, a.Routes[r.IntN(len(a.Routes))])
			}
			if r.IntN(25) == 0 {
				a.Routes = append(a.Routes, genRoute(r, "", tag, &serial))
			}
			if p.Ev.From != "" && r.IntN(4) == 0 { // the sender's own session
				a.Routes = append(a.Routes, routeIn{UID: p.Ev.From, Owner: p.Ev.SNode, Sess: p.Ev.SSess, Boot: 1, Seq: tag*1000 + 999, Dev: "d1"})
			}
			r.Shuffle(len(a.Routes), func(i, j int) { a.Routes[i], a.Routes[j] = a.Routes[j], a.Routes[i] })
		}
		p.Answers = append(p.Answers, a)
	}
	if len(p.Answers) > 0 && r.IntN(20) == 0 {
		p.Answers = p.Answers[:len(p.Answers)-1] // a missing result
	}
	if r.IntN(50) == 0 {
		p.PresPanic = true
	}
	return p
}

func genCfg(r *rand.Rand, kind string) cfgIn {
	c := cfgIn{Local: 1, Offline: r.IntN(7) != 0}
	switch r.IntN(30) {
	case 0:
		c.Local = 0
	case 1:
		c.Local = 2
	}
	c.Batch = vh.Pick(r, 0, 0, 1, 2, 2, 3, 5)
	c.Retry = vh.Pick(r, 0, 0, 1, 2, 3, 3, 4)
	c.OC = 1
	c.MaxRecip = vh.Pick(r, 0, 0, 5, 8, 100)
	c.NoWriter = r.IntN(25) == 0
	c.NoRemote = r.IntN(25) == 0
	c.NoPresence = r.IntN(50) == 0
	if kind == "rt" {
		c.OC = vh.Pick(r, 1, 2, 3, 0)
		c.QSize = vh.Pick(r, 1, 1, 2, 2, 3, 3, 8, 8, 64, 0)
		c.Workers = vh.Pick(r, 1, 2, 3, 4, 4, 0)
	}
	return c
}

func gen(r *rand.Rand, tier string, i int) input {
	k := r.IntN(100)
	switch {
	case k < 18:
		return genQueue(r, tier)
	case k < 23:
		return genShard(r)
	case k < 43:
		return genPush(r, tier)
	case k < 75:
		return genPlanCase(r, tier)
	default:
		return genRt(r, tier)
	}
}

func genQueue(r *rand.Rand, tier string) input {
	in := input{Kind: "queue"}
	in.Cfg.Cap = vh.Pick(r, 1, 2, 3, 4, 6, 9)
	in.Cfg.Shards = vh.Pick(r, 1, 2, 3, 4, 5)
	if r.IntN(25) == 0 {
		if r.IntN(2) == 0 {
			in.Cfg.Cap = vh.Pick(r, 0, -1)
		} else {
			in.Cfg.Shards = vh.Pick(r, 0, -2)
		}
	}
	n := 5 + r.IntN(40)
	if tier == "thorough" {
		n = 5 + r.IntN(120)
	}
	var msg uint64
	pEnq := 30 + r.IntN(50)
	for j := 0; j < n; j++ {
		if r.IntN(100) < pEnq {
			msg++
			e := eventIn{MsgID: msg, ChID: vh.Pick(r, chanAlpha...), ChType: vh.Pick(r, uint8(1), 2)}
			in.Ops = append(in.Ops, op{K: "enq", Ev: &e, Closed: r.IntN(15) == 0})
		} else {
			o := op{K: vh.Pick(r, "pop", "pop", "deq"), Shard: r.IntN(max(in.Cfg.Shards, 1))}
			if o.K == "deq" && r.IntN(5) == 0 {
				o.Shard = vh.Pick(r, -1, in.Cfg.Shards, in.Cfg.Shards+3)
			}
			in.Ops = append(in.Ops, o)
		}
	}
	return in
}

func genShard(r *rand.Rand) input {
	in := input{Kind: "shard"}
	n := 10 + r.IntN(30)
	for j := 0; j < n; j++ {
		var id string
		switch r.IntN(6) {
		case 0:
			id = vh.Pick(r, chanAlpha...)
		case 1:
			id = ""
		case 2:
			id = string(vh.Bytes(r, 1+r.IntN(4)))
		case 3:
			id = string(vh.Bytes(r, 20+r.IntN(60)))
		default:
			b := make([]byte, 1+r.IntN(24))
			for k := range b {
				b[k] = "abcdefghijklmnopqrstuvwxyz0123456789_@-"[r.IntN(39)]
			}
			id = string(b)
		}
		e := eventIn{ChID: id, ChType: uint8(vh.Pick(r, 0, 1, 2, 3, 255, r.IntN(256)))}
		in.Ops = append(in.Ops, op{K: "sh", Ev: &e, Shard: vh.Pick(r, 1, 2, 3, 4, 7, 8, 16, 64, 255, 1+r.IntN(300))})
		if r.IntN(4) == 0 && j+1 < n { // the same channel again: must land on the same shard
			in.Ops = append(in.Ops, in.Ops[len(in.Ops)-1])
			j++
		}
	}
	return in
}

func genPush(r *rand.Rand, tier string) input {
	in := input{Kind: "push", Cfg: genCfg(r, "push")}
	in.Cfg.NoPresence, in.Cfg.NoRemote = false, false
	if r.IntN(5) == 0 && !in.Cfg.NoWriter {
		in.Cfg.AckLimit = 1 + r.IntN(2)
	}
	n := 1 + r.IntN(6)
	for j := 0; j < n; j++ {
		ps := &pushIn{Owner: in.Cfg.Local, Ev: genEvent(r, uint64(1+r.IntN(3))), Beh: genBeh(r, "push")}
		if r.IntN(12) == 0 {
			ps.Owner = vh.Pick(r, uint64(0), 1, 2, 3)
		}
		if r.IntN(40) == 0 {
			ps.Ev.MsgID = 0
		}
		var serial uint64
		nr := r.IntN(8)
		for k := 0; k < nr; k++ {
			rt := genRoute(r, vh.Pick(r, uidAlpha[:3]...), uint64(j+1), &serial)
			rt.Owner = ps.Owner
			if r.IntN(12) == 0 {
				rt.Owner = vh.Pick(r, uint64(0), 1, 2, 3)
			}
			if r.IntN(20) == 0 {
				rt.UID = ""
			}
			ps.Routes = append(ps.Routes, rt)
			if r.IntN(6) == 0 { // duplicate recvack identity (same uid/session), maybe the identical row
				d := rt
				if r.IntN(2) == 0 {
					serial++
					d.Seq = uint64(j+1)*1000 + serial
				}
				ps.Routes = append(ps.Routes, d)
			}
		}
		ps.Cx0 = r.IntN(25) == 0
		ps.Closed = r.IntN(30) == 0
		in.Ops = append(in.Ops, op{K: "push", Push: ps})
	}
	return in
}

func genPlanCase(r *rand.Rand, tier string) input {
	in := input{Kind: "plan", Cfg: genCfg(r, "plan")}
	n := 1 + r.IntN(4)
	for j := 0; j < n; j++ {
		p := genPlan(r, "plan", j, genEvent(r, uint64(j+1)))
		p.Cx0 = r.IntN(40) == 0
		in.Ops = append(in.Ops, op{K: "plan", Plan: p})
	}
	return in
}

func genRt(r *rand.Rand, tier string) input {
	in := input{Kind: "rt", Cfg: genCfg(r, "rt")}
	producers := 1 + r.IntN(3)
	nch := 2 + r.IntN(4)
	type ch struct {
		id   string
		ty   uint8
		prod int
		seq  uint64
	}
	chs := make([]ch, nch)
	for i := range chs {
		chs[i] = ch{id: fmt.Sprintf("%s%d", vh.Pick(r, "g", "room-", "u@"), i), ty: vh.Pick(r, uint8(1), 2), prod: r.IntN(producers)}
	}
	n := 5 + r.IntN(14)
	if tier == "thorough" {
		n = 5 + r.IntN(40)
	}
	for j := 0; j < n; j++ {
		c := &chs[r.IntN(nch)]
		c.seq++
		ev := genEvent(r, uint64(j+1))
		ev.ChID, ev.ChType, ev.Seq = c.id, c.ty, c.seq
		p := genPlan(r, "rt", j, ev)
		p.Cx0 = r.IntN(40) == 0
		in.Ops = append(in.Ops, op{K: "plan", Plan: p, P: c.prod})
	}
	if r.IntN(5) < 2 {
		at := r.IntN(len(in.Ops) + 1)
		ctl := []op{{K: vh.Pick(r, "stop", "stop", "quiesce"), After: at}}
		if r.IntN(10) < 7 {
			ctl = append(ctl, op{K: "start", After: at})
		}
		rest := append([]op{}, in.Ops[at:]...)
		in.Ops = append(append(in.Ops[:at:at], ctl...), rest...)
	}
	return in
}

// ---------------------------------------------------------------- constants

func emitConsts(w io.Writer) {
	fmt.Fprintln(w, "(* GENERATED by harness/cmd/C31 -emit-consts from the compiled /repo tree. Do not edit. *)")
	fmt.Fprintln(w, "From WK Require Import Base.Base.")
	fmt.Fprintln(w, "Open Scope N_scope.")
	fmt.Fprintln(w, "(* defaults NewRuntime applies to non-positive options (internal/runtime/delivery/runtime.go) *)")
	fmt.Fprintf(w, "Definition c31_default_queue_size : N := %d.\n", delivery.VerifDefaultRuntimeQueueSize)
	fmt.Fprintf(w, "Definition c31_default_workers : N := %d.\n", delivery.VerifDefaultRuntimeWorkers)
	fmt.Fprintf(w, "Definition c31_default_plan_recipients : N := %d.\n", delivery.VerifDefaultRuntimePlanRecipients)
	fmt.Fprintf(w, "Definition c31_default_push_batch : N := %d.\n", delivery.VerifDefaultRuntimePushBatchSize)
	fmt.Fprintf(w, "Definition c31_default_owner_workers : N := %d.\n", delivery.VerifDefaultRuntimeOwnerWorkers)
	fmt.Fprintf(w, "Definition c31_default_retry_attempts : N := %d.\n", delivery.VerifDefaultRuntimeRetryAttempts)
	fmt.Fprintln(w, "(* onlinedelivery.Mode and delivery.SessionWriteDisposition enum values *)")
	fmt.Fprintf(w, "Definition c31_mode_durable : N := %d.\n", onlinedelivery.ModeDurable)
	fmt.Fprintf(w, "Definition c31_mode_transient : N := %d.\n", onlinedelivery.ModeTransient)
	fmt.Fprintf(w, "Definition c31_write_accepted : N := %d.\n", delivery.SessionWriteAccepted)
	fmt.Fprintf(w, "Definition c31_write_retryable : N := %d.\n", delivery.SessionWriteRetryable)
	fmt.Fprintf(w, "Definition c31_write_dropped : N := %d.\n", delivery.SessionWriteDropped)
	fmt.Fprintln(w, "(* orderedPlanQueue.shardIndex test vectors: (shards, channel type, channel id, index) *)")
	fmt.Fprintln(w, "Definition c31_shard_vectors : list (N * N * bytes * N) := [")
	vecs := []struct {
		sh int
		ty uint8
		id string
	}{{1, 1, ""}, {2, 1, "g1"}, {3, 2, "g1"}, {4, 2, "room-7"}, {7, 255, "u1@u2"}, {16, 0, "\xff\x00z"}, {1000, 5, "abcdefghijklmnopqrstuvwxyz"}, {64, 2, "g10"}}
	for i, v := range vecs {
		q := delivery.VerifNewPlanQueue(1, v.sh)
		idx := q.ShardIndex(onlinedelivery.RecipientDeliveryPlan{Event: mkEvent(eventIn{ChID: v.id, ChType: v.ty})})
		sep := ";"
		if i == len(vecs)-1 {
			sep = ""
		}
		fmt.Fprintf(w, "  (%d, %d, %s, %d)%s\n", v.sh, v.ty, vh.HexS(v.id), idx, sep)
	}
	fmt.Fprintln(w, "].")
}

func main() {
	vh.Main(vh.Harness[input]{EmitConsts: emitConsts, Gen: gen, Run: run})
}
