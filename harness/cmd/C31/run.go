package main

import (
	"context"
	"errors"
	"fmt"
	"sort"
	"strings"
	"sync"
	"sync/atomic"
	"time"

	"github.com/WuKongIM/WuKongIM/internal/contracts/onlinedelivery"
	"github.com/WuKongIM/WuKongIM/internal/runtime/delivery"
	"github.com/WuKongIM/WuKongIM/internal/verifh/vh"
)

// ---------------------------------------------------------------- Coq printing

// routes are interned per case: the case term is (let r0 := Route .. in let r1 := .. in BODY)
type interner struct {
	names map[Route]string
	defs  []string
}

func newInterner() *interner { return &interner{names: map[Route]string{}} }

func (it *interner) R(r Route) string {
	if n, ok := it.names[r]; ok {
		return n
	}
	n := fmt.Sprintf("r%d", len(it.names))
	it.names[r] = n
	it.defs = append(it.defs, fmt.Sprintf("let %s := Route %s %d %d %d %d %s %d %d in ", n, vh.HexS(r.UID), r.OwnerNodeID, r.OwnerBootID, r.OwnerSeq, r.SessionID, vh.HexS(r.DeviceID), r.DeviceFlag, r.DeviceLevel))
	return n
}

func (it *interner) Rs(rs []Route) string { return vh.ListOf(rs, it.R) }

func (it *interner) wrap(body string) string {
	return "(" + strings.Join(it.defs, "") + body + ")"
}

func zInt(i int) string { return vh.Z(int64(i)) }

func coqEvent(e eventIn) string {
	return vh.App("Event", vh.N(e.MsgID), vh.N(e.Seq), vh.HexS(e.ChID), vh.N(uint64(e.ChType)), vh.HexS(e.From), vh.N(e.SNode), vh.N(e.SSess))
}

func coqPlan(p *planIn) string {
	ts := vh.ListOf(p.Targets, func(t targetIn) string {
		return vh.App("Target", vh.N(t.Leader), vh.ListOf(t.Recips, vh.HexS))
	})
	return vh.App("Plan", vh.N(uint64(p.Mode)), coqEvent(p.Ev), ts)
}

func coqAnswers(it *interner, as []answerIn) string {
	return vh.ListOf(as, func(a answerIn) string {
		if a.Err {
			return "AErr"
		}
		rs := make([]Route, len(a.Routes))
		for i, r := range a.Routes {
			rs[i] = mkRoute(r)
		}
		return vh.App("AOk", it.Rs(rs))
	})
}

func coqCfg(c cfgIn) string {
	return vh.App("Cfg", vh.N(c.Local), zInt(c.Batch), zInt(c.Retry), zInt(c.OC), zInt(c.MaxRecip),
		vh.B(c.Offline), vh.B(!c.NoWriter), vh.B(!c.NoRemote), vh.B(!c.NoPresence))
}

type wr struct {
	route  Route
	disp   int
	cancel bool
}

type att struct {
	owner            uint64
	local            bool
	routes           []Route
	writes           []wr
	acc, retry, drop []Route
	err              int
	obs              []uint64
	plan             int
	t0, t1           uint64
}

func coqAtt(it *interner, a att) string {
	ws := vh.ListOf(a.writes, func(w wr) string {
		return "(" + it.R(w.route) + ", " + vh.N(uint64(w.disp)) + ", " + vh.B(w.cancel) + ")"
	})
	return vh.App("Att", vh.N(a.owner), vh.B(a.local), it.Rs(a.routes), ws, it.Rs(a.acc), it.Rs(a.retry), it.Rs(a.drop), vh.N(uint64(a.err)), vh.NList(a.obs))
}

type planObs struct {
	presence int
	offline  [][]string
	atts     []att
	class    int
	terminal []int
	first    uint64
	last     uint64
}

func coqPres(it *interner, o planObs) string {
	offs := vh.ListOf(o.offline, func(l []string) string { return vh.ListOf(l, vh.HexS) })
	return vh.App("PRes", vh.N(uint64(o.presence)), offs, vh.ListOf(o.atts, func(a att) string { return coqAtt(it, a) }), vh.N(uint64(o.class)))
}

// ---------------------------------------------------------------- grouping port calls into attempts

// one goroutine's calls in program order -> owner push attempts (each closed by its ObserveOwnerPush)
func groupAttempts(stream []*pev, local uint64, forceLocal bool) []att {
	var out []att
	var writes []*pev
	var remote *pev
	for _, e := range stream {
		switch e.kind {
		case kWrite:
			writes = append(writes, e)
		case kRemote:
			remote = e
		case kOwnerObs:
			a := att{owner: e.owner, obs: e.obs[:], plan: e.plan, t0: e.t0, t1: e.t1}
			if remote != nil {
				a.routes, a.acc, a.retry, a.drop, a.err = remote.routes, remote.acc, remote.retry, remote.drop, remote.err
				a.t0 = remote.t0
				if remote.plan >= 0 {
					a.plan = remote.plan
				}
			} else {
				a.local = forceLocal || (local != 0 && e.owner == local)
				for _, x := range writes {
					a.writes = append(a.writes, wr{x.route, x.disp, x.cancel})
					if x.plan >= 0 {
						a.plan = x.plan
					}
				}
				if len(writes) > 0 {
					a.t0 = writes[0].t0
				}
			}
			out = append(out, a)
			writes, remote = nil, nil
		}
	}
	return out
}

func errClass(err error) int {
	switch {
	case err == nil:
		return 0
	case errors.Is(err, delivery.ErrOwnerPushRetryExhausted):
		return 4
	case errors.Is(err, context.Canceled), errors.Is(err, context.DeadlineExceeded):
		return 5
	case errors.Is(err, delivery.ErrPresenceResolverUnavailable):
		return 1
	case errors.Is(err, delivery.ErrPresenceResultMissing):
		return 2
	}
	return 3
}

// ---------------------------------------------------------------- run

func run(in input) vh.Result {
	switch in.Kind {
	case "queue":
		return runQueue(in)
	case "shard":
		return runShard(in)
	case "push":
		return runPush(in)
	case "plan":
		return runPlanCase(in)
	case "rt":
		// a lost or stuck plan makes Stop / Enqueue wait for ever: report that quickly
		done := make(chan vh.Result, 1)
		go func() { done <- runRt(in) }()
		select {
		case r := <-done:
			return r
		case <-time.After(20 * time.Second):
			panic("verif: the runtime did not finish this run within 20s (a producer, a worker or Stop is stuck)")
		}
	}
	panic("unknown case kind " + in.Kind)
}

// ---- queue

func zList(xs []int) string {
	return vh.ListOf(xs, func(i int) string { return zInt(i) })
}

func runQueue(in input) vh.Result {
	q := delivery.VerifNewPlanQueue(in.Cfg.Cap, in.Cfg.Shards)
	closedCh := make(chan struct{})
	close(closedCh)
	openCh := make(chan struct{})
	cancelled, cancel := context.WithCancel(context.Background())
	cancel()
	var steps []string
	nOk, nFull, nClosed, nPop, nEmpty := 0, 0, 0, 0, 0
	obs := []map[string]any{}
	for _, o := range in.Ops {
		var opS, obS string
		switch o.K {
		case "enq":
			if o.Ev == nil {
				continue
			}
			pl := onlinedelivery.RecipientDeliveryPlan{Mode: 1, Event: mkEvent(*o.Ev)}
			p := &planIn{Mode: 1, Ev: *o.Ev}
			opS = vh.App("QEnq", vh.B(o.Closed), coqPlan(p))
			ctx := context.Background()
			accept := (<-chan struct{})(openCh)
			if o.Closed {
				accept = closedCh
			} else if !q.Nil() && q.Depth() >= q.Capacity() {
				ctx = cancelled // a full queue parks the caller: observe that through an already-ended context
			}
			err := q.Enqueue(ctx, accept, pl)
			res, shard := 0, 0
			switch {
			case err == nil:
				nOk++
				shard = q.ShardIndex(pl)
			case errors.Is(err, delivery.ErrRuntimeClosed):
				res = 1
				nClosed++
			case errors.Is(err, context.Canceled):
				res = 2
				nFull++
			default:
				res = 9
			}
			obS = vh.App("QOEnq", vh.N(uint64(res)), vh.N(uint64(shard)))
			obs = append(obs, map[string]any{"enq": o.Ev.MsgID, "res": res, "shard": shard})
		case "pop", "deq":
			opS = vh.App("QPop", zInt(o.Shard))
			var pl onlinedelivery.RecipientDeliveryPlan
			var ok bool
			if o.K == "pop" && !q.Nil() && o.Shard >= 0 && o.Shard < in.Cfg.Shards {
				pl, ok = q.Pop(o.Shard)
			} else {
				pl, ok = q.Dequeue(o.Shard, closedCh)
			}
			if ok {
				nPop++
				obS = vh.App("QOPop", vh.Some(vh.N(pl.Event.MessageID)))
			} else {
				nEmpty++
				obS = vh.App("QOPop", vh.None())
			}
			obs = append(obs, map[string]any{"pop": o.Shard, "ok": ok, "msg": pl.Event.MessageID})
		default:
			continue
		}
		snap := "(QSnap [] [] [] [] (-1)%Z 0 0)"
		if !q.Nil() {
			s := q.Snapshot()
			snap = vh.App("QSnap", vh.NList(s.NodeMsg), zList(s.NodeNext), zList(s.Heads), zList(s.Tails), zInt(s.FreeHead), vh.N(uint64(s.Slots)), vh.N(uint64(s.Depth)))
		}
		steps = append(steps, vh.App("QStep", opS, obS, snap))
	}
	return vh.Result{
		Coq:     vh.App("CQueue", zInt(in.Cfg.Cap), zInt(in.Cfg.Shards), vh.List(steps)),
		Obs:     obs,
		Class:   fmt.Sprintf("queue,nil=%v,full=%v,closed=%v,emptypop=%v", q.Nil(), nFull > 0, nClosed > 0, nEmpty > 0),
		Trivial: nOk == 0 || nPop == 0,
	}
}

// ---- shard

func runShard(in input) vh.Result {
	var rows []string
	obs := []map[string]any{}
	queues := map[int]*delivery.VerifPlanQueue{}
	for _, o := range in.Ops {
		if o.K != "sh" || o.Ev == nil || o.Shard <= 0 || o.Shard > 100000 {
			continue
		}
		q := queues[o.Shard]
		if q == nil {
			q = delivery.VerifNewPlanQueue(1, o.Shard)
			queues[o.Shard] = q
		}
		idx := q.ShardIndex(onlinedelivery.RecipientDeliveryPlan{Event: mkEvent(*o.Ev)})
		rows = append(rows, "("+vh.N(uint64(o.Shard))+", "+vh.N(uint64(o.Ev.ChType))+", "+vh.HexS(o.Ev.ChID)+", "+vh.N(uint64(idx))+")")
		if len(obs) < 8 {
			obs = append(obs, map[string]any{"shards": o.Shard, "idx": idx})
		}
	}
	return vh.Result{Coq: vh.App("CShard", vh.List(rows)), Obs: obs, Class: "shard", Trivial: len(rows) == 0}
}

// ---- push (Runtime.PushOwner)

func runPush(in input) vh.Result {
	w := newWorld("push", in.Cfg)
	rt := w.newRuntime()
	_ = rt.Start(context.Background())
	closedRt := w.newRuntime() // never started: PushOwner reports ErrRuntimeClosed
	it := newInterner()
	var steps []string
	obs := []map[string]any{}
	flags := map[string]bool{}
	for i, o := range in.Ops {
		if o.K != "push" || o.Push == nil {
			continue
		}
		ps := o.Push
		w.cur.Store(int64(i))
		w.curBeh = ps.Beh
		push := onlinedelivery.OwnerPush{OwnerNodeID: ps.Owner, Event: mkEvent(ps.Ev)}
		for _, r := range ps.Routes {
			push.Routes = append(push.Routes, mkRoute(r))
		}
		ctx, cancel := context.WithCancel(context.Background())
		w.cancel = cancel
		if ps.Cx0 {
			cancel()
		}
		w.mu.Lock()
		w.evs = nil
		w.mu.Unlock()
		target := rt
		if ps.Closed {
			target = closedRt
		}
		res, err := target.PushOwner(ctx, push)
		cancel()
		a := att{owner: ps.Owner, local: true, routes: push.Routes, acc: res.Accepted, retry: res.Retryable, drop: res.Dropped}
		switch {
		case err == nil:
		case errors.Is(err, delivery.ErrOwnerPushNotLocal):
			a.err = 1
			flags["notlocal"] = true
		case errors.Is(err, delivery.ErrRuntimeClosed):
			a.err = 3
			flags["closed"] = true
		default:
			a.err = 9
		}
		evs := w.sorted()
		for _, e := range evs {
			switch e.kind {
			case kWrite:
				a.writes = append(a.writes, wr{e.route, e.disp, e.cancel})
				if e.cancel {
					flags["cancel"] = true
				}
			case kOwnerObs:
				a.obs = append(a.obs, e.obs[:]...)
			}
		}
		// oracle of the model: one entry per route that reached the reservation check
		// (valid, context not yet cancelled): a write, or no write = the tracker refused
		var orc []string
		cx := ps.Cx0
		wi := 0
		if a.err == 0 {
			for _, r := range push.Routes {
				if cx {
					break
				}
				valid := r.UID != "" && r.SessionID != 0 && r.OwnerNodeID == ps.Owner && ps.Ev.MsgID != 0
				if !valid {
					continue
				}
				if in.Cfg.NoWriter {
					continue
				}
				if wi < len(a.writes) && a.writes[wi].route == r {
					x := a.writes[wi]
					orc = append(orc, vh.App("LWrite", vh.N(uint64(x.disp)), vh.B(x.cancel)))
					cx = x.cancel
					wi++
				} else {
					orc = append(orc, "LReject")
					flags["reject"] = true
				}
			}
		}
		if len(res.Retryable) > 0 {
			flags["retry"] = true
		}
		if len(res.Dropped) > 0 {
			flags["drop"] = true
		}
		steps = append(steps, vh.App("PushStep", vh.B(ps.Closed), coqEvent(ps.Ev), vh.B(ps.Cx0), vh.List(orc), coqAtt(it, a)))
		obs = append(obs, map[string]any{"routes": len(push.Routes), "acc": len(res.Accepted), "retry": len(res.Retryable), "drop": len(res.Dropped), "err": a.err, "writes": len(a.writes)})
	}
	_ = rt.Stop(context.Background())
	return vh.Result{
		Coq:     it.wrap(vh.App("CPush", coqCfg(in.Cfg), vh.List(steps))),
		Obs:     obs,
		Class:   "push," + flagStr(flags),
		Trivial: len(steps) == 0,
	}
}

func ctlStr(m map[string]bool) string {
	switch {
	case m["quiesce"]:
		return "quiesce"
	case m["stop"]:
		return "stop"
	}
	return "none"
}

func flagStr(m map[string]bool) string {
	var ks []string
	for k, v := range m {
		if v {
			ks = append(ks, k)
		}
	}
	sort.Strings(ks)
	return strings.Join(ks, "+")
}

// ---- plan (processPlan called directly, sequential)

func collectPlanObs(w *world, evs []*pev, forceSeq bool) planObs {
	var o planObs
	for _, e := range evs {
		if o.first == 0 || e.t0 < o.first {
			o.first = e.t0
		}
		if e.t1 > o.last {
			o.last = e.t1
		}
		switch e.kind {
		case kPresence:
			o.presence++
		case kOffline:
			o.offline = append(o.offline, e.uids)
		case kTerminal:
			o.terminal = append(o.terminal, e.label)
		}
	}
	return o
}

func planFlags(flags map[string]bool, p *planIn, o planObs) {
	if len(o.offline) > 0 {
		flags["offline"] = true
	}
	for _, a := range o.atts {
		if a.local {
			flags["local"] = true
		} else {
			flags["remote"] = true
		}
		if a.obs[3] > 0 {
			flags["retry"] = true
		}
		if a.err != 0 {
			flags["rerr"] = true
		}
		for _, x := range a.writes {
			if x.cancel {
				flags["cancel"] = true
			}
		}
	}
	// a narrowed retry set (partial result) followed by a failing attempt that is retried again
	byOwner := map[uint64][]att{}
	for _, a := range o.atts {
		byOwner[a.owner] = append(byOwner[a.owner], a)
	}
	for _, as := range byOwner {
		for i := 0; i+2 < len(as); i++ {
			a, b, c := as[i], as[i+1], as[i+2]
			if !a.local && a.err == 0 && len(a.retry) > 0 && len(a.retry) < len(a.routes) && b.err != 0 &&
				len(b.routes) == len(a.retry) && len(c.routes) <= len(b.routes) {
				flags["narrowerr"] = true
			}
		}
	}
	if o.class == 4 {
		flags["exhausted"] = true
	}
	if o.class == 2 || o.class == 3 {
		flags["preserr"] = true
	}
	if o.class == 7 {
		flags["panic"] = true
	}
}

func runPlanCase(in input) vh.Result {
	in.Cfg.OC = 1
	w := newWorld("plan", in.Cfg)
	for _, o := range in.Ops {
		if o.K == "plan" && o.Plan != nil {
			w.plans = append(w.plans, o.Plan)
		}
	}
	rt := w.newRuntime()
	it := newInterner()
	var steps []string
	obs := []map[string]any{}
	flags := map[string]bool{}
	natts := 0
	for i, p := range w.plans {
		w.cur.Store(int64(i))
		ctx, cancel := context.WithCancel(context.Background())
		w.cancel = cancel
		if p.Cx0 {
			cancel()
		}
		w.mu.Lock()
		w.evs = nil
		w.mu.Unlock()
		class := 0
		func() {
			defer func() {
				if r := recover(); r != nil {
					class = 7
				}
			}()
			class = errClass(rt.VerifProcessPlan(ctx, mkPlan(p, i)))
		}()
		cancel()
		evs := w.sorted()
		o := collectPlanObs(w, evs, true)
		o.atts = groupAttempts(evs, in.Cfg.Local, false)
		o.class = class
		natts += len(o.atts)
		planFlags(flags, p, o)
		steps = append(steps, vh.App("PlanStep", coqPlan(p), coqAnswers(it, p.Answers), vh.B(p.PresPanic), vh.B(p.Cx0), coqPres(it, o)))
		obs = append(obs, map[string]any{"presence": o.presence, "offline": o.offline, "attempts": len(o.atts), "class": class})
	}
	return vh.Result{
		Coq:     it.wrap(vh.App("CPlan", coqCfg(in.Cfg), vh.List(steps))),
		Obs:     obs,
		Class:   fmt.Sprintf("plan,retry=%v,narrow-then-error=%v,exhausted=%v,cancel=%v,offline=%v,preserr=%v", flags["retry"], flags["narrowerr"], flags["exhausted"], flags["cancel"], flags["offline"], flags["preserr"] || flags["panic"]),
		Trivial: natts == 0,
	}
}

// ---- rt (started runtime, concurrent)

type enqRec struct {
	t0, t1 uint64
	res    int
	shard  int
}

func runRt(in input) vh.Result {
	if in.Cfg.NoRemote {
		// without a remote pusher an owner push leaves no port call that names its plan;
		// owners then run on the plan's own worker goroutine so that program order attributes them
		in.Cfg.OC = 1
	}
	w := newWorld("rt", in.Cfg)
	var planOps []op
	var ctl []op
	for _, o := range in.Ops {
		switch o.K {
		case "plan":
			if o.Plan != nil {
				planOps = append(planOps, o)
			}
		case "stop", "quiesce", "start":
			ctl = append(ctl, o)
		}
	}
	for i, o := range planOps {
		w.plans = append(w.plans, o.Plan)
		if o.Plan.Ev.MsgID != 0 {
			w.byMsg[o.Plan.Ev.MsgID] = i
		}
	}
	rt := w.newRuntime()
	_ = rt.Start(context.Background())

	enq := make([]enqRec, len(planOps))
	var enqDone atomic.Int64
	var producersDone atomic.Bool
	cancelled, cancelFn := context.WithCancel(context.Background())
	cancelFn()
	perProd := map[int][]int{}
	for i, o := range planOps {
		perProd[o.P] = append(perProd[o.P], i)
	}
	var wg sync.WaitGroup
	for _, idxs := range perProd {
		wg.Add(1)
		go func(idxs []int) {
			defer wg.Done()
			for _, i := range idxs {
				p := w.plans[i]
				pl := mkPlan(p, i)
				ctx := context.Background()
				if p.Cx0 {
					ctx = cancelled
				}
				var e enqRec
				e.shard = rt.VerifQueueShardIndex(pl)
				e.t0 = w.ticket.Add(1)
				err := rt.EnqueueRecipientDeliveryPlan(ctx, pl)
				e.t1 = w.ticket.Add(1)
				switch {
				case err == nil:
				case errors.Is(err, delivery.ErrRuntimeClosed):
					e.res = 1
				case errors.Is(err, delivery.ErrInvalidPlan):
					e.res = 2
				case errors.Is(err, delivery.ErrPlanTooLarge):
					e.res = 3
				case errors.Is(err, context.Canceled):
					e.res = 4
				default:
					e.res = 9
				}
				enq[i] = e
				enqDone.Add(1)
			}
		}(idxs)
	}
	// controller: stop / quiesce / start at the scripted points
	var stops []uint64
	var stopMu sync.Mutex
	ctlDone := make(chan struct{})
	flags := map[string]bool{}
	go func() {
		defer close(ctlDone)
		for _, o := range ctl {
			for enqDone.Load() < int64(o.After) && !producersDone.Load() {
				time.Sleep(20 * time.Microsecond)
			}
			switch o.K {
			case "stop":
				_ = rt.Stop(context.Background())
				t := w.ticket.Add(1)
				stopMu.Lock()
				stops = append(stops, t)
				stopMu.Unlock()
			case "quiesce":
				qdone := make(chan struct{})
				go func() { // the clients' RECVACK side: sessions close, pending acks clear
					for {
						select {
						case <-qdone:
							return
						default:
						}
						for _, u := range uidAlpha {
							for s := uint64(1); s <= 3; s++ {
								_ = rt.SessionClosed(context.Background(), delivery.SessionClosed{UID: u, SessionID: s})
							}
						}
						time.Sleep(100 * time.Microsecond)
					}
				}()
				err := rt.Quiesce(context.Background())
				t := w.ticket.Add(1)
				close(qdone)
				if err == nil {
					stopMu.Lock()
					stops = append(stops, t)
					stopMu.Unlock()
				}
				_ = rt.Stop(context.Background())
				t = w.ticket.Add(1)
				stopMu.Lock()
				stops = append(stops, t)
				stopMu.Unlock()
			case "start":
				_ = rt.Start(context.Background())
			}
		}
	}()
	wg.Wait()
	producersDone.Store(true)
	<-ctlDone
	_ = rt.Stop(context.Background())
	stops = append(stops, w.ticket.Add(1))
	sort.Slice(stops, func(i, j int) bool { return stops[i] < stops[j] })
	for _, o := range ctl {
		flags[o.K] = true
	}

	// attribute every port call to its plan: program order per goroutine
	evs := w.sorted()
	byG := map[uint64][]*pev{}
	var gids []uint64
	for _, e := range evs {
		if _, ok := byG[e.gid]; !ok {
			gids = append(gids, e.gid)
		}
		byG[e.gid] = append(byG[e.gid], e)
	}
	perPlanEvents := make([][]*pev, len(w.plans))
	perPlanAtts := make([][]att, len(w.plans))
	unattributed := 0
	for _, g := range gids {
		stream := byG[g]
		worker := false
		for _, e := range stream {
			if e.kind == kPresence {
				worker = true
				break
			}
		}
		if worker {
			cur := -1
			for _, e := range stream {
				if e.kind == kPresence {
					cur = e.plan
				}
				e.plan = cur
			}
		} else {
			pl := -1
			for _, e := range stream {
				if e.plan >= 0 {
					pl = e.plan
					break
				}
			}
			for _, e := range stream {
				e.plan = pl
			}
		}
		// split the stream into maximal runs of one plan and group each run
		start := 0
		for i := 1; i <= len(stream); i++ {
			if i == len(stream) || stream[i].plan != stream[start].plan {
				pl := stream[start].plan
				if pl >= 0 && pl < len(w.plans) {
					perPlanEvents[pl] = append(perPlanEvents[pl], stream[start:i]...)
					for _, a := range groupAttempts(stream[start:i], in.Cfg.Local, false) {
						perPlanAtts[pl] = append(perPlanAtts[pl], a)
					}
				} else {
					for _, e := range stream[start:i] {
						// without a presence port a plan fails before any port call that names it:
						// its terminal observation cannot be attributed and is not compared
						if !(in.Cfg.NoPresence && e.kind == kTerminal) {
							unattributed++
						}
					}
				}
				start = i
			}
		}
	}
	it := newInterner()
	var rows []string
	obs := []map[string]any{}
	accepted, natts, maxShardLoad := 0, 0, 0
	shardLoad := map[int]int{}
	for i, p := range w.plans {
		o := collectPlanObs(w, perPlanEvents[i], false)
		as := perPlanAtts[i]
		sort.SliceStable(as, func(x, y int) bool { return as[x].t0 < as[y].t0 })
		o.atts = as
		natts += len(as)
		if len(o.terminal) > 0 {
			o.class = o.terminal[0]
		}
		planFlags(flags, p, o)
		e := enq[i]
		var stop uint64
		if e.res == 0 {
			accepted++
			shardLoad[e.shard]++
			if shardLoad[e.shard] > maxShardLoad {
				maxShardLoad = shardLoad[e.shard]
			}
			for _, s := range stops {
				if s > e.t1 {
					stop = s
					break
				}
			}
		}
		switch e.res {
		case 1:
			flags["closed"] = true
		case 2, 3:
			flags["invalid"] = true
		case 4:
			flags["enqctx"] = true
		}
		term := make([]uint64, len(o.terminal))
		for k, l := range o.terminal {
			term[k] = uint64(l)
		}
		rows = append(rows, vh.App("RtPlan", coqPlan(p), coqAnswers(it, p.Answers), vh.B(p.PresPanic), vh.B(p.Cx0),
			"("+vh.N(e.t0)+", "+vh.N(e.t1)+", "+vh.N(uint64(e.res))+")", vh.N(uint64(e.shard)),
			vh.N(o.first), vh.N(o.last), vh.N(stop), vh.NList(term), coqPres(it, o)))
		if len(obs) < 30 {
			obs = append(obs, map[string]any{"enq": []uint64{e.t0, e.t1, uint64(e.res)}, "shard": e.shard, "first": o.first, "last": o.last, "stop": stop,
				"presence": o.presence, "offline": o.offline, "attempts": len(as), "terminal": o.terminal})
		}
	}
	if unattributed > 0 {
		flags["unattributed"] = true
	}
	return vh.Result{
		Coq:     it.wrap(vh.App("CRt", coqCfg(in.Cfg), zInt(in.Cfg.Workers), vh.N(uint64(unattributed)), vh.List(rows))),
		Obs:     obs,
		Class:   fmt.Sprintf("rt,workers>1=%v,oc>1=%v,sameshard=%v,ctl=%v,retry=%v,narrow-then-error=%v", in.Cfg.Workers > 1, in.Cfg.OC > 1 || in.Cfg.OC <= 0, maxShardLoad >= 2, ctlStr(flags), flags["retry"], flags["narrowerr"]),
		Trivial: accepted < 2 || natts == 0,
	}
}
