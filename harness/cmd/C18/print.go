package main

import (
	"time"

	"github.com/WuKongIM/WuKongIM/internal/verifh/vh"
	"github.com/WuKongIM/WuKongIM/pkg/controller/command"
	"github.com/WuKongIM/WuKongIM/pkg/controller/state"
)

// Coq renderings of pkg/controller/state and pkg/controller/command values
// (constructors of Model/CtrlFSM.v, fields in the order of the Go structs).

// tm renders a time.Time: 0 for the zero time, Unix nanoseconds otherwise
// (the generator only draws instants between 1970-01-01T00:00:01Z and 2200).
func tm(t time.Time) string {
	if t.IsZero() {
		return "0"
	}
	n := t.UnixNano()
	if n <= 0 {
		panic("time outside the modelled range")
	}
	return vh.N(uint64(n))
}

func u64s(xs []uint64) string { return vh.NList(xs) }

// str renders a Go string as bytes: the name of the regenerated constant when it is one of
// the enum / reason strings of Gen/Consts_C18.v, (rp n b rest) for a long run of one byte, hex otherwise.
func str(s string) string {
	if s == "" {
		return "[]"
	}
	if n, ok := constName[s]; ok {
		return n
	}
	if len(s) >= 24 {
		k := 1
		for k < len(s) && s[k] == s[0] {
			k++
		}
		if k >= 16 {
			return vh.App("rp", vh.N(uint64(k)), vh.N(uint64(s[0])), str(s[k:]))
		}
	}
	return vh.HexS(s)
}

func coqNode(n state.Node) string {
	roles := vh.ListOf(n.Roles, func(r state.NodeRole) string { return str(string(r)) })
	return vh.App("Nd", vh.N(n.NodeID), str(n.Name), str(n.Addr), roles, str(string(n.JoinState)), str(string(n.Status)), vh.N(uint64(n.CapacityWeight)))
}

func coqVoter(c state.ControllerVoter) string {
	return vh.App("CV", vh.N(c.NodeID), str(c.Addr), str(string(c.Role)))
}

func coqAssign(a state.SlotAssignment) string {
	return vh.App("SA", vh.N(uint64(a.SlotID)), u64s(a.DesiredPeers), vh.N(a.ConfigEpoch), vh.N(a.PreferredLeader))
}

func coqTable(t state.HashSlotTable) string {
	rs := vh.ListOf(t.Ranges, func(r state.HashSlotRange) string {
		return vh.App("HR", vh.N(uint64(r.From)), vh.N(uint64(r.To)), vh.N(uint64(r.SlotID)))
	})
	return vh.App("HT", vh.N(uint64(t.Version)), vh.N(uint64(t.SlotCount)), rs)
}

func coqTask(t state.ReconcileTask) string {
	pp := vh.ListOf(t.ParticipantProgress, func(p state.TaskParticipantProgress) string {
		return vh.App("PP", vh.N(p.NodeID), vh.N(uint64(p.Attempt)), str(string(p.Status)), str(p.LastError))
	})
	return vh.App("TK", str(t.TaskID), vh.N(uint64(t.SlotID)), str(string(t.Kind)), str(string(t.Step)),
		vh.N(t.SourceNode), vh.N(t.TargetNode), u64s(t.TargetPeers), str(string(t.CompletionPolicy)), pp,
		vh.N(t.ConfigEpoch), vh.N(uint64(t.Attempt)), str(string(t.Status)), str(t.LastError),
		vh.N(uint64(t.PhaseIndex)), vh.N(t.ObservedConfigIndex), u64s(t.ObservedVoters), u64s(t.ObservedLearners))
}

func coqHealth(h state.NodeHealthReport) string {
	return vh.App("HRp", vh.N(h.NodeID), str(string(h.Status)), vh.B(h.RuntimeReady), vh.N(h.ObservedControlRevision),
		vh.N(h.ObservedSlotRevision), vh.N(h.ReportSeq), vh.Z(h.ReportedAtUnixMilli), vh.N(h.AppliedRaftIndex), str(h.ErrorCode))
}

func coqConfig(c state.ClusterConfig) string {
	return vh.App("Cfg", vh.N(uint64(c.SlotCount)), vh.N(uint64(c.HashSlotCount)), vh.N(uint64(c.ReplicaCount)), vh.N(uint64(c.DefaultCapacityWeight)))
}

// template is a minimal valid cluster state used to evaluate the opaque parts
// of state.Validate (scheduled backup, ops MCP credentials) through the public API.
func template(owner uint64) state.ClusterState {
	id := owner
	if id == 0 {
		id = 1
	}
	table, err := state.BuildInitialHashSlotTable(1, state.BackupHashSlotCount)
	if err != nil {
		panic(err)
	}
	return state.ClusterState{
		SchemaVersion: state.CurrentSchemaVersion, ClusterID: "t", Revision: 1,
		Config:      state.ClusterConfig{SlotCount: 1, HashSlotCount: state.BackupHashSlotCount, ReplicaCount: 1},
		Controllers: []state.ControllerVoter{{NodeID: id, Addr: "a", Role: state.ControllerRoleVoter}},
		Nodes: []state.Node{{NodeID: id, Addr: "a", Roles: []state.NodeRole{state.NodeRoleControllerVoter, state.NodeRoleData},
			JoinState: state.NodeJoinStateActive, Status: state.NodeStatusAlive, CapacityWeight: 1}},
		HashSlots: table,
	}
}

// coqSB renders a ScheduledBackupState as the opaque blob (SB id valid active_backup active_restore):
// id names its JSON, valid is validateScheduledBackup evaluated through state.Validate on the template.
func (t *tables) coqSB(sb *state.ScheduledBackupState) string {
	if sb == nil {
		return vh.None()
	}
	tpl := template(0)
	c := sb.Clone()
	tpl.ScheduledBackup = &c
	valid := tpl.Validate() == nil
	return vh.Some(vh.App("SB", vh.N(uint64(t.blob(sb))), vh.B(valid), vh.B(sb.ActiveBackup != nil), vh.B(sb.ActiveRestore != nil)))
}

// coqOps renders an OpsMCPState as (OB id core_valid enabled owner); core_valid is
// validateOpsMCP with the owner check satisfied (the owner check itself is modelled).
func (t *tables) coqOps(o *state.OpsMCPState) string {
	if o == nil {
		return vh.None()
	}
	tpl := template(o.OwnerNodeID)
	c := o.Clone()
	tpl.OpsMCP = &c
	core := tpl.Validate() == nil
	return vh.Some(vh.App("OB", vh.N(uint64(t.blob(o))), vh.B(core), vh.B(o.Enabled), vh.N(o.OwnerNodeID)))
}

func (t *tables) coqState(s state.ClusterState) string {
	return vh.App("CS", vh.N(uint64(s.SchemaVersion)), str(s.ClusterID), vh.N(s.Revision), vh.N(s.AppliedRaftIndex), tm(s.UpdatedAt),
		t.share(coqConfig(s.Config)), t.share(vh.ListOf(s.Controllers, coqVoter)), t.share(vh.ListOf(s.Nodes, func(n state.Node) string { return t.share(coqNode(n)) })),
		t.share(vh.ListOf(s.Slots, coqAssign)), t.share(vh.ListOf(s.NodeHealthReports, coqHealth)), t.share(coqTable(s.HashSlots)),
		t.share(vh.ListOf(s.Tasks, func(k state.ReconcileTask) string { return t.share(coqTask(k)) })),
		t.coqSB(s.ScheduledBackup), t.coqOps(s.OpsMCP), str(s.Checksum))
}

func opt(present bool, s func() string) string {
	if !present {
		return vh.None()
	}
	return vh.Some(s())
}

// normalizedSB / normalizedOps: the value a Replace… handler stores is the
// payload after ClusterState.Normalize; the command carries that blob.
func normalizedSB(sb *state.ScheduledBackupState) *state.ScheduledBackupState {
	if sb == nil {
		return nil
	}
	c := sb.Clone()
	w := state.ClusterState{ScheduledBackup: &c}
	w.Normalize()
	return w.ScheduledBackup
}

func normalizedOps(o *state.OpsMCPState) *state.OpsMCPState {
	if o == nil {
		return nil
	}
	c := o.Clone()
	w := state.ClusterState{OpsMCP: &c}
	w.Normalize()
	return w.OpsMCP
}

func (t *tables) coqCommand(c command.Command) string {
	exp := vh.None()
	if c.ExpectedRevision != nil {
		exp = vh.Some(vh.N(*c.ExpectedRevision))
	}
	initS := opt(c.Init != nil, func() string {
		return vh.App("IC", str(c.Init.ClusterID), t.share(coqConfig(c.Init.Config)), t.share(vh.ListOf(c.Init.Controllers, coqVoter)),
			t.share(vh.ListOf(c.Init.Nodes, func(n state.Node) string { return t.share(coqNode(n)) })))
	})
	node := opt(c.Node != nil, func() string { return t.share(coqNode(*c.Node)) })
	promo := opt(c.ControllerVoterPromotion != nil, func() string {
		p := c.ControllerVoterPromotion
		prev := vh.None()
		if p.ExpectedPreviousVoters != nil {
			prev = vh.Some(u64s(p.ExpectedPreviousVoters))
		}
		return vh.App("PR", vh.N(p.TargetNodeID), str(p.TargetAddr), prev, vh.N(p.ObservedConfigIndex), u64s(p.ObservedVoters))
	})
	assign := opt(c.Assignment != nil, func() string { return coqAssign(*c.Assignment) })
	task := opt(c.Task != nil, func() string { return t.share(coqTask(*c.Task)) })
	phase := opt(c.SlotReplicaMovePhase != nil, func() string {
		p := c.SlotReplicaMovePhase
		return vh.App("PH", str(p.TaskID), vh.N(uint64(p.SlotID)), vh.N(p.ConfigEpoch), vh.N(uint64(p.Attempt)), vh.N(uint64(p.ExpectedPhaseIndex)),
			str(string(p.NextStep)), vh.N(p.ObservedConfigIndex), u64s(p.ObservedVoters), u64s(p.ObservedLearners))
	})
	commit := opt(c.SlotReplicaMoveCommit != nil, func() string {
		p := c.SlotReplicaMoveCommit
		return vh.App("CM", str(p.TaskID), vh.N(uint64(p.SlotID)), vh.N(p.ConfigEpoch), vh.N(uint64(p.Attempt)), vh.N(p.ObservedConfigIndex), u64s(p.ObservedVoters))
	})
	result := opt(c.TaskResult != nil, func() string {
		p := c.TaskResult
		return vh.App("TR", str(p.TaskID), vh.N(uint64(p.SlotID)), str(string(p.TaskKind)), vh.N(p.ConfigEpoch), vh.N(uint64(p.Attempt)), str(p.Err))
	})
	progress := opt(c.TaskProgress != nil, func() string {
		p := c.TaskProgress
		return vh.App("TP", str(p.TaskID), vh.N(uint64(p.SlotID)), str(string(p.TaskKind)), vh.N(p.ConfigEpoch), vh.N(uint64(p.TaskAttempt)),
			vh.N(p.ParticipantNodeID), vh.N(uint64(p.ParticipantAttempt)), str(string(p.Status)), str(p.Err))
	})
	health := opt(c.NodeHealth != nil, func() string { return coqHealth(*c.NodeHealth) })
	hs := opt(c.HashSlots != nil, func() string { return t.share(coqTable(*c.HashSlots)) })
	return vh.App("Cmd", str(string(c.Kind)), tm(c.IssuedAt), exp, initS, node, vh.ListOf(c.Controllers, coqVoter), promo, assign, task,
		phase, commit, result, progress, health, hs, t.coqSB(normalizedSB(c.ScheduledBackup)), t.coqOps(normalizedOps(c.OpsMCP)))
}
