// Harness for C18: the controller state machine applies a committed command
// log deterministically.
//
// One case = one command log (strictly increasing Raft indices) plus a list of
// scenarios.  The log is first applied one entry at a time on a fresh
// fsm.StateMachine (the reference run); every scenario then applies the same log
// on another fresh machine with its own batch partition, injected store
// failures and restarts (new machine, Load from the store, replay from an
// earlier log position).  After every step the published state
// (StateMachine.Snapshot), the persisted state (what the store holds) and the
// per-entry ApplyResults are printed.  Coq evaluates the model (Model/CtrlFSM.v)
// on the same log/scenarios and the monitor on the implementation's
// observations alone.
package main

import (
	"context"
	"encoding/json"
	"errors"
	"fmt"
	"os"
	"sort"
	"strings"

	"github.com/WuKongIM/WuKongIM/internal/verifh/vh"
	"github.com/WuKongIM/WuKongIM/pkg/controller/command"
	"github.com/WuKongIM/WuKongIM/pkg/controller/fsm"
	"github.com/WuKongIM/WuKongIM/pkg/controller/state"
)

// ---- input ---------------------------------------------------------------------

type op struct {
	// Gap is added to the previous Raft index (at least 1): indices stay strictly
	// increasing when the shrinker deletes ops.
	Gap  uint64 `json:"gap"`
	Term uint64 `json:"term"`
	// Cmd is the command.Encode envelope of the command (what Raft replicates).
	Cmd json.RawMessage `json:"cmd"`
}

type step struct {
	// N > 0: ApplyBatch of the next N entries.  N == 0: restart.
	N int `json:"n"`
	// Mode of the store for this batch: 0 ok, 1 Save fails and persists nothing,
	// 2 Save persists the file but reports an error (crash after rename).
	Mode int `json:"mode,omitempty"`
	// Back (restart only): replay starts Back entries before the last acknowledged position.
	Back int `json:"back,omitempty"`
}

type input struct {
	Base  uint64   `json:"base"`
	Ops   []op     `json:"ops"`
	Scens [][]step `json:"scens"`
}

// ---- the store -------------------------------------------------------------------

var errInjected = errors.New("injected store failure")

// memStore keeps the bytes statefile.Store would write (state.Encode) and loads
// through state.Decode, so a restart sees exactly what a state file round trip gives.
type memStore struct {
	data      []byte
	has       bool
	mode      int
	saves     int
	lastSaved *state.ClusterState // the value handed to Save by the state machine
	encodeErr bool
}

func (s *memStore) Load(ctx context.Context) (state.ClusterState, error) {
	if !s.has {
		return state.ClusterState{}, fmt.Errorf("memstore: %w", os.ErrNotExist)
	}
	return state.Decode(s.data)
}

func (s *memStore) Save(ctx context.Context, st state.ClusterState) error {
	s.saves++
	c := st.Clone()
	s.lastSaved = &c
	data, err := state.Encode(st)
	if err != nil {
		s.encodeErr = true
		return err
	}
	switch s.mode {
	case 1:
		return errInjected
	case 2:
		s.data, s.has = data, true
		return errInjected
	}
	s.data, s.has = data, true
	return nil
}

// ---- observation tables -------------------------------------------------------------

type tables struct {
	bodies   []string // Coq terms of distinct state bodies (applied index and checksum blanked)
	bodyIdx  map[string]int
	blobIdx  map[string]int // canonical JSON of ScheduledBackup / OpsMCP values -> id
	transIdx map[string]int
	srefs    []string // distinct observed states (SR body applied checksum valid checksum_ok)
	srefIdx  map[string]int
	results  []string // distinct ApplyResults
	resIdx   map[string]int
	shared   []string // sub-terms bound once by "let vK := ... in" around the case term
	shareIdx map[string]int
}

// share binds a (large, repeated) sub-term once and returns the bound variable.
func (t *tables) share(term string) string {
	if len(term) < 24 {
		return term
	}
	return fmt.Sprintf("v%d", intern(&t.shared, t.shareIdx, term))
}

// wrap puts the let-bindings of the shared sub-terms around the case term.
func (t *tables) wrap(term string) string {
	var b strings.Builder
	b.WriteString("(")
	for i, d := range t.shared {
		fmt.Fprintf(&b, "let v%d := %s in ", i, d)
	}
	b.WriteString(term)
	b.WriteString(")")
	return b.String()
}

func newTables() *tables {
	return &tables{bodyIdx: map[string]int{}, blobIdx: map[string]int{}, transIdx: map[string]int{}, srefIdx: map[string]int{}, resIdx: map[string]int{}, shareIdx: map[string]int{}}
}

func intern(list *[]string, idx map[string]int, term string) uint64 {
	if i, ok := idx[term]; ok {
		return uint64(i)
	}
	i := len(*list)
	idx[term] = i
	*list = append(*list, term)
	return uint64(i)
}

func (t *tables) blob(v any) int {
	b, err := json.Marshal(v)
	if err != nil {
		panic(err)
	}
	k := string(b)
	if i, ok := t.blobIdx[k]; ok {
		return i
	}
	i := len(t.blobIdx) + 1
	t.blobIdx[k] = i
	return i
}

func (t *tables) trans(v []fsm.TaskTransition) int {
	if len(v) == 0 {
		return 0
	}
	b, err := json.Marshal(v)
	if err != nil {
		panic(err)
	}
	k := string(b)
	if i, ok := t.transIdx[k]; ok {
		return i
	}
	i := len(t.transIdx) + 1
	t.transIdx[k] = i
	return i
}

// sref interns an observed state (SR body applied checksum valid checksum_ok) and returns its id.
func (t *tables) sref(st state.ClusterState) uint64 {
	body := st.Clone()
	body.AppliedRaftIndex = 0
	body.Checksum = ""
	kb, err := json.Marshal(body)
	if err != nil {
		panic(err)
	}
	k := string(kb)
	i, ok := t.bodyIdx[k]
	if !ok {
		i = len(t.bodies)
		t.bodyIdx[k] = i
		t.bodies = append(t.bodies, t.coqState(body))
	}
	valid := st.Revision != 0 && st.Validate() == nil
	ckok := false
	if sum, err := state.Checksum(st); err == nil && sum == st.Checksum {
		ckok = true
	}
	return intern(&t.srefs, t.srefIdx, vh.App("SR", vh.N(uint64(i)), vh.N(st.AppliedRaftIndex), str(st.Checksum), vh.B(valid), vh.B(ckok)))
}

// some / none of an optional interned id: 0 = None, id+1 = Some id
func someID(id uint64) string { return vh.N(id + 1) }
func noID() string            { return "0" }

// ---- running ---------------------------------------------------------------------------

type entry struct {
	idx, term uint64
	cmd       command.Command
}

func decodeLog(in input) []entry {
	out := make([]entry, 0, len(in.Ops))
	idx := in.Base
	for _, o := range in.Ops {
		g := o.Gap
		if g == 0 {
			g = 1
		}
		idx += g
		cmd, err := command.Decode(o.Cmd)
		if err != nil {
			panic(fmt.Sprintf("input command does not decode: %v", err))
		}
		out = append(out, entry{idx: idx, term: o.Term, cmd: cmd})
	}
	return out
}

func resultClass(r fsm.ApplyResult) uint64 {
	n, c := 0, uint64(0)
	if r.Changed {
		n, c = n+1, 1
	}
	if r.Updated {
		n, c = n+1, 2
	}
	if r.Noop {
		n, c = n+1, 3
	}
	if r.Rejected {
		n, c = n+1, 4
	}
	if n > 1 {
		return 9
	}
	return c
}

func (t *tables) coqResult(r fsm.ApplyResult) string {
	return vh.N(t.result(r))
}

func (t *tables) result(r fsm.ApplyResult) uint64 {
	ts := vh.ListOf(r.TaskTransitions, func(x fsm.TaskTransition) string {
		id := x.Before.TaskID
		if !x.BeforeValid {
			id = x.After.TaskID
		}
		return vh.App("TS", str(id), vh.B(x.BeforeValid), vh.B(x.AfterValid))
	})
	return intern(&t.results, t.resIdx, vh.App("Rs", vh.N(resultClass(r)), str(r.Reason), vh.N(r.Revision), vh.N(r.AppliedRaftIndex), ts, vh.N(uint64(t.trans(r.TaskTransitions)))))
}

type runner struct {
	t     *tables
	store *memStore
	sm    *fsm.StateMachine
	trace []fsm.ApplyResult // every result, in order (for the evidence only)
}

func newRunner(t *tables) *runner {
	st := &memStore{}
	sm, err := fsm.New(st)
	if err != nil {
		panic(err)
	}
	return &runner{t: t, store: st, sm: sm}
}

func (r *runner) storeRef() string {
	if !r.store.has {
		return noID()
	}
	st, err := state.Decode(r.store.data)
	if err != nil {
		// a persisted file that does not decode: report an invalid reference
		return someID(intern(&r.t.srefs, r.t.srefIdx, vh.App("SR", "0", "0", str("undecodable"), "false", "false")))
	}
	return someID(r.t.sref(st))
}

// batch applies log[from:to] in one ApplyBatch and renders the step observation.
func (r *runner) batch(log []entry, from, to, mode int) (string, bool) {
	cmds := make([]fsm.AppliedCommand, 0, to-from)
	for _, e := range log[from:to] {
		cmds = append(cmds, fsm.AppliedCommand{Index: e.idx, Term: e.term, Command: e.cmd})
	}
	r.store.mode = mode
	r.store.lastSaved = nil
	res, err := r.sm.ApplyBatch(context.Background(), cmds)
	r.store.mode = 0
	r.trace = append(r.trace, res.Results...)
	results := vh.ListOf(res.Results, r.t.coqResult)
	final := noID()
	if err == nil {
		final = someID(r.t.sref(res.FinalState))
	}
	saved := noID()
	if r.store.lastSaved != nil {
		saved = someID(r.t.sref(*r.store.lastSaved))
	}
	pub := vh.N(r.t.sref(r.sm.Snapshot(context.Background())))
	return vh.App("SO", "0", vh.N(uint64(to-from)), vh.N(uint64(mode)), results, vh.B(err != nil), final, saved, pub, r.storeRef(), vh.B(r.sm.IsDegraded())), err != nil
}

// restart replaces the machine by a new one loaded from the same store.
func (r *runner) restart(cursor int) string {
	sm, err := fsm.New(r.store)
	if err != nil {
		panic(err)
	}
	lerr := sm.Load(context.Background())
	r.sm = sm
	pub := vh.N(r.t.sref(sm.Snapshot(context.Background())))
	return vh.App("SO", "1", vh.N(uint64(cursor)), "0", "[]", vh.B(lerr != nil), noID(), noID(), pub, r.storeRef(), vh.B(sm.IsDegraded()))
}

// scenario interprets steps over the log; robust against any steps / log length.
func (r *runner) scenario(log []entry, steps []step) []string {
	var out []string
	cursor, acked := 0, 0
	needRestart, broken := false, false
	doRestart := func(back int) {
		if back < 0 {
			back = 0
		}
		c := acked - back
		if c < 0 {
			c = 0
		}
		cursor = c
		out = append(out, r.restart(cursor))
		needRestart = false
	}
	doBatch := func(n, mode int) {
		if needRestart {
			doRestart(0)
		}
		if cursor >= len(log) {
			return
		}
		to := cursor + n
		if to > len(log) {
			to = len(log)
		}
		s, failed := r.batch(log, cursor, to, mode)
		out = append(out, s)
		if failed {
			needRestart = true
			if mode == 0 {
				// ApplyBatch failed although the store was told to succeed (e.g. it was handed a
				// state that does not encode): the observation is kept, the scenario ends here
				broken = true
			}
		} else {
			cursor = to
			if cursor > acked {
				acked = cursor
			}
		}
	}
	for _, s := range steps {
		if broken {
			return out
		}
		if s.N <= 0 {
			doRestart(s.Back)
			continue
		}
		m := s.Mode
		if m < 0 || m > 2 {
			m = 0
		}
		doBatch(s.N, m)
	}
	for (cursor < len(log) || needRestart) && !broken {
		if needRestart {
			doRestart(0)
			continue
		}
		doBatch(len(log)-cursor, 0)
	}
	return out
}

func run(in input) vh.Result {
	log := decodeLog(in)
	t := newTables()
	// commands first, so that blob ids of payloads are assigned before states
	entries := vh.ListOf(log, func(e entry) string {
		return vh.App("En", vh.N(e.idx), vh.N(e.term), t.coqCommand(e.cmd))
	})
	single := make([]step, len(log))
	for i := range single {
		single[i] = step{N: 1}
	}
	refRunner := newRunner(t)
	ref := refRunner.scenario(log, single)
	scens := make([]string, 0, len(in.Scens))
	for _, sc := range in.Scens {
		scens = append(scens, vh.List(newRunner(t).scenario(log, sc)))
	}
	initRef := vh.N(t.sref(newRunner(t).sm.Snapshot(context.Background())))
	coq := t.wrap(vh.App("C18Case", vh.List(t.bodies), vh.List(t.srefs), vh.List(t.results), initRef, entries, vh.List(ref), vh.List(scens)))

	kinds := map[string]bool{}
	for _, e := range log {
		kinds[string(e.cmd.Kind)] = true
	}
	restarts, fails := 0, 0
	for _, sc := range in.Scens {
		for _, s := range sc {
			if s.N <= 0 {
				restarts++
			} else if s.Mode != 0 {
				fails++
			}
		}
	}
	class := fmt.Sprintf("ops=%s,kinds=%s,states=%s,restarts=%s,fails=%s", bucket(len(log)), bucket(len(kinds)), bucket(len(t.bodies)), bucket(restarts), bucket(fails))
	var outcomes []string
	names := []string{"none", "changed", "updated", "noop", "rejected"}
	for i, res := range refRunner.trace {
		if i < len(log) {
			c := resultClass(res)
			n := "malformed"
			if int(c) < len(names) {
				n = names[c]
			}
			outcomes = append(outcomes, fmt.Sprintf("%d %s %s %s rev=%d applied=%d", log[i].idx, log[i].cmd.Kind, n, res.Reason, res.Revision, res.AppliedRaftIndex))
		}
	}
	return vh.Result{
		Coq:     coq,
		Obs:     map[string]any{"bodies": len(t.bodies), "reference_run": outcomes},
		Class:   class,
		Trivial: len(log) == 0,
	}
}

func bucket(n int) string {
	switch {
	case n == 0:
		return "0"
	case n <= 2:
		return "1-2"
	case n <= 6:
		return "3-6"
	case n <= 15:
		return "7-15"
	default:
		return "16+"
	}
}

func sortedKeys(m map[string]int) []string {
	ks := make([]string, 0, len(m))
	for k := range m {
		ks = append(ks, k)
	}
	sort.Strings(ks)
	return ks
}

func main() {
	vh.Main(vh.Harness[input]{EmitConsts: emitConsts, Gen: gen, Run: run})
}
