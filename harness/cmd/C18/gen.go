package main

import (
	"context"
	"fmt"
	"math/rand/v2"
	"sort"
	"strings"
	"time"

	"github.com/WuKongIM/WuKongIM/internal/verifh/vh"
	"github.com/WuKongIM/WuKongIM/pkg/controller/command"
	"github.com/WuKongIM/WuKongIM/pkg/controller/fsm"
	"github.com/WuKongIM/WuKongIM/pkg/controller/state"
)

// The generator is a small planner: it applies every command it draws to a
// scratch state machine, so that the next command can be aimed at the current
// state (right task id / attempt / epoch / phase / revision) or deliberately
// miss it by one field.  All randomness comes from r.

type planner struct {
	r    *rand.Rand
	sm   *fsm.StateMachine
	idx  uint64
	ops  []op
	now  int64 // seconds
	cfg  state.ClusterConfig
	seqs map[uint64]uint64
	// lastHealth is the last health report drawn; re-sending it is a no-op that must leave the
	// stored report (and its applied_raft_index) alone
	lastHealth *state.NodeHealthReport
}

func (p *planner) cur() state.ClusterState { return p.sm.Snapshot(context.Background()) }

func (p *planner) push(cmd command.Command) {
	r := p.r
	// IssuedAt: zero, UTC or +08:00 instants
	switch r.IntN(10) {
	case 0, 1, 2:
	case 3:
		p.now += int64(r.IntN(5))
		cmd.IssuedAt = time.Unix(p.now, int64(r.IntN(1000))*1000003).In(time.FixedZone("E8", 8*3600))
	default:
		p.now += int64(r.IntN(5))
		cmd.IssuedAt = time.Unix(p.now, int64(r.IntN(3))*500000000).UTC()
	}
	data, err := command.Encode(cmd)
	if err != nil {
		panic(err)
	}
	gap := uint64(1)
	if vh.Chance(r, 0.2) {
		gap = uint64(1 + r.IntN(4))
	}
	p.ops = append(p.ops, op{Gap: gap, Term: uint64(1 + r.IntN(3)), Cmd: data})
	p.idx += gap
	dec, err := command.Decode(data)
	if err != nil {
		panic(err)
	}
	// the scratch machine only steers the generator; a failure here must not stop the run
	_, _ = p.sm.Apply(context.Background(), p.idx, dec)
}

// expected draws the ExpectedRevision guard: absent, current, or stale.
func (p *planner) expected() *uint64 {
	rev := p.cur().Revision
	switch p.r.IntN(10) {
	case 0, 1, 2, 3:
		return nil
	case 4:
		v := rev + 1
		return &v
	case 5:
		v := uint64(0)
		if rev > 0 {
			v = rev - 1
		}
		return &v
	default:
		return &rev
	}
}

func addr(id uint64) string { return fmt.Sprintf("n%d", id) }

func mkNode(id uint64, voter, data bool) state.Node {
	n := state.Node{NodeID: id, Name: addr(id), Addr: addr(id), JoinState: state.NodeJoinStateActive, Status: state.NodeStatusAlive, CapacityWeight: 10}
	if voter {
		n.Roles = append(n.Roles, state.NodeRoleControllerVoter)
	}
	if data {
		n.Roles = append(n.Roles, state.NodeRoleData)
	}
	return n
}

func (p *planner) initCommand() command.Command {
	r := p.r
	p.cfg = state.ClusterConfig{
		SlotCount:             uint32(2 + r.IntN(3)),
		HashSlotCount:         vh.Pick(r, uint16(8), 16, 16, 256),
		ReplicaCount:          vh.Pick(r, uint16(1), 2, 3, 3),
		DefaultCapacityWeight: vh.Pick(r, uint32(0), 10),
	}
	nodes := []state.Node{mkNode(1, true, true), mkNode(2, true, true), mkNode(3, false, true), mkNode(4, false, true)}
	if vh.Chance(r, 0.3) {
		nodes = append(nodes, mkNode(5, true, false))
	}
	if vh.Chance(r, 0.3) { // unsorted nodes / roles, zero weight: Normalize has work to do
		nodes[0], nodes[2] = nodes[2], nodes[0]
		nodes[1].Roles = []state.NodeRole{state.NodeRoleData, state.NodeRoleControllerVoter}
		nodes[1].CapacityWeight = 0
	}
	ctrls := []state.ControllerVoter{{NodeID: 2, Addr: "n2", Role: state.ControllerRoleVoter}, {NodeID: 1, Addr: "n1", Role: state.ControllerRoleVoter}}
	if vh.Chance(r, 0.5) {
		ctrls = ctrls[1:]
	}
	return command.Command{Kind: command.KindInitClusterState, Init: &command.InitClusterState{
		ClusterID: vh.Pick(r, "wk", "wk-c18"), Config: p.cfg, Controllers: ctrls, Nodes: nodes}}
}

func (p *planner) badInit() command.Command {
	c := p.initCommand()
	switch p.r.IntN(6) {
	case 0:
		c.Init = nil
	case 1:
		c.Init.Config.SlotCount = 0
	case 2:
		c.Init.Config.SlotCount = uint32(c.Init.Config.HashSlotCount) + 1
	case 3:
		c.Init.ClusterID = ""
	case 4:
		c.Init.Controllers = nil
	default:
		c.Init.Nodes = c.Init.Nodes[:1] // a controller references a missing node
		c.Init.Controllers = []state.ControllerVoter{{NodeID: 2, Addr: "n2", Role: state.ControllerRoleVoter}}
	}
	return c
}

func dataNodes(st state.ClusterState) []uint64 {
	var out []uint64
	for _, n := range st.Nodes {
		if n.HasRole(state.NodeRoleData) && n.JoinState == state.NodeJoinStateActive {
			out = append(out, n.NodeID)
		}
	}
	return out
}

func shuffled[T any](r *rand.Rand, xs []T) []T {
	out := append([]T(nil), xs...)
	r.Shuffle(len(out), func(i, j int) { out[i], out[j] = out[j], out[i] })
	return out
}

func sortedU64(xs []uint64) []uint64 {
	out := append([]uint64(nil), xs...)
	sort.Slice(out, func(i, j int) bool { return out[i] < out[j] })
	return out
}

func contains(xs []uint64, x uint64) bool {
	for _, y := range xs {
		if y == x {
			return true
		}
	}
	return false
}

func taskForSlot(st state.ClusterState, slot uint32) *state.ReconcileTask {
	for i := range st.Tasks {
		if st.Tasks[i].SlotID == slot {
			return &st.Tasks[i]
		}
	}
	return nil
}

func assignmentFor(st state.ClusterState, slot uint32) *state.SlotAssignment {
	for i := range st.Slots {
		if st.Slots[i].SlotID == slot {
			return &st.Slots[i]
		}
	}
	return nil
}

func progressFor(peers []uint64) []state.TaskParticipantProgress {
	var out []state.TaskParticipantProgress
	for _, p := range peers {
		out = append(out, state.TaskParticipantProgress{NodeID: p, Status: state.TaskParticipantStatusPending})
	}
	return out
}

// ---- one command per kind ------------------------------------------------------------

func (p *planner) upsertNode() command.Command {
	r, st := p.r, p.cur()
	c := command.Command{Kind: command.KindUpsertNode, ExpectedRevision: p.expected()}
	var n state.Node
	if len(st.Nodes) > 0 && vh.Chance(r, 0.7) {
		n = st.Nodes[r.IntN(len(st.Nodes))]
		n.Roles = append([]state.NodeRole(nil), n.Roles...)
	} else {
		n = mkNode(uint64(5+r.IntN(3)), vh.Chance(r, 0.3), true)
	}
	switch r.IntN(14) {
	case 0: // identical (no-op), possibly with permuted roles / zero weight
		n.Roles = shuffled(r, n.Roles)
	case 1:
		n.Status = vh.Pick(r, state.NodeStatusAlive, state.NodeStatusSuspect, state.NodeStatusDown)
	case 2:
		n.JoinState = vh.Pick(r, state.NodeJoinStateActive, state.NodeJoinStateJoining, state.NodeJoinStateLeaving, state.NodeJoinStateRemoved)
	case 3:
		n.CapacityWeight = vh.Pick(r, uint32(0), 1, 10, 20)
	case 4:
		n.Roles = []state.NodeRole{state.NodeRoleData} // may strip controller_voter from a voter: invalid state
	case 5:
		n.Roles = nil
	case 6:
		n.Addr = ""
	case 7:
		n.Status = "zombie"
	case 8:
		n.NodeID = 0
	case 9:
		n.Roles = []state.NodeRole{state.NodeRoleData, state.NodeRoleData}
	case 10:
		c.Node = nil
		return c
	case 11:
		n.Addr = n.Addr + "x"
	case 12:
		n.Roles = []state.NodeRole{state.NodeRoleControllerVoter} // may strip data from a slot peer
	default:
		n.Name = vh.Pick(r, "", "node", n.Name)
	}
	c.Node = &n
	return c
}

func (p *planner) updateVoters() command.Command {
	r, st := p.r, p.cur()
	c := command.Command{Kind: command.KindUpdateControllerVoters, ExpectedRevision: p.expected()}
	cur := append([]state.ControllerVoter(nil), st.Controllers...)
	switch r.IntN(7) {
	case 0:
		c.Controllers = shuffled(r, cur)
	case 1:
		c.Controllers = nil
	case 2: // add every voter-capable node
		for _, n := range st.Nodes {
			if n.HasRole(state.NodeRoleControllerVoter) {
				c.Controllers = append(c.Controllers, state.ControllerVoter{NodeID: n.NodeID, Addr: n.Addr, Role: state.ControllerRoleVoter})
			}
		}
		c.Controllers = shuffled(r, c.Controllers)
	case 3: // a non voter-capable node
		c.Controllers = append(cur, state.ControllerVoter{NodeID: 3, Addr: "n3", Role: state.ControllerRoleVoter})
	case 4:
		if len(cur) > 0 {
			c.Controllers = append(cur, cur[0])
		}
	case 5:
		if len(cur) > 1 {
			c.Controllers = cur[:1]
		} else {
			c.Controllers = []state.ControllerVoter{{NodeID: 2, Addr: "n2", Role: state.ControllerRoleVoter}}
		}
	default:
		c.Controllers = []state.ControllerVoter{{NodeID: 1, Addr: vh.Pick(r, "n1", ""), Role: vh.Pick(r, state.ControllerRoleVoter, state.ControllerRole("learner"))}}
	}
	return c
}

func (p *planner) promoteVoter() command.Command {
	r, st := p.r, p.cur()
	var voters []uint64
	for _, v := range st.Controllers {
		voters = append(voters, v.NodeID)
	}
	target := uint64(1 + r.IntN(6))
	next := append([]uint64(nil), voters...)
	if !contains(voters, target) {
		next = append(next, target)
	}
	pr := &command.ControllerVoterPromotion{TargetNodeID: target, TargetAddr: addr(target), ExpectedPreviousVoters: shuffled(r, voters),
		ObservedConfigIndex: uint64(1 + r.IntN(50)), ObservedVoters: shuffled(r, next)}
	switch r.IntN(10) {
	case 0:
		pr.ExpectedPreviousVoters = nil
	case 1:
		pr.ExpectedPreviousVoters = []uint64{}
	case 2:
		pr.ObservedConfigIndex = 0
	case 3:
		pr.ObservedVoters = voters
	case 4:
		pr.TargetAddr = "elsewhere"
	case 5:
		pr.TargetNodeID = 0
	case 6:
		pr.ExpectedPreviousVoters = append(pr.ExpectedPreviousVoters, 9)
	case 7:
		pr = nil
	}
	return command.Command{Kind: command.KindPromoteControllerVoter, ExpectedRevision: p.expected(), ControllerVoterPromotion: pr}
}

func (p *planner) replaceHashSlots() command.Command {
	r, st := p.r, p.cur()
	c := command.Command{Kind: command.KindReplaceHashSlotTable, ExpectedRevision: p.expected()}
	t := state.HashSlotTable{Version: st.HashSlots.Version, SlotCount: st.HashSlots.SlotCount, Ranges: append([]state.HashSlotRange(nil), st.HashSlots.Ranges...)}
	hc, sc := int(st.Config.HashSlotCount), int(st.Config.SlotCount)
	if hc == 0 {
		hc, sc = 16, 2
		t = state.HashSlotTable{Version: 1, SlotCount: 16}
	}
	resplit := func() {
		t.Ranges = nil
		from := 0
		for from < hc {
			w := 1 + r.IntN(hc/2+1)
			to := from + w - 1
			if to > hc-1 {
				to = hc - 1
			}
			t.Ranges = append(t.Ranges, state.HashSlotRange{From: uint16(from), To: uint16(to), SlotID: uint32(1 + r.IntN(sc))})
			from = to + 1
		}
	}
	switch r.IntN(9) {
	case 0: // same table
	case 1, 2:
		resplit()
	case 3:
		resplit()
		t.Ranges = shuffled(r, t.Ranges)
	case 4:
		resplit()
		t.Ranges[len(t.Ranges)-1].To-- // does not cover
	case 5:
		resplit()
		t.Ranges[0].SlotID = uint32(sc + 1)
	case 6:
		t.SlotCount++
	case 7:
		c.HashSlots = nil
		return c
	default:
		resplit()
		t.Ranges = append(t.Ranges, t.Ranges[0]) // duplicate range
	}
	c.HashSlots = &t
	return c
}

func validPlan(r *rand.Rand) *state.BackupPlan {
	return &state.BackupPlan{Revision: uint64(1 + r.IntN(3)), Enabled: vh.Chance(r, 0.5), Store: state.BackupStoreConfig{Kind: state.BackupStoreKindFile},
		Cron: "0 3 * * *", TimeZone: "UTC", RetentionCount: 1 + r.IntN(3), RateBytesPerSec: 1 << 20, WorkersPerNode: 1 + r.IntN(4),
		MaxDurationMillis: 3600 * 1000, ScheduleCursorUnixMillis: 1000, CreatedUnixMillis: 1000, UpdatedUnixMillis: 1000 + int64(r.IntN(3))}
}

func (p *planner) replaceBackup() command.Command {
	r, st := p.r, p.cur()
	c := command.Command{Kind: command.KindReplaceScheduledBackupState, ExpectedRevision: p.expected()}
	sb := state.ScheduledBackupState{Revision: uint64(1 + r.IntN(3)), ManagerSessionEpoch: uint64(r.IntN(3))}
	if st.ScheduledBackup != nil && vh.Chance(r, 0.3) {
		sb = st.ScheduledBackup.Clone() // identical: no-op
	}
	switch r.IntN(9) {
	case 0:
	case 1, 2:
		sb.Plan = validPlan(r)
	case 3:
		sb.Revision = 0
	case 4:
		sb.Plan = validPlan(r)
		sb.Plan.Cron = ""
	case 5:
		c.ScheduledBackup = nil
		return c
	case 6: // an active backup job: valid only while the task set is empty
		sb.Plan = validPlan(r)
		job := &state.ScheduledBackupJob{ID: "job-1", Trigger: state.BackupTriggerManual, Status: state.BackupJobStatusExporting, PlanRevision: 1,
			StartedAtUnixMillis: 2000, DeadlineUnixMillis: 9000, UpdatedUnixMillis: 2000}
		for i := state.BackupHashSlotCount - 1; i >= 0; i-- { // descending: Normalize sorts
			job.Slots = append(job.Slots, state.BackupSlotProgress{HashSlot: uint16(i), Status: state.BackupSlotStatusPending})
		}
		sb.ActiveBackup = job
	case 7:
		sb.History = []state.BackupTaskRecord{{ID: "h1", Kind: vh.Pick(r, "backup", "bogus"), Status: "succeeded", StartedUnixMillis: 10, CompletedUnixMillis: 20}}
	default:
		sb.Plan = validPlan(r)
		sb.ActiveArchiveOperation = &state.BackupArchiveOperation{Token: "tok", Kind: vh.Pick(r, "verify", "hold", "nope"), StartedUnixMillis: 5, ExpiresUnixMillis: 50}
	}
	c.ScheduledBackup = &sb
	return c
}

func (p *planner) replaceOps() command.Command {
	r, st := p.r, p.cur()
	c := command.Command{Kind: command.KindReplaceOpsMCPState, ExpectedRevision: p.expected()}
	cred := func(id string) state.OpsMCPCredential {
		return state.OpsMCPCredential{ID: id, DigestSHA256: strings.Repeat("ab", 32), CreatedAtUnixMillis: 7}
	}
	o := state.OpsMCPState{}
	if st.OpsMCP != nil {
		o = st.OpsMCP.Clone()
	}
	switch r.IntN(10) {
	case 0:
	case 1, 2:
		o.Enabled, o.OwnerNodeID, o.Credentials = true, uint64(1+r.IntN(4)), []state.OpsMCPCredential{cred("b"), cred("a")}
	case 3:
		o.Enabled = false
	case 4:
		o.OwnerNodeID = uint64(1 + r.IntN(7)) // owner change (rejected while enabled) or unknown node
	case 5:
		o.Enabled, o.OwnerNodeID, o.Credentials = true, 1, nil
	case 6:
		o.Credentials = []state.OpsMCPCredential{cred("a"), cred("a")}
	case 7:
		o.Credentials = []state.OpsMCPCredential{{ID: "UPPER", DigestSHA256: "zz", CreatedAtUnixMillis: 1}}
	case 8:
		c.OpsMCP = nil
		return c
	default:
		o.ProfileFenceUntilUnixMillis = int64(r.IntN(3)) - 1
	}
	c.OpsMCP = &o
	return c
}

func (p *planner) assignAndTask() command.Command {
	r, st := p.r, p.cur()
	c := command.Command{Kind: command.KindUpsertSlotAssignmentAndTask, ExpectedRevision: p.expected()}
	sc := int(st.Config.SlotCount)
	if sc == 0 {
		sc = 2
	}
	slot := uint32(1 + r.IntN(sc))
	for k := 0; k < 3 && assignmentFor(st, slot) != nil && vh.Chance(r, 0.7); k++ {
		slot = uint32(1 + r.IntN(sc)) // prefer a slot that is not assigned yet
	}
	dn := dataNodes(st)
	rc := int(st.Config.ReplicaCount)
	if rc == 0 {
		rc = 2
	}
	existing := assignmentFor(st, slot)
	if existing != nil && taskForSlot(st, slot) == nil && vh.Chance(r, 0.6) && len(existing.DesiredPeers) >= 2 {
		// leader transfer on an assigned slot
		peers := append([]uint64(nil), existing.DesiredPeers...)
		src := existing.PreferredLeader
		if src == 0 {
			src = peers[0]
		}
		tgt := peers[r.IntN(len(peers))]
		for tgt == src {
			tgt = peers[r.IntN(len(peers))]
		}
		a := state.SlotAssignment{SlotID: slot, DesiredPeers: shuffled(r, peers), ConfigEpoch: existing.ConfigEpoch, PreferredLeader: tgt}
		t := state.ReconcileTask{TaskID: fmt.Sprintf("slot-%d-lt-%d", slot, p.idx), SlotID: slot, Kind: state.TaskKindLeaderTransfer, Step: state.TaskStepTransferLeader,
			SourceNode: src, TargetNode: tgt, TargetPeers: shuffled(r, peers), CompletionPolicy: vh.Pick(r, state.TaskCompletionPolicySingleObserver, ""),
			ConfigEpoch: existing.ConfigEpoch, Status: state.TaskStatusPending}
		switch r.IntN(8) {
		case 0:
			t.TargetNode = src
		case 1:
			t.ConfigEpoch++
		case 2:
			t.SlotID = slot%uint32(sc) + 1
		}
		c.Assignment, c.Task = &a, &t
		return c
	}
	peers := shuffled(r, dn)
	if len(peers) > rc {
		peers = peers[:rc]
	}
	epoch := uint64(1 + r.IntN(3))
	if existing != nil {
		epoch = existing.ConfigEpoch + uint64(r.IntN(2))
	}
	a := state.SlotAssignment{SlotID: slot, DesiredPeers: peers, ConfigEpoch: epoch}
	if len(peers) > 0 {
		a.PreferredLeader = peers[r.IntN(len(peers))]
	}
	t := state.ReconcileTask{TaskID: fmt.Sprintf("slot-%d-bootstrap-%d", slot, epoch), SlotID: slot, Kind: state.TaskKindBootstrap, Step: state.TaskStepCreateSlot,
		TargetNode: a.PreferredLeader, TargetPeers: sortedU64(peers), CompletionPolicy: vh.Pick(r, state.TaskCompletionPolicyAllTargetPeers, ""),
		ConfigEpoch: epoch, Status: state.TaskStatusPending, Attempt: vh.Pick(r, uint32(0), 0, 0, 1, 4294967295)}
	if vh.Chance(r, 0.5) {
		t.ParticipantProgress = progressFor(sortedU64(peers))
	}
	switch r.IntN(26) {
	case 0:
		t.SlotID = slot%uint32(sc) + 1 // slot mismatch
	case 1:
		a.DesiredPeers = append(a.DesiredPeers, 9) // unknown node / wrong replica count
	case 2:
		t.TargetPeers = nil
	case 3:
		c.Task = nil
		c.Assignment = &a
		return c
	case 4:
		t.Kind = "mystery"
	case 5:
		a.ConfigEpoch = 0
	case 6:
		t.TargetNode = 0
	case 7:
		t.Status = "weird"
	}
	c.Assignment, c.Task = &a, &t
	return c
}

func (p *planner) moveTask() command.Command {
	r, st := p.r, p.cur()
	c := command.Command{Kind: command.KindUpsertSlotReplicaMoveTask, ExpectedRevision: p.expected()}
	var cands []state.SlotAssignment
	for _, a := range st.Slots {
		if taskForSlot(st, a.SlotID) == nil {
			cands = append(cands, a)
		}
	}
	if len(cands) == 0 {
		cands = st.Slots
	}
	if len(cands) == 0 {
		t := state.ReconcileTask{TaskID: "m", SlotID: 1, Kind: state.TaskKindSlotReplicaMove, Step: state.TaskStepOpenLearner, SourceNode: 1, TargetNode: 4, TargetPeers: []uint64{2, 3, 4}, ConfigEpoch: 1, Status: state.TaskStatusPending}
		c.Task = &t
		return c
	}
	a := cands[r.IntN(len(cands))]
	src := a.DesiredPeers[r.IntN(len(a.DesiredPeers))]
	tgt := uint64(0)
	for _, n := range shuffled(r, dataNodes(st)) {
		if !contains(a.DesiredPeers, n) {
			tgt = n
			break
		}
	}
	var tp []uint64
	for _, x := range a.DesiredPeers {
		if x == src {
			tp = append(tp, tgt)
		} else {
			tp = append(tp, x)
		}
	}
	t := state.ReconcileTask{TaskID: fmt.Sprintf("slot-%d-move-%d", a.SlotID, p.idx), SlotID: a.SlotID, Kind: state.TaskKindSlotReplicaMove, Step: state.TaskStepOpenLearner,
		SourceNode: src, TargetNode: tgt, TargetPeers: shuffled(r, tp), CompletionPolicy: vh.Pick(r, state.TaskCompletionPolicySingleObserver, ""),
		ConfigEpoch: a.ConfigEpoch, Status: state.TaskStatusPending}
	switch r.IntN(10) {
	case 0:
		t.Kind = state.TaskKindBootstrap
	case 1:
		t.TargetNode = src
	case 2:
		t.ConfigEpoch++
	case 3:
		t.Step = state.TaskStepCreateSlot
	case 4:
		c.Task = nil
		return c
	case 5:
		t.TargetPeers = a.DesiredPeers
	}
	c.Task = &t
	return c
}

func (p *planner) pickTask(kind state.TaskKind) *state.ReconcileTask {
	st := p.cur()
	var c []int
	for i, t := range st.Tasks {
		if kind == "" || t.Kind == kind {
			c = append(c, i)
		}
	}
	if len(c) == 0 {
		return nil
	}
	t := st.Tasks[c[p.r.IntN(len(c))]]
	return &t
}

func (p *planner) advancePhase() command.Command {
	r := p.r
	c := command.Command{Kind: command.KindAdvanceSlotReplicaMovePhase, ExpectedRevision: p.expected()}
	t := p.pickTask(state.TaskKindSlotReplicaMove)
	if t == nil {
		t = p.pickTask("")
	}
	if t == nil {
		c.SlotReplicaMovePhase = &command.SlotReplicaMovePhaseAdvance{TaskID: "none", SlotID: 1, ConfigEpoch: 1, NextStep: state.TaskStepAddLearner}
		return c
	}
	var srcPeers []uint64
	for _, x := range t.TargetPeers {
		if x == t.TargetNode {
			srcPeers = append(srcPeers, t.SourceNode)
		} else {
			srcPeers = append(srcPeers, x)
		}
	}
	ph := &command.SlotReplicaMovePhaseAdvance{TaskID: t.TaskID, SlotID: t.SlotID, ConfigEpoch: t.ConfigEpoch, Attempt: t.Attempt, ExpectedPhaseIndex: t.PhaseIndex,
		ObservedConfigIndex: uint64(10 + r.IntN(20))}
	switch t.Step {
	case state.TaskStepOpenLearner:
		ph.NextStep = state.TaskStepAddLearner
	case state.TaskStepAddLearner:
		if vh.Chance(r, 0.6) {
			ph.NextStep, ph.ObservedVoters, ph.ObservedLearners = state.TaskStepPromoteLearner, shuffled(r, srcPeers), []uint64{t.TargetNode}
		} else {
			ph.NextStep, ph.ObservedVoters = state.TaskStepRemoveVoter, shuffled(r, append(append([]uint64(nil), srcPeers...), t.TargetNode))
		}
	case state.TaskStepPromoteLearner:
		ph.NextStep, ph.ObservedVoters = state.TaskStepRemoveVoter, shuffled(r, append(append([]uint64(nil), srcPeers...), t.TargetNode))
	case state.TaskStepRemoveVoter:
		if vh.Chance(r, 0.7) {
			ph.NextStep, ph.ObservedVoters = state.TaskStepCommitAssignment, shuffled(r, t.TargetPeers)
		} else {
			ph.NextStep, ph.ObservedVoters = state.TaskStepRemoveVoter, shuffled(r, append(append([]uint64(nil), srcPeers...), t.TargetNode))
		}
	default:
		ph.NextStep = state.TaskStepAddLearner
	}
	switch r.IntN(26) {
	case 0:
		ph.ExpectedPhaseIndex++
	case 1:
		ph.Attempt++
	case 2:
		ph.ConfigEpoch++
	case 3:
		ph.ObservedConfigIndex = 0
	case 4:
		ph.NextStep = state.TaskStepCommitAssignment
	case 5:
		ph.ObservedVoters = nil
	case 6:
		ph.SlotID++
	case 7:
		ph.NextStep = ""
	case 8:
		ph.ObservedVoters = append(ph.ObservedVoters, ph.ObservedVoters...) // duplicates: invalid state
	case 9:
		c.SlotReplicaMovePhase = nil
		return c
	}
	c.SlotReplicaMovePhase = ph
	return c
}

func (p *planner) commitMove() command.Command {
	r := p.r
	c := command.Command{Kind: command.KindCommitSlotReplicaMove, ExpectedRevision: p.expected()}
	t := p.pickTask(state.TaskKindSlotReplicaMove)
	if t == nil {
		t = p.pickTask("")
	}
	if t == nil {
		c.SlotReplicaMoveCommit = &command.SlotReplicaMoveCommit{TaskID: "none", SlotID: 1, ConfigEpoch: 1, ObservedConfigIndex: 3}
		return c
	}
	cm := &command.SlotReplicaMoveCommit{TaskID: t.TaskID, SlotID: t.SlotID, ConfigEpoch: t.ConfigEpoch, Attempt: t.Attempt,
		ObservedConfigIndex: uint64(40 + r.IntN(9)), ObservedVoters: shuffled(r, t.TargetPeers)}
	switch r.IntN(15) {
	case 0:
		cm.ObservedConfigIndex = 0
	case 1:
		cm.ObservedVoters = cm.ObservedVoters[:len(cm.ObservedVoters)-1]
	case 2:
		cm.Attempt++
	case 3:
		cm.ConfigEpoch++
	case 4:
		cm.SlotID++
	case 5:
		c.SlotReplicaMoveCommit = nil
		return c
	}
	c.SlotReplicaMoveCommit = cm
	return c
}

// longErr is a failure text around the 1024-byte bound with multi-byte runes at the cut.
func longErr(r *rand.Rand) string {
	switch r.IntN(5) {
	case 0:
		return ""
	case 1:
		return "disk full"
	case 2:
		return strings.Repeat("x", 1020+r.IntN(8)) + strings.Repeat("é", 3)
	case 3:
		return strings.Repeat("y", 1021+r.IntN(4)) + "日本語" + "tail"
	default:
		return strings.Repeat("z", 1022+r.IntN(3)) + "😀😀"
	}
}

func (p *planner) taskResult(kind command.Kind) command.Command {
	r := p.r
	c := command.Command{Kind: kind, ExpectedRevision: p.expected()}
	t := p.pickTask("")
	if t == nil || vh.Chance(r, 0.08) {
		c.TaskResult = &command.TaskResult{TaskID: vh.Pick(r, "gone", "", "slot-1-bootstrap-1"), SlotID: 1, TaskKind: state.TaskKindBootstrap, ConfigEpoch: 1}
		return c
	}
	tr := &command.TaskResult{TaskID: t.TaskID, SlotID: t.SlotID, TaskKind: t.Kind, ConfigEpoch: t.ConfigEpoch, Attempt: t.Attempt}
	if kind == command.KindFailTask {
		tr.Err = longErr(r)
	}
	switch r.IntN(12) {
	case 0:
		tr.Attempt++
	case 1:
		tr.ConfigEpoch++
	case 2:
		tr.TaskKind = state.TaskKindLeaderTransfer
		if t.Kind == state.TaskKindLeaderTransfer {
			tr.TaskKind = state.TaskKindBootstrap
		}
	case 3:
		tr.SlotID++
	case 4:
		tr.SlotID = 0
	case 5:
		c.TaskResult = nil
		return c
	}
	c.TaskResult = tr
	return c
}

func (p *planner) taskProgress() command.Command {
	r := p.r
	c := command.Command{Kind: command.KindReportTaskProgress, ExpectedRevision: p.expected()}
	t := p.pickTask(state.TaskKindBootstrap)
	if t == nil {
		t = p.pickTask("")
	}
	if t == nil || vh.Chance(r, 0.05) {
		c.TaskProgress = &command.TaskProgress{TaskID: vh.Pick(r, "gone", ""), SlotID: 1, TaskKind: state.TaskKindBootstrap, ConfigEpoch: 1, ParticipantNodeID: 1, Status: state.TaskParticipantStatusDone}
		return c
	}
	node, pattempt := uint64(1+r.IntN(5)), uint32(0)
	if len(t.ParticipantProgress) > 0 && vh.Chance(r, 0.85) {
		pp := t.ParticipantProgress[r.IntN(len(t.ParticipantProgress))]
		node, pattempt = pp.NodeID, pp.Attempt
	}
	tp := &command.TaskProgress{TaskID: t.TaskID, SlotID: t.SlotID, TaskKind: t.Kind, ConfigEpoch: t.ConfigEpoch, TaskAttempt: t.Attempt, ParticipantNodeID: node,
		ParticipantAttempt: pattempt, Status: vh.Pick(r, state.TaskParticipantStatusDone, state.TaskParticipantStatusDone, state.TaskParticipantStatusFailed, state.TaskParticipantStatusPending)}
	if tp.Status == state.TaskParticipantStatusFailed {
		tp.Err = longErr(r)
	}
	switch r.IntN(14) {
	case 0:
		tp.TaskAttempt++
	case 1:
		tp.ConfigEpoch++
	case 2:
		tp.ParticipantAttempt++
	case 3:
		if tp.ParticipantAttempt > 0 {
			tp.ParticipantAttempt--
		}
	case 4:
		tp.Status = "half"
	case 5:
		tp.SlotID++
	case 6:
		tp.ParticipantNodeID = 0
	case 7:
		c.TaskProgress = nil
		return c
	case 8:
		tp.ParticipantAttempt = 4294967295
	}
	c.TaskProgress = tp
	return c
}

func (p *planner) nodeHealth() command.Command {
	r, st := p.r, p.cur()
	c := command.Command{Kind: command.KindReportNodeHealth, ExpectedRevision: p.expected()}
	id := uint64(1 + r.IntN(5))
	if len(st.NodeHealthReports) > 0 && vh.Chance(r, 0.5) {
		id = st.NodeHealthReports[r.IntN(len(st.NodeHealthReports))].NodeID // a node that already reported
	}
	h := state.NodeHealthReport{NodeID: id, Status: vh.Pick(r, state.NodeStatusAlive, state.NodeStatusAlive, state.NodeStatusSuspect, state.NodeStatusDown),
		RuntimeReady: vh.Chance(r, 0.7), ObservedControlRevision: st.Revision, ObservedSlotRevision: uint64(r.IntN(2)), ReportSeq: p.seqs[id],
		ReportedAtUnixMilli: p.now * 1000, AppliedRaftIndex: uint64(r.IntN(3))}
	if vh.Chance(r, 0.6) {
		p.seqs[id]++
		h.ReportSeq = p.seqs[id]
	} else {
		for _, old := range st.NodeHealthReports { // resend the stored report: no-op
			if old.NodeID == id && vh.Chance(r, 0.7) {
				h = old
				h.AppliedRaftIndex = uint64(r.IntN(3))
			}
		}
	}
	switch r.IntN(20) {
	case 0:
		h.NodeID = 9
	case 1:
		h.NodeID = 0
	case 2:
		h.Status = "unknown"
	case 3:
		h.ReportedAtUnixMilli = -1
	case 4:
		h.ErrorCode = strings.Repeat("e", 127+r.IntN(3))
	case 5:
		c.NodeHealth = nil
		return c
	}
	c.NodeHealth = &h
	keep := h
	p.lastHealth = &keep
	return c
}

func (p *planner) odd() command.Command {
	r := p.r
	switch r.IntN(4) {
	case 0:
		return command.Command{Kind: "rename_cluster", ExpectedRevision: p.expected()}
	case 1: // payload of another kind
		c := p.upsertNode()
		c.Kind = command.KindCompleteTask
		return c
	case 2:
		c := p.taskResult(command.KindCompleteTask)
		c.Kind = command.KindUpsertNode
		return c
	default:
		return command.Command{Kind: "", ExpectedRevision: p.expected()}
	}
}

// workflow aims at whatever the current state is waiting for: finish or advance an
// active task, start a move / leader transfer on a settled slot, bootstrap a free slot.
func (p *planner) workflow() command.Command {
	r, st := p.r, p.cur()
	if st.Revision == 0 {
		return p.initCommand()
	}
	hasMove, hasBoot, hasOther := false, false, false
	for _, t := range st.Tasks {
		switch t.Kind {
		case state.TaskKindSlotReplicaMove:
			hasMove = true
		case state.TaskKindBootstrap:
			hasBoot = true
		default:
			hasOther = true
		}
	}
	if hasMove && vh.Chance(r, 0.8) {
		if t := p.pickTask(state.TaskKindSlotReplicaMove); t != nil && t.Step == state.TaskStepCommitAssignment && vh.Chance(r, 0.8) {
			return p.commitMove()
		}
		if vh.Chance(r, 0.85) {
			return p.advancePhase()
		}
		return p.commitMove()
	}
	if hasBoot && vh.Chance(r, 0.6) {
		switch r.IntN(5) {
		case 0, 1:
			return p.taskProgress()
		case 2, 3:
			return p.taskResult(command.KindCompleteTask)
		default:
			return p.taskResult(command.KindFailTask)
		}
	}
	if hasOther && vh.Chance(r, 0.5) {
		return p.taskResult(vh.Pick(r, command.KindCompleteTask, command.KindCompleteTask, command.KindFailTask))
	}
	if len(st.NodeHealthReports) > 0 && vh.Chance(r, 0.12) {
		return p.nodeHealth() // often a re-sent report: no-op that must not touch the stored one
	}
	settled := false
	for _, a := range st.Slots {
		if taskForSlot(st, a.SlotID) == nil {
			settled = true
		}
	}
	if settled && vh.Chance(r, 0.5) {
		return p.moveTask()
	}
	if len(st.Slots) < int(st.Config.SlotCount) || settled {
		return p.assignAndTask()
	}
	switch r.IntN(4) {
	case 0:
		return p.upsertNode()
	case 1:
		return p.nodeHealth()
	case 2:
		return p.taskResult(command.KindCompleteTask)
	default:
		return p.taskProgress()
	}
}

// reupsert re-proposes what the state already holds: an active task with its assignment (or a staged
// replica-move task) exactly as stored, without a fence or fenced to the current revision. It must be
// a no-op on every replica, whether it kept its state in memory or rebuilt it from the state file.
func (p *planner) reupsert() (command.Command, bool) {
	r, st := p.r, p.cur()
	if len(st.Tasks) == 0 {
		return command.Command{}, false
	}
	t := st.Tasks[r.IntN(len(st.Tasks))]
	var exp *uint64
	if vh.Chance(r, 0.5) {
		rev := st.Revision
		exp = &rev
	}
	if t.Kind == state.TaskKindSlotReplicaMove {
		return command.Command{Kind: command.KindUpsertSlotReplicaMoveTask, ExpectedRevision: exp, Task: &t}, true
	}
	a := assignmentFor(st, t.SlotID)
	if a == nil {
		return command.Command{}, false
	}
	return command.Command{Kind: command.KindUpsertSlotAssignmentAndTask, ExpectedRevision: exp, Assignment: a, Task: &t}, true
}

func (p *planner) any() command.Command {
	if vh.Chance(p.r, 0.10) {
		if c, ok := p.reupsert(); ok {
			return c
		}
	}
	if p.lastHealth != nil && vh.Chance(p.r, 0.08) {
		h := *p.lastHealth
		h.AppliedRaftIndex = uint64(p.r.IntN(3))
		var exp *uint64
		if vh.Chance(p.r, 0.5) {
			rev := p.cur().Revision
			exp = &rev
		}
		return command.Command{Kind: command.KindReportNodeHealth, ExpectedRevision: exp, NodeHealth: &h}
	}
	if vh.Chance(p.r, 0.45) {
		return p.workflow()
	}
	switch p.r.IntN(36) {
	case 0, 1, 2:
		return p.upsertNode()
	case 3:
		return p.updateVoters()
	case 4, 5:
		return p.promoteVoter()
	case 6, 7:
		return p.replaceHashSlots()
	case 8:
		return p.replaceBackup()
	case 9, 10:
		return p.replaceOps()
	case 11, 12, 13, 14, 15:
		return p.assignAndTask()
	case 16, 17:
		return p.moveTask()
	case 18, 19, 20:
		return p.advancePhase()
	case 21, 22:
		return p.commitMove()
	case 23, 24, 25:
		return p.taskResult(command.KindCompleteTask)
	case 26, 27:
		return p.taskResult(command.KindFailTask)
	case 28, 29, 30:
		return p.taskProgress()
	case 31, 32, 33, 34:
		return p.nodeHealth()
	default:
		if p.r.IntN(3) == 0 {
			if p.r.IntN(2) == 0 {
				return p.initCommand() // usually conflicts; gen() also re-sends the first init (no-op)
			}
			return p.badInit()
		}
		return p.odd()
	}
}

// ---- scenarios -------------------------------------------------------------------------

func randomSteps(r *rand.Rand, n int, restarts, fails bool) []step {
	var out []step
	left := n
	for left > 0 {
		k := 1 + r.IntN(4)
		if vh.Chance(r, 0.15) {
			k = 1 + r.IntN(n)
		}
		s := step{N: k}
		if fails && vh.Chance(r, 0.15) {
			s.Mode = 1 + r.IntN(2)
		}
		out = append(out, s)
		if s.Mode == 0 {
			left -= k
		}
		if s.Mode != 0 || (restarts && vh.Chance(r, 0.25)) {
			out = append(out, step{N: 0, Back: r.IntN(4) * r.IntN(3)})
		}
	}
	if restarts && vh.Chance(r, 0.5) { // full replay at the end
		out = append(out, step{N: 0, Back: n}, step{N: 1 + r.IntN(n+1)})
	}
	return out
}

// compositions of n as batch sizes, selected by the bits of mask (n >= 1).
func composition(n int, mask uint) []step {
	var out []step
	k := 1
	for i := 0; i < n-1; i++ {
		if mask&(1<<uint(i)) != 0 {
			out = append(out, step{N: k})
			k = 1
		} else {
			k++
		}
	}
	return append(out, step{N: k})
}

func gen(r *rand.Rand, tier string, i int) input {
	store := &memStore{}
	sm, err := fsm.New(store)
	if err != nil {
		panic(err)
	}
	p := &planner{r: r, sm: sm, now: 1700000000 + int64(r.IntN(1000)), seqs: map[uint64]uint64{}}
	base := uint64(r.IntN(5))
	if vh.Chance(r, 0.1) {
		base = 1 << 40
	}
	p.idx = base
	maxOps := 24
	if tier == "thorough" {
		maxOps = 60
	}
	n := 1 + r.IntN(maxOps)
	if vh.Chance(r, 0.25) {
		n = 1 + r.IntN(6)
	}
	// prologue: commands before init (rejected), then (usually) a valid init
	for k := r.IntN(3) * r.IntN(2); k > 0; k-- {
		p.push(p.any())
	}
	if vh.Chance(r, 0.1) {
		p.push(p.badInit())
	}
	var first *command.Command
	if vh.Chance(r, 0.93) {
		c := p.initCommand()
		first = &c
		p.push(c)
	}
	for len(p.ops) < n {
		if first != nil && vh.Chance(r, 0.02) {
			p.push(*first) // equivalent re-init: no-op
			continue
		}
		p.push(p.any())
	}
	in := input{Base: base, Ops: p.ops}
	m := len(p.ops)
	in.Scens = append(in.Scens, []step{{N: m}})
	if m <= 6 && m >= 2 {
		total := uint(1) << uint(m-1)
		if tier == "thorough" {
			for mask := uint(1); mask < total-1; mask++ {
				in.Scens = append(in.Scens, composition(m, mask))
			}
		} else {
			for k := 0; k < 3; k++ {
				in.Scens = append(in.Scens, composition(m, uint(r.IntN(int(total)))))
			}
		}
	} else {
		in.Scens = append(in.Scens, randomSteps(r, m, false, false))
	}
	in.Scens = append(in.Scens, randomSteps(r, m, true, false))
	in.Scens = append(in.Scens, randomSteps(r, m, true, true))
	// a replica that is rebuilt from its state file after every single entry: compared, like every
	// scenario, with the reference replica that never restarts
	if m <= 40 {
		var every []step
		for k := 0; k < m; k++ {
			every = append(every, step{N: 1}, step{N: 0})
		}
		in.Scens = append(in.Scens, every)
	}
	return in
}
