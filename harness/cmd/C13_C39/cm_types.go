package main

import (
	metadb "github.com/WuKongIM/WuKongIM/pkg/db/meta"
	"github.com/WuKongIM/WuKongIM/pkg/slot/fsm"

	"github.com/WuKongIM/WuKongIM/internal/verifh/vh"
)

// ---- JSON input --------------------------------------------------------------
//
// An input is a history of batches; every batch is the command list of one
// stateMachine.ApplyBatch call.  All values are concrete (the generator reads
// the live rows of a private DB while it builds the history), so a replay file
// is self-contained.

type metaJ struct {
	ID       string   `json:"id"`
	Type     int64    `json:"ty"`
	CE       uint64   `json:"ce"`
	LE       uint64   `json:"le"`
	RG       uint64   `json:"rg,omitempty"`
	Replicas []uint64 `json:"rep"`
	ISR      []uint64 `json:"isr"`
	Leader   uint64   `json:"ldr"`
	MinISR   int64    `json:"min"`
	Status   uint8    `json:"st,omitempty"`
	Features uint64   `json:"ft,omitempty"`
	Lease    int64    `json:"lease,omitempty"`
	Ret      uint64   `json:"ret,omitempty"`
	RetAt    int64    `json:"retat,omitempty"`
	Token    string   `json:"tok,omitempty"`
	WFV      uint64   `json:"wfv,omitempty"`
	Reason   uint8    `json:"wfr,omitempty"`
	Until    int64    `json:"wfu,omitempty"`
}

type proofJ struct {
	LEO uint64 `json:"leo,omitempty"`
	HW  uint64 `json:"hw,omitempty"`
	DLN uint64 `json:"dln,omitempty"`
	DRG uint64 `json:"drg,omitempty"`
	DCE uint64 `json:"dce,omitempty"`
	DLE uint64 `json:"dle,omitempty"`
	DFV uint64 `json:"dfv,omitempty"`
}

type progJ struct {
	LLEO   uint64 `json:"lleo,omitempty"`
	LHW    uint64 `json:"lhw,omitempty"`
	TLEO   uint64 `json:"tleo,omitempty"`
	TCHW   uint64 `json:"tchw,omitempty"`
	Lag    uint64 `json:"lag,omitempty"`
	Stable int64  `json:"stable,omitempty"`
}

type taskJ struct {
	ID    string `json:"id"`
	Kind  uint8  `json:"kind"`
	St    uint8  `json:"st"`
	Ph    uint8  `json:"ph"`
	Ch    string `json:"ch"`
	Ty    int64  `json:"ty"`
	Src   uint64 `json:"src,omitempty"`
	Tgt   uint64 `json:"tgt,omitempty"`
	DL    uint64 `json:"dl,omitempty"`
	BCE   uint64 `json:"bce,omitempty"`
	BLE   uint64 `json:"ble,omitempty"`
	FT    string `json:"ft,omitempty"`
	FV    uint64 `json:"fv,omitempty"`
	FU    int64  `json:"fu,omitempty"`
	Emb   bool   `json:"emb,omitempty"`
	EDL   uint64 `json:"edl,omitempty"`
	Own   uint64 `json:"own,omitempty"`
	OwnL  int64  `json:"ownl,omitempty"`
	Proof proofJ `json:"proof"`
	Att   uint32 `json:"att,omitempty"`
	Next  int64  `json:"next,omitempty"`
	BC    string `json:"bc,omitempty"`
	BM    string `json:"bm,omitempty"`
	LErr  string `json:"lerr,omitempty"`
	Cr    int64  `json:"cr,omitempty"`
	Up    int64  `json:"up,omitempty"`
	Co    int64  `json:"co,omitempty"`
	Pg    progJ  `json:"pg"`
}

type guardJ struct {
	Ch   string `json:"ch"`
	Ty   int64  `json:"ty"`
	ID   string `json:"id"`
	St   uint8  `json:"st"`
	Ph   uint8  `json:"ph"`
	Own  uint64 `json:"own,omitempty"`
	OwnL int64  `json:"ownl,omitempty"`
	Up   int64  `json:"up,omitempty"`
}

type rguardJ struct {
	Ch  string `json:"ch"`
	Ty  int64  `json:"ty"`
	CE  uint64 `json:"ce"`
	LE  uint64 `json:"le"`
	Ldr uint64 `json:"ldr"`
	Tok string `json:"tok,omitempty"`
	FV  uint64 `json:"fv,omitempty"`
	RG  uint64 `json:"rg,omitempty"`
}

// cmJ is one FSM command.  K selects the kind; the other fields are the
// request fields that kind uses.
//
//	upsert_meta: Meta                    create: Task         create_guarded: Task, RG
//	claim: G St Ph Own OwnL Now Up       advance: G St Ph Att Next BC BM LErr Up Co Pg Proof EDL
//	set_fence: G RG St Ph FR FU Up       reset_fence: G RG St Ph Now Up
//	commit: G RG St Ph DL NLE Lease Now Up
//	add_learner: G RG St Ph Tgt Up       promote: G RG St Ph Src Tgt Now Up
//	clear_fence: G RG St Ph Up Co        abort: G RG St Ph Up Co LErr
//	gc: Before Limit
type cmJ struct {
	K      string   `json:"k"`
	Meta   *metaJ   `json:"meta,omitempty"`
	Task   *taskJ   `json:"task,omitempty"`
	G      *guardJ  `json:"g,omitempty"`
	RG     *rguardJ `json:"rg,omitempty"`
	St     uint8    `json:"st,omitempty"`
	Ph     uint8    `json:"ph,omitempty"`
	Own    uint64   `json:"own,omitempty"`
	OwnL   int64    `json:"ownl,omitempty"`
	Now    int64    `json:"now,omitempty"`
	Up     int64    `json:"up,omitempty"`
	Co     int64    `json:"co,omitempty"`
	Att    uint32   `json:"att,omitempty"`
	Next   int64    `json:"next,omitempty"`
	BC     string   `json:"bc,omitempty"`
	BM     string   `json:"bm,omitempty"`
	LErr   string   `json:"lerr,omitempty"`
	Pg     *progJ   `json:"pg,omitempty"`
	Proof  *proofJ  `json:"proof,omitempty"`
	EDL    uint64   `json:"edl,omitempty"`
	FR     uint8    `json:"fr,omitempty"`
	FU     int64    `json:"fu,omitempty"`
	DL     uint64   `json:"dl,omitempty"`
	NLE    uint64   `json:"nle,omitempty"`
	Lease  int64    `json:"lease,omitempty"`
	Src    uint64   `json:"src,omitempty"`
	Tgt    uint64   `json:"tgt,omitempty"`
	Before int64    `json:"before,omitempty"`
	Limit  int      `json:"limit,omitempty"`
}

type opJ struct {
	B []cmJ `json:"b"`
}

type cmInput struct {
	Ops []opJ `json:"ops"`
}

// ---- conversions to the real request types -------------------------------------

func (m metaJ) real() metadb.ChannelRuntimeMeta {
	return metadb.ChannelRuntimeMeta{
		ChannelID: m.ID, ChannelType: m.Type, ChannelEpoch: m.CE, LeaderEpoch: m.LE, RouteGeneration: m.RG,
		Replicas: append([]uint64(nil), m.Replicas...), ISR: append([]uint64(nil), m.ISR...), Leader: m.Leader,
		MinISR: m.MinISR, Status: m.Status, Features: m.Features, LeaseUntilMS: m.Lease,
		RetentionThroughSeq: m.Ret, RetentionUpdatedAtMS: m.RetAt, WriteFenceToken: m.Token,
		WriteFenceVersion: m.WFV, WriteFenceReason: m.Reason, WriteFenceUntilMS: m.Until,
	}
}

func metaToJ(m metadb.ChannelRuntimeMeta) metaJ {
	return metaJ{ID: m.ChannelID, Type: m.ChannelType, CE: m.ChannelEpoch, LE: m.LeaderEpoch, RG: m.RouteGeneration,
		Replicas: append([]uint64(nil), m.Replicas...), ISR: append([]uint64(nil), m.ISR...), Leader: m.Leader,
		MinISR: m.MinISR, Status: m.Status, Features: m.Features, Lease: m.LeaseUntilMS, Ret: m.RetentionThroughSeq,
		RetAt: m.RetentionUpdatedAtMS, Token: m.WriteFenceToken, WFV: m.WriteFenceVersion, Reason: m.WriteFenceReason,
		Until: m.WriteFenceUntilMS}
}

func (p proofJ) real() metadb.ChannelMigrationCutoverProof {
	return metadb.ChannelMigrationCutoverProof{CutoverLEO: p.LEO, CutoverHW: p.HW, DrainedLeaderNode: p.DLN,
		DrainedRuntimeGeneration: p.DRG, DrainedChannelEpoch: p.DCE, DrainedLeaderEpoch: p.DLE, DrainedFenceVersion: p.DFV}
}

func (p progJ) real() metadb.ChannelMigrationProgress {
	return metadb.ChannelMigrationProgress{LeaderLEO: p.LLEO, LeaderHW: p.LHW, TargetLEO: p.TLEO,
		TargetCheckpointHW: p.TCHW, LagRecords: p.Lag, StableSinceMS: p.Stable}
}

func (t taskJ) real() metadb.ChannelMigrationTask {
	return metadb.ChannelMigrationTask{
		TaskID: t.ID, Kind: metadb.ChannelMigrationKind(t.Kind), Status: metadb.ChannelMigrationStatus(t.St),
		Phase: metadb.ChannelMigrationPhase(t.Ph), ChannelID: t.Ch, ChannelType: t.Ty, SourceNode: t.Src,
		TargetNode: t.Tgt, DesiredLeader: t.DL, BaseChannelEpoch: t.BCE, BaseLeaderEpoch: t.BLE,
		FenceToken: t.FT, FenceVersion: t.FV, FenceUntilMS: t.FU, EmbeddedLeaderTransfer: t.Emb,
		EmbeddedDesiredLeader: t.EDL, OwnerNodeID: t.Own, OwnerLeaseUntilMS: t.OwnL,
		CutoverLEO: t.Proof.LEO, CutoverHW: t.Proof.HW, DrainedLeaderNode: t.Proof.DLN,
		DrainedRuntimeGeneration: t.Proof.DRG, DrainedChannelEpoch: t.Proof.DCE, DrainedLeaderEpoch: t.Proof.DLE,
		DrainedFenceVersion: t.Proof.DFV, Attempt: t.Att, NextRunAtMS: t.Next, BlockerCode: t.BC,
		BlockerMessage: t.BM, LastError: t.LErr, CreatedAtMS: t.Cr, UpdatedAtMS: t.Up, CompletedAtMS: t.Co,
		Progress: t.Pg.real(),
	}
}

func (g guardJ) real() metadb.ChannelMigrationTaskGuard {
	return metadb.ChannelMigrationTaskGuard{ChannelID: g.Ch, ChannelType: g.Ty, TaskID: g.ID,
		ExpectedStatus: metadb.ChannelMigrationStatus(g.St), ExpectedPhase: metadb.ChannelMigrationPhase(g.Ph),
		ExpectedOwnerNodeID: g.Own, ExpectedOwnerLeaseUntilMS: g.OwnL, ExpectedUpdatedAtMS: g.Up}
}

func (g rguardJ) real() metadb.ChannelMigrationRuntimeGuard {
	return metadb.ChannelMigrationRuntimeGuard{ChannelID: g.Ch, ChannelType: g.Ty, ExpectedChannelEpoch: g.CE,
		ExpectedLeaderEpoch: g.LE, ExpectedLeader: g.Ldr, ExpectedFenceToken: g.Tok, ExpectedFenceVersion: g.FV,
		ExpectedRouteGeneration: g.RG}
}

func guardOf(t metadb.ChannelMigrationTask) guardJ {
	return guardJ{Ch: t.ChannelID, Ty: t.ChannelType, ID: t.TaskID, St: uint8(t.Status), Ph: uint8(t.Phase),
		Own: t.OwnerNodeID, OwnL: t.OwnerLeaseUntilMS, Up: t.UpdatedAtMS}
}

func rguardOf(m metadb.ChannelRuntimeMeta) rguardJ {
	return rguardJ{Ch: m.ChannelID, Ty: m.ChannelType, CE: m.ChannelEpoch, LE: m.LeaderEpoch, Ldr: m.Leader,
		Tok: m.WriteFenceToken, FV: m.WriteFenceVersion}
}

func (c cmJ) g() guardJ {
	if c.G == nil {
		return guardJ{}
	}
	return *c.G
}

func (c cmJ) rg() rguardJ {
	if c.RG == nil {
		return rguardJ{}
	}
	return *c.RG
}

func (c cmJ) proof() proofJ {
	if c.Proof == nil {
		return proofJ{}
	}
	return *c.Proof
}

func (c cmJ) pg() progJ {
	if c.Pg == nil {
		return progJ{}
	}
	return *c.Pg
}

func (c cmJ) task() taskJ {
	if c.Task == nil {
		return taskJ{}
	}
	return *c.Task
}

func (c cmJ) meta() metaJ {
	if c.Meta == nil {
		return metaJ{}
	}
	return *c.Meta
}

func st(v uint8) metadb.ChannelMigrationStatus { return metadb.ChannelMigrationStatus(v) }
func ph(v uint8) metadb.ChannelMigrationPhase  { return metadb.ChannelMigrationPhase(v) }

// encode builds the command bytes with the public fsm encoders.
func (c cmJ) encode() []byte {
	switch c.K {
	case "upsert_meta":
		return fsm.EncodeUpsertChannelRuntimeMetaCommand(c.meta().real())
	case "create":
		return fsm.EncodeCreateChannelMigrationTaskCommand(c.task().real())
	case "create_guarded":
		return fsm.EncodeCreateChannelMigrationTaskWithRuntimeGuardCommand(metadb.ChannelMigrationTaskCreate{
			Task: c.task().real(), RuntimeGuard: c.rg().real()})
	case "claim":
		return fsm.EncodeClaimChannelMigrationTaskCommand(metadb.ChannelMigrationTaskClaim{Guard: c.g().real(),
			Status: st(c.St), Phase: ph(c.Ph), OwnerNodeID: c.Own, OwnerLeaseUntilMS: c.OwnL, NowMS: c.Now, UpdatedAtMS: c.Up})
	case "advance":
		return fsm.EncodeAdvanceChannelMigrationTaskCommand(metadb.ChannelMigrationTaskAdvance{Guard: c.g().real(),
			Status: st(c.St), Phase: ph(c.Ph), Attempt: c.Att, NextRunAtMS: c.Next, BlockerCode: c.BC,
			BlockerMessage: c.BM, LastError: c.LErr, UpdatedAtMS: c.Up, CompletedAtMS: c.Co, Progress: c.pg().real(),
			CutoverProof: c.proof().real(), EmbeddedDesiredLeader: c.EDL})
	case "set_fence":
		return fsm.EncodeSetChannelWriteFenceCommand(metadb.ChannelMigrationFenceRequest{Guard: c.g().real(),
			RuntimeGuard: c.rg().real(), Status: st(c.St), Phase: ph(c.Ph), FenceReason: c.FR, FenceUntilMS: c.FU, UpdatedAtMS: c.Up})
	case "reset_fence":
		return fsm.EncodeResetChannelWriteFenceToPreCutoverCommand(metadb.ChannelMigrationResetFenceRequest{Guard: c.g().real(),
			RuntimeGuard: c.rg().real(), Status: st(c.St), Phase: ph(c.Ph), NowMS: c.Now, UpdatedAtMS: c.Up})
	case "commit":
		return fsm.EncodeCommitChannelLeaderTransferCommand(metadb.ChannelMigrationLeaderTransferRequest{Guard: c.g().real(),
			RuntimeGuard: c.rg().real(), Status: st(c.St), Phase: ph(c.Ph), DesiredLeader: c.DL, NextLeaderEpoch: c.NLE,
			LeaseUntilMS: c.Lease, NowMS: c.Now, UpdatedAtMS: c.Up})
	case "add_learner":
		return fsm.EncodeAddChannelLearnerCommand(metadb.ChannelMigrationAddLearnerRequest{Guard: c.g().real(),
			RuntimeGuard: c.rg().real(), Status: st(c.St), Phase: ph(c.Ph), TargetNode: c.Tgt, UpdatedAtMS: c.Up})
	case "promote":
		return fsm.EncodePromoteLearnerAndRemoveReplicaCommand(metadb.ChannelMigrationPromoteLearnerRequest{Guard: c.g().real(),
			RuntimeGuard: c.rg().real(), Status: st(c.St), Phase: ph(c.Ph), SourceNode: c.Src, TargetNode: c.Tgt,
			NowMS: c.Now, UpdatedAtMS: c.Up})
	case "clear_fence":
		return fsm.EncodeClearChannelWriteFenceCommand(metadb.ChannelMigrationClearFenceRequest{Guard: c.g().real(),
			RuntimeGuard: c.rg().real(), Status: st(c.St), Phase: ph(c.Ph), UpdatedAtMS: c.Up, CompletedAtMS: c.Co})
	case "abort":
		return fsm.EncodeAbortChannelMigrationCommand(metadb.ChannelMigrationAbortRequest{Guard: c.g().real(),
			RuntimeGuard: c.rg().real(), Status: st(c.St), Phase: ph(c.Ph), UpdatedAtMS: c.Up, CompletedAtMS: c.Co, LastError: c.LErr})
	case "gc":
		return fsm.EncodeGarbageCollectTerminalChannelMigrationTasksCommand(metadb.ChannelMigrationTaskGCRequest{BeforeMS: c.Before, Limit: c.Limit})
	default:
		panic("unknown command kind " + c.K)
	}
}

// ---- Coq printers -----------------------------------------------------------------

func coqMeta(m metadb.ChannelRuntimeMeta) string {
	return vh.App("RuntimeMeta", hexS(m.ChannelID), vh.Z(m.ChannelType), vh.N(m.ChannelEpoch), vh.N(m.LeaderEpoch),
		vh.N(m.RouteGeneration), vh.NList(m.Replicas), vh.NList(m.ISR), vh.N(m.Leader), vh.Z(m.MinISR),
		vh.N(uint64(m.Status)), vh.N(m.Features), vh.Z(m.LeaseUntilMS), vh.N(m.RetentionThroughSeq),
		vh.Z(m.RetentionUpdatedAtMS), hexS(m.WriteFenceToken), vh.N(m.WriteFenceVersion),
		vh.N(uint64(m.WriteFenceReason)), vh.Z(m.WriteFenceUntilMS), vh.N(m.DirectoryGeneration))
}

// hexS renders a string as a byte list; the empty string as [] (shorter case files).
func hexS(s string) string {
	if s == "" {
		return "[]"
	}
	return vh.HexS(s)
}

func coqProof(p metadb.ChannelMigrationCutoverProof) string {
	if p == (metadb.ChannelMigrationCutoverProof{}) {
		return "proof_zero"
	}
	return vh.App("Proof", vh.N(p.CutoverLEO), vh.N(p.CutoverHW), vh.N(p.DrainedLeaderNode), vh.N(p.DrainedRuntimeGeneration),
		vh.N(p.DrainedChannelEpoch), vh.N(p.DrainedLeaderEpoch), vh.N(p.DrainedFenceVersion))
}

func coqProgress(p metadb.ChannelMigrationProgress) string {
	if p == (metadb.ChannelMigrationProgress{}) {
		return "progress_zero"
	}
	return vh.App("Progress", vh.N(p.LeaderLEO), vh.N(p.LeaderHW), vh.N(p.TargetLEO), vh.N(p.TargetCheckpointHW),
		vh.N(p.LagRecords), vh.Z(p.StableSinceMS))
}

func coqTask(t metadb.ChannelMigrationTask) string {
	return vh.App("Task", hexS(t.TaskID), vh.N(uint64(t.Kind)), vh.N(uint64(t.Status)), vh.N(uint64(t.Phase)),
		hexS(t.ChannelID), vh.Z(t.ChannelType), vh.N(t.SourceNode), vh.N(t.TargetNode), vh.N(t.DesiredLeader),
		vh.N(t.BaseChannelEpoch), vh.N(t.BaseLeaderEpoch), hexS(t.FenceToken), vh.N(t.FenceVersion), vh.Z(t.FenceUntilMS),
		vh.B(t.EmbeddedLeaderTransfer), vh.N(t.EmbeddedDesiredLeader), vh.N(t.OwnerNodeID), vh.Z(t.OwnerLeaseUntilMS),
		coqProof(metadb.ChannelMigrationCutoverProof{CutoverLEO: t.CutoverLEO, CutoverHW: t.CutoverHW,
			DrainedLeaderNode: t.DrainedLeaderNode, DrainedRuntimeGeneration: t.DrainedRuntimeGeneration,
			DrainedChannelEpoch: t.DrainedChannelEpoch, DrainedLeaderEpoch: t.DrainedLeaderEpoch,
			DrainedFenceVersion: t.DrainedFenceVersion}),
		vh.N(uint64(t.Attempt)), vh.Z(t.NextRunAtMS), hexS(t.BlockerCode), hexS(t.BlockerMessage), hexS(t.LastError),
		vh.Z(t.CreatedAtMS), vh.Z(t.UpdatedAtMS), vh.Z(t.CompletedAtMS), coqProgress(t.Progress))
}

func coqGuard(g guardJ) string {
	return vh.App("TGuard", hexS(g.Ch), vh.Z(g.Ty), hexS(g.ID), vh.N(uint64(g.St)), vh.N(uint64(g.Ph)),
		vh.N(g.Own), vh.Z(g.OwnL), vh.Z(g.Up))
}

func coqRGuard(g rguardJ) string {
	return vh.App("RGuard", hexS(g.Ch), vh.Z(g.Ty), vh.N(g.CE), vh.N(g.LE), vh.N(g.Ldr), hexS(g.Tok), vh.N(g.FV), vh.N(g.RG))
}

func (c cmJ) coqTrans() string {
	return vh.App("Trans", coqGuard(c.g()), coqRGuard(c.rg()), vh.N(uint64(c.St)), vh.N(uint64(c.Ph)), vh.Z(c.Up))
}

func (c cmJ) coq() string {
	switch c.K {
	case "upsert_meta":
		return vh.App("CUpsertMeta", coqMeta(c.meta().real()))
	case "create":
		return vh.App("CCreate", coqTask(c.task().real()))
	case "create_guarded":
		return vh.App("CCreateGuarded", coqTask(c.task().real()), coqRGuard(c.rg()))
	case "claim":
		return vh.App("CClaim", coqGuard(c.g()), vh.N(uint64(c.St)), vh.N(uint64(c.Ph)), vh.N(c.Own), vh.Z(c.OwnL), vh.Z(c.Now), vh.Z(c.Up))
	case "advance":
		return vh.App("CAdvance", coqGuard(c.g()), vh.N(uint64(c.St)), vh.N(uint64(c.Ph)), vh.N(uint64(c.Att)), vh.Z(c.Next),
			hexS(c.BC), hexS(c.BM), hexS(c.LErr), vh.Z(c.Up), vh.Z(c.Co), coqProgress(c.pg().real()),
			coqProof(c.proof().real()), vh.N(c.EDL))
	case "set_fence":
		return vh.App("CSetFence", c.coqTrans(), vh.N(uint64(c.FR)), vh.Z(c.FU))
	case "reset_fence":
		return vh.App("CReset", c.coqTrans(), vh.Z(c.Now))
	case "commit":
		return vh.App("CCommit", c.coqTrans(), vh.N(c.DL), vh.N(c.NLE), vh.Z(c.Lease), vh.Z(c.Now))
	case "add_learner":
		return vh.App("CAddLearner", c.coqTrans(), vh.N(c.Tgt))
	case "promote":
		return vh.App("CPromote", c.coqTrans(), vh.N(c.Src), vh.N(c.Tgt), vh.Z(c.Now))
	case "clear_fence":
		return vh.App("CClear", c.coqTrans(), vh.Z(c.Co))
	case "abort":
		return vh.App("CAbort", c.coqTrans(), vh.Z(c.Co), hexS(c.LErr))
	case "gc":
		return vh.App("CGC", vh.Z(c.Before), vh.Z(int64(c.Limit)))
	default:
		panic("unknown command kind " + c.K)
	}
}
