package main

import (
	"math/rand/v2"

	"github.com/WuKongIM/WuKongIM/internal/verifh/vh"
)

type input39 struct {
	Ops []cmdJ `json:"ops"`
}

func genC39(r *rand.Rand, tier string, i int) input39 { return input39{} }
func runC39(in input39) vh.Result                      { return vh.Result{Trivial: true} }
