package main

import (
	"context"
	"fmt"
	"math/rand/v2"
	"os"
	"sort"
	"strings"

	"github.com/WuKongIM/WuKongIM/internal/verifh/vh"
	metadb "github.com/WuKongIM/WuKongIM/pkg/db/meta"
	"github.com/WuKongIM/WuKongIM/pkg/slot/fsm"
	"github.com/WuKongIM/WuKongIM/pkg/slot/multiraft"
)

// C39: hash slot hsB (12) migrates from slot srcSlot (11, meta DB 0, owns 11 and
// 12) to slot tgtSlot (21, meta DB 1, owns 21).  A case is a script of steps:
//
//	src          one ApplyBatch on the source with Cmds
//	tgt          one ApplyBatch on the target with Cmds (ordinary commands)
//	start_delta  source: UpdateOutgoingDeltaTargets({12: 21})
//	snapshot     source ExportHashSlotSnapshot(12) -> target ImportHashSlotSnapshot (preserving migration meta)
//	deliver      one ApplyBatch on the target with apply_delta commands wrapping the forwarded
//	             source commands number Idx[i] (position in the list of forwards captured so far,
//	             modulo its length; duplicates and any order allowed)
//	replay       deliver every durable outbox row of the source (ListHashSlotMigrationOutbox), in order, one batch
//	ack          the source applies an ack command for every delta the target has a durable applied record of
//	restart_tgt  the target state machine object is rebuilt over its DB (in-memory replay set lost)
//	switch       ownership moves: target owns {21,12}, source owns {11}, source stops forwarding
type step39 struct {
	K    string   `json:"k"`
	Cmds []cmdJ   `json:"cmds,omitempty"`
	Idx  []uint64 `json:"idx,omitempty"`
}

type input39 struct {
	Ops  []step39 `json:"ops"`
	Prof string   `json:"prof,omitempty"`
}

// ---- generator ------------------------------------------------------------------------------

type gen39 struct {
	lgen
	uniq    int
	reorder bool
	opaque  bool
}

func (g *gen39) write(hs uint16) cmdJ {
	r := g.r
	if g.reorder {
		// pairwise commuting writes only: every command writes a row of its own
		g.uniq++
		return cmdJ{K: vh.Pick(r, "upsert_user", "create_user"), HS: u16p(hs), UID: fmt.Sprintf("w%d", g.uniq), S1: vh.Pick(r, genTokens...), A: int64(r.IntN(3))}
	}
	if g.opaque && vh.Chance(r, 0.5) {
		c := g.ch()
		switch r.IntN(6) {
		case 0, 1:
			uids := make([]string, 1+r.IntN(2))
			for i := range uids {
				uids[i] = g.uid()
			}
			return cmdJ{K: vh.Pick(r, "add_subs", "add_subs", "remove_subs"), HS: u16p(hs), ID: c.ID, Ty: c.Ty, UIDs: uids, N1: vh.Pick(r, uint64(0), 0, 1, 2)}
		case 2:
			return cmdJ{K: vh.Pick(r, "upsert_channel", "create_channel", "delete_channel"), HS: u16p(hs), ID: c.ID, Ty: c.Ty, A: int64(r.IntN(2)), B: int64(r.IntN(2))}
		case 3:
			l := g.latestItem()
			l.K, l.HS = "latest", u16p(hs)
			return l
		case 4:
			e := g.eventItem(c)
			e.K, e.HS = "msg_event", u16p(hs)
			return e
		default:
			return cmdJ{K: "upsert_device", HS: u16p(hs), UID: g.uid(), A: int64(r.IntN(2)), S1: vh.Pick(r, genTokens...)}
		}
	}
	u := g.user()
	u.HS = u16p(hs)
	return u
}

// riders: ordinary target commands (for the target's own hash slot 21) that ride in a delivery
// batch after the deltas.  Either their outcome is decided only at commit time, so the commit of
// the whole batch reports stale metadata and ApplyBatch re-applies every command on its own
// (an advance of a channel-migration task that does not exist; opaque profile also: delete runtime
// meta + retention advance, retention advance of a missing channel), or the batch aborts (a command
// for a hash slot the target does not own) and is delivered again.
func (g *gen39) riders() (cmds []cmdJ, redeliver bool) {
	r := g.r
	missing := cmdJ{K: "cm", HS: u16p(hsTarget), CM: &cmJ{K: "advance",
		G: &guardJ{Ch: "g1", Ty: 2, ID: "t-none", St: 1, Ph: 1, Up: 1}, St: 2, Ph: 1, Up: 2}}
	user := cmdJ{K: "upsert_user", HS: u16p(hsTarget), UID: g.uid(), S1: vh.Pick(r, genTokens...)}
	switch x := r.IntN(10); {
	case x < 5:
		if vh.Chance(r, 0.5) {
			return []cmdJ{user, missing}, false
		}
		return []cmdJ{missing}, false
	case x < 8 && g.opaque:
		if vh.Chance(r, 0.5) {
			return []cmdJ{{K: "delete_meta", HS: u16p(hsTarget), ID: "g1", Ty: 2},
				{K: "advance_retention", HS: u16p(hsTarget), ID: "g1", Ty: 2, N1: 1, N2: 1, N3: 1, A: 100, N4: 5, B: 100}}, false
		}
		return []cmdJ{{K: "advance_retention", HS: u16p(hsTarget), ID: "g2", Ty: 2, N1: 1, N2: 1, N3: 1, A: 100, N4: 5, B: 100}}, false
	case x < 8:
		return []cmdJ{user}, false // an ordinary rider, the batch commits in one piece
	default:
		bad := user
		bad.HS = u16p(hsUnowned)
		return []cmdJ{bad}, true
	}
}

func (g *gen39) srcBatch(n int, fence bool) step39 {
	st := step39{K: "src"}
	fenceAt := -1
	if fence {
		fenceAt = g.r.IntN(n + 1)
	}
	for i := 0; i <= n; i++ {
		if i == fenceAt {
			st.Cmds = append(st.Cmds, cmdJ{K: "fence", HS: u16p(hsB), N1: hsB, N2: vh.Pick(g.r, uint64(0), 0, tgtSlot)})
		}
		if i < n {
			hs := uint16(hsB)
			if vh.Chance(g.r, 0.25) {
				hs = hsA
			}
			st.Cmds = append(st.Cmds, g.write(hs))
		}
	}
	return st
}

func genC39(r *rand.Rand, tier string, i int) input39 {
	g := &gen39{lgen: lgen{r: r}}
	in := input39{Prof: "inorder"}
	x := r.IntN(100)
	switch {
	case x < 25:
		g.reorder = true
		in.Prof = "reorder"
	case x < 55:
		g.opaque = true
		in.Prof = "opaque"
	}
	add := func(s step39) { in.Ops = append(in.Ops, s) }
	flagsMulti := false
	nfw := 0 // forwards expected so far (approximation: hs 12 writes after start_delta)
	countFw := func(s step39) {
		for _, c := range s.Cmds {
			if c.hs() == hsB {
				nfw++
			}
		}
	}
	deliver := func(final bool) {
		if nfw == 0 {
			return
		}
		var idx []uint64
		if final {
			// everything, first occurrences in order unless reordering is allowed, duplicates sprinkled in
			order := make([]uint64, nfw+2) // the approximation may be short: a few extra positions wrap around
			for k := range order {
				order[k] = uint64(k)
			}
			if g.reorder {
				r.Shuffle(len(order), func(a, b int) { order[a], order[b] = order[b], order[a] })
			}
			for _, k := range order {
				idx = append(idx, k)
				if vh.Chance(r, 0.3) {
					idx = append(idx, uint64(r.IntN(int(k)+1)))
				}
			}
		} else {
			n := 1 + r.IntN(3)
			for k := 0; k < n; k++ {
				if g.reorder {
					idx = append(idx, uint64(r.IntN(nfw)))
				} else {
					// a prefix-respecting delivery: positions are clamped at run time to "next undelivered or older"
					idx = append(idx, uint64(r.IntN(nfw)))
				}
			}
		}
		// split into batches of 1..3
		for len(idx) > 0 {
			n := 1 + r.IntN(3)
			if n > len(idx) {
				n = len(idx)
			}
			st := step39{K: "deliver", Idx: idx[:n]}
			redeliver := false
			if vh.Chance(r, 0.3) {
				st.Cmds, redeliver = g.riders()
			}
			add(st)
			if redeliver {
				// the batch above aborts: Raft delivers the same entries again
				add(step39{K: "deliver", Idx: idx[:n]})
			}
			idx = idx[n:]
			if vh.Chance(r, 0.1) {
				add(step39{K: "restart_tgt"})
			}
		}
	}
	for k := r.IntN(3); k > 0; k-- {
		add(g.srcBatch(1+r.IntN(3), false))
	}
	add(step39{K: "start_delta"})
	for k := r.IntN(3); k > 0; k-- {
		s := g.srcBatch(1+r.IntN(3), false)
		countFw(s)
		add(s)
	}
	add(step39{K: "snapshot"})
	if vh.Chance(r, 0.15) {
		add(step39{K: "tgt", Cmds: []cmdJ{g.write(hsB)}}) // target does not own 12 yet: refused
	}
	for k := r.IntN(4); k > 0; k-- {
		s := g.srcBatch(1+r.IntN(3), false)
		countFw(s)
		add(s)
		if vh.Chance(r, 0.6) {
			deliver(false)
		}
		if vh.Chance(r, 0.2) {
			add(step39{K: "ack"})
		}
	}
	s := g.srcBatch(r.IntN(3), true)
	countFw(s)
	add(s)
	if vh.Chance(r, 0.6) {
		add(g.srcBatch(1+r.IntN(2), false)) // after the fence: hs 12 writes are answered hash_slot_fenced
	}
	pMulti := 0.15
	if g.opaque {
		pMulti = 0.6
	}
	if vh.Chance(r, pMulti) {
		// behind the fence: multi-hash-slot commands whose items span the fenced hash slot 12 and the
		// unfenced hash slot 11, routed by either; every one must be answered hash_slot_fenced
		st := step39{K: "src"}
		for k := 1 + r.IntN(2); k > 0; k-- {
			a, b := g.latestItem(), g.latestItem()
			a.HS, b.HS = u16p(hsA), u16p(hsB)
			items := []cmdJ{a, b}
			env := uint16(hsA)
			if vh.Chance(r, 0.4) {
				items = []cmdJ{b, a}
				env = hsB
			}
			if vh.Chance(r, 0.3) {
				c := g.latestItem()
				c.HS = u16p(hsA)
				items = append(items, c)
			}
			st.Cmds = append(st.Cmds, cmdJ{K: "latest_batch", HS: u16p(env), Items: items})
			if vh.Chance(r, 0.4) {
				st.Cmds = append(st.Cmds, g.write(hsA))
			}
		}
		add(st)
		flagsMulti = true
	}
	_ = flagsMulti
	if vh.Chance(r, 0.3) {
		add(step39{K: "replay"})
	}
	deliver(true)
	if vh.Chance(r, 0.3) {
		add(step39{K: "replay"})
	}
	if vh.Chance(r, 0.3) {
		add(step39{K: "ack"})
	}
	add(step39{K: "switch"})
	if vh.Chance(r, 0.5) {
		add(step39{K: "tgt", Cmds: []cmdJ{g.write(hsB)}})
	}
	if vh.Chance(r, 0.3) {
		add(step39{K: "src", Cmds: []cmdJ{g.write(hsB)}}) // source no longer owns 12: refused
	}
	if vh.Chance(r, 0.3) {
		deliver(false) // late duplicates after the switch
	}
	if vh.Chance(r, 0.4) {
		add(step39{K: "ack"})
		add(step39{K: "src", Cmds: []cmdJ{{K: "cleanup", HS: u16p(hsB), N1: hsB, N2: srcSlot, N3: tgtSlot, N4: 1 << 40}}})
	}
	// drop commands a Checked encoder refuses
	for i := range in.Ops {
		in.Ops[i].Cmds = keepEncodable(in.Ops[i].Cmds)
	}
	return in
}

// ---- run -------------------------------------------------------------------------------------------

type fwd struct {
	Target uint64
	HS     uint16
	Index  uint64
	Data   []byte
}

// dataDigest12: 64 bits of SHA-256 over every raw row of hash slot 12 outside the
// hash-slot-migration table (whose rows are local to each slot by design), and the rows.
func dataRows12(db *metadb.DB) (uint64, []string) {
	rows, err := metadb.VerifC13RawRows(db, hsB)
	if err != nil {
		panic(err)
	}
	var parts [][]byte
	var txt []string
	for _, kv := range rows {
		k := kv[0]
		if len(k) >= 9 && k[5] == 0 && k[6] == 0 && k[7] == 0 && k[8] == byte(metadb.TableIDHashSlotMigration) {
			continue
		}
		parts = append(parts, kv[0], kv[1])
		txt = append(txt, fmt.Sprintf("%x = %x", kv[0], kv[1]))
	}
	return hash64(parts...), txt
}

type stepObs struct {
	K        string     `json:"k"`
	Batch    *batchObs  `json:"batch,omitempty"`
	Forwards []uint64   `json:"forwards,omitempty"`  // source indexes forwarded by this src batch
	Deltas   [][2]uint64 `json:"deltas,omitempty"`   // deliver/replay: (source index, already delivered before?)
	TgtData  [2]uint64  `json:"tgt_data,omitempty"`  // deliver/replay: data digest of hs 12 on the target before/after
	Applied  []uint64   `json:"applied,omitempty"`   // deliver/replay: durable applied-delta records (source indexes) afterwards
	Err      string     `json:"err,omitempty"`
}

type c39Obs struct {
	Steps      []stepObs `json:"steps"`
	SwitchSrc  uint64    `json:"switch_src"`
	SwitchTgt  uint64    `json:"switch_tgt"`
	Switched   bool      `json:"switched"`
	Complete   bool      `json:"complete"` // every forwarded delta was delivered before the switch
	Diff       []string  `json:"diff,omitempty"`
	SrcDump    []string  `json:"src_dump,omitempty"`
	TgtDump    []string  `json:"tgt_dump,omitempty"`
}

func runC39(in input39) vh.Result {
	ok := false
	defer func() {
		if !ok {
			abandonHandles()
		}
	}()
	ctx := context.Background()
	src := newSrcWorld(0, cfgJ{}, true)
	tgt := newTgtWorld(1)
	var forwards []fwd
	var batchFw []uint64
	setFw := func(w *world) {
		w.raw.(interface {
			SetDeltaForwarder(func(context.Context, multiraft.SlotID, multiraft.Command) error)
		}).SetDeltaForwarder(func(_ context.Context, target multiraft.SlotID, cmd multiraft.Command) error {
			forwards = append(forwards, fwd{uint64(target), cmd.HashSlot, cmd.Index, append([]byte(nil), cmd.Data...)})
			batchFw = append(batchFw, cmd.Index)
			return nil
		})
	}
	setFw(src)
	srcIdx, tgtIdx := uint64(0), uint64(0)
	delivered := map[uint64]bool{}
	obs := c39Obs{}
	modelled := true
	var steps []string
	flags := map[string]bool{}
	started, snapped, switched := false, false, false
	applyCmds := func(w *world, cmds []cmdJ, idx *uint64, slot uint64) (batchObs, []string) {
		var mc []multiraft.Command
		var ents []string
		for _, c := range cmds {
			data, okc := c.encode()
			if !okc {
				continue
			}
			if !c.modelled() {
				modelled = false
			}
			*idx++
			sid := multiraft.SlotID(slot)
			if c.BadSlot {
				sid++
			}
			mc = append(mc, multiraft.Command{SlotID: sid, HashSlot: c.hs(), Index: *idx, Term: 1, Data: data})
			ents = append(ents, vh.App("Entry", vh.B(!c.BadSlot), vh.N(uint64(c.hs())), c.coq(), vh.Hex(data), "None", c.coqChan()))
		}
		return w.applyObs(mc), ents
	}
	deliverDeltas := func(list []fwd, extra []cmdJ) (stepObs, string, string) {
		so := stepObs{}
		var mc []multiraft.Command
		var ds, ents []string
		for _, f := range list {
			tgtIdx++
			mc = append(mc, multiraft.Command{SlotID: tgtSlot, HashSlot: f.HS, Index: tgtIdx, Term: 1,
				Data: fsm.EncodeApplyDeltaCommand(srcSlot, f.Index, f.HS, f.Data)})
			dup := uint64(0)
			if delivered[f.Index] {
				dup = 1
			}
			so.Deltas = append(so.Deltas, [2]uint64{f.Index, dup})
			ds = append(ds, vh.N(f.Index))
		}
		// ordinary target commands riding in the same batch after the deltas
		for _, c := range extra {
			data, okc := c.encode()
			if !okc {
				continue
			}
			if !c.modelled() {
				modelled = false
			}
			tgtIdx++
			mc = append(mc, multiraft.Command{SlotID: tgtSlot, HashSlot: c.hs(), Index: tgtIdx, Term: 1, Data: data})
			ents = append(ents, vh.App("Entry", vh.B(true), vh.N(uint64(c.hs())), c.coq(), vh.Hex(data), "None", "None"))
		}
		before, _ := dataRows12(tgt.db)
		b := tgt.applyObs(mc)
		after, _ := dataRows12(tgt.db)
		so.Batch, so.TgtData = &b, [2]uint64{before, after}
		var applied []uint64
		for _, d := range tgt.appliedDeltas(hsB) {
			if d.SourceSlot == srcSlot {
				applied = append(applied, d.SourceIndex)
			}
		}
		so.Applied = applied
		if b.Fatal == 0 {
			for i, f := range list {
				if i < len(b.Res) && b.Res[i].Cls == 0 {
					delivered[f.Index] = true
				}
			}
		}
		return so, vh.List(ds), vh.List(ents)
	}
	for _, st := range in.Ops {
		so := stepObs{K: st.K}
		var coq string
		switch st.K {
		case "src":
			batchFw = nil
			b, ents := applyCmds(src, st.Cmds, &srcIdx, srcSlot)
			so.Batch, so.Forwards = &b, batchFw
			coq = vh.App("SSrc", vh.List(ents), b.coq(), vh.NList(batchFw))
			for i, r := range b.Res {
				if r.Cls == 2 {
					flags["fenced"] = true
					if i < len(st.Cmds) && st.Cmds[i].K == "latest_batch" {
						flags["multi_fenced"] = true
					}
				}
			}
			if b.Fatal != 0 {
				flags["src_refused"] = true
			}
		case "tgt":
			b, ents := applyCmds(tgt, st.Cmds, &tgtIdx, tgtSlot)
			so.Batch = &b
			coq = vh.App("STgt", vh.List(ents), b.coq())
			if b.Fatal != 0 {
				flags["tgt_refused"] = true
			}
		case "start_delta":
			src.raw.(smConfig).UpdateOutgoingDeltaTargets(map[uint16]multiraft.SlotID{hsB: tgtSlot})
			started = true
			coq = "SStartDelta"
		case "snapshot":
			snap, err := src.raw.(interface {
				ExportHashSlotSnapshot(context.Context, uint16) (metadb.SlotSnapshot, error)
			}).ExportHashSlotSnapshot(ctx, hsB)
			if err == nil {
				err = tgt.raw.(interface {
					ImportHashSlotSnapshot(context.Context, metadb.SlotSnapshot) error
				}).ImportHashSlotSnapshot(ctx, snap)
			}
			if err != nil {
				so.Err = err.Error()
			}
			if started {
				snapped = true
			}
			coq = vh.App("SSnapshot", vh.B(err == nil))
		case "deliver":
			if len(forwards) == 0 {
				coq = "SRestartTgt" // nothing forwarded yet: nothing to deliver
				break
			}
			var list []fwd
			for _, k := range st.Idx {
				list = append(list, forwards[int(k%uint64(len(forwards)))])
			}
			if in.Prof != "reorder" {
				// first deliveries keep the source order: an undelivered delta may only be delivered
				// when every older one has been (duplicates of delivered ones are free)
				next := 0
				for next < len(forwards) && delivered[forwards[next].Index] {
					next++
				}
				for i, f := range list {
					if !delivered[f.Index] {
						if next < len(forwards) {
							list[i] = forwards[next]
							for next < len(forwards) && (delivered[forwards[next].Index] || forwards[next].Index == list[i].Index) {
								next++
							}
						} else {
							list[i] = forwards[0]
						}
					}
				}
			}
			d, ds, ents := deliverDeltas(list, st.Cmds)
			d.K = st.K
			so = d
			coq = vh.App("SDeliver", ds, ents, so.Batch.coq(), vh.N(so.TgtData[0]), vh.N(so.TgtData[1]), vh.NList(so.Applied))
			flags["deliver"] = true
			if len(st.Cmds) > 0 {
				flags["mixed"] = true
				if so.Batch.Fatal != 0 {
					flags["mixed_abort"] = true
				}
				for _, r := range so.Batch.Res {
					if r.Cls == 1 {
						flags["mixed_stale"] = true
					}
				}
			}
			for _, x := range so.Deltas {
				if x[1] == 1 {
					flags["dup"] = true
				}
			}
		case "replay":
			rows, err := src.db.ListHashSlotMigrationOutbox(ctx, hsB, srcSlot, tgtSlot, 0, 1000)
			if err != nil {
				so.Err = err.Error()
			}
			var list []fwd
			for _, row := range rows {
				list = append(list, fwd{row.TargetSlot, row.HashSlot, row.SourceIndex, row.Data})
			}
			d, ds, _ := deliverDeltas(list, nil)
			d.K, d.Err = st.K, so.Err
			so = d
			coq = vh.App("SReplay", ds, so.Batch.coq(), vh.N(so.TgtData[0]), vh.N(so.TgtData[1]), vh.NList(so.Applied))
			flags["replay"] = true
		case "ack":
			var cmds []cmdJ
			for _, d := range tgt.appliedDeltas(hsB) {
				if d.SourceSlot == srcSlot {
					cmds = append(cmds, cmdJ{K: "ack", HS: u16p(hsB), N1: hsB, N2: srcSlot, N3: tgtSlot, N4: d.SourceIndex})
				}
			}
			b, ents := applyCmds(src, cmds, &srcIdx, srcSlot)
			so.Batch = &b
			coq = vh.App("SSrc", vh.List(ents), b.coq(), "[]")
			flags["ack"] = true
		case "restart_tgt":
			owned := []uint16{hsTarget}
			if switched {
				owned = []uint16{hsTarget, hsB}
			}
			sm, bsm := newStateMachine(tgt.db, tgtSlot, owned, cfgJ{})
			tgt.raw, tgt.sm = sm, bsm
			coq = "SRestartTgt"
			flags["restart"] = true
		case "switch":
			obs.SwitchSrc, _ = dataRows12(src.db)
			obs.SwitchTgt, _ = dataRows12(tgt.db)
			obs.Switched = true
			obs.Complete = started && snapped
			for _, f := range forwards {
				if !delivered[f.Index] {
					obs.Complete = false
				}
			}
			if obs.Complete && obs.SwitchSrc != obs.SwitchTgt {
				_, a := dataRows12(src.db)
				_, b := dataRows12(tgt.db)
				obs.Diff = append(obs.Diff, "hash slot 12 differs between source and target at the switch", "source:")
				obs.Diff = append(obs.Diff, a...)
				obs.Diff = append(obs.Diff, "target:")
				obs.Diff = append(obs.Diff, b...)
			}
			tgt.raw.(smConfig).UpdateOwnedHashSlots([]uint16{hsTarget, hsB})
			src.raw.(smConfig).UpdateOwnedHashSlots([]uint16{hsA})
			src.raw.(smConfig).UpdateOutgoingDeltaTargets(nil)
			switched = true
			coq = vh.App("SSwitch", vh.B(obs.Complete), vh.N(obs.SwitchSrc), vh.N(obs.SwitchTgt))
		default:
			panic("unknown step kind " + st.K)
		}
		obs.Steps = append(obs.Steps, so)
		steps = append(steps, coq)
	}
	// final tables of both sides (modelled scripts only)
	srcDump, tgtDump := "None", "None"
	if modelled {
		var keys []chanKey
		d, txt := src.dump(keys)
		srcDump, obs.SrcDump = vh.Some(d), txt
		d, txt = tgt.dump(keys)
		tgtDump, obs.TgtDump = vh.Some(d), txt
	}
	coq := vh.App("C39Case", vh.B(modelled), vh.List(steps), srcDump, tgtDump)
	class := in.Prof
	if class == "" {
		class = "replay"
	}
	var fl []string
	for f := range flags {
		fl = append(fl, f)
	}
	sort.Strings(fl)
	if len(fl) > 0 {
		class += "+" + strings.Join(fl, "+")
	}
	if obs.Switched && !obs.Complete {
		class += "+incomplete"
	}
	if len(obs.Diff) > 0 {
		class += "+DIFF"
		if os.Getenv("VERIF_C13_DEBUG") != "" {
			fmt.Fprintf(os.Stderr, "---- %s\n%s\n", class, strings.Join(obs.Diff, "\n"))
		}
	}
	ok = true
	return vh.Result{Coq: coq, Obs: obs, Class: class, Trivial: len(in.Ops) == 0}
}
