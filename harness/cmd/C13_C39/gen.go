package main

import (
	"encoding/hex"
	"os"
	"math/rand/v2"

	"github.com/WuKongIM/WuKongIM/internal/verifh/vh"
	metadb "github.com/WuKongIM/WuKongIM/pkg/db/meta"
	"github.com/WuKongIM/WuKongIM/pkg/slot/multiraft"
)

// input of one C13 case: a committed command log, the runtime configuration of
// the state machine, batch-size patterns (each is used cyclically to cut the
// log into ApplyBatch calls; the all-singletons and the one-batch partitions
// are always run) and the prefixes at which snapshot/restore is exercised.
type input struct {
	Cfg   cfgJ    `json:"cfg"`
	Ops   []cmdJ  `json:"ops"`
	Parts [][]int `json:"parts,omitempty"`
	Snap  []int   `json:"snap,omitempty"`
	Prof  string  `json:"prof,omitempty"`
}

var genChans = []chanKey{{"g1", 2}, {"u1@u2", 1}, {"g2", 2}}
var genUIDs = []string{"u1", "u2", "u3"}
var genTokens = []string{"a", "b", "c", ""}

func u16p(v uint16) *uint16 { return &v }

type lgen struct {
	r *rand.Rand
}

func (g *lgen) ch() chanKey   { return genChans[g.r.IntN(len(genChans))] }
func (g *lgen) uid() string   { return genUIDs[g.r.IntN(len(genUIDs))] }
func (g *lgen) small() uint64 { return uint64(g.r.IntN(4)) }
func (g *lgen) ts() int64     { return int64(100 + 10*g.r.IntN(5)) }

// envelope hash slot of an ordinary command: mostly hsA, sometimes hsB
func (g *lgen) ownedHS() *uint16 {
	if vh.Chance(g.r, 0.7) {
		return nil
	}
	return u16p(hsB)
}

func (g *lgen) user() cmdJ {
	k := "upsert_user"
	if vh.Chance(g.r, 0.3) {
		k = "create_user"
	}
	return cmdJ{K: k, HS: g.ownedHS(), UID: g.uid(), S1: vh.Pick(g.r, genTokens...), A: int64(g.r.IntN(3)), B: int64(g.r.IntN(2))}
}

func (g *lgen) ucmItem() cmdJ {
	c := g.ch()
	return cmdJ{UID: g.uid(), ID: c.ID, Ty: c.Ty, N1: g.small(), N2: g.small(), N3: g.small(), A: g.ts() * int64(g.r.IntN(2)),
		Flag: vh.Chance(g.r, 0.2), B: g.ts(), N4: g.small(), C: g.ts(), HS: g.ownedHS()}
}

func (g *lgen) ucmdItem() cmdJ {
	return cmdJ{UID: g.uid(), ID: vh.Pick(g.r, "u1____cmd", "g1____cmd"), Ty: vh.Pick(g.r, int64(1), 2), N1: g.small(), N2: g.small(),
		Flag: vh.Chance(g.r, 0.2), B: g.ts(), C: g.ts()}
}

func (g *lgen) latestItem() cmdJ {
	c := g.ch()
	return cmdJ{ID: c.ID, Ty: c.Ty, N1: 1000 + g.small(), N2: g.small(), A: g.ts(), UID: g.uid(), S1: "m" + vh.Pick(g.r, "1", "2"), S2: "p",
		C: g.ts(), HS: g.ownedHS()}
}

func (g *lgen) eventItem(c chanKey) cmdJ {
	return cmdJ{ID: c.ID, Ty: c.Ty, S1: "m" + vh.Pick(g.r, "1", "2"), S2: "e" + vh.Pick(g.r, "1", "2", "3", "4"), S3: vh.Pick(g.r, "main", "aux", ""),
		UID: vh.Pick(g.r, metadb.EventTypeStreamOpen, metadb.EventTypeStreamDelta, metadb.EventTypeStreamDelta, metadb.EventTypeStreamClose,
			metadb.EventTypeStreamFinish, metadb.EventTypeStreamSnapshot, metadb.EventTypeStreamError, metadb.EventTypeStreamCancel),
		A: g.ts(), C: g.ts()}
}

func (g *lgen) metaItem(person bool) cmdJ {
	c := g.ch()
	if person {
		c = chanKey{vh.Pick(g.r, "u1@u2", "u1@u3", "u2@u3"), 1}
	}
	return cmdJ{ID: c.ID, Ty: c.Ty, N1: 1 + g.small(), N2: 1 + g.small(), N3: g.small(), A: g.ts(), N4: g.small(), C: g.ts(), HS: g.ownedHS()}
}

func (g *lgen) items(n int, f func() cmdJ) []cmdJ {
	out := make([]cmdJ, n)
	for i := range out {
		out[i] = f()
	}
	return out
}

// opaque draws one command of the families the model does not interpret.
func (g *lgen) opaque() cmdJ {
	r := g.r
	c := g.ch()
	n := 1 + r.IntN(2)
	switch r.IntN(27) {
	case 0:
		return cmdJ{K: "upsert_device", HS: g.ownedHS(), UID: g.uid(), A: int64(r.IntN(2)), S1: vh.Pick(r, genTokens...), B: int64(r.IntN(2))}
	case 1, 2:
		return cmdJ{K: vh.Pick(r, "upsert_channel", "create_channel"), HS: g.ownedHS(), ID: c.ID, Ty: c.Ty, A: int64(r.IntN(2)), B: int64(r.IntN(2)),
			C: int64(r.IntN(2)), D: int64(r.IntN(2)), E: int64(r.IntN(2))}
	case 3:
		return cmdJ{K: "patch_flags", HS: g.ownedHS(), ID: c.ID, Ty: c.Ty, A: int64(r.IntN(2)), B: int64(r.IntN(2)), C: int64(r.IntN(2))}
	case 4:
		return cmdJ{K: "delete_channel", HS: g.ownedHS(), ID: c.ID, Ty: c.Ty}
	case 5:
		return cmdJ{K: "delete_meta", HS: g.ownedHS(), ID: c.ID, Ty: c.Ty}
	case 6:
		return cmdJ{K: "advance_retention", HS: g.ownedHS(), ID: c.ID, Ty: c.Ty, N1: 1 + g.small(), N2: 1 + g.small(), N3: 1 + g.small()%3,
			A: g.ts(), N4: g.small() * 5, B: g.ts()}
	case 7:
		return cmdJ{K: "create_meta_batch", Items: g.items(n, func() cmdJ { return g.metaItem(vh.Chance(r, 0.3)) })}
	case 8, 9, 10, 11:
		k := vh.Pick(r, "add_subs", "add_subs", "remove_subs")
		uids := make([]string, 1+r.IntN(3))
		for i := range uids {
			uids[i] = g.uid()
		}
		return cmdJ{K: k, HS: g.ownedHS(), ID: c.ID, Ty: c.Ty, UIDs: uids, N1: vh.Pick(r, uint64(0), 0, 1, 2, 3)}
	case 12, 13, 14:
		return cmdJ{K: vh.Pick(r, "ucm_upsert", "ucm_delete", "ucm_readseq", "ucm_hide", "ucm_activate"), HS: g.ownedHS(), Items: g.items(n, g.ucmItem)}
	case 15, 16:
		return cmdJ{K: vh.Pick(r, "ucmd_upsert", "ucmd_ack", "ucmd_tombstone"), HS: g.ownedHS(), Items: g.items(n, g.ucmdItem)}
	case 17:
		l := g.latestItem()
		l.K = "latest"
		return l
	case 18:
		return cmdJ{K: "latest_batch", Items: g.items(n, g.latestItem)}
	case 19, 20, 21:
		e := g.eventItem(c)
		e.K = "msg_event"
		e.HS = g.ownedHS()
		return e
	case 22:
		return cmdJ{K: "msg_events", HS: g.ownedHS(), Items: g.items(1+r.IntN(3), func() cmdJ { return g.eventItem(c) })}
	case 23:
		return cmdJ{K: vh.Pick(r, "bind_plugin", "unbind_plugin"), HS: g.ownedHS(), UID: g.uid(), S1: vh.Pick(r, "p1", "p2"), A: g.ts(), B: g.ts()}
	case 24:
		return cmdJ{K: "pd_admit", Items: g.items(n, func() cmdJ { return g.metaItem(true) })}
	case 25:
		return cmdJ{K: "pd_ensure", Items: g.items(n, func() cmdJ {
			it := g.ucmItem()
			it.ID, it.Ty = vh.Pick(r, "u1@u2", "u1@u3", "u2@u3"), 1
			it.UID = it.ID[:2]
			if vh.Chance(r, 0.5) {
				it.UID = it.ID[3:]
			}
			return it
		})}
	default:
		return cmdJ{K: "pd_complete", Items: g.items(n, func() cmdJ {
			it := g.metaItem(true)
			return it
		})}
	}
}

// hsCmd draws one hash-slot migration maintenance command for a world whose
// outgoing migrations are mig (possibly empty).  idx is the log index the
// command will get; used to aim acks / cleanups at existing outbox rows.
func (g *lgen) hsCmd(idx int) cmdJ {
	r := g.r
	hs := uint64(vh.Pick(r, uint16(hsB), hsB, hsB, hsA))
	env := u16p(uint16(hs))
	if vh.Chance(r, 0.06) { // envelope / payload disagreement: fatal
		env = u16p(uint16(vh.Pick(r, uint16(hsA), hsB, hsUnowned)))
	}
	if vh.Chance(r, 0.04) {
		hs = hsUnowned
		env = u16p(hsUnowned)
	}
	tgt := vh.Pick(r, uint64(tgtSlot), tgtSlot, tgtSlot, 22)
	switch r.IntN(10) {
	case 0, 1, 2:
		return cmdJ{K: "fence", HS: env, N1: hs, N2: vh.Pick(r, uint64(0), 0, tgt)}
	case 3, 4:
		through := vh.Pick(r, uint64(idx), uint64(idx)+5, 1, uint64(1+r.IntN(idx+1)), 0)
		return cmdJ{K: "cleanup", HS: env, N1: vh.Pick(r, hs, hs, 0), N2: vh.Pick(r, uint64(srcSlot), srcSlot, srcSlot, 5), N3: tgt, N4: through}
	case 5, 6:
		return cmdJ{K: "ack", HS: env, N1: vh.Pick(r, hs, hs, 0), N2: vh.Pick(r, uint64(srcSlot), srcSlot, srcSlot, 5), N3: tgt,
			N4: vh.Pick(r, uint64(1+r.IntN(idx+1)), uint64(idx), 0, uint64(idx)+3)}
	default:
		// a delta arriving at this slot (the slot is also the target of some other migration)
		orig := g.user()
		orig.HS = nil
		c := cmdJ{K: "delta", HS: env, N1: vh.Pick(r, uint64(31), 31, 32, 0), N2: vh.Pick(r, uint64(1), 2, 3, 0), N3: hs, Orig: &orig}
		if vh.Chance(r, 0.15) {
			f := cmdJ{K: "fence", N1: hs}
			c.Orig = &f
		}
		if vh.Chance(r, 0.08) {
			o := g.opaque()
			c.Orig = &o
		}
		if vh.Chance(r, 0.05) {
			c.Orig, c.RawOrig = nil, hex.EncodeToString(vh.Bytes(r, r.IntN(6)))
		}
		if c.Orig != nil && vh.Chance(r, 0.04) {
			inner := *c.Orig
			n := cmdJ{K: "delta", N1: 31, N2: 9, N3: hs, Orig: &inner}
			c.Orig = &n
		}
		return c
	}
}

// garbage draws a malformed payload.
func (g *lgen) garbage() cmdJ {
	r := g.r
	var b []byte
	valid := func() []byte {
		var c cmdJ
		switch r.IntN(4) {
		case 0:
			c = g.user()
		case 1:
			c = g.hsCmd(3)
		default:
			c = g.opaque()
		}
		d, ok := c.encode()
		if !ok {
			d = []byte{1, 19}
		}
		return d
	}
	switch vh.Pick(r, 0, 1, 1, 1, 2, 3, 4, 5, 6, 7) {
	case 0:
		b = vh.Bytes(r, r.IntN(12))
	case 1: // truncated valid command; half of the time exactly the last byte is missing
		v := valid()
		if len(v) > 2 && vh.Chance(r, 0.5) {
			b = v[:len(v)-1]
		} else {
			b = v[:r.IntN(len(v)+1)]
		}
	case 2: // one flipped byte
		v := valid()
		if len(v) > 0 {
			v[r.IntN(len(v))] ^= byte(1 << r.IntN(8))
		}
		b = v
	case 3: // valid header, random TLVs
		b = []byte{1, vh.Pick(r, byte(20), 21, 22, 23, 1, 4, 8, 19, 44, 48, 60, 61, 63, 200)}
		for i := r.IntN(4); i > 0; i-- {
			val := vh.Bytes(r, vh.Pick(r, 0, 1, 8, 8, 8, 3))
			b = append(b, byte(r.IntN(6)), 0, 0, 0, byte(len(val)))
			b = append(b, val...)
		}
	case 4: // huge declared length
		b = []byte{1, vh.Pick(r, byte(20), 21, 22, 1, 19), byte(r.IntN(5)), 0xff, 0xff, 0xff, 0xff, 1, 2}
	case 5: // unknown trailing tag appended to a valid command (must be skipped)
		v := valid()
		b = append(v, 0xee, 0, 0, 0, 2, 7, 7)
	case 6: // wrong version / unknown type
		v := valid()
		if len(v) >= 2 {
			if vh.Chance(r, 0.5) {
				v[0] = byte(r.IntN(4))
			} else {
				v[1] = byte(100 + r.IntN(100))
			}
		}
		b = v
	default: // a valid migration command with an extra (duplicate) field
		v := valid()
		b = append(v, byte(1+r.IntN(4)), 0, 0, 0, 8, 0, 0, 0, 0, 0, 0, 0, byte(r.IntN(30)))
	}
	return cmdJ{K: "raw", HS: vh.Pick(r, (*uint16)(nil), nil, u16p(hsB)), Raw: hex.EncodeToString(b)}
}

func (g *lgen) parts(n int) [][]int {
	var out [][]int
	for i := 0; i < n; i++ {
		p := make([]int, 1+g.r.IntN(4))
		for j := range p {
			p[j] = 1 + g.r.IntN(4)
		}
		out = append(out, p)
	}
	return out
}

// keepEncodable drops entries a Checked encoder refuses.
func keepEncodable(ops []cmdJ) []cmdJ {
	out := ops[:0]
	for _, c := range ops {
		if _, ok := c.encode(); ok {
			out = append(out, c)
		}
	}
	return out
}

func genC13(r *rand.Rand, tier string, i int) input {
	g := &lgen{r: r}
	in := input{}
	maxLen := 12
	if tier == "thorough" {
		maxLen = 30
	}
	x := r.IntN(100)
	switch os.Getenv("VERIF_C13_PROF") { // development aid: force one profile
	case "cm":
		x = 0
	case "hs":
		x = 30
	case "chan":
		x = 60
	case "mix":
		x = 80
	case "garbage":
		x = 95
	}
	switch {
	case x < 28:
		// channel-migration family: the state-aware generator of the C17 harness, flattened to a log
		in.Prof = "cm"
		cm := genCM(r, tier)
		var own []int
		for _, op := range cm.Ops {
			if len(op.B) == 0 {
				continue
			}
			own = append(own, len(op.B))
			for j := range op.B {
				c := op.B[j]
				in.Ops = append(in.Ops, cmdJ{K: "cm", CM: &c})
			}
		}
		if len(in.Ops) > 2*maxLen {
			in.Ops = in.Ops[:2*maxLen]
		}
		in.Parts = append(g.parts(2), own)
	case x < 56:
		// hash-slot migration maintenance + user registers, with outgoing migrations configured
		in.Prof = "hs"
		switch r.IntN(6) {
		case 0:
		case 1:
			in.Cfg.Mig = map[uint16]uint64{hsA: tgtSlot, hsB: tgtSlot}
		case 2:
			in.Cfg.Mig = map[uint16]uint64{hsB: 22}
		default:
			in.Cfg.Mig = map[uint16]uint64{hsB: tgtSlot}
		}
		n := 4 + r.IntN(maxLen)
		multi := vh.Chance(r, 0.25) // multi-hash-slot commands spanning hash slots 11 and 12 (fence is per item hash slot)
		for j := 0; j < n; j++ {
			y := r.IntN(100)
			if multi && y < 12 {
				a, b := g.latestItem(), g.latestItem()
				a.HS, b.HS = u16p(hsA), u16p(hsB)
				c := cmdJ{K: "latest_batch", Items: []cmdJ{a, b}}
				if vh.Chance(r, 0.4) {
					c = cmdJ{K: "latest_batch", HS: u16p(hsB), Items: []cmdJ{b, a}}
				}
				in.Ops = append(in.Ops, c)
				continue
			}
			switch {
			case y < 45:
				in.Ops = append(in.Ops, g.user())
			case y < 50:
				in.Ops = append(in.Ops, cmdJ{K: "noop", HS: g.ownedHS()})
			case y < 93:
				in.Ops = append(in.Ops, g.hsCmd(j+1))
			case y < 96:
				u := g.user()
				u.HS = u16p(hsUnowned)
				in.Ops = append(in.Ops, u)
			case y < 98:
				u := g.user()
				u.BadSlot = true
				in.Ops = append(in.Ops, u)
			default:
				u := g.user()
				u.K = "upsert_user"
				u.UID = vh.Pick(r, "", string(make([]byte, 300)))
				in.Ops = append(in.Ops, u)
			}
		}
		in.Parts = g.parts(3)
	case x < 72:
		// the channel row and its subscribers: delete -> re-add / create / patch sequences on one or
		// two channels, dense enough that they fall into one batch
		in.Prof = "chan"
		chans := []chanKey{genChans[0]}
		if vh.Chance(r, 0.3) {
			chans = append(chans, genChans[2])
		}
		rowsOnly := vh.Chance(r, 0.3)
		ver := uint64(0)
		n := 5 + r.IntN(maxLen)
		for j := 0; j < n; j++ {
			c := chans[r.IntN(len(chans))]
			y := r.IntN(100)
			if rowsOnly && y < 45 {
				y = 45 + r.IntN(55)
			}
			switch {
			case y < 32:
				uids := make([]string, 1+r.IntN(2))
				for i := range uids {
					uids[i] = g.uid()
				}
				v := uint64(0)
				if vh.Chance(r, 0.6) {
					ver++
					v = ver
					if vh.Chance(r, 0.15) && ver > 1 {
						v = ver - 2 // stale mutation version
					}
				}
				in.Ops = append(in.Ops, cmdJ{K: "add_subs", ID: c.ID, Ty: c.Ty, UIDs: uids, N1: v})
			case y < 45:
				v := uint64(0)
				if vh.Chance(r, 0.5) {
					ver++
					v = ver
				}
				in.Ops = append(in.Ops, cmdJ{K: "remove_subs", ID: c.ID, Ty: c.Ty, UIDs: []string{g.uid()}, N1: v})
			case y < 63:
				in.Ops = append(in.Ops, cmdJ{K: "delete_channel", ID: c.ID, Ty: c.Ty})
			case y < 78:
				in.Ops = append(in.Ops, cmdJ{K: "create_channel", ID: c.ID, Ty: c.Ty, A: int64(r.IntN(2)), C: int64(r.IntN(2)), E: int64(r.IntN(2))})
			case y < 86:
				in.Ops = append(in.Ops, cmdJ{K: "upsert_channel", ID: c.ID, Ty: c.Ty, A: int64(r.IntN(2)), B: int64(r.IntN(2)), D: int64(r.IntN(2))})
			case y < 96:
				in.Ops = append(in.Ops, cmdJ{K: "patch_flags", ID: c.ID, Ty: c.Ty, A: int64(r.IntN(2)), B: int64(r.IntN(2)), C: int64(r.IntN(2))})
			default:
				in.Ops = append(in.Ops, g.user())
			}
		}
		in.Parts = g.parts(3)
	case x < 87:
		in.Prof = "mix"
		if vh.Chance(r, 0.15) {
			in.Cfg.Legacy = true
		}
		if vh.Chance(r, 0.2) {
			in.Cfg.Mig = map[uint16]uint64{hsB: tgtSlot}
		}
		n := 4 + r.IntN(maxLen)
		for j := 0; j < n; j++ {
			y := r.IntN(100)
			switch {
			case y < 75:
				in.Ops = append(in.Ops, g.opaque())
			case y < 88:
				in.Ops = append(in.Ops, g.user())
			case y < 96:
				in.Ops = append(in.Ops, g.hsCmd(j+1))
			default:
				c := g.opaque()
				if vh.Chance(r, 0.5) {
					c.HS = u16p(hsUnowned)
				} else if vh.Chance(r, 0.5) {
					c.HS = u16p(0)
				} else {
					c.BadSlot = true
				}
				in.Ops = append(in.Ops, c)
			}
		}
		in.Parts = g.parts(3)
	default:
		in.Prof = "garbage"
		n := 3 + r.IntN(8)
		bad := r.IntN(n)
		for j := 0; j < n; j++ {
			if j == bad || vh.Chance(r, 0.25) {
				in.Ops = append(in.Ops, g.garbage())
			} else if vh.Chance(r, 0.5) {
				in.Ops = append(in.Ops, g.user())
			} else {
				in.Ops = append(in.Ops, g.opaque())
			}
		}
		in.Parts = g.parts(2)
	}
	in.Ops = keepEncodable(in.Ops)
	in.Ops = thinFatal(r, in.Cfg, in.Ops, in.Prof == "garbage")
	if len(in.Ops) > 0 {
		if tier == "thorough" {
			for k := 0; k <= len(in.Ops); k++ {
				in.Snap = append(in.Snap, k)
			}
		} else {
			in.Snap = []int{r.IntN(len(in.Ops) + 1)}
		}
	}
	return in
}

// thinFatal applies the log one command per batch on a scratch world and
// removes the commands ApplyBatch answers with an error (they have no effect,
// so the rest of the log keeps its meaning), except one which is kept with
// probability 0.3 (always in the garbage profile): a fatal command ends every
// run, so a log should not contain one early and seldom more than one.
func thinFatal(r *rand.Rand, cfg cfgJ, ops []cmdJ, keepOne bool) []cmdJ {
	w := newSrcWorld(0, cfg, true)
	var fatal []int
	idx := uint64(0)
	for i, c := range ops {
		data, _ := c.encode()
		sid := multiraft.SlotID(srcSlot)
		if c.BadSlot {
			sid++
		}
		idx++
		failed := false
		func() {
			defer func() {
				if recover() != nil {
					// a panic of the implementation: Run will meet it again inside vh.Main's recover
					failed = true
					abandonHandles()
					w = newSrcWorld(0, cfg, true)
				}
			}()
			if _, err := w.applyRaw([]multiraft.Command{{SlotID: sid, HashSlot: c.hs(), Index: idx, Term: 1, Data: data}}); err != nil {
				failed = true
			}
		}()
		if failed {
			fatal = append(fatal, i)
			idx--
		}
	}
	if len(fatal) == 0 {
		return ops
	}
	keep := -1
	if keepOne || vh.Chance(r, 0.3) {
		keep = fatal[r.IntN(len(fatal))]
	}
	drop := map[int]bool{}
	for _, i := range fatal {
		if i != keep {
			drop[i] = true
		}
	}
	var out []cmdJ
	for i, c := range ops {
		if !drop[i] {
			out = append(out, c)
		}
	}
	return out
}
