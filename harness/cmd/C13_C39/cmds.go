package main

import (
	"encoding/hex"

	"github.com/WuKongIM/WuKongIM/internal/verifh/vh"
	metadb "github.com/WuKongIM/WuKongIM/pkg/db/meta"
	"github.com/WuKongIM/WuKongIM/pkg/slot/fsm"
	"github.com/WuKongIM/WuKongIM/pkg/slot/multiraft"
)

// cmdJ is one entry of the committed log: the Raft envelope (slot id, hash
// slot; the index is the position in the log) and the command.  K selects the
// kind; every kind reads its arguments from the generic fields below (small
// alphabets; see gen.go).  Kinds:
//
//	modelled (Model/SlotFSM.v):
//	  noop | upsert_user create_user (UID S1=token A=flag B=level)
//	  cm (CM: the runtime-meta upsert and the 13 channel-migration commands, types of the C17 harness)
//	  delta (N1=source slot N2=source index N3=hash slot Orig | RawOrig)
//	  fence (N1=hash slot N2=target, 0 = field absent) | ack cleanup (N1=hs N2=src N3=tgt N4=index)
//	not modelled (partition self-consistency only):
//	  upsert_device upsert_channel create_channel patch_flags delete_channel delete_meta
//	  advance_retention create_meta_batch add_subs remove_subs ucm_upsert ucm_delete ucm_readseq
//	  ucm_hide ucm_activate ucmd_upsert ucmd_ack ucmd_tombstone latest latest_batch msg_event
//	  msg_events bind_plugin unbind_plugin pd_admit pd_ensure pd_complete
//	  raw (Raw = hex payload)
type cmdJ struct {
	K       string  `json:"k"`
	HS      *uint16 `json:"hs,omitempty"`      // envelope hash slot (default hsA)
	BadSlot bool    `json:"badslot,omitempty"` // envelope slot id is not the state machine's
	CM      *cmJ    `json:"cm,omitempty"`
	Orig    *cmdJ   `json:"orig,omitempty"`
	RawOrig string  `json:"raworig,omitempty"`
	Raw     string  `json:"raw,omitempty"`
	ID      string  `json:"id,omitempty"`
	Ty      int64   `json:"ty,omitempty"`
	UID     string  `json:"uid,omitempty"`
	S1      string  `json:"s1,omitempty"`
	S2      string  `json:"s2,omitempty"`
	S3      string  `json:"s3,omitempty"`
	A       int64   `json:"a,omitempty"`
	B       int64   `json:"b,omitempty"`
	C       int64   `json:"c,omitempty"`
	D       int64   `json:"d,omitempty"`
	E       int64   `json:"e,omitempty"`
	N1      uint64  `json:"n1,omitempty"`
	N2      uint64  `json:"n2,omitempty"`
	N3      uint64  `json:"n3,omitempty"`
	N4      uint64  `json:"n4,omitempty"`
	UIDs    []string `json:"uids,omitempty"`
	Items   []cmdJ  `json:"items,omitempty"` // batch commands: one element per item (same field meaning)
	Flag    bool    `json:"flag,omitempty"`
}

func (c cmdJ) hs() uint16 {
	if c.HS == nil {
		return hsA
	}
	return *c.HS
}

func (c cmdJ) modelled() bool {
	switch c.K {
	case "noop", "upsert_user", "create_user", "cm", "fence", "ack", "cleanup":
		return true
	case "delta":
		return c.Orig == nil || c.Orig.modelled()
	}
	return false
}

func unhex(s string) []byte {
	b, err := hex.DecodeString(s)
	if err != nil {
		panic("bad hex in input: " + s)
	}
	return b
}

func (c cmdJ) ucm() metadb.UserChannelMembership {
	return metadb.UserChannelMembership{UID: c.UID, ChannelID: c.ID, ChannelType: c.Ty, JoinSeq: c.N1, ReadSeq: c.N2,
		DeletedToSeq: c.N3, ActivatedAt: c.A, Tombstone: c.Flag, TombstoneAt: c.B, SourceVersion: c.N4, UpdatedAt: c.C}
}

func (c cmdJ) ucmd() metadb.UserCMDChannelMembership {
	return metadb.UserCMDChannelMembership{UID: c.UID, CommandChannelID: c.ID, ChannelType: c.Ty, StartSeq: c.N1,
		AckSeq: c.N2, Tombstone: c.Flag, TombstoneAt: c.B, UpdatedAt: c.C}
}

func (c cmdJ) latest() metadb.ChannelLatest {
	return metadb.ChannelLatest{ChannelID: c.ID, ChannelType: c.Ty, LastMessageID: c.N1, LastMessageSeq: c.N2, LastAt: c.A,
		FromUID: c.UID, ClientMsgNo: c.S1, Payload: []byte(c.S2), UpdatedAt: c.C}
}

func (c cmdJ) event() metadb.MessageEventAppend {
	return metadb.MessageEventAppend{ChannelID: c.ID, ChannelType: c.Ty, ClientMsgNo: c.S1, EventID: c.S2, EventKey: c.S3,
		EventType: c.UID, Visibility: "public", OccurredAt: c.A, Payload: []byte(`{"kind":"text","delta":"x"}`), UpdatedAt: c.C}
}

func (c cmdJ) runtimeMeta() metadb.ChannelRuntimeMeta {
	return metadb.ChannelRuntimeMeta{ChannelID: c.ID, ChannelType: c.Ty, ChannelEpoch: c.N1, LeaderEpoch: c.N2,
		Replicas: []uint64{1, 2, 3}, ISR: []uint64{1, 2}, Leader: 1 + c.N3%3, MinISR: 1, Status: 2, LeaseUntilMS: c.A}
}

func mapItems[T any](items []cmdJ, f func(cmdJ) T) []T {
	out := make([]T, len(items))
	for i, it := range items {
		out[i] = f(it)
	}
	return out
}

// encode builds the command payload with the public fsm encoders.  ok=false
// means a Checked encoder refused the arguments; the entry is then dropped
// from the log by the generator.
func (c cmdJ) encode() (data []byte, ok bool) {
	must := func(b []byte, err error) ([]byte, bool) { return b, err == nil }
	switch c.K {
	case "noop":
		return fsm.EncodeNoopCommand(), true
	case "upsert_user":
		return fsm.EncodeUpsertUserCommand(metadb.User{UID: c.UID, Token: c.S1, DeviceFlag: c.A, DeviceLevel: c.B}), true
	case "create_user":
		return fsm.EncodeCreateUserCommand(metadb.User{UID: c.UID, Token: c.S1, DeviceFlag: c.A, DeviceLevel: c.B}), true
	case "cm":
		return c.CM.encode(), true
	case "delta":
		var orig []byte
		if c.Orig != nil {
			o, ok := c.Orig.encode()
			if !ok {
				return nil, false
			}
			orig = o
		} else {
			orig = unhex(c.RawOrig)
		}
		return fsm.EncodeApplyDeltaCommand(multiraft.SlotID(c.N1), c.N2, uint16(c.N3), orig), true
	case "fence":
		if c.N2 == 0 {
			return fsm.EncodeEnterFenceCommand(uint16(c.N1)), true
		}
		return fsm.EncodeEnterFenceCommandForTarget(uint16(c.N1), multiraft.SlotID(c.N2)), true
	case "ack":
		return fsm.EncodeAckHashSlotMigrationOutboxCommand(uint16(c.N1), multiraft.SlotID(c.N2), multiraft.SlotID(c.N3), c.N4), true
	case "cleanup":
		return fsm.EncodeCleanupHashSlotMigrationOutboxCommand(uint16(c.N1), multiraft.SlotID(c.N2), multiraft.SlotID(c.N3), c.N4), true
	case "raw":
		return unhex(c.Raw), true
	case "upsert_device":
		return fsm.EncodeUpsertDeviceCommand(metadb.Device{UID: c.UID, DeviceFlag: c.A, Token: c.S1, DeviceLevel: c.B}), true
	case "upsert_channel", "create_channel":
		ch := metadb.Channel{ChannelID: c.ID, ChannelType: c.Ty, Ban: c.A, Disband: c.B, SendBan: c.C, AllowStranger: c.D, Large: c.E}
		if c.K == "create_channel" {
			return fsm.EncodeCreateChannelCommand(ch), true
		}
		return fsm.EncodeUpsertChannelCommand(ch), true
	case "patch_flags":
		return fsm.EncodePatchChannelBusinessFlagsCommand(c.ID, c.Ty, metadb.ChannelBusinessFlags{Ban: c.A, Disband: c.B, SendBan: c.C}), true
	case "delete_channel":
		return fsm.EncodeDeleteChannelCommand(c.ID, c.Ty), true
	case "delete_meta":
		return fsm.EncodeDeleteChannelRuntimeMetaCommand(c.ID, c.Ty), true
	case "advance_retention":
		return fsm.EncodeAdvanceChannelRetentionThroughSeqCommand(metadb.ChannelRetentionAdvance{ChannelID: c.ID, ChannelType: c.Ty,
			ExpectedChannelEpoch: c.N1, ExpectedLeaderEpoch: c.N2, ExpectedLeader: c.N3, ExpectedLeaseUntilMS: c.A,
			RetentionThroughSeq: c.N4, RetentionUpdatedAtMS: c.B}), true
	case "create_meta_batch":
		return must(fsm.EncodeCreateChannelRuntimeMetaBatchCommandChecked(mapItems(c.Items, func(it cmdJ) fsm.CreateChannelRuntimeMetaBatchItem {
			return fsm.CreateChannelRuntimeMetaBatchItem{HashSlot: it.hs(), Meta: it.runtimeMeta()}
		})))
	case "add_subs":
		if c.N1 > 0 {
			return must(fsm.EncodeAddSubscribersCommandChecked(c.ID, c.Ty, c.UIDs, c.N1))
		}
		return must(fsm.EncodeAddSubscribersCommandChecked(c.ID, c.Ty, c.UIDs))
	case "remove_subs":
		if c.N1 > 0 {
			return must(fsm.EncodeRemoveSubscribersCommandChecked(c.ID, c.Ty, c.UIDs, c.N1))
		}
		return must(fsm.EncodeRemoveSubscribersCommandChecked(c.ID, c.Ty, c.UIDs))
	case "ucm_upsert":
		return must(fsm.EncodeUpsertUserChannelMembershipsCommandChecked(mapItems(c.Items, cmdJ.ucm)))
	case "ucm_delete":
		return must(fsm.EncodeDeleteUserChannelMembershipsCommandChecked(mapItems(c.Items, cmdJ.ucm)))
	case "ucm_readseq":
		return fsm.EncodeAdvanceUserChannelMembershipReadSeqCommand(mapItems(c.Items, cmdJ.ucm)), true
	case "ucm_hide":
		return fsm.EncodeHideUserChannelMembershipCommand(mapItems(c.Items, cmdJ.ucm)), true
	case "ucm_activate":
		return fsm.EncodeActivateUserChannelMembershipCommand(mapItems(c.Items, cmdJ.ucm)), true
	case "ucmd_upsert":
		return fsm.EncodeUpsertUserCMDChannelMembershipsCommand(mapItems(c.Items, cmdJ.ucmd)), true
	case "ucmd_ack":
		return fsm.EncodeAdvanceUserCMDChannelMembershipAcksCommand(mapItems(c.Items, cmdJ.ucmd)), true
	case "ucmd_tombstone":
		return fsm.EncodeTombstoneUserCMDChannelMembershipsCommand(mapItems(c.Items, cmdJ.ucmd)), true
	case "latest":
		return fsm.EncodeUpsertChannelLatestCommand(c.latest()), true
	case "latest_batch":
		return fsm.EncodeUpsertChannelLatestBatchCommand(mapItems(c.Items, func(it cmdJ) fsm.ChannelLatestBatchItem {
			return fsm.ChannelLatestBatchItem{HashSlot: it.hs(), Latest: it.latest()}
		})), true
	case "msg_event":
		return fsm.EncodeAppendMessageEventCommand(c.event()), true
	case "msg_events":
		return fsm.EncodeAppendMessageEventsCommand(mapItems(c.Items, cmdJ.event)), true
	case "bind_plugin":
		return fsm.EncodeBindPluginUserCommand(metadb.PluginUserBinding{UID: c.UID, PluginNo: c.S1, CreatedAtMS: c.A, UpdatedAtMS: c.B}), true
	case "unbind_plugin":
		return fsm.EncodeUnbindPluginUserCommand(c.UID, c.S1), true
	case "pd_admit":
		return must(fsm.EncodeAdmitPersonDirectoryTaskBatchCommandChecked(mapItems(c.Items, func(it cmdJ) fsm.PersonDirectoryAdmissionBatchItem {
			m := it.runtimeMeta()
			return fsm.PersonDirectoryAdmissionBatchItem{HashSlot: it.hs(),
				Task:        metadb.PersonDirectoryTask{ChannelID: it.ID, ChannelType: it.Ty, CommittedTail: it.N4, CreatedAt: it.C},
				RuntimeMeta: m}
		})))
	case "pd_ensure":
		return must(fsm.EncodeEnsureUserChannelMembershipBatchCommandChecked(mapItems(c.Items, func(it cmdJ) fsm.UserChannelMembershipBatchItem {
			return fsm.UserChannelMembershipBatchItem{HashSlot: it.hs(), Membership: it.ucm()}
		})))
	case "pd_complete":
		return must(fsm.EncodeCompletePersonDirectoryTaskBatchCommandChecked(mapItems(c.Items, func(it cmdJ) fsm.PersonDirectoryCompletionBatchItem {
			return fsm.PersonDirectoryCompletionBatchItem{HashSlot: it.hs(), ChannelID: it.ID, ChannelType: it.Ty, Generation: it.N4}
		})))
	default:
		panic("unknown command kind " + c.K)
	}
}

// opaqueKinds numbers the kinds the model does not interpret (HOpaque k).
var opaqueKinds = []string{"raw", "upsert_device", "upsert_channel", "create_channel", "patch_flags", "delete_channel", "delete_meta",
	"advance_retention", "create_meta_batch", "add_subs", "remove_subs", "ucm_upsert", "ucm_delete", "ucm_readseq", "ucm_hide",
	"ucm_activate", "ucmd_upsert", "ucmd_ack", "ucmd_tombstone", "latest", "latest_batch", "msg_event", "msg_events",
	"bind_plugin", "unbind_plugin", "pd_admit", "pd_ensure", "pd_complete"}

func opaqueIndex(k string) uint64 {
	for i, s := range opaqueKinds {
		if s == k {
			return uint64(i)
		}
	}
	panic("not an opaque kind: " + k)
}

// coq renders the command as a Model.SlotFSM.hcmd term.
func (c cmdJ) coq() string {
	switch c.K {
	case "noop":
		return "HNoop"
	case "upsert_user", "create_user":
		return vh.App("HUser", vh.B(c.K == "create_user"), hexS(c.UID), hexS(c.S1), vh.Z(c.A), vh.Z(c.B))
	case "cm":
		return vh.App("HCM", c.CM.coq())
	case "delta":
		orig := "None"
		if c.Orig != nil {
			orig = vh.Some(c.Orig.coq())
		}
		return vh.App("HDelta", vh.N(c.N1), vh.N(c.N2), vh.N(c.N3), orig)
	case "fence":
		return vh.App("HFence", vh.N(c.N1), vh.N(c.N2))
	case "ack":
		return vh.App("HAck", vh.N(c.N1), vh.N(c.N2), vh.N(c.N3), vh.N(c.N4))
	case "cleanup":
		return vh.App("HCleanup", vh.N(c.N1), vh.N(c.N2), vh.N(c.N3), vh.N(c.N4))
	default:
		return vh.App("HOpaque", vh.N(opaqueIndex(c.K)))
	}
}

// coqChan renders what the monitor's K6 signature needs of a channel-row / subscriber command.
func (c cmdJ) coqChan() string {
	kind := uint64(0)
	switch c.K {
	case "delete_channel":
		kind = 1
	case "add_subs":
		kind = 2
	case "remove_subs":
		kind = 3
	case "create_channel", "upsert_channel", "patch_flags":
		kind = 4
	case "latest_batch", "create_meta_batch", "pd_admit", "pd_ensure", "pd_complete":
		// multi-hash-slot commands: kind 5, the item hash slots as one-byte strings
		var hs []string
		for _, it := range c.Items {
			hs = append(hs, vh.List([]string{vh.N(uint64(it.hs()))}))
		}
		return vh.Some(vh.App("ChanOp", "5", "[]", vh.Z(0), vh.List(hs)))
	default:
		return "None"
	}
	return vh.Some(vh.App("ChanOp", vh.N(kind), hexS(c.ID), vh.Z(c.Ty), vh.ListOf(c.UIDs, hexS)))
}
