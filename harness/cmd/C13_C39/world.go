package main

import (
	"context"
	"crypto/sha256"
	"encoding/binary"
	"errors"
	"fmt"
	"os"

	metadb "github.com/WuKongIM/WuKongIM/pkg/db/meta"
	"github.com/WuKongIM/WuKongIM/pkg/slot/fsm"
	"github.com/WuKongIM/WuKongIM/pkg/slot/multiraft"
	"github.com/WuKongIM/WuKongIM/pkg/wklog"
)

// Fixed topology of every world.  Slot srcSlot owns hash slots 11 and 12 (11 is
// also its legacy default hash slot); hash slot 13 is never owned.  C39 adds a
// second state machine, slot tgtSlot, over a second meta DB; hash slot 12
// migrates from srcSlot to tgtSlot.
const (
	srcSlot   = 11
	tgtSlot   = 21
	hsA       = 11
	hsB       = 12
	hsUnowned = 13
	hsTarget  = 21
)

var srcOwned = []uint16{hsA, hsB}
var srcAllHS = []uint16{hsA, hsB, hsUnowned}
var tgtAllHS = []uint16{hsB, hsTarget}

// Two temporary meta DBs per harness process (the second one is the restore
// target of the snapshot clause and the target slot of C39).  A world wipes
// the hash slots it uses (DeleteSlotData / DeleteHashSlotData) instead of
// opening a fresh Pebble store: the keys, and therefore the snapshot bytes, of
// two runs of one log are then comparable byte for byte.
type dbHandle struct {
	dir string
	db  *metadb.DB
}

var handles [2]*dbHandle

func tmpBase() string {
	if st, err := os.Stat("/dev/shm"); err == nil && st.IsDir() {
		return "/dev/shm"
	}
	return ""
}

func handle(i int) *dbHandle {
	if handles[i] != nil {
		return handles[i]
	}
	dir, err := os.MkdirTemp(tmpBase(), "verif-c13-")
	if err != nil {
		panic(err)
	}
	db, err := metadb.OpenWithLogger(dir, wklog.NewNop())
	if err != nil {
		os.RemoveAll(dir)
		panic(err)
	}
	handles[i] = &dbHandle{dir: dir, db: db}
	return handles[i]
}

func closeHandles() {
	for i, h := range handles {
		if h != nil {
			h.db.Close()
			os.RemoveAll(h.dir)
			handles[i] = nil
		}
	}
}

// abandonHandles forgets the DBs without closing them (a panic of the
// implementation may have left hash-slot locks held); the directories are removed.
func abandonHandles() {
	for i, h := range handles {
		if h != nil {
			os.RemoveAll(h.dir)
			handles[i] = nil
		}
	}
}

type smConfig interface {
	UpdateOwnedHashSlots([]uint16)
	UpdateOutgoingDeltaTargets(map[uint16]multiraft.SlotID)
	UpdateIncomingDeltaHashSlots([]uint16)
}

type world struct {
	db    *metadb.DB
	sm    multiraft.BatchStateMachine
	raw   multiraft.StateMachine
	slot  uint64
	owned []uint16
	allHS []uint16
}

// cfgJ is the runtime configuration of the state machine of a case.
type cfgJ struct {
	// Legacy: built with fsm.NewStateMachine (owns only hash slot srcSlot, envelope hash slot 0 means it).
	Legacy bool `json:"legacy,omitempty"`
	// Mig: outgoing delta targets (hash slot -> target slot) installed with UpdateOutgoingDeltaTargets.
	Mig map[uint16]uint64 `json:"mig,omitempty"`
}

func wipe(db *metadb.DB, slot uint64, hashSlots []uint16) {
	ctx := context.Background()
	if err := db.DeleteSlotData(ctx, slot); err != nil {
		panic(fmt.Sprintf("DeleteSlotData: %v", err))
	}
	for _, hs := range hashSlots {
		if uint64(hs) == slot {
			continue
		}
		if err := db.DeleteHashSlotData(ctx, hs); err != nil {
			panic(fmt.Sprintf("DeleteHashSlotData: %v", err))
		}
	}
}

func newStateMachine(db *metadb.DB, slot uint64, owned []uint16, cfg cfgJ) (multiraft.StateMachine, multiraft.BatchStateMachine) {
	var sm multiraft.StateMachine
	var err error
	if cfg.Legacy {
		sm, err = fsm.NewStateMachine(db, slot)
	} else {
		sm, err = fsm.NewStateMachineWithHashSlots(db, slot, owned)
	}
	if err != nil {
		panic(err)
	}
	bsm, ok := sm.(multiraft.BatchStateMachine)
	if !ok {
		panic("slot state machine is not a BatchStateMachine")
	}
	if len(cfg.Mig) > 0 {
		t := map[uint16]multiraft.SlotID{}
		for hs, tg := range cfg.Mig {
			t[hs] = multiraft.SlotID(tg)
		}
		sm.(smConfig).UpdateOutgoingDeltaTargets(t)
	}
	return sm, bsm
}

// newSrcWorld wipes DB which and builds the source-side state machine on it.
func newSrcWorld(which int, cfg cfgJ, wipeFirst bool) *world {
	h := handle(which)
	if wipeFirst {
		wipe(h.db, srcSlot, srcAllHS)
	}
	owned := srcOwned
	if cfg.Legacy {
		owned = []uint16{hsA}
	}
	sm, bsm := newStateMachine(h.db, srcSlot, owned, cfg)
	return &world{db: h.db, sm: bsm, raw: sm, slot: srcSlot, owned: owned, allHS: srcAllHS}
}

func newTgtWorld(which int) *world {
	h := handle(which)
	wipe(h.db, tgtSlot, tgtAllHS)
	sm, bsm := newStateMachine(h.db, tgtSlot, []uint16{hsTarget}, cfgJ{})
	return &world{db: h.db, sm: bsm, raw: sm, slot: tgtSlot, owned: []uint16{hsTarget}, allHS: tgtAllHS}
}

// errClass maps an ApplyBatch error to a small enum: 1 ErrInvalidArgument,
// 2 ErrCorruptValue, 3 anything else.
func errClass(err error) uint64 {
	switch {
	case errors.Is(err, metadb.ErrInvalidArgument):
		return 1
	case errors.Is(err, metadb.ErrCorruptValue):
		return 2
	default:
		return 3
	}
}

func (w *world) applyRaw(cmds []multiraft.Command) ([][]byte, error) {
	return w.sm.ApplyBatch(context.Background(), cmds)
}

func (w *world) appliedIndex() uint64 {
	idx, err := w.db.SlotAppliedIndex(context.Background(), w.slot)
	if err != nil {
		panic(fmt.Sprintf("SlotAppliedIndex: %v", err))
	}
	return idx
}

func (w *world) snapshotBytes() []byte {
	snap, err := w.db.ExportHashSlotSnapshot(context.Background(), w.allHS)
	if err != nil {
		panic(fmt.Sprintf("ExportHashSlotSnapshot: %v", err))
	}
	return snap.Data
}

func hash64(parts ...[]byte) uint64 {
	h := sha256.New()
	for _, p := range parts {
		var l [8]byte
		binary.BigEndian.PutUint64(l[:], uint64(len(p)))
		h.Write(l[:])
		h.Write(p)
	}
	return binary.BigEndian.Uint64(h.Sum(nil)[:8])
}

// digest: 64 bits of SHA-256 over the exported snapshot bytes of every hash
// slot of the world (owned or not).  The durable applied index of the slot is
// observed separately.
func (w *world) digest() uint64 { return hash64(w.snapshotBytes()) }

// ownedDigest covers the owned hash slots only (what Snapshot() exports).
func (w *world) ownedDigest() uint64 {
	snap, err := w.db.ExportHashSlotSnapshot(context.Background(), w.owned)
	if err != nil {
		panic(fmt.Sprintf("ExportHashSlotSnapshot: %v", err))
	}
	return hash64(snap.Data)
}

// ---- table read-back ------------------------------------------------------------

type userRow struct {
	HS uint16
	U  metadb.User
}

func (w *world) users() []userRow {
	var out []userRow
	for _, hs := range w.allHS {
		after := metadb.UserCursor{}
		for {
			us, cur, done, err := w.db.ForHashSlot(hs).ListUsersPage(context.Background(), after, 100)
			if err != nil {
				panic(fmt.Sprintf("ListUsersPage: %v", err))
			}
			for _, u := range us {
				out = append(out, userRow{hs, u})
			}
			if done || len(us) == 0 {
				break
			}
			after = cur
		}
	}
	return out
}

type chanKey struct {
	ID string
	Ty int64
}

func (w *world) tasksOf(hs uint16) []metadb.ChannelMigrationTask {
	ts, err := w.db.ForHashSlot(hs).ListChannelMigrationTasks(context.Background())
	if err != nil {
		panic(fmt.Sprintf("ListChannelMigrationTasks: %v", err))
	}
	return ts
}

func (w *world) metaOf(hs uint16, k chanKey) (metadb.ChannelRuntimeMeta, bool) {
	m, err := w.db.ForHashSlot(hs).GetChannelRuntimeMeta(context.Background(), k.ID, k.Ty)
	if err != nil {
		if errors.Is(err, metadb.ErrNotFound) {
			return metadb.ChannelRuntimeMeta{}, false
		}
		panic(fmt.Sprintf("GetChannelRuntimeMeta(%v): %v", k, err))
	}
	return m, true
}

func (w *world) activeIdxOf(hs uint16, k chanKey) (string, bool) {
	v, ok, err := metadb.VerifC13ActiveIndex(w.db, hs, k.ID, k.Ty)
	if err != nil {
		panic(fmt.Sprintf("active index(%v): %v", k, err))
	}
	return v, ok
}

func (w *world) hsState(hs uint16) (metadb.HashSlotMigrationState, bool) {
	st, err := w.db.LoadHashSlotMigrationState(context.Background(), hs)
	if err != nil {
		if errors.Is(err, metadb.ErrNotFound) {
			return metadb.HashSlotMigrationState{}, false
		}
		panic(fmt.Sprintf("LoadHashSlotMigrationState: %v", err))
	}
	return st, true
}

func (w *world) outbox(hs uint16) []metadb.HashSlotMigrationOutboxRow {
	rows, err := metadb.VerifC13ListOutbox(w.db, hs)
	if err != nil {
		panic(fmt.Sprintf("list outbox: %v", err))
	}
	return rows
}

func (w *world) appliedDeltas(hs uint16) []metadb.AppliedHashSlotDelta {
	ds, err := w.db.ListAppliedHashSlotDeltas(context.Background(), hs)
	if err != nil {
		panic(fmt.Sprintf("ListAppliedHashSlotDeltas: %v", err))
	}
	return ds
}

// ---- adapter for the channel-migration generator (copied from the C17 harness) ----

type cmWorld struct {
	w   *world
	idx uint64
}

func newCMWorld() *cmWorld { return &cmWorld{w: newSrcWorld(0, cfgJ{}, true)} }

func (c *cmWorld) close() {}
func (c *cmWorld) done()  {}

func (c *cmWorld) apply(batch []cmJ) {
	cmds := make([]multiraft.Command, len(batch))
	for i, b := range batch {
		c.idx++
		cmds[i] = multiraft.Command{SlotID: srcSlot, HashSlot: hsA, Index: c.idx, Term: 1, Data: b.encode()}
	}
	c.w.applyRaw(cmds)
}

func (c *cmWorld) tasks() []metadb.ChannelMigrationTask { return c.w.tasksOf(hsA) }

func (c *cmWorld) meta(k chanKey) (metadb.ChannelRuntimeMeta, bool) { return c.w.metaOf(hsA, k) }
