#!/usr/bin/env python3
"""Regenerates coq/Proof/SlotFSM_refuted.v from the finding witnesses corpus/C13/k*.json.
usage: gen_refuted.py <path to a C13 harness binary built from /repo>   (e.g. /verif/.bin/C13)"""
import json, os, subprocess, sys, tempfile
V = '/verif'
names = sorted(n for n in os.listdir(V + '/corpus/C13') if n.startswith('k'))
with tempfile.NamedTemporaryFile('w', suffix='.jsonl', delete=False) as f:
    for n in names:
        f.write(json.dumps(json.load(open(V + '/corpus/C13/' + n))) + '\n')
out = subprocess.run([sys.argv[1], '-input', f.name], capture_output=True, text=True, cwd=V + '/.tmp', env=dict(os.environ, VERIF_PROP='C13')).stdout
cases = [json.loads(l) for l in out.splitlines() if l.strip()]
assert len(cases) == len(names)
head = open(V + '/coq/Proof/SlotFSM_refuted.v').read()
head = head[:head.index('Definition w_k1')]
body = ''
codes = {'k1': 2, 'k2': 3, 'k3': 4, 'k4': 5, 'k5': 6, 'k6': 7}
for n, c in zip(names, cases):
    base = n[:-5]
    body += "Definition w_%s : c13_case :=\n  %s.\n\n" % (base, c['coq'])
    body += "Lemma w_%s_model_matches : C13_mismatch w_%s = false.\nProof. vm_compute. reflexivity. Qed.\n" % (base, base)
    body += "Lemma w_%s_code : C13_monitor w_%s = %d.\nProof. vm_compute. reflexivity. Qed.\n" % (base, base, codes[base[:2]])
    if base[:2] != 'k6':  # K6's command family is not interpreted by the model: no model-level divergence to show
        body += "Lemma w_%s_diverges : diverges w_%s = true.\nProof. vm_compute. reflexivity. Qed.\n" % (base, base)
    body += "\n"
tail = '''(* the refutations *)
Lemma k1_refuted : exists c, C13_mismatch c = false /\\ C13_monitor c = 2 /\\ diverges c = true.
Proof. exists w_k1_reactivate_terminal_then_create.
  exact (conj w_k1_reactivate_terminal_then_create_model_matches
        (conj w_k1_reactivate_terminal_then_create_code w_k1_reactivate_terminal_then_create_diverges)). Qed.
Lemma k2_refuted : exists c, C13_mismatch c = false /\\ C13_monitor c = 3 /\\ diverges c = true.
Proof. exists w_k2_create_complete_create.
  exact (conj w_k2_create_complete_create_model_matches
        (conj w_k2_create_complete_create_code w_k2_create_complete_create_diverges)). Qed.
Lemma k3_refuted : exists c, C13_mismatch c = false /\\ C13_monitor c = 4 /\\ diverges c = true.
Proof. exists w_k3_complete_then_gc.
  exact (conj w_k3_complete_then_gc_model_matches (conj w_k3_complete_then_gc_code w_k3_complete_then_gc_diverges)). Qed.
Lemma k4_refuted : exists c, C13_mismatch c = false /\\ C13_monitor c = 5 /\\ diverges c = true.
Proof. exists w_k4_cleanup_then_write.
  exact (conj w_k4_cleanup_then_write_model_matches (conj w_k4_cleanup_then_write_code w_k4_cleanup_then_write_diverges)). Qed.
Lemma k5_refuted : exists c, C13_mismatch c = false /\\ C13_monitor c = 6 /\\ diverges c = true.
Proof. exists w_k5_create_claim_complete.
  exact (conj w_k5_create_claim_complete_model_matches
        (conj w_k5_create_claim_complete_code w_k5_create_claim_complete_diverges)). Qed.
(* K6 (DeleteChannel, then a subscriber write for a uid subscribed when the delete ran): the
   channel / subscriber commands are not interpreted by the model; the witness shows the real
   observations and the monitor's classification only *)
Lemma k6_witness : exists c, c_modelled c = false /\\ C13_monitor c = 7.
Proof. exists w_k6_delete_then_readd_subscriber. split; [reflexivity|exact w_k6_delete_then_readd_subscriber_code]. Qed.
'''
open(V + '/coq/Proof/SlotFSM_refuted.v', 'w').write(head + body + tail)
print('wrote', len(names), 'witnesses')
