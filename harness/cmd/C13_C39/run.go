package main

import (
	"context"
	"fmt"
	"os"
	"sort"
	"strings"

	"github.com/WuKongIM/WuKongIM/internal/verifh/vh"
	metadb "github.com/WuKongIM/WuKongIM/pkg/db/meta"
	"github.com/WuKongIM/WuKongIM/pkg/slot/fsm"
	"github.com/WuKongIM/WuKongIM/pkg/slot/multiraft"
)

// ---- one log entry, encoded -------------------------------------------------------

type entry struct {
	c    cmdJ
	data []byte
	cmd  multiraft.Command
}

func buildLog(ops []cmdJ, slot uint64) []entry {
	var out []entry
	for _, c := range ops {
		data, ok := c.encode()
		if !ok {
			continue
		}
		e := entry{c: c, data: data}
		sid := multiraft.SlotID(slot)
		if c.BadSlot {
			sid++
		}
		e.cmd = multiraft.Command{SlotID: sid, HashSlot: c.hs(), Index: uint64(len(out) + 1), Term: 1, Data: data}
		out = append(out, e)
	}
	return out
}

// ---- observations -------------------------------------------------------------------

// resObs is one per-command result: class (0 ok, 1 stale_meta, 2 hash_slot_fenced,
// 100+n garbage-collect result with n deleted rows, 3 anything else) and a
// 64-bit hash of the exact result bytes.
type resObs struct {
	Cls uint64 `json:"cls"`
	H   uint64 `json:"h"`
	Raw string `json:"raw,omitempty"`
}

func classifyResult(r []byte) resObs {
	o := resObs{H: hash64(r), Raw: fmt.Sprintf("%q", string(r))}
	switch string(r) {
	case fsm.ApplyResultOK:
		o.Cls = 0
	case fsm.ApplyResultStaleMeta:
		o.Cls = 1
	case fsm.ApplyResultHashSlotFenced:
		o.Cls = 2
	default:
		if n, ok, err := fsm.DecodeGarbageCollectTerminalChannelMigrationTasksResult(r); ok && err == nil {
			o.Cls = 100 + uint64(n)
		} else {
			o.Cls = 3
		}
	}
	return o
}

// batchObs is the outcome of one ApplyBatch call and the digest after it.
type batchObs struct {
	Fatal  uint64   `json:"fatal,omitempty"` // error class when ApplyBatch returned an error
	Err    string   `json:"err,omitempty"`
	Res    []resObs `json:"res,omitempty"`
	Digest uint64   `json:"digest"`
	// Applied is the durable applied index of the slot after the call.
	Applied uint64 `json:"applied"`
}

func (b batchObs) coq() string {
	var out string
	if b.Fatal != 0 {
		out = vh.App("BFatal", vh.N(b.Fatal))
	} else {
		out = vh.App("BOk", vh.ListOf(b.Res, func(r resObs) string { return vh.Pair(vh.N(r.Cls), vh.N(r.H)) }))
	}
	return vh.App("BObs", out, vh.N(b.Digest), vh.N(b.Applied))
}

func (w *world) applyObs(cmds []multiraft.Command) batchObs {
	res, err := w.applyRaw(cmds)
	o := batchObs{}
	if err != nil {
		o.Fatal, o.Err = errClass(err), err.Error()
	} else {
		if len(res) != len(cmds) {
			panic(fmt.Sprintf("ApplyBatch returned %d results for %d commands", len(res), len(cmds)))
		}
		for _, r := range res {
			o.Res = append(o.Res, classifyResult(r))
		}
	}
	o.Digest = w.digest()
	o.Applied = w.appliedIndex()
	if debugRaw != nil {
		debugRaw[o.Digest] = w.rawRows()
	}
	return o
}

// debugRaw (VERIF_C13_DEBUG): raw rows behind every digest seen, to show what differs.
var debugRaw map[uint64][]string

func (w *world) rawRows() []string {
	var out []string
	for _, hs := range w.allHS {
		rows, err := metadb.VerifC13RawRows(w.db, hs)
		if err != nil {
			panic(err)
		}
		for _, kv := range rows {
			out = append(out, fmt.Sprintf("%x = %x", kv[0], kv[1]))
		}
	}
	out = append(out, fmt.Sprintf("applied_index = %d", w.appliedIndex()))
	return out
}

func rawDiff(a, b uint64) string {
	if debugRaw == nil {
		return ""
	}
	ra, rb := map[string]bool{}, map[string]bool{}
	for _, x := range debugRaw[a] {
		ra[x] = true
	}
	for _, x := range debugRaw[b] {
		rb[x] = true
	}
	var out []string
	for _, x := range debugRaw[a] {
		if !rb[x] {
			out = append(out, "    partition only: "+x)
		}
	}
	for _, x := range debugRaw[b] {
		if !ra[x] {
			out = append(out, "    reference only: "+x)
		}
	}
	return "\n" + strings.Join(out, "\n")
}

// cut splits n log positions by the cyclic size pattern.
func cut(n int, pattern []int) []int {
	var sizes []int
	if len(pattern) == 0 {
		pattern = []int{1}
	}
	for i, k := 0, 0; i < n; k++ {
		s := pattern[k%len(pattern)]
		if s < 1 {
			s = 1
		}
		if i+s > n {
			s = n - i
		}
		sizes = append(sizes, s)
		i += s
	}
	return sizes
}

// ---- dump of the modelled tables ---------------------------------------------------------

func chanAlphabetOf(log []entry) []chanKey {
	seen := map[chanKey]bool{}
	var keys []chanKey
	add := func(id string, ty int64) {
		k := chanKey{id, ty}
		if !validKey(id) || seen[k] {
			return
		}
		seen[k] = true
		keys = append(keys, k)
	}
	var walk func(c cmdJ)
	walk = func(c cmdJ) {
		if c.CM != nil {
			if c.CM.Meta != nil {
				add(c.CM.Meta.ID, c.CM.Meta.Type)
			}
			if c.CM.Task != nil {
				add(c.CM.Task.Ch, c.CM.Task.Ty)
			}
			if c.CM.G != nil {
				add(c.CM.G.Ch, c.CM.G.Ty)
			}
			if c.CM.RG != nil {
				add(c.CM.RG.Ch, c.CM.RG.Ty)
			}
		}
		if c.Orig != nil {
			walk(*c.Orig)
		}
	}
	for _, e := range log {
		walk(e.c)
	}
	sort.Slice(keys, func(i, j int) bool {
		if keys[i].ID != keys[j].ID {
			return keys[i].ID < keys[j].ID
		}
		return keys[i].Ty < keys[j].Ty
	})
	return keys
}

func validKey(s string) bool { return s != "" && len(s) <= 64 }

func coqChan(k chanKey) string { return vh.App("ChanKey", hexS(k.ID), vh.Z(k.Ty)) }

func coqHsState(st metadb.HashSlotMigrationState) string {
	return vh.App("HsState", vh.N(uint64(st.HashSlot)), vh.N(st.SourceSlot), vh.N(st.TargetSlot), vh.N(uint64(st.Phase)),
		vh.N(st.FenceIndex), vh.N(st.LastOutboxIndex), vh.N(st.LastAckedIndex))
}

// dump renders the modelled tables as a Model.SlotFSM.dump term and a short text.
func (w *world) dump(keys []chanKey) (string, []string) {
	var txt []string
	users := w.users()
	cu := vh.ListOf(users, func(u userRow) string {
		txt = append(txt, fmt.Sprintf("user hs%d %s tok=%q %d/%d", u.HS, u.U.UID, u.U.Token, u.U.DeviceFlag, u.U.DeviceLevel))
		return vh.App("URow", vh.N(uint64(u.HS)), hexS(u.U.UID), hexS(u.U.Token), vh.Z(u.U.DeviceFlag), vh.Z(u.U.DeviceLevel))
	})
	var cms []string
	for _, hs := range w.allHS {
		tasks := w.tasksOf(hs)
		act := make([]string, len(keys))
		metas := make([]string, len(keys))
		for i, k := range keys {
			if id, ok := w.activeIdxOf(hs, k); ok {
				act[i] = vh.Pair(coqChan(k), vh.Some(hexS(id)))
				txt = append(txt, fmt.Sprintf("active hs%d %s->%s", hs, k.ID, id))
			} else {
				act[i] = vh.Pair(coqChan(k), vh.None())
			}
			if m, ok := w.metaOf(hs, k); ok {
				metas[i] = vh.Pair(coqChan(k), vh.Some(coqMeta(m)))
				txt = append(txt, fmt.Sprintf("meta hs%d %s", hs, metaBrief(m)))
			} else {
				metas[i] = vh.Pair(coqChan(k), vh.None())
			}
		}
		for _, t := range tasks {
			txt = append(txt, fmt.Sprintf("task hs%d %s", hs, taskBrief(t)))
		}
		cms = append(cms, vh.App("CmObs", vh.N(uint64(hs)), vh.ListOf(tasks, coqTask), vh.List(act), vh.List(metas)))
	}
	var states, outbox, applied []string
	for _, hs := range w.allHS {
		if st, ok := w.hsState(hs); ok {
			states = append(states, coqHsState(st))
			txt = append(txt, fmt.Sprintf("hsstate %+v", st))
		}
		for _, row := range w.outbox(hs) {
			outbox = append(outbox, vh.App("Outbox", vh.N(uint64(row.HashSlot)), vh.N(row.SourceSlot), vh.N(row.TargetSlot), vh.N(row.SourceIndex), vh.Hex(row.Data)))
			txt = append(txt, fmt.Sprintf("outbox hs%d %d->%d idx%d %x", row.HashSlot, row.SourceSlot, row.TargetSlot, row.SourceIndex, row.Data))
		}
		for _, d := range w.appliedDeltas(hs) {
			applied = append(applied, vh.App("DKey", vh.N(uint64(d.HashSlot)), vh.N(d.SourceSlot), vh.N(d.SourceIndex)))
			txt = append(txt, fmt.Sprintf("applied hs%d src%d idx%d", d.HashSlot, d.SourceSlot, d.SourceIndex))
		}
	}
	idx := w.appliedIndex()
	txt = append(txt, fmt.Sprintf("applied_index %d", idx))
	return vh.App("Dump", cu, vh.List(cms), vh.List(states), vh.List(outbox), vh.List(applied), vh.N(idx)), txt
}

func taskBrief(t metadb.ChannelMigrationTask) string { return fmt.Sprintf("%+v", t) }

func metaBrief(m metadb.ChannelRuntimeMeta) string { return fmt.Sprintf("%+v", m) }

// ---- decode observation ---------------------------------------------------------------------

func coqDecode(data []byte) string {
	d := fsm.VerifC13Decode(data)
	if d.Err != 0 {
		return vh.App("DecErr", vh.N(uint64(d.Err)))
	}
	switch d.Kind {
	case 1:
		return vh.App("DecDelta", vh.N(d.F[0]), vh.N(d.F[1]), vh.N(d.F[2]), vh.Hex(d.Orig))
	case 2:
		return vh.App("DecFence", vh.N(d.F[0]), vh.N(d.F[1]))
	case 3:
		return vh.App("DecAck", vh.N(d.F[0]), vh.N(d.F[1]), vh.N(d.F[2]), vh.N(d.F[3]))
	case 4:
		return vh.App("DecCleanup", vh.N(d.F[0]), vh.N(d.F[1]), vh.N(d.F[2]), vh.N(d.F[3]))
	}
	return "DecOther"
}

// ---- the C13 run ----------------------------------------------------------------------------------

type partObs struct {
	Sizes   []int      `json:"sizes"`
	Batches []batchObs `json:"batches"`
	Dump    []string   `json:"dump,omitempty"`
}

type snapObs struct {
	K        int    `json:"k"`
	RefData  uint64 `json:"ref_data"`
	Restored uint64 `json:"restored"`
	RefFinal uint64 `json:"ref_final"`
	Final    uint64 `json:"final"`
	Err      string `json:"err,omitempty"`
}

type c13Obs struct {
	Ref   []batchObs `json:"ref"`
	Dump  []string   `json:"dump,omitempty"`
	Parts []partObs  `json:"parts"`
	Snaps []snapObs  `json:"snaps,omitempty"`
	Diff  []string   `json:"diff,omitempty"`
}

func coqCfg(cfg cfgJ) string {
	owned := srcOwned
	if cfg.Legacy {
		owned = []uint16{hsA}
	}
	var hss []uint16
	for hs := range cfg.Mig {
		hss = append(hss, hs)
	}
	sort.Slice(hss, func(i, j int) bool { return hss[i] < hss[j] })
	var migs []string
	for _, hs := range hss {
		if cfg.Mig[hs] == 0 {
			continue
		}
		migs = append(migs, vh.Pair(vh.N(uint64(hs)), vh.Pair(vh.N(cfg.Mig[hs]), vh.N(uint64(fsm.VerifC13PhaseDelta)))))
	}
	return vh.App("Cfg", vh.N(srcSlot), vh.ListOf(owned, func(h uint16) string { return vh.N(uint64(h)) }), vh.N(hsA), vh.B(cfg.Legacy), vh.List(migs))
}

func runC13(in input) vh.Result {
	ok := false
	defer func() {
		if !ok {
			abandonHandles()
		}
	}()
	if os.Getenv("VERIF_C13_DEBUG") != "" {
		debugRaw = map[uint64][]string{}
	}
	log := buildLog(in.Ops, srcSlot)
	n := len(log)
	modelled := true
	needData := len(in.Cfg.Mig) > 0
	for _, e := range log {
		if !e.c.modelled() {
			modelled = false
		}
		if e.c.K == "fence" {
			needData = true // a fence with an explicit target stages an outbox row without a configured migration
		}
	}
	keys := chanAlphabetOf(log)
	obs := c13Obs{}

	// reference run: one command per ApplyBatch call
	w := newSrcWorld(0, in.Cfg, true)
	d0 := w.digest()
	snapAt := map[int]bool{}
	for _, k := range in.Snap {
		if k >= 0 && k <= n {
			snapAt[k] = true
		}
	}
	type snapRec struct {
		data    []byte
		refData uint64
	}
	snaps := map[int]snapRec{}
	takeSnap := func(k int) {
		if !snapAt[k] {
			return
		}
		s, err := w.raw.Snapshot(context.Background())
		if err != nil {
			panic(fmt.Sprintf("Snapshot: %v", err))
		}
		snaps[k] = snapRec{data: append([]byte(nil), s.Data...), refData: w.ownedDigest()}
	}
	takeSnap(0)
	refLen := n // number of log positions the reference run executed without a fatal error
	for i, e := range log {
		o := w.applyObs([]multiraft.Command{e.cmd})
		obs.Ref = append(obs.Ref, o)
		if o.Fatal != 0 {
			refLen = i
			break
		}
		takeSnap(i + 1)
	}
	refFinalData := w.ownedDigest()
	refDump, refDumpTxt := "", []string(nil)
	if modelled {
		refDump, refDumpTxt = w.dump(keys)
		obs.Dump = refDumpTxt
	}

	// the other partitions
	patterns := [][]int{{n + 1}}
	patterns = append(patterns, in.Parts...)
	var coqParts []string
	seenSizes := map[string]bool{}
	for _, p := range patterns {
		sizes := cut(n, p)
		key := fmt.Sprint(sizes)
		if seenSizes[key] || len(sizes) == n {
			continue
		}
		seenSizes[key] = true
		pw := newSrcWorld(0, in.Cfg, true)
		po := partObs{Sizes: sizes}
		pos := 0
		for _, s := range sizes {
			cmds := make([]multiraft.Command, s)
			for j := 0; j < s; j++ {
				cmds[j] = log[pos+j].cmd
			}
			o := pw.applyObs(cmds)
			po.Batches = append(po.Batches, o)
			pos += s
			if o.Fatal != 0 {
				break
			}
		}
		pd := "None"
		if modelled {
			if t, txt := pw.dump(keys); t != refDump {
				pd = vh.Some(t)
				po.Dump = txt
			}
		}
		obs.Parts = append(obs.Parts, po)
		coqParts = append(coqParts, vh.App("Part", vh.ListOf(sizes, func(s int) string { return vh.N(uint64(s)) }),
			vh.ListOf(po.Batches, batchObs.coq), pd))
		obs.Diff = append(obs.Diff, diffPartition(log, obs.Ref, d0, po)...)
	}

	// snapshot at prefix k, restore into the second DB, apply the suffix one by one
	var coqSnaps []string
	var ks []int
	for k := range snaps {
		ks = append(ks, k)
	}
	sort.Ints(ks)
	for _, k := range ks {
		if k > refLen {
			continue
		}
		rec := snaps[k]
		so := snapObs{K: k, RefData: rec.refData, RefFinal: refFinalData}
		rw := newSrcWorld(1, in.Cfg, true)
		if err := rw.raw.Restore(context.Background(), multiraft.Snapshot{Index: uint64(k), Term: 1, Data: rec.data}); err != nil {
			so.Err = err.Error()
		} else {
			so.Restored = rw.ownedDigest()
			for i := k; i < n; i++ {
				if _, err := rw.applyRaw([]multiraft.Command{log[i].cmd}); err != nil {
					break
				}
			}
			so.Final = rw.ownedDigest()
		}
		obs.Snaps = append(obs.Snaps, so)
		coqSnaps = append(coqSnaps, vh.App("SnapObs", vh.N(uint64(k)), vh.B(so.Err == ""), vh.N(so.RefData), vh.N(so.Restored), vh.N(so.RefFinal), vh.N(so.Final)))
		if so.Err != "" || so.RefData != so.Restored || so.RefFinal != so.Final {
			obs.Diff = append(obs.Diff, fmt.Sprintf("snapshot at %d: %+v", k, so))
		}
	}

	// the case term
	entries := make([]string, n)
	for i, e := range log {
		data := "[]"
		if needData || e.c.K == "raw" {
			data = vh.Hex(e.data)
		}
		dec := "None"
		switch e.c.K {
		case "raw", "delta", "fence", "ack", "cleanup":
			dec = vh.Some(vh.Pair(vh.Hex(e.data), coqDecode(e.data)))
		}
		entries[i] = vh.App("Entry", vh.B(!e.c.BadSlot), vh.N(uint64(e.cmd.HashSlot)), e.c.coq(), data, dec, e.c.coqChan())
	}
	dumpT := "None"
	if modelled {
		dumpT = vh.Some(refDump)
	}
	coq := vh.App("C13Case", coqCfg(in.Cfg), vh.B(modelled), vh.List(entries), vh.N(d0), vh.ListOf(obs.Ref, batchObs.coq),
		vh.List(coqParts), vh.List(coqSnaps), dumpT)

	class := in.Prof
	if class == "" {
		class = "replay"
	}
	flags := map[string]bool{}
	for i, o := range obs.Ref {
		if o.Fatal != 0 {
			flags["fatal"] = true
			continue
		}
		switch o.Res[0].Cls {
		case 1:
			flags["stale"] = true
		case 2:
			flags["fenced"] = true
		}
		if log[i].c.K == "delta" {
			flags["delta"] = true
		}
	}
	for _, f := range []string{"fatal", "fenced", "stale", "delta"} {
		if flags[f] {
			class += "+" + f
		}
	}
	if len(obs.Diff) > 0 {
		class += "+DIFF"
		if os.Getenv("VERIF_C13_DEBUG") != "" {
			fmt.Fprintf(os.Stderr, "---- partition difference (%s)\n%s\n", class, strings.Join(obs.Diff, "\n"))
		}
	}
	ok = true
	return vh.Result{Coq: coq, Obs: obs, Class: class, Trivial: n == 0}
}

// diffPartition is the Go-side twin of the Coq monitor, for the replay files
// and for development: it lists where a partition run departs from the
// reference run.
func diffPartition(log []entry, ref []batchObs, d0 uint64, po partObs) []string {
	var out []string
	pos := 0
	digestAt := func(k int) uint64 { // digest after k reference commands
		if k == 0 {
			return d0
		}
		return ref[k-1].Digest
	}
	for bi, b := range po.Batches {
		s := po.Sizes[bi]
		fatalAt := -1
		for j := pos; j < pos+s && j < len(ref); j++ {
			if ref[j].Fatal != 0 {
				fatalAt = j
				break
			}
		}
		kinds := func() string {
			var ks []string
			for j := pos; j < pos+s; j++ {
				k := log[j].c.K
				if log[j].c.CM != nil {
					k += ":" + log[j].c.CM.K
				}
				ks = append(ks, k)
			}
			return strings.Join(ks, ",")
		}
		if fatalAt >= 0 {
			if b.Fatal == 0 {
				out = append(out, fmt.Sprintf("sizes %v batch %d [%s]: reference fails at %d (%s) but the batch succeeded", po.Sizes, bi, kinds(), fatalAt, ref[fatalAt].Err))
			} else if b.Digest != digestAt(pos) && b.Digest != digestAt(fatalAt) {
				out = append(out, fmt.Sprintf("sizes %v batch %d [%s]: failed batch left a state that is neither the batch start nor the reference state before the failing command", po.Sizes, bi, kinds()))
			} else if b.Fatal != ref[fatalAt].Fatal {
				out = append(out, fmt.Sprintf("sizes %v batch %d [%s]: error class %d vs reference %d", po.Sizes, bi, kinds(), b.Fatal, ref[fatalAt].Fatal))
			}
			return out
		}
		if b.Fatal != 0 {
			out = append(out, fmt.Sprintf("sizes %v batch %d [%s]: batch failed (%s) but the reference run applies these commands", po.Sizes, bi, kinds(), b.Err))
			return out
		}
		for j := 0; j < s; j++ {
			if pos+j >= len(ref) {
				break
			}
			r := ref[pos+j].Res[0]
			if b.Res[j].H != r.H {
				out = append(out, fmt.Sprintf("sizes %v batch %d [%s]: result of command %d (%s) is %s, reference %s", po.Sizes, bi, kinds(), pos+j, log[pos+j].c.K, b.Res[j].Raw, r.Raw))
			}
		}
		if b.Digest != digestAt(pos+s) {
			out = append(out, fmt.Sprintf("sizes %v batch %d [%s]: state after the batch differs from the reference state after %d commands%s", po.Sizes, bi, kinds(), pos+s, rawDiff(b.Digest, digestAt(pos+s))))
		}
		// the durable applied index may lag behind the batch end only over commands without effect
		end := uint64(pos + s)
		if b.Applied > end {
			out = append(out, fmt.Sprintf("sizes %v batch %d [%s]: applied index %d beyond the batch end %d", po.Sizes, bi, kinds(), b.Applied, end))
		}
		for j := int(b.Applied); j < pos+s && j < len(ref); j++ {
			if j >= 0 && ref[j].Fatal == 0 && ref[j].Res[0].Cls != 1 {
				out = append(out, fmt.Sprintf("sizes %v batch %d [%s]: applied index %d lags behind command %d whose reference result is not stale_meta", po.Sizes, bi, kinds(), b.Applied, j))
				break
			}
		}
		if len(out) > 0 {
			return out
		}
		pos += s
	}
	return out
}
