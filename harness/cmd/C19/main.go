// Harness for C19: the controller state file is replaced atomically and a damaged
// file is rejected.
//
// Four kinds of cases, all on the public API (statefile.Store, state.Encode/Decode):
//
//	kill     a child process saves a list of states in a loop and is killed (SIGKILL) at a
//	         random moment; the parent then Loads: it must get the last state the child
//	         reported as saved or the next one, never anything else, whatever temp files remain;
//	history  a sequence of Saves into ONE directory, some of them cut by a process kill inside the
//	         hook or failed by the hook, with state sizes that shrink as well as grow; after every
//	         event the directory is listed and Load is called: a Save that returned nil must be
//	         what Load returns, a failed / killed Save must leave the previous or the new state;
//	         the temp name Save chose is observed (was it already present before the Save?);
//	hook     the WithAfterTempWriteHook point: the directory is observed inside the hook, then
//	         the hook returns nil / returns an error / panics / the Save happens in a child that
//	         kills itself inside the hook; the directory is observed again, then Load;
//	corrupt  every single-byte substitution (quick: 8 bit flips + 5 byte values per position,
//	         thorough: all 255), every truncation, every single-byte deletion and a few insertions
//	         of a saved file: Load must reject it or return exactly the saved state;
//	tamper   a field of the decoded document is changed and the document re-marshalled with the
//	         old checksum (and with no / empty checksum, other schema versions): Load must reject.
package main

import (
	"context"
	"encoding/json"
	"errors"
	"fmt"
	"math/rand/v2"
	"os"
	"os/exec"
	"path/filepath"
	"reflect"
	"sort"
	"strings"
	"syscall"
	"time"

	"github.com/WuKongIM/WuKongIM/internal/verifh/vh"
	"github.com/WuKongIM/WuKongIM/pkg/controller/state"
	"github.com/WuKongIM/WuKongIM/pkg/controller/statefile"
)

type input struct {
	Kind string `json:"kind"`
	// Ops: the states of the case (parameters of makeState); the shrinker may delete elements.
	Ops []stateSpec `json:"ops"`
	// kill: microseconds to wait after the child reported Wait saves, before SIGKILL
	Wait  int `json:"wait,omitempty"`
	Delay int `json:"delay_us,omitempty"`
	// hook: 0 nil, 1 error, 2 panic, 3 child kills itself inside the hook
	Variant int `json:"variant,omitempty"`
	// corrupt: all 255 values per position
	Full bool `json:"full,omitempty"`
}

type stateSpec struct {
	Revision uint64 `json:"revision"`
	Nodes    int    `json:"nodes"`
	Slots    int    `json:"slots"`
	Tasks    bool   `json:"tasks"`
	Health   int    `json:"health"`
	Backup   int    `json:"backup"` // 0 none, 1 plan, 2 plan + active job (256 slots)
	Ops      bool   `json:"ops_mcp"`
	Nano     int    `json:"nano"`
	// history cases: how this state is saved. 0 Save in this process; 1 Save in a child that kills
	// itself inside the after-temp-write hook; 2 Save in this process with a failing hook
	Mode int `json:"mode,omitempty"`
}

// makeState builds a valid cluster state from its parameters.
func makeState(sp stateSpec) state.ClusterState {
	n := sp.Nodes
	if n < 1 {
		n = 1
	}
	if n > 6 {
		n = 6
	}
	rc := 3
	if n < 3 {
		rc = n
	}
	slots := sp.Slots
	if slots < 0 {
		slots = 0
	}
	if slots > 4 {
		slots = 4
	}
	table, err := state.BuildInitialHashSlotTable(4, 256)
	if err != nil {
		panic(err)
	}
	rev := sp.Revision
	if rev == 0 {
		rev = 1
	}
	st := state.ClusterState{SchemaVersion: state.CurrentSchemaVersion, ClusterID: "wk-c19", Revision: rev, AppliedRaftIndex: rev + 3,
		UpdatedAt: time.Unix(1700000000+int64(rev), int64(sp.Nano)).UTC(),
		Config:    state.ClusterConfig{SlotCount: 4, HashSlotCount: 256, ReplicaCount: uint16(rc), DefaultCapacityWeight: 10}, HashSlots: table}
	for i := 1; i <= n; i++ {
		roles := []state.NodeRole{state.NodeRoleData}
		if i <= 2 {
			roles = []state.NodeRole{state.NodeRoleControllerVoter, state.NodeRoleData}
		}
		st.Nodes = append(st.Nodes, state.Node{NodeID: uint64(i), Name: fmt.Sprintf("node-%d \"é\" <%d>", i, i), Addr: fmt.Sprintf("10.0.0.%d:7000", i), Roles: roles,
			JoinState: state.NodeJoinStateActive, Status: state.NodeStatusAlive, CapacityWeight: uint32(i)})
	}
	st.Controllers = []state.ControllerVoter{{NodeID: 1, Addr: "10.0.0.1:7000", Role: state.ControllerRoleVoter}}
	var peers []uint64
	for i := 1; i <= rc; i++ {
		peers = append(peers, uint64(i))
	}
	for s := 1; s <= slots; s++ {
		st.Slots = append(st.Slots, state.SlotAssignment{SlotID: uint32(s), DesiredPeers: peers, ConfigEpoch: uint64(s), PreferredLeader: peers[0]})
	}
	if sp.Tasks && slots > 0 && sp.Backup < 2 {
		var pp []state.TaskParticipantProgress
		for _, p := range peers {
			pp = append(pp, state.TaskParticipantProgress{NodeID: p, Status: state.TaskParticipantStatusPending})
		}
		st.Tasks = []state.ReconcileTask{{TaskID: "slot-1-bootstrap-1", SlotID: 1, Kind: state.TaskKindBootstrap, Step: state.TaskStepCreateSlot, TargetNode: peers[0],
			TargetPeers: peers, CompletionPolicy: state.TaskCompletionPolicyAllTargetPeers, ParticipantProgress: pp, ConfigEpoch: 1, Status: state.TaskStatusFailed,
			LastError: "disk \"full\"\n\t\\ é日本", Attempt: 2}}
	}
	for i := 1; i <= sp.Health && i <= n; i++ {
		st.NodeHealthReports = append(st.NodeHealthReports, state.NodeHealthReport{NodeID: uint64(i), Status: state.NodeStatusAlive, RuntimeReady: i%2 == 0,
			ObservedControlRevision: rev, ReportSeq: uint64(i), ReportedAtUnixMilli: 1700000000000, AppliedRaftIndex: rev})
	}
	if sp.Backup > 0 {
		sb := &state.ScheduledBackupState{Revision: 1, ManagerSessionEpoch: 2, Plan: &state.BackupPlan{Revision: 1, Enabled: true, Store: state.BackupStoreConfig{Kind: state.BackupStoreKindFile},
			Cron: "0 3 * * *", TimeZone: "UTC", RetentionCount: 2, RateBytesPerSec: 1 << 20, WorkersPerNode: 1, MaxDurationMillis: 3600 * 1000,
			ScheduleCursorUnixMillis: 1000, CreatedUnixMillis: 1000, UpdatedUnixMillis: 1000}}
		if sp.Backup > 1 {
			job := &state.ScheduledBackupJob{ID: "job-1", Trigger: state.BackupTriggerManual, Status: state.BackupJobStatusExporting, PlanRevision: 1,
				StartedAtUnixMillis: 2000, DeadlineUnixMillis: 9000, UpdatedUnixMillis: 2000}
			for i := 0; i < state.BackupHashSlotCount; i++ {
				job.Slots = append(job.Slots, state.BackupSlotProgress{HashSlot: uint16(i), Status: state.BackupSlotStatusPending})
			}
			sb.ActiveBackup = job
		}
		st.ScheduledBackup = sb
	}
	if sp.Ops {
		st.OpsMCP = &state.OpsMCPState{Enabled: true, OwnerNodeID: 1, Credentials: []state.OpsMCPCredential{{ID: "cred-a", DigestSHA256: strings.Repeat("ab", 32), CreatedAtUnixMillis: 7}}}
	}
	st.Normalize()
	if err := st.Validate(); err != nil {
		panic(fmt.Sprintf("makeState built an invalid state: %v", err))
	}
	sum, err := state.Checksum(st)
	if err != nil {
		panic(err)
	}
	st.Checksum = sum
	return st
}

func canon(st state.ClusterState) string {
	b, err := json.Marshal(st)
	if err != nil {
		panic(err)
	}
	return string(b)
}

// ---- generator ---------------------------------------------------------------------------------

func genSpec(r *rand.Rand, rev uint64) stateSpec {
	return stateSpec{Revision: rev, Nodes: 1 + r.IntN(6), Slots: r.IntN(5), Tasks: vh.Chance(r, 0.4), Health: r.IntN(4),
		Backup: vh.Pick(r, 0, 0, 0, 1, 2), Ops: vh.Chance(r, 0.3), Nano: vh.Pick(r, 0, 500000000, 123456789)}
}

func gen(r *rand.Rand, tier string, i int) input {
	var in input
	switch k := r.IntN(26); {
	case k >= 20:
		in.Kind = "history"
		n := 3 + r.IntN(6)
		small := func(rev uint64) stateSpec {
			return stateSpec{Revision: rev, Nodes: 1, Slots: 0, Nano: 0}
		}
		for j := 0; j < n; j++ {
			sp := genSpec(r, uint64(j+1))
			if sp.Backup > 1 && tier != "thorough" {
				sp.Backup = 1
			}
			sp.Mode = vh.Pick(r, 0, 0, 0, 1, 1, 2)
			if j > 0 && in.Ops[j-1].Mode != 0 && vh.Chance(r, 0.7) {
				sp = small(uint64(j + 1)) // after an interrupted Save of a larger state, a smaller one
			}
			if sp.Mode == 1 && vh.Chance(r, 0.5) {
				sp.Nodes, sp.Slots, sp.Health, sp.Tasks = 6, 4, 3, true // the interrupted Save is a large one
			}
			in.Ops = append(in.Ops, sp)
		}
	case k < 10:
		in.Kind = "kill"
		n := 2 + r.IntN(5)
		for j := 0; j < n; j++ {
			in.Ops = append(in.Ops, genSpec(r, uint64(j+1)))
		}
		in.Wait = r.IntN(n * 3)
		in.Delay = vh.Pick(r, 0, r.IntN(200), r.IntN(2000), r.IntN(8000))
	case k < 16:
		in.Kind = "hook"
		in.Ops = []stateSpec{genSpec(r, 1), genSpec(r, 2)}
		if vh.Chance(r, 0.2) {
			in.Ops = in.Ops[1:] // no previous file
		}
		in.Variant = r.IntN(4)
	case k < 18:
		in.Kind = "corrupt"
		sp := genSpec(r, uint64(1+r.IntN(1000000)))
		if tier != "thorough" {
			// keep the file small: the sweep is quadratic in the file size
			sp.Backup = vh.Pick(r, 0, 1)
			sp.Nodes, sp.Slots, sp.Health = 1+r.IntN(3), r.IntN(3), r.IntN(2)
			in.Full = false
		} else {
			if sp.Backup > 1 {
				sp.Backup = 1 // a 15 KiB file times 13 variants per byte is minutes of decoding
			}
			if vh.Chance(r, 0.3) { // all 255 values per position, on a small file
				in.Full = true
				sp.Nodes, sp.Slots, sp.Health, sp.Backup = 1+r.IntN(2), r.IntN(2), 0, 0
			}
		}
		in.Ops = []stateSpec{sp}
	default:
		in.Kind = "tamper"
		in.Ops = []stateSpec{genSpec(r, uint64(1+r.IntN(1000)))}
	}
	return in
}

// ---- kill -------------------------------------------------------------------------------------------

const childEnv = "C19_CHILD"

// childMain: save the states of the spec file in a loop, appending one byte to the progress
// file after every completed Save.  mode "selfkill": kill the process inside the hook of Save number 2.
func childMain() {
	dir := os.Getenv("C19_DIR")
	mode := os.Getenv(childEnv)
	raw, err := os.ReadFile(filepath.Join(dir, "specs.json"))
	if err != nil {
		os.Exit(3)
	}
	var specs []stateSpec
	if err := json.Unmarshal(raw, &specs); err != nil {
		os.Exit(3)
	}
	states := make([]state.ClusterState, len(specs))
	for i, sp := range specs {
		states[i] = makeState(sp)
	}
	prog, err := os.OpenFile(filepath.Join(dir, "progress"), os.O_CREATE|os.O_WRONLY|os.O_APPEND, 0o644)
	if err != nil {
		os.Exit(3)
	}
	saves := 0
	if mode == "one" { // save one state and die inside the hook
		var idx int
		fmt.Sscan(os.Getenv("C19_INDEX"), &idx)
		st := statefile.New(filepath.Join(dir, "data", "cluster-state.json"), statefile.WithAfterTempWriteHook(func() error {
			_ = syscall.Kill(os.Getpid(), syscall.SIGKILL)
			time.Sleep(time.Second)
			return nil
		}))
		_ = st.Save(context.Background(), states[idx])
		os.Exit(6)
	}
	store := statefile.New(filepath.Join(dir, "data", "cluster-state.json"), statefile.WithAfterTempWriteHook(func() error {
		if mode == "selfkill" && saves == len(states)-1 {
			_ = syscall.Kill(os.Getpid(), syscall.SIGKILL)
			time.Sleep(time.Second)
		}
		return nil
	}))
	rounds := 1
	if mode == "loop" {
		rounds = 1 << 30
	}
	for round := 0; round < rounds; round++ {
		for i := range states {
			if err := store.Save(context.Background(), states[i]); err != nil {
				os.Exit(4)
			}
			saves++
			if _, err := prog.Write([]byte{byte('a' + i)}); err != nil {
				os.Exit(5)
			}
		}
	}
}

type dirObs struct {
	Main  int   // -1 absent, i = equals Encode(states[i]), -2 other content
	Temps []int // same coding for every other file of the directory, sorted
}

func observeDir(dir string, enc [][]byte) dirObs {
	o := dirObs{Main: -1}
	ents, err := os.ReadDir(dir)
	if err != nil {
		return o
	}
	which := func(p string) int {
		b, err := os.ReadFile(p)
		if err != nil {
			return -2
		}
		for i, e := range enc {
			if string(e) == string(b) {
				return i
			}
		}
		return -2
	}
	for _, e := range ents {
		p := filepath.Join(dir, e.Name())
		if e.Name() == "cluster-state.json" {
			o.Main = which(p)
		} else {
			o.Temps = append(o.Temps, which(p))
		}
	}
	sort.Ints(o.Temps)
	return o
}

func loadClass(store *statefile.Store, states []state.ClusterState) (int, string) {
	st, err := store.Load(context.Background())
	if err != nil {
		if errors.Is(err, os.ErrNotExist) {
			return -1, "notexist"
		}
		return -2, "error"
	}
	for i := range states {
		if canon(states[i]) == canon(st) && reflect.DeepEqual(states[i], st) {
			return i, "ok"
		}
	}
	return -3, "other"
}

func codeZ(i int) string { return vh.Z(int64(i)) }

func prepare(in input) (string, []state.ClusterState, [][]byte) {
	dir, err := os.MkdirTemp("", "c19-")
	if err != nil {
		panic(err)
	}
	if err := os.Mkdir(filepath.Join(dir, "data"), 0o755); err != nil {
		panic(err)
	}
	states := make([]state.ClusterState, len(in.Ops))
	enc := make([][]byte, len(in.Ops))
	for i, sp := range in.Ops {
		states[i] = makeState(sp)
		b, err := state.Encode(states[i])
		if err != nil {
			panic(err)
		}
		enc[i] = b
	}
	return dir, states, enc
}

func spawn(dir string, in input, mode string, extra ...string) *exec.Cmd {
	raw, _ := json.Marshal(in.Ops)
	if err := os.WriteFile(filepath.Join(dir, "specs.json"), raw, 0o644); err != nil {
		panic(err)
	}
	exe, err := os.Executable()
	if err != nil {
		panic(err)
	}
	cmd := exec.Command(exe)
	cmd.Env = append(append(os.Environ(), childEnv+"="+mode, "C19_DIR="+dir), extra...)
	if err := cmd.Start(); err != nil {
		panic(err)
	}
	return cmd
}

func progress(dir string) int {
	b, err := os.ReadFile(filepath.Join(dir, "progress"))
	if err != nil {
		return 0
	}
	return len(b)
}

func runKill(in input) vh.Result {
	if len(in.Ops) == 0 {
		return vh.Result{Coq: vh.App("KillCase", "0", "0", codeZ(-1), "[]", "true"), Class: "kill,empty", Trivial: true}
	}
	dir, states, enc := prepare(in)
	defer os.RemoveAll(dir)
	cmd := spawn(dir, in, "loop")
	deadline := time.Now().Add(5 * time.Second)
	for progress(dir) < in.Wait && time.Now().Before(deadline) {
		time.Sleep(200 * time.Microsecond)
	}
	time.Sleep(time.Duration(in.Delay) * time.Microsecond)
	_ = cmd.Process.Kill()
	_ = cmd.Wait()
	done := progress(dir)
	n := len(states)
	store := statefile.New(filepath.Join(dir, "data", "cluster-state.json"))
	loaded, class := loadClass(store, states)
	obs := observeDir(filepath.Join(dir, "data"), enc)
	temps := vh.ListOf(obs.Temps, codeZ)
	// the restarted process saves a further (small) state into the same directory
	small := makeState(stateSpec{Revision: 1000003, Nodes: 1})
	resaveOK := false
	if err := store.Save(context.Background(), small); err == nil {
		if got, err := store.Load(context.Background()); err == nil && reflect.DeepEqual(got, small) {
			resaveOK = true
		}
	}
	return vh.Result{
		Coq:   vh.App("KillCase", vh.N(uint64(n)), vh.N(uint64(done)), codeZ(loaded), temps, vh.B(resaveOK)),
		Obs:   map[string]any{"saves_reported": done, "loaded": loaded, "load": class, "temp_files": obs.Temps, "main": obs.Main, "save_after_restart_loads": resaveOK},
		Class: fmt.Sprintf("kill,saves=%s,temps=%d,%s", bucket(done), len(obs.Temps), class),
	}
}

func bucket(n int) string {
	switch {
	case n == 0:
		return "0"
	case n < 4:
		return "1-3"
	case n < 20:
		return "4-19"
	default:
		return "20+"
	}
}

// ---- history ----------------------------------------------------------------------------------------

func listNames(dir string) map[string]bool {
	out := map[string]bool{}
	ents, _ := os.ReadDir(dir)
	for _, e := range ents {
		if e.Name() != "cluster-state.json" {
			out[e.Name()] = true
		}
	}
	return out
}

func hasNew(before, now map[string]bool) bool {
	for n := range now {
		if !before[n] {
			return true
		}
	}
	return false
}

func runHistory(in input) vh.Result {
	dir, states, enc := prepare(in)
	defer os.RemoveAll(dir)
	data := filepath.Join(dir, "data")
	path := filepath.Join(data, "cluster-state.json")
	var events []string
	var trace []map[string]any
	kills, shrinks, prevLen := 0, 0, 0
	for i := range states {
		mode := in.Ops[i].Mode
		if mode < 0 || mode > 2 {
			mode = 0
		}
		before := listNames(data)
		saveres, fresh := 0, false
		switch mode {
		case 1:
			cmd := spawn(dir, in, "one", fmt.Sprintf("C19_INDEX=%d", i))
			_ = cmd.Wait()
			saveres = 3
			fresh = hasNew(before, listNames(data))
			kills++
		default:
			store := statefile.New(path, statefile.WithAfterTempWriteHook(func() error {
				fresh = hasNew(before, listNames(data)) // the temp file Save chose: a name not present before?
				if mode == 2 {
					return errHook
				}
				return nil
			}))
			if err := store.Save(context.Background(), states[i]); err != nil {
				saveres = 1
			}
		}
		if len(enc[i]) < prevLen {
			shrinks++
		}
		prevLen = len(enc[i])
		loaded, class := loadClass(statefile.New(path), states)
		obs := observeDir(data, enc)
		events = append(events, vh.App("HEv", vh.N(uint64(mode)), vh.N(uint64(i)), vh.N(uint64(saveres)), vh.B(fresh), codeZ(loaded), codeZ(obs.Main), vh.ListOf(obs.Temps, codeZ)))
		trace = append(trace, map[string]any{"state": i, "bytes": len(enc[i]), "mode": mode, "save": saveres, "fresh_temp_name": fresh, "loaded": loaded, "load": class, "main": obs.Main, "temps": obs.Temps})
	}
	return vh.Result{
		Coq:     vh.App("HistCase", vh.List(events)),
		Obs:     trace,
		Class:   fmt.Sprintf("history,events=%s,kills=%d,shrinks=%s", bucket(len(states)), kills, bucket(shrinks)),
		Trivial: len(states) == 0,
	}
}

// ---- hook -------------------------------------------------------------------------------------------

var errHook = errors.New("hook failure")

func runHook(in input) vh.Result {
	if len(in.Ops) == 0 {
		return vh.Result{Coq: vh.App("HookCase", "0", "false", obsCoq(dirObs{Main: -1}), obsCoq(dirObs{Main: -1}), "0", codeZ(-1)), Class: "hook,empty", Trivial: true}
	}
	dir, states, enc := prepare(in)
	defer os.RemoveAll(dir)
	data := filepath.Join(dir, "data")
	path := filepath.Join(data, "cluster-state.json")
	hasOld := len(states) > 1
	if hasOld {
		if err := statefile.New(path).Save(context.Background(), states[0]); err != nil {
			panic(err)
		}
	}
	newIdx := len(states) - 1
	var atHook dirObs
	outcome := 0 // 0 Save returned nil, 1 returned an error, 2 panicked, 3 process killed
	switch in.Variant {
	case 3:
		// the child saves states[0..newIdx] and kills itself inside the hook of the last Save
		os.Remove(path)
		cmd := spawn(dir, in, "selfkill")
		_ = cmd.Wait()
		atHook = observeDir(data, enc) // what the crash left behind is what was there inside the hook
		outcome = 3
	default:
		store := statefile.New(path, statefile.WithAfterTempWriteHook(func() error {
			atHook = observeDir(data, enc)
			switch in.Variant {
			case 1:
				return errHook
			case 2:
				panic("hook panic")
			}
			return nil
		}))
		func() {
			defer func() {
				if r := recover(); r != nil {
					outcome = 2
				}
			}()
			if err := store.Save(context.Background(), states[newIdx]); err != nil {
				outcome = 1
			}
		}()
	}
	after := observeDir(data, enc)
	loaded, class := loadClass(statefile.New(path), states)
	// relative coding: 0 = the previous state, 1 = the new state
	rel := func(i int) int {
		switch {
		case i == newIdx:
			return 1
		case i == 0 && hasOld:
			return 0
		case i < 0:
			return i
		}
		return -2
	}
	relObs := func(o dirObs) dirObs {
		r := dirObs{Main: rel(o.Main)}
		for _, t := range o.Temps {
			r.Temps = append(r.Temps, rel(t))
		}
		return r
	}
	atHook, after, loaded = relObs(atHook), relObs(after), rel(loaded)
	return vh.Result{
		Coq:   vh.App("HookCase", vh.N(uint64(in.Variant)), vh.B(hasOld), obsCoq(atHook), obsCoq(after), vh.N(uint64(outcome)), codeZ(loaded)),
		Obs:   map[string]any{"at_hook": atHook, "after": after, "outcome": outcome, "loaded": loaded, "load": class},
		Class: fmt.Sprintf("hook,variant=%d,old=%v,%s", in.Variant, hasOld, class),
	}
}

// obsCoq renders a directory observation relative to the case: main / temp contents are
// 0 = the previous state's bytes, 1 = the new state's bytes, -1 absent, -2 anything else.
func obsCoq(o dirObs) string {
	return vh.App("DirObs", codeZ(o.Main), vh.ListOf(o.Temps, codeZ))
}

// ---- corrupt / tamper ---------------------------------------------------------------------------------

type sweep struct {
	variants, rejected, same, diff int
	witness                        string
}

func (s *sweep) try(orig state.ClusterState, data []byte, what string) {
	s.variants++
	st, err := state.Decode(data)
	if err != nil {
		s.rejected++
		return
	}
	if canon(st) == canon(orig) && reflect.DeepEqual(st, orig) {
		s.same++
		return
	}
	s.diff++
	if s.witness == "" {
		s.witness = what
	}
}

func runCorrupt(in input) vh.Result {
	if len(in.Ops) == 0 {
		return vh.Result{Coq: vh.App("CorruptCase", "0", "0", "0", "0", "0", "true"), Class: "corrupt,empty", Trivial: true}
	}
	dir, states, enc := prepare(in)
	defer os.RemoveAll(dir)
	orig := states[0]
	path := filepath.Join(dir, "data", "cluster-state.json")
	store := statefile.New(path)
	if err := store.Save(context.Background(), orig); err != nil {
		panic(err)
	}
	file, err := os.ReadFile(path)
	if err != nil {
		panic(err)
	}
	// the file is what Encode produces, and it loads back to the state
	back, err := store.Load(context.Background())
	origOK := err == nil && string(file) == string(enc[0]) && reflect.DeepEqual(back, orig)
	var sw sweep
	buf := make([]byte, len(file))
	values := []byte{0x00, ' ', '0', '"', '}'}
	for i := range file {
		copy(buf, file)
		if in.Full {
			for v := 0; v < 256; v++ {
				if byte(v) != file[i] {
					buf[i] = byte(v)
					sw.try(orig, buf, fmt.Sprintf("byte %d: %#x -> %#x", i, file[i], v))
				}
			}
		} else {
			for b := 0; b < 8; b++ {
				buf[i] = file[i] ^ (1 << uint(b))
				sw.try(orig, buf, fmt.Sprintf("byte %d: bit %d flipped", i, b))
			}
			for _, v := range values {
				if v != file[i] {
					buf[i] = v
					sw.try(orig, buf, fmt.Sprintf("byte %d: %#x -> %#x", i, file[i], v))
				}
			}
		}
	}
	for n := 0; n < len(file); n++ { // truncations (the empty file included)
		sw.try(orig, file[:n], fmt.Sprintf("truncated to %d bytes", n))
	}
	for i := range file { // one byte removed
		d := append(append([]byte(nil), file[:i]...), file[i+1:]...)
		sw.try(orig, d, fmt.Sprintf("byte %d removed", i))
	}
	for i := 0; i <= len(file); i += 1 + len(file)/200 { // one byte inserted
		for _, v := range []byte{' ', '0', '"', '}', 0} {
			d := append(append(append([]byte(nil), file[:i]...), v), file[i:]...)
			sw.try(orig, d, fmt.Sprintf("%#x inserted at %d", v, i))
		}
	}
	// the damaged file through the Store as well (one variant is enough: Load is ReadFile + Decode)
	copy(buf, file)
	buf[len(buf)/2] ^= 0x01
	if err := os.WriteFile(path, buf, 0o644); err != nil {
		panic(err)
	}
	if _, err := store.Load(context.Background()); err == nil {
		if st, _ := state.Decode(buf); !reflect.DeepEqual(st, orig) {
			sw.diff++
			sw.witness = "Store.Load accepted a flipped file"
		}
	}
	return vh.Result{
		Coq: vh.App("CorruptCase", vh.N(uint64(len(file))), vh.N(uint64(sw.variants)), vh.N(uint64(sw.rejected)), vh.N(uint64(sw.same)), vh.N(uint64(sw.diff)), vh.B(origOK)),
		Obs: map[string]any{"file_bytes": len(file), "variants": sw.variants, "rejected": sw.rejected, "accepted_same_state": sw.same,
			"accepted_other_state": sw.diff, "first_accepted_other": sw.witness, "original_loads": origOK},
		Class: fmt.Sprintf("corrupt,full=%v,size=%s,same=%s", in.Full, sizeBucket(len(file)), bucket(sw.same)),
	}
}

func sizeBucket(n int) string {
	switch {
	case n < 1000:
		return "<1k"
	case n < 3000:
		return "1-3k"
	default:
		return "3k+"
	}
}

// runTamper changes the decoded document and re-marshals it without fixing the checksum.
func runTamper(in input) vh.Result {
	if len(in.Ops) == 0 {
		return vh.Result{Coq: vh.App("TamperCase", "0", "0", "0"), Class: "tamper,empty", Trivial: true}
	}
	orig := makeState(in.Ops[0])
	muts := []func(*state.ClusterState){
		func(s *state.ClusterState) { s.Revision++ },
		func(s *state.ClusterState) { s.AppliedRaftIndex++ },
		func(s *state.ClusterState) { s.ClusterID += "x" },
		func(s *state.ClusterState) { s.UpdatedAt = s.UpdatedAt.Add(time.Nanosecond) },
		func(s *state.ClusterState) { s.Config.DefaultCapacityWeight++ },
		func(s *state.ClusterState) { s.Nodes[0].Status = state.NodeStatusDown },
		func(s *state.ClusterState) { s.Nodes[0].CapacityWeight++ },
		func(s *state.ClusterState) { s.Controllers[0].Addr += "0" },
		func(s *state.ClusterState) { s.HashSlots.Ranges[0].SlotID = 2 },
		func(s *state.ClusterState) { s.Checksum = "" },
		func(s *state.ClusterState) { s.Checksum = "crc32c:00000000" },
		func(s *state.ClusterState) { s.Checksum = strings.ToUpper(s.Checksum) },
		func(s *state.ClusterState) { s.SchemaVersion = 2 },
		func(s *state.ClusterState) { s.SchemaVersion = 0 },
		func(s *state.ClusterState) {
			s.NodeHealthReports = append(s.NodeHealthReports, state.NodeHealthReport{NodeID: 1, Status: state.NodeStatusAlive})
		},
		func(s *state.ClusterState) { s.Slots = nil },
		func(s *state.ClusterState) { s.Tasks = nil; s.Revision += 2 },
	}
	n, rejected, accepted := 0, 0, 0
	for _, m := range muts {
		c := orig.Clone()
		m(&c)
		if reflect.DeepEqual(c, orig) {
			continue
		}
		raw, err := json.Marshal(c)
		if err != nil {
			continue
		}
		n++
		if st, err := state.Decode(raw); err != nil {
			rejected++
		} else if !reflect.DeepEqual(st, orig) {
			accepted++
		} else {
			rejected++ // decodes to the original state: nothing was tampered after normalisation
		}
	}
	// unknown field and trailing token
	raw, _ := json.Marshal(orig)
	for _, d := range [][]byte{append(append([]byte(nil), raw...), []byte(" {}")...), []byte(strings.Replace(string(raw), `{"schema_version"`, `{"extra":1,"schema_version"`, 1))} {
		n++
		if _, err := state.Decode(d); err != nil {
			rejected++
		} else {
			accepted++
		}
	}
	return vh.Result{
		Coq:   vh.App("TamperCase", vh.N(uint64(n)), vh.N(uint64(rejected)), vh.N(uint64(accepted))),
		Obs:   map[string]any{"documents": n, "rejected": rejected, "accepted": accepted},
		Class: "tamper",
	}
}

func run(in input) vh.Result {
	switch in.Kind {
	case "kill":
		return runKill(in)
	case "hook":
		return runHook(in)
	case "history":
		return runHistory(in)
	case "corrupt":
		return runCorrupt(in)
	default:
		return runTamper(in)
	}
}

func main() {
	if os.Getenv(childEnv) != "" {
		childMain()
		return
	}
	vh.Main(vh.Harness[input]{Gen: gen, Run: run})
}
