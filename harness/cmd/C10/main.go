// Harness for C10: reads respect the committed and retention boundaries;
// retention boundaries are monotone; physical trim is gated.
//
// One case = one channel on one node: a real Pebble-backed message store
// (store.MessageDBFactory), a real reactor runtime for the channel with real
// worker pools (retention apply / checkpoint go through
// handleApplyRetentionBoundary -> runStoreRetention -> handleStoreRetentionResult),
// channels.Service.readLocalCommitted for committed reads and
// cluster.ChannelMessageReader.SyncMessages for syncs.
package main

import (
	"context"
	"errors"
	"fmt"
	"io"
	"math/rand/v2"
	"os"
	"sort"
	"strings"
	"sync"
	"sync/atomic"

	infracluster "github.com/WuKongIM/WuKongIM/internal/infra/cluster"
	"github.com/WuKongIM/WuKongIM/internal/usecase/message"
	"github.com/WuKongIM/WuKongIM/internal/verifh/vh"
	ch "github.com/WuKongIM/WuKongIM/pkg/channel"
	"github.com/WuKongIM/WuKongIM/pkg/channel/machine"
	"github.com/WuKongIM/WuKongIM/pkg/channel/reactor"
	channelstore "github.com/WuKongIM/WuKongIM/pkg/channel/store"
	clusterchannels "github.com/WuKongIM/WuKongIM/pkg/cluster/channels"
	"github.com/WuKongIM/WuKongIM/pkg/wklog"
)

var bg = context.Background()

// ---- input -------------------------------------------------------------------

type prog struct {
	Node  uint64 `json:"n"`
	Match uint64 `json:"m"`
}

type op struct {
	K string `json:"k"`
	// append
	Sizes []int  `json:"sizes,omitempty"`
	Sync  []bool `json:"sync,omitempty"`
	// hw / ckpt
	V uint64 `json:"v,omitempty"`
	// meta
	Role  uint8    `json:"role,omitempty"`
	Local uint64   `json:"local,omitempty"`
	ISR   []uint64 `json:"isr,omitempty"`
	Prog  []prog   `json:"prog,omitempty"`
	// apply / adopt / trim
	Through  uint64 `json:"through,omitempty"`
	MaxMsgs  int    `json:"max_msgs,omitempty"`
	MaxBytes int    `json:"max_bytes,omitempty"`
	// read
	From    uint64 `json:"from,omitempty"`
	Max     uint64 `json:"max,omitempty"`
	Min     uint64 `json:"min,omitempty"`
	Limit   int    `json:"limit,omitempty"`
	Reverse bool   `json:"reverse,omitempty"`
	Ret     uint64 `json:"ret,omitempty"`
	MinISR  int    `json:"min_isr,omitempty"`
	// sync (uses Min, Limit, Ret, MinISR too)
	Start uint64 `json:"start,omitempty"`
	End   uint64 `json:"end,omitempty"`
	Mode  uint8  `json:"mode,omitempty"`
}

type input struct {
	// Pure selects the pure decision-function case: one state + one throughSeq.
	Pure *pureIn `json:"pure,omitempty"`
	Ops  []op    `json:"ops"`
}

type pureIn struct {
	Role      uint8    `json:"role"`
	Local     uint64   `json:"local"`
	ISR       []uint64 `json:"isr"`
	Prog      []prog   `json:"prog"`
	LEO       uint64   `json:"leo"`
	HW        uint64   `json:"hw"`
	Ckpt      uint64   `json:"ckpt"`
	Retention uint64   `json:"retention"`
	Phys      uint64   `json:"phys"`
	Through   uint64   `json:"through"`
}

// ---- generator ---------------------------------------------------------------

const maxU64 = ^uint64(0)

func seqNear(r *rand.Rand, leo uint64) uint64 {
	switch r.IntN(16) {
	case 0:
		return maxU64
	case 1:
		return maxU64 - 1
	case 2:
		return 0
	case 3:
		return leo
	case 4:
		return leo + 1
	case 5:
		return uint64(1) << 40
	default:
		return smallNear(r, leo)
	}
}

// smallNear draws uniformly from 0..leo+2 for a short log; after a far
// adoption (LEO around 2^40) it aims at the old prefix or at the new tail.
func smallNear(r *rand.Rand, leo uint64) uint64 {
	if leo < 1<<20 {
		return uint64(r.IntN(int(leo) + 3))
	}
	if vh.Chance(r, 0.4) {
		return uint64(r.IntN(24))
	}
	return leo + 2 - uint64(r.IntN(16))
}

// boundaryNear draws a retention boundary: adopting a boundary above LEO moves
// LEO there, so values stay small enough that the log never nears 2^64.
func boundaryNear(r *rand.Rand, leo uint64) uint64 {
	switch r.IntN(40) {
	case 0:
		return 0
	case 1:
		return leo + 1
	case 2:
		return leo + uint64(1+r.IntN(40))
	case 3:
		if leo < 1<<39 {
			return uint64(1)<<40 + uint64(r.IntN(3))
		}
		return leo
	case 4:
		return leo
	default:
		return smallNear(r, leo)
	}
}

func genISR(r *rand.Rand) (local uint64, isr []uint64) {
	local = uint64(1 + r.IntN(3))
	n := r.IntN(4)
	for i := 0; i < n; i++ {
		isr = append(isr, uint64(1+r.IntN(4)))
	}
	if vh.Chance(r, 0.7) && len(isr) > 0 && vh.Chance(r, 0.7) {
		isr[r.IntN(len(isr))] = local
	}
	return local, isr
}

func genProg(r *rand.Rand, leo uint64) []prog {
	var pr []prog
	for node := uint64(1); node <= 4; node++ {
		if vh.Chance(r, 0.5) {
			m := seqNear(r, leo)
			if vh.Chance(r, 0.5) {
				m = leo
			}
			pr = append(pr, prog{Node: node, Match: m})
		}
	}
	return pr
}

func genPure(r *rand.Rand) *pureIn {
	leo := uint64(r.IntN(12))
	local, isr := genISR(r)
	p := &pureIn{Role: uint8(r.IntN(4)), Local: local, ISR: isr, LEO: leo}
	if vh.Chance(r, 0.7) { // consistent watermarks, a through that has a chance
		p.HW = uint64(r.IntN(int(leo) + 1))
		if vh.Chance(r, 0.5) {
			p.HW = leo
		}
		p.Ckpt = uint64(r.IntN(int(p.HW) + 1))
		if vh.Chance(r, 0.5) {
			p.Ckpt = p.HW
		}
		p.Through = uint64(r.IntN(int(p.Ckpt) + 2))
		p.Phys = uint64(r.IntN(int(p.Through) + 1))
		if vh.Chance(r, 0.7) && p.Through > 0 {
			p.Phys = uint64(r.IntN(int(p.Through)))
		}
		p.Retention = vh.Pick(r, 0, p.Through, p.Through, leo, seqNear(r, leo))
		p.Prog = genProgAim(r, leo, p.Through)
	} else {
		p.HW = seqNear(r, leo)
		p.Ckpt = seqNear(r, leo)
		p.Retention = seqNear(r, leo)
		p.Phys = uint64(r.IntN(int(leo) + 2))
		p.Through = seqNear(r, leo)
		p.Prog = genProgAim(r, leo, p.Through)
	}
	return p
}

// genProgAim records progress for some nodes: at LEO, at or just around a target, or anywhere.
func genProgAim(r *rand.Rand, leo, target uint64) []prog {
	var pr []prog
	for node := uint64(1); node <= 4; node++ {
		if !vh.Chance(r, 0.6) {
			continue
		}
		var m uint64
		switch r.IntN(6) {
		case 0:
			m = seqNear(r, leo)
		case 1:
			m = target
		case 2:
			if target > 0 {
				m = target - 1
			}
		default:
			m = leo
		}
		pr = append(pr, prog{Node: node, Match: m})
	}
	return pr
}

func gen(r *rand.Rand, tier string, i int) input {
	if r.IntN(6) == 0 {
		return input{Pure: genPure(r)}
	}
	nops := 10 + r.IntN(30)
	if tier == "thorough" {
		nops = 10 + r.IntN(60)
	}
	var ops []op
	// the generator's own estimate of the state, used only to aim values
	var leo, hw, ck, local, first uint64
	first = 1
	wild := vh.Chance(r, 0.25) // a quarter of the histories use unaimed values throughout
	{
		node, isr := genISR(r)
		ops = append(ops, op{K: "meta", Role: uint8(1 + r.IntN(2)), Local: node, ISR: isr, Prog: genProgAim(r, 0, 0)})
	}
	appendOp := func() {
		n := 1 + r.IntN(5)
		o := op{K: "append"}
		for j := 0; j < n; j++ {
			o.Sizes = append(o.Sizes, vh.Pick(r, 0, 1, 1, 2, 3, 5, 8))
			o.Sync = append(o.Sync, vh.Chance(r, 0.2))
		}
		leo += uint64(n)
		ops = append(ops, o)
	}
	if !wild { // a committed, checkpointed prefix to start from
		for j := r.IntN(4); j > 0; j-- {
			appendOp()
		}
		if leo > 0 && vh.Chance(r, 0.8) {
			hw = leo - uint64(r.IntN(2))
			ops = append(ops, op{K: "hw", V: hw})
			if vh.Chance(r, 0.8) {
				ck = hw
				ops = append(ops, op{K: "ckpt", V: ck})
			}
		}
	}
	for len(ops) < nops {
		aim := !wild && vh.Chance(r, 0.8)
		switch k := r.IntN(24); {
		case k < 4 || (leo == 0 && k < 12):
			appendOp()
		case k < 6: // hw
			v := smallNear(r, leo)
			if vh.Chance(r, 0.6) {
				v = leo
			}
			if !aim && vh.Chance(r, 0.3) {
				v = seqNear(r, leo)
			}
			hw = v
			ops = append(ops, op{K: "hw", V: v})
		case k < 9: // ckpt
			v := smallNear(r, min(hw, leo))
			if vh.Chance(r, 0.6) {
				v = min(hw, leo)
			}
			if !aim && vh.Chance(r, 0.3) {
				v = seqNear(r, leo)
			}
			if v > ck {
				ck = v
			}
			ops = append(ops, op{K: "ckpt", V: v})
		case k < 10: // meta
			node, isr := genISR(r)
			role := uint8(1 + r.IntN(2))
			ops = append(ops, op{K: "meta", Role: role, Local: node, ISR: isr, Prog: genProgAim(r, leo, min(ck, leo))})
		case k < 14: // apply
			t := boundaryNear(r, leo)
			if aim {
				top := min(ck, hw, leo)
				t = smallNear(r, top) // includes regressing and repeated boundaries
				if vh.Chance(r, 0.3) {
					t = local + uint64(r.IntN(2))
				}
			}
			o := op{K: "apply", Through: t, MaxMsgs: vh.Pick(r, 0, 0, 0, 1, 2, 3, -1), MaxBytes: vh.Pick(r, 0, 0, 0, 0, 1, 3, 6, -1)}
			if t > leo {
				leo = t
			}
			if t > local {
				local = t
			}
			ops = append(ops, o)
		case k < 15: // adopt (direct store)
			t := boundaryNear(r, leo)
			if aim {
				t = smallNear(r, min(ck, leo))
			}
			if t > leo {
				leo = t
			}
			if t > local {
				local = t
			}
			ops = append(ops, op{K: "adopt", Through: t})
		case k < 16: // trim (direct store)
			t := seqNear(r, leo)
			if aim {
				t = smallNear(r, local)
			}
			ops = append(ops, op{K: "trim", Through: t, MaxMsgs: vh.Pick(r, 0, 0, 1, 2, -1), MaxBytes: vh.Pick(r, 0, 0, 1, 4, -1)})
		case k < 21: // read
			o := op{K: "read", Reverse: vh.Chance(r, 0.5)}
			if aim {
				o.From = vh.Pick(r, 0, 1, first, smallNear(r, leo), smallNear(r, leo), leo, maxU64)
				if o.Reverse {
					o.From = vh.Pick(r, 0, maxU64, leo, smallNear(r, leo), smallNear(r, leo), leo+3)
				}
				o.Max = vh.Pick(r, 0, 0, maxU64, smallNear(r, leo), leo, leo+2)
				o.Min = vh.Pick(r, 0, 0, 0, 1, smallNear(r, leo))
				o.Ret = vh.Pick(r, 0, 0, 0, local, smallNear(r, leo))
				o.MinISR = vh.Pick(r, 0, 1, 1, 2, 2, 3)
				o.Limit = vh.Pick(r, 0, 1, 2, 3, 10, 100, -1)
				o.MaxBytes = vh.Pick(r, 0, 0, 0, 1, 4, 9, 1<<30, -1)
			} else {
				o.From, o.Max, o.Min, o.Ret = seqNear(r, leo), seqNear(r, leo), seqNear(r, leo), seqNear(r, leo)
				o.MinISR = vh.Pick(r, 0, 1, 2, 2, 3, -1)
				o.Limit = vh.Pick(r, 0, 1, 2, 3, 10, 100, -1)
				o.MaxBytes = vh.Pick(r, 0, 0, 1, 4, 9, 1<<30, -1)
			}
			ops = append(ops, o)
		default: // sync
			o := op{K: "sync", Mode: uint8(r.IntN(2))}
			if aim {
				o.Start = vh.Pick(r, 0, 0, 1, smallNear(r, leo), smallNear(r, leo), leo)
				o.End = vh.Pick(r, 0, 0, 0, smallNear(r, leo), leo+1)
				o.Min = vh.Pick(r, 0, 0, 0, 1, smallNear(r, leo))
				o.Ret = vh.Pick(r, 0, 0, 0, local, smallNear(r, leo))
				o.MinISR = vh.Pick(r, 0, 1, 1, 2, 2, 3)
				o.Limit = vh.Pick(r, 0, 1, 2, 3, 10, 50, -1)
			} else {
				o.Start, o.End, o.Min, o.Ret = seqNear(r, leo), seqNear(r, leo), seqNear(r, leo), seqNear(r, leo)
				o.MinISR = vh.Pick(r, 0, 1, 2, 2, 3)
				o.Limit = vh.Pick(r, 0, 1, 2, 3, 10, 50, -1)
			}
			ops = append(ops, o)
		}
	}
	return input{Ops: ops}
}

// ---- shared store ------------------------------------------------------------

var (
	factoryOnce sync.Once
	factory     *channelstore.MessageDBFactory
	caseCounter atomic.Uint64
)

func scratchRoot() string {
	if st, err := os.Stat("/dev/shm"); err == nil && st.IsDir() {
		return "/dev/shm"
	}
	return os.TempDir()
}

var scratchDir string

func getFactory() *channelstore.MessageDBFactory {
	factoryOnce.Do(func() {
		dir, err := os.MkdirTemp(scratchRoot(), "verif-c10-")
		if err != nil {
			panic(err)
		}
		scratchDir = dir
		factory = channelstore.NewMessageDBFactoryWithOptions(dir, channelstore.MessageDBFactoryOptions{Logger: wklog.NewNop()})
	})
	return factory
}

func cleanup() {
	if factory != nil {
		_ = factory.Close()
	}
	if scratchDir != "" {
		_ = os.RemoveAll(scratchDir)
	}
}

// ---- error classes -----------------------------------------------------------

func errClass(err error) uint64 {
	switch {
	case err == nil:
		return 0
	case errors.Is(err, ch.ErrInvalidConfig):
		return 1
	case errors.Is(err, ch.ErrLogConflict):
		return 2
	case strings.Contains(err.Error(), "invalid argument"):
		return 1
	default:
		return 9
	}
}

func blockedCode(s string) uint64 {
	switch s {
	case "":
		return 0
	case ch.RetentionBlockedHWLag:
		return 1
	case ch.RetentionBlockedCheckpointLag:
		return 2
	case ch.RetentionBlockedLEOLag:
		return 3
	case ch.RetentionBlockedMinISRLag:
		return 4
	default:
		return 9
	}
}

// ---- fake read node for ChannelMessageReader ----------------------------------

type readNode struct {
	f      channelstore.Factory
	ret    uint64
	minISR int
}

func (n *readNode) ReadChannelCommitted(ctx context.Context, id ch.ChannelID, req channelstore.ReadCommittedRequest) (channelstore.ReadCommittedResult, error) {
	return channelstore.ReadCommittedResult{}, errors.New("harness: not used")
}

func (n *readNode) ReadChannelCommittedBatch(ctx context.Context, reads []clusterchannels.CommittedRead) ([]clusterchannels.CommittedReadResult, error) {
	out := make([]clusterchannels.CommittedReadResult, len(reads))
	for i, rd := range reads {
		out[i].Read, out[i].Err = clusterchannels.VerifC10ReadLocalCommitted(ctx, n.f, rd, n.ret, n.minISR)
	}
	return out, nil
}

// ---- run ----------------------------------------------------------------------

func nodeIDs(xs []uint64) []ch.NodeID {
	out := make([]ch.NodeID, len(xs))
	for i, x := range xs {
		out[i] = ch.NodeID(x)
	}
	return out
}

func progMap(ps []prog) map[ch.NodeID]machine.ReplicaProgress {
	m := make(map[ch.NodeID]machine.ReplicaProgress)
	for _, p := range ps {
		m[ch.NodeID(p.Node)] = machine.ReplicaProgress{Match: p.Match}
	}
	return m
}

// progCoq prints the progress map as an association list in which a later
// entry for the same node overrides an earlier one (map assignment order).
func progCoq(ps []prog) string {
	return vh.ListOf(ps, func(p prog) string { return vh.Pair(vh.N(p.Node), vh.N(p.Match)) })
}

func runPure(p *pureIn) vh.Result {
	st := machine.NewChannelState("c10-pure", ch.NodeID(p.Local), 1)
	st.Role = ch.Role(p.Role)
	st.ISR = nodeIDs(p.ISR)
	st.Progress = progMap(p.Prog)
	st.LEO, st.HW, st.CheckpointHW = p.LEO, p.HW, p.Ckpt
	st.RetentionThroughSeq, st.PhysicalRetentionThroughSeq = p.Retention, p.Phys
	allowed, reason := reactor.VerifC10TrimDecision(st, p.Through)
	minISR := reactor.VerifC10MinISRMatchOffset(st)
	class := fmt.Sprintf("pure:allowed=%v,reason=%s,role=%d,isr=%d", allowed, reason, p.Role, len(p.ISR))
	coq := vh.App("C10Pure",
		vh.App("mkRState", vh.N(uint64(p.Role)), vh.N(p.Local), vh.NList(p.ISR), progCoq(p.Prog),
			vh.N(p.LEO), vh.N(p.HW), vh.N(p.Ckpt), vh.N(p.Retention), vh.N(0), vh.N(p.Phys)),
		vh.N(p.Through), vh.B(allowed), vh.N(blockedCode(reason)), vh.N(minISR))
	return vh.Result{Coq: coq, Obs: map[string]any{"allowed": allowed, "reason": reason, "min_isr_match": minISR}, Class: class}
}

type snapshot struct {
	Rows                          []uint64
	LEO, HW                       uint64
	Local, Phys, RMax             uint64
	RRet, RLocal, RPhys           uint64
	RHW, RCkpt, RLEO              uint64
	Role, LocalNode               uint64
	ISR                           []uint64
	ProgNodes, ProgMatch          []uint64
}

// namer abbreviates repeated ISR / progress lists of one case through let-bindings
// around the case term, which keeps the generated Coq files small.
type namer struct {
	names map[string]string
	defs  []string
}

func (n *namer) name(prefix, term string) string {
	if len(term) <= 4 {
		return term
	}
	if v, ok := n.names[term]; ok {
		return v
	}
	if n.names == nil {
		n.names = map[string]string{}
	}
	v := fmt.Sprintf("%s%d", prefix, len(n.names))
	n.names[term] = v
	n.defs = append(n.defs, fmt.Sprintf("let %s := %s in ", v, term))
	return v
}

func (n *namer) wrap(term string) string {
	if len(n.defs) == 0 {
		return term
	}
	return "(" + strings.Join(n.defs, "") + term + ")"
}

func (s snapshot) coq(nm *namer) string {
	pr := make([]string, len(s.ProgNodes))
	for i := range s.ProgNodes {
		pr[i] = vh.Pair(vh.N(s.ProgNodes[i]), vh.N(s.ProgMatch[i]))
	}
	return vh.App("mkSnap", rangesCoq(s.Rows), vh.N(s.LEO), vh.N(s.HW), vh.N(s.Local), vh.N(s.Phys), vh.N(s.RMax),
		vh.App("mkRState", vh.N(s.Role), vh.N(s.LocalNode), nm.name("zi", vh.NList(s.ISR)), nm.name("zp", vh.List(pr)),
			vh.N(s.RLEO), vh.N(s.RHW), vh.N(s.RCkpt), vh.N(s.RRet), vh.N(s.RLocal), vh.N(s.RPhys)))
}

// rangesCoq prints an ascending sequence list as (rgs [(lo, hi); ...]).
func rangesCoq(rows []uint64) string {
	var parts []string
	for i := 0; i < len(rows); {
		j := i
		for j+1 < len(rows) && rows[j+1] == rows[j]+1 {
			j++
		}
		parts = append(parts, vh.Pair(vh.N(rows[i]), vh.N(rows[j])))
		i = j + 1
	}
	return vh.App("rgs", vh.List(parts))
}

func takeSnapshot(cs channelstore.ChannelStore, st *machine.ChannelState) snapshot {
	var s snapshot
	all, err := cs.ReadCommitted(bg, channelstore.ReadCommittedRequest{FromSeq: 1})
	if err != nil {
		panic(fmt.Sprintf("harness: snapshot read: %v", err))
	}
	for _, m := range all.Messages {
		s.Rows = append(s.Rows, m.MessageSeq)
	}
	init, err := cs.Load(bg)
	if err != nil {
		panic(fmt.Sprintf("harness: snapshot load: %v", err))
	}
	s.LEO, s.HW = init.LEO, init.HW
	ret, err := cs.LoadRetentionState(bg)
	if err != nil {
		panic(fmt.Sprintf("harness: snapshot retention: %v", err))
	}
	s.Local, s.Phys, s.RMax = ret.LocalRetentionThroughSeq, ret.PhysicalRetentionThroughSeq, ret.RetainedMaxSeq
	s.RRet, s.RLocal, s.RPhys = st.RetentionThroughSeq, st.LocalRetentionThroughSeq, st.PhysicalRetentionThroughSeq
	s.RHW, s.RCkpt, s.RLEO = st.HW, st.CheckpointHW, st.LEO
	s.Role, s.LocalNode = uint64(st.Role), uint64(st.LocalNode)
	for _, n := range st.ISR {
		s.ISR = append(s.ISR, uint64(n))
	}
	nodes := make([]uint64, 0, len(st.Progress))
	for n := range st.Progress {
		nodes = append(nodes, uint64(n))
	}
	sort.Slice(nodes, func(i, j int) bool { return nodes[i] < nodes[j] })
	for _, n := range nodes {
		s.ProgNodes = append(s.ProgNodes, n)
		s.ProgMatch = append(s.ProgMatch, st.Progress[ch.NodeID(n)].Match)
	}
	return s
}

func run(in input) vh.Result {
	if in.Pure != nil {
		return runPure(in.Pure)
	}
	f := getFactory()
	caseNo := caseCounter.Add(1)
	id := ch.ChannelID{ID: fmt.Sprintf("c10-%d-%d", os.Getpid(), caseNo), Type: 2}
	key := ch.ChannelKeyForID(id)
	st := machine.NewChannelState(key, 1, 1)
	st.ID = id
	st.Epoch, st.LeaderEpoch = 1, 1
	st.Role = ch.RoleLeader
	st.Status = ch.StatusActive
	rig, err := reactor.VerifC10NewRig(f, st)
	if err != nil {
		panic(err)
	}
	defer rig.Close()
	cs, err := f.ChannelStore(key, id)
	if err != nil {
		panic(err)
	}
	defer cs.Close()

	var steps []string
	var obs []any
	nm := &namer{}
	counts := map[string]int{}
	nextID := caseNo << 20
	nRead, nReadNonEmpty, nDeleted, nBlocked := 0, 0, 0, 0
	reasons := map[string]bool{}
	for _, o := range in.Ops {
		var opCoq, resCoq string
		var ob any
		counts[o.K]++
		switch o.K {
		case "append":
			recs := make([]ch.Record, len(o.Sizes))
			flags := make([]bool, len(o.Sizes))
			sizes := make([]uint64, len(o.Sizes))
			for i, sz := range o.Sizes {
				nextID++
				payload := make([]byte, sz)
				for j := range payload {
					payload[j] = byte('a' + j%26)
				}
				if i < len(o.Sync) {
					flags[i] = o.Sync[i]
				}
				sizes[i] = uint64(sz)
				recs[i] = ch.Record{ID: nextID, Payload: payload, SizeBytes: sz, SyncOnce: flags[i]}
			}
			res, err := cs.AppendLeader(bg, channelstore.AppendLeaderRequest{Records: recs})
			if err == nil && len(recs) > 0 {
				rig.State().LEO = res.LastOffset // what the reactor's append completion records
			}
			opCoq = vh.App("OAppend", vh.ListOf(sizes, vh.N), vh.ListOf(flags, vh.B))
			resCoq = vh.App("RAppend", vh.N(errClass(err)), vh.N(res.BaseOffset), vh.N(res.LastOffset))
			ob = map[string]any{"err": fmt.Sprint(err), "base": res.BaseOffset, "last": res.LastOffset}
		case "hw":
			rig.State().HW = o.V
			opCoq, resCoq = vh.App("OHW", vh.N(o.V)), "RUnit"
		case "ckpt":
			err := rig.Checkpoint(o.V)
			opCoq, resCoq = vh.App("OCkpt", vh.N(o.V)), vh.App("RErr", vh.N(errClass(err)))
			ob = map[string]any{"err": fmt.Sprint(err)}
		case "meta":
			s := rig.State()
			s.Role, s.LocalNode, s.ISR, s.Progress = ch.Role(o.Role), ch.NodeID(o.Local), nodeIDs(o.ISR), progMap(o.Prog)
			opCoq = vh.App("OMeta", vh.N(uint64(o.Role)), vh.N(o.Local), vh.NList(o.ISR), progCoq(o.Prog))
			resCoq = "RUnit"
		case "apply":
			out := rig.Apply(ch.RetentionApplyRequest{ChannelID: id, ThroughSeq: o.Through,
				Options: ch.RetentionApplyOptions{MaxTrimMessages: o.MaxMsgs, MaxTrimBytes: o.MaxBytes}})
			if errors.Is(out.Err, reactor.ErrVerifC10Timeout) {
				panic("harness: retention apply did not complete")
			}
			r := out.Result
			opCoq = vh.App("OApply", vh.N(o.Through), vh.Z(int64(o.MaxMsgs)), vh.Z(int64(o.MaxBytes)))
			resCoq = vh.App("RApply", vh.N(errClass(out.Err)), vh.N(r.ThroughSeq), vh.N(r.LocalRetentionThroughSeq),
				vh.N(r.PhysicalRetentionThroughSeq), vh.N(r.DeletedThroughSeq), vh.N(uint64(r.Deleted)), vh.B(r.More),
				vh.N(blockedCode(r.BlockedReason)), vh.B(out.CheckpointSubmitted), vh.B(out.StoreTask), vh.B(out.TrimAllowed))
			ob = map[string]any{"err": fmt.Sprint(out.Err), "result": r, "ckpt_submitted": out.CheckpointSubmitted,
				"store_task": out.StoreTask, "trim_allowed": out.TrimAllowed}
			nDeleted += r.Deleted
			if r.BlockedReason != "" {
				nBlocked++
				reasons[r.BlockedReason] = true
			}
		case "adopt":
			rmax, err := cs.AdoptRetentionBoundary(bg, o.Through, ch.RetentionCursorCommitted)
			opCoq = vh.App("OAdopt", vh.N(o.Through))
			resCoq = vh.App("RAdopt", vh.N(errClass(err)), vh.N(rmax))
			ob = map[string]any{"err": fmt.Sprint(err), "retained_max": rmax}
		case "trim":
			res, err := cs.TrimMessagesThrough(bg, o.Through, channelstore.RetentionTrimOptions{MaxMessages: o.MaxMsgs, MaxBytes: o.MaxBytes})
			opCoq = vh.App("OTrim", vh.N(o.Through), vh.Z(int64(o.MaxMsgs)), vh.Z(int64(o.MaxBytes)))
			resCoq = vh.App("RTrim", vh.N(errClass(err)), vh.N(res.DeletedThroughSeq), vh.N(uint64(res.Deleted)), vh.B(res.More))
			ob = map[string]any{"err": fmt.Sprint(err), "result": res}
			nDeleted += res.Deleted
		case "read":
			req := channelstore.ReadCommittedRequest{FromSeq: o.From, MaxSeq: o.Max, MinSeq: o.Min, Limit: o.Limit, MaxBytes: o.MaxBytes, Reverse: o.Reverse}
			res, err := clusterchannels.VerifC10ReadLocalCommitted(bg, f, clusterchannels.CommittedRead{ChannelID: id, Request: req}, o.Ret, o.MinISR)
			msgs := make([]string, len(res.Messages))
			seqs := make([]uint64, len(res.Messages))
			for i, m := range res.Messages {
				msgs[i] = vh.Pair(vh.N(m.MessageSeq), vh.B(m.SyncOnce))
				seqs[i] = m.MessageSeq
			}
			opCoq = vh.App("ORead", vh.App("mkReq", vh.N(o.From), vh.N(o.Max), vh.N(o.Min), vh.Z(int64(o.Limit)), vh.Z(int64(o.MaxBytes)), vh.B(o.Reverse)),
				vh.N(o.Ret), vh.Z(int64(o.MinISR)))
			resCoq = vh.App("RRead", vh.N(errClass(err)), vh.List(msgs), vh.N(res.NextSeq))
			ob = map[string]any{"err": fmt.Sprint(err), "seqs": seqs, "next": res.NextSeq}
			nRead++
			if len(seqs) > 0 {
				nReadNonEmpty++
			}
		case "sync":
			node := &readNode{f: f, ret: o.Ret, minISR: o.MinISR}
			reader := infracluster.NewChannelMessageReader(node)
			page, err := reader.SyncMessages(bg, message.ChannelMessageQuery{
				ChannelID: message.ChannelID{ID: id.ID, Type: id.Type},
				StartSeq:  o.Start, EndSeq: o.End, MinSeq: o.Min, Limit: o.Limit, PullMode: message.PullMode(o.Mode),
			})
			seqs := make([]uint64, len(page.Messages))
			for i, m := range page.Messages {
				seqs[i] = m.MessageSeq
			}
			opCoq = vh.App("OSync", vh.N(o.Start), vh.N(o.End), vh.N(o.Min), vh.Z(int64(o.Limit)), vh.N(uint64(o.Mode)), vh.N(o.Ret), vh.Z(int64(o.MinISR)))
			resCoq = vh.App("RSync", vh.N(errClass(err)), vh.NList(seqs), vh.B(page.HasMore))
			ob = map[string]any{"err": fmt.Sprint(err), "seqs": seqs, "has_more": page.HasMore}
			nRead++
			if len(seqs) > 0 {
				nReadNonEmpty++
			}
		default:
			panic("harness: unknown op " + o.K)
		}
		snap := takeSnapshot(cs, rig.State())
		steps = append(steps, vh.App("mkStep", opCoq, resCoq, snap.coq(nm)))
		obs = append(obs, map[string]any{"op": o.K, "res": ob, "snap": snap})
	}
	class := fmt.Sprintf("hist:reads=%s,nonempty=%s,deleted=%s,blocked=%s", bucket(nRead), bucket(nReadNonEmpty), bucket(nDeleted), bucket(nBlocked))
	return vh.Result{
		Coq:     nm.wrap(vh.App("C10Hist", vh.List(steps))),
		Obs:     obs,
		Class:   class,
		Trivial: nRead == 0 && counts["apply"] == 0,
	}
}

func bucket(n int) string {
	switch {
	case n == 0:
		return "0"
	case n < 3:
		return "1-2"
	case n < 8:
		return "3-7"
	default:
		return "8+"
	}
}

func emitConsts(w io.Writer) {
	fmt.Fprintln(w, "(* GENERATED by harness/cmd/C10 -emit-consts from the compiled /repo tree. Do not edit. *)")
	fmt.Fprintln(w, "From Coq Require Import NArith ZArith. Open Scope N_scope.")
	fmt.Fprintf(w, "Definition RoleFollower : N := %d.\n", ch.RoleFollower)
	fmt.Fprintf(w, "Definition RoleLeader : N := %d.\n", ch.RoleLeader)
	fmt.Fprintf(w, "Definition PullModeDown : N := %d.\n", message.PullModeDown)
	fmt.Fprintf(w, "Definition PullModeUp : N := %d.\n", message.PullModeUp)
	fmt.Fprintf(w, "Definition MaxUint64 : N := %d.\n", uint64(maxU64))
	fmt.Fprintf(w, "Definition MaxInt : Z := %d%%Z.\n", int(^uint(0)>>1))
}

func main() {
	defer cleanup()
	vh.Main(vh.Harness[input]{EmitConsts: emitConsts, Gen: gen, Run: run})
}
