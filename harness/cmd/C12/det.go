package main

import (
	"context"
	"math/rand/v2"
	"time"

	"github.com/WuKongIM/WuKongIM/pkg/slot/multiraft"
)

// ---- deterministic mode ---------------------------------------------------------------
//
// Messages sent by a pass wait in `flight`; a round first delivers what is in
// flight (subject to partitions, loss, duplication and reordering, all drawn
// from the op's own seed), then lets every running node tick and run
// Runtime.processSlot until it has nothing queued.

type flightMsg struct {
	from int
	env  multiraft.Envelope
}

type detNet struct {
	c      *cluster
	flight []flightMsg
	cut    [nNodes + 1][nNodes + 1]bool
	hold   [nNodes + 1]bool // messages to a held node stay in flight (delay)
}

func (d *detNet) send(from int, inc int, batch []multiraft.Envelope) {
	for _, env := range batch {
		d.flight = append(d.flight, flightMsg{from: from, env: env})
	}
}

func (d *detNet) deliver(r *rand.Rand, loss, dup int, reorder bool) {
	msgs := d.flight
	d.flight = nil
	if reorder {
		r.Shuffle(len(msgs), func(i, j int) { msgs[i], msgs[j] = msgs[j], msgs[i] })
	}
	for _, m := range msgs {
		to := int(m.env.Message.To)
		if to < 1 || to > nNodes {
			continue // learner 4 does not exist
		}
		if d.cut[m.from][to] {
			continue
		}
		if d.hold[to] {
			d.flight = append(d.flight, m)
			continue
		}
		if loss > 0 && r.IntN(100) < loss {
			continue
		}
		dst := d.c.nodes[to]
		if !dst.up {
			continue
		}
		_ = dst.rt.Step(context.Background(), m.env)
		if dup > 0 && r.IntN(100) < dup {
			_ = dst.rt.Step(context.Background(), m.env)
		}
	}
}

// pass runs the worker body over the node until nothing is queued (bounded).
// The body runs in a goroutine of its own because a fuse may kill the node in
// the middle of it: the blocked call is then released by crash().
func (c *cluster) pass(n *node) { c.passW(n, true) }

func (c *cluster) passW(n *node, wait bool) {
	if !n.up {
		return
	}
	for k := 0; k < 8; k++ {
		rt := n.rt
		done := make(chan bool, 1)
		go func() {
			r := rt.VerifC12ProcessSlot(slotID)
			if wait {
				rt.VerifC12WaitApplyIdle(slotID)
			}
			done <- r
		}()
		var requeue bool
		select {
		case requeue = <-done:
		case <-n.died:
			c.crash(n, true)
			<-done
			return
		}
		if err := rt.VerifC12Failed(slotID); err != nil {
			c.note("node %d slot failed: %v", n.id, err)
			c.crash(n, false)
			return
		}
		q, ctl := rt.VerifC12Queued(slotID)
		if !requeue && q == 0 && ctl == 0 {
			return
		}
	}
}

func (c *cluster) round(d *detNet, op opIn) {
	r := rand.New(rand.NewPCG(op.S, 0x632be59bd9b4e019))
	k := op.K
	if k <= 0 {
		k = 1
	}
	for ; k > 0; k-- {
		d.deliver(r, op.L, op.D, op.R)
		order := []int{1, 2, 3}
		if op.R {
			r.Shuffle(3, func(i, j int) { order[i], order[j] = order[j], order[i] })
		}
		for _, i := range order {
			n := c.nodes[i]
			if !n.up {
				continue
			}
			if op.P != 0 && op.P&(1<<(i-1)) == 0 {
				continue // this node's worker does not get to run in this round
			}
			if op.T == 0 || op.T&(1<<(i-1)) != 0 {
				n.rt.VerifC12Tick(slotID)
			}
			c.passW(n, !op.W)
		}
	}
}

func (c *cluster) target(id int) *node {
	if id >= 1 && id <= nNodes {
		return c.nodes[id]
	}
	return c.believedLeader()
}

func runDet(c *cluster) {
	d := &detNet{c: c}
	c.net = d
	for i := 1; i <= nNodes; i++ {
		if err := c.boot(c.nodes[i], true); err != nil {
			panic(err)
		}
	}
	for _, op := range c.in.Ops {
		c.detOp(d, op)
	}
	// settle: heal, bring everybody back, run until quiet
	d.cut = [nNodes + 1][nNodes + 1]bool{}
	d.hold = [nNodes + 1]bool{}
	for i := 1; i <= nNodes; i++ {
		if !c.nodes[i].up {
			if err := c.boot(c.nodes[i], false); err != nil {
				c.note("final boot of node %d: %v", i, err)
			}
		}
	}
	quiet := 0
	for k := 0; k < 400 && quiet < 6; k++ {
		c.round(d, opIn{Op: "round", S: uint64(k)})
		if c.converged() {
			quiet++
		} else {
			quiet = 0
		}
	}
	for i := 1; i <= nNodes; i++ {
		c.crash(c.nodes[i], false)
	}
}

func (c *cluster) converged() bool {
	var commit uint64
	for i := 1; i <= nNodes; i++ {
		n := c.nodes[i]
		if !n.up {
			return false
		}
		st, err := n.rt.Status(slotID)
		if err != nil {
			return false
		}
		if st.AppliedIndex != st.CommitIndex || st.CommitIndex == 0 {
			return false
		}
		if i > 1 && st.CommitIndex != commit {
			return false
		}
		commit = st.CommitIndex
	}
	return c.believedLeader() != nil
}

func (c *cluster) detOp(d *detNet, op opIn) {
	switch op.Op {
	case "round":
		c.round(d, op)
	case "prop":
		k := op.C
		if k <= 0 {
			k = 1
		}
		for ; k > 0; k-- {
			n := c.target(op.N)
			if n == nil {
				n = c.nodes[1]
			}
			c.propose(n)
		}
	case "part":
		// isolate node N (0: the believed leader) from the other two
		n := c.target(op.N)
		if n == nil {
			return
		}
		for j := 1; j <= nNodes; j++ {
			if j != n.id {
				d.cut[n.id][j], d.cut[j][n.id] = true, true
			}
		}
	case "heal":
		d.cut = [nNodes + 1][nNodes + 1]bool{}
	case "hold":
		if n := c.target(op.N); n != nil {
			d.hold[n.id] = true
		}
	case "unhold":
		d.hold = [nNodes + 1]bool{}
	case "crash":
		n := c.target(op.N)
		if n == nil || !n.up {
			return
		}
		if c.downCount() >= 1 {
			return // a minority only
		}
		if op.K > 0 && c.in.Durable {
			// the node dies K durable operations from now
			n.mu.Lock()
			n.fuse = op.K
			n.mu.Unlock()
			return
		}
		c.crash(n, op.H && c.in.Durable)
	case "restart":
		for i := 1; i <= nNodes; i++ {
			n := c.nodes[i]
			if !n.up && (op.N == 0 || op.N == i) {
				if err := c.boot(n, false); err != nil {
					c.note("boot of node %d: %v", i, err)
				}
			}
		}
	case "compact":
		n := c.target(op.N)
		if n == nil || !n.up {
			return
		}
		c.compact(n)
	case "conf":
		n := c.believedLeader()
		if n == nil {
			return
		}
		ch := multiraft.ConfigChange{Type: multiraft.AddLearner, NodeID: 4}
		if op.C%2 == 1 {
			ch = multiraft.ConfigChange{Type: multiraft.RemoveVoter, NodeID: 4}
		}
		_, _ = n.rt.ChangeConfig(context.Background(), slotID, ch)
	case "xfer":
		n := c.believedLeader()
		if n == nil {
			return
		}
		_ = n.rt.TransferLeadership(context.Background(), slotID, multiraft.NodeID(op.N))
	}
}

func (c *cluster) downCount() int {
	k := 0
	for i := 1; i <= nNodes; i++ {
		n := c.nodes[i]
		n.mu.Lock()
		armed := n.fuse > 0
		n.mu.Unlock()
		if !n.up || armed {
			k++
		}
	}
	return k
}

// compact asks the node for a manual log compaction; in det mode the control
// is executed by the next pass, so the call runs in a goroutine and the pass
// is made here.
func (c *cluster) compact(n *node) {
	done := make(chan error, 1)
	rt := n.rt
	go func() {
		_, err := rt.CompactLog(context.Background(), slotID)
		done <- err
	}()
	if c.in.Mode == "live" {
		<-done
		return
	}
	// wait until the control is queued, then run a pass
	for i := 0; i < 2000; i++ {
		_, ctl := rt.VerifC12Queued(slotID)
		if ctl > 0 {
			break
		}
		select {
		case err := <-done:
			_ = err
			return
		default:
		}
		sleepMicro(50)
	}
	c.pass(n)
	if n.up {
		select {
		case <-done:
		case <-time.After(2 * time.Second):
			c.note("compaction of node %d did not answer", n.id)
		}
	}
}
