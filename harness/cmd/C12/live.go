package main

import (
	"context"
	"math/rand/v2"
	"sync"
	"time"

	"github.com/WuKongIM/WuKongIM/pkg/slot/multiraft"
)

func sleepMicro(us int) { time.Sleep(time.Duration(us) * time.Microsecond) }

// ---- live mode -------------------------------------------------------------------------------
//
// The real Runtime (multiraft.New) with its worker, ticker and apply-pipeline
// goroutines.  The network delivers every message after a random delay on a
// timer goroutine, so reordering comes for free.

type liveNet struct {
	c        *cluster
	mu       sync.Mutex
	r        *rand.Rand
	cut      [nNodes + 1][nNodes + 1]bool
	loss     int
	dup      int
	maxDelay int // ms
	closed   bool
	wg       sync.WaitGroup
}

func (l *liveNet) send(from int, inc int, batch []multiraft.Envelope) {
	for _, env := range batch {
		to := int(env.Message.To)
		if to < 1 || to > nNodes {
			continue
		}
		l.mu.Lock()
		if l.closed || l.cut[from][to] || (l.loss > 0 && l.r.IntN(100) < l.loss) {
			l.mu.Unlock()
			continue
		}
		copies := 1
		if l.dup > 0 && l.r.IntN(100) < l.dup {
			copies = 2
		}
		delays := make([]time.Duration, copies)
		for i := range delays {
			if l.maxDelay > 0 {
				delays[i] = time.Duration(l.r.IntN(l.maxDelay*1000)) * time.Microsecond
			}
		}
		l.mu.Unlock()
		for _, dl := range delays {
			env := env
			l.wg.Add(1)
			time.AfterFunc(dl, func() {
				defer l.wg.Done()
				l.mu.Lock()
				blocked := l.closed || l.cut[from][to]
				l.mu.Unlock()
				if blocked {
					return
				}
				dst := l.c.nodes[to]
				dst.mu.Lock()
				rt := dst.rtLive
				dst.mu.Unlock()
				if rt != nil {
					_ = rt.Step(context.Background(), env)
				}
			})
		}
	}
}

func (c *cluster) liveBoot(n *node, first bool) {
	if err := c.boot(n, first); err != nil {
		c.note("boot of node %d: %v", n.id, err)
		return
	}
	n.mu.Lock()
	n.rtLive = n.rt
	n.mu.Unlock()
}

func (c *cluster) liveCrash(n *node, hard bool) {
	n.mu.Lock()
	n.rtLive = nil
	n.mu.Unlock()
	c.crash(n, hard)
}

func runLive(c *cluster) {
	l := &liveNet{c: c, r: rand.New(rand.NewPCG(12, 34)), maxDelay: 2}
	c.net = l
	for i := 1; i <= nNodes; i++ {
		c.liveBoot(c.nodes[i], true)
	}
	deadline := time.Now().Add(25 * time.Second)
	c.waitLeader(2 * time.Second)
	for _, op := range c.in.Ops {
		if time.Now().After(deadline) {
			c.note("schedule cut short: time budget")
			break
		}
		c.liveOp(l, op)
	}
	// settle
	l.mu.Lock()
	l.cut = [nNodes + 1][nNodes + 1]bool{}
	l.loss, l.dup, l.maxDelay = 0, 0, 1
	l.mu.Unlock()
	for i := 1; i <= nNodes; i++ {
		if !c.nodes[i].up {
			c.liveBoot(c.nodes[i], false)
		}
	}
	end := time.Now().Add(4 * time.Second)
	quiet := 0
	for time.Now().Before(end) && quiet < 5 {
		time.Sleep(40 * time.Millisecond)
		if c.converged() {
			quiet++
		} else {
			quiet = 0
		}
	}
	if quiet < 5 {
		c.note("not converged at the end")
	}
	l.mu.Lock()
	l.closed = true
	l.mu.Unlock()
	for i := 1; i <= nNodes; i++ {
		c.liveCrash(c.nodes[i], false)
	}
	l.wg.Wait()
}

func (c *cluster) waitLeader(d time.Duration) *node {
	end := time.Now().Add(d)
	for time.Now().Before(end) {
		if n := c.believedLeader(); n != nil {
			return n
		}
		time.Sleep(10 * time.Millisecond)
	}
	return nil
}

func (c *cluster) liveOp(l *liveNet, op opIn) {
	switch op.Op {
	case "wait":
		ms := op.K
		if ms <= 0 {
			ms = 20
		}
		if ms > 1500 {
			ms = 1500
		}
		time.Sleep(time.Duration(ms) * time.Millisecond)
	case "prop":
		k := op.C
		if k <= 0 {
			k = 1
		}
		for ; k > 0; k-- {
			n := c.target(op.N)
			if n == nil {
				n = c.nodes[1]
			}
			c.propose(n)
			if op.K > 0 {
				sleepMicro(op.K * 100)
			}
		}
	case "part":
		n := c.target(op.N)
		if n == nil {
			return
		}
		l.mu.Lock()
		for j := 1; j <= nNodes; j++ {
			if j != n.id {
				l.cut[n.id][j], l.cut[j][n.id] = true, true
			}
		}
		l.mu.Unlock()
	case "heal":
		l.mu.Lock()
		l.cut = [nNodes + 1][nNodes + 1]bool{}
		l.mu.Unlock()
	case "net":
		l.mu.Lock()
		l.loss, l.dup, l.maxDelay = op.L, op.D, op.M
		l.mu.Unlock()
	case "crash":
		n := c.target(op.N)
		if n == nil || !n.up || c.downCount() >= 1 {
			return
		}
		c.liveCrash(n, op.H && c.in.Durable)
	case "restart":
		for i := 1; i <= nNodes; i++ {
			n := c.nodes[i]
			if !n.up && (op.N == 0 || op.N == i) {
				c.liveBoot(n, false)
			}
		}
	case "compact":
		n := c.target(op.N)
		if n == nil || !n.up {
			return
		}
		ctx, cancel := context.WithTimeout(context.Background(), 2*time.Second)
		_, _ = n.rt.CompactLog(ctx, slotID)
		cancel()
	case "conf":
		n := c.believedLeader()
		if n == nil {
			return
		}
		ch := multiraft.ConfigChange{Type: multiraft.AddLearner, NodeID: 4}
		if op.C%2 == 1 {
			ch = multiraft.ConfigChange{Type: multiraft.RemoveVoter, NodeID: 4}
		}
		_, _ = n.rt.ChangeConfig(context.Background(), slotID, ch)
	case "xfer":
		n := c.believedLeader()
		if n == nil {
			return
		}
		_ = n.rt.TransferLeadership(context.Background(), slotID, multiraft.NodeID(op.N))
	}
}
