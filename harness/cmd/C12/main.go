// Harness for C12: the multiraft DRIVER around go.etcd.io/raft (pkg/slot/multiraft).
//
// One case = one schedule over an in-process 3-node cluster with ONE slot,
// durable raft logs (pkg/raftlog over a temporary Pebble directory per node),
// an in-memory transport written here and a fault injector (loss,
// duplication, reordering / delay, partitions, crash-restart over the same
// raftlog directory).
//
//   - mode "det":  the Runtime is built WITHOUT its worker/ticker goroutines
//     (export VerifC12NewManual); the harness calls the real
//     Runtime.processSlot, delivers messages and ticks itself, so a schedule
//     is deterministic and replayable.  Crash points fall between any two
//     durable operations (a fuse counts Save / Apply / MarkApplied calls).
//   - mode "live": multiraft.New with its own goroutines, wall-clock ticks and
//     a delaying network; crash = the node's wrappers go dead at an arbitrary
//     moment, then Runtime.Close.
//
// Every node records ONE totally ordered event list (a per-node lock is held
// across the wrapped call, so the order is a linearisation): Storage.Save
// (hard state, entries, snapshot), Storage.MarkApplied, Transport.Send
// (message summaries), StateMachine.Apply/ApplyBatch (index, term, command),
// StateMachine.Restore, boot and down markers.  Futures are recorded with the
// proposing node, the command and the terminal result.
package main

import (
	"context"
	"encoding/binary"
	"errors"
	"fmt"
	"os"
	"path/filepath"
	"sort"
	"strings"
	"sync"
	"time"

	"github.com/WuKongIM/WuKongIM/internal/verifh/vh"
	"github.com/WuKongIM/WuKongIM/pkg/raftlog"
	"github.com/WuKongIM/WuKongIM/pkg/slot/multiraft"
	"github.com/WuKongIM/WuKongIM/pkg/wklog"
	raft "go.etcd.io/raft/v3"
	"go.etcd.io/raft/v3/raftpb"
)

const (
	nNodes  = 3
	slotID  = multiraft.SlotID(1)
	envSize = multiraft.VerifC12ProposalEnvelopeSize
)

// ---- input -----------------------------------------------------------------------

type opIn struct {
	Op string `json:"op"`
	N  int    `json:"n,omitempty"` // node 1..3; 0 = the node that believes it leads
	C  int    `json:"c,omitempty"` // count (proposals)
	K  int    `json:"k,omitempty"` // repetitions (round) / fuse (crash) / ms (wait)
	S  uint64 `json:"s,omitempty"` // the op's own random seed
	T  int    `json:"t,omitempty"` // round: bit mask of nodes that tick (0 = all)
	P  int    `json:"p,omitempty"` // round: bit mask of nodes whose worker runs (0 = all)
	L  int    `json:"l,omitempty"` // loss percent
	D  int    `json:"d,omitempty"` // duplication percent
	R  bool   `json:"r,omitempty"` // reorder deliveries
	H  bool   `json:"h,omitempty"` // crash: hard (wrappers die first) instead of Close
	M  int    `json:"m,omitempty"` // live: max delay in ms
	W  bool   `json:"w,omitempty"` // round: do not wait for the apply pipeline after a pass
}

type input struct {
	Mode    string `json:"mode"`    // det | live
	Durable bool   `json:"durable"` // state machine implements DurableAppliedStateMachine (production configuration)
	Async   bool   `json:"async"`   // det: with the apply pipeline
	NoPV    bool   `json:"nopv,omitempty"` // raft PreVote off (production: on)
	NoCQ    bool   `json:"nocq,omitempty"` // raft CheckQuorum off (production: on)
	Slow    int    `json:"slow,omitempty"` // the state machine takes this many microseconds per call (tasks pile up in the pipeline)
	Ops     []opIn `json:"ops"`
}

// ---- events ------------------------------------------------------------------------

type entSum struct {
	Idx, Term uint64
	Kind      int // 0 normal with payload, 1 empty normal, 2 conf change
	Cmd       uint64
}

type msgSum struct {
	Type                           int
	To                             uint64
	Term, LogTerm, Index, Commit   uint64
	Reject                         bool
	NEnts                          int
	SnapIdx                        uint64
	Cmds                           []uint64 // MsgProp: proposed commands
}

type event struct {
	Kind string // boot booted save mark send restore apply down
	// boot
	Inc                                        int
	HsTerm, HsVote, HsCommit, StApplied, SnapI uint64
	SmIdx, StatusApplied                       uint64
	First                                      bool
	// save
	HS   *[3]uint64
	Ents []entSum
	Snap *[2]uint64
	// mark / restore
	Idx uint64
	// restore
	NHist int
	// send
	Msgs []msgSum
	// apply
	Batch bool
	// down
	Hard bool
}

type futRec struct {
	Cmd    uint64
	Node   int
	Inc    int
	mu     sync.Mutex
	Status int // 0 pending, 1 ok, 2 error at Propose, 3 error from Wait
	Idx    uint64
	Term   uint64
	Data   uint64
	DataOK bool
	Err    string
}

// ---- node ---------------------------------------------------------------------------

type node struct {
	id  int
	c   *cluster
	dir string

	mu      sync.Mutex // event lock; held across wrapped durable calls
	dead    bool
	fuse    int           // >0: number of durable ops until the node dies
	died    chan struct{} // closed when the node dies
	release chan struct{} // closed once the runtime is marked closed: blocked calls then fail
	relDone bool
	events  []event
	rtLive  *multiraft.Runtime

	up  bool
	inc int
	db  *raftlog.DB
	rt  *multiraft.Runtime
	st  multiraft.Storage

	// the state machine's durable content (survives crashes; the production FSM
	// is a synced Pebble database)
	smIdx  uint64
	smHist []uint64
	smPos  []uint64 // index at which each command of smHist was applied (travels with the snapshot)

	lastHB map[uint64][3]uint64
}

func (n *node) rec(e event) { n.events = append(n.events, e) }

var errDead = errors.New("verif: node is dead")

// gate opens every wrapped durable call.  nil: the call may proceed and n.mu
// is HELD.  Otherwise the node is dead: the call has blocked until the runtime
// was marked closed (so that the driver never sees a failed Save while it is
// still running: a killed process does not see one either) and must fail
// without any effect; n.mu is not held.
func (n *node) gate(counts bool) error {
	n.mu.Lock()
	if !n.dead && counts && n.fuse > 0 {
		n.fuse--
		if n.fuse == 0 {
			n.dead = true
			close(n.died)
		}
	}
	if n.dead {
		ch := n.release
		n.mu.Unlock()
		<-ch
		return errDead
	}
	return nil
}

func (n *node) kill() {
	n.mu.Lock()
	if !n.dead {
		n.dead = true
		close(n.died)
	}
	n.mu.Unlock()
}

func (n *node) releaseBlocked() {
	n.mu.Lock()
	if !n.relDone {
		n.relDone = true
		close(n.release)
	}
	n.mu.Unlock()
}

// ---- storage wrapper ------------------------------------------------------------------

type storageW struct {
	n     *node
	inner multiraft.Storage
}

func (s *storageW) InitialState(ctx context.Context) (multiraft.BootstrapState, error) {
	return s.inner.InitialState(ctx)
}
func (s *storageW) Entries(ctx context.Context, lo, hi, maxSize uint64) ([]raftpb.Entry, error) {
	return s.inner.Entries(ctx, lo, hi, maxSize)
}
func (s *storageW) Term(ctx context.Context, index uint64) (uint64, error) {
	return s.inner.Term(ctx, index)
}
func (s *storageW) FirstIndex(ctx context.Context) (uint64, error) { return s.inner.FirstIndex(ctx) }
func (s *storageW) LastIndex(ctx context.Context) (uint64, error)  { return s.inner.LastIndex(ctx) }
func (s *storageW) Snapshot(ctx context.Context) (raftpb.Snapshot, error) {
	return s.inner.Snapshot(ctx)
}

func sumEntry(e raftpb.Entry) entSum {
	out := entSum{Idx: e.Index, Term: e.Term}
	switch e.Type {
	case raftpb.EntryNormal:
		if len(e.Data) == 0 {
			out.Kind = 1
		} else {
			out.Kind = 0
			if len(e.Data) >= envSize+8 {
				out.Cmd = binary.BigEndian.Uint64(e.Data[envSize : envSize+8])
			}
		}
	default:
		out.Kind = 2
	}
	return out
}

func (s *storageW) Save(ctx context.Context, st multiraft.PersistentState) error {
	n := s.n
	if err := n.gate(true); err != nil {
		return err
	}
	defer n.mu.Unlock()
	if err := s.inner.Save(ctx, st); err != nil {
		return err
	}
	e := event{Kind: "save"}
	if st.HardState != nil {
		e.HS = &[3]uint64{st.HardState.Term, st.HardState.Vote, st.HardState.Commit}
	}
	for _, en := range st.Entries {
		e.Ents = append(e.Ents, sumEntry(en))
	}
	if st.Snapshot != nil {
		e.Snap = &[2]uint64{st.Snapshot.Metadata.Index, st.Snapshot.Metadata.Term}
	}
	n.rec(e)
	return nil
}

func (s *storageW) MarkApplied(ctx context.Context, index uint64) error {
	n := s.n
	if err := n.gate(true); err != nil {
		return err
	}
	defer n.mu.Unlock()
	if err := s.inner.MarkApplied(ctx, index); err != nil {
		return err
	}
	n.rec(event{Kind: "mark", Idx: index})
	return nil
}

func (s *storageW) MarkConfigApplied(ctx context.Context, index uint64) error {
	n := s.n
	if err := n.gate(false); err != nil {
		return err
	}
	defer n.mu.Unlock()
	if c, ok := s.inner.(multiraft.ConfigAppliedIndexStorage); ok {
		return c.MarkConfigApplied(ctx, index)
	}
	return nil
}

// ---- state machine ---------------------------------------------------------------------

type smPlain struct{ n *node }

// smDurable additionally exposes the durable applied index (like pkg/slot/fsm).
type smDurable struct{ smPlain }

func (s smDurable) DurableAppliedIndex(ctx context.Context) (uint64, error) {
	n := s.n
	if err := n.gate(false); err != nil {
		return 0, err
	}
	defer n.mu.Unlock()
	return n.smIdx, nil
}

func cmdOf(data []byte) uint64 {
	if len(data) >= 8 {
		return binary.BigEndian.Uint64(data[:8])
	}
	return 0
}

func (s smPlain) applyLocked(cmds []multiraft.Command, batch bool) [][]byte {
	n := s.n
	e := event{Kind: "apply", Batch: batch}
	out := make([][]byte, len(cmds))
	for i, c := range cmds {
		id := cmdOf(c.Data)
		e.Ents = append(e.Ents, entSum{Idx: c.Index, Term: c.Term, Cmd: id})
		n.smHist = append(n.smHist, id)
		n.smPos = append(n.smPos, c.Index)
		n.smIdx = c.Index
		out[i] = binary.BigEndian.AppendUint64(nil, id)
	}
	n.rec(e)
	return out
}

func (s smPlain) slow() {
	if us := s.n.c.in.Slow; us > 0 {
		time.Sleep(time.Duration(us) * time.Microsecond)
	}
}

func (s smPlain) Apply(ctx context.Context, cmd multiraft.Command) ([]byte, error) {
	n := s.n
	s.slow()
	if err := n.gate(true); err != nil {
		return nil, err
	}
	defer n.mu.Unlock()
	return s.applyLocked([]multiraft.Command{cmd}, false)[0], nil
}

func (s smPlain) ApplyBatch(ctx context.Context, cmds []multiraft.Command) ([][]byte, error) {
	n := s.n
	s.slow()
	if err := n.gate(true); err != nil {
		return nil, err
	}
	defer n.mu.Unlock()
	return s.applyLocked(cmds, true), nil
}

func (s smPlain) Restore(ctx context.Context, snap multiraft.Snapshot) error {
	n := s.n
	if err := n.gate(true); err != nil {
		return err
	}
	defer n.mu.Unlock()
	d := snap.Data
	if len(d) < 8 {
		return fmt.Errorf("verif: short snapshot")
	}
	cnt := int(binary.BigEndian.Uint64(d[:8]))
	d = d[8:]
	if len(d) != 16*cnt {
		return fmt.Errorf("verif: bad snapshot length")
	}
	n.smHist = n.smHist[:0]
	n.smPos = n.smPos[:0]
	for i := 0; i < cnt; i++ {
		n.smPos = append(n.smPos, binary.BigEndian.Uint64(d[16*i:]))
		n.smHist = append(n.smHist, binary.BigEndian.Uint64(d[16*i+8:]))
	}
	n.smIdx = snap.Index
	n.rec(event{Kind: "restore", Idx: snap.Index, NHist: cnt})
	return nil
}

func (s smPlain) Snapshot(ctx context.Context) (multiraft.Snapshot, error) {
	n := s.n
	if err := n.gate(false); err != nil {
		return multiraft.Snapshot{}, err
	}
	defer n.mu.Unlock()
	d := binary.BigEndian.AppendUint64(nil, uint64(len(n.smHist)))
	for k, c := range n.smHist {
		d = binary.BigEndian.AppendUint64(d, n.smPos[k])
		d = binary.BigEndian.AppendUint64(d, c)
	}
	return multiraft.Snapshot{Index: n.smIdx, Data: d}, nil
}

// ---- transport --------------------------------------------------------------------------

type transportW struct{ n *node }

func sumMsg(m raftpb.Message) msgSum {
	out := msgSum{Type: int(m.Type), To: m.To, Term: m.Term, LogTerm: m.LogTerm, Index: m.Index,
		Commit: m.Commit, Reject: m.Reject, NEnts: len(m.Entries)}
	if m.Snapshot != nil {
		out.SnapIdx = m.Snapshot.Metadata.Index
	}
	if m.Type == raftpb.MsgProp {
		for _, e := range m.Entries {
			out.Cmds = append(out.Cmds, sumEntry(e).Cmd)
		}
	}
	return out
}

func (t *transportW) Send(ctx context.Context, batch []multiraft.Envelope) error {
	n := t.n
	n.mu.Lock()
	if n.dead {
		n.mu.Unlock()
		return nil
	}
	e := event{Kind: "send"}
	for _, env := range batch {
		m := env.Message
		if m.Type == raftpb.MsgHeartbeat || m.Type == raftpb.MsgHeartbeatResp {
			// keep one heartbeat per (peer, type, term, commit): the rest carries nothing new
			key := m.To*4 + uint64(m.Type&3)
			cur := [3]uint64{m.Term, m.Commit, uint64(m.Type)}
			if n.lastHB[key] == cur {
				continue
			}
			n.lastHB[key] = cur
		}
		e.Msgs = append(e.Msgs, sumMsg(m))
	}
	if len(e.Msgs) > 0 {
		n.rec(e)
	}
	inc := n.inc
	n.mu.Unlock()
	n.c.net.send(n.id, inc, batch)
	return nil
}

// ---- cluster --------------------------------------------------------------------------------

type network interface {
	send(from int, inc int, batch []multiraft.Envelope)
}

type cluster struct {
	in    input
	root  string
	nodes [nNodes + 1]*node
	net   network

	futMu sync.Mutex
	futs  []*futRec
	next  uint64 // next command id

	notes []string
}

func (c *cluster) note(f string, a ...any) { c.notes = append(c.notes, fmt.Sprintf(f, a...)) }

func (c *cluster) sm(n *node) multiraft.StateMachine {
	if c.in.Durable {
		return smDurable{smPlain{n}}
	}
	return smPlain{n}
}

func (c *cluster) raftOpts() multiraft.RaftOptions {
	return multiraft.RaftOptions{
		ElectionTick:  10,
		HeartbeatTick: 2,
		PreVote:       !c.in.NoPV,
		CheckQuorum:   !c.in.NoCQ,
		// compaction only when the schedule asks for it
		LogCompaction: multiraft.LogCompactionConfig{Enabled: true, EnabledSet: true, TriggerEntries: 1 << 40, CheckInterval: time.Hour},
	}
}

// boot opens the node's raft log and runtime; first=true bootstraps the slot.
func (c *cluster) boot(n *node, first bool) error {
	db, err := raftlog.Open(n.dir, raftlog.Options{WriteBatchMaxWait: 20 * time.Microsecond, WriteBatchMaxItems: 1, Logger: wklog.NewNop()})
	if err != nil {
		return err
	}
	inner := db.ForSlot(uint64(slotID))
	n.mu.Lock()
	n.dead = false
	n.fuse = 0
	n.died = make(chan struct{})
	n.release = make(chan struct{})
	n.relDone = false
	n.inc++
	n.lastHB = map[uint64][3]uint64{}
	n.mu.Unlock()
	bs, err := inner.InitialState(context.Background())
	if err != nil {
		db.Close()
		return err
	}
	snap, err := inner.Snapshot(context.Background())
	if err != nil {
		db.Close()
		return err
	}
	n.mu.Lock()
	n.rec(event{Kind: "boot", Inc: n.inc, First: first, HsTerm: bs.HardState.Term, HsVote: bs.HardState.Vote, HsCommit: bs.HardState.Commit,
		StApplied: bs.AppliedIndex, SnapI: snap.Metadata.Index, SmIdx: n.smIdx})
	n.mu.Unlock()

	opts := multiraft.Options{
		NodeID:       multiraft.NodeID(n.id),
		TickInterval: 8 * time.Millisecond,
		Workers:      2,
		Transport:    &transportW{n},
		Raft:         c.raftOpts(),
	}
	var rt *multiraft.Runtime
	if c.in.Mode == "live" {
		rt, err = multiraft.New(opts)
	} else {
		rt, err = multiraft.VerifC12NewManual(opts, c.in.Async)
	}
	if err != nil {
		db.Close()
		return err
	}
	so := multiraft.SlotOptions{ID: slotID, Storage: &storageW{n: n, inner: inner}, StateMachine: c.sm(n)}
	if first {
		err = rt.BootstrapSlot(context.Background(), multiraft.BootstrapSlotRequest{
			Slot: so, Voters: []multiraft.NodeID{1, 2, 3}, Campaign: n.id == 1})
	} else {
		err = rt.OpenSlot(context.Background(), so)
	}
	if err != nil {
		rt.Close()
		db.Close()
		return err
	}
	st, err := rt.Status(slotID)
	if err != nil {
		rt.Close()
		db.Close()
		return err
	}
	n.mu.Lock()
	n.rec(event{Kind: "booted", StatusApplied: st.AppliedIndex})
	n.mu.Unlock()
	n.db, n.rt, n.st, n.up = db, rt, inner, true
	return nil
}

// crash stops the node.  hard: the wrappers die first (every durable call
// from now on blocks, has no effect and fails once the runtime is marked
// closed), then the runtime is closed; otherwise a plain Close.
func (c *cluster) crash(n *node, hard bool) {
	if !n.up {
		return
	}
	if hard {
		n.kill()
	}
	rt := n.rt
	done := make(chan struct{})
	go func() {
		_ = rt.Close()
		close(done)
	}()
	if hard {
		for {
			if _, err := rt.Status(slotID); errors.Is(err, multiraft.ErrRuntimeClosed) {
				break
			}
			time.Sleep(20 * time.Microsecond)
		}
		n.releaseBlocked()
	}
	<-done
	n.kill()
	n.releaseBlocked()
	n.mu.Lock()
	n.rec(event{Kind: "down", Hard: hard})
	n.mu.Unlock()
	_ = n.db.Close()
	n.up = false
	n.rt, n.db = nil, nil
}

func (c *cluster) believedLeader() *node {
	var best *node
	var bestTerm uint64
	for i := 1; i <= nNodes; i++ {
		n := c.nodes[i]
		if !n.up {
			continue
		}
		st, err := n.rt.Status(slotID)
		if err != nil {
			continue
		}
		if st.Role == multiraft.RoleLeader && st.Term >= bestTerm {
			best, bestTerm = n, st.Term
		}
	}
	return best
}

func errClass(err error) string {
	switch {
	case err == nil:
		return ""
	case errors.Is(err, multiraft.ErrNotLeader):
		return "not_leader"
	case errors.Is(err, multiraft.ErrRuntimeClosed), errors.Is(err, multiraft.ErrSlotClosed):
		return "closed"
	case errors.Is(err, multiraft.ErrProposalBackpressure), errors.Is(err, multiraft.ErrSlotBusy):
		return "busy"
	case errors.Is(err, errDead):
		return "dead"
	case errors.Is(err, raft.ErrProposalDropped):
		return "dropped"
	default:
		s := err.Error()
		if strings.Contains(s, "node is dead") {
			return "dead"
		}
		return "other:" + s
	}
}

// propose submits one command at node n and follows its future.
func (c *cluster) propose(n *node) {
	c.futMu.Lock()
	c.next++
	id := c.next
	f := &futRec{Cmd: id, Node: n.id, Inc: n.inc}
	c.futs = append(c.futs, f)
	c.futMu.Unlock()
	if !n.up {
		f.Status, f.Err = 2, "down"
		return
	}
	data := make([]byte, envSize+8)
	binary.BigEndian.PutUint16(data[:2], 7)
	binary.BigEndian.PutUint64(data[envSize:], id)
	fut, err := n.rt.Propose(context.Background(), slotID, data)
	if err != nil {
		f.Status, f.Err = 2, errClass(err)
		return
	}
	go func() {
		res, err := fut.Wait(context.Background())
		f.mu.Lock()
		defer f.mu.Unlock()
		if err != nil {
			f.Status, f.Err = 3, errClass(err)
			return
		}
		f.Status, f.Idx, f.Term = 1, res.Index, res.Term
		if len(res.Data) == 8 {
			f.Data, f.DataOK = binary.BigEndian.Uint64(res.Data), true
		}
	}()
}

func main() {
	vh.Main(vh.Harness[input]{EmitConsts: emitConsts, Gen: gen, Run: run})
}

func run(in input) vh.Result {
	base := os.Getenv("VERIF_C12_TMP")
	if base == "" {
		if st, err := os.Stat("/dev/shm"); err == nil && st.IsDir() {
			base = "/dev/shm"
		} else {
			base = os.TempDir()
		}
	}
	root, err := os.MkdirTemp(base, "c12-")
	if err != nil {
		panic(err)
	}
	defer os.RemoveAll(root)
	c := &cluster{in: in, root: root}
	for i := 1; i <= nNodes; i++ {
		c.nodes[i] = &node{id: i, c: c, dir: filepath.Join(root, fmt.Sprintf("n%d", i))}
	}
	if in.Mode == "live" {
		runLive(c)
	} else {
		runDet(c)
	}
	c.awaitFutures()
	return render(c)
}

// awaitFutures gives the goroutines that follow the futures time to record the
// terminal results (every runtime is closed by now).
func (c *cluster) awaitFutures() {
	for k := 0; k < 200; k++ {
		pending := 0
		c.futMu.Lock()
		for _, f := range c.futs {
			f.mu.Lock()
			if f.Status == 0 {
				pending++
			}
			f.mu.Unlock()
		}
		c.futMu.Unlock()
		if pending == 0 {
			return
		}
		time.Sleep(time.Millisecond)
	}
}

// ---- rendering -------------------------------------------------------------------------------

func coqEnt(e entSum) string {
	return vh.App("mkE", vh.N(e.Idx), vh.N(e.Term), vh.N(uint64(e.Kind)), vh.N(e.Cmd))
}

func coqMsg(m msgSum) string {
	return vh.App("mkM", vh.N(uint64(m.Type)), vh.N(m.To), vh.N(m.Term), vh.N(m.LogTerm), vh.N(m.Index), vh.N(m.Commit),
		vh.B(m.Reject), vh.N(uint64(m.NEnts)), vh.N(m.SnapIdx), vh.NList(m.Cmds))
}

func coqEvent(e event) string {
	switch e.Kind {
	case "boot":
		return vh.App("EvBoot", vh.B(e.First), vh.N(e.HsTerm), vh.N(e.HsVote), vh.N(e.HsCommit), vh.N(e.StApplied), vh.N(e.SnapI), vh.N(e.SmIdx))
	case "booted":
		return vh.App("EvBooted", vh.N(e.StatusApplied))
	case "save":
		hs := vh.None()
		if e.HS != nil {
			hs = vh.Some(vh.App("mkHS", vh.N(e.HS[0]), vh.N(e.HS[1]), vh.N(e.HS[2])))
		}
		sn := vh.None()
		if e.Snap != nil {
			sn = vh.Some(vh.Pair(vh.N(e.Snap[0]), vh.N(e.Snap[1])))
		}
		return vh.App("EvSave", hs, vh.ListOf(e.Ents, coqEnt), sn)
	case "mark":
		return vh.App("EvMark", vh.N(e.Idx))
	case "send":
		return vh.App("EvSend", vh.ListOf(e.Msgs, coqMsg))
	case "restore":
		return vh.App("EvRestore", vh.N(e.Idx))
	case "apply":
		return vh.App("EvApply", vh.B(e.Batch), vh.ListOf(e.Ents, coqEnt))
	case "down":
		return vh.App("EvDown", vh.B(e.Hard))
	}
	panic("event kind " + e.Kind)
}

type obsNode struct {
	Events  int      `json:"events"`
	Applies []string `json:"applies"`
	SmIdx   uint64   `json:"sm_idx"`
	Hist    []uint64 `json:"hist"`
}

func render(c *cluster) vh.Result {
	var nodeTerms []string
	obs := map[string]any{}
	nApply, nBatch, nSave, nSend, nRestore, nBoot, nHard, nMark := 0, 0, 0, 0, 0, 0, 0, 0
	maxIdx := uint64(0)
	for i := 1; i <= nNodes; i++ {
		n := c.nodes[i]
		n.mu.Lock()
		evs := append([]event(nil), n.events...)
		hist := append([]uint64(nil), n.smHist...)
		pos := append([]uint64(nil), n.smPos...)
		smIdx := n.smIdx
		n.mu.Unlock()
		on := obsNode{Events: len(evs), SmIdx: smIdx, Hist: hist}
		for _, e := range evs {
			switch e.Kind {
			case "apply":
				nApply++
				if len(e.Ents) > 1 {
					nBatch++
				}
				var s []string
				for _, x := range e.Ents {
					s = append(s, fmt.Sprintf("%d/%d:%d", x.Idx, x.Term, x.Cmd))
					if x.Idx > maxIdx {
						maxIdx = x.Idx
					}
				}
				on.Applies = append(on.Applies, strings.Join(s, " "))
			case "save":
				nSave++
			case "send":
				nSend++
			case "restore":
				nRestore++
				on.Applies = append(on.Applies, fmt.Sprintf("restore@%d", e.Idx))
			case "boot":
				nBoot++
				on.Applies = append(on.Applies, fmt.Sprintf("boot#%d sm=%d stApplied=%d snap=%d commit=%d", e.Inc, e.SmIdx, e.StApplied, e.SnapI, e.HsCommit))
			case "down":
				if e.Hard {
					nHard++
				}
			case "mark":
				nMark++
			}
		}
		obs[fmt.Sprintf("n%d", i)] = on
		histTerm := make([]string, len(hist))
		for k := range hist {
			histTerm[k] = vh.Pair(vh.N(pos[k]), vh.N(hist[k]))
		}
		nodeTerms = append(nodeTerms, vh.App("mkNode", vh.ListOf(evs, coqEvent), vh.N(smIdx), vh.List(histTerm)))
	}
	var futTerms []string
	nOK, nErr, nPend := 0, 0, 0
	var futObs []string
	c.futMu.Lock()
	futs := append([]*futRec(nil), c.futs...)
	c.futMu.Unlock()
	for _, f := range futs {
		f.mu.Lock()
		st, idx, term, data, dok, es := f.Status, f.Idx, f.Term, f.Data, f.DataOK, f.Err
		f.mu.Unlock()
		var res string
		switch st {
		case 1:
			nOK++
			d := vh.None()
			if dok {
				d = vh.Some(vh.N(data))
			}
			res = vh.App("FutOk", vh.N(idx), vh.N(term), d)
			futObs = append(futObs, fmt.Sprintf("cmd %d @n%d ok idx=%d term=%d data=%d", f.Cmd, f.Node, idx, term, data))
		case 0:
			nPend++
			res = "FutPending"
		default:
			nErr++
			res = "FutErr"
			if len(futObs) < 40 {
				futObs = append(futObs, fmt.Sprintf("cmd %d @n%d err %s", f.Cmd, f.Node, es))
			}
		}
		futTerms = append(futTerms, vh.App("mkFut", vh.N(f.Cmd), vh.N(uint64(f.Node)), res))
	}
	obs["futures"] = futObs
	obs["notes"] = c.notes
	coq := vh.App("mkC12", vh.B(c.in.Durable), vh.List(nodeTerms), vh.List(futTerms))

	// class for the histogram
	var tags []string
	tags = append(tags, c.in.Mode)
	if c.in.Durable {
		tags = append(tags, "durable")
	} else {
		tags = append(tags, "plain")
	}
	if c.in.Mode == "det" && c.in.Async {
		tags = append(tags, "async")
	}
	if nBoot > nNodes {
		tags = append(tags, "restart")
	}
	if nHard > 0 {
		tags = append(tags, "hardcrash")
	}
	if nRestore > 0 {
		tags = append(tags, "restore")
	}
	if nBatch > 0 {
		tags = append(tags, "batch")
	}
	hasSnap := false
	for i := 1; i <= nNodes; i++ {
		for _, e := range c.nodes[i].events {
			if e.Kind == "save" && e.Snap != nil {
				hasSnap = true
			}
		}
	}
	if hasSnap {
		tags = append(tags, "snap")
	}
	switch {
	case nOK == 0:
		tags = append(tags, "ok0")
	case nOK < 10:
		tags = append(tags, "ok<10")
	default:
		tags = append(tags, "ok10+")
	}
	if nErr > 0 {
		tags = append(tags, "futerr")
	}
	sort.Strings(tags[1:])
	obs["counts"] = map[string]int{"apply_calls": nApply, "batches": nBatch, "saves": nSave, "sends": nSend, "restores": nRestore,
		"boots": nBoot, "hard": nHard, "marks": nMark, "fut_ok": nOK, "fut_err": nErr, "fut_pending": nPend, "max_idx": int(maxIdx)}
	return vh.Result{Coq: coq, Obs: obs, Class: strings.Join(tags, ","), Trivial: nApply < 3}
}
