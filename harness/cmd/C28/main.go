// Harness for C28 (every SEND gets exactly one SENDACK, in order) — model GatewaySend.
//
// Three kinds of cases:
//   split  the real dispatchMailboxBatch on a list of payload sizes (exact differential
//          with the Gallina splitter);
//   conc   the real core.Server with the fake transport of pkg/gateway/testkit, the REAL
//          internal/access/gateway Handler (SendBatchHandler writing SENDACKs) on top of a
//          fake message usecase with random latency / out-of-order completion / failures,
//          concurrent sessions, saturation, outbound pushes, drain and close at random
//          points; every observable event stamped by one global atomic ticket;
//   seq    the same stack driven one atomic step at a time (gated handler), emitting the
//          model's event list so that the transition system is replayed exactly.
package main

import (
	"fmt"
	"io"
	"math/rand/v2"

	"github.com/WuKongIM/WuKongIM/internal/verifh/vh"
	"github.com/WuKongIM/WuKongIM/pkg/gateway/core"
	gatewaytypes "github.com/WuKongIM/WuKongIM/pkg/gateway/types"
)

type op struct {
	T     int    `json:"t"`               // thread: 0..Sessions-1 drive session T+1; Sessions.. are auxiliary threads
	K     string `json:"k"`               // send | close | sleep | push | drain | stop | release
	S     int    `json:"s,omitempty"`     // push/release target: session index / shard
	N     int    `json:"n,omitempty"`     // send: frames in the burst
	Bytes []int  `json:"bytes,omitempty"` // send: payload size per frame
	Lat   []int  `json:"lat,omitempty"`   // send: usecase latency per frame (µs)
	Fail  []int  `json:"fail,omitempty"`  // send: 0 ok, 1 item error (still acked), 2 usecase returns an error
	Ord   []int  `json:"ord,omitempty"`   // send: completion order key inside a batch
	Us    int    `json:"us,omitempty"`    // sleep duration / drain deadline (µs; 0 = no deadline)
	Tag   int    `json:"tag,omitempty"`   // push tag
}

type input struct {
	Kind       string `json:"kind"`
	Workers    int    `json:"workers,omitempty"`
	Capacity   int    `json:"capacity,omitempty"`
	MaxRecords int    `json:"max_records,omitempty"`
	MaxBytes   int    `json:"max_bytes,omitempty"`
	MaxWaitUs  int    `json:"max_wait_us,omitempty"` // <= 0: no batch wait
	Sessions   int    `json:"sessions,omitempty"`
	Aux        int    `json:"aux,omitempty"`
	Batch      bool   `json:"batch,omitempty"`        // handler implements SendBatchHandler
	CloseOnErr bool   `json:"close_on_err,omitempty"` // DefaultSession.CloseOnHandlerError
	Sizes      []int  `json:"sizes,omitempty"`        // split
	Ops        []op   `json:"ops"`
}

func genSplit(r *rand.Rand) input {
	in := input{Kind: "split"}
	in.MaxRecords = vh.Pick(r, 0, 1, 1, 2, 3, 4, 5, 8, 128)
	in.MaxBytes = vh.Pick(r, 0, 1, 10, 10, 16, 50, 100, 1000)
	n := r.IntN(24)
	for i := 0; i < n; i++ {
		var sz int
		switch r.IntN(6) {
		case 0:
			sz = 0
		case 1:
			sz = in.MaxBytes
		case 2:
			sz = in.MaxBytes + 1 + r.IntN(5)
		case 3:
			sz = in.MaxBytes / 2
		default:
			sz = r.IntN(2*in.MaxBytes + 3)
		}
		in.Sizes = append(in.Sizes, sz)
	}
	return in
}

func genSend(r *rand.Rand, in *input, t int, heavy bool) op {
	o := op{T: t, K: "send", N: 1}
	if r.IntN(3) == 0 {
		o.N = 2 + r.IntN(5)
	}
	for j := 0; j < o.N; j++ {
		o.Bytes = append(o.Bytes, vh.Pick(r, 0, 1, 3, in.MaxBytes/2, in.MaxBytes, in.MaxBytes+2, r.IntN(2*in.MaxBytes+2)))
		lat := 0
		if heavy {
			lat = vh.Pick(r, 0, 20, 100, 300, 800)
		} else if r.IntN(4) == 0 {
			lat = vh.Pick(r, 5, 30, 120)
		}
		o.Lat = append(o.Lat, lat)
		f := 0
		switch r.IntN(60) {
		case 0, 1, 2:
			f = 1
		case 3:
			f = 2
		}
		o.Fail = append(o.Fail, f)
		o.Ord = append(o.Ord, r.IntN(4))
	}
	return o
}

func genConc(r *rand.Rand, tier string) input {
	in := input{Kind: "conc"}
	in.Workers = vh.Pick(r, 1, 1, 1, 2, 2, 3, 4)
	in.Capacity = vh.Pick(r, 1, 2, 3, 4, 6, 8, 16, 16, 32, 64, 64)
	in.MaxRecords = vh.Pick(r, 1, 2, 3, 4, 8, 128)
	in.MaxBytes = vh.Pick(r, 4, 16, 64, 1000)
	in.MaxWaitUs = vh.Pick(r, 0, 0, 20, 200)
	in.Sessions = 1 + r.IntN(6)
	in.Aux = 1 + r.IntN(2)
	in.Batch = r.IntN(5) != 0
	in.CloseOnErr = r.IntN(5) != 0
	heavy := r.IntN(2) == 0
	n := 15 + r.IntN(60)
	if tier == "thorough" {
		n = 20 + r.IntN(160)
	}
	midDrains := 0
	if r.IntN(100) < 40 {
		midDrains = 1 + r.IntN(2)
	}
	withStop := r.IntN(100) < 15
	for j := 0; j < n; j++ {
		t := r.IntN(in.Sessions + in.Aux)
		if t < in.Sessions {
			switch x := r.IntN(40); {
			case x == 0:
				in.Ops = append(in.Ops, op{T: t, K: "close"})
			case x < 5:
				in.Ops = append(in.Ops, op{T: t, K: "sleep", Us: vh.Pick(r, 1, 10, 50, 200)})
			default:
				in.Ops = append(in.Ops, genSend(r, &in, t, heavy))
			}
			continue
		}
		switch x := r.IntN(20); {
		case x < 11:
			in.Ops = append(in.Ops, op{T: t, K: "push", S: r.IntN(in.Sessions), Tag: j + 1})
		case x < 16:
			in.Ops = append(in.Ops, op{T: t, K: "sleep", Us: vh.Pick(r, 1, 20, 100, 400)})
		case x < 19:
			// drains in the last part so that they race with live traffic
			if j > n*6/10 && midDrains > 0 {
				midDrains--
				in.Ops = append(in.Ops, op{T: t, K: "drain", Us: vh.Pick(r, 0, 1, 30, 300, 2000)})
			}
		default:
			if j > n*7/10 && withStop {
				withStop = false
				in.Ops = append(in.Ops, op{T: t, K: "stop"})
			}
		}
	}
	return in
}


// genBlockedStop: every worker is parked in a slow handler call, other sessions'
// accepted SENDs are backlogged on their own shards, then Server.Stop (optionally
// after an expired DrainSends) runs out of its release budget; the slow calls end
// well after every stop-related deadline.
func genBlockedStop(r *rand.Rand) input {
	in := input{Kind: "conc"}
	in.Workers = 2
	in.Capacity = vh.Pick(r, 8, 16, 32)
	in.MaxRecords = vh.Pick(r, 1, 2, 128)
	in.MaxBytes = 1000
	in.MaxWaitUs = vh.Pick(r, 0, 20)
	in.Sessions = 3 + r.IntN(3)
	in.Aux = 1
	in.Batch = r.IntN(4) != 0
	in.CloseOnErr = true
	slow := vh.Pick(r, 100000, 150000)
	for s := 0; s < 2; s++ {
		in.Ops = append(in.Ops, op{T: s, K: "send", N: 1, Bytes: []int{3}, Lat: []int{slow}, Fail: []int{0}, Ord: []int{0}})
	}
	for s := 2; s < in.Sessions; s++ {
		in.Ops = append(in.Ops, op{T: s, K: "sleep", Us: 4000 + 1000*s})
		n := 1 + r.IntN(3)
		o := op{T: s, K: "send", N: n}
		for i := 0; i < n; i++ {
			o.Bytes = append(o.Bytes, r.IntN(20))
			o.Lat = append(o.Lat, vh.Pick(r, 0, 50, 300))
			o.Fail = append(o.Fail, 0)
			o.Ord = append(o.Ord, 0)
		}
		in.Ops = append(in.Ops, o)
	}
	a := in.Sessions
	in.Ops = append(in.Ops, op{T: a, K: "sleep", Us: 20000})
	if r.IntN(2) == 0 {
		in.Ops = append(in.Ops, op{T: a, K: "drain", Us: 1000})
	}
	in.Ops = append(in.Ops, op{T: a, K: "stop"})
	return in
}

func gen(r *rand.Rand, tier string, i int) input {
	switch x := r.IntN(10); {
	case x < 2:
		return genSplit(r)
	case x < 5:
		return genSeq(r, tier)
	default:
		if r.IntN(8) == 0 {
			return genBlockedStop(r)
		}
		return genConc(r, tier)
	}
}

func run(in input) vh.Result {
	switch in.Kind {
	case "split":
		return runSplit(in)
	case "seq":
		return runSeq(in)
	default:
		return runConc(in)
	}
}

func runSplit(in input) vh.Result {
	got := core.VerifC28Split(in.Sizes, in.MaxRecords, in.MaxBytes)
	maxRecords, maxBytes, _ := core.VerifC28Limits(gatewaytypes.SessionOptions{
		AsyncSendBatchMaxRecords: in.MaxRecords, AsyncSendBatchMaxBytes: in.MaxBytes, AsyncSendBatchMaxWait: -1})
	sizes := make([]uint64, len(in.Sizes))
	for i, s := range in.Sizes {
		sizes[i] = uint64(s)
	}
	impl := vh.ListOf(got, func(b []int) string {
		return vh.ListOf(b, func(i int) string { return vh.N(uint64(i)) })
	})
	over := false
	for _, b := range got {
		sum := 0
		for _, i := range b {
			sum += in.Sizes[i]
		}
		if sum > maxBytes {
			over = true
		}
	}
	return vh.Result{
		Coq:     vh.App("C28Case", vh.App("KSplit", natLit(maxRecords), vh.N(uint64(maxBytes)), vh.NList(sizes), impl)),
		Obs:     map[string]any{"sub_batches": got, "max_records": maxRecords, "max_bytes": maxBytes},
		Class:   fmt.Sprintf("split,batches=%s,oversize_singleton=%v", bucket(len(got)), over),
		Trivial: len(in.Sizes) == 0,
	}
}

func natLit(n int) string { return fmt.Sprintf("%d%%nat", n) }

func bucket(n int) string {
	switch {
	case n == 0:
		return "0"
	case n == 1:
		return "1"
	case n <= 4:
		return "2-4"
	default:
		return "5+"
	}
}

func emitConsts(w io.Writer) {
	def := gatewaytypes.DefaultSessionOptions()
	rt := gatewaytypes.DefaultRuntimeOptions()
	maxRecords, maxBytes, maxWait := core.VerifC28Limits(gatewaytypes.SessionOptions{})
	fmt.Fprintf(w, "(* GENERATED by harness/cmd/C28 -emit-consts from the compiled /repo. Do not edit. *)\n")
	fmt.Fprintf(w, "From WK Require Import Base.Base.\nOpen Scope N_scope.\n\n")
	fmt.Fprintf(w, "(* pkg/gateway/core/async_send.go *)\n")
	fmt.Fprintf(w, "Definition async_send_ordering_shards_per_worker : N := %d.\n", core.VerifC28Consts())
	fmt.Fprintf(w, "(* pkg/gateway/types/options.go defaults after normalization *)\n")
	fmt.Fprintf(w, "Definition default_async_send_workers : N := %d.\n", rt.AsyncSendWorkers)
	fmt.Fprintf(w, "Definition default_async_send_queue_capacity : N := %d.\n", rt.AsyncSendQueueCapacity)
	fmt.Fprintf(w, "Definition default_async_send_batch_max_records : N := %d.\n", maxRecords)
	fmt.Fprintf(w, "Definition default_async_send_batch_max_bytes : N := %d.\n", maxBytes)
	fmt.Fprintf(w, "Definition default_async_send_batch_max_wait_ns : N := %d.\n", maxWait)
	cl := def.CloseOnHandlerError != nil && *def.CloseOnHandlerError
	fmt.Fprintf(w, "Definition default_close_on_handler_error : bool := %v.\n", cl)
	fmt.Fprintf(w, "(* geometry of the default executor *)\n")
	sh := core.VerifC28ShardCount(rt.AsyncSendWorkers, rt.AsyncSendQueueCapacity)
	fmt.Fprintf(w, "Definition default_shards : N := %d.\n", sh)
	fmt.Fprintf(w, "Definition default_shard_capacity : N := %d.\n", core.VerifC28ShardCapacity(rt.AsyncSendQueueCapacity, sh))
}

func main() {
	vh.Main(vh.Harness[input]{EmitConsts: emitConsts, Gen: gen, Run: run})
}
