package main

import (
	"bytes"
	"context"
	"encoding/binary"
	"errors"
	"fmt"
	"runtime"
	"sort"
	"strconv"
	"strings"
	"sync"
	"sync/atomic"
	"time"

	accessgateway "github.com/WuKongIM/WuKongIM/internal/access/gateway"
	"github.com/WuKongIM/WuKongIM/internal/usecase/message"
	"github.com/WuKongIM/WuKongIM/pkg/gateway/core"
	"github.com/WuKongIM/WuKongIM/pkg/gateway/session"
	"github.com/WuKongIM/WuKongIM/pkg/gateway/testkit"
	gatewaytypes "github.com/WuKongIM/WuKongIM/pkg/gateway/types"
	"github.com/WuKongIM/WuKongIM/pkg/protocol/frame"
)

// ---- recorder: one global atomic ticket ---------------------------------------------------

type sendRec struct {
	sid      uint64
	seq      uint64
	bytes    int
	t0, t1   uint64
	accepted bool
}

type itemRec struct {
	sid   uint64
	seq   uint64
	bytes int
}

type batchRec struct {
	items  []itemRec
	t0, t1 uint64
	res    int // 0 nil, 1 error, 2 panic
}

type drainRec struct {
	t0, t1 uint64
	ok     bool
}

type issueRec struct {
	sid      uint64
	w, tag   uint64
	t0, t1   uint64
	ok       bool
}

type wireRec struct {
	sid, w, tag, t uint64
}

type sendCall struct {
	results []bool
}

type recorder struct {
	ticket atomic.Uint64

	mu       sync.Mutex
	sends    []sendRec
	batches  []batchRec
	drains   []drainRec
	issues   []issueRec
	cur      map[uint64]*sendCall
	maxDepth int
	handled  int // items handed to the usecase so far
}

func newRecorder() *recorder { return &recorder{cur: map[uint64]*sendCall{}} }

func (r *recorder) tick() uint64 { return r.ticket.Add(1) }

func goid() uint64 {
	var buf [64]byte
	n := runtime.Stack(buf[:], false)
	// "goroutine 123 [running]:..."
	f := strings.Fields(string(buf[:n]))
	if len(f) < 2 {
		return 0
	}
	id, _ := strconv.ParseUint(f[1], 10, 64)
	return id
}

// ---- observer -----------------------------------------------------------------------------

type observer struct{ rec *recorder }

func (o *observer) OnConnectionOpen(gatewaytypes.ConnectionEvent)  {}
func (o *observer) OnConnectionClose(gatewaytypes.ConnectionEvent) {}
func (o *observer) OnAuth(gatewaytypes.AuthEvent)                  {}
func (o *observer) OnFrameIn(gatewaytypes.FrameEvent)              {}
func (o *observer) OnFrameOut(gatewaytypes.FrameEvent)             {}
func (o *observer) OnFrameHandled(gatewaytypes.FrameHandleEvent)   {}

func (o *observer) OnAsyncSendAdmission(ev gatewaytypes.AsyncSendAdmissionEvent) {
	id := goid()
	o.rec.mu.Lock()
	if c := o.rec.cur[id]; c != nil {
		c.results = append(c.results, ev.Result == "ok")
	}
	o.rec.mu.Unlock()
}

func (o *observer) OnAsyncSendQueue(ev gatewaytypes.AsyncSendQueueEvent) {
	o.rec.mu.Lock()
	if ev.Depth > o.rec.maxDepth {
		o.rec.maxDepth = ev.Depth
	}
	o.rec.mu.Unlock()
}
func (o *observer) OnAsyncSendBatch(gatewaytypes.AsyncSendBatchEvent)               {}
func (o *observer) OnAsyncSendDispatchWait(gatewaytypes.AsyncSendDispatchWaitEvent) {}

// ---- protocol adapter ------------------------------------------------------------------------

// inbound frame: seq u64 | plen u32 | lat u32 | fail u8 | ord u8 | payload
// outbound frame: sid u64 | w u64 | tag u64 | stamp u64  (stamp taken inside Encode, i.e.
// under the session's write lock, immediately before conn.Write)
type c28Proto struct {
	rec *recorder
	mu  sync.Mutex
	ses map[uint64]session.Session
}

func (p *c28Proto) Name() string { return "c28" }

func encodeSend(seq uint64, plen, lat, fail, ord int) []byte {
	b := make([]byte, 18+plen)
	binary.BigEndian.PutUint64(b[0:], seq)
	binary.BigEndian.PutUint32(b[8:], uint32(plen))
	binary.BigEndian.PutUint32(b[12:], uint32(lat))
	b[16] = byte(fail)
	b[17] = byte(ord)
	return b
}

func (p *c28Proto) Decode(_ session.Session, in []byte) ([]frame.Frame, int, error) {
	var out []frame.Frame
	off := 0
	for off+18 <= len(in) {
		seq := binary.BigEndian.Uint64(in[off:])
		plen := int(binary.BigEndian.Uint32(in[off+8:]))
		lat := int(binary.BigEndian.Uint32(in[off+12:]))
		fail, ord := int(in[off+16]), int(in[off+17])
		if off+18+plen > len(in) {
			break
		}
		out = append(out, &frame.SendPacket{
			ClientSeq:   seq,
			ClientMsgNo: fmt.Sprintf("m%d", seq),
			ChannelID:   fmt.Sprintf("%d:%d:%d", lat, fail, ord),
			ChannelType: 2,
			Payload:     in[off+18 : off+18+plen],
		})
		off += 18 + plen
	}
	return out, off, nil
}

func (p *c28Proto) Encode(s session.Session, f frame.Frame, _ session.OutboundMeta) ([]byte, error) {
	var w, tag uint64
	switch pkt := f.(type) {
	case *frame.SendackPacket:
		w, tag = 0, pkt.ClientSeq
	case *frame.RecvPacket:
		w, tag = uint64(pkt.MessageID), pkt.MessageSeq
	default:
		w, tag = 1<<40, 0
	}
	b := make([]byte, 32)
	binary.BigEndian.PutUint64(b[0:], s.ID())
	binary.BigEndian.PutUint64(b[8:], w)
	binary.BigEndian.PutUint64(b[16:], tag)
	binary.BigEndian.PutUint64(b[24:], p.rec.tick())
	return b, nil
}

func (p *c28Proto) OnOpen(s session.Session) error {
	s.SetValue(gatewaytypes.SessionValueUID, fmt.Sprintf("u%d", s.ID()))
	p.mu.Lock()
	p.ses[s.ID()] = s
	p.mu.Unlock()
	return nil
}

func (p *c28Proto) OnClose(session.Session) error { return nil }

func (p *c28Proto) session(sid uint64) session.Session {
	p.mu.Lock()
	defer p.mu.Unlock()
	return p.ses[sid]
}

// ---- fake message usecase ---------------------------------------------------------------------

var errItem = errors.New("c28: item failed")
var errBatch = errors.New("c28: usecase failed")

type fakeMessages struct {
	rec *recorder
	// gate, when set (seq mode), is called at the start of every SendBatchEach call
	// and blocks until the driver releases the call; it returns the instruction.
	gate func(b *batchRec) gateInstr
	// done, when set, receives one token after every SendBatchEach call has been recorded.
	done chan struct{}
}

type gateInstr struct {
	fail bool // return errBatch before emitting anything
}

func spin(us int) {
	if us <= 0 {
		return
	}
	if us >= 200 {
		time.Sleep(time.Duration(us) * time.Microsecond)
		return
	}
	end := time.Now().Add(time.Duration(us) * time.Microsecond)
	for time.Now().Before(end) {
		runtime.Gosched()
	}
}

func parseBehaviour(ch string) (lat, fail, ord int) {
	p := strings.Split(ch, ":")
	if len(p) != 3 {
		return
	}
	lat, _ = strconv.Atoi(p[0])
	fail, _ = strconv.Atoi(p[1])
	ord, _ = strconv.Atoi(p[2])
	return
}

func (u *fakeMessages) SendBatchEach(items []message.SendBatchItem, emit func(int, message.SendBatchItemResult) error) (err error) {
	b := batchRec{t0: u.rec.tick()}
	for _, it := range items {
		b.items = append(b.items, itemRec{sid: it.Command.SenderSessionID, seq: it.Command.ClientSeq, bytes: len(it.Command.Payload)})
	}
	defer func() {
		pv := recover()
		if pv != nil {
			b.res = 2
		} else if err != nil {
			b.res = 1
		}
		b.t1 = u.rec.tick()
		u.rec.mu.Lock()
		u.rec.batches = append(u.rec.batches, b)
		u.rec.handled += len(b.items)
		u.rec.mu.Unlock()
		if u.done != nil {
			u.done <- struct{}{}
		}
		if pv != nil {
			panic(pv)
		}
	}()
	if u.gate != nil {
		if ins := u.gate(&b); ins.fail {
			return errBatch
		}
	}
	order := make([]int, len(items))
	ords := make([]int, len(items))
	for i := range items {
		order[i] = i
		_, _, ords[i] = parseBehaviour(items[i].Command.ChannelID)
	}
	if u.gate == nil {
		sort.SliceStable(order, func(a, c int) bool { return ords[order[a]] < ords[order[c]] })
	}
	for _, j := range order {
		lat, fail, _ := parseBehaviour(items[j].Command.ChannelID)
		spin(lat)
		switch fail {
		case 2:
			return errBatch
		case 3:
			panic("c28: usecase panic")
		case 1:
			if e := emit(j, message.SendBatchItemResult{Err: errItem}); e != nil {
				return e
			}
		default:
			res := message.SendResult{MessageID: items[j].Command.ClientSeq + 1000, MessageSeq: items[j].Command.ClientSeq + 1, Reason: message.ReasonSuccess}
			if e := emit(j, message.SendBatchItemResult{Result: res}); e != nil {
				return e
			}
		}
	}
	return nil
}

// frameOnly hides OnSendBatch so that core falls back to per-frame dispatch.
type frameOnly struct{ h *accessgateway.Handler }

func (f frameOnly) OnListenerError(l string, err error)            { f.h.OnListenerError(l, err) }
func (f frameOnly) OnSessionOpen(c gatewaytypes.Context) error     { return f.h.OnSessionOpen(c) }
func (f frameOnly) OnFrame(c gatewaytypes.Context, fr frame.Frame) error { return f.h.OnFrame(c, fr) }
func (f frameOnly) OnSessionClose(c gatewaytypes.Context) error    { return f.h.OnSessionClose(c) }
func (f frameOnly) OnSessionError(c gatewaytypes.Context, e error) { f.h.OnSessionError(c, e) }

// ---- the stack under test -------------------------------------------------------------------------

type stack struct {
	in      input
	rec     *recorder
	srv     *core.Server
	factory *testkit.FakeTransportFactory
	proto   *c28Proto
	uc      *fakeMessages
	conns   []*testkit.FakeConn // index i drives session id i+1
	stopped atomic.Bool
	geo     [4]int
	lim     [2]int
	handle  *core.VerifC28Handle // the SEND runtime, still reachable after Server.Stop
}

func newStack(in input) *stack {
	st := &stack{in: in, rec: newRecorder()}
	st.proto = &c28Proto{rec: st.rec, ses: map[uint64]session.Session{}}
	st.uc = &fakeMessages{rec: st.rec}
	st.factory = testkit.NewFakeTransportFactory("fake")
	reg := core.NewRegistry()
	if err := reg.RegisterTransport(st.factory); err != nil {
		panic(err)
	}
	if err := reg.RegisterProtocol(st.proto); err != nil {
		panic(err)
	}
	h := accessgateway.New(accessgateway.Options{Messages: st.uc, SendTimeout: 5 * time.Second})
	var handler gatewaytypes.Handler = h
	if !in.Batch {
		handler = frameOnly{h: h}
	}
	closeOnErr := in.CloseOnErr
	wait := time.Duration(in.MaxWaitUs) * time.Microsecond
	if in.MaxWaitUs <= 0 {
		wait = -1
	}
	opts := &gatewaytypes.Options{
		Handler:  handler,
		Observer: &observer{rec: st.rec},
		DefaultSession: gatewaytypes.SessionOptions{
			IdleTimeout:              -1,
			AsyncSendBatchMaxWait:    wait,
			AsyncSendBatchMaxRecords: in.MaxRecords,
			AsyncSendBatchMaxBytes:   in.MaxBytes,
			CloseOnHandlerError:      &closeOnErr,
		},
		Runtime: gatewaytypes.RuntimeOptions{
			AsyncSendWorkers:        in.Workers,
			AsyncSendQueueCapacity:  in.Capacity,
			AsyncAuthWorkers:        1,
			AsyncAuthQueueCapacity:  1,
			AsyncPoolReleaseTimeout: 30 * time.Millisecond,
		},
		Listeners: []gatewaytypes.ListenerOptions{{Name: "l", Network: "tcp", Address: "c28", Transport: "fake", Protocol: "c28"}},
	}
	mr, mb, _ := core.VerifC28Limits(opts.DefaultSession)
	st.lim = [2]int{mr, mb}
	srv, err := core.NewServer(reg, opts)
	if err != nil {
		panic(err)
	}
	if err := srv.Start(); err != nil {
		panic(err)
	}
	st.srv = srv
	st.handle = srv.VerifC28Handle()
	for i := 0; i < in.Sessions; i++ {
		st.conns = append(st.conns, st.factory.MustOpen("l", uint64(i+1)))
	}
	return st
}

// emitSend delivers one burst of SEND frames on session index i (one OnData call)
// and records one sendRec per frame that reached dispatchSendFrameAsync.
func (st *stack) emitSend(i int, seq0 uint64, o op) int {
	var data bytes.Buffer
	n := o.N
	if n <= 0 {
		n = 1
	}
	at := func(xs []int, j int) int {
		if j < len(xs) && xs[j] > 0 {
			return xs[j]
		}
		return 0
	}
	sizes := make([]int, n)
	for j := 0; j < n; j++ {
		sizes[j] = at(o.Bytes, j)
		fail := at(o.Fail, j)
		if fail == 2 && !st.in.CloseOnErr {
			fail = 1 // without close-on-error the handler contract is: every item is acked
		}
		data.Write(encodeSend(seq0+uint64(j), sizes[j], at(o.Lat, j), fail, at(o.Ord, j)))
	}
	call := &sendCall{}
	id := goid()
	st.rec.mu.Lock()
	st.rec.cur[id] = call
	st.rec.mu.Unlock()
	t0 := st.rec.tick()
	_ = st.conns[i].EmitData(data.Bytes())
	t1 := st.rec.tick()
	st.rec.mu.Lock()
	delete(st.rec.cur, id)
	for j, acc := range call.results {
		st.rec.sends = append(st.rec.sends, sendRec{sid: uint64(i + 1), seq: seq0 + uint64(j), bytes: sizes[j], t0: t0, t1: t1, accepted: acc})
	}
	st.rec.mu.Unlock()
	return n
}

func (st *stack) push(sid, w, tag uint64) {
	s := st.proto.session(sid)
	if s == nil {
		return
	}
	t0 := st.rec.tick()
	err := s.WriteFrame(&frame.RecvPacket{MessageID: int64(w), MessageSeq: tag})
	t1 := st.rec.tick()
	st.rec.mu.Lock()
	st.rec.issues = append(st.rec.issues, issueRec{sid: sid, w: w, tag: tag, t0: t0, t1: t1, ok: err == nil})
	st.rec.mu.Unlock()
}

func (st *stack) drain(us int) bool {
	ctx := context.Background()
	var cancel context.CancelFunc
	if us > 0 {
		ctx, cancel = context.WithTimeout(ctx, time.Duration(us)*time.Microsecond)
	} else {
		ctx, cancel = context.WithTimeout(ctx, 10*time.Second)
	}
	defer cancel()
	t0 := st.rec.tick()
	err := st.srv.DrainSends(ctx)
	t1 := st.rec.tick()
	st.rec.mu.Lock()
	st.rec.drains = append(st.rec.drains, drainRec{t0: t0, t1: t1, ok: err == nil})
	st.rec.mu.Unlock()
	return err == nil
}

// drainCap is DrainSends bounded only by a safety cap.
func (st *stack) drainCap(limit time.Duration) bool {
	ctx, cancel := context.WithTimeout(context.Background(), limit)
	defer cancel()
	t0 := st.rec.tick()
	err := st.handle.DrainSends(ctx)
	t1 := st.rec.tick()
	st.rec.mu.Lock()
	st.rec.drains = append(st.rec.drains, drainRec{t0: t0, t1: t1, ok: err == nil})
	st.rec.mu.Unlock()
	return err == nil
}

func (st *stack) connClosed(i int) bool {
	select {
	case <-st.conns[i].CloseCh():
		return true
	default:
		return false
	}
}

// waitHandled waits until every accepted SEND has been handed to (and returned
// from) the usecase, or the bound expires.
func (st *stack) waitHandled(bound time.Duration) bool {
	end := time.Now().Add(bound)
	for {
		st.rec.mu.Lock()
		acc := 0
		for _, s := range st.rec.sends {
			if s.accepted {
				acc++
			}
		}
		done := st.rec.handled >= acc
		st.rec.mu.Unlock()
		if done {
			return true
		}
		if time.Now().After(end) {
			return false
		}
		time.Sleep(200 * time.Microsecond)
	}
}

func (st *stack) wires() []wireRec {
	var out []wireRec
	for _, c := range st.conns {
		for _, w := range c.Writes() {
			if len(w) != 32 {
				out = append(out, wireRec{sid: c.ID(), w: 1 << 41})
				continue
			}
			rec := wireRec{
				sid: c.ID(), w: binary.BigEndian.Uint64(w[8:]),
				tag: binary.BigEndian.Uint64(w[16:]), t: binary.BigEndian.Uint64(w[24:]),
			}
			if binary.BigEndian.Uint64(w[0:]) != c.ID() {
				rec.w = 1 << 42 // a frame encoded for another session reached this transport
			}
			out = append(out, rec)
		}
	}
	return out
}
