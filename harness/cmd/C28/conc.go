package main

import (
	"fmt"
	"strings"
	"sync"
	"time"

	"github.com/WuKongIM/WuKongIM/internal/verifh/vh"
	"github.com/WuKongIM/WuKongIM/pkg/gateway/core"
)

func (st *stack) cfgTerm() (term string, shards int) {
	_, shards, capacity, shardCap := st.geometry()
	maxRecords, maxBytes := st.limits()
	return vh.App("Cfg", natLit(st.in.Sessions+1), natLit(shards), vh.N(uint64(capacity)), vh.N(uint64(shardCap)),
		natLit(maxRecords), vh.N(uint64(maxBytes)), vh.B(st.in.CloseOnErr), vh.B(st.in.Batch)), shards
}

func (st *stack) histTerm(closed []int) string {
	r := st.rec
	sends := vh.ListOf(r.sends, func(s sendRec) string {
		return vh.App("HSend", natLit(int(s.sid)), vh.N(s.seq), vh.N(uint64(s.bytes)), vh.N(s.t0), vh.N(s.t1), vh.B(s.accepted))
	})
	var disps []string
	for _, b := range r.batches {
		for _, it := range b.items {
			disps = append(disps, vh.App("HDisp", natLit(int(it.sid)), vh.N(it.seq), vh.N(b.t1)))
		}
	}
	drains := vh.ListOf(r.drains, func(d drainRec) string { return vh.App("HDrain", vh.N(d.t0), vh.N(d.t1), vh.B(d.ok)) })
	issues := vh.ListOf(r.issues, func(i issueRec) string {
		return vh.App("HIssue", natLit(int(i.sid)), vh.N(i.w), vh.N(i.tag), vh.N(i.t0), vh.N(i.t1), vh.B(i.ok))
	})
	wire := vh.ListOf(st.wires(), func(w wireRec) string {
		return vh.App("HWire", natLit(int(w.sid)), vh.N(w.w), vh.N(w.tag), vh.N(w.t))
	})
	cl := vh.ListOf(closed, natLit)
	return vh.App("Hist", sends, vh.List(disps), drains, issues, wire,
		"(fun s => existsb (Nat.eqb s) "+cl+")")
}

func (st *stack) batchesTerm() string {
	return vh.ListOf(st.rec.batches, func(b batchRec) string {
		items := vh.ListOf(b.items, func(it itemRec) string {
			return fmt.Sprintf("(%s, %s, %s)", natLit(int(it.sid)), vh.N(it.seq), vh.N(uint64(it.bytes)))
		})
		return vh.App("HBatch", items, vh.N(b.t0), vh.N(b.t1))
	})
}

// finish: final drain (unless the server was stopped), wait for quiescence, snapshot.
// fdrain reports whether the DrainSends call issued in the final quiescent state
// (no deadline besides a 5 s safety cap) returned nil.
func (st *stack) finish(finalDrain bool) (closed []int, final, fdrain bool) {
	fdrain = true
	if finalDrain {
		// also after Server.Stop: the executor's terminal drain must still complete
		fdrain = st.drainCap(5 * time.Second)
	}
	final = true
	handled := st.waitHandled(3 * time.Second)
	if finalDrain && !fdrain && handled {
		// everything is handled now: the drain must be able to finish
		fdrain = st.drainCap(3 * time.Second)
	}
	for i := range st.conns {
		if st.connClosed(i) {
			closed = append(closed, i+1)
		}
	}
	return closed, final, fdrain
}

func (st *stack) geometry() (workers, shards, capacity, shardCap int) {
	if st.geo[1] == 0 {
		w, s, c, sc := st.srv.VerifC28Geometry()
		st.geo = [4]int{w, s, c, sc}
	}
	return st.geo[0], st.geo[1], st.geo[2], st.geo[3]
}

func (st *stack) limits() (maxRecords, maxBytes int) {
	return st.lim[0], st.lim[1]
}

func runConc(in input) vh.Result {
	if in.Sessions <= 0 {
		in.Sessions = 1
	}
	if in.Aux <= 0 {
		in.Aux = 1
	}
	st := newStack(in)
	st.geometry()
	threads := in.Sessions + in.Aux
	per := make([][]op, threads)
	for _, o := range in.Ops {
		if o.T >= 0 && o.T < threads {
			per[o.T] = append(per[o.T], o)
		}
	}
	var stopOnce sync.Once
	var wg sync.WaitGroup
	for t := 0; t < threads; t++ {
		wg.Add(1)
		go func(t int) {
			defer wg.Done()
			seq := uint64(1)
			for _, o := range per[t] {
				switch {
				case o.K == "sleep":
					spin(o.Us)
				case t < in.Sessions && o.K == "send":
					seq += uint64(st.emitSend(t, seq, o))
				case t < in.Sessions && o.K == "close":
					st.conns[t].EmitClose(nil)
				case t >= in.Sessions && o.K == "push":
					if o.S >= 0 && o.S < in.Sessions {
						st.push(uint64(o.S+1), uint64(t-in.Sessions+1), uint64(o.Tag))
					}
				case t >= in.Sessions && o.K == "drain":
					st.drain(o.Us)
				case t >= in.Sessions && o.K == "stop":
					stopOnce.Do(func() {
						st.stopped.Store(true)
						_ = st.srv.Stop()
					})
				}
			}
		}(t)
	}
	wg.Wait()
	closed, final, fdrain := st.finish(true)
	cfg, _ := st.cfgTerm()
	workers, _, _, _ := st.geometry()
	hist := st.histTerm(closed)
	batches := st.batchesTerm()
	_ = st.srv.Stop()

	r := st.rec
	nAcc, nRej, multi, xsess, toDrain, okDrain, bErr := 0, 0, false, false, false, false, false
	for _, s := range r.sends {
		if s.accepted {
			nAcc++
		} else {
			nRej++
		}
	}
	for _, b := range r.batches {
		if len(b.items) > 1 {
			multi = true
			for _, it := range b.items[1:] {
				if it.sid != b.items[0].sid {
					xsess = true
				}
			}
		}
		if b.res != 0 {
			bErr = true
		}
	}
	for _, d := range r.drains[:max(0, len(r.drains)-1)] {
		if d.ok {
			okDrain = true
		} else {
			toDrain = true
		}
	}
	satRej, openAcked := false, false
	firstDrain := ^uint64(0)
	for _, d := range r.drains {
		if d.t0 < firstDrain {
			firstDrain = d.t0
		}
	}
	for _, s := range r.sends {
		if !s.accepted && s.t1 < firstDrain && !st.stopped.Load() {
			satRej = true
		}
	}
	isClosed := map[uint64]bool{}
	for _, c := range closed {
		isClosed[uint64(c)] = true
	}
	for _, s := range r.sends {
		if s.accepted && !isClosed[s.sid] {
			openAcked = true
		}
	}
	drainClass := "none"
	switch {
	case toDrain && okDrain:
		drainClass = "ok+timeout"
	case toDrain:
		drainClass = "timeout"
	case okDrain:
		drainClass = "ok"
	}
	var flags []string
	for _, f := range []struct {
		on bool
		s  string
	}{{satRej, "saturated"}, {multi, "multi"}, {xsess, "xsess"}, {bErr, "herr"},
		{st.stopped.Load(), "stop"}, {openAcked, "open"}} {
		if f.on {
			flags = append(flags, f.s)
		}
	}
	flags = append([]string{"drain=" + drainClass}, flags...)
	mode := "frame"
	if in.Batch {
		mode = "batch"
	}
	return vh.Result{
		Coq: vh.App("C28Case", vh.App("KConc", cfg, vh.N(uint64(workers)), vh.N(uint64(core.VerifC28Consts())),
			vh.B(final), vh.B(fdrain), hist, batches, vh.N(uint64(r.maxDepth)))),
		Obs: map[string]any{"sends": len(r.sends), "accepted": nAcc, "rejected": nRej, "batches": len(r.batches),
			"drains": fmt.Sprint(r.drains), "closed": closed, "max_depth": r.maxDepth},
		Class:   "conc," + mode + "," + strings.Join(flags, "+"),
		Trivial: nAcc < 2,
	}
}
