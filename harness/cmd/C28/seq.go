package main

import (
	"fmt"
	"math/rand/v2"
	"time"

	"github.com/WuKongIM/WuKongIM/internal/verifh/vh"
	"github.com/WuKongIM/WuKongIM/pkg/gateway/core"
)

// Sequential (gated) mode: a single driver performs one operation at a time and
// every SendBatchEach call of the fake usecase blocks at a gate until the driver
// releases it, so the interleaving of the executor's atomic steps is known. The
// driver emits that interleaving as the model's event list; the model run on it
// must reproduce the observed history (C28_mismatch, KSeq).

func genSeq(r *rand.Rand, tier string) input {
	in := input{Kind: "seq"}
	in.Workers = vh.Pick(r, 1, 1, 2, 3)
	in.Capacity = vh.Pick(r, 1, 2, 3, 4, 6, 8, 12, 16)
	in.MaxRecords = vh.Pick(r, 1, 2, 3, 4, 128)
	in.MaxBytes = vh.Pick(r, 4, 16, 64, 1000)
	in.MaxWaitUs = 0
	in.Sessions = 1 + r.IntN(5)
	in.Aux = 1
	in.Batch = r.IntN(5) != 0
	in.CloseOnErr = r.IntN(5) != 0
	n := 10 + r.IntN(40)
	if tier == "thorough" {
		n = 10 + r.IntN(90)
	}
	midDrain := r.IntN(100) < 40
	for j := 0; j < n; j++ {
		switch x := r.IntN(100); {
		case x < 52:
			o := genSend(r, &in, r.IntN(in.Sessions), false)
			for i := range o.Lat {
				o.Lat[i], o.Ord[i] = 0, 0
				o.Fail[i] = 0
			}
			in.Ops = append(in.Ops, o)
		case x < 84:
			in.Ops = append(in.Ops, op{K: "release", S: r.IntN(8), N: r.IntN(8) / 7})
		case x < 87:
			in.Ops = append(in.Ops, op{T: r.IntN(in.Sessions), K: "close"})
		case x < 94:
			in.Ops = append(in.Ops, op{K: "push", S: r.IntN(in.Sessions), Tag: j + 1})
		default:
			if j > n/2 && midDrain {
				midDrain = false
				in.Ops = append(in.Ops, op{K: "drain"})
			}
		}
	}
	return in
}

type arrival struct {
	items   []itemRec
	release chan gateInstr
}

type mbatch struct {
	n       int // items of the current mailbox batch
	handled int // items of it whose handler call has returned
}

type seqDriver struct {
	st       *stack
	evs      []string
	shards   int
	maxrec   int
	arrivals chan *arrival
	done     chan struct{}
	pend     [][]itemRec      // per shard: accepted, not yet collected
	cur      []*mbatch        // per shard: mailbox batch being dispatched
	blocked  []*arrival       // per shard: handler call waiting at the gate
	closed   map[uint64]bool  // sessions the model should regard as closed
	drainSet bool             // admission closed by a DrainSends call
	lastDrainOK bool
	seqNo    []uint64
}

func (d *seqDriver) ev(format string, a ...any) { d.evs = append(d.evs, fmt.Sprintf(format, a...)) }

func (d *seqDriver) shardOf(sid uint64) int { return core.VerifC28ShardIndex(sid, d.shards) }

func (d *seqDriver) busy() int {
	n := 0
	for k := range d.cur {
		if d.cur[k] != nil {
			n++
		}
	}
	return n
}

func (d *seqDriver) outstanding() int {
	n := 0
	for k := range d.pend {
		n += len(d.pend[k])
		if d.cur[k] != nil {
			n += d.cur[k].n // admission is released only after the whole batch
		}
	}
	return n
}

func (d *seqDriver) waitArrival(k int) {
	select {
	case a := <-d.arrivals:
		ak := d.shardOf(a.items[0].sid)
		if ak != k {
			panic(fmt.Sprintf("seq driver: handler call for shard %d while expecting shard %d", ak, k))
		}
		d.blocked[k] = a
	case <-time.After(20 * time.Second):
		panic(fmt.Sprintf("seq driver: no handler call for shard %d within 20s (accepted work is stuck)", k))
	}
}

// startBatch emits the worker steps that form a new mailbox batch on shard k
// (fromIdle: the drain was just scheduled) and waits for its first handler call.
func (d *seqDriver) startBatch(k int, fromIdle bool) {
	n := len(d.pend[k])
	if n > d.maxrec {
		n = d.maxrec
	}
	if fromIdle {
		d.ev("EWork %s CGo", natLit(k)) // WPending -> WNext
	}
	d.ev("EWork %s CGo", natLit(k)) // nextItem
	for i := 1; i < n; i++ {
		d.ev("EWork %s CGo", natLit(k)) // collectBatch takes one more
	}
	if n < d.maxrec {
		d.ev("EWork %s CStop", natLit(k)) // queue empty, no wait
	} else {
		d.ev("EWork %s CGo", natLit(k)) // batch full
	}
	d.ev("EWork %s CGo", natLit(k)) // consumeShard
	d.ev("EWork %s CGo", natLit(k)) // consume + split
	d.pend[k] = d.pend[k][n:]
	d.cur[k] = &mbatch{n: n}
	d.waitArrival(k)
}

func (d *seqDriver) send(o op) {
	i := o.T
	if i < 0 || i >= d.st.in.Sessions {
		return
	}
	sid := uint64(i + 1)
	k := d.shardOf(sid)
	idle := d.cur[k] == nil
	if idle {
		if d.busy() >= d.st.in.Workers {
			return // its drain could not start while every worker is parked at the gate
		}
		o.N = 1 // a burst would race with the freshly scheduled drain
	}
	o.Lat, o.Fail, o.Ord = nil, nil, nil // failures are decided by the release operations
	nrec := len(d.st.rec.sends)
	n := d.st.emitSend(i, d.seqNo[i], o)
	for j := 0; j < n; j++ {
		b := 0
		if j < len(o.Bytes) && o.Bytes[j] > 0 {
			b = o.Bytes[j]
		}
		d.ev("ESend %s %d", natLit(int(sid)), b)
		for x := 0; x < 8; x++ {
			d.ev("ESub %s", natLit(int(sid)))
		}
	}
	d.seqNo[i] += uint64(n)
	for _, s := range d.st.rec.sends[nrec:] {
		if s.accepted {
			d.pend[k] = append(d.pend[k], itemRec{sid: s.sid, seq: s.seq, bytes: s.bytes})
		} else {
			d.closed[s.sid] = true
		}
	}
	if idle && len(d.pend[k]) > 0 {
		d.startBatch(k, true)
	}
}

func (d *seqDriver) waitClosed(sid uint64) {
	end := time.Now().Add(20 * time.Second)
	for !d.st.connClosed(int(sid - 1)) {
		if time.Now().After(end) {
			panic(fmt.Sprintf("seq driver: session %d was not closed after a handler error", sid))
		}
		time.Sleep(50 * time.Microsecond)
	}
}

// release lets the handler call parked on shard k run to completion.
func (d *seqDriver) release(k int, fail bool) {
	a := d.blocked[k]
	if a == nil {
		return
	}
	if !d.st.in.CloseOnErr {
		fail = false
	}
	d.blocked[k] = nil
	failAt := -1 // index of the first item whose SENDACK write fails (closed session)
	if !fail {
		for j, it := range a.items {
			if d.closed[it.sid] {
				failAt = j
				break
			}
		}
	}
	a.release <- gateInstr{fail: fail}
	select {
	case <-d.done:
	case <-time.After(20 * time.Second):
		panic("seq driver: released handler call did not return within 20s")
	}
	switch {
	case fail:
		d.ev("EWork %s CFail", natLit(k))
	case failAt >= 0:
		for j := 0; j < failAt; j++ {
			d.ev("EWork %s CGo", natLit(k))
		}
		d.ev("EWork %s CFail", natLit(k))
	default:
		for range a.items {
			d.ev("EWork %s CGo", natLit(k))
		}
		d.ev("EWork %s CGo", natLit(k)) // handler returned nil
	}
	if fail || failAt >= 0 {
		// handleHandlerError closes the distinct sessions of the unit
		if d.st.in.CloseOnErr {
			seen := map[uint64]bool{}
			for _, it := range a.items {
				if !seen[it.sid] {
					seen[it.sid] = true
					d.ev("EWork %s CGo", natLit(k))
					d.closed[it.sid] = true
					d.waitClosed(it.sid)
				}
			}
		}
		d.ev("EWork %s CGo", natLit(k)) // give up the rest of the unit, advance
	}
	mb := d.cur[k]
	mb.handled += len(a.items)
	if mb.handled < mb.n {
		d.waitArrival(k) // next unit of the same mailbox batch
		return
	}
	// batch finished: one completeAdmission per item, then nextItem
	for j := 0; j <= mb.n; j++ {
		d.ev("EWork %s CGo", natLit(k))
	}
	d.cur[k] = nil
	if len(d.pend[k]) > 0 {
		d.startBatch(k, false)
		return
	}
	d.ev("EWork %s CGo", natLit(k)) // nextItem: empty -> finishShardDrain
	d.ev("EWork %s CGo", natLit(k)) // finishShardDrain: idle
}

func (d *seqDriver) drainOp() {
	d.ev("EDrainCall 0%%nat false")
	d.ev("EDrain 0%%nat false")
	d.ev("EDrain 0%%nat false")
	if d.outstanding() == 0 {
		d.lastDrainOK = d.st.drain(0)
		d.ev("EWaiter")
		d.ev("EDrain 0%%nat false")
	} else {
		d.st.drain(1000)
		d.ev("EDrain 0%%nat true")
	}
	d.drainSet = true
}

func runSeq(in input) vh.Result {
	if in.Sessions <= 0 {
		in.Sessions = 1
	}
	in.MaxWaitUs = 0
	st := newStack(in)
	_, shards, _, _ := st.geometry()
	maxrec, _ := st.limits()
	d := &seqDriver{st: st, shards: shards, maxrec: maxrec,
		arrivals: make(chan *arrival, 64), done: make(chan struct{}, 64),
		pend: make([][]itemRec, shards), cur: make([]*mbatch, shards), blocked: make([]*arrival, shards),
		closed: map[uint64]bool{}, seqNo: make([]uint64, in.Sessions)}
	for i := range d.seqNo {
		d.seqNo[i] = 0
	}
	st.uc.gate = func(b *batchRec) gateInstr {
		a := &arrival{items: append([]itemRec(nil), b.items...), release: make(chan gateInstr, 1)}
		d.arrivals <- a
		return <-a.release
	}
	st.uc.done = d.done

	releases, fails := 0, 0
	blockedShards := func() []int {
		var out []int
		for k := range d.blocked {
			if d.blocked[k] != nil {
				out = append(out, k)
			}
		}
		return out
	}
	for _, o := range in.Ops {
		switch o.K {
		case "send":
			d.send(o)
		case "release":
			if bs := blockedShards(); len(bs) > 0 {
				releases++
				if o.N != 0 {
					fails++
				}
				d.release(bs[o.S%len(bs)], o.N != 0)
			}
		case "close":
			if o.T >= 0 && o.T < in.Sessions {
				st.conns[o.T].EmitClose(nil)
				d.ev("EClose %s", natLit(o.T+1))
				d.closed[uint64(o.T+1)] = true
			}
		case "push":
			if o.S >= 0 && o.S < in.Sessions {
				st.push(uint64(o.S+1), 1, uint64(o.Tag))
				d.ev("EPush %s 1 %d", natLit(o.S+1), o.Tag)
			}
		case "drain":
			d.drainOp()
		}
	}
	for bs := blockedShards(); len(bs) > 0; bs = blockedShards() {
		d.release(bs[0], false)
	}
	d.drainOp()
	closed, final, _ := st.finish(false)
	queued, shq, _ := st.srv.VerifC28Depths()
	cfg, _ := st.cfgTerm()
	hist := st.histTerm(closed)
	_ = st.srv.Stop()

	shqN := make([]uint64, len(shq))
	for i, v := range shq {
		shqN[i] = uint64(v)
	}
	nAcc, nRej, multi := 0, 0, false
	for _, s := range st.rec.sends {
		if s.accepted {
			nAcc++
		} else {
			nRej++
		}
	}
	for _, b := range st.rec.batches {
		if len(b.items) > 1 {
			multi = true
		}
	}
	mode := "frame"
	if in.Batch {
		mode = "batch"
	}
	return vh.Result{
		Coq: vh.App("C28Case", vh.App("KSeq", cfg, vh.List(d.evs), vh.B(final), vh.B(d.lastDrainOK), hist, vh.N(uint64(queued)), vh.NList(shqN))),
		Obs: map[string]any{"sends": len(st.rec.sends), "accepted": nAcc, "rejected": nRej, "batches": len(st.rec.batches),
			"events": len(d.evs), "closed": closed},
		Class:   fmt.Sprintf("seq,%s,shards=%s,reject=%v,multi=%v,herr=%v,middrain=%v", mode, bucket(shards), nRej > 0, multi, fails > 0, len(st.rec.drains) > 1),
		Trivial: nAcc < 2,
	}
}
