package main

import (
	"context"
	"fmt"
	"math/rand/v2"
	"sync/atomic"
	"time"

	"github.com/WuKongIM/WuKongIM/internal/runtime/channelappend"
	"github.com/WuKongIM/WuKongIM/internal/verifh/vh"
)

// ---- kind "gated": slow appends, writer reclaim, pipelined sends -----------------------
//
// Ops (one goroutine): "hold" arms a gate on channel T (its next append stays in
// flight until "release"); "sub" hands one batch to Group.SubmitLocal without
// waiting (stamped at admission); "sleep" N ms; "release"; "wait".

func genGated(r *rand.Rand, tier string) input {
	in := input{Kind: "gated", Channels: 2 + r.IntN(2), Shards: 1, RetentionMS: 2 + r.IntN(6)}
	held := r.IntN(in.Channels)
	other := (held + 1 + r.IntN(in.Channels-1)) % in.Channels
	cno := 0
	batch := func(ch, n int) op {
		o := op{K: "sub"}
		for k := 0; k < n; k++ {
			cno++
			it := item{Ch: ch, UID: vh.Pick(r, "u1", "u2"), Pay: fmt.Sprintf("m%d", cno)}
			if r.IntN(4) != 0 {
				it.CNo = fmt.Sprintf("c%d", cno)
			}
			o.Items = append(o.Items, it)
		}
		return o
	}
	if r.IntN(5) == 0 { // the other channel's writer exists already: no creation later, no sweep
		in.Ops = append(in.Ops, batch(other, 1), op{K: "wait"})
	}
	if r.IntN(6) != 0 {
		in.Ops = append(in.Ops, op{K: "hold", T: held})
	}
	in.Ops = append(in.Ops, batch(held, 1+r.IntN(2)))
	for k := r.IntN(3); k > 0; k-- {
		in.Ops = append(in.Ops, batch(held, 1+r.IntN(2)))
	}
	in.Ops = append(in.Ops, op{K: "sleep", N: in.RetentionMS*3 + 10 + r.IntN(20)})
	in.Ops = append(in.Ops, batch(other, 1+r.IntN(2)))
	for k := 1 + r.IntN(2); k > 0; k-- {
		in.Ops = append(in.Ops, batch(held, 1+r.IntN(2)))
	}
	in.Ops = append(in.Ops, op{K: "sleep", N: 15 + r.IntN(25)}, op{K: "release"}, op{K: "wait"})
	if r.IntN(3) == 0 {
		in.Ops = append(in.Ops, batch(held, 1), batch(other, 1))
	}
	return in
}

func runGated(in input) vh.Result {
	var ticket atomic.Uint64
	node := newFakeNode(&ticket)
	defer node.close()
	appender, idem := node.ports()
	cn := caseNo.Add(1)
	if in.Channels < 1 {
		in.Channels = 1
	}
	opts := channelappend.Options{
		LocalNodeID: 1, Appender: appender, Idempotency: idem, MessageID: midAlloc{},
		AuthorityShardCount: 1, EffectPoolSize: 4, AdvancePoolSize: 2,
		InboxCoalesceWindow: -1, InboxCoalesceMaxItems: -1,
	}
	if in.RetentionMS > 0 {
		opts.WriterIdleRetention = time.Duration(in.RetentionMS) * time.Millisecond
	}
	group := channelappend.New(opts)
	if err := group.Start(context.Background()); err != nil {
		panic(err)
	}
	chName := func(c int) string { return fmt.Sprintf("g%d_%d", cn, ((c%in.Channels)+in.Channels)%in.Channels) }
	type pend struct {
		rc  callRec
		fut *channelappend.Future
		err error
	}
	var pends []pend
	var calls []callRec
	waitAll := func() {
		node.releaseAll()
		for _, pd := range pends {
			rc := pd.rc
			if pd.err != nil {
				rc.results = make([]channelappend.SendBatchItemResult, len(rc.items))
				for k := range rc.results {
					rc.results[k].Err = pd.err
				}
			} else {
				ctx, cancel := context.WithTimeout(context.Background(), 20*time.Second)
				res, err := pd.fut.Wait(ctx)
				cancel()
				if err != nil {
					panic("gated: a submitted batch never completed: " + err.Error())
				}
				rc.results = res
			}
			calls = append(calls, rc)
		}
		pends = nil
	}
	var tag uint64
	held, slept, reclaimSweep := false, false, false
	seen := map[int]bool{}
	for j, o := range in.Ops {
		switch o.K {
		case "hold":
			node.arm(chName(o.T))
			held = true
		case "sleep":
			n := o.N
			if n > 100 {
				n = 100
			}
			if n > 0 {
				time.Sleep(time.Duration(n) * time.Millisecond)
				slept = true
			}
		case "release":
			node.releaseAll()
		case "wait":
			waitAll()
		case "sub":
			if len(o.Items) == 0 {
				continue
			}
			ch := ((o.Items[0].Ch % in.Channels) + in.Channels) % in.Channels
			if !seen[ch] && held && slept {
				reclaimSweep = true
			}
			seen[ch] = true
			target := channelappend.AuthorityTarget{ChannelID: channelappend.ChannelID{ID: chName(ch), Type: 2}, LeaderNodeID: 1, Epoch: 1, LeaderEpoch: 1}
			rc := callRec{id: j}
			items := make([]channelappend.SendBatchItem, 0, len(o.Items))
			for _, it := range o.Items {
				it.Ch = ch
				rc.items = append(rc.items, it)
				rc.tags = append(rc.tags, tag)
				items = append(items, channelappend.SendBatchItem{Context: context.Background(), Command: channelappend.SendCommand{
					FromUID: it.UID, ClientMsgNo: it.CNo, ChannelID: chName(ch), ChannelType: 2,
					Payload: []byte(it.Pay), TraceID: fmt.Sprintf("t%d", tag),
				}})
				tag++
			}
			rc.start = ticket.Add(1)
			fut, err := group.SubmitLocal(context.Background(), target, items)
			rc.end = ticket.Add(1)
			pends = append(pends, pend{rc: rc, fut: fut, err: err})
			if g := node.gateOf(chName(ch)); g != nil && err == nil {
				// the held channel: let the append reach the node (or, behind it, let the writer admit the batch)
				select {
				case <-g.blocked:
				case <-time.After(3 * time.Second):
				}
				time.Sleep(2 * time.Millisecond)
			}
		}
	}
	waitAll()
	ctx, cancel := context.WithTimeout(context.Background(), 20*time.Second)
	if err := group.Stop(ctx); err != nil {
		cancel()
		panic("group.Stop did not drain: " + err.Error())
	}
	cancel()
	st := histResult(calls, node, chName, in.Channels, true)
	st.res.Class = fmt.Sprintf("gated,held=%v,sweep-while-in-flight=%v,succ=%v,err=%v", held, reclaimSweep, st.nSucc > 0, st.nErr > 0)
	return st.res
}

// ---- kind "idle": channelWriter.idleExpired on scripted writer states --------------------

type idleRow struct {
	Inbox     int   `json:"inbox,omitempty"`
	Pending   int   `json:"pending,omitempty"`
	Inflight  int   `json:"inflight,omitempty"`
	Ready     bool  `json:"ready,omitempty"`
	Completed int   `json:"completed,omitempty"`
	Scheduled bool  `json:"scheduled,omitempty"`
	Limit     int   `json:"limit,omitempty"`
	IdleAt    int64 `json:"idle_at,omitempty"`
	Now       int64 `json:"now,omitempty"`
	Retention int64 `json:"retention,omitempty"`
}

func genIdle(r *rand.Rand, tier string) input {
	in := input{Kind: "idle"}
	for k := 0; k < 12+r.IntN(20); k++ {
		row := idleRow{Limit: vh.Pick(r, 0, 1, 1, 2), Retention: vh.Pick(r, int64(0), -5, 10, 10, 50), Scheduled: r.IntN(6) == 0}
		if r.IntN(3) != 0 {
			row.IdleAt = int64(1 + r.IntN(100))
		}
		row.Now = row.IdleAt + int64(r.IntN(80)) - 10
		if row.Now < 0 {
			row.Now = 0
		}
		switch r.IntN(8) {
		case 0:
			row.Inbox = 1 + r.IntN(2)
		case 1:
			row.Pending = 1 + r.IntN(3)
		case 2:
			row.Inflight = 1 + r.IntN(2)
		case 3: // an append in flight with sends queued behind it: nothing runnable, work pending
			row.Inflight, row.Pending = vh.Pick(r, 1, 2), r.IntN(3)
		case 4:
			row.Ready = true
		case 5:
			row.Completed = 1 + r.IntN(2)
		}
		in.Rows = append(in.Rows, row)
		in.Ops = append(in.Ops, op{K: "row", N: k})
	}
	return in
}

func runIdle(in input) vh.Result {
	var rows []string
	busyReclaimable, expired := 0, 0
	for _, o := range in.Ops {
		if o.K != "row" || o.N < 0 || o.N >= len(in.Rows) {
			continue
		}
		row := in.Rows[o.N]
		got := channelappend.VerifC29IdleExpired(channelappend.VerifC29IdleState{
			Inbox: row.Inbox, Pending: row.Pending, Inflight: row.Inflight, Ready: row.Ready, Completed: row.Completed,
			Scheduled: row.Scheduled, Limit: row.Limit, IdleAt: row.IdleAt, Now: row.Now, Retention: row.Retention,
		})
		if got {
			expired++
			if row.Inbox+row.Pending+row.Inflight+row.Completed > 0 || row.Ready {
				busyReclaimable++
			}
		}
		rows = append(rows, vh.App("IdleRow", vh.N(uint64(max0(row.Inbox))), vh.N(uint64(max0(row.Pending))), vh.N(uint64(max0(row.Inflight))),
			vh.B(row.Ready), vh.N(uint64(max0(row.Completed))), vh.B(row.Scheduled), vh.Z(int64(row.Limit)),
			vh.Z(row.IdleAt), vh.Z(row.Now), vh.Z(row.Retention), vh.B(got)))
	}
	return vh.Result{
		Coq:     vh.App("C29Idle", vh.List(rows)),
		Obs:     map[string]any{"rows": len(rows), "expired": expired},
		Class:   fmt.Sprintf("idle,expired=%v,busy-reclaimable=%v", expired > 0, busyReclaimable > 0),
		Trivial: len(rows) == 0,
	}
}

func max0(x int) int {
	if x < 0 {
		return 0
	}
	return x
}
