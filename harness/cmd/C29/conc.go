package main

import (
	"context"
	"fmt"
	"math/rand/v2"
	"sort"
	"sync"
	"sync/atomic"
	"time"

	"github.com/WuKongIM/WuKongIM/internal/runtime/channelappend"
	"github.com/WuKongIM/WuKongIM/internal/verifh/vh"
)

// ---- kind "conc": concurrent Router.SendBatch over channelappend.Group --------------

func genConc(r *rand.Rand, tier string) input {
	in := input{
		Kind:      "conc",
		Threads:   2 + r.IntN(4),
		Channels:  1 + r.IntN(3),
		Seed:      r.Uint64(),
		FaultRate: vh.Pick(r, 0, 10, 25, 40),
		MaxLatUS:  vh.Pick(r, 0, 200, 1500),
		Limit:     vh.Pick(r, 0, 0, 1, 1, 2, 3),
		HW:        vh.Pick(r, 0, 0, 0, 3, 8),
		Admission: vh.Pick(r, 0, 0, 0, 2),
		Shards:    vh.Pick(r, 1, 4),
		Pool:      vh.Pick(r, 0, 1, 4),
		Coalesce:  r.IntN(3) != 0,
	}
	if r.IntN(3) == 0 {
		in.RetentionMS, in.Shards = 1, 1
	}
	n := 8 + r.IntN(25)
	if tier == "thorough" {
		n = 8 + r.IntN(50)
	}
	keyless := vh.Pick(r, 0.0, 0.1, 0.3)
	var hist []item
	stopAt := -1
	if r.IntN(6) == 0 {
		stopAt = n/2 + r.IntN(n/2+1)
	}
	for j := 0; j < n; j++ {
		if j == stopAt {
			in.Ops = append(in.Ops, op{K: "stop", T: r.IntN(in.Threads)})
			continue
		}
		o := op{K: "send", T: r.IntN(in.Threads)}
		if r.IntN(4) == 0 {
			// pipelined submission: several batches handed to the channel writer back to
			// back (SubmitLocal) before any result is awaited
			o.K, o.N = "pipe", 2+r.IntN(3)
		}
		m := 1 + r.IntN(4)
		if r.IntN(8) == 0 {
			m = 5 + r.IntN(6)
		}
		for k := 0; k < m; k++ {
			var it item
			switch x := r.IntN(10); {
			case x < 3 && len(hist) > 0:
				it = hist[r.IntN(len(hist))] // retry: same key, same payload (possibly racing the original)
			case x < 4 && len(hist) > 0:
				it = hist[r.IntN(len(hist))]
				it.Pay = it.Pay + "x" // key reuse with a different payload
			default:
				it = genItem(r, in.Channels, keyless)
				if it.UID == "" {
					it.UID = "u1" // the router rejects empty senders before routing
				}
			}
			o.Items = append(o.Items, it)
			hist = append(hist, it)
		}
		if o.K == "pipe" {
			for k := range o.Items {
				o.Items[k].Ch = o.Items[0].Ch // one channel: the order of admission is the order of the calls
			}
		}
		in.Ops = append(in.Ops, o)
	}
	return in
}

type staticResolver struct{ fenced bool }

func (s staticResolver) ResolveAppendAuthority(_ context.Context, id channelappend.ChannelID) (channelappend.AuthorityTarget, error) {
	return channelappend.AuthorityTarget{ChannelID: id, LeaderNodeID: 1, Epoch: 1, LeaderEpoch: 1, WriteFenced: s.fenced}, nil
}

type noopPersistAfter struct{ n atomic.Uint64 }

func (p *noopPersistAfter) EnqueuePersistAfter(context.Context, channelappend.CommittedEnvelope) {
	p.n.Add(1)
}

type callRec struct {
	id         int
	start, end uint64
	items      []item
	tags       []uint64
	results    []channelappend.SendBatchItemResult
}

func runConc(in input) vh.Result {
	var ticket atomic.Uint64
	node := newFakeNode(&ticket)
	defer node.close()
	node.random, node.seed, node.faultRate, node.maxLatUS = true, in.Seed, in.FaultRate, in.MaxLatUS
	appender, idem := node.ports()
	cn := caseNo.Add(1)
	if in.Threads < 1 {
		in.Threads = 1
	}
	if in.Channels < 1 {
		in.Channels = 1
	}
	opts := channelappend.Options{
		LocalNodeID: 1, Appender: appender, Idempotency: idem, MessageID: midAlloc{},
		AuthorityShardCount: in.Shards, AdvancePoolSize: in.Pool, EffectPoolSize: in.Pool,
		AppendInflightBatchesPerChannel: in.Limit, ChannelBacklogHighWatermark: in.HW,
		AdmissionCapacityPerShard: in.Admission,
	}
	if in.RetentionMS > 0 {
		// idle writers are reclaimed almost at once: the sweep in shard.getOrCreate runs all the time
		opts.WriterIdleRetention = time.Duration(in.RetentionMS) * time.Millisecond
	}
	if !in.Coalesce {
		opts.InboxCoalesceWindow, opts.InboxCoalesceMaxItems = -1, -1
	}
	postCommit := in.Seed%3 == 0
	if postCommit {
		opts.PersistAfterEnqueuer = &noopPersistAfter{}
	}
	group := channelappend.New(opts)
	if err := group.Start(context.Background()); err != nil {
		panic(err)
	}
	router := channelappend.NewRouter(channelappend.RouterOptions{LocalNodeID: 1, Resolver: staticResolver{fenced: in.Seed%7 == 0}, Local: group})

	chName := func(c int) string { return fmt.Sprintf("k%d_%d", cn, c%in.Channels) }
	perThread := make([][]int, in.Threads)
	tagBase := make([]uint64, len(in.Ops))
	var tag uint64
	for j, o := range in.Ops {
		t := o.T
		if t < 0 || t >= in.Threads {
			t = 0
		}
		perThread[t] = append(perThread[t], j)
		tagBase[j] = tag
		tag += uint64(len(o.Items))
	}
	var mu sync.Mutex
	var calls []callRec
	stopped := false
	piped := false
	for _, o := range in.Ops {
		if o.K == "pipe" {
			piped = true
		}
	}
	var wg sync.WaitGroup
	for t := 0; t < in.Threads; t++ {
		wg.Add(1)
		go func(t int) {
			defer wg.Done()
			for _, j := range perThread[t] {
				o := in.Ops[j]
				switch o.K {
				case "stop":
					ctx, cancel := context.WithTimeout(context.Background(), 20*time.Second)
					_ = group.Stop(ctx)
					cancel()
					mu.Lock()
					stopped = true
					mu.Unlock()
				case "pipe":
					// split the items into o.N consecutive sub-batches, submit them all, then wait
					nb := o.N
					if nb < 1 {
						nb = 1
					}
					if nb > len(o.Items) {
						nb = len(o.Items)
					}
					if nb == 0 {
						continue
					}
					ch := o.Items[0].Ch
					target := channelappend.AuthorityTarget{ChannelID: channelappend.ChannelID{ID: chName(ch), Type: 2}, LeaderNodeID: 1, Epoch: 1, LeaderEpoch: 1}
					type pend struct {
						rc  callRec
						fut *channelappend.Future
						err error
					}
					var pends []pend
					per := (len(o.Items) + nb - 1) / nb
					for k0, sub := 0, 0; k0 < len(o.Items); k0, sub = k0+per, sub+1 {
						k1 := k0 + per
						if k1 > len(o.Items) {
							k1 = len(o.Items)
						}
						items := make([]channelappend.SendBatchItem, 0, k1-k0)
						rc := callRec{id: 1000*(j+1) + sub}
						for k := k0; k < k1; k++ {
							it := o.Items[k]
							tg := tagBase[j] + uint64(k)
							rc.items = append(rc.items, it)
							rc.tags = append(rc.tags, tg)
							items = append(items, channelappend.SendBatchItem{Context: context.Background(), Command: channelappend.SendCommand{
								FromUID: it.UID, ClientMsgNo: it.CNo, ChannelID: chName(ch), ChannelType: 2,
								Payload: []byte(it.Pay), TraceID: fmt.Sprintf("t%d", tg),
							}})
						}
						rc.start = ticket.Add(1)
						fut, err := group.SubmitLocal(context.Background(), target, items)
						rc.end = ticket.Add(1) // admitted (or refused): later calls are submitted after this one
						pends = append(pends, pend{rc: rc, fut: fut, err: err})
						if in.MaxLatUS > 0 {
							// let the writer issue the effect of this sub-batch before the next one arrives
							time.Sleep(time.Duration(mix(in.Seed, uint64(j), uint64(sub))%400) * time.Microsecond)
						}
					}
					for _, pd := range pends {
						rc := pd.rc
						if pd.err != nil {
							rc.results = make([]channelappend.SendBatchItemResult, len(rc.items))
							for k := range rc.results {
								rc.results[k].Err = pd.err
							}
						} else {
							res, err := pd.fut.Wait(context.Background())
							if err != nil {
								panic(err)
							}
							rc.results = res
						}
						mu.Lock()
						calls = append(calls, rc)
						mu.Unlock()
					}
				case "send":
					items := make([]channelappend.SendBatchItem, len(o.Items))
					tags := make([]uint64, len(o.Items))
					for k, it := range o.Items {
						tags[k] = tagBase[j] + uint64(k)
						items[k] = channelappend.SendBatchItem{Context: context.Background(), Command: channelappend.SendCommand{
							FromUID: it.UID, ClientMsgNo: it.CNo, ChannelID: chName(it.Ch), ChannelType: 2,
							Payload: []byte(it.Pay), TraceID: fmt.Sprintf("t%d", tags[k]),
						}}
					}
					rc := callRec{id: j, items: o.Items, tags: tags}
					rc.start = ticket.Add(1)
					rc.results = router.SendBatch(items)
					rc.end = ticket.Add(1)
					mu.Lock()
					calls = append(calls, rc)
					mu.Unlock()
				}
			}
		}(t)
	}
	wg.Wait()
	ctx, cancel := context.WithTimeout(context.Background(), 20*time.Second)
	if err := group.Stop(ctx); err != nil {
		cancel()
		panic("group.Stop did not drain: " + err.Error())
	}
	cancel()
	limit := in.Limit
	if limit <= 0 {
		limit = 1
	}
	st := histResult(calls, node, chName, in.Channels, limit <= 1)
	st.res.Class = fmt.Sprintf("conc,limit=%d,succ=%v,dup=%v,err=%v,busy=%v,stop=%v,postcommit=%v,pipe=%v,ret=%v", limit, st.nSucc > 0, st.nDup > 0, st.nErr > 0, st.nBusy > 0, stopped, postCommit, piped, in.RetentionMS > 0)
	return st.res
}

type histStats struct {
	res                        vh.Result
	nSucc, nErr, nBusy, nDup   int
}

// histResult prints a complete history (calls, one entry per item and result, the
// records each channel's port committed) as a C29Hist case.
func histResult(calls []callRec, node *fakeNode, chName func(int) string, channels int, ordered bool) histStats {
	sort.Slice(calls, func(a, b int) bool { return calls[a].id < calls[b].id })
	var st histStats
	var coqCalls, coqSends []string
	nSends := 0
	seenSeq := map[string]bool{}
	for _, c := range calls {
		coqCalls = append(coqCalls, vh.App("HCall", vh.N(uint64(c.id)), vh.N(uint64(len(c.items))), vh.N(uint64(len(c.results)))))
		for k, res := range c.results {
			if k >= len(c.items) {
				break
			}
			it := c.items[k]
			cls := classOf(res.Err)
			if cls == 0 && res.Result.Reason == channelappend.ReasonSuccess {
				st.nSucc++
				key := fmt.Sprintf("%d/%d", it.Ch%channels, res.Result.MessageSeq)
				if seenSeq[key] {
					st.nDup++
				}
				seenSeq[key] = true
			} else {
				st.nErr++
				if cls == eChannelBusy || cls == eBackpressured {
					st.nBusy++
				}
			}
			nSends++
			coqSends = append(coqSends, vh.App("HSend", vh.N(uint64(c.id)), vh.N(uint64(k)), vh.N(c.start), vh.N(c.end),
				vh.N(uint64(it.Ch%channels)), vh.N(c.tags[k]), coqCmd(it.UID, it.CNo, it.Pay),
				vh.App("SRes", vh.N(res.Result.MessageID), vh.N(res.Result.MessageSeq), vh.N(uint64(res.Result.Reason)), vh.N(uint64(cls)))))
		}
	}
	var coqLogs []string
	commits := 0
	for c := 0; c < channels; c++ {
		key := fmt.Sprintf("2:%s", chName(c))
		node.mu.Lock()
		p := node.chans[key]
		node.mu.Unlock()
		var recs []commitRec
		if p != nil {
			recs = p.commits
		}
		commits += len(recs)
		coqLogs = append(coqLogs, vh.Pair(vh.N(uint64(c)), vh.ListOf(recs, func(r commitRec) string { return coqPRec(r, tagNum(r.Tag)) })))
	}
	st.res = vh.Result{
		Coq:     vh.App("C29Hist", vh.B(ordered), vh.List(coqCalls), vh.List(coqSends), vh.List(coqLogs)),
		Obs:     map[string]any{"sends": nSends, "success": st.nSucc, "errors": st.nErr, "commits": commits},
		Trivial: nSends < 2,
	}
	return st
}
