package main

import (
	"fmt"
	"math/rand/v2"

	"github.com/WuKongIM/WuKongIM/internal/runtime/channelappend"
	"github.com/WuKongIM/WuKongIM/internal/verifh/vh"
)

// ---- Coq term printers ------------------------------------------------------

func coqCmd(uid, cno, pay string) string {
	return vh.App("Cmd", vh.HexS(uid), vh.HexS(cno), vh.HexS(pay))
}

// coqPSend prints (PSend call index cmd mid alloc dead tag).
func coqPSend(call, index int, it item, mid uint64, tag uint64) string {
	return vh.App("PSend", vh.N(uint64(call)), vh.N(uint64(index)), coqCmd(it.UID, it.CNo, it.Pay),
		vh.N(mid), vh.B(it.Alloc), vh.N(uint64(it.Dead)), vh.N(tag))
}

func coqOComp(c channelappend.VerifC29Comp) string {
	return vh.App("OC", vh.N(uint64(c.Index)), vh.N(c.ID), vh.N(c.Seq), vh.N(uint64(c.Reason)), vh.N(uint64(classOf(c.Err))),
		vh.B(c.Committed), vh.N(uint64(classOf(c.TraceErr))), vh.N(c.AppID), vh.N(c.AppSeq))
}

func nlist(xs []int) string {
	u := make([]uint64, len(xs))
	for i, x := range xs {
		u[i] = uint64(x)
	}
	return vh.NList(u)
}

func toVerifItems(items []item, mids []uint64, tags []string) []channelappend.VerifC29Item {
	out := make([]channelappend.VerifC29Item, len(items))
	for i, it := range items {
		out[i] = channelappend.VerifC29Item{UID: it.UID, CNo: it.CNo, Payload: []byte(it.Pay), Alloc: it.Alloc, Dead: it.Dead}
		if mids != nil {
			out[i].MID = mids[i]
		}
		if tags != nil {
			out[i].Tag = tags[i]
		}
	}
	return out
}

// ---- kind "coal" --------------------------------------------------------------

func genCoal(r *rand.Rand, tier string) input {
	in := input{Kind: "coal"}
	var n int
	switch r.IntN(10) {
	case 0:
		n = r.IntN(3)
	case 1, 2:
		n = 120 + r.IntN(20) // around the stack limit (128)
	case 3:
		n = 129 + r.IntN(120)
	default:
		n = 2 + r.IntN(40)
	}
	// alphabet width: narrow => many duplicates, wide => few or none
	wide := r.IntN(3)
	for j := 0; j < n; j++ {
		it := genItem(r, 1, 0.15)
		switch wide {
		case 1:
			it.Pay = fmt.Sprintf("%s%d", it.Pay, r.IntN(6))
		case 2:
			it.CNo = fmt.Sprintf("%s%d", it.CNo, j) // all distinct unless keyless
			if r.IntN(40) == 0 && j > 0 {
				it = in.Ops[r.IntN(j)].Items[0] // one planted duplicate
			}
		}
		if r.IntN(12) == 0 {
			it.Dead = vh.Pick(r, 7, 7, 8)
		}
		in.Ops = append(in.Ops, op{K: "item", Items: []item{it}})
	}
	for k := 0; k < r.IntN(n+2); k++ {
		u := uscript{ID: uint64(1000 + k), Seq: uint64(k + 1), Committed: r.IntN(5) != 0}
		switch r.IntN(6) {
		case 0:
			u.Err, u.Trace, u.ID, u.Seq, u.Committed = vh.Pick(r, eAppendFailed, eResultMissing, eLookup, eCanceled), 0, 0, 0, false
			u.Trace = u.Err
		case 1:
			u.Reason, u.Trace, u.Committed = uint8(vh.Pick(r, 3, 4, 5)), eNotLeader, false
		}
		in.UScript = append(in.UScript, u)
	}
	rn := n
	switch r.IntN(5) {
	case 0:
		rn = r.IntN(n + 1)
	case 1:
		rn = n + r.IntN(3)
	}
	for k := 0; k < rn; k++ {
		x := rscript{ID: uint64(500 + k), Seq: uint64(10 + k)}
		if r.IntN(6) == 0 {
			x.Err = vh.Pick(r, eAppendFailed, eNotLeader, eChannelNotFound, eStaleRoute, eRouteNotReady, eBackpressured)
		}
		in.RScript = append(in.RScript, x)
	}
	return in
}

func defaultUScript(k int) uscript {
	return uscript{ID: uint64(1000 + k), Seq: uint64(k + 1), Committed: true}
}

func runCoal(in input) vh.Result {
	var items []item
	for _, o := range in.Ops {
		if o.K == "item" && len(o.Items) == 1 {
			items = append(items, o.Items[0])
		}
	}
	vitems := toVerifItems(items, nil, nil)
	for i := range vitems {
		vitems[i].MID = uint64(i + 1)
	}
	has, uniq, owners, ownersSet, origLen := channelappend.VerifC29Coalesce(vitems)
	// scripted unique completions
	unique := make([]channelappend.VerifC29Comp, len(uniq))
	for k := range unique {
		u := defaultUScript(k)
		if k < len(in.UScript) {
			u = in.UScript[k]
		}
		unique[k] = channelappend.VerifC29Comp{ID: u.ID, Seq: u.Seq, Reason: u.Reason, Err: contractErr(u.Err), Committed: u.Committed, TraceErr: contractErr(u.Trace)}
	}
	expanded := channelappend.VerifC29Expand(vitems, unique)
	res := make([]channelappend.VerifC29AppendRes, len(in.RScript))
	for k, x := range in.RScript {
		res[k] = channelappend.VerifC29AppendRes{ID: x.ID, Seq: x.Seq, Err: contractErr(x.Err)}
	}
	arc := channelappend.VerifC29ResultCompletions(vitems, res)
	active, inactive := channelappend.VerifC29ActiveSplit(vitems)
	fps := make([]uint64, len(vitems))
	phs := make([]uint64, len(vitems))
	for i, it := range vitems {
		fps[i] = channelappend.VerifC29Fingerprint(it)
		phs[i] = channelappend.VerifC29PayloadHash(it.Payload)
	}

	coqItems := make([]string, len(items))
	for i, it := range items {
		coqItems[i] = coqPSend(0, i, it, uint64(i+1), uint64(i))
	}
	us := vh.ListOf(in.UScript, func(u uscript) string {
		return vh.App("USc", vh.N(u.ID), vh.N(u.Seq), vh.N(uint64(u.Reason)), vh.N(uint64(u.Err)), vh.B(u.Committed), vh.N(uint64(u.Trace)))
	})
	rs := vh.ListOf(in.RScript, func(x rscript) string { return vh.App("ARes", vh.N(x.ID), vh.N(x.Seq), vh.N(uint64(x.Err))) })
	ow := vh.None()
	if ownersSet {
		ow = vh.Some(nlist(owners))
	}
	obs := vh.App("CoalObs", vh.Z(int64(has)), nlist(uniq), ow, vh.N(uint64(origLen)), vh.NList(fps), vh.NList(phs),
		vh.ListOf(expanded, coqOComp), vh.ListOf(arc, coqOComp), nlist(active), vh.ListOf(inactive, coqOComp))
	merged := len(items) - len(uniq)
	cls := fmt.Sprintf("coal,n%s,has=%d,merged=%v,owners=%v", sizeClass(len(items)), has, merged > 0, ownersSet)
	return vh.Result{
		Coq:     vh.App("C29Coalesce", vh.List(coqItems), us, rs, obs),
		Obs:     map[string]any{"has": has, "uniq": uniq, "owners": owners, "n": len(items)},
		Class:   cls,
		Trivial: len(items) < 2,
	}
}

func sizeClass(n int) string {
	switch {
	case n < 2:
		return "<2"
	case n <= 128:
		return "<=128"
	}
	return ">128"
}

// ---- kind "writer" ------------------------------------------------------------

func genWriter(r *rand.Rand, tier string) input {
	in := input{Kind: "writer", HW: vh.Pick(r, 0, 0, -1, 4, 9, 30), Limit: vh.Pick(r, 0, 1, 1, 2, 3, 5, -2)}
	n := 8 + r.IntN(40)
	next := uint64(0)  // shadow of nextAppendSeq, to aim completions at in-flight seqs
	drain := uint64(0) // rough shadow of the drain seq
	for j := 0; j < n; j++ {
		switch x := r.IntN(20); {
		case x < 5:
			in.Ops = append(in.Ops, op{K: "enq", N: r.IntN(5)})
		case x < 6:
			in.Ops = append(in.Ops, op{K: "admit", N: r.IntN(12) - 1})
		case x < 11:
			in.Ops = append(in.Ops, op{K: "next"})
			next++
		case x < 18:
			var seq uint64
			switch r.IntN(8) {
			case 0:
				seq = next + uint64(r.IntN(3)) // not yet issued
			case 1:
				if drain > 0 {
					seq = uint64(r.IntN(int(drain))) // stale
				}
			default:
				if next > drain {
					seq = drain + uint64(r.IntN(int(next-drain)))
				} else {
					seq = drain
				}
			}
			k := vh.Pick(r, "apply", "apply", "apply", "rec")
			in.Ops = append(in.Ops, op{K: k, Seq: seq, N: r.IntN(4)})
			if seq == drain {
				drain++
			}
		case x < 19:
			in.Ops = append(in.Ops, op{K: "pop"})
		default:
			in.Ops = append(in.Ops, op{K: "fin", N: r.IntN(4)})
		}
	}
	return in
}

func runWriter(in input) vh.Result {
	st := channelappend.VerifC29NewState(in.HW, in.Limit)
	base := 0
	var ops, obs []string
	popped, reordered, dups := 0, false, false
	seen := map[uint64]bool{}
	var lastRec uint64
	haveRec := false
	for _, o := range in.Ops {
		var opS string
		ret := []string{vh.B(false), "0", "0", "0", "[]", "[]"} // ok seq n tag idx pops
		switch o.K {
		case "enq":
			if o.N < 0 {
				o.N = 0
			}
			st.Enqueue(o.N, base)
			opS = vh.App("WEnq", vh.N(uint64(o.N)))
			base += o.N
		case "admit":
			ok := st.CanAdmit(o.N)
			opS = vh.App("WAdmit", vh.Z(int64(o.N)))
			ret[0] = vh.B(ok)
		case "next":
			seq, idx, ok := st.Next()
			opS = "WNext"
			ret[0], ret[1], ret[2], ret[4] = vh.B(ok), vh.N(seq), vh.N(uint64(len(idx))), nlist(idx)
		case "rec", "apply":
			if o.N < 0 {
				o.N = 0
			}
			if seen[o.Seq] {
				dups = true
			}
			seen[o.Seq] = true
			if haveRec && o.Seq < lastRec {
				reordered = true
			}
			lastRec, haveRec = o.Seq, true
			st.Record(o.Seq, o.N, len(ops))
			if o.K == "rec" {
				opS = vh.App("WRec", vh.N(o.Seq), vh.N(uint64(o.N)))
			} else {
				opS = vh.App("WApply", vh.N(o.Seq), vh.N(uint64(o.N)))
				var pops []string
				for {
					seq, n, tag, ok := st.Pop()
					if !ok {
						break
					}
					st.FinishAppend(n)
					popped++
					pops = append(pops, vh.App("WP", vh.N(seq), vh.N(uint64(n)), vh.N(uint64(tag))))
				}
				ret[5] = vh.List(pops)
			}
		case "pop":
			seq, n, tag, ok := st.Pop()
			opS = "WPop"
			if ok {
				st.FinishAppend(n)
				popped++
			}
			ret[0], ret[1], ret[2], ret[3] = vh.B(ok), vh.N(seq), vh.N(uint64(n)), vh.N(uint64(tag))
		case "fin":
			if o.N < 0 {
				o.N = 0
			}
			st.FinishAppend(o.N)
			opS = vh.App("WFin", vh.N(uint64(o.N)))
		default:
			continue
		}
		s := st.Snap()
		snap := vh.App("WSnap", vh.N(s.NextSeq), vh.N(s.DrainSeq), vh.B(s.HasReady), vh.N(s.ReadySeq), vh.N(uint64(s.Completed)), vh.B(s.CompletedNil),
			vh.N(uint64(s.Inflight)), vh.N(uint64(s.InflightItems)), vh.N(uint64(s.Pending)), vh.B(s.HasPendingWork), vh.B(s.CanStart))
		ops = append(ops, opS)
		obs = append(obs, vh.App("WObs", ret[0], ret[1], ret[2], ret[3], ret[4], ret[5], snap))
	}
	return vh.Result{
		Coq:     vh.App("C29Writer", vh.Z(int64(in.HW)), vh.Z(int64(in.Limit)), vh.List(ops), vh.List(obs)),
		Obs:     map[string]any{"ops": len(ops), "popped": popped},
		Class:   fmt.Sprintf("writer,limit=%d,popped=%v,reordered=%v,dups=%v", in.Limit, popped > 0, reordered, dups),
		Trivial: len(ops) == 0,
	}
}
