package main

import (
	"context"
	"fmt"
	"math/rand/v2"
	"sync/atomic"

	"github.com/WuKongIM/WuKongIM/internal/runtime/channelappend"
	"github.com/WuKongIM/WuKongIM/internal/verifh/vh"
	channelruntime "github.com/WuKongIM/WuKongIM/pkg/channel"
)

// ---- kind "effect": sequential appendEffect.run histories, replayed by the model -----

func genFault(r *rand.Rand, n int) afault {
	switch r.IntN(8) {
	case 0, 1:
		return afault{K: "before", Cls: eAppendFailed}
	case 2:
		return afault{K: "before", Cls: vh.Pick(r, eNotLeader, eChannelNotFound, eBackpressured)}
	case 3, 4:
		return afault{K: "after", Cls: eAppendFailed}
	case 5:
		return afault{K: "short", N: r.IntN(n + 1)}
	case 6:
		return afault{K: "itemerr", N: r.IntN(n + 1), Cls: vh.Pick(r, eAppendFailed, eNotLeader, eChannelNotFound)}
	}
	return afault{K: "after", Cls: eChannelNotFound}
}

func genEffect(r *rand.Rand, tier string) input {
	in := input{Kind: "effect"}
	nops := 2 + r.IntN(7)
	keyless := vh.Pick(r, 0.0, 0.1, 0.3)
	var hist []item
	for j := 0; j < nops; j++ {
		n := 1 + r.IntN(5)
		if r.IntN(10) == 0 {
			n = 6 + r.IntN(8)
		}
		o := op{K: "run"}
		alloc := r.IntN(2) == 0
		for k := 0; k < n; k++ {
			var it item
			switch x := r.IntN(10); {
			case x < 3 && len(hist) > 0: // retry of an earlier send (same key and payload)
				it = hist[r.IntN(len(hist))]
			case x < 4 && len(hist) > 0: // key reuse with a different payload
				it = hist[r.IntN(len(hist))]
				it.Pay = it.Pay + "x"
			default:
				it = genItem(r, 1, keyless)
			}
			it.Dead = 0
			if r.IntN(15) == 0 {
				it.Dead = vh.Pick(r, 7, 8)
			}
			it.Alloc = alloc
			if r.IntN(10) == 0 {
				it.Alloc = !alloc
			}
			o.Items = append(o.Items, it)
			hist = append(hist, it)
		}
		in.Ops = append(in.Ops, o)
	}
	// faults: mostly none, so that genuine store conflicts drive the recovery path
	na := nops * 2
	for k := 0; k < na; k++ {
		if r.IntN(4) == 0 {
			in.AppFaults = append(in.AppFaults, genFault(r, 4))
		} else {
			in.AppFaults = append(in.AppFaults, afault{K: "ok"})
		}
	}
	for k := 0; k < nops*4; k++ {
		in.LookFaults = append(in.LookFaults, vh.Pick(r, "ok", "ok", "ok", "ok", "ok", "ok", "miss", "err"))
	}
	return in
}

func coqAFault(f afault) string {
	switch f.K {
	case "before":
		return vh.App("FFailBefore", vh.N(uint64(normNodeCls(f.Cls))))
	case "after":
		return vh.App("FFailAfter", vh.N(uint64(normNodeCls(f.Cls))))
	case "short":
		return vh.App("FShort", vh.N(uint64(f.N)))
	case "itemerr":
		return vh.App("FItemErr", vh.N(uint64(f.N)), vh.N(uint64(normNodeCls(f.Cls))))
	}
	return "FOk"
}

func coqLFault(f string) string {
	switch f {
	case "miss":
		return "LFMiss"
	case "err":
		return "LFErr"
	}
	return "LFOk"
}

func coqPRec(c commitRec, tag uint64) string {
	return vh.App("PRec", vh.N(c.Seq), vh.N(c.ID), vh.N(tag), coqCmd(c.UID, c.CNo, c.Pay))
}

func tagNum(tag string) uint64 {
	var n uint64
	fmt.Sscanf(tag, "t%d", &n)
	return n
}

func coqPCall(c portCall) string {
	if c.Look {
		return vh.App("PCLook", vh.HexS(c.UID), vh.HexS(c.CNo))
	}
	return vh.App("PCApp", vh.N(uint64(c.Attempt)), vh.B(c.Alloc), vh.ListOf(c.Recs, func(r commitRec) string {
		return vh.App("PRec", "0", vh.N(r.ID), vh.N(tagNum(r.Tag)), coqCmd(r.UID, r.CNo, r.Pay))
	}))
}

func runEffect(in input) vh.Result {
	var ticket atomic.Uint64
	node := newFakeNode(&ticket)
	defer node.close()
	node.appFaults, node.lookFaults = in.AppFaults, in.LookFaults
	appender, idem := node.ports()
	cn := caseNo.Add(1)
	chID := channelappend.ChannelID{ID: fmt.Sprintf("e%d", cn), Type: 2}
	target := channelappend.AuthorityTarget{ChannelID: chID, LeaderNodeID: 1, Epoch: 1, LeaderEpoch: 1}
	port := node.port(channelruntime.ChannelID{ID: chID.ID, Type: chID.Type})

	var coqOps, coqObs []string
	tag := uint64(0)
	flags := map[string]bool{}
	nitems := 0
	for j, o := range in.Ops {
		if o.K != "run" {
			continue
		}
		mids := make([]uint64, len(o.Items))
		tags := make([]string, len(o.Items))
		ps := make([]string, len(o.Items))
		for k := range o.Items {
			mids[k] = midNext.Add(1)
			tags[k] = fmt.Sprintf("t%d", tag)
			ps[k] = coqPSend(j, k, o.Items[k], mids[k], tag)
			tag++
			nitems++
		}
		before := len(port.calls)
		_, comps := channelappend.VerifC29RunEffect(context.Background(), target, uint64(j), toVerifItems(o.Items, mids, tags), appender, idem)
		calls := port.calls[before:]
		napp := 0
		for _, c := range calls {
			if !c.Look {
				napp++
				if c.ReplyCls == eAppendFailed && !c.Committed {
					flags["conflict|failed"] = true
				}
				if c.ReplyCls != 0 && c.Committed {
					flags["fail-after-commit"] = true
				}
			}
		}
		if napp > 1 {
			flags["retry"] = true
		}
		for _, c := range comps {
			if classOf(c.Err) == 0 && c.Reason == 0 && !c.Committed {
				flags["recovered|coalesced"] = true
			}
		}
		coqOps = append(coqOps, vh.List(ps))
		coqObs = append(coqObs, vh.App("EObs", vh.ListOf(calls, coqPCall), vh.ListOf(comps, coqOComp)))
	}
	plog := vh.ListOf(port.commits, func(c commitRec) string { return coqPRec(c, tagNum(c.Tag)) })
	dump := vh.ListOf(port.dump(), func(c commitRec) string { return coqPRec(c, 0) })
	cls := "effect"
	for _, k := range []string{"conflict|failed", "retry", "fail-after-commit", "recovered|coalesced"} {
		if flags[k] {
			cls += "," + k
		}
	}
	return vh.Result{
		Coq: vh.App("C29Effect", vh.ListOf(in.AppFaults, coqAFault), vh.ListOf(in.LookFaults, coqLFault),
			vh.List(coqOps), vh.List(coqObs), plog, dump),
		Obs:     map[string]any{"commits": len(port.commits), "calls": len(port.calls)},
		Class:   cls,
		Trivial: nitems == 0,
	}
}
