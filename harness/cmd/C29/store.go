package main

import (
	"context"
	"fmt"
	"os"
	"sync"
	"sync/atomic"
	"time"

	infracluster "github.com/WuKongIM/WuKongIM/internal/infra/cluster"
	channelruntime "github.com/WuKongIM/WuKongIM/pkg/channel"
	channelstore "github.com/WuKongIM/WuKongIM/pkg/channel/store"
	"github.com/WuKongIM/WuKongIM/pkg/db/message"
)

// One real on-disk message store per process; every case works in its own
// channel-id and message-id namespace.
var (
	storeOnce sync.Once
	storeEng  *message.Engine
	storeDB   *message.MessageDB
	storeDir  string
	caseNo    atomic.Uint64
	midNext   atomic.Uint64
)

func openStore() *message.MessageDB {
	storeOnce.Do(func() {
		base := ""
		if st, err := os.Stat("/dev/shm"); err == nil && st.IsDir() {
			base = "/dev/shm"
		}
		dir, err := os.MkdirTemp(base, "verif_c29_")
		if err != nil {
			panic(err)
		}
		eng, err := message.Open(dir)
		if err != nil {
			panic(err)
		}
		storeDir, storeEng, storeDB = dir, eng, eng.VerifC29DB()
		midNext.Store(1000)
	})
	return storeDB
}

func closeStore() {
	if storeEng != nil {
		_ = storeEng.Close()
		storeEng = nil
	}
	if storeDir != "" {
		_ = os.RemoveAll(storeDir)
		storeDir = ""
	}
}

// midAlloc is the MessageIDAllocator handed to the group.
type midAlloc struct{}

func (midAlloc) Next() uint64 { return midNext.Add(1) }

// commitRec is one record the store committed through the fake node.
type commitRec struct {
	Seq, ID       uint64
	Tag           string
	UID, CNo, Pay string
	Stamp         uint64
}

// portCall is one call that reached the fake node.
type portCall struct {
	Look      bool
	Attempt   int
	Alloc     bool
	Recs      []commitRec // append: requested records (Seq unset)
	UID, CNo  string      // lookup
	ReplyCls  int
	Committed bool
}

type chanPort struct {
	mu      sync.Mutex
	id      channelruntime.ChannelID
	log     *message.ChannelLog
	commits []commitRec
	calls   []portCall
	nApp    int
	nLook   int
}

// fakeNode implements the cluster surfaces the two real adapters need
// (ChannelAppendNode, ChannelIdempotencyNode) on top of the real message store.
type fakeNode struct {
	db     *message.MessageDB
	ticket *atomic.Uint64
	mu     sync.Mutex
	chans  map[string]*chanPort
	// scripted faults (effect cases): consumed in call order
	appFaults  []afault
	lookFaults []string
	// random faults and latencies (conc cases)
	random    bool
	seed      uint64
	faultRate int
	maxLatUS  int
	// gates (gated cases): the next append of an armed channel stays in flight until released
	gateMu sync.Mutex
	gates  map[string]*gate
}

type gate struct {
	taken    atomic.Bool // only the first append of the channel is held; later ones pass at once
	blocked  chan struct{}
	release  chan struct{}
	released bool
}

func (n *fakeNode) arm(chID string) *gate {
	n.gateMu.Lock()
	defer n.gateMu.Unlock()
	if n.gates == nil {
		n.gates = map[string]*gate{}
	}
	g := &gate{blocked: make(chan struct{}), release: make(chan struct{})}
	n.gates[chID] = g
	return g
}

func (n *fakeNode) gateOf(chID string) *gate {
	n.gateMu.Lock()
	defer n.gateMu.Unlock()
	return n.gates[chID]
}

func (n *fakeNode) releaseAll() {
	n.gateMu.Lock()
	defer n.gateMu.Unlock()
	for _, g := range n.gates {
		if !g.released {
			g.released = true
			close(g.release)
		}
	}
}

func newFakeNode(ticket *atomic.Uint64) *fakeNode {
	return &fakeNode{db: openStore(), ticket: ticket, chans: map[string]*chanPort{}}
}

func (n *fakeNode) port(id channelruntime.ChannelID) *chanPort {
	key := fmt.Sprintf("%d:%s", id.Type, id.ID)
	n.mu.Lock()
	defer n.mu.Unlock()
	p := n.chans[key]
	if p == nil {
		log, err := n.db.Channel(message.ChannelKey(key), message.ChannelID{ID: id.ID, Type: id.Type})
		if err != nil {
			panic(err)
		}
		p = &chanPort{id: id, log: log}
		n.chans[key] = p
	}
	return p
}

func (n *fakeNode) close() {
	n.mu.Lock()
	defer n.mu.Unlock()
	for _, p := range n.chans {
		_ = p.log.Close()
	}
}

func mix(a, b, c uint64) uint64 {
	x := a*0x9E3779B97F4A7C15 ^ (b+0x7F4A7C15)*0xBF58476D1CE4E5B9 ^ (c+1)*0x94D049BB133111EB
	x ^= x >> 31
	x *= 0xD6E8FEB86659FD93
	x ^= x >> 29
	return x
}

func (n *fakeNode) appFault(p *chanPort, call int, nrecs int) (afault, time.Duration, time.Duration) {
	if !n.random {
		if call < len(n.appFaults) {
			return n.appFaults[call], 0, 0
		}
		return afault{K: "ok"}, 0, 0
	}
	h := mix(n.seed, uint64(len(p.id.ID))*131+uint64(p.id.ID[len(p.id.ID)-1]), uint64(call))
	var pre, post time.Duration
	if n.maxLatUS > 0 {
		pre = time.Duration(h>>8%uint64(n.maxLatUS)) * time.Microsecond
		post = time.Duration(h>>24%uint64(n.maxLatUS)) * time.Microsecond
	}
	f := afault{K: "ok"}
	if int(h>>40%100) < n.faultRate {
		switch h >> 48 % 8 {
		case 0, 1:
			f = afault{K: "before", Cls: eAppendFailed}
		case 2:
			f = afault{K: "before", Cls: []int{eNotLeader, eChannelNotFound, eBackpressured}[h>>52%3]}
		case 3, 4:
			f = afault{K: "after", Cls: eAppendFailed}
		case 5:
			f = afault{K: "short", N: int(h >> 52 % uint64(nrecs+1))}
		case 6:
			f = afault{K: "itemerr", N: int(h >> 52 % uint64(nrecs+1)), Cls: []int{eAppendFailed, eNotLeader, eChannelNotFound}[h>>56%3]}
		default:
			f = afault{K: "after", Cls: eChannelNotFound}
		}
	}
	return f, pre, post
}

func (n *fakeNode) lookFault(p *chanPort, call int) string {
	if !n.random {
		if call < len(n.lookFaults) {
			return n.lookFaults[call]
		}
		return "ok"
	}
	h := mix(n.seed^0xabcdef, uint64(len(p.id.ID))*131+uint64(p.id.ID[len(p.id.ID)-1]), uint64(call))
	if int(h>>40%100) < n.faultRate/2 {
		if h>>50%2 == 0 {
			return "miss"
		}
		return "err"
	}
	return "ok"
}

// AppendChannelBatch is the cluster append surface.
func (n *fakeNode) AppendChannelBatch(ctx context.Context, req channelruntime.AppendBatchRequest) (channelruntime.AppendBatchResult, error) {
	p := n.port(req.ChannelID)
	p.mu.Lock()
	call := p.nApp
	p.nApp++
	f, pre, post := n.appFault(p, call, len(req.Messages))
	pc := portCall{Attempt: req.Attempt, Alloc: req.ServerAllocatedMessageIDs}
	for _, m := range req.Messages {
		pc.Recs = append(pc.Recs, commitRec{ID: m.MessageID, Tag: m.TraceID, UID: m.FromUID, CNo: m.ClientMsgNo, Pay: string(m.Payload)})
	}
	idx := len(p.calls)
	p.calls = append(p.calls, pc)
	p.mu.Unlock()
	if pre > 0 {
		time.Sleep(pre)
	}
	if g := n.gateOf(req.ChannelID.ID); g != nil {
		if g.taken.CompareAndSwap(false, true) {
			close(g.blocked)
			<-g.release
		}
	}
	if f.K == "before" {
		p.mu.Lock()
		p.calls[idx].ReplyCls = normNodeCls(f.Cls)
		p.mu.Unlock()
		return channelruntime.AppendBatchResult{}, nodeErr(f.Cls)
	}
	skip := -1
	if f.K == "itemerr" && f.N < len(req.Messages) {
		skip = f.N
	}
	recs := make([]message.Record, 0, len(req.Messages))
	kept := make([]int, 0, len(req.Messages))
	for i, m := range req.Messages {
		if i == skip {
			continue
		}
		recs = append(recs, message.Record{ID: m.MessageID, ClientMsgNo: m.ClientMsgNo, FromUID: m.FromUID, Payload: m.Payload, ServerTimestampMS: m.ServerTimestampMS})
		kept = append(kept, i)
	}
	mode := message.AppendStrict
	if req.ServerAllocatedMessageIDs {
		mode = message.AppendServerAllocatedMessageID
	}
	p.mu.Lock()
	res, err := p.log.Append(ctx, recs, message.AppendOptions{Mode: mode})
	if err != nil {
		p.calls[idx].ReplyCls = eAppendFailed
		p.mu.Unlock()
		return channelruntime.AppendBatchResult{}, err
	}
	out := channelruntime.AppendBatchResult{Items: make([]channelruntime.AppendBatchItemResult, len(req.Messages))}
	for k, i := range kept {
		m := req.Messages[i]
		seq := res.BaseSeq + uint64(k)
		p.commits = append(p.commits, commitRec{Seq: seq, ID: m.MessageID, Tag: m.TraceID, UID: m.FromUID, CNo: m.ClientMsgNo, Pay: string(m.Payload), Stamp: n.ticket.Add(1)})
		out.Items[i] = channelruntime.AppendBatchItemResult{MessageID: m.MessageID, MessageSeq: seq}
	}
	p.calls[idx].Committed = len(kept) > 0
	p.mu.Unlock()
	if post > 0 {
		time.Sleep(post)
	}
	switch f.K {
	case "after":
		p.mu.Lock()
		p.calls[idx].ReplyCls = normNodeCls(f.Cls)
		p.mu.Unlock()
		return channelruntime.AppendBatchResult{}, nodeErr(f.Cls)
	case "short":
		if f.N < len(out.Items) {
			out.Items = out.Items[:f.N]
		}
	case "itemerr":
		if skip >= 0 {
			out.Items[skip] = channelruntime.AppendBatchItemResult{Err: nodeErr(f.Cls)}
		}
	}
	return out, nil
}

// LookupChannelIdempotency is the cluster idempotency surface.
func (n *fakeNode) LookupChannelIdempotency(ctx context.Context, id channelruntime.ChannelID, uid, cno string) (channelstore.IdempotencyHit, bool, error) {
	p := n.port(id)
	p.mu.Lock()
	defer p.mu.Unlock()
	call := p.nLook
	p.nLook++
	p.calls = append(p.calls, portCall{Look: true, UID: uid, CNo: cno})
	switch n.lookFault(p, call) {
	case "miss":
		return channelstore.IdempotencyHit{}, false, nil
	case "err":
		return channelstore.IdempotencyHit{}, false, errVerifLookup
	}
	hit, ok, err := p.log.LookupIdempotency(ctx, message.IdempotencyKey{FromUID: uid, ClientMsgNo: cno})
	if err != nil || !ok {
		return channelstore.IdempotencyHit{}, false, err
	}
	return channelstore.IdempotencyHit{
		Message:     channelruntime.Message{MessageID: hit.MessageID, MessageSeq: hit.MessageSeq, FromUID: uid, ClientMsgNo: cno},
		PayloadHash: hit.PayloadHash,
	}, true, nil
}

// dump reads the channel back from the real store.
func (p *chanPort) dump() []commitRec {
	msgs, err := p.log.Read(context.Background(), 1, message.ReadOptions{})
	if err != nil {
		panic(err)
	}
	out := make([]commitRec, len(msgs))
	for i, m := range msgs {
		out[i] = commitRec{Seq: m.MessageSeq, ID: m.MessageID, UID: m.FromUID, CNo: m.ClientMsgNo, Pay: string(m.Payload)}
	}
	return out
}

// ports builds the two REAL adapters of internal/infra/cluster over the node.
func (n *fakeNode) ports() (*infracluster.ChannelAppender, *infracluster.ChannelIdempotencyStore) {
	return infracluster.NewChannelAppender(n), infracluster.NewChannelIdempotencyStore(n)
}
