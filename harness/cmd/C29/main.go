// Harness for C29: send results are aligned, ordered and idempotent
// (internal/runtime/channelappend).
//
// Four kinds of cases, all printed as one Coq case type (c29_case):
//
//	coal    newIdempotentAppendBatch + hasCoalescibleIdempotentItems, expandCompletions,
//	        appendResultCompletions, activeAppendItems and the two FNV functions on one
//	        random batch (tiny key alphabets, sizes on both sides of the stack limit)
//	writer  a random op history on one channelState: enqueuePrepared / canAdmit /
//	        nextAppendBatch / recordAppendCompletion / popNextAppendCompletion /
//	        finishAppend, completions arriving in any order, duplicated and stale
//	effect  a sequential history of appendEffect.run calls over one channel whose ports are
//	        the REAL internal/infra/cluster ChannelAppender + ChannelIdempotencyStore adapters
//	        on a fake node backed by the REAL pkg/db/message store, with scripted faults
//	        (failure before commit, failure after commit, foreign errors, short result
//	        vectors, item-local errors, lookup errors and spurious misses); replayed exactly
//	        by the model
//	gated   one goroutine pipelines sub-batches into channels of ONE shard with a tiny
//	        WriterIdleRetention while the fake node holds an append of one channel in
//	        flight (gate), creates a writer for another channel (reclaim sweep) and sends
//	        again to the held channel: same history monitor
//	idle    channelWriter.idleExpired on scripted writer states (export)
//	conc    concurrent Router.SendBatch calls over channelappend.Group (same ports, random
//	        latencies and faults, small backlogs, optional Stop); history acceptance:
//	        results + the records handed to the port are checked by the property monitor
package main

import (
	"fmt"
	"io"
	"math/rand/v2"
	"os"

	"github.com/WuKongIM/WuKongIM/internal/runtime/channelappend"
	"github.com/WuKongIM/WuKongIM/internal/verifh/vh"
)

// item is one send of the input (JSON).
type item struct {
	Ch    int    `json:"ch,omitempty"`
	UID   string `json:"uid"`
	CNo   string `json:"cno"`
	Pay   string `json:"pay"`            // raw bytes as a Go string
	Dead  int    `json:"dead,omitempty"` // 0 alive, 7 cancelled context, 8 expired deadline
	Alloc bool   `json:"alloc,omitempty"`
}

// op is one step of a history; the meaning of the fields depends on the kind.
type op struct {
	K     string `json:"k"`
	T     int    `json:"t,omitempty"`   // conc: thread
	N     int    `json:"n,omitempty"`   // writer: count
	Seq   uint64 `json:"seq,omitempty"` // writer: completion seq
	Items []item `json:"items,omitempty"`
}

type uscript struct {
	ID, Seq   uint64
	Reason    uint8
	Err       int
	Committed bool
	Trace     int
}

type rscript struct {
	ID, Seq uint64
	Err     int
}

type afault struct {
	K   string `json:"k"` // ok | before | after | short | itemerr
	Cls int    `json:"cls,omitempty"`
	N   int    `json:"n,omitempty"`
}

type input struct {
	Kind string `json:"kind"`
	Ops  []op   `json:"ops"`
	// coal
	UScript []uscript `json:"uscript,omitempty"`
	RScript []rscript `json:"rscript,omitempty"`
	// writer
	HW    int `json:"hw,omitempty"`
	Limit int `json:"limit,omitempty"`
	// effect / conc
	AppFaults  []afault `json:"app_faults,omitempty"`
	LookFaults []string `json:"look_faults,omitempty"` // ok | miss | err
	Threads    int      `json:"threads,omitempty"`
	Channels   int      `json:"channels,omitempty"`
	Seed       uint64   `json:"seed,omitempty"`
	FaultRate  int      `json:"fault_rate,omitempty"` // conc: percent of port calls with a fault
	MaxLatUS   int      `json:"max_lat_us,omitempty"`
	Shards     int      `json:"shards,omitempty"`
	Pool       int      `json:"pool,omitempty"`
	Admission  int      `json:"admission,omitempty"`
	Coalesce   bool     `json:"coalesce,omitempty"`
	// conc / gated: Options.WriterIdleRetention in milliseconds (0 = default, 10 minutes)
	RetentionMS int `json:"retention_ms,omitempty"`
	// idle
	Rows []idleRow `json:"rows,omitempty"`
}

var (
	uids = []string{"", "u1", "u2", "u3"}
	cnos = []string{"", "a", "b", "c", "d"}
	pays = []string{"p", "q", "r", "payload-long", "\x00\x7f"}
)

func genItem(r *rand.Rand, chs int, keyless float64) item {
	it := item{Pay: vh.Pick(r, pays...)}
	if chs > 1 {
		it.Ch = r.IntN(chs)
	}
	if vh.Chance(r, keyless) {
		// a keyless send: one of the two key fields is empty
		if r.IntN(2) == 0 {
			it.UID, it.CNo = vh.Pick(r, uids[1:]...), ""
		} else {
			it.UID, it.CNo = "", vh.Pick(r, cnos[1:]...)
		}
	} else {
		it.UID, it.CNo = vh.Pick(r, uids[1:]...), vh.Pick(r, cnos[1:]...)
	}
	return it
}

func gen(r *rand.Rand, tier string, i int) input {
	switch x := r.IntN(20); {
	case x < 5:
		return genCoal(r, tier)
	case x < 8:
		return genWriter(r, tier)
	case x < 9:
		return genIdle(r, tier)
	case x < 14:
		return genEffect(r, tier)
	case x < 18:
		return genConc(r, tier)
	default:
		return genGated(r, tier)
	}
}

func run(in input) vh.Result {
	switch in.Kind {
	case "coal":
		return runCoal(in)
	case "writer":
		return runWriter(in)
	case "effect":
		return runEffect(in)
	case "conc":
		return runConc(in)
	case "gated":
		return runGated(in)
	case "idle":
		return runIdle(in)
	}
	return vh.Result{Coq: "(C29Writer 0%Z 0%Z [] [])", Class: "unknown-kind", Trivial: true}
}

func emitConsts(w io.Writer) {
	fmt.Fprintf(w, "(* GENERATED by harness/cmd/C29 -emit-consts from the compiled /repo. Do not edit. *)\n")
	fmt.Fprintf(w, "From Coq Require Import NArith.\nOpen Scope N_scope.\n")
	fmt.Fprintf(w, "Definition c29_stack_item_limit : N := %d.\n", channelappend.VerifC29StackItemLimit)
	fmt.Fprintf(w, "Definition c29_stack_table_size : N := %d.\n", channelappend.VerifC29StackTableSize)
	fmt.Fprintf(w, "Definition c29_fnv_offset : N := %d.\n", channelappend.VerifC29FNVOffset)
	fmt.Fprintf(w, "Definition c29_fnv_prime : N := %d.\n", channelappend.VerifC29FNVPrime)
	fmt.Fprintf(w, "Definition c29_initial_attempt : N := %d.\n", channelappend.VerifC29InitialAttempt)
	fmt.Fprintf(w, "Definition c29_recovery_attempt : N := %d.\n", channelappend.VerifC29RecoveryAttempt)
	fmt.Fprintf(w, "Definition c29_default_inflight : N := %d.\n", channelappend.VerifC29DefaultInflight)
	fmt.Fprintf(w, "Definition c29_reason_success : N := %d.\n", channelappend.ReasonSuccess)
	fmt.Fprintf(w, "Definition c29_reason_channel_not_exist : N := %d.\n", channelappend.ReasonChannelNotExist)
	fmt.Fprintf(w, "Definition c29_reason_node_not_match : N := %d.\n", channelappend.ReasonNodeNotMatch)
	fmt.Fprintf(w, "Definition c29_reason_system_error : N := %d.\n", channelappend.ReasonSystemError)
}

func main() {
	defer closeStore()
	vh.Main(vh.Harness[input]{EmitConsts: emitConsts, Gen: gen, Run: run})
	closeStore()
	os.Stdout.Sync()
}
