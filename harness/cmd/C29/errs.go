package main

import (
	"context"
	"errors"

	contract "github.com/WuKongIM/WuKongIM/internal/contracts/channelappend"
	channelruntime "github.com/WuKongIM/WuKongIM/pkg/channel"
)

// Error classes shared with Model/ChanAppend.v (E_* constants).
const (
	eNone             = 0
	eResultMissing    = 1
	eAppendFailed     = 2
	eNotLeader        = 3
	eChannelNotFound  = 4
	eStaleRoute       = 5
	eRouteNotReady    = 6
	eCanceled         = 7
	eDeadline         = 8
	eChannelBusy      = 9
	eBackpressured    = 10
	eAppenderRequired = 11
	eLookup           = 12
	eNotAuthority     = 13
	eOther            = 99
)

// errVerifLookup is the injected idempotency lookup failure.
var errVerifLookup = errors.New("verif: injected lookup failure")

// errVerifIO is the injected generic storage failure (maps to ErrAppendFailed).
var errVerifIO = errors.New("verif: injected io failure")

func classOf(err error) int {
	switch {
	case err == nil:
		return eNone
	case errors.Is(err, errVerifLookup):
		return eLookup
	case errors.Is(err, contract.ErrAppendResultMissing):
		return eResultMissing
	case errors.Is(err, contract.ErrNotLeader):
		return eNotLeader
	case errors.Is(err, contract.ErrChannelNotFound):
		return eChannelNotFound
	case errors.Is(err, contract.ErrStaleRoute):
		return eStaleRoute
	case errors.Is(err, contract.ErrRouteNotReady):
		return eRouteNotReady
	case errors.Is(err, contract.ErrChannelBusy):
		return eChannelBusy
	case errors.Is(err, contract.ErrBackpressured):
		return eBackpressured
	case errors.Is(err, contract.ErrAppenderRequired):
		return eAppenderRequired
	case errors.Is(err, contract.ErrNotChannelAuthority):
		return eNotAuthority
	case errors.Is(err, contract.ErrAppendFailed):
		return eAppendFailed
	case errors.Is(err, context.Canceled):
		return eCanceled
	case errors.Is(err, context.DeadlineExceeded):
		return eDeadline
	}
	return eOther
}

// contractErr builds an error of the channelappend contract for a class (used
// by the scripted completions of the pure cases).
func contractErr(cls int) error {
	switch cls {
	case eNone:
		return nil
	case eResultMissing:
		return contract.ErrAppendResultMissing
	case eAppendFailed:
		return contract.ErrAppendFailed
	case eNotLeader:
		return contract.ErrNotLeader
	case eChannelNotFound:
		return contract.ErrChannelNotFound
	case eStaleRoute:
		return contract.ErrStaleRoute
	case eRouteNotReady:
		return contract.ErrRouteNotReady
	case eCanceled:
		return context.Canceled
	case eDeadline:
		return context.DeadlineExceeded
	case eChannelBusy:
		return contract.ErrChannelBusy
	case eBackpressured:
		return contract.ErrBackpressured
	case eAppenderRequired:
		return contract.ErrAppenderRequired
	case eLookup:
		return errVerifLookup
	case eNotAuthority:
		return contract.ErrNotChannelAuthority
	}
	return errors.New("verif: other")
}

// nodeErr builds the error the fake cluster node returns for a class; the real
// internal/infra/cluster adapter maps it onto the channelappend contract.
func nodeErr(cls int) error {
	switch cls {
	case eNotLeader:
		return channelruntime.ErrNotLeader
	case eChannelNotFound:
		return channelruntime.ErrChannelNotFound
	case eBackpressured:
		return channelruntime.ErrBackpressured
	}
	return errVerifIO // eAppendFailed
}

// normNodeCls is the class the contract side sees for a scripted node class.
func normNodeCls(cls int) int {
	switch cls {
	case eNotLeader, eChannelNotFound, eBackpressured:
		return cls
	}
	return eAppendFailed
}
