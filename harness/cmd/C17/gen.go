package main

import (
	"math/rand/v2"

	"github.com/WuKongIM/WuKongIM/internal/verifh/vh"
	metadb "github.com/WuKongIM/WuKongIM/pkg/db/meta"
)

// The generator builds a history while it applies it to a private DB, so that
// task guards, runtime guards, proofs and fence tokens can be taken from the
// rows that really exist at that point ("executor-like walk"), and then
// perturbs a fraction of the commands (stale guards / proofs / tokens, expired
// fences, wrong nodes, invalid arguments).  Inside a multi-command batch the
// follow-up commands are built from a predicted view of the rows.

const (
	kLT = uint8(metadb.ChannelMigrationKindLeaderTransfer)
	kRR = uint8(metadb.ChannelMigrationKindReplicaReplace)
	kFO = uint8(metadb.ChannelMigrationKindLeaderFailover)

	sPending   = uint8(metadb.ChannelMigrationStatusPending)
	sRunning   = uint8(metadb.ChannelMigrationStatusRunning)
	sBlocked   = uint8(metadb.ChannelMigrationStatusBlocked)
	sCompleted = uint8(metadb.ChannelMigrationStatusCompleted)
	sFailed    = uint8(metadb.ChannelMigrationStatusFailed)
	sAborted   = uint8(metadb.ChannelMigrationStatusAborted)

	pValidate  = uint8(metadb.ChannelMigrationPhaseValidate)
	pProbe     = uint8(metadb.ChannelMigrationPhaseProbeTarget)
	pWFence    = uint8(metadb.ChannelMigrationPhaseWriteFence)
	pDrain     = uint8(metadb.ChannelMigrationPhaseDrainLeader)
	pFinal     = uint8(metadb.ChannelMigrationPhaseFinalTargetCatchUp)
	pCommit    = uint8(metadb.ChannelMigrationPhaseCommitLeaderMeta)
	pVerifyL   = uint8(metadb.ChannelMigrationPhaseVerifyNewLeader)
	pAddL      = uint8(metadb.ChannelMigrationPhaseAddLearner)
	pBootstrap = uint8(metadb.ChannelMigrationPhaseBootstrapTarget)
	pWarm      = uint8(metadb.ChannelMigrationPhaseWarmCatchUp)
	pCutover   = uint8(metadb.ChannelMigrationPhaseCutoverFence)
	pPromote   = uint8(metadb.ChannelMigrationPhasePromoteAndRemove)
	pVerifyM   = uint8(metadb.ChannelMigrationPhaseVerifyMembership)
	pClear     = uint8(metadb.ChannelMigrationPhaseClearFence)
)

var allPhases = []uint8{pValidate, pProbe, pWFence, pDrain, pFinal, pCommit, pVerifyL, pAddL, pBootstrap, pWarm, pCutover, pPromote, pVerifyM, pClear}

var baseChans = []chanKey{{"g1", 2}, {"u1@u2", 1}}
var taskIDs = []string{"t1", "t2", "t3", "t10"}

type tkey struct {
	ch chanKey
	id string
}

type view struct {
	tasks map[tkey]metadb.ChannelMigrationTask
	metas map[chanKey]metadb.ChannelRuntimeMeta
}

type generator struct {
	r     *rand.Rand
	w     *world
	v     view
	now   int64
	chans []chanKey
	ops   []opJ
	me    uint64
	calm  bool // mostly the executor's own walk, few interruptions: reaches commit / promote / clear
}

func isTerminal(s uint8) bool { return s == sCompleted || s == sFailed || s == sAborted }

func (g *generator) refresh() {
	g.v = view{tasks: map[tkey]metadb.ChannelMigrationTask{}, metas: map[chanKey]metadb.ChannelRuntimeMeta{}}
	for _, t := range g.w.tasks() {
		g.v.tasks[tkey{chanKey{t.ChannelID, t.ChannelType}, t.TaskID}] = t
	}
	for _, k := range g.chans {
		if m, ok := g.w.meta(k); ok {
			g.v.metas[k] = m
		}
	}
}

func (g *generator) tick() {
	g.now += vh.Pick(g.r, int64(1), 7, 10, 40)
}

func (g *generator) nextUp(t metadb.ChannelMigrationTask) int64 {
	if g.now <= t.UpdatedAtMS {
		return t.UpdatedAtMS + 1
	}
	return g.now
}

func (g *generator) sortedTasks() []metadb.ChannelMigrationTask {
	var out []metadb.ChannelMigrationTask
	for _, ch := range g.chans {
		for _, id := range taskIDs {
			if t, ok := g.v.tasks[tkey{ch, id}]; ok {
				out = append(out, t)
			}
		}
	}
	return out
}

func (g *generator) pickTask(pred func(metadb.ChannelMigrationTask) bool) (metadb.ChannelMigrationTask, bool) {
	var c []metadb.ChannelMigrationTask
	for _, t := range g.sortedTasks() {
		if pred == nil || pred(t) {
			c = append(c, t)
		}
	}
	if len(c) == 0 {
		return metadb.ChannelMigrationTask{}, false
	}
	return c[g.r.IntN(len(c))], true
}

func (g *generator) metaOf(t metadb.ChannelMigrationTask) (metadb.ChannelRuntimeMeta, bool) {
	m, ok := g.v.metas[chanKey{t.ChannelID, t.ChannelType}]
	return m, ok
}

// ---- initial metas --------------------------------------------------------------

func (g *generator) genMeta(k chanKey) metaJ {
	r := g.r
	n := 2 + r.IntN(3) // 2..4 replicas out of nodes 1..4
	perm := r.Perm(4)
	var rep []uint64
	for i := 0; i < n; i++ {
		rep = append(rep, uint64(perm[i]+1))
	}
	isr := append([]uint64(nil), rep...)
	if n > 2 && vh.Chance(r, 0.35) {
		isr = isr[:n-1] // one replica outside the ISR
	}
	m := metaJ{ID: k.ID, Type: k.Ty, CE: uint64(1 + r.IntN(3)), LE: uint64(1 + r.IntN(3)), Replicas: rep, ISR: isr,
		Leader: isr[r.IntN(len(isr))], MinISR: int64(1 + r.IntN(len(isr))), Status: 1, Features: 1, Lease: g.now + 500}
	if vh.Chance(r, 0.1) {
		m.WFV = uint64(r.IntN(3))
	}
	return m
}

func contains(xs []uint64, x uint64) bool {
	for _, v := range xs {
		if v == x {
			return true
		}
	}
	return false
}

// ---- task creation ----------------------------------------------------------------

func (g *generator) cmdCreate(ch chanKey) (cmdJ, bool) {
	r := g.r
	m, ok := g.v.metas[ch]
	id := taskIDs[r.IntN(len(taskIDs)-1)]
	if vh.Chance(r, 0.08) {
		id = "t10"
	}
	t := taskJ{ID: id, Ch: ch.ID, Ty: ch.Ty, St: sPending, Ph: pValidate, Cr: g.now, Up: g.now}
	if ok {
		t.BCE, t.BLE = m.ChannelEpoch, m.LeaderEpoch
	}
	kind := vh.Pick(r, kLT, kLT, kRR, kRR, kFO)
	t.Kind = kind
	var others, outsiders []uint64
	if ok {
		for _, n := range m.ISR {
			if n != m.Leader {
				others = append(others, n)
			}
		}
		for n := uint64(1); n <= 5; n++ {
			if !contains(m.Replicas, n) {
				outsiders = append(outsiders, n)
			}
		}
	}
	switch kind {
	case kLT, kFO:
		t.Src = m.Leader
		if len(others) > 0 {
			t.Tgt = others[r.IntN(len(others))]
		} else {
			t.Tgt = uint64(1 + r.IntN(4))
		}
		t.DL = t.Tgt
		if vh.Chance(r, 0.1) {
			t.DL = 0
		}
		if vh.Chance(r, 0.04) {
			t.DL = t.Tgt + 1 // invalid: desired leader differs from target
		}
	default:
		var nonLeader []uint64
		for _, n := range m.Replicas {
			if n != m.Leader {
				nonLeader = append(nonLeader, n)
			}
		}
		switch {
		case vh.Chance(r, 0.25) && ok:
			t.Src = m.Leader // needs an embedded leader transfer first
		case len(nonLeader) > 0:
			t.Src = nonLeader[r.IntN(len(nonLeader))]
		default:
			t.Src = uint64(1 + r.IntN(4))
		}
		if len(outsiders) > 0 {
			t.Tgt = outsiders[r.IntN(len(outsiders))]
		} else {
			t.Tgt = 5
		}
	}
	if vh.Chance(r, 0.05) {
		t.St = vh.Pick(r, sRunning, sBlocked, sCompleted, uint8(0), uint8(7))
		if isTerminal(t.St) && vh.Chance(r, 0.7) {
			t.Co = g.now
		}
	}
	if vh.Chance(r, 0.05) {
		t.Ph = vh.Pick(r, pProbe, pWFence, pAddL, pCommit, pVerifyL, uint8(0), uint8(9))
	}
	if vh.Chance(r, 0.03) {
		t.Kind = vh.Pick(r, uint8(0), uint8(4))
	}
	if vh.Chance(r, 0.02) {
		t.ID = ""
	}
	c := cmdJ{K: "create", Task: &t}
	if ok && vh.Chance(r, 0.5) {
		c.K = "create_guarded"
		rg := rguardOf(m)
		if vh.Chance(r, 0.25) {
			g.perturbRGuard(&rg)
		}
		if vh.Chance(r, 0.2) {
			rg.RG = m.RouteGeneration
		}
		c.RG = &rg
	} else if !ok && vh.Chance(r, 0.5) {
		c.K = "create_guarded"
		c.RG = &rguardJ{Ch: ch.ID, Ty: ch.Ty}
	}
	return c, true
}

// ---- perturbations -----------------------------------------------------------------

func (g *generator) perturbGuard(gd *guardJ) {
	r := g.r
	switch r.IntN(8) {
	case 0:
		gd.Up--
	case 1:
		gd.Up++
	case 2:
		gd.Ph = allPhases[r.IntN(len(allPhases))]
	case 3:
		gd.St = uint8(1 + r.IntN(6))
	case 4:
		gd.Own++
	case 5:
		gd.OwnL++
	case 6:
		gd.ID = taskIDs[r.IntN(len(taskIDs))]
	default:
		gd.Ph = 0
	}
}

func (g *generator) perturbRGuard(rg *rguardJ) {
	r := g.r
	switch r.IntN(9) {
	case 0:
		rg.CE++
	case 1:
		if rg.CE > 0 {
			rg.CE--
		}
	case 2:
		rg.LE++
	case 3:
		if rg.LE > 0 {
			rg.LE--
		}
	case 4:
		rg.Ldr = uint64(1 + r.IntN(5))
	case 5:
		rg.Tok = vh.Pick(r, "", "t1", "t2", "zz")
	case 6:
		rg.FV++
	case 7:
		if rg.FV > 0 {
			rg.FV--
		}
	default:
		rg.RG = uint64(1 + r.IntN(6))
	}
}

func (g *generator) perturbProof(p *proofJ) {
	r := g.r
	switch r.IntN(9) {
	case 0:
		p.DFV++
	case 1:
		if p.DFV > 0 {
			p.DFV--
		}
	case 2:
		p.DCE++
	case 3:
		p.DLE++
	case 4:
		p.DLN = uint64(1 + r.IntN(5))
	case 5:
		p.DRG = 0
	case 6:
		p.HW = p.LEO + 1
	case 7:
		p.DLE = 0
	default:
		*p = proofJ{}
	}
}

// ---- the executor-like step --------------------------------------------------------

func taskProof(t metadb.ChannelMigrationTask) proofJ {
	return proofJ{LEO: t.CutoverLEO, HW: t.CutoverHW, DLN: t.DrainedLeaderNode, DRG: t.DrainedRuntimeGeneration,
		DCE: t.DrainedChannelEpoch, DLE: t.DrainedLeaderEpoch, DFV: t.DrainedFenceVersion}
}

func hasProof(t metadb.ChannelMigrationTask) bool {
	return t.DrainedLeaderNode != 0 && t.DrainedRuntimeGeneration != 0 && t.DrainedChannelEpoch != 0 &&
		t.DrainedLeaderEpoch != 0 && t.DrainedFenceVersion != 0 && t.CutoverHW <= t.CutoverLEO
}

func desiredLeader(t metadb.ChannelMigrationTask) uint64 {
	if t.EmbeddedLeaderTransfer && t.EmbeddedDesiredLeader != 0 {
		return t.EmbeddedDesiredLeader
	}
	if t.DesiredLeader != 0 {
		return t.DesiredLeader
	}
	return t.TargetNode
}

func leaderPhase(p uint8) bool {
	switch p {
	case pValidate, pProbe, pWFence, pDrain, pFinal, pCommit, pVerifyL, pClear:
		return true
	}
	return false
}

func (g *generator) advance(t metadb.ChannelMigrationTask, status, phase uint8) cmdJ {
	gd := guardOf(t)
	c := cmdJ{K: "advance", G: &gd, St: status, Ph: phase, Att: t.Attempt + 1, Up: g.nextUp(t)}
	if isTerminal(status) {
		c.Co = c.Up
	}
	if status == sBlocked {
		c.BM = "blocked"
	}
	return c
}

func (g *generator) drainProof(t metadb.ChannelMigrationTask, m metadb.ChannelRuntimeMeta, drainedLeader uint64) *proofJ {
	leo := uint64(100 + g.r.IntN(3))
	return &proofJ{LEO: leo, HW: leo - uint64(g.r.IntN(2)), DLN: drainedLeader, DRG: m.RouteGeneration, DCE: m.ChannelEpoch,
		DLE: m.LeaderEpoch, DFV: t.FenceVersion}
}

func (g *generator) trans(t metadb.ChannelMigrationTask, m metadb.ChannelRuntimeMeta, kind string, status, phase uint8) cmdJ {
	gd := guardOf(t)
	rg := rguardOf(m)
	return cmdJ{K: kind, G: &gd, RG: &rg, St: status, Ph: phase, Up: g.nextUp(t)}
}

func (g *generator) setFence(t metadb.ChannelMigrationTask, m metadb.ChannelRuntimeMeta) cmdJ {
	phase := uint8(t.Phase)
	lt := t.Kind != metadb.ChannelMigrationKindReplicaReplace || t.EmbeddedLeaderTransfer
	if lt && phase == pWFence {
		phase = pDrain
	} else if !lt && phase == pWarm {
		phase = pCutover
	}
	c := g.trans(t, m, "set_fence", sRunning, phase)
	c.FR = uint8(1 + g.r.IntN(3))
	c.FU = g.now + 300
	return c
}

func (g *generator) clearFence(t metadb.ChannelMigrationTask, m metadb.ChannelRuntimeMeta) cmdJ {
	if t.Kind == metadb.ChannelMigrationKindReplicaReplace && t.EmbeddedLeaderTransfer && uint8(t.Phase) == pVerifyL {
		return g.trans(t, m, "clear_fence", sRunning, pAddL)
	}
	c := g.trans(t, m, "clear_fence", sCompleted, pClear)
	c.Co = c.Up
	return c
}

func (g *generator) abort(t metadb.ChannelMigrationTask, m metadb.ChannelRuntimeMeta) cmdJ {
	c := g.trans(t, m, "abort", sAborted, uint8(t.Phase))
	c.Co = c.Up
	c.LErr = "aborted"
	return c
}

func (g *generator) commit(t metadb.ChannelMigrationTask, m metadb.ChannelRuntimeMeta) cmdJ {
	c := g.trans(t, m, "commit", sRunning, pVerifyL)
	c.DL, c.NLE, c.Lease, c.Now = desiredLeader(t), m.LeaderEpoch+1, g.now+300, g.now
	return c
}

func (g *generator) promote(t metadb.ChannelMigrationTask, m metadb.ChannelRuntimeMeta) cmdJ {
	c := g.trans(t, m, "promote", sRunning, pVerifyM)
	c.Src, c.Tgt, c.Now = t.SourceNode, t.TargetNode, g.now
	return c
}

func (g *generator) claim(t metadb.ChannelMigrationTask, owner uint64) cmdJ {
	gd := guardOf(t)
	return cmdJ{K: "claim", G: &gd, St: sRunning, Ph: uint8(t.Phase), Own: owner, OwnL: g.now + 400, Now: g.now, Up: g.nextUp(t)}
}

// executorStep is what the migration executor would propose next for t.
func (g *generator) executorStep(t metadb.ChannelMigrationTask) (cmdJ, bool) {
	m, ok := g.metaOf(t)
	if !ok {
		return g.advance(t, sBlocked, uint8(t.Phase)), true
	}
	r := g.r
	if t.OwnerNodeID != g.me && vh.Chance(r, 0.8) {
		return g.claim(t, g.me), true
	}
	if t.FenceToken == t.TaskID && t.FenceVersion != 0 && t.FenceUntilMS <= g.now && vh.Chance(r, 0.6) {
		switch uint8(t.Phase) {
		case pDrain, pFinal, pCommit, pCutover, pPromote:
			return g.setFence(t, m), true // renewal
		}
	}
	phase := uint8(t.Phase)
	lt := t.Kind != metadb.ChannelMigrationKindReplicaReplace || (t.EmbeddedLeaderTransfer && leaderPhase(phase))
	if lt {
		switch phase {
		case pValidate:
			return g.advance(t, sRunning, pProbe), true
		case pProbe:
			return g.advance(t, sRunning, pWFence), true
		case pWFence:
			return g.setFence(t, m), true
		case pDrain:
			c := g.advance(t, sRunning, pFinal)
			if t.Kind == metadb.ChannelMigrationKindLeaderFailover {
				c.Ph = pCommit
			}
			c.Proof = g.drainProof(t, m, m.Leader)
			c.Pg = &progJ{LLEO: c.Proof.LEO, LHW: c.Proof.HW}
			return c, true
		case pFinal:
			c := g.advance(t, sRunning, pCommit)
			if !hasProof(t) {
				c.Ph = pFinal
				c.Proof = g.drainProof(t, m, m.Leader)
			} else {
				p := taskProof(t)
				c.Proof = &p
				c.Pg = &progJ{LLEO: p.LEO, LHW: p.HW, TLEO: p.LEO, TCHW: p.HW}
				if vh.Chance(r, 0.12) {
					g.perturbProof(c.Proof) // a stale / partial proof reaches the commit phase
				}
			}
			return c, true
		case pCommit:
			if !hasProof(t) || t.DrainedFenceVersion != t.FenceVersion {
				if vh.Chance(r, 0.7) {
					return g.advance(t, sRunning, pFinal), true
				}
			}
			if vh.Chance(r, 0.12) {
				return g.staleMeta(m), true // the row moves on after the drain: the stored proof is stale
			}
			return g.commit(t, m), true
		case pVerifyL:
			return g.clearFence(t, m), true
		default:
			return g.advance(t, sBlocked, phase), true
		}
	}
	switch phase {
	case pValidate:
		if m.Leader == t.SourceNode {
			// embedded leader transfer away from the source first
			c := g.advance(t, sRunning, pProbe)
			for _, n := range m.ISR {
				if n != m.Leader {
					c.EDL = n
					break
				}
			}
			if c.EDL == 0 {
				return g.advance(t, sBlocked, phase), true
			}
			return c, true
		}
		return g.advance(t, sRunning, pAddL), true
	case pAddL:
		c := g.trans(t, m, "add_learner", sRunning, pBootstrap)
		c.Tgt = t.TargetNode
		return c, true
	case pBootstrap:
		return g.advance(t, sRunning, pWarm), true
	case pWarm:
		return g.setFence(t, m), true
	case pCutover:
		c := g.advance(t, sRunning, pFinal)
		c.Proof = g.drainProof(t, m, m.Leader)
		c.Pg = &progJ{LLEO: c.Proof.LEO, LHW: c.Proof.HW}
		return c, true
	case pFinal:
		c := g.advance(t, sRunning, pPromote)
		if !hasProof(t) {
			c.Ph = pFinal
			c.Proof = g.drainProof(t, m, m.Leader)
		} else {
			p := taskProof(t)
			c.Proof = &p
			if vh.Chance(r, 0.12) {
				g.perturbProof(c.Proof)
			}
		}
		return c, true
	case pPromote:
		if !hasProof(t) || t.DrainedFenceVersion != t.FenceVersion {
			if vh.Chance(r, 0.7) {
				return g.advance(t, sRunning, pFinal), true
			}
		}
		if vh.Chance(r, 0.12) {
			return g.staleMeta(m), true
		}
		return g.promote(t, m), true
	case pVerifyM:
		return g.clearFence(t, m), true
	default:
		return g.advance(t, sBlocked, phase), true
	}
}

func (g *generator) perturb(c *cmdJ) {
	r := g.r
	for n := 1 + r.IntN(2); n > 0; n-- {
		switch x := r.IntN(12); {
		case x < 3 && c.G != nil:
			g.perturbGuard(c.G)
		case x < 6 && c.RG != nil:
			g.perturbRGuard(c.RG)
		case x == 6 && c.Proof != nil:
			g.perturbProof(c.Proof)
		case x == 7:
			switch c.K {
			case "commit", "promote", "reset_fence":
				c.Now = vh.Pick(r, g.now+100000, int64(0), c.Now+301, c.Now+300)
			case "claim":
				c.Now = vh.Pick(r, int64(0), c.OwnL, c.OwnL+1)
			default:
				c.Up = vh.Pick(r, c.Up-1, c.Up-2, int64(0))
			}
		case x == 8:
			c.Ph = allPhases[r.IntN(len(allPhases))]
		case x == 9:
			c.St = uint8(r.IntN(8))
		case x == 10:
			switch c.K {
			case "commit":
				switch r.IntN(4) {
				case 0:
					c.DL = uint64(1 + r.IntN(5))
				case 1:
					c.NLE--
				case 2:
					c.NLE += 3
				default:
					c.Lease = 0
				}
			case "promote":
				if vh.Chance(r, 0.5) {
					c.Src, c.Tgt = c.Tgt, c.Src
				} else {
					c.Tgt = uint64(1 + r.IntN(5))
				}
			case "add_learner":
				c.Tgt = uint64(r.IntN(6))
			case "set_fence":
				if vh.Chance(r, 0.5) {
					c.FR = 0
				} else {
					c.FU = vh.Pick(r, int64(0), int64(-5), g.now-1)
				}
			case "clear_fence", "abort":
				c.Co = vh.Pick(r, int64(0), int64(-1), c.Co+5)
			case "advance":
				c.Co = vh.Pick(r, int64(0), g.now)
			}
		default:
			if c.G != nil && vh.Chance(r, 0.3) {
				other := baseChans[r.IntN(len(baseChans))]
				c.G.Ch, c.G.Ty = other.ID, other.Ty
			} else if c.RG != nil && vh.Chance(r, 0.3) {
				other := baseChans[r.IntN(len(baseChans))]
				c.RG.Ch, c.RG.Ty = other.ID, other.Ty
			} else {
				c.Up++
			}
		}
	}
}

// ---- non-executor actions --------------------------------------------------------------

func (g *generator) randomAdvance(t metadb.ChannelMigrationTask) cmdJ {
	r := g.r
	status := vh.Pick(r, sRunning, sRunning, sRunning, sBlocked, sPending, sCompleted, sFailed, sAborted)
	phase := allPhases[r.IntN(len(allPhases))]
	if vh.Chance(r, 0.04) {
		phase = vh.Pick(r, uint8(0), uint8(9))
	}
	c := g.advance(t, status, phase)
	if isTerminal(status) && vh.Chance(r, 0.15) {
		c.Co = 0
	}
	if vh.Chance(r, 0.1) {
		c.EDL = uint64(1 + r.IntN(4))
	}
	if vh.Chance(r, 0.15) {
		if m, ok := g.metaOf(t); ok {
			c.Proof = g.drainProof(t, m, m.Leader)
			if vh.Chance(r, 0.4) {
				g.perturbProof(c.Proof)
			}
		}
	}
	if vh.Chance(r, 0.1) {
		c.Next, c.BC, c.LErr = g.now+50, "code", "err"
		c.Pg = &progJ{Lag: 3, Stable: g.now}
	}
	return c
}

// rewind moves a post-commit / terminal task back to a phase from which Abort is accepted.
func (g *generator) rewind(t metadb.ChannelMigrationTask) cmdJ {
	r := g.r
	var back []uint8
	if t.Kind == metadb.ChannelMigrationKindReplicaReplace && !t.EmbeddedLeaderTransfer {
		back = []uint8{pPromote, pFinal, pCutover, pWarm, pValidate}
	} else {
		back = []uint8{pCommit, pFinal, pDrain, pProbe, pValidate}
	}
	phase := back[r.IntN(len(back))]
	if vh.Chance(r, 0.3) {
		c := g.claim(t, vh.Pick(r, g.me, t.OwnerNodeID, uint64(9)))
		if c.Own == 0 {
			c.Own = g.me
		}
		if t.OwnerNodeID != 0 && c.Own != t.OwnerNodeID {
			c.Now = t.OwnerLeaseUntilMS + 1
			if c.Now <= 0 {
				c.Now = g.now
			}
			c.OwnL = c.Now + 400
		}
		c.Ph = phase
		return c
	}
	return g.advance(t, sRunning, phase)
}

func (g *generator) reset(t metadb.ChannelMigrationTask, m metadb.ChannelRuntimeMeta) cmdJ {
	r := g.r
	phase := pWarm
	if t.Kind != metadb.ChannelMigrationKindReplicaReplace || t.EmbeddedLeaderTransfer {
		phase = vh.Pick(r, pProbe, pWFence)
	}
	if vh.Chance(r, 0.15) {
		phase = allPhases[r.IntN(len(allPhases))]
	}
	c := g.trans(t, m, "reset_fence", sRunning, phase)
	c.Now = m.WriteFenceUntilMS + 1
	if c.Now <= 0 {
		c.Now = g.now
	}
	if vh.Chance(r, 0.25) {
		c.Now = vh.Pick(r, m.WriteFenceUntilMS, m.WriteFenceUntilMS-1, g.now)
		if c.Now <= 0 {
			c.Now = 1
		}
	}
	return c
}

func (g *generator) upsertMeta(ch chanKey) cmdJ {
	r := g.r
	cur, ok := g.v.metas[ch]
	if !ok || vh.Chance(r, 0.05) {
		m := g.genMeta(ch)
		return cmdJ{K: "upsert_meta", Meta: &m}
	}
	m := metaToJ(cur)
	m.RG = 0
	switch r.IntN(9) {
	case 0: // new leader epoch, maybe a new leader
		m.LE++
		if len(m.ISR) > 0 && vh.Chance(r, 0.5) {
			m.Leader = m.ISR[r.IntN(len(m.ISR))]
		}
	case 1: // membership change
		m.CE++
		if vh.Chance(r, 0.5) {
			for n := uint64(1); n <= 5; n++ {
				if !contains(m.Replicas, n) {
					m.Replicas = append(m.Replicas, n)
					break
				}
			}
		}
	case 2: // foreign fence
		m.WFV++
		m.Token, m.Reason, m.Until = vh.Pick(r, "zz", "t1", "t2", "t3"), 1, g.now+300
	case 3: // fence cleared by somebody else
		m.WFV++
		m.Token, m.Reason, m.Until = "", 0, 0
	case 4:
		m.Lease += 100
	case 5:
		m.MinISR = int64(1 + r.IntN(3))
	case 6: // shrink the ISR (keeps the leader)
		if len(m.ISR) > 1 {
			drop := r.IntN(len(m.ISR))
			if m.ISR[drop] != m.Leader {
				m.ISR = append(append([]uint64(nil), m.ISR[:drop]...), m.ISR[drop+1:]...)
				m.LE++
			}
		}
	case 7: // invalid row
		switch r.IntN(3) {
		case 0:
			m.MinISR = 0
		case 1:
			m.Leader = 9
		default:
			m.ISR = append(m.ISR, 8)
		}
	default: // same row again
	}
	return cmdJ{K: "upsert_meta", Meta: &m}
}

// staleMeta moves the runtime-meta row on (new leader epoch, or new channel epoch) without touching
// the fence, so that a drain proof recorded before is stale.
func (g *generator) staleMeta(cur metadb.ChannelRuntimeMeta) cmdJ {
	m := metaToJ(cur)
	m.RG = 0
	if vh.Chance(g.r, 0.7) {
		m.LE++
	} else {
		m.CE++
	}
	return cmdJ{K: "upsert_meta", Meta: &m}
}

// ---- prediction of an accepted command (for follow-ups inside one batch) ----------------

func without(xs []uint64, x uint64) []uint64 {
	var out []uint64
	for _, v := range xs {
		if v != x {
			out = append(out, v)
		}
	}
	return out
}

func (g *generator) predict(c cmdJ) {
	switch c.K {
	case "upsert_meta":
		m := metadb.NormalizeChannelRuntimeMeta(c.Meta.real())
		if cur, ok := g.v.metas[chanKey{m.ChannelID, m.ChannelType}]; ok {
			m.RouteGeneration = cur.RouteGeneration + 1
		}
		g.v.metas[chanKey{m.ChannelID, m.ChannelType}] = m
		return
	case "create", "create_guarded":
		t := c.Task.real()
		k := tkey{chanKey{t.ChannelID, t.ChannelType}, t.TaskID}
		if _, ok := g.v.tasks[k]; !ok {
			g.v.tasks[k] = t
		}
		return
	case "gc":
		return
	}
	if c.G == nil {
		return
	}
	k := tkey{chanKey{c.G.Ch, c.G.Ty}, c.G.ID}
	t, ok := g.v.tasks[k]
	if !ok {
		return
	}
	m, hasMeta := g.v.metas[k.ch]
	clearProof := func() {
		t.CutoverLEO, t.CutoverHW, t.DrainedLeaderNode, t.DrainedRuntimeGeneration = 0, 0, 0, 0
		t.DrainedChannelEpoch, t.DrainedLeaderEpoch, t.DrainedFenceVersion = 0, 0, 0
	}
	clearFence := func() {
		t.FenceToken, t.FenceVersion, t.FenceUntilMS = "", 0, 0
		clearProof()
		if m.WriteFenceToken != "" {
			m.WriteFenceToken, m.WriteFenceReason, m.WriteFenceUntilMS = "", 0, 0
			m.WriteFenceVersion++
		}
	}
	t.Status, t.Phase, t.UpdatedAtMS = st(c.St), ph(c.Ph), c.Up
	switch c.K {
	case "claim":
		t.OwnerNodeID, t.OwnerLeaseUntilMS = c.Own, c.OwnL
	case "advance":
		t.Attempt, t.NextRunAtMS, t.BlockerCode, t.BlockerMessage, t.LastError = c.Att, c.Next, c.BC, c.BM, c.LErr
		t.CompletedAtMS, t.Progress = c.Co, c.pg().real()
		if p := c.proof(); p != (proofJ{}) {
			t.CutoverLEO, t.CutoverHW, t.DrainedLeaderNode, t.DrainedRuntimeGeneration = p.LEO, p.HW, p.DLN, p.DRG
			t.DrainedChannelEpoch, t.DrainedLeaderEpoch, t.DrainedFenceVersion = p.DCE, p.DLE, p.DFV
		}
		if c.EDL != 0 {
			t.EmbeddedLeaderTransfer, t.EmbeddedDesiredLeader = true, c.EDL
		}
	case "set_fence":
		clearProof()
		t.FenceToken, t.FenceVersion, t.FenceUntilMS = t.TaskID, m.WriteFenceVersion+1, c.FU
		m.WriteFenceToken, m.WriteFenceVersion, m.WriteFenceReason, m.WriteFenceUntilMS = t.TaskID, m.WriteFenceVersion+1, c.FR, c.FU
	case "reset_fence":
		clearFence()
	case "commit":
		m.Leader, m.LeaderEpoch, m.LeaseUntilMS = c.DL, c.NLE, c.Lease
	case "add_learner":
		if !contains(m.Replicas, c.Tgt) {
			m.Replicas = append(append([]uint64(nil), m.Replicas...), c.Tgt)
			m.ChannelEpoch++
		}
	case "promote":
		m.Replicas = append(without(m.Replicas, c.Src), c.Tgt)
		m.ISR = append(without(m.ISR, c.Src), c.Tgt)
		m.ChannelEpoch++
	case "clear_fence":
		if t.EmbeddedLeaderTransfer && c.Ph == pAddL {
			t.EmbeddedLeaderTransfer, t.EmbeddedDesiredLeader = false, 0
		}
		clearFence()
		t.CompletedAtMS = c.Co
	case "abort":
		clearFence()
		t.CompletedAtMS, t.LastError = c.Co, c.LErr
		if contains(m.Replicas, t.TargetNode) && !contains(m.ISR, t.TargetNode) && t.Kind == metadb.ChannelMigrationKindReplicaReplace {
			m.Replicas = without(m.Replicas, t.TargetNode)
			m.ChannelEpoch++
		}
	}
	g.v.tasks[k] = t
	if hasMeta {
		m = metadb.NormalizeChannelRuntimeMeta(m)
		g.v.metas[k.ch] = m
	}
}

// ---- one command -----------------------------------------------------------------------

func postCommit(t metadb.ChannelMigrationTask) bool {
	p := uint8(t.Phase)
	return p == pVerifyL || p == pVerifyM || p == pClear
}

func (g *generator) oneCmd() (cmdJ, bool) {
	r := g.r
	ch := g.chans[r.IntN(len(g.chans))]
	active := func(t metadb.ChannelMigrationTask) bool { return !isTerminal(uint8(t.Status)) }
	nActive := 0
	for _, t := range g.v.tasks {
		if active(t) {
			nActive++
		}
	}
	x := r.IntN(100)
	if x < 3 {
		g.now += vh.Pick(r, int64(350), 500, 5000)
	}
	pPerturb := 0.22
	if g.calm {
		pPerturb = 0.1
		// calm walk: 80% executor steps, the rest spread thinly
		switch {
		case x < 80:
			x = 10 // executor step
		case x < 84:
			x = 60 // create
		case x < 86:
			x = 70 // abort
		case x < 88:
			x = 76 // reset
		case x < 93:
			x = 82 // rewind of a post-commit / terminal task
		case x < 95:
			x = 87 // random advance / claim
		case x < 97:
			x = 91 // gc
		default:
			x = 97 // meta upsert
		}
	}
	switch {
	case x < 58 && nActive > 0:
		t, ok := g.pickTask(active)
		if !ok {
			return g.cmdCreate(ch)
		}
		c, ok := g.executorStep(t)
		if ok && vh.Chance(r, pPerturb) {
			g.perturb(&c)
		}
		return c, ok
	case x < 68 || (nActive == 0 && x < 80):
		return g.cmdCreate(ch)
	case x < 75:
		if t, ok := g.pickTask(nil); ok {
			if m, ok := g.metaOf(t); ok {
				c := g.abort(t, m)
				if vh.Chance(r, 0.15) {
					g.perturb(&c)
				}
				return c, true
			}
		}
		return g.cmdCreate(ch)
	case x < 80:
		if t, ok := g.pickTask(func(t metadb.ChannelMigrationTask) bool { return t.FenceToken != "" }); ok {
			if m, ok := g.metaOf(t); ok {
				c := g.reset(t, m)
				if vh.Chance(r, 0.15) {
					g.perturb(&c)
				}
				return c, true
			}
		}
		return g.upsertMeta(ch), true
	case x < 86:
		if t, ok := g.pickTask(func(t metadb.ChannelMigrationTask) bool { return postCommit(t) || isTerminal(uint8(t.Status)) }); ok {
			return g.rewind(t), true
		}
		if t, ok := g.pickTask(nil); ok {
			return g.randomAdvance(t), true
		}
		return g.cmdCreate(ch)
	case x < 90:
		if t, ok := g.pickTask(nil); ok {
			if vh.Chance(r, 0.6) {
				return g.randomAdvance(t), true
			}
			c := g.claim(t, uint64(7+r.IntN(3)))
			if vh.Chance(r, 0.5) {
				c.Now = t.OwnerLeaseUntilMS + int64(r.IntN(3)) - 1
				if c.Now <= 0 {
					c.Now = g.now
				}
				c.OwnL = c.Now + 400
			}
			if vh.Chance(r, 0.3) {
				c.Ph = allPhases[r.IntN(len(allPhases))]
				c.St = vh.Pick(r, sRunning, sPending, sBlocked, sCompleted)
			}
			return c, true
		}
		return g.cmdCreate(ch)
	case x < 94:
		return cmdJ{K: "gc", Before: vh.Pick(r, g.now, g.now+1000, g.now-40, int64(1), int64(0)), Limit: vh.Pick(r, 1, 1, 2, 10, 0)}, true
	default:
		return g.upsertMeta(ch), true
	}
}

func (g *generator) emit(batch []cmdJ) {
	if len(batch) == 0 {
		return
	}
	g.ops = append(g.ops, opJ{B: batch})
	func() {
		defer func() {
			if recover() != nil { // a panic of the implementation is reported by Run, not here
				g.w.close()
				g.w = newWorld()
			}
		}()
		g.w.apply(batch)
	}()
	g.refresh()
	g.tick()
}

// special multi-command batches aimed at the batch overlay / committed-DB read paths
func (g *generator) specialBatch() []cmdJ {
	r := g.r
	ch := g.chans[r.IntN(len(g.chans))]
	switch r.IntN(6) {
	case 0: // resurrect a terminal task and create another one
		if t, ok := g.pickTask(func(t metadb.ChannelMigrationTask) bool { return isTerminal(uint8(t.Status)) }); ok {
			a := g.rewind(t)
			g.predict(a)
			c, _ := g.cmdCreate(chanKey{t.ChannelID, t.ChannelType})
			if vh.Chance(r, 0.5) {
				return []cmdJ{a, c}
			}
			return []cmdJ{c, a}
		}
	case 1: // finish a task and start the next in one batch
		if t, ok := g.pickTask(func(t metadb.ChannelMigrationTask) bool { return !isTerminal(uint8(t.Status)) }); ok {
			var a cmdJ
			if m, ok := g.metaOf(t); ok && vh.Chance(r, 0.5) {
				a = g.abort(t, m)
			} else {
				a = g.advance(t, vh.Pick(r, sFailed, sCompleted), uint8(t.Phase))
			}
			g.predict(a)
			c, _ := g.cmdCreate(chanKey{t.ChannelID, t.ChannelType})
			return []cmdJ{a, c}
		}
	case 2: // two creates on one channel
		a, _ := g.cmdCreate(ch)
		b, _ := g.cmdCreate(ch)
		if vh.Chance(r, 0.3) {
			b = a
		}
		return []cmdJ{a, b}
	case 3: // meta + create + first step
		a := g.upsertMeta(ch)
		g.predict(a)
		b, _ := g.cmdCreate(ch)
		g.predict(b)
		out := []cmdJ{a, b}
		if t, ok := g.v.tasks[tkey{ch, b.Task.ID}]; ok {
			if c, ok := g.executorStep(t); ok {
				out = append(out, c)
			}
		}
		return out
	case 4: // terminal change + gc
		if t, ok := g.pickTask(nil); ok {
			a := g.randomAdvance(t)
			return []cmdJ{a, {K: "gc", Before: g.now + 1000, Limit: vh.Pick(r, 1, 10)}}
		}
	}
	return nil
}

func gen(r *rand.Rand, tier string, i int) input {
	g := &generator{r: r, now: 1000, me: 7, calm: vh.Chance(r, 0.6)}
	g.w = newWorld()
	defer g.w.close()
	g.chans = []chanKey{baseChans[r.IntN(len(baseChans))]}
	if vh.Chance(r, 0.3) {
		g.chans = append([]chanKey(nil), baseChans...)
	}
	g.refresh()
	// initial metas (a few histories start without one)
	var first []cmdJ
	for _, ch := range g.chans {
		if vh.Chance(r, 0.95) {
			m := g.genMeta(ch)
			first = append(first, cmdJ{K: "upsert_meta", Meta: &m})
		}
	}
	if vh.Chance(r, 0.5) {
		g.emit(first)
	} else {
		for _, c := range first {
			g.emit([]cmdJ{c})
		}
	}
	steps := 6 + r.IntN(22)
	if g.calm {
		steps = 14 + r.IntN(18)
	}
	if tier == "thorough" {
		steps = 6 + r.IntN(50)
	}
	for s := 0; s < steps; s++ {
		pSpecial, pMulti := 0.2, 0.15
		if g.calm {
			pSpecial, pMulti = 0.06, 0.06
		}
		if vh.Chance(r, pSpecial) {
			if b := g.specialBatch(); len(b) > 0 {
				g.emit(b)
				continue
			}
		}
		n := 1
		if vh.Chance(r, pMulti) {
			n = 2 + r.IntN(3)
		}
		var batch []cmdJ
		for j := 0; j < n; j++ {
			c, ok := g.oneCmd()
			if !ok {
				continue
			}
			batch = append(batch, c)
			if n > 1 {
				g.predict(c)
			}
		}
		g.emit(batch)
	}
	g.w.done()
	return input{Ops: g.ops}
}
