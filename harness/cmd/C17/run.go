package main

import (
	"context"
	"errors"
	"fmt"
	"os"
	"sort"

	"github.com/WuKongIM/WuKongIM/internal/verifh/vh"
	metadb "github.com/WuKongIM/WuKongIM/pkg/db/meta"
	"github.com/WuKongIM/WuKongIM/pkg/slot/fsm"
	"github.com/WuKongIM/WuKongIM/pkg/slot/multiraft"
	"github.com/WuKongIM/WuKongIM/pkg/wklog"
)

const slotID = 11

// One temporary meta DB per harness process; every world (one per generated
// history and one per run) gets a hash slot of its own, so the rows of
// different cases never meet.  Opening a Pebble DB costs ~50 ms, a case only
// a few commits.
var (
	sharedDir  string
	sharedDB   *metadb.DB
	nextHSlot  uint16
	sharedUses int
)

func openShared() {
	dir, err := os.MkdirTemp(tmpBase(), "verif-c17-")
	if err != nil {
		panic(err)
	}
	db, err := metadb.OpenWithLogger(dir, wklog.NewNop())
	if err != nil {
		os.RemoveAll(dir)
		panic(err)
	}
	sharedDir, sharedDB, nextHSlot, sharedUses = dir, db, 0, 0
}

func closeShared() {
	if sharedDB != nil {
		sharedDB.Close()
		sharedDB = nil
	}
	if sharedDir != "" {
		os.RemoveAll(sharedDir)
		sharedDir = ""
	}
}

// world is one hash slot of the shared DB with the real slot state machine on top.
type world struct {
	db       *metadb.DB
	sm       multiraft.BatchStateMachine
	hashSlot uint16
	idx      uint64
	ok       bool
}

func tmpBase() string {
	if st, err := os.Stat("/dev/shm"); err == nil && st.IsDir() {
		return "/dev/shm"
	}
	return ""
}

func newWorld() *world {
	if sharedDB == nil || nextHSlot >= 60000 {
		closeShared()
		openShared()
	}
	nextHSlot++
	hs := nextHSlot
	sm, err := fsm.NewStateMachineWithHashSlots(sharedDB, slotID, []uint16{hs})
	if err != nil {
		panic(err)
	}
	bsm, ok := sm.(multiraft.BatchStateMachine)
	if !ok {
		panic("slot state machine is not a BatchStateMachine")
	}
	return &world{db: sharedDB, sm: bsm, hashSlot: hs}
}

// close releases the world.  A world that was not closed cleanly (a panic of
// the implementation may have left locks held) takes the shared DB with it.
func (w *world) close() {
	if !w.ok {
		closeShared()
	}
}

func (w *world) done() { w.ok = true }

// batchResult: either Err != "" (ApplyBatch returned an error; class) or one
// result class per command: 0 ok, 1 stale_meta, 2 anything else.
type batchResult struct {
	Err     string   `json:"err,omitempty"`
	Results []uint64 `json:"results,omitempty"`
	Raw     []string `json:"raw,omitempty"`
}

func (w *world) apply(batch []cmdJ) batchResult {
	cmds := make([]multiraft.Command, len(batch))
	for i, c := range batch {
		w.idx++
		cmds[i] = multiraft.Command{SlotID: slotID, HashSlot: w.hashSlot, Index: w.idx, Term: 1, Data: c.encode()}
	}
	results, err := w.sm.ApplyBatch(context.Background(), cmds)
	if err != nil {
		switch {
		case errors.Is(err, metadb.ErrInvalidArgument):
			return batchResult{Err: "EInvalidArgument"}
		default:
			return batchResult{Err: "EOther", Raw: []string{err.Error()}}
		}
	}
	out := batchResult{}
	for i, r := range results {
		s := string(r)
		switch {
		case s == fsm.ApplyResultOK:
			out.Results = append(out.Results, 0)
		case s == fsm.ApplyResultStaleMeta:
			out.Results = append(out.Results, 1)
		default:
			if batch[i].K == "gc" {
				if n, ok, derr := fsm.DecodeGarbageCollectTerminalChannelMigrationTasksResult(r); ok && derr == nil {
					out.Results = append(out.Results, 0)
					s = fmt.Sprintf("gc:%d", n)
					break
				}
			}
			out.Results = append(out.Results, 2)
		}
		out.Raw = append(out.Raw, s)
	}
	return out
}

type chanKey struct {
	ID string
	Ty int64
}

func (w *world) tasks() []metadb.ChannelMigrationTask {
	ts, err := w.db.ForHashSlot(w.hashSlot).ListChannelMigrationTasks(context.Background())
	if err != nil {
		panic(fmt.Sprintf("ListChannelMigrationTasks: %v", err))
	}
	return ts
}

func (w *world) meta(k chanKey) (metadb.ChannelRuntimeMeta, bool) {
	m, err := w.db.ForHashSlot(w.hashSlot).GetChannelRuntimeMeta(context.Background(), k.ID, k.Ty)
	if err != nil {
		if errors.Is(err, metadb.ErrNotFound) {
			return metadb.ChannelRuntimeMeta{}, false
		}
		panic(fmt.Sprintf("GetChannelRuntimeMeta(%v): %v", k, err))
	}
	return m, true
}

func (w *world) activeIdx(k chanKey) (string, bool) {
	v, ok, err := metadb.VerifC17ActiveIndex(w.db, w.hashSlot, k.ID, k.Ty)
	if err != nil {
		panic(fmt.Sprintf("active index(%v): %v", k, err))
	}
	return v, ok
}

func (w *world) task(k chanKey, id string) (metadb.ChannelMigrationTask, bool) {
	for _, t := range w.tasks() {
		if t.ChannelID == k.ID && t.ChannelType == k.Ty && t.TaskID == id {
			return t, true
		}
	}
	return metadb.ChannelMigrationTask{}, false
}

// ---- the channel alphabet of an input --------------------------------------------

func validKey(s string) bool { return s != "" && len(s) <= 64 }

func chanAlphabet(in input) []chanKey {
	seen := map[chanKey]bool{}
	var keys []chanKey
	add := func(id string, ty int64) {
		k := chanKey{id, ty}
		if !validKey(id) || seen[k] {
			return
		}
		seen[k] = true
		keys = append(keys, k)
	}
	for _, op := range in.Ops {
		for _, c := range op.B {
			if c.Meta != nil {
				add(c.Meta.ID, c.Meta.Type)
			}
			if c.Task != nil {
				add(c.Task.Ch, c.Task.Ty)
			}
			if c.G != nil {
				add(c.G.Ch, c.G.Ty)
			}
			if c.RG != nil {
				add(c.RG.Ch, c.RG.Ty)
			}
		}
	}
	sort.Slice(keys, func(i, j int) bool {
		if keys[i].ID != keys[j].ID {
			return keys[i].ID < keys[j].ID
		}
		return keys[i].Ty < keys[j].Ty
	})
	return keys
}

func coqChan(k chanKey) string { return vh.App("ChanKey", hexS(k.ID), vh.Z(k.Ty)) }

// ---- run ----------------------------------------------------------------------------

type stepObs struct {
	Res    batchResult `json:"res"`
	Tasks  []string    `json:"tasks"`
	Active []string    `json:"active"`
	Metas  []string    `json:"metas"`
}

func taskBrief(t metadb.ChannelMigrationTask) string {
	return fmt.Sprintf("%s/%d/%s k%d s%d p%d own%d up%d fence=%s/%d/%d emb=%v proof=%d/%d/%d/%d/%d/%d/%d co%d",
		t.ChannelID, t.ChannelType, t.TaskID, t.Kind, t.Status, t.Phase, t.OwnerNodeID, t.UpdatedAtMS,
		t.FenceToken, t.FenceVersion, t.FenceUntilMS, t.EmbeddedLeaderTransfer,
		t.CutoverLEO, t.CutoverHW, t.DrainedLeaderNode, t.DrainedRuntimeGeneration, t.DrainedChannelEpoch,
		t.DrainedLeaderEpoch, t.DrainedFenceVersion, t.CompletedAtMS)
}

func metaBrief(m metadb.ChannelRuntimeMeta) string {
	return fmt.Sprintf("%s/%d ce%d le%d rg%d rep%v isr%v ldr%d min%d lease%d fence=%s/%d/%d/%d",
		m.ChannelID, m.ChannelType, m.ChannelEpoch, m.LeaderEpoch, m.RouteGeneration, m.Replicas, m.ISR, m.Leader,
		m.MinISR, m.LeaseUntilMS, m.WriteFenceToken, m.WriteFenceVersion, m.WriteFenceReason, m.WriteFenceUntilMS)
}

func run(in input) vh.Result {
	w := newWorld()
	defer w.close()
	keys := chanAlphabet(in)
	flags := map[string]bool{}
	var steps []string
	var obs []stepObs
	ncmds := 0
	prevState := "[] [] []"
	for _, op := range in.Ops {
		if len(op.B) == 0 {
			continue
		}
		ncmds += len(op.B)
		res := w.apply(op.B)
		so := stepObs{Res: res}
		// observations after the batch
		tasks := w.tasks()
		so.Tasks = make([]string, len(tasks))
		for i, t := range tasks {
			so.Tasks[i] = taskBrief(t)
		}
		act := make([]string, len(keys))
		metas := make([]string, len(keys))
		for i, k := range keys {
			if id, ok := w.activeIdx(k); ok {
				act[i] = vh.Pair(coqChan(k), vh.Some(hexS(id)))
				so.Active = append(so.Active, k.ID+"->"+id)
			} else {
				act[i] = vh.Pair(coqChan(k), vh.None())
			}
			if m, ok := w.meta(k); ok {
				metas[i] = vh.Pair(coqChan(k), vh.Some(coqMeta(m)))
				so.Metas = append(so.Metas, metaBrief(m))
			} else {
				metas[i] = vh.Pair(coqChan(k), vh.None())
			}
		}
		var coqRes string
		if res.Err != "" {
			coqRes = vh.App("BErr", res.Err)
			flags["batch_"+res.Err] = true
		} else {
			coqRes = vh.App("BResults", vh.NList(res.Results))
		}
		classify(op.B, res, flags)
		state := vh.ListOf(tasks, coqTask) + " " + vh.List(act) + " " + vh.List(metas)
		var coqObs string
		if state == prevState {
			coqObs = vh.App("Same", coqRes)
		} else {
			coqObs = vh.App("Full", vh.App("Obs", coqRes, state))
		}
		prevState = state
		steps = append(steps, vh.Pair(vh.ListOf(op.B, func(c cmdJ) string { return c.coq() }), coqObs))
		obs = append(obs, so)
	}
	// class label for the evidence histogram: how deep the walk got + which interruptions were accepted
	depth := "meta_only"
	for _, d := range [][2]string{{"clear_fence_ok", "cleared"}, {"promote_ok", "promoted"}, {"commit_ok", "committed"},
		{"set_fence_ok", "fenced"}, {"add_learner_ok", "learner"}, {"created", "created"}} {
		if flags[d[0]] {
			depth = d[1]
			break
		}
	}
	class := depth
	for _, f := range []string{"abort_ok", "reset_fence_ok", "commit_stale", "promote_stale"} {
		if flags[f] {
			class += "+" + f
		}
	}
	if ncmds == 0 {
		class = "empty"
	}
	w.done()
	return vh.Result{
		Coq:     vh.App("C17Case", vh.List(steps)),
		Obs:     obs,
		Class:   class,
		Trivial: ncmds == 0,
	}
}

// classify records which interesting branches a batch reached (for the evidence histogram).
func classify(b []cmdJ, res batchResult, flags map[string]bool) {
	if len(b) > 1 {
		flags["multi"] = true
	}
	if res.Err != "" {
		return
	}
	for i, c := range b {
		if i >= len(res.Results) {
			break
		}
		switch res.Results[i] {
		case 0:
			switch c.K {
			case "commit", "promote", "abort", "reset_fence", "clear_fence", "set_fence", "add_learner", "gc":
				flags[c.K+"_ok"] = true
			case "create", "create_guarded":
				flags["created"] = true
			}
		case 1:
			switch c.K {
			case "commit", "promote", "abort":
				flags[c.K+"_stale"] = true
			default:
				flags["stale"] = true
			}
		}
	}
}
