// Harness for C20: the hash-slot table assigns every hash slot to exactly one
// slot; codec round trip; version monotonicity; add / remove / rebalance plans.
//
// One case = NewHashSlotTable(count, phys) followed by a history of operations on
// the real pkg/hashslot table.  After every operation the harness observes the
// operation's result and the complete table (Version, HashSlotCount, Lookup of
// every hash slot, ActiveMigrations), printed relative to the previous observation
// (SSame / SDelta / SFull, assignments run-length encoded).
package main

import (
	"encoding/binary"
	"encoding/hex"
	"fmt"
	"io"
	"math/rand/v2"
	"sort"
	"strings"

	"github.com/WuKongIM/WuKongIM/internal/verifh/vh"
	cstate "github.com/WuKongIM/WuKongIM/pkg/controller/state"
	"github.com/WuKongIM/WuKongIM/pkg/hashslot"
	"github.com/WuKongIM/WuKongIM/pkg/slot/multiraft"
)

type op struct {
	K     string      `json:"k"`
	HS    uint16      `json:"hs,omitempty"`
	A     uint64      `json:"a,omitempty"`
	B     uint64      `json:"b,omitempty"`
	Ph    uint8       `json:"ph,omitempty"`
	Apply bool        `json:"apply,omitempty"`
	Data  string      `json:"data,omitempty"`
	Slots []uint64    `json:"slots,omitempty"`
	Cur   [][2]uint64 `json:"cur,omitempty"`
	Tgt   [][2]uint64 `json:"tgt,omitempty"`
}

type input struct {
	Kind  string `json:"kind,omitempty"` // generator label only (histogram)
	Count uint16 `json:"count"`
	Phys  int    `json:"phys"`
	Ops   []op   `json:"ops"`
}


// ---------------------------------------------------------------- Coq printers
// Lists and pairs are printed with constructors, not with the [a; b] / (a, b)
// notations: coqc parses and elaborates constructor applications several times
// faster.  Long lists are split into chunks joined by [app] to bound the nesting.

func clist(items []string) string {
	const chunk = 48
	if len(items) > chunk {
		return "(app " + clist(items[:chunk]) + " " + clist(items[chunk:]) + ")"
	}
	var b strings.Builder
	for _, it := range items {
		b.WriteString("(cons ")
		b.WriteString(it)
		b.WriteString(" ")
	}
	b.WriteString("nil")
	for range items {
		b.WriteString(")")
	}
	return b.String()
}

func clistOf[T any](xs []T, f func(T) string) string {
	items := make([]string, len(xs))
	for i, x := range xs {
		items[i] = f(x)
	}
	return clist(items)
}

func cnlist(xs []uint64) string { return clistOf(xs, vh.N) }

func cpair(a, b string) string { return "(pair " + a + " " + b + ")" }

// ---------------------------------------------------------------- observation

type snap struct {
	version uint64
	count   uint16
	assign  []uint64
	migs    []hashslot.HashSlotMigration
}

func observe(t *hashslot.HashSlotTable) snap {
	s := snap{version: t.Version(), count: t.HashSlotCount()}
	s.assign = make([]uint64, int(s.count))
	for hs := 0; hs < int(s.count); hs++ {
		s.assign[hs] = uint64(t.Lookup(uint16(hs)))
	}
	s.migs = t.ActiveMigrations()
	return s
}

func (a snap) equal(b snap) bool {
	if a.version != b.version || a.count != b.count || len(a.assign) != len(b.assign) || len(a.migs) != len(b.migs) {
		return false
	}
	for i := range a.assign {
		if a.assign[i] != b.assign[i] {
			return false
		}
	}
	for i := range a.migs {
		if a.migs[i] != b.migs[i] {
			return false
		}
	}
	return true
}

func migCoq(m hashslot.HashSlotMigration) string {
	return vh.App("Mig", vh.N(uint64(m.HashSlot)), vh.N(uint64(m.Source)), vh.N(uint64(m.Target)), vh.N(uint64(m.Phase)))
}

// coq renders the complete table; the assignment is run-length encoded
// ((slot, run length) pairs, expanded by [unrle] on the Coq side).
func (s snap) coq() string {
	type run struct{ slot, n uint64 }
	var runs []run
	for _, a := range s.assign {
		if len(runs) > 0 && runs[len(runs)-1].slot == a {
			runs[len(runs)-1].n++
		} else {
			runs = append(runs, run{a, 1})
		}
	}
	rs := clistOf(runs, func(r run) string { return cpair(vh.N(r.slot), vh.N(r.n)) })
	return vh.App("TblR", vh.N(s.version), vh.N(uint64(s.count)), rs, clistOf(s.migs, migCoq))
}

// rel renders the table s relative to the previous observation prev: SSame,
// SDelta (changed hash slots only) or SFull.
func (s snap) rel(prev snap) string {
	if s.equal(prev) {
		return "SSame"
	}
	if s.count == prev.count && len(s.assign) == len(prev.assign) {
		var ch [][2]uint64
		for i := range s.assign {
			if s.assign[i] != prev.assign[i] {
				ch = append(ch, [2]uint64{uint64(i), s.assign[i]})
			}
		}
		if len(ch) <= 8+len(s.assign)/8 {
			return vh.App("SDelta", vh.N(s.version), pairsCoq(ch), clistOf(s.migs, migCoq))
		}
	}
	return vh.App("SFull", s.coq())
}

func planCoq(p []hashslot.MigrationPlan) string {
	return clistOf(p, func(m hashslot.MigrationPlan) string {
		return vh.App("Move", vh.N(uint64(m.HashSlot)), vh.N(uint64(m.From)), vh.N(uint64(m.To)))
	})
}

func pairsCoq(ps [][2]uint64) string {
	return clistOf(ps, func(p [2]uint64) string { return cpair(vh.N(p[0]), vh.N(p[1])) })
}

func toMap(ps [][2]uint64) map[multiraft.SlotID]int {
	m := make(map[multiraft.SlotID]int, len(ps))
	for _, p := range ps {
		if _, dup := m[multiraft.SlotID(p[0])]; dup {
			continue // the model's association list keeps the first binding
		}
		m[multiraft.SlotID(p[0])] = int(p[1])
	}
	return m
}

func slotIDs(xs []uint64) []multiraft.SlotID {
	out := make([]multiraft.SlotID, len(xs))
	for i, x := range xs {
		out[i] = multiraft.SlotID(x)
	}
	return out
}

func u64s(xs []multiraft.SlotID) []uint64 {
	out := make([]uint64, len(xs))
	for i, x := range xs {
		out[i] = uint64(x)
	}
	return out
}

// ---------------------------------------------------------------- executing one op

// exec runs one operation on the real table. It returns the Coq term of the op,
// the Coq term of its result, and the (possibly replaced) table.
func exec(t *hashslot.HashSlotTable, o op, st *stats) (string, string, *hashslot.HashSlotTable) {
	switch o.K {
	case "reassign":
		t.Reassign(o.HS, multiraft.SlotID(o.A))
		return vh.App("OReassign", vh.N(uint64(o.HS)), vh.N(o.A)), "RNone", t
	case "start":
		t.StartMigration(o.HS, multiraft.SlotID(o.A), multiraft.SlotID(o.B))
		st.mig++
		return vh.App("OStart", vh.N(uint64(o.HS)), vh.N(o.A), vh.N(o.B)), "RNone", t
	case "advance":
		t.AdvanceMigration(o.HS, hashslot.MigrationPhase(o.Ph))
		return vh.App("OAdvance", vh.N(uint64(o.HS)), vh.N(uint64(o.Ph))), "RNone", t
	case "finalize":
		t.FinalizeMigration(o.HS)
		return vh.App("OFinalize", vh.N(uint64(o.HS))), "RNone", t
	case "abort":
		t.AbortMigration(o.HS)
		return vh.App("OAbort", vh.N(uint64(o.HS))), "RNone", t
	case "lookup":
		return vh.App("OLookup", vh.N(uint64(o.HS))), vh.App("RSlot", vh.N(uint64(t.Lookup(o.HS)))), t
	case "owners":
		hs := t.HashSlotsOf(multiraft.SlotID(o.A))
		xs := make([]uint64, len(hs))
		for i, h := range hs {
			xs[i] = uint64(h)
		}
		return vh.App("OOwners", vh.N(o.A)), vh.App("RList", cnlist(xs)), t
	case "assigned":
		return "OAssigned", vh.App("RList2", cnlist(u64s(t.AssignedSlotIDs())), cnlist(u64s(hashslot.VerifTableActiveSlotIDs(t)))), t
	case "getmig":
		m := t.GetMigration(o.HS)
		r := vh.App("RMig", vh.None())
		if m != nil {
			r = vh.App("RMig", vh.Some(migCoq(*m)))
		}
		return vh.App("OGetMig", vh.N(uint64(o.HS))), r, t
	case "encdec":
		data := t.Encode()
		dec, err := hashslot.DecodeHashSlotTable(data)
		r := vh.App("REnc", vh.Hex(data), vh.None())
		if err == nil {
			r = vh.App("REnc", vh.Hex(data), vh.Some(observe(dec).rel(observe(t))))
			// continue on the decoded copy: later operations run on a table that
			// went through the codec
			t = dec
		}
		st.codec++
		if len(t.ActiveMigrations()) > 0 {
			st.codecMig++
		}
		return "OEncDec", r, t
	case "decode":
		data, err := hex.DecodeString(o.Data)
		if err != nil {
			panic(err)
		}
		dec, derr := hashslot.DecodeHashSlotTable(data)
		if derr == nil {
			st.decOK++
			return vh.App("ODecode", vh.Hex(data)), vh.App("RDecode", "true"), dec
		}
		st.decErr++
		return vh.App("ODecode", vh.Hex(data)), vh.App("RDecode", "false"), t
	case "add", "remove", "rebalance":
		var plan []hashslot.MigrationPlan
		var c string
		switch o.K {
		case "add":
			plan = hashslot.ComputeAddSlotPlan(t, multiraft.SlotID(o.A))
			c = vh.App("OAdd", vh.N(o.A), vh.B(o.Apply))
		case "remove":
			plan = hashslot.ComputeRemoveSlotPlan(t, multiraft.SlotID(o.A))
			c = vh.App("ORemove", vh.N(o.A), vh.B(o.Apply))
		default:
			plan = hashslot.ComputeRebalancePlan(t)
			c = vh.App("ORebalance", vh.B(o.Apply))
		}
		st.plans++
		st.moves += len(plan)
		if o.Apply {
			for _, m := range plan {
				t.Reassign(m.HashSlot, m.To)
			}
		}
		return c, vh.App("RPlan", planCoq(plan)), t
	case "ideal":
		m := hashslot.VerifIdealSlotCounts(int(o.A), slotIDs(o.Slots))
		return vh.App("OIdeal", vh.N(o.A), cnlist(o.Slots)), vh.App("RMap", pairsCoq(sortedPairs(m))), t
	case "select":
		cur, tgt := toMap(o.Cur), toMap(o.Tgt)
		var s multiraft.SlotID
		if o.Apply {
			s = hashslot.VerifSelectLargestSurplusSlot(cur, tgt, slotIDs(o.Slots))
		} else {
			s = hashslot.VerifSelectSmallestDeficitSlot(cur, tgt, slotIDs(o.Slots))
		}
		return vh.App("OSelect", vh.B(o.Apply), pairsCoq(o.Cur), pairsCoq(o.Tgt), cnlist(o.Slots)), vh.App("RSlot", vh.N(uint64(s))), t
	case "clone":
		return "OClone", "RNone", t.Clone()
	case "buildinit":
		tb, err := cstate.BuildInitialHashSlotTable(uint32(o.A), o.HS)
		c := vh.App("OBuildInit", vh.N(uint64(uint32(o.A))), vh.N(uint64(o.HS)))
		if err != nil {
			return c, vh.App("RRanges", vh.None()), t
		}
		rs := clistOf(tb.Ranges, func(r cstate.HashSlotRange) string {
			return vh.App("Rng", vh.N(uint64(r.From)), vh.N(uint64(r.To)), vh.N(uint64(r.SlotID)))
		})
		return c, vh.App("RRanges", vh.Some(cpair(vh.N(uint64(tb.SlotCount)), rs))), t
	}
	panic("unknown op kind " + o.K)
}

func sortedPairs(m map[multiraft.SlotID]int) [][2]uint64 {
	out := make([][2]uint64, 0, len(m))
	for k, v := range m {
		out = append(out, [2]uint64{uint64(k), uint64(v)})
	}
	sort.Slice(out, func(i, j int) bool { return out[i][0] < out[j][0] })
	return out
}

type stats struct {
	mig, codec, codecMig, decOK, decErr, plans, moves int
}

func run(in input) vh.Result {
	t := hashslot.NewHashSlotTable(in.Count, in.Phys)
	prev := observe(t)
	init := prev.coq()
	var st stats
	steps := make([]string, 0, len(in.Ops))
	for _, o := range in.Ops {
		oc, rc, nt := exec(t, o, &st)
		t = nt
		cur := observe(t)
		sc := cur.rel(prev)
		prev = cur
		steps = append(steps, vh.App("Step", oc, rc, sc))
	}
	phys := vh.Z(int64(in.Phys))
	kind := in.Kind
	if kind == "" {
		kind = "corpus"
	}
	// class = generator kind, the dominant thing the history exercised, table size
	feat := "-"
	switch {
	case st.plans > 0 && st.moves > 0:
		feat = "plan-moves"
	case st.plans > 0:
		feat = "plan-empty"
	case st.codecMig > 0:
		feat = "codec+mig"
	case st.decOK > 0 && st.decErr > 0:
		feat = "dec-ok+err"
	case st.decOK > 0:
		feat = "dec-ok"
	case st.decErr > 0:
		feat = "dec-err"
	case st.codec > 0:
		feat = "codec"
	case st.mig > 0:
		feat = "mig"
	}
	size := "small"
	if in.Count > 64 {
		size = "large"
	}
	if in.Count == 0 {
		size = "empty"
	}
	class := fmt.Sprintf("%s[%s]%s", kind, feat, size)
	return vh.Result{
		Coq: vh.App("C20Case", vh.N(uint64(in.Count)), phys, init, clist(steps)),
		Obs: map[string]any{"final_version": prev.version, "ops": len(in.Ops), "plans": st.plans, "moves": st.moves,
			"migration_starts": st.mig, "codec_roundtrips": st.codec, "codec_with_migrations": st.codecMig,
			"decode_ok": st.decOK, "decode_err": st.decErr, "final_migrations": len(prev.migs)},
		Class:   class,
		Trivial: len(in.Ops) == 0,
	}
}

// ---------------------------------------------------------------- generator

// The generator mirrors the history on a real table so that it can draw
// operations that are mostly valid in the current state (migration of the current
// owner, removal of an active slot, mutated copies of the current encoding).
type genState struct {
	r     *rand.Rand
	t     *hashslot.HashSlotTable
	ops   []op
	alpha uint64 // slot-id alphabet 1..alpha
}

func (g *genState) push(o op) {
	var st stats
	_, _, nt := exec(g.t, o, &st)
	g.t = nt
	g.ops = append(g.ops, o)
}

func (g *genState) count() int { return int(g.t.HashSlotCount()) }

func (g *genState) hs() uint16 {
	n := g.count()
	if n == 0 || vh.Chance(g.r, 0.04) {
		return uint16(g.r.IntN(70000) % 65536) // out of range / arbitrary
	}
	if vh.Chance(g.r, 0.5) && n > 6 {
		return uint16(g.r.IntN(6)) // small alphabet: collisions between ops
	}
	return uint16(g.r.IntN(n))
}

func (g *genState) slot() uint64 {
	switch g.r.IntN(40) {
	case 0:
		return 0
	case 1:
		return ^uint64(0) - uint64(g.r.IntN(2))
	case 2:
		return g.alpha + 1 + uint64(g.r.IntN(3))
	}
	return 1 + g.r.Uint64N(g.alpha)
}

// slotNZ draws a physical slot id (never 0): the property's tables map hash slots to physical slots.
func (g *genState) slotNZ() uint64 {
	s := g.slot()
	if s == 0 {
		return 1
	}
	return s
}

func (g *genState) active() []multiraft.SlotID { return g.t.AssignedSlotIDs() }

func (g *genState) freshSlot() uint64 {
	act := g.active()
	for try := 0; try < 20; try++ {
		s := 1 + g.r.Uint64N(g.alpha+3)
		found := false
		for _, a := range act {
			if uint64(a) == s {
				found = true
			}
		}
		if !found {
			return s
		}
	}
	return g.alpha + 9
}

func (g *genState) mutator() {
	r := g.r
	switch r.IntN(12) {
	case 0, 1, 2:
		g.push(op{K: "reassign", HS: g.hs(), A: g.slotNZ()})
	case 3, 4, 5:
		hs := g.hs()
		src := uint64(g.t.Lookup(hs))
		if vh.Chance(r, 0.15) {
			src = g.slot()
		}
		g.push(op{K: "start", HS: hs, A: src, B: g.slot()})
	case 6, 7:
		g.push(op{K: "advance", HS: g.migHS(), Ph: g.phase()})
	case 8, 9:
		g.push(op{K: "finalize", HS: g.migHS()})
	case 10:
		g.push(op{K: "abort", HS: g.migHS()})
	case 11:
		g.push(op{K: "reassign", HS: g.hs(), A: g.slot()})
	}
}

func (g *genState) phase() uint8 {
	if vh.Chance(g.r, 0.1) {
		return uint8(g.r.IntN(256))
	}
	return uint8(g.r.IntN(4))
}

// migHS prefers a hash slot with an active migration.
func (g *genState) migHS() uint16 {
	ms := g.t.ActiveMigrations()
	if len(ms) > 0 && vh.Chance(g.r, 0.8) {
		return ms[g.r.IntN(len(ms))].HashSlot
	}
	return g.hs()
}

func (g *genState) query() {
	if vh.Chance(g.r, 0.08) {
		g.push(op{K: "clone"})
		return
	}
	switch g.r.IntN(6) {
	case 0, 1:
		g.push(op{K: "lookup", HS: g.hs()})
	case 2:
		g.push(op{K: "owners", A: g.slot()})
	case 3:
		g.push(op{K: "assigned"})
	case 4:
		g.push(op{K: "getmig", HS: g.migHS()})
	case 5:
		if g.codecOK() {
			g.push(op{K: "encdec"})
		} else {
			g.push(op{K: "assigned"})
		}
	}
}

func (g *genState) plan(apply bool) {
	switch g.r.IntN(7) {
	case 0, 1, 2:
		g.push(op{K: "add", A: g.freshSlot(), Apply: apply})
	case 3, 4:
		act := g.active()
		if len(act) == 0 {
			g.push(op{K: "remove", A: g.slot(), Apply: apply})
			return
		}
		g.push(op{K: "remove", A: uint64(act[g.r.IntN(len(act))]), Apply: apply})
	case 5:
		g.push(op{K: "rebalance", Apply: apply})
	case 6: // degenerate arguments: existing / absent / zero slot
		if vh.Chance(g.r, 0.5) {
			g.push(op{K: "add", A: g.slot(), Apply: apply})
		} else {
			g.push(op{K: "remove", A: g.slot(), Apply: apply})
		}
	}
}

// skew moves a burst of hash slots to one slot (the F6 shape: an unbalanced table).
func (g *genState) skew() {
	n := g.count()
	if n == 0 {
		g.plan(true)
		return
	}
	to := g.slotNZ()
	k := 1 + g.r.IntN(n)
	if k > 40 {
		k = 40
	}
	start := g.r.IntN(n)
	for i := 0; i < k; i++ {
		g.push(op{K: "reassign", HS: uint16((start + i) % n), A: to})
	}
}

// codecOK: hex payloads are printed into the case file; keep them moderate.
func (g *genState) codecOK() bool { return g.count() <= 512 }

func (g *genState) malformed() {
	r := g.r
	if !g.codecOK() {
		g.query()
		return
	}
	data := g.t.Encode()
	switch r.IntN(9) {
	case 0: // truncate
		if len(data) > 0 {
			data = data[:r.IntN(len(data))]
		}
	case 1: // extend
		data = append(data, vh.Bytes(r, 1+r.IntN(24))...)
	case 2: // flip one byte
		if len(data) > 0 {
			data = append([]byte(nil), data...)
			data[r.IntN(len(data))] ^= byte(1 + r.IntN(255))
		}
	case 3: // version field
		if len(data) >= 2 {
			data = append([]byte(nil), data...)
			binary.BigEndian.PutUint16(data[:2], uint16(r.IntN(4)))
		}
	case 4: // v1 layout: header + assignment only
		n := g.count()
		if len(data) >= 12+8*n {
			data = append([]byte(nil), data[:12+8*n]...)
			binary.BigEndian.PutUint16(data[:2], uint16(1+r.IntN(2)))
		}
	case 5: // table version at the wrap boundary
		if len(data) >= 12 {
			data = append([]byte(nil), data...)
			binary.BigEndian.PutUint64(data[4:12], ^uint64(0)-uint64(r.IntN(2)))
		}
	case 6: // hand-made v2 payload with unsorted / duplicate / out-of-range migration records
		n := r.IntN(5)
		b := binary.BigEndian.AppendUint16(nil, 2)
		b = binary.BigEndian.AppendUint16(b, uint16(n))
		b = binary.BigEndian.AppendUint64(b, r.Uint64N(5))
		for i := 0; i < n; i++ {
			b = binary.BigEndian.AppendUint64(b, g.slot())
		}
		m := r.IntN(5)
		b = binary.BigEndian.AppendUint16(b, uint16(m))
		for i := 0; i < m; i++ {
			b = binary.BigEndian.AppendUint16(b, uint16(r.IntN(4)))
			b = append(b, byte(r.IntN(5)), byte(r.IntN(3)))
			b = binary.BigEndian.AppendUint64(b, g.slot())
			b = binary.BigEndian.AppendUint64(b, g.slot())
		}
		data = b
	case 7: // migration count field disagrees with the payload
		if len(data) >= 14+8*g.count() {
			data = append([]byte(nil), data...)
			off := 12 + 8*g.count()
			binary.BigEndian.PutUint16(data[off:off+2], uint16(r.IntN(4)))
		}
	case 8:
		data = vh.Bytes(r, r.IntN(40))
	}
	g.push(op{K: "decode", Data: hex.EncodeToString(data)})
}

func (g *genState) unitOps() {
	r := g.r
	switch r.IntN(3) {
	case 0:
		k := r.IntN(7)
		slots := make([]uint64, k)
		for i := range slots {
			slots[i] = 1 + r.Uint64N(12)
		}
		if vh.Chance(r, 0.7) { // distinct, as every caller passes
			seen := map[uint64]bool{}
			out := slots[:0]
			for _, s := range slots {
				if !seen[s] {
					seen[s] = true
					out = append(out, s)
				}
			}
			slots = out
		}
		g.push(op{K: "ideal", A: uint64(r.IntN(40)), Slots: slots})
	case 1:
		k := 1 + r.IntN(6)
		var cur, tgt [][2]uint64
		var cands []uint64
		for i := 0; i < k; i++ {
			id := uint64(1 + r.IntN(8))
			if vh.Chance(r, 0.85) {
				cur = append(cur, [2]uint64{id, uint64(r.IntN(5))})
			}
			if vh.Chance(r, 0.85) {
				tgt = append(tgt, [2]uint64{id, uint64(r.IntN(5))})
			}
			if vh.Chance(r, 0.85) {
				cands = append(cands, id)
			}
		}
		if vh.Chance(r, 0.1) {
			cands = append(cands, 0)
		}
		g.push(op{K: "select", Apply: vh.Chance(r, 0.5), Cur: cur, Tgt: tgt, Slots: cands})
	case 2:
		hsCount := uint16(r.IntN(40))
		if vh.Chance(r, 0.1) {
			hsCount = uint16(r.IntN(65536))
		}
		slots := uint64(r.IntN(12))
		if vh.Chance(r, 0.1) {
			slots = uint64(r.IntN(300))
		}
		g.push(op{K: "buildinit", HS: hsCount, A: slots})
	}
}

func gen(r *rand.Rand, tier string, i int) input {
	var count uint16
	switch x := r.IntN(100); {
	case x < 1:
		count = 0
	case x < 45:
		count = uint16(1 + r.IntN(16))
	case x < 82:
		count = uint16(17 + r.IntN(48))
	case x < 94:
		count = uint16(65 + r.IntN(236))
	case x < 98:
		count = uint16(301 + r.IntN(724))
	default:
		count = vh.Pick(r, uint16(4096), 2048, 1500)
	}
	if tier == "thorough" && vh.Chance(r, 0.3) { // exhaustive flavour: tiny tables, long histories
		count = uint16(1 + r.IntN(8))
	}
	var phys int
	switch x := r.IntN(20); {
	case x == 0:
		phys = vh.Pick(r, 0, -1, -5)
	case x == 1:
		phys = int(count) + r.IntN(5) // >= count
	case x < 5:
		phys = 1 + r.IntN(64)
	default:
		phys = 1 + r.IntN(6)
	}
	kinds := []string{"balanced-plans", "balanced-plans", "nudged-plans", "wide-nudged", "skew-plans", "mixed", "mixed", "migrations", "codec", "malformed", "units"}
	kind := kinds[r.IntN(len(kinds))]
	if kind == "wide-nudged" { // many slots, few hash slots each: shares change rank when a slot leaves (the K2 shape)
		k := 5 + r.IntN(5)
		phys = k
		count = uint16(k*(1+r.IntN(3)) + r.IntN(k))
	}
	big := count > 300
	g := &genState{r: r, t: hashslot.NewHashSlotTable(count, phys), alpha: uint64(2 + r.IntN(6))}
	if phys > 0 && phys < 70 && vh.Chance(r, 0.6) {
		g.alpha = uint64(phys) + uint64(r.IntN(3))
	}
	budget := 4 + r.IntN(21)
	if big {
		budget = 1 + r.IntN(4)
	} else if count > 64 {
		budget = 2 + r.IntN(8)
	}
	if kind == "wide-nudged" {
		g.alpha = uint64(phys)
		budget = 3 + r.IntN(10)
	}
	nudges := 1 + r.IntN(2)
	if kind == "wide-nudged" {
		nudges = 2 + r.IntN(phys)
	}
	for len(g.ops) < budget {
		switch kind {
		case "balanced-plans": // chains of applied plans from the initial (balanced) layout
			if vh.Chance(r, 0.15) {
				g.query()
			} else {
				g.plan(vh.Chance(r, 0.9))
			}
		case "nudged-plans", "wide-nudged": // within-one but not exact: a few reassignments, then plans
			if len(g.ops) < nudges {
				g.push(op{K: "reassign", HS: uint16(r.IntN(int(count) + 1)), A: 1 + r.Uint64N(g.alpha)})
			} else if kind == "wide-nudged" && vh.Chance(r, 0.6) {
				act := g.active()
				if len(act) > 0 {
					g.push(op{K: "remove", A: uint64(act[r.IntN(len(act))]), Apply: true})
				} else {
					g.plan(true)
				}
			} else {
				g.plan(vh.Chance(r, 0.85))
			}
		case "skew-plans":
			if len(g.ops) == 0 || vh.Chance(r, 0.2) {
				g.skew()
			} else {
				g.plan(vh.Chance(r, 0.7))
			}
		case "mixed":
			switch x := r.IntN(10); {
			case x < 5:
				g.mutator()
			case x < 7:
				g.query()
			case x < 9:
				g.plan(vh.Chance(r, 0.6))
			default:
				g.malformed()
			}
		case "migrations":
			if vh.Chance(r, 0.8) {
				g.mutator()
			} else {
				g.query()
			}
		case "codec":
			switch x := r.IntN(10); {
			case x < 5:
				g.mutator()
			case x < 9:
				if g.codecOK() {
					g.push(op{K: "encdec"})
				} else {
					g.query()
				}
			default:
				g.malformed()
			}
		case "malformed":
			if vh.Chance(r, 0.6) {
				g.malformed()
			} else if vh.Chance(r, 0.5) {
				g.mutator()
			} else {
				g.query()
			}
		case "units":
			g.unitOps()
		}
	}
	return input{Kind: kind, Count: count, Phys: phys, Ops: g.ops}
}

// ---------------------------------------------------------------- constants

func emitConsts(w io.Writer) {
	fmt.Fprintln(w, "(* GENERATED by harness/cmd/C20 -emit-consts from the compiled /repo tree. Do not edit. *)")
	fmt.Fprintln(w, "From Coq Require Import NArith. Open Scope N_scope.")
	fmt.Fprintln(w, "(* pkg/hashslot: hashSlotTableEncodingVersion and the MigrationPhase enum *)")
	fmt.Fprintf(w, "Definition enc_version : N := %d.\n", hashslot.VerifEncodingVersion)
	fmt.Fprintf(w, "Definition PhaseSnapshot : N := %d.\n", hashslot.PhaseSnapshot)
	fmt.Fprintf(w, "Definition PhaseDelta : N := %d.\n", hashslot.PhaseDelta)
	fmt.Fprintf(w, "Definition PhaseSwitching : N := %d.\n", hashslot.PhaseSwitching)
	fmt.Fprintf(w, "Definition PhaseDone : N := %d.\n", hashslot.PhaseDone)
	// the wire layout as Encode produces it for a one-hash-slot table with one migration
	t := hashslot.NewHashSlotTable(1, 1)
	empty := len(t.Encode())
	t.StartMigration(0, 1, 2)
	full := len(t.Encode())
	fmt.Fprintf(w, "(* len(Encode) of a 1-hash-slot table without / with one migration *)\n")
	fmt.Fprintf(w, "Definition enc_len_1_0 : N := %d.\nDefinition enc_len_1_1 : N := %d.\n", empty, full)
	fmt.Fprintf(w, "(* controller/state.CurrentHashSlotTableVersion *)\nDefinition ctl_table_version : N := %d.\n", cstate.CurrentHashSlotTableVersion)
}

func main() {
	vh.Main(vh.Harness[input]{EmitConsts: emitConsts, Gen: gen, Run: run})
}
