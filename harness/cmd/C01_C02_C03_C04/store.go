package main

import (
	"context"
	"fmt"
	"os"

	channelstore "github.com/WuKongIM/WuKongIM/pkg/channel/store"
	"github.com/WuKongIM/WuKongIM/pkg/wklog"
)

var bg = context.Background()

func scratchRoot() string {
	if st, err := os.Stat("/dev/shm"); err == nil && st.IsDir() {
		return "/dev/shm"
	}
	return os.TempDir()
}

// newFactory opens one store factory per voter: the in-memory test double or a
// fresh Pebble-backed message DB in a scratch directory removed after the case.
func (r *runner) newFactory(kind string) channelstore.Factory {
	switch kind {
	case "mem":
		return channelstore.NewMemoryFactory()
	case "pebble":
		dir, err := os.MkdirTemp(scratchRoot(), "verif-q-")
		if err != nil {
			panic(err)
		}
		f := channelstore.NewMessageDBFactoryWithOptions(dir, channelstore.MessageDBFactoryOptions{Logger: wklog.NewNop()})
		r.closers = append(r.closers, func() {
			_ = f.Close()
			_ = os.RemoveAll(dir)
		})
		return f
	default:
		panic(fmt.Sprintf("harness: unknown store kind %q", kind))
	}
}
