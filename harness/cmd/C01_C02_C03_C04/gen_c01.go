package main

import (
	"math/rand/v2"

	"github.com/WuKongIM/WuKongIM/internal/verifh/vh"
)

// ---- C01 / C02: failover under faults --------------------------------------------------
//
// The planner keeps at most N-Q nodes down, commits on the believed leader (sometimes with
// followers unreachable or responses lost), fails over to other nodes with the next leader
// term, restarts owners and reinstalls them.  With probability 1/3 per failover it plays the
// "bare quorum" pattern: a commit acknowledged by exactly Q voters, the old leader goes down,
// everybody else comes up, and a voter that missed the commit becomes leader.

func (p *planner) nextTerm() auth {
	a := auth{p.max.e, p.max.t + 1, p.max.f + uint64(p.r.IntN(2))}
	if p.r.IntN(8) == 0 {
		a = auth{p.max.e + 1, 1, 1}
	}
	return a
}

func (p *planner) upNodes(except uint64) []uint64 {
	var out []uint64
	for v := uint64(1); v <= uint64(p.in.Voters); v++ {
		if !p.down[v] && v != except {
			out = append(out, v)
		}
	}
	return out
}

func (p *planner) setDown(v uint64, down bool) {
	if down == p.down[v] {
		return
	}
	if down {
		p.down[v] = true
		p.add(opIn{K: "down", Node: v})
	} else {
		delete(p.down, v)
		p.add(opIn{K: "up", Node: v})
	}
}

func (p *planner) failover(node uint64, c02 bool) {
	a := p.nextTerm()
	op := p.installOp(node, a)
	if c02 && p.r.IntN(4) == 0 {
		rb := p.r.IntN(2)
		op.RB = &rb
	}
	if p.r.IntN(10) == 0 {
		op.Drop = p.faultNodes(1, node)
	}
	if p.r.IntN(8) == 0 { // one voter answers the frontier round, its identity-page reply is lost
		op.PDrop = p.faultNodes(1, node)
	}
	p.add(opIn{K: "restart", Node: node})
	p.add(op)
	p.noteInstall(node, a)
	if op.RB != nil { // the install was cut short: try again without the crash point
		p.add(opIn{K: "restart", Node: node})
		p.add(p.installOp(node, a))
	}
}

func genC01(r *rand.Rand, tier string, in *input, c02 bool) {
	switch r.IntN(8) { // 5 voters in 3/8, 4 voters in 1/8 of the cases; the rest 3 voters
	case 0, 1:
		in.Voters, in.Quorum = 5, 3
	case 2:
		in.Voters, in.Quorum = 5, 4
	case 3:
		in.Voters, in.Quorum = 3, 3
	case 4:
		in.Voters, in.Quorum = 4, 3
	}
	if r.IntN(3) == 0 || (c02 && r.IntN(4) == 0) {
		in.Store = "pebble"
	}
	in.Retained = 2 + r.IntN(3)
	if c02 && r.IntN(2) == 0 {
		in.PageBytes = 110 + r.IntN(250)
	}
	p := newPlanner(r, in)
	p.keys = vh.Pick(r, 1, 1, 2, 0)
	p.sa = 0
	first := auth{1, 1, 1}
	leader := p.node()
	p.add(p.installOp(leader, first))
	p.noteInstall(leader, first)
	n := opBudget(r, tier, 6, 24)
	maxDown := in.Voters - in.Quorum
	for k := 0; k < n; k++ {
		if !p.ready && r.IntN(10) < 8 {
			p.add(p.installOp(p.leader, p.cur))
			p.ready = true
			continue
		}
		x := r.IntN(100)
		switch {
		case x >= 28 && x < 35 && p.ready && in.Voters == 5 && in.Quorum == 3 && in.MaxRecs >= 3: // chain of FAILED leaderships:
			// L writes a 3-record proposal locally only; b (the lowest other node) is installed without L (barrier on the
			// rest) and writes a 1-record proposal locally only; c is installed without L and b (barrier acknowledged by
			// the three clean voters) and gets its next proposal onto a minority; then b is installed again with every
			// voter answering: certified cut < selection < quorum LEO, no quorum-identical entry right above the selection,
			// and b (first in voter order) holds a divergent proposal that ends exactly at the selected index
			for v := uint64(1); v <= uint64(in.Voters); v++ {
				p.setDown(v, false)
			}
			for k2 := 0; k2 < 1+r.IntN(2); k2++ {
				p.add(p.commitOp(p.leader, p.cur, p.newCmd()))
			}
			others := func(ex ...uint64) []uint64 {
				var out []uint64
				for v := uint64(1); v <= uint64(in.Voters); v++ {
					skip := false
					for _, e := range ex {
						skip = skip || e == v
					}
					if !skip {
						out = append(out, v)
					}
				}
				return out
			}
			sized := func(n int) cmdInfo {
				c := p.newCmd()
				c.recs = p.newRecs(n, p.cur.e)
				p.cmds[len(p.cmds)-1] = c
				return c
			}
			l := p.leader
			wop := p.commitOp(l, p.cur, sized(3))
			wop.Drop = others(l)
			p.add(wop)
			rest := others(l)
			b := rest[0]
			if r.IntN(4) == 0 {
				b = rest[r.IntN(len(rest))]
			}
			a1 := p.nextTerm()
			i1 := p.installOp(b, a1)
			i1.Drop = []uint64{l}
			p.add(opIn{K: "restart", Node: b})
			p.add(i1)
			p.noteInstall(b, a1)
			vop := p.commitOp(b, a1, sized(1))
			vop.Drop = others(b)
			p.add(vop)
			clean := others(l, b)
			c := clean[r.IntN(len(clean))]
			a2 := p.nextTerm()
			i2 := p.installOp(c, a2)
			i2.Drop = []uint64{l, b}
			p.add(opIn{K: "restart", Node: c})
			p.add(i2)
			p.noteInstall(c, a2)
			d := others(l, b, c)
			pop := p.commitOp(c, a2, p.newCmd())
			pop.Drop = others(c, d[r.IntN(len(d))])
			p.add(pop)
			a3 := p.nextTerm()
			p.add(opIn{K: "restart", Node: b})
			p.add(p.installOp(b, a3))
			p.noteInstall(b, a3)
			p.ready = false
		case x >= 35 && x < 42 && p.ready && in.Voters-2 >= in.Quorum: // unacknowledged leader tail repaired to ONE follower,
			// leader + that follower stay a minority; both become unreachable, a voter that never saw the tail leads and commits
			for v := uint64(1); v <= uint64(in.Voters); v++ {
				p.setDown(v, false)
			}
			for k2 := 0; k2 < 1+r.IntN(2); k2++ { // every follower level with the leader
				p.add(p.commitOp(p.leader, p.cur, p.newCmd()))
			}
			old := p.leader
			xop := p.commitOp(old, p.cur, p.newCmd())
			for v := uint64(1); v <= uint64(in.Voters); v++ {
				if v != old {
					xop.Drop = append(xop.Drop, v) // the local write succeeds, every follower exchange fails
				}
			}
			p.add(xop)
			f := p.otherNode(old)
			p.add(opIn{K: "repair", Node: old, Peer: f, Tail: true})
			if r.IntN(4) == 0 {
				continue
			}
			p.setDown(old, true)
			p.setDown(f, true)
			ups := p.upNodes(0)
			if len(ups) == 0 {
				continue
			}
			next := ups[r.IntN(len(ups))]
			a := p.nextTerm()
			p.add(opIn{K: "restart", Node: next})
			p.add(p.installOp(next, a))
			p.noteInstall(next, a)
			for k2 := 0; k2 < 2+r.IntN(2); k2++ {
				p.add(p.commitOp(next, a, p.newCmd()))
			}
			if r.IntN(2) == 0 {
				p.setDown(f, false)
			}
		case x < 42: // commit, possibly on a bare quorum or with a lost response
			op := p.commitOp(p.leader, p.cur, p.newCmd())
			switch r.IntN(6) {
			case 0, 1:
				if maxDown-len(p.down) > 0 {
					op.Drop = p.faultNodes(maxDown-len(p.down), p.leader)
				}
			case 2:
				op.Lose = p.faultNodes(1, p.leader)
			}
			p.add(op)
			p.leo++
		case x < 49 && len(p.cmds) > 0: // retry
			p.add(p.commitOp(p.leader, p.cur, p.cmds[r.IntN(len(p.cmds))]))
		case x < 57: // take a node down (at most N-Q at a time)
			if len(p.down) < maxDown {
				v := p.node()
				p.setDown(v, true)
				if v == p.leader {
					p.ready = p.ready // the owner keeps running; it just cannot be reached
				}
			}
		case x < 64: // bring one back
			for v := uint64(1); v <= uint64(in.Voters); v++ {
				if p.down[v] {
					p.setDown(v, false)
					break
				}
			}
		case x < 76: // plain failover to an up node
			ups := p.upNodes(0)
			if len(ups) == 0 {
				continue
			}
			p.failover(ups[r.IntN(len(ups))], c02)
		case x < 85: // bare-quorum pattern: ack on exactly Q, old leader down, a voter that missed it leads
			if maxDown == 0 {
				p.add(p.commitOp(p.leader, p.cur, p.newCmd()))
				continue
			}
			for v := uint64(1); v <= uint64(in.Voters); v++ {
				p.setDown(v, false)
			}
			op := p.commitOp(p.leader, p.cur, p.newCmd())
			op.Drop = p.faultNodes(maxDown, p.leader)
			p.add(op)
			if r.IntN(3) == 0 { // a second one: then the replica-persisted watermark protects the first
				op2 := p.commitOp(p.leader, p.cur, p.newCmd())
				op2.Drop = append([]uint64(nil), op.Drop...)
				p.add(op2)
			}
			old := p.leader
			p.setDown(old, true)
			next := op.Drop[r.IntN(len(op.Drop))]
			if r.IntN(4) == 0 {
				ups := p.upNodes(old)
				next = ups[r.IntN(len(ups))]
			}
			p.failover(next, c02)
			if r.IntN(2) == 0 { // the deposed leader rejoins while the new one keeps appending
				p.add(p.commitOp(p.leader, p.cur, p.newCmd()))
				p.setDown(old, false)
				p.add(p.commitOp(p.leader, p.cur, p.newCmd()))
				p.add(p.commitOp(p.leader, p.cur, p.newCmd()))
			}
		case x < 93: // per-round fault: a commit acknowledged on exactly Q voters (the trailing writes are still in
			// flight), EVERYBODY stays up and answers the frontier round of the next leader's Install on another holder,
			// but the identity-page reply of the old leader is lost
			if maxDown == 0 || in.Voters < 3 {
				continue
			}
			for v := uint64(1); v <= uint64(in.Voters); v++ {
				p.setDown(v, false)
			}
			cop := p.commitOp(p.leader, p.cur, p.newCmd())
			cop.Drop = p.faultNodes(maxDown, p.leader)
			p.add(cop)
			old := p.leader
			var holders []uint64
			for v := uint64(1); v <= uint64(in.Voters); v++ {
				dropped := false
				for _, d := range cop.Drop {
					dropped = dropped || d == v
				}
				if v != old && !dropped {
					holders = append(holders, v)
				}
			}
			if len(holders) == 0 {
				continue
			}
			next := holders[r.IntN(len(holders))]
			a := p.nextTerm()
			iop := p.installOp(next, a)
			iop.PDrop = []uint64{old}
			if r.IntN(3) == 0 && len(holders) > 1 {
				iop.PDrop = append(iop.PDrop, holders[(r.IntN(len(holders)))])
			}
			p.add(opIn{K: "restart", Node: next})
			p.add(iop)
			p.noteInstall(next, a)
			p.add(p.installOp(next, a)) // the retry without the fault
		case x < 95 && in.Store == "pebble" && maxDown > 0 && in.Voters >= 3: // orphan tail of equal length + allocator-issued ids:
			// the leader's LOCAL write fails while exactly one follower F stores X (never acknowledged); F is then
			// partitioned, another node becomes leader and writes its barrier at X's index; F returns and the new
			// leader commits Y with ServerAllocatedMessageIDs: F's log end equals Y's base (sequencedFresh fast path)
			for v := uint64(1); v <= uint64(in.Voters); v++ {
				p.setDown(v, false)
			}
			if p.leo == 0 { // make sure the log is non-empty so that the next leader writes a barrier
				c0 := p.newCmd()
				c0.sa = true
				p.add(p.commitOp(p.leader, p.cur, c0))
				p.leo++
			}
			old := p.leader
			f := p.otherNode(old)
			cx := p.newCmd()
			cx.sa = true
			xop := p.commitOp(old, p.cur, cx)
			for v := uint64(1); v <= uint64(in.Voters); v++ {
				if v != f {
					xop.Drop = append(xop.Drop, v) // includes the leader: its local store write fails
				}
			}
			p.add(xop)
			p.setDown(f, true)
			next := p.otherNode(old)
			for tries := 0; next == f && tries < 16; tries++ {
				next = p.otherNode(old)
			}
			if next == f {
				continue
			}
			a := p.nextTerm()
			p.add(opIn{K: "restart", Node: next})
			p.add(p.installOp(next, a))
			p.noteInstall(next, a)
			p.setDown(f, false)
			for k2 := 0; k2 < 1+r.IntN(2); k2++ {
				cy := p.newCmd()
				cy.sa = true
				p.add(p.commitOp(next, a, cy))
			}
		case x < 96 && c02: // follower gap repair by exact replays
			f := p.otherNode(p.leader)
			from := uint64(1 + r.IntN(4))
			p.add(opIn{K: "repair", Node: p.leader, Peer: f, From: from, Thru: from + uint64(r.IntN(4))})
		case x < 98 && c02: // standalone checkpoint of a watermark the leader has acknowledged
			p.add(opIn{K: "checkpoint", Node: p.leader, HW: uint64(1 + r.IntN(5))})
		default:
			v := p.node()
			p.add(opIn{K: "restart", Node: v})
			if v == p.leader {
				p.ready = false
			}
		}
	}
}
