// Shared harness of C01, C02, C03 and C04: the durable quorum log owner
// (pkg/channel/replication quorumLog) driven over real StoreAdapters by a
// deterministic fault-schedule dispatcher (harness/export/quorumlog_verif.go).
//
// The four properties use the same case format (Model/Cluster.v qcase) and the
// same interpreter; they differ in the generator and in the Coq monitor.  The
// property is selected by the virtual main directory the binary was built from
// (props/<ID>.json main_dir ends in verifh_c01 … verifh_c04).
package main

import (
	"fmt"
	"io"
	"math/rand/v2"
	"os"
	"path/filepath"
	"runtime/debug"
	"strings"

	"github.com/WuKongIM/WuKongIM/internal/verifh/vh"
	ch "github.com/WuKongIM/WuKongIM/pkg/channel"
	"github.com/WuKongIM/WuKongIM/pkg/channel/replication"
	channelstore "github.com/WuKongIM/WuKongIM/pkg/channel/store"
)

// ---- input ---------------------------------------------------------------------

type recIn struct {
	ID    uint64 `json:"id"`
	From  uint64 `json:"from,omitempty"`
	Cno   uint64 `json:"cno,omitempty"`
	Pay   uint64 `json:"pay"`
	Ts    uint64 `json:"ts"`
	Epoch uint64 `json:"epoch"`
}

type opIn struct {
	K    string   `json:"k"` // install | commit | down | up | restart | repair | checkpoint
	Node uint64   `json:"node"`
	E    uint64   `json:"e,omitempty"`
	T    uint64   `json:"t,omitempty"`
	F    uint64   `json:"f,omitempty"`
	WF   bool     `json:"wf,omitempty"`
	Q    int      `json:"q,omitempty"` // install: write quorum override (0 = case quorum)
	Cmd  uint64   `json:"cmd,omitempty"`
	Recs []recIn  `json:"recs,omitempty"`
	SA   bool     `json:"sa,omitempty"`
	Lose []uint64 `json:"lose,omitempty"`
	Drop []uint64 `json:"drop,omitempty"`
	PDrop []uint64 `json:"pdrop,omitempty"` // install: identity-page probe replies of these voters are lost
	RB   *int     `json:"rb,omitempty"` // install: replace budget (crash before page rb+1)
	Peer uint64   `json:"peer,omitempty"`
	From uint64   `json:"from,omitempty"`
	Thru uint64   `json:"thru,omitempty"`
	Tail bool   `json:"tail,omitempty"` // repair: from = follower log end + 1, through = leader log end (resolved when the step runs)
	HW   uint64   `json:"hw,omitempty"`
}

type input struct {
	Store     string `json:"store"` // mem | pebble
	Voters    int    `json:"voters"`
	Quorum    int    `json:"quorum"`
	Retained  int    `json:"retained"`
	MaxRecs   int    `json:"maxrecs"`
	PageBytes int    `json:"pagebytes"`
	Ops       []opIn `json:"ops"`
}

// ---- property selection -----------------------------------------------------------

func propertyID() string {
	if info, ok := debug.ReadBuildInfo(); ok {
		p := strings.ToLower(info.Path)
		for _, id := range []string{"c01", "c02", "c03", "c04"} {
			if strings.HasSuffix(p, "verifh_"+id) {
				return strings.ToUpper(id)
			}
		}
	}
	base := strings.ToUpper(filepath.Base(os.Args[0]))
	for _, id := range []string{"C01", "C02", "C03", "C04"} {
		if strings.HasPrefix(base, id) {
			return id
		}
	}
	if v := os.Getenv("VERIF_PROP"); v != "" {
		return v
	}
	return "C01"
}

// ---- running one case -------------------------------------------------------------

const channelKey = ch.ChannelKey("1:verif-q")

var channelID = ch.ChannelID{ID: "verif-q", Type: 1}

type barrierKey struct{ e, t, f, leader uint64 }

type runner struct {
	in       input
	cluster  *replication.VerifCluster
	voters   []ch.NodeID
	closers  []func()
	barriers map[ch.CommandID]barrierKey // barrier command id -> authority
	barrierM map[uint64]barrierKey       // barrier message id -> authority
	intern   map[ch.EntryDigest]int      // digest -> id (1-based)
	ents     []string                    // Coq terms of interned entries, id = index+1
	sealedAt int
	byDigest map[ch.EntryDigest]sealedEntry
}

type sealedEntry struct {
	entry  ch.EntryIdentity
	record ch.Record
}

func nodeSet(xs []uint64) map[ch.NodeID]bool {
	m := map[ch.NodeID]bool{}
	for _, x := range xs {
		m[ch.NodeID(x)] = true
	}
	return m
}

func (in recIn) record() ch.Record {
	r := ch.Record{ID: in.ID, Epoch: in.Epoch, ServerTimestampMS: int64(in.Ts)}
	if in.From != 0 {
		r.FromUID = fmt.Sprintf("u%d", in.From%10)
	}
	if in.Cno != 0 {
		r.ClientMsgNo = fmt.Sprintf("c%d", in.Cno%10)
	}
	r.Payload = []byte(fmt.Sprintf("p%03d", in.Pay%1000))
	r.SizeBytes = len(r.Payload)
	return r
}

func commandID(k uint64) ch.CommandID {
	var id ch.CommandID
	id[31] = byte(k)
	id[30] = byte(k >> 8)
	return id
}

func (r *runner) authority(op opIn) replication.Authority {
	q := r.in.Quorum
	if op.Q != 0 {
		q = op.Q
	}
	a := replication.Authority{
		Key: channelKey, ChannelID: channelID,
		ID:     replication.AuthorityID{ChannelEpoch: op.E, LeaderTerm: op.T, FenceVersion: op.F},
		Leader: ch.NodeID(op.Node), Voters: append([]ch.NodeID(nil), r.voters...), WriteQuorum: q,
	}
	if op.WF {
		a.WriteFence = ch.WriteFence{Token: "verif", Version: op.F, Reason: ch.WriteFenceReasonLeaderTransfer}
	}
	return a
}

func tagTerm(k barrierKey) string {
	return vh.App("TBarrier", vh.N(k.e), vh.N(k.t), vh.N(k.f), vh.N(k.leader))
}

func (r *runner) cmdTerm(id ch.CommandID) string {
	if k, ok := r.barriers[id]; ok {
		return tagTerm(k)
	}
	return vh.App("TUser", vh.N(uint64(id[31])|uint64(id[30])<<8))
}

func authTerm(e, t, f uint64) string { return "(" + vh.N(e) + ", " + vh.N(t) + ", " + vh.N(f) + ")" }

func strTag(s string) uint64 {
	if s == "" {
		return 0
	}
	return uint64(s[1] - '0')
}

func (r *runner) recTerm(rec ch.Record, epoch uint64) string {
	if k, ok := r.barrierM[rec.ID]; ok && rec.SyncOnce && rec.FromUID == "" {
		return vh.App("Rec", tagTerm(k), "0", "0", "0", "1", "true", vh.N(epoch))
	}
	var pay uint64
	fmt.Sscanf(string(rec.Payload), "p%d", &pay)
	return vh.App("Rec", vh.App("TUser", vh.N(rec.ID)), vh.N(strTag(rec.FromUID)), vh.N(strTag(rec.ClientMsgNo)),
		vh.N(pay), vh.N(uint64(rec.ServerTimestampMS)), vh.B(rec.SyncOnce), vh.N(epoch))
}

func recInTerm(in recIn) string {
	return vh.App("Rec", vh.App("TUser", vh.N(in.ID)), vh.N(in.From%10), vh.N(in.Cno%10), vh.N(in.Pay%1000), vh.N(in.Ts), "false", vh.N(in.Epoch))
}

// absorb registers every proposal sealed since the last call.
func (r *runner) absorb() {
	for ; r.sealedAt < len(r.cluster.Sealed); r.sealedAt++ {
		s := r.cluster.Sealed[r.sealedAt]
		for i, e := range s.Entries {
			r.byDigest[e.Digest] = sealedEntry{entry: e, record: s.Records[i]}
		}
	}
}

func (r *runner) internDigest(d ch.EntryDigest) int {
	if d == (ch.EntryDigest{}) {
		return 0
	}
	if id, ok := r.intern[d]; ok {
		return id
	}
	se, ok := r.byDigest[d]
	if !ok {
		panic(fmt.Sprintf("harness: a stored entry digest %x was never sealed through the dispatcher", d[:6]))
	}
	prev := r.internDigest(se.entry.PreviousDigest)
	id := len(r.ents) + 1
	r.intern[d] = id
	e := se.entry
	r.ents = append(r.ents, vh.App("Ent", vh.N(e.Index), vh.N(e.ChannelEpoch), vh.N(e.LeaderTerm), vh.N(e.FenceVersion),
		r.cmdTerm(e.CommandID), vh.N(e.PreviousTerm), vh.N(uint64(prev)), r.recTerm(se.record, e.ChannelEpoch)))
	if len(r.ents) != id {
		panic("harness: intern order")
	}
	return id
}

type replicaObs struct {
	Err bool     `json:"err,omitempty"`
	LEO uint64   `json:"leo"`
	HW  uint64   `json:"hw"`
	IDs []uint64 `json:"ids"`
}

func (r *runner) observe(node ch.NodeID) replicaObs {
	st := r.cluster.Store(node)
	first, err := st.Load(bg, replication.LoadBatch{Items: []replication.LoadRequest{{ChannelKey: channelKey, ChannelID: channelID}}})
	if err != nil || len(first.Items) != 1 || first.Items[0].Err != nil {
		return replicaObs{Err: true}
	}
	state := first.Items[0].State
	out := replicaObs{LEO: state.LEO, HW: state.Committed}
	if state.LEO == 0 {
		return out
	}
	if state.LEO > replication.VerifMaxRecoveryProbeIndexes {
		panic("harness: log longer than one probe page")
	}
	idx := make([]uint64, state.LEO)
	for i := range idx {
		idx[i] = uint64(i + 1)
	}
	second, err := st.Load(bg, replication.LoadBatch{Items: []replication.LoadRequest{{ChannelKey: channelKey, ChannelID: channelID, ProbeIndexes: idx}}})
	if err != nil || len(second.Items) != 1 || second.Items[0].Err != nil || len(second.Items[0].Entries) != len(idx) {
		return replicaObs{Err: true}
	}
	for _, e := range second.Items[0].Entries {
		if !e.Present {
			out.IDs = append(out.IDs, 0)
			continue
		}
		out.IDs = append(out.IDs, uint64(r.internDigest(e.Identity.Digest)))
	}
	return out
}

func faultsOf(op opIn) replication.VerifFaults {
	f := replication.VerifFaults{Lose: nodeSet(op.Lose), Drop: nodeSet(op.Drop), PageDrop: nodeSet(op.PDrop), ReplaceBudget: -1}
	if op.RB != nil {
		f.ReplaceBudget = *op.RB
	}
	return f
}

func faultTerm(op opIn) string {
	rb := "None"
	if op.RB != nil && *op.RB >= 0 {
		rb = vh.Some(vh.N(uint64(*op.RB)))
	}
	return vh.App("Flt", vh.NList(op.Lose), vh.NList(op.Drop), rb, vh.NList(op.PDrop))
}

type stepObs struct {
	Op       string       `json:"op"`
	Result   string       `json:"result"`
	Replicas []replicaObs `json:"replicas"`
}

func run(in input) vh.Result {
	r := &runner{in: in, barriers: map[ch.CommandID]barrierKey{}, barrierM: map[uint64]barrierKey{},
		intern: map[ch.EntryDigest]int{}, byDigest: map[ch.EntryDigest]sealedEntry{}}
	defer func() {
		for _, c := range r.closers {
			c()
		}
	}()
	if in.Voters < 1 || in.Voters > 9 {
		panic("harness: bad voter count")
	}
	factories := map[ch.NodeID]channelstore.Factory{}
	for i := 1; i <= in.Voters; i++ {
		id := ch.NodeID(i)
		r.voters = append(r.voters, id)
		factories[id] = r.newFactory(in.Store)
	}
	cluster, err := replication.NewVerifCluster(replication.VerifClusterConfig{
		Key: channelKey, ID: channelID, Voters: r.voters, Factories: factories,
		MaxRetainedCommands: in.Retained, MaxProposalRecords: in.MaxRecs, RecoveryPageBytes: in.PageBytes,
	})
	if err != nil {
		panic(fmt.Sprintf("harness: cluster: %v", err))
	}
	r.cluster = cluster
	// every barrier identity that any install of this case can create
	for _, op := range in.Ops {
		if op.K == "install" {
			a := r.authority(op)
			cmd, rec := replication.VerifBarrierContent(a)
			k := barrierKey{op.E, op.T, op.F, op.Node}
			r.barriers[cmd] = k
			r.barrierM[rec.ID] = k
		}
	}
	rot := 0
	if in.Voters > 1 {
		rot = replication.VerifPreferredFollowerIndex(channelKey, in.Voters-1)
	}

	var steps []string
	var obs []stepObs
	prevObs := map[ch.NodeID]string{}
	for _, v := range r.voters {
		prevObs[v] = "(RO false 0 0 [])"
	}
	stats := newStats()
	for _, op := range in.Ops {
		var opT, resT, resJ string
		node := ch.NodeID(op.Node)
		valid := op.Node >= 1 && int(op.Node) <= in.Voters
		switch op.K {
		case "install":
			opT = vh.App("OInstall", vh.N(op.Node), authTerm(op.E, op.T, op.F), vh.B(op.WF), vh.N(uint64(r.authority(op).WriteQuorum)), faultTerm(op))
			if !valid {
				continue
			}
			installed, err := r.cluster.Install(node, r.authority(op), faultsOf(op))
			if err != nil {
				resT = vh.App("RErr", vh.N(replication.VerifErrClass(err)))
				resJ = fmt.Sprintf("err %d (%v)", replication.VerifErrClass(err), err)
			} else {
				resT = vh.App("RInstalled", authTerm(installed.Authority.ChannelEpoch, installed.Authority.LeaderTerm, installed.Authority.FenceVersion),
					vh.N(installed.LEO), vh.N(installed.HW))
				resJ = fmt.Sprintf("installed %+v", installed)
			}
			stats.install(err)
		case "commit":
			recs := make([]ch.Record, len(op.Recs))
			for i, x := range op.Recs {
				recs[i] = x.record()
			}
			opT = vh.App("OCommit", vh.N(op.Node), authTerm(op.E, op.T, op.F), vh.App("TUser", vh.N(op.Cmd)),
				vh.ListOf(op.Recs, recInTerm), vh.B(op.SA), faultTerm(op))
			if !valid {
				continue
			}
			receipt, err := r.cluster.Commit(node, replication.Proposal{
				Key: channelKey, Expected: replication.AuthorityID{ChannelEpoch: op.E, LeaderTerm: op.T, FenceVersion: op.F},
				CommandID: commandID(op.Cmd), Records: recs, ServerAllocatedMessageIDs: op.SA,
			}, faultsOf(op))
			if err != nil {
				resT = vh.App("RErr", vh.N(replication.VerifErrClass(err)))
				resJ = fmt.Sprintf("err %d (%v)", replication.VerifErrClass(err), err)
			} else {
				resT = vh.App("RReceipt", authTerm(receipt.Authority.ChannelEpoch, receipt.Authority.LeaderTerm, receipt.Authority.FenceVersion),
					r.cmdTerm(receipt.CommandID), vh.N(receipt.First), vh.N(receipt.Last), vh.N(receipt.HW))
				resJ = fmt.Sprintf("receipt %d..%d hw %d", receipt.First, receipt.Last, receipt.HW)
			}
			stats.commit(err)
		case "down", "up":
			if op.K == "down" {
				opT = vh.App("ODown", vh.N(op.Node))
			} else {
				opT = vh.App("OUp", vh.N(op.Node))
			}
			if !valid {
				continue
			}
			r.cluster.SetDown(node, op.K == "down")
			resT, resJ = "RNone", "-"
		case "restart":
			opT = vh.App("ORestart", vh.N(op.Node))
			if !valid {
				continue
			}
			if err := r.cluster.Restart(node); err != nil {
				panic(err)
			}
			resT, resJ = "RNone", "-"
		case "repair":
			if !valid || op.Peer < 1 || int(op.Peer) > in.Voters || op.Peer == op.Node {
				continue
			}
			if op.Tail { // the leader's tail the follower lacks: the evidence a failed exchange of the newest proposal records
				op.From, op.Thru = r.observe(ch.NodeID(op.Peer)).LEO+1, r.observe(node).LEO
			}
			opT = vh.App("ORepair", vh.N(op.Node), vh.N(op.Peer), vh.N(op.From), vh.N(op.Thru))
			ok := r.cluster.RepairFollower(node, ch.NodeID(op.Peer), op.From, op.Thru)
			resT, resJ = vh.App("RBool", vh.B(ok)), fmt.Sprint(ok)
			stats.count("repair", ok)
		case "checkpoint":
			opT = vh.App("OCheckpoint", vh.N(op.Node), vh.N(op.HW))
			if !valid {
				continue
			}
			err := r.cluster.Checkpoint(node, op.HW)
			resT, resJ = vh.App("RBool", vh.B(err == nil)), fmt.Sprint(err)
			stats.count("checkpoint", err == nil)
		default:
			continue
		}
		r.absorb()
		so := stepObs{Op: op.K, Result: resJ}
		var ros []string
		for _, v := range r.voters {
			o := r.observe(v)
			so.Replicas = append(so.Replicas, o)
			// only replicas whose observation changed since the previous step are printed
			term := vh.App("RO", vh.B(o.Err), vh.N(o.LEO), vh.N(o.HW), vh.NList(o.IDs))
			if prevObs[v] != term {
				prevObs[v] = term
				ros = append(ros, vh.Pair(vh.N(uint64(v)), term))
			}
		}
		obs = append(obs, so)
		steps = append(steps, vh.Pair(opT, vh.App("Obs", resT, vh.List(ros))))
	}
	store := "SMem"
	if in.Store == "pebble" {
		store = "SPebble"
	}
	cfg := vh.App("QCfg", store, vh.N(uint64(in.Voters)), vh.N(uint64(in.Quorum)), vh.N(uint64(in.Retained)),
		vh.N(uint64(in.MaxRecs)), vh.N(uint64(in.PageBytes)), vh.N(uint64(rot)))
	return vh.Result{
		Coq:     vh.App("QCase", cfg, vh.List(r.ents), vh.List(steps)),
		Obs:     obs,
		Class:   fmt.Sprintf("%s,n=%d,q=%d,%s", in.Store, in.Voters, in.Quorum, stats.class()),
		Trivial: len(steps) == 0,
	}
}

// ---- statistics for the class histogram ---------------------------------------------

type runStats struct {
	installOK, installErr, commitOK, commitErr int
	other                                      map[string]int
}

func newStats() *runStats { return &runStats{other: map[string]int{}} }
func (s *runStats) install(err error) {
	if err == nil {
		s.installOK++
	} else {
		s.installErr++
	}
}
func (s *runStats) commit(err error) {
	if err == nil {
		s.commitOK++
	} else {
		s.commitErr++
	}
}
func (s *runStats) count(k string, ok bool) { s.other[fmt.Sprintf("%s=%v", k, ok)]++ }
func bucket(n int) string {
	switch {
	case n == 0:
		return "0"
	case n <= 2:
		return "1-2"
	case n <= 6:
		return "3-6"
	default:
		return "7+"
	}
}
func (s *runStats) class() string {
	return fmt.Sprintf("inst=%s/%s,commit=%s/%s", bucket(s.installOK), bucket(s.installErr), bucket(s.commitOK), bucket(s.commitErr))
}

// ---- constants ---------------------------------------------------------------------

func emitConsts(w io.Writer) {
	// The same file (Gen/Consts_QuorumLog.v) is regenerated by the checks of C01..C04,
	// so its text must not depend on which of the four binaries prints it.
	fmt.Fprintln(w, "(* GENERATED by harness/cmd/C01_C02_C03_C04 -emit-consts from the compiled /repo tree. Do not edit. *)")
	fmt.Fprintln(w, "From Coq Require Import NArith ZArith. Open Scope N_scope.")
	fmt.Fprintln(w, "(* pkg/channel/replication: recovery page and topology bounds *)")
	fmt.Fprintf(w, "Definition maxRecoveryProbeIndexes : N := %d.\n", replication.VerifMaxRecoveryProbeIndexes)
	fmt.Fprintf(w, "Definition maxRecoveryProbeVoters : N := %d.\n", replication.VerifMaxRecoveryProbeVoters)
	fmt.Fprintln(w, "(* fixed per-record byte cost used by every page budget (96 + strings + payload) *)")
	fmt.Fprintf(w, "Definition recordFixedBytes : N := %d.\n", 96)
	fmt.Fprintln(w, "(* size of a re-encoded compatibility message without strings and payload: 45-byte header, seven length prefixes, channel id, timestamp trailer *)")
	fmt.Fprintf(w, "Definition pebbleRecordFixedBytes : N := %d.\n", 45+7*4+len(channelID.ID)+12)
	fmt.Fprintln(w, "(* quorumlog.AppendOutcome enumeration *)")
	fmt.Fprintf(w, "Definition outcomeDurable : N := %d.\n", ch.AppendOutcomeDurable)
	fmt.Fprintf(w, "Definition outcomeAlreadyDurable : N := %d.\n", ch.AppendOutcomeAlreadyDurable)
	fmt.Fprintf(w, "Definition outcomeDefinitelyNotWritten : N := %d.\n", ch.AppendOutcomeDefinitelyNotWritten)
	fmt.Fprintf(w, "Definition outcomeConflict : N := %d.\n", ch.AppendOutcomeConflict)
	fmt.Fprintf(w, "Definition outcomeUnknown : N := %d.\n", ch.AppendOutcomeUnknown)
	fmt.Fprintln(w, "(* compareAuthorityID (2,2,2) against four probes: the order is lexicographic (epoch, term, fence) *)")
	a := replication.AuthorityID{ChannelEpoch: 2, LeaderTerm: 2, FenceVersion: 2}
	probe := func(name string, b replication.AuthorityID) {
		fmt.Fprintf(w, "Definition %s : Z := (%d)%%Z.\n", name, replication.VerifCompareAuthorityID(a, b))
	}
	probe("cmp_epoch_lt_term_gt", replication.AuthorityID{ChannelEpoch: 3, LeaderTerm: 1, FenceVersion: 1})
	probe("cmp_term_lt_fence_gt", replication.AuthorityID{ChannelEpoch: 2, LeaderTerm: 3, FenceVersion: 1})
	probe("cmp_fence_gt", replication.AuthorityID{ChannelEpoch: 2, LeaderTerm: 2, FenceVersion: 1})
	probe("cmp_equal", a)
}

func main() {
	id := propertyID()
	vh.Main(vh.Harness[input]{
		EmitConsts: emitConsts,
		Gen:        func(r *rand.Rand, tier string, i int) input { return gen(id, r, tier, i) },
		Run:        run,
	})
}
