package main

import (
	"math/rand/v2"

	"github.com/WuKongIM/WuKongIM/internal/verifh/vh"
)

// A small state-aware planner: it tracks what it intends the cluster to look
// like (leader, installed authority per node, commands issued, nodes down) so
// that most operations take the success path, and deliberately injects stale /
// equal / conflicting / malformed operations with fixed probabilities.

type auth struct{ e, t, f uint64 }

func (a auth) less(b auth) bool {
	if a.e != b.e {
		return a.e < b.e
	}
	if a.t != b.t {
		return a.t < b.t
	}
	return a.f < b.f
}

type cmdInfo struct {
	id   uint64
	recs []recIn
	sa   bool
	au   auth
}

type planner struct {
	r       *rand.Rand
	in      *input
	leader  uint64
	cur     auth            // authority the planner believes is installed on leader
	max     auth            // highest authority ever requested
	perNode map[uint64]auth // last authority requested per node
	prev    []auth          // earlier authorities (for stale commits)
	cmds    []cmdInfo
	nextCmd uint64
	nextMsg uint64
	down    map[uint64]bool
	keys    int // 0 no key pairs, 1 all records carry (from,cno), 2 mixed
	sa      int // 0 never server allocated, 1 always, 2 mixed
	fenced  bool
	ready   bool // the planner believes the leader's owner is writable
	leo     uint64
}

func newPlanner(r *rand.Rand, in *input) *planner {
	return &planner{r: r, in: in, perNode: map[uint64]auth{}, down: map[uint64]bool{}, nextCmd: 1, nextMsg: 1,
		keys: r.IntN(3), sa: r.IntN(3)}
}

func (p *planner) add(op opIn) { p.in.Ops = append(p.in.Ops, op) }

func (p *planner) node() uint64 { return uint64(1 + p.r.IntN(p.in.Voters)) }

func (p *planner) otherNode(x uint64) uint64 {
	if p.in.Voters == 1 {
		return x
	}
	for {
		y := p.node()
		if y != x {
			return y
		}
	}
}

func (p *planner) newRecs(n int, e uint64) []recIn {
	recs := make([]recIn, n)
	for i := range recs {
		rec := recIn{ID: p.nextMsg, Pay: uint64(p.r.IntN(1000)), Ts: uint64(1 + p.r.IntN(5)), Epoch: e}
		p.nextMsg++
		withKey := p.keys == 1 || (p.keys == 2 && p.r.IntN(2) == 0)
		if withKey {
			rec.From = uint64(1 + p.r.IntN(3))
			rec.Cno = uint64(1 + p.r.IntN(9))
		}
		recs[i] = rec
	}
	return recs
}

func (p *planner) newCmd() cmdInfo {
	n := 1
	switch p.r.IntN(6) {
	case 0:
		n = 2
	case 1:
		n = 3
	}
	if n > p.in.MaxRecs {
		n = p.in.MaxRecs
	}
	c := cmdInfo{id: p.nextCmd, recs: p.newRecs(n, p.cur.e), au: p.cur}
	c.sa = p.sa == 1 || (p.sa == 2 && p.r.IntN(2) == 0)
	p.nextCmd++
	p.cmds = append(p.cmds, c)
	return c
}

func (p *planner) commitOp(node uint64, a auth, c cmdInfo) opIn {
	return opIn{K: "commit", Node: node, E: a.e, T: a.t, F: a.f, Cmd: c.id, Recs: append([]recIn(nil), c.recs...), SA: c.sa}
}

func (p *planner) installOp(node uint64, a auth) opIn {
	return opIn{K: "install", Node: node, E: a.e, T: a.t, F: a.f}
}

func (p *planner) noteInstall(node uint64, a auth) {
	if p.cur != (auth{}) {
		p.prev = append(p.prev, p.cur)
	}
	p.perNode[node] = a
	p.leader, p.cur = node, a
	if p.max.less(a) {
		p.max = a
	}
	p.fenced = false
	p.ready = true
}

func (p *planner) bump(a auth) auth {
	switch p.r.IntN(5) {
	case 0:
		return auth{a.e + 1, uint64(1 + p.r.IntN(2)), uint64(1 + p.r.IntN(2))}
	case 1, 2:
		return auth{a.e, a.t + 1, a.f + uint64(p.r.IntN(2))}
	case 3:
		return auth{a.e, a.t + 1, a.f + 1}
	default:
		return auth{a.e, a.t, a.f + 1}
	}
}

func (p *planner) lower(a auth) auth {
	switch p.r.IntN(3) {
	case 0:
		if a.e > 1 {
			return auth{a.e - 1, a.t + 2, a.f + 2}
		}
	case 1:
		if a.t > 1 {
			return auth{a.e, a.t - 1, a.f + 3}
		}
	}
	if a.f > 1 {
		return auth{a.e, a.t, a.f - 1}
	}
	if a.t > 1 {
		return auth{a.e, a.t - 1, a.f}
	}
	return auth{a.e, a.t, a.f} // nothing lower with non-zero components: equal
}

func (p *planner) faultNodes(k int, except uint64) []uint64 {
	var out []uint64
	perm := p.r.Perm(p.in.Voters)
	for _, i := range perm {
		v := uint64(i + 1)
		if v == except {
			continue
		}
		if len(out) < k {
			out = append(out, v)
		}
	}
	return out
}

func gen(prop string, r *rand.Rand, tier string, i int) input {
	in := input{Store: "mem", Voters: 3, Quorum: 2, Retained: 4, MaxRecs: 3, PageBytes: 64 << 10}
	switch prop {
	case "C04":
		genC04(r, tier, &in)
	case "C03":
		genC03(r, tier, &in)
	case "C02":
		genC01(r, tier, &in, true)
	default:
		genC01(r, tier, &in, false)
	}
	return in
}

func opBudget(r *rand.Rand, tier string, lo, hi int) int {
	if tier == "thorough" {
		hi *= 2
	}
	return lo + r.IntN(hi-lo+1)
}

// ---- C04: authority orderings, fences, stale commits ------------------------------------

func genC04(r *rand.Rand, tier string, in *input) {
	if r.IntN(4) == 0 {
		in.Voters, in.Quorum = 5, 3+r.IntN(3)
	} else if r.IntN(5) == 0 {
		in.Voters, in.Quorum = 3, 3
	}
	if r.IntN(3) == 0 {
		in.Store = "pebble"
	}
	in.Retained = 1 + r.IntN(4)
	p := newPlanner(r, in)
	first := auth{uint64(1 + r.IntN(2)), uint64(1 + r.IntN(3)), uint64(1 + r.IntN(3))}
	leader := p.node()
	p.add(p.installOp(leader, first))
	p.noteInstall(leader, first)
	n := opBudget(r, tier, 5, 22)
	for k := 0; k < n; k++ {
		if !p.ready && r.IntN(10) < 7 { // bring the owner back: reinstall (same authority after a restart, next one after a fence)
			a := p.cur
			if p.fenced {
				a = p.bump(p.max)
			}
			p.add(p.installOp(p.leader, a))
			p.noteInstall(p.leader, a)
			continue
		}
		x := r.IntN(100)
		switch {
		case x < 36: // commit under the believed current authority
			var c cmdInfo
			if len(p.cmds) > 0 && r.IntN(10) < 3 {
				c = p.cmds[r.IntN(len(p.cmds))]
			} else {
				c = p.newCmd()
			}
			op := p.commitOp(p.leader, p.cur, c)
			if r.IntN(12) == 0 {
				op.Lose = p.faultNodes(in.Voters, 0)
				op.Lose = append(op.Lose, p.leader)
			}
			p.add(op)
		case x < 45: // commit under an older / newer / foreign authority
			a := p.cur
			switch r.IntN(3) {
			case 0:
				if len(p.prev) > 0 {
					a = p.prev[r.IntN(len(p.prev))]
				} else {
					a = p.lower(p.cur)
				}
			case 1:
				a = p.bump(p.cur)
			default:
				a = p.lower(p.cur)
			}
			p.add(p.commitOp(p.leader, a, p.newCmd()))
		case x < 50: // commit on another node (own owner: not ready or an older authority)
			node := p.otherNode(p.leader)
			a := p.cur
			if old, ok := p.perNode[node]; ok && r.IntN(2) == 0 {
				a = old
			}
			p.add(p.commitOp(node, a, p.newCmd()))
		case x < 64: // install a higher authority (same node or failover), possibly fenced
			a := p.bump(p.max)
			node := p.leader
			if r.IntN(3) == 0 {
				node = p.otherNode(p.leader)
			}
			op := p.installOp(node, a)
			if r.IntN(4) == 0 {
				op.WF = true
			}
			p.add(op)
			p.noteInstall(node, a)
			p.fenced = op.WF
			p.ready = !op.WF
			if len(p.prev) > 0 && r.IntN(2) == 0 { // the deposed authority tries to append right away
				p.add(p.commitOp(node, p.prev[len(p.prev)-1], p.newCmd()))
			}
		case x < 69: // cross-node deposition: a newer authority is installed on ANOTHER node over the shared
			// stores, then the deposed leader (still ready in its own owner) proposes a new command, then the new leader does
			old, oldAuth := p.leader, p.cur
			a := p.bump(p.max)
			node := p.otherNode(old)
			p.add(p.installOp(node, a))
			p.noteInstall(node, a)
			p.add(p.commitOp(old, oldAuth, p.newCmd()))
			if r.IntN(2) == 0 {
				p.add(p.commitOp(node, a, p.newCmd()))
				p.add(p.commitOp(old, oldAuth, p.newCmd()))
			}
		case x < 75: // install the same authority again (idempotent / changed shape)
			op := p.installOp(p.leader, p.cur)
			switch r.IntN(5) {
			case 0:
				op.WF = true
			case 1:
				if in.Voters == 5 {
					op.Q = 3 + (in.Quorum-3+1)%3
				} else {
					op.Q = 5 - in.Quorum
				}
			case 2:
				op.WF = p.fenced
			}
			p.add(op)
		case x < 83: // install an older authority
			node := p.leader
			if r.IntN(3) == 0 {
				node = p.node()
			}
			a := p.lower(p.cur)
			if len(p.prev) > 0 && r.IntN(2) == 0 {
				a = p.prev[r.IntN(len(p.prev))]
			}
			p.add(p.installOp(node, a))
		case x < 87:
			node := p.leader
			if r.IntN(3) == 0 {
				node = p.node()
			}
			p.add(opIn{K: "restart", Node: node})
			if node == p.leader {
				p.ready = false
			}
		case x < 94: // commit while a follower is unreachable
			op := p.commitOp(p.leader, p.cur, p.newCmd())
			op.Drop = p.faultNodes(1+r.IntN(2), p.leader)
			p.add(op)
		default: // malformed
			switch r.IntN(6) {
			case 0:
				op := p.commitOp(p.leader, p.cur, p.newCmd())
				op.Cmd = 0
				p.add(op)
			case 1:
				op := p.commitOp(p.leader, p.cur, p.newCmd())
				op.Recs = nil
				p.add(op)
			case 2:
				c := p.newCmd()
				c.recs = p.newRecs(in.MaxRecs+1, p.cur.e)
				p.add(p.commitOp(p.leader, p.cur, c))
			case 3:
				a := p.bump(p.max)
				switch r.IntN(3) {
				case 0:
					a.e = 0
				case 1:
					a.t = 0
				default:
					a.f = 0
				}
				p.add(p.installOp(p.leader, a))
			case 4:
				op := p.installOp(p.leader, p.bump(p.max))
				op.Q = 1
				if in.Voters == 1 {
					op.Q = 2
				}
				p.add(op)
			default:
				c := p.newCmd()
				c.recs[0].Epoch = vh.Pick(r, uint64(0), p.cur.e+1)
				if r.IntN(3) == 0 {
					c.recs[0].Epoch, c.recs[0].Ts = p.cur.e, 0
				}
				p.add(p.commitOp(p.leader, p.cur, c))
			}
		}
	}
}

// ---- C03: retries, conflicting retries, eviction, restarts --------------------------------

func genC03(r *rand.Rand, tier string, in *input) {
	if r.IntN(2) == 0 {
		in.Store = "pebble"
	}
	in.Retained = 1 + r.IntN(2)
	if r.IntN(6) == 0 {
		in.Voters, in.Quorum = 5, 3
	}
	p := newPlanner(r, in)
	first := auth{1, 1, 1}
	p.add(p.installOp(1, first))
	p.noteInstall(1, first)
	n := opBudget(r, tier, 6, 24)
	pendingLost := false
	for k := 0; k < n; k++ {
		if pendingLost && r.IntN(10) < 6 { // resolve the ambiguous proposal by retrying it
			p.add(p.commitOp(p.leader, p.cur, p.cmds[len(p.cmds)-1]))
			pendingLost = false
			continue
		}
		x := r.IntN(100)
		switch {
		case x < 38 || len(p.cmds) == 0:
			p.add(p.commitOp(p.leader, p.cur, p.newCmd()))
		case x < 60: // exact retry (recent or long evicted)
			var c cmdInfo
			if r.IntN(2) == 0 {
				c = p.cmds[len(p.cmds)-1]
			} else {
				c = p.cmds[r.IntN(len(p.cmds))]
			}
			op := p.commitOp(p.leader, p.cur, c)
			p.add(op)
			pendingLost = false
		case x < 74: // conflicting reuse of a command identity
			c := p.cmds[r.IntN(len(p.cmds))]
			recs := append([]recIn(nil), c.recs...)
			j := r.IntN(len(recs))
			switch r.IntN(4) {
			case 0:
				recs[j].Pay = (recs[j].Pay + 1) % 1000
			case 1:
				recs[j].Pay = (recs[j].Pay + 7) % 1000
				if recs[j].Cno != 0 {
					recs[j].Cno = recs[j].Cno%9 + 1
				}
			case 2:
				recs = p.newRecs(len(recs), p.cur.e)
			default:
				recs[j].Ts++
			}
			op := p.commitOp(p.leader, p.cur, c)
			op.Recs = recs
			p.add(op)
		case x < 79: // every durability response lost: ambiguous pending proposal
			var c cmdInfo
			if pendingLost {
				c = p.cmds[len(p.cmds)-1]
			} else {
				c = p.newCmd()
			}
			op := p.commitOp(p.leader, p.cur, c)
			op.Lose = append(p.faultNodes(in.Voters, 0), p.leader)
			if r.IntN(3) == 0 {
				op.Lose = p.faultNodes(in.Voters-1, p.leader)
			}
			p.add(op)
			pendingLost = true
		case x < 92: // owner restart, then reinstall (same or next authority)
			p.add(opIn{K: "restart", Node: p.leader})
			a := p.cur
			if r.IntN(3) == 0 {
				a = p.bump(p.cur)
			}
			p.add(p.installOp(p.leader, a))
			p.noteInstall(p.leader, a)
			pendingLost = false
		default: // one follower unreachable for one commit
			op := p.commitOp(p.leader, p.cur, p.newCmd())
			op.Drop = p.faultNodes(1, p.leader)
			p.add(op)
		}
	}
}

func maxInt(a, b int) int {
	if a > b {
		return a
	}
	return b
}
