package main

// Coq term printers for the pkg/backup structs (constructors of Model/Archive.v).

import (
	"encoding/hex"
	"errors"
	"strings"

	"github.com/WuKongIM/WuKongIM/internal/verifh/vh"
	"github.com/WuKongIM/WuKongIM/pkg/backup"
)

// Per-case string table: a string of 20 bytes or more (digests, keys, format names) is printed
// once, in a table bound by a let around the case term, and referred to as (sv T k).
var (
	strIndex map[string]int
	strTable []string
)

func resetStrings() { strIndex, strTable = map[string]int{}, nil }

// lit renders a Go string as a [bytes] literal: (sx "...") for plain printable ASCII,
// (hx "...") otherwise.
func lit(s string) string {
	if s == "" {
		return "[]"
	}
	for i := 0; i < len(s); i++ {
		if s[i] < 0x20 || s[i] > 0x7e || s[i] == '"' {
			return vh.HexS(s)
		}
	}
	return `(sx "` + s + `")`
}

// str renders a Go string as a [bytes] term.
func str(s string) string {
	if len(s) < 20 || strIndex == nil {
		return lit(s)
	}
	k, ok := strIndex[s]
	if !ok {
		k = len(strTable)
		strIndex[s] = k
		strTable = append(strTable, s)
	}
	return "(sv T " + vh.N(uint64(k)) + ")"
}

// withStrings wraps a case term in the let that binds its string table.
func withStrings(term string) string {
	items := make([]string, len(strTable))
	for i, s := range strTable {
		items[i] = lit(s)
	}
	return "(let T : list bytes := " + vh.List(items) + " in " + term + ")"
}

// jsonb renders a JSON document: when it is plain printable ASCII without an apostrophe, as
// (jx "...") with every double quote written as an apostrophe (half the size of hex).
func jsonb(b []byte) string {
	const piece = 3000
	for _, c := range b {
		if c < 0x20 || c > 0x7e || c == '\'' {
			return hexb(b)
		}
	}
	if len(b) == 0 {
		return "[]"
	}
	t := strings.ReplaceAll(string(b), `"`, "'")
	if len(t) <= piece {
		return `(jx "` + t + `")`
	}
	var parts []string
	for i := 0; i < len(t); i += piece {
		parts = append(parts, `"`+t[i:min(i+piece, len(t))]+`"%string`)
	}
	return "(jxs [" + strings.Join(parts, "; ") + "])"
}

// hexb renders a byte string like vh.Hex, in pieces of at most 1500 bytes (hxs) when long.
func hexb(b []byte) string {
	const piece = 1500
	if len(b) <= piece {
		return vh.Hex(b)
	}
	var parts []string
	for i := 0; i < len(b); i += piece {
		parts = append(parts, `"`+hex.EncodeToString(b[i:min(i+piece, len(b))])+`"%string`)
	}
	return "(hxs [" + strings.Join(parts, "; ") + "])"
}

func pCD(d backup.ChunkDescriptor) string {
	return vh.App("CD", str(d.StoredSHA256), str(d.LogicalSHA256), vh.N(d.LogicalBytes), vh.N(d.StoredBytes), str(string(d.Compression)))
}

func pCR(c backup.ChunkReference) string {
	return vh.App("CR", str(string(c.Kind)), vh.N(uint64(c.Sequence)), vh.N(uint64(c.Stream)), vh.N(uint64(c.Part)),
		vh.B(c.Final), str(c.Key), pCD(c.Descriptor), vh.N(c.Records), vh.N(c.MaxMessageID))
}

func pCRs(cs []backup.ChunkReference) string { return vh.ListOf(cs, pCR) }

func pSC(c backup.SlotCut) string {
	return vh.App("SC", vh.N(uint64(c.PhysicalSlotID)), vh.N(c.LeaderTerm), vh.N(c.AppliedTerm), vh.N(c.ConfigurationVersion),
		vh.N(c.AppliedIndex), vh.Z(c.CapturedAtUnixMillis))
}

func pSM(m backup.SlotManifest) string {
	return vh.App("SM", str(m.Format), vh.N(uint64(m.Version)), vh.N(uint64(m.HashSlot)), pSC(m.Cut), pCRs(m.Chunks),
		vh.N(m.LogicalBytes), vh.N(m.StoredBytes), vh.N(m.Records), vh.N(m.MaxMessageID))
}

func pSR(r backup.SlotReference) string {
	return vh.App("SR", vh.N(uint64(r.HashSlot)), str(r.ManifestKey), str(r.ManifestSHA256), vh.N(r.LogicalBytes),
		vh.N(r.StoredBytes), vh.N(r.Records), vh.N(r.MaxMessageID))
}

func pAM(m backup.ArchiveManifest) string {
	return vh.App("AM", str(m.Format), vh.N(uint64(m.Version)), str(m.ID), str(string(m.Trigger)), str(m.SourceClusterID),
		str(m.SourceApplication), vh.Z(int64(m.HashSlotCount)), vh.Z(m.StartedAtUnixMillis), vh.Z(m.CompletedAtUnixMillis),
		vh.Z(m.CutStartedUnixMillis), vh.Z(m.CutEndedUnixMillis), str(string(m.Compression)), str(string(m.Checksum)),
		vh.N(m.LogicalBytes), vh.N(m.StoredBytes), vh.N(m.Records), vh.N(m.MaxMessageID), vh.ListOf(m.Slots, pSR))
}

func pCM(m backup.CompleteMarker) string {
	return vh.App("CM", str(m.Format), vh.N(uint64(m.Version)), str(m.ManifestSHA256), vh.N(m.ManifestBytes))
}

func pMM(m backup.MessageChunkManifest) string {
	return vh.App("MM", str(m.Format), vh.N(uint64(m.Version)), vh.N(uint64(m.HashSlot)), pCRs(m.Chunks),
		vh.N(m.LogicalBytes), vh.N(m.StoredBytes), vh.N(m.Records), vh.N(m.MaxMessageID))
}

func pRM(m backup.RepositoryMarker) string {
	return vh.App("RM", str(m.Format), vh.N(uint64(m.Version)), str(m.SourceClusterID), vh.Z(int64(m.HashSlotCount)),
		vh.Z(m.CreatedAtUnixMillis))
}

// errClass maps an error to the constructor of Model/Archive.v's [err].
func errClass(err error) string {
	switch {
	case errors.Is(err, backup.ErrInvalidManifest):
		return "EManifest"
	case errors.Is(err, backup.ErrUnsupportedVersion):
		return "EVersion"
	case errors.Is(err, backup.ErrInvalidObject):
		return "EObject"
	case errors.Is(err, backup.ErrObjectCorrupt):
		return "ECorrupt"
	case errors.Is(err, backup.ErrObjectNotFound):
		return "ENotFound"
	case errors.Is(err, backup.ErrObjectExists):
		return "EExists"
	case errors.Is(err, backup.ErrRepositoryIncomplete):
		return "EIncomplete"
	default:
		return "EOther"
	}
}

// pRes renders (Ok v) / (Err class).
func pRes(err error, ok string) string {
	if err != nil {
		return "(Err " + errClass(err) + ")"
	}
	return "(Ok " + ok + ")"
}

func resLabel(err error) string {
	if err != nil {
		return errClass(err)
	}
	return "ok"
}

func pOpt(ok bool, s string) string {
	if !ok {
		return "None"
	}
	return vh.Some(s)
}
