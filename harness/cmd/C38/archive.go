package main

// Archive cases: a history over an in-memory repository — build 256 slots, publish, verify,
// mutate single objects (or several), verify again. The printed case carries the resolved
// low-level history (object puts with interned body ids) and, for every distinct body,
// what the abstract functions of the model answer on it (length, SHA-256, Zstandard
// decode, strict JSON decode + canonical flag), computed with the libraries directly.

import (
	"bytes"
	"context"
	"encoding/json"
	"fmt"
	"io"
	"math/rand/v2"
	"sort"
	"strconv"
	"strings"

	runtimebackup "github.com/WuKongIM/WuKongIM/internal/runtime/backup"
	"github.com/WuKongIM/WuKongIM/internal/verifh/vh"
	"github.com/WuKongIM/WuKongIM/pkg/backup"
)

// ---- the repository ------------------------------------------------------------------------

type obj struct {
	body     []byte
	reported uint64 // the size ArchiveStore.Open reports (normally len(body))
}

type putRec struct {
	key  string
	body []byte
}

type memStore struct {
	objs     map[string]obj
	consumed int64    // bytes pulled from readers since the last reset
	log      []putRec // successful ArchiveStore.Put calls, in order
}

type countingReader struct {
	r io.Reader
	s *memStore
}

func (c *countingReader) Read(p []byte) (int, error) {
	n, err := c.r.Read(p)
	c.s.consumed += int64(n)
	return n, err
}

func (s *memStore) Put(_ context.Context, o backup.PutObject) error {
	body, err := io.ReadAll(o.Body)
	if err != nil {
		return err
	}
	if uint64(len(body)) != o.ExpectedBytes {
		return fmt.Errorf("%w: size mismatch", backup.ErrInvalidObject)
	}
	if o.IfAbsent {
		if _, ok := s.objs[o.Key]; ok {
			return backup.ErrObjectExists
		}
	}
	s.objs[o.Key] = obj{append([]byte(nil), body...), uint64(len(body))}
	s.log = append(s.log, putRec{o.Key, append([]byte(nil), body...)})
	return nil
}

func (s *memStore) Open(_ context.Context, key string) (io.ReadCloser, backup.ArchiveObject, error) {
	o, ok := s.objs[key]
	if !ok {
		return nil, backup.ArchiveObject{}, backup.ErrObjectNotFound
	}
	return io.NopCloser(&countingReader{bytes.NewReader(o.body), s}), backup.ArchiveObject{Key: key, Bytes: o.reported}, nil
}

func (s *memStore) List(_ context.Context, prefix string) ([]backup.ArchiveObject, error) {
	var out []backup.ArchiveObject
	for k, o := range s.objs {
		if strings.HasPrefix(k, prefix) {
			out = append(out, backup.ArchiveObject{Key: k, Bytes: o.reported})
		}
	}
	sort.Slice(out, func(i, j int) bool { return out[i].Key < out[j].Key })
	return out, nil
}

func (s *memStore) Delete(_ context.Context, key string) error { delete(s.objs, key); return nil }

func (s *memStore) DeletePrefix(_ context.Context, prefix string) error {
	for k := range s.objs {
		if strings.HasPrefix(k, prefix) {
			delete(s.objs, k)
		}
	}
	return nil
}

func (s *memStore) clone() map[string]obj {
	out := make(map[string]obj, len(s.objs))
	for k, v := range s.objs {
		out[k] = v
	}
	return out
}

// ---- run state -------------------------------------------------------------------------------

type built struct {
	refs  []backup.SlotReference
	slots []backup.SlotManifest
}

type arun struct {
	st      *memStore
	ids     map[string]int
	bodies  [][]byte
	trace   []string
	built   map[string]*built
	snap    map[string]obj
	labels  []string
	verdict []string
}

func (a *arun) intern(b []byte) int {
	if id, ok := a.ids[string(b)]; ok {
		return id
	}
	id := len(a.bodies)
	a.ids[string(b)] = id
	a.bodies = append(a.bodies, append([]byte(nil), b...))
	return id
}

func (a *arun) put(key string, body []byte, reported uint64) {
	a.st.objs[key] = obj{append([]byte(nil), body...), reported}
	a.trace = append(a.trace, vh.App("APut", str(key), vh.N(uint64(a.intern(body))), vh.N(reported)))
}

func (a *arun) del(key string) {
	delete(a.st.objs, key)
	a.trace = append(a.trace, vh.App("ADel", str(key)))
}

// writes prints the ArchiveStore.Put calls since [from], in order, as (key, body id, size) triples.
func (a *arun) writes(from int) string {
	recs := a.st.log[from:]
	items := make([]string, len(recs))
	for i, p := range recs {
		items[i] = "(" + str(p.key) + ", " + vh.N(uint64(a.intern(p.body))) + ", " + vh.N(uint64(len(p.body))) + ")"
	}
	return vh.List(items)
}

func (a *arun) manifestID(m any) string {
	b, err := json.Marshal(m)
	if err != nil {
		panic(err)
	}
	return vh.N(uint64(a.intern(b)))
}

var ctx = context.Background()

// resolve maps a target selector to a repository key ("" when it does not resolve).
func (a *arun) resolve(id, target string) string {
	root := "backups/" + id + "/"
	switch {
	case target == "manifest":
		return root + "manifest.json"
	case target == "marker":
		return root + "COMPLETE"
	case target == "corrupt":
		return root + "CORRUPT"
	case target == "repo":
		return backup.RepositoryMarkerKey
	case target == "catalog":
		return "catalog/" + id
	case strings.HasPrefix(target, "key:"):
		return target[4:]
	case strings.HasPrefix(target, "slot:"):
		b := a.built[id]
		hs, err := strconv.Atoi(target[5:])
		if b == nil || err != nil || hs < 0 || hs >= len(b.refs) {
			return ""
		}
		return root + b.refs[hs].ManifestKey
	case strings.HasPrefix(target, "chunk:"):
		b := a.built[id]
		parts := strings.Split(target[6:], ":")
		if b == nil || len(parts) != 2 {
			return ""
		}
		hs, e1 := strconv.Atoi(parts[0])
		i, e2 := strconv.Atoi(parts[1])
		if e1 != nil || e2 != nil || hs < 0 || hs >= len(b.slots) || i < 0 {
			return ""
		}
		cs := b.slots[hs].Chunks
		return root + cs[i%len(cs)].Key
	}
	return ""
}

// build writes 256 slot manifests and their chunks for backup [id].
func (a *arun) build(id string, seed uint64, richEvery int) {
	r := sub(seed)
	if richEvery <= 0 {
		richEvery = 37
	}
	b := &built{}
	root := "backups/" + id + "/"
	for hs := 0; hs < backup.DefaultHashSlotCount; hs++ {
		rich := hs%richEvery == 3
		m := genSlotManifest(r, uint16(hs), rich)
		for i := range m.Chunks {
			var content []byte
			if rich {
				content = []byte(fmt.Sprintf("slot-%d-chunk-%d-%d", hs, i, r.IntN(4)))
			} else {
				content = []byte(fmt.Sprintf("content-%d", r.IntN(6)))
			}
			e := encodeChunk(content)
			// a key with invalid UTF-8 marshals (as \ufffd) but can never be loaded back
			m.Chunks[i].Key = strings.ToValidUTF8(m.Chunks[i].Key, "u")
			m.Chunks[i].Descriptor = e.desc
			a.put(root+m.Chunks[i].Key, e.stored, uint64(len(e.stored)))
		}
		slotTotals(&m)
		body, err := backup.MarshalSlotManifest(m)
		if err != nil {
			panic(fmt.Sprintf("MarshalSlotManifest: %v", err))
		}
		key := fmt.Sprintf("slots/%03d/manifest.json", hs)
		if r.IntN(3) == 0 {
			key = fmt.Sprintf("slots/%03d/attempts/%08d/manifest.json", hs, 1+r.IntN(2))
		}
		a.put(root+key, body, uint64(len(body)))
		b.slots = append(b.slots, m)
		b.refs = append(b.refs, backup.SlotReference{
			HashSlot: uint16(hs), ManifestKey: key, ManifestSHA256: sha(body),
			LogicalBytes: m.LogicalBytes, StoredBytes: m.StoredBytes, Records: m.Records, MaxMessageID: m.MaxMessageID,
		})
	}
	a.built[id] = b
}

func pPR(q runtimebackup.PublishArchiveRequest) string {
	return vh.App("PR", str(q.ID), str(string(q.Trigger)), str(q.SourceClusterID), str(q.SourceApplication),
		vh.Z(q.StartedUnixMillis), vh.Z(q.CompletedUnixMillis), vh.ListOf(q.Slots, pSR))
}

func (a *arun) request(id string, seed uint64, perturb int) runtimebackup.PublishArchiveRequest {
	r := sub(seed)
	q := runtimebackup.PublishArchiveRequest{
		// (a name with invalid UTF-8 marshals to \ufffd and never loads back: PublishArchive then
		// fails after writing manifest.json; the abstract JSON layer of the model has no such case)
		ID: id, Trigger: backup.TriggerManual, SourceClusterID: "cluster-a", SourceApplication: strings.ToValidUTF8(genName(r), "?"),
		StartedUnixMillis: 1785267600000, CompletedUnixMillis: 1785267603000,
	}
	if b := a.built[id]; b != nil {
		q.Slots = append([]backup.SlotReference(nil), b.refs...)
	}
	switch perturb {
	case 1:
		if len(q.Slots) > 1 {
			i, j := r.IntN(len(q.Slots)), r.IntN(len(q.Slots))
			q.Slots[i], q.Slots[j] = q.Slots[j], q.Slots[i]
		}
	case 2:
		if len(q.Slots) > 0 {
			q.Slots = q.Slots[:len(q.Slots)-1]
		}
	case 3:
		if len(q.Slots) > 0 {
			perturbStruct(r, &q.Slots[r.IntN(len(q.Slots))])
		}
	case 4:
		q.Trigger = "weekly"
	case 5:
		q.SourceClusterID = vh.Pick(r, "", "bad/cluster", "cluster-b")
	case 6:
		q.StartedUnixMillis = vh.Pick(r, int64(0), -5, q.CompletedUnixMillis+1, 1785267601500)
	case 7:
		q.SourceApplication = vh.Pick(r, "", strings.Repeat("a", 129), strings.Repeat("a", 128))
	}
	return q
}

// ---- the ops --------------------------------------------------------------------------------------

func (a *arun) run(o op) {
	id := o.S
	switch o.Op {
	case "build":
		a.build(id, o.Seed, o.A)
	case "publish":
		q := a.request(id, o.Seed, o.A)
		from := len(a.st.log)
		m, err := runtimebackup.PublishArchive(ctx, a.st, q)
		ok := ""
		if err == nil {
			ok = a.manifestID(m)
		}
		a.trace = append(a.trace, vh.App("APublish", pPR(q), pRes(err, ok), a.writes(from)))
		a.labels = append(a.labels, fmt.Sprintf("publish%d=%s", o.A, resLabel(err)))
	case "verify":
		m, err := backup.VerifyPublishedArchive(ctx, a.st, id)
		ok := ""
		if err == nil {
			ok = a.manifestID(m)
		}
		a.trace = append(a.trace, vh.App("AVerify", str(id), pRes(err, ok)))
		a.verdict = append(a.verdict, resLabel(err))
	case "meta":
		m, err := backup.LoadPublishedArchiveMetadata(ctx, a.st, id)
		ok := ""
		if err == nil {
			ok = a.manifestID(m)
		}
		a.trace = append(a.trace, vh.App("AMeta", str(id), pRes(err, ok)))
	case "slot":
		ref, m, err := backup.LoadStoredSlot(ctx, a.st, id, uint16(o.A), o.B != 0)
		ok := ""
		if err == nil {
			ok = vh.Pair(pSR(ref), a.manifestID(m))
		}
		a.trace = append(a.trace, vh.App("ASlot", str(id), vh.N(uint64(uint16(o.A))), vh.B(o.B != 0), pRes(err, ok)))
		a.labels = append(a.labels, "slot="+resLabel(err))
	case "slotref":
		b := a.built[id]
		if b == nil {
			return
		}
		r := sub(o.Seed)
		exp := b.refs[((o.A%len(b.refs))+len(b.refs))%len(b.refs)]
		if o.C != 0 {
			perturbStruct(r, &exp)
		}
		ref, m, err := backup.LoadStoredSlotReference(ctx, a.st, id, exp, o.B != 0)
		ok := ""
		if err == nil {
			ok = vh.Pair(pSR(ref), a.manifestID(m))
		}
		a.trace = append(a.trace, vh.App("ASlotRef", str(id), pSR(exp), vh.B(o.B != 0), pRes(err, ok)))
		a.labels = append(a.labels, "slotref="+resLabel(err))
	case "read":
		key := a.resolve(id, o.T)
		if key == "" {
			return
		}
		a.st.consumed = 0
		body, err := backup.ReadStoredObject(ctx, a.st, key, uint64(o.A))
		ok := ""
		if err == nil {
			ok = vh.N(uint64(a.intern(body)))
		}
		a.trace = append(a.trace, vh.App("ARead", str(key), vh.N(uint64(o.A)), pRes(err, ok), vh.N(uint64(a.st.consumed))))
		a.labels = append(a.labels, "read="+resLabel(err))
	case "ensure":
		from := len(a.st.log)
		m, err := backup.EnsureRepository(ctx, a.st, o.S, int64(o.A))
		a.trace = append(a.trace, vh.App("AEnsure", str(o.S), vh.Z(int64(o.A)), pRes(err, pRM(m)), a.writes(from)))
		a.labels = append(a.labels, "ensure="+resLabel(err))
	case "msgidx":
		a.msgidx(o)
	case "snap":
		a.snap = a.st.clone()
	case "restore":
		if a.snap == nil {
			return
		}
		var keys []string
		for k := range a.st.objs {
			keys = append(keys, k)
		}
		for k := range a.snap {
			if _, ok := a.st.objs[k]; !ok {
				keys = append(keys, k)
			}
		}
		sort.Strings(keys)
		for _, k := range keys {
			want, ok := a.snap[k]
			have, has := a.st.objs[k]
			switch {
			case !ok:
				a.del(k)
			case !has || !bytes.Equal(want.body, have.body) || want.reported != have.reported:
				a.put(k, want.body, want.reported)
			}
		}
	case "refresh":
		a.refresh(id, o)
	case "mut":
		a.mutate(o)
	}
}

// msgidx writes a message chunk index for one slot and loads it back with an expected digest.
func (a *arun) msgidx(o op) {
	r := sub(o.Seed)
	id := o.S
	m := genMsgManifest(r)
	label := "valid"
	var body []byte
	switch o.B % 5 {
	case 1:
		perturbStruct(r, &m)
		body, _ = json.Marshal(m)
		label = "sem"
	case 2:
		body, _ = json.Marshal(m)
		body, label = perturbText(r, body)
	default:
		var err error
		body, err = backup.MarshalMessageChunkManifest(m)
		if err != nil {
			panic(err)
		}
	}
	key := fmt.Sprintf("slots/%03d/attempts/00000001/message-index.json", m.HashSlot)
	expected := sha(body)
	switch o.B % 5 {
	case 3:
		expected = genDigest(r)
		label = "other-digest"
	case 4:
		key = vh.Pick(r, "../x", "slots//a", "", "a/./b")
		label = "unsafe-key"
	}
	if backup.ValidateRepositoryKey("backups/"+id+"/"+key) == nil {
		a.put("backups/"+id+"/"+key, body, uint64(len(body)))
	}
	if o.C%4 == 1 { // the stored object changes after the digest was taken
		if ob, ok := a.st.objs["backups/"+id+"/"+key]; ok && len(ob.body) > 0 {
			nb := append([]byte(nil), ob.body...)
			nb[r.IntN(len(nb))] ^= 1
			a.put("backups/"+id+"/"+key, nb, uint64(len(nb)))
			label += "+flip"
		}
	}
	got, err := backup.LoadStoredMessageChunkManifest(ctx, a.st, id, key, expected)
	ok := ""
	if err == nil {
		ok = a.manifestID(got)
	}
	a.trace = append(a.trace, vh.App("AMsgIdx", str(id), str(key), str(expected), pRes(err, ok)))
	a.labels = append(a.labels, "msgidx/"+label+"="+resLabel(err))
}

// refresh re-binds the top-level manifest and COMPLETE to the slot manifests currently
// stored (a consistent re-publication by overwriting: the archive changes AND verifies).
func (a *arun) refresh(id string, o op) {
	root := "backups/" + id + "/"
	mo, ok := a.st.objs[root+"manifest.json"]
	if !ok {
		return
	}
	var m backup.ArchiveManifest
	if json.Unmarshal(mo.body, &m) != nil {
		return
	}
	for i := range m.Slots {
		so, ok := a.st.objs[root+m.Slots[i].ManifestKey]
		if !ok {
			continue
		}
		var sm backup.SlotManifest
		if json.Unmarshal(so.body, &sm) != nil {
			continue
		}
		m.Slots[i].ManifestSHA256 = sha(so.body)
		m.Slots[i].LogicalBytes, m.Slots[i].StoredBytes = sm.LogicalBytes, sm.StoredBytes
		m.Slots[i].Records, m.Slots[i].MaxMessageID = sm.Records, sm.MaxMessageID
	}
	if o.A == 2 && len(m.Slots) > 1 { // a manifest every object of which is bound, in another slot order
		r := sub(o.Seed)
		i, j := r.IntN(len(m.Slots)), r.IntN(len(m.Slots))
		m.Slots[i], m.Slots[j] = m.Slots[j], m.Slots[i]
	}
	archiveTotals(&m, nil)
	body, err := backup.MarshalArchiveManifest(m)
	if err != nil {
		return
	}
	a.put(root+"manifest.json", body, uint64(len(body)))
	if o.A == 1 { // leave the old marker in place
		return
	}
	marker, err := backup.NewCompleteMarker(body)
	if err != nil {
		return
	}
	kb, err := backup.MarshalCompleteMarker(marker)
	if err != nil {
		return
	}
	a.put(root+"COMPLETE", kb, uint64(len(kb)))
}

var hows = []string{"flip", "trunc", "append", "del", "size", "swap", "copy", "ws", "sem", "frame", "mark-corrupt", "empty", "same"}

func (a *arun) mutate(o op) {
	id := o.S
	key := a.resolve(id, o.T)
	if key == "" {
		return
	}
	r := sub(o.Seed)
	how := hows[((o.A%len(hows))+len(hows))%len(hows)]
	cur, exists := a.st.objs[key]
	label := how
	switch how {
	case "mark-corrupt":
		cb := []byte(vh.Pick(r, "x", "{}", "corrupt"))
		a.put("backups/"+id+"/CORRUPT", cb, uint64(len(cb)))
	case "del":
		if exists {
			a.del(key)
		}
	case "flip":
		if exists && len(cur.body) > 0 {
			nb := append([]byte(nil), cur.body...)
			nb[((o.B%len(nb))+len(nb))%len(nb)] ^= byte(1 << r.UintN(8))
			a.put(key, nb, uint64(len(nb)))
		}
	case "trunc":
		if exists && len(cur.body) > 0 {
			nb := cur.body[:len(cur.body)-1-(o.B%len(cur.body)+len(cur.body))%len(cur.body)]
			a.put(key, nb, uint64(len(nb)))
		}
	case "append":
		if exists {
			nb := append(append([]byte(nil), cur.body...), vh.Pick(r, "\n", " ", "\x00", "}", "x")...)
			a.put(key, nb, uint64(len(nb)))
		}
	case "empty":
		if exists {
			a.put(key, nil, 0)
		}
	case "same":
		if exists {
			a.put(key, cur.body, cur.reported)
		}
	case "size":
		if exists {
			rep := cur.reported
			switch o.B % 4 {
			case 0:
				rep++
			case 1:
				rep--
			case 2:
				rep = uint64(backup.MaxSlotManifestBytes) + 1
			case 3:
				rep = 0
			}
			a.put(key, cur.body, rep)
			label = fmt.Sprintf("size%d", o.B%4)
		}
	case "swap", "copy":
		k2 := a.resolve(id, o.U)
		o2, ok2 := a.st.objs[k2]
		if exists && ok2 && k2 != key {
			a.put(key, o2.body, uint64(len(o2.body)))
			if how == "swap" {
				a.put(k2, cur.body, uint64(len(cur.body)))
			}
			if bytes.Equal(o2.body, cur.body) {
				label += "-identical"
			}
		}
	case "ws":
		if exists {
			ps := structuralPositions(cur.body)
			if len(ps) > 0 {
				nb := insertAt(cur.body, ps[r.IntN(len(ps))], " ")
				a.put(key, nb, uint64(len(nb)))
			}
		}
	case "frame":
		if exists {
			nb := append(append([]byte(nil), cur.body...), skippableFrame(r.IntN(3))...)
			a.put(key, nb, uint64(len(nb)))
		}
	case "sem":
		if !exists {
			return
		}
		var nb []byte
		var sm backup.SlotManifest
		var am backup.ArchiveManifest
		var cm backup.CompleteMarker
		switch {
		case backup.VerifDecodeStrictJSON(cur.body, &sm) == nil && sm.Format == backup.SlotManifestFormat:
			switch o.B % 4 {
			case 0: // a free field: still a valid canonical manifest of this slot
				sm.Cut.LeaderTerm++
			case 1:
				sm.Records++
			case 2:
				sm.HashSlot = (sm.HashSlot + 1) % backup.DefaultHashSlotCount
			default:
				perturbStruct(r, &sm)
			}
			nb, _ = json.Marshal(sm)
		case backup.VerifDecodeStrictJSON(cur.body, &am) == nil && am.Format == backup.ArchiveFormat:
			switch o.B % 4 {
			case 0:
				am.CompletedAtUnixMillis++
			case 1:
				am.ID += "x"
			case 2:
				i := r.IntN(len(am.Slots))
				j := r.IntN(len(am.Slots))
				am.Slots[i], am.Slots[j] = am.Slots[j], am.Slots[i]
			default:
				perturbStruct(r, &am)
			}
			nb, _ = json.Marshal(am)
		case backup.VerifDecodeStrictJSON(cur.body, &cm) == nil && cm.Format == backup.CompleteMarkerFormat:
			perturbStruct(r, &cm)
			nb, _ = json.Marshal(cm)
		default: // a chunk: another valid stream
			nb = encodeChunk([]byte(fmt.Sprintf("other-%d", r.IntN(3)))).stored
		}
		a.put(key, nb, uint64(len(nb)))
	}
	a.labels = append(a.labels, "mut:"+strings.SplitN(o.T, ":", 2)[0]+"/"+label)
}

// ---- printing the body table --------------------------------------------------------------------

func bodyInfo(b []byte) string {
	u := unzOracle(b)
	var am backup.ArchiveManifest
	var sm backup.SlotManifest
	var cm backup.CompleteMarker
	var mm backup.MessageChunkManifest
	var rm backup.RepositoryMarker
	canon := func(m any) string {
		c, err := json.Marshal(m)
		return vh.B(err == nil && bytes.Equal(c, b))
	}
	amOK := backup.VerifDecodeStrictJSON(b, &am) == nil
	smOK := backup.VerifDecodeStrictJSON(b, &sm) == nil
	cmOK := backup.VerifDecodeStrictJSON(b, &cm) == nil
	mmOK := backup.VerifDecodeStrictJSON(b, &mm) == nil
	rmOK := backup.VerifDecodeStrictJSON(b, &rm) == nil
	n := 0
	for _, x := range []bool{u.ok, amOK, smOK, cmOK, mmOK, rmOK} {
		if x {
			n++
		}
	}
	l, s := vh.N(uint64(len(b))), str(sha(b))
	switch {
	case n == 0:
		return vh.App("BRaw", l, s)
	case n == 1 && u.ok:
		return vh.App("BChunk", l, s, vh.N(u.llen), str(u.lsha))
	case n == 1 && smOK:
		return vh.App("BSlot", l, s, pSM(sm), canon(sm))
	case n == 1 && amOK:
		return vh.App("BArch", l, s, pAM(am), canon(am))
	case n == 1 && cmOK:
		return vh.App("BMarker", l, s, pCM(cm), canon(cm))
	case n == 1 && mmOK:
		return vh.App("BMsg", l, s, pMM(mm), canon(mm))
	case n == 1 && rmOK:
		return vh.App("BRepo", l, s, pRM(rm), canon(rm))
	}
	return vh.App("BI", l, s, pUnz(u),
		pOpt(amOK, vh.Pair(pAM(am), canon(am))), pOpt(smOK, vh.Pair(pSM(sm), canon(sm))),
		pOpt(cmOK, vh.Pair(pCM(cm), canon(cm))), pOpt(mmOK, vh.Pair(pMM(mm), canon(mm))),
		pOpt(rmOK, vh.Pair(pRM(rm), canon(rm))))
}

func runArchive(in input) vh.Result {
	resetStrings()
	a := &arun{st: &memStore{objs: map[string]obj{}}, ids: map[string]int{}, built: map[string]*built{}}
	for _, o := range in.Ops {
		a.run(o)
	}
	infos := make([]string, len(a.bodies))
	for i, b := range a.bodies {
		infos[i] = bodyInfo(b)
	}
	class := "archive/" + strings.Join(a.labels, ",")
	if len(class) > 90 {
		class = class[:90]
	}
	class += " -> " + strings.Join(a.verdict, ",")
	return vh.Result{
		Coq:     withStrings(vh.App("CaseArchive", vh.List(infos), vh.List(a.trace))),
		Obs:     map[string]any{"labels": a.labels, "verify": a.verdict, "objects": len(a.st.objs), "bodies": len(a.bodies)},
		Class:   class,
		Trivial: len(a.trace) == 0,
	}
}

// ---- generator ------------------------------------------------------------------------------------

func genTarget(r *rand.Rand) string {
	switch r.IntN(10) {
	case 0:
		return "manifest"
	case 1:
		return "marker"
	case 2, 3, 4:
		return fmt.Sprintf("slot:%d", vh.Pick(r, 0, 3, 40, 255, r.IntN(256)))
	default:
		return fmt.Sprintf("chunk:%d:%d", vh.Pick(r, 3, 40, 77, 0, 255, r.IntN(256)), r.IntN(4))
	}
}

func genArchive(r *rand.Rand, tier string) input {
	id := vh.Pick(r, "bk1", "bk_20260729", "a.b")
	in := input{Kind: "archive"}
	add := func(o op) { in.Ops = append(in.Ops, o) }
	seed := func() uint64 { return r.Uint64() >> 1 }
	add(op{Op: "build", S: id, Seed: seed(), A: vh.Pick(r, 37, 37, 19, 101)})
	pre := r.IntN(10)
	switch pre {
	case 0: // a defect before publication: PublishArchive must refuse
		add(op{Op: "mut", S: id, T: genTarget(r), A: r.IntN(len(hows)), B: r.IntN(1000), U: genTarget(r), Seed: seed()})
	case 1:
		add(op{Op: "ensure", S: vh.Pick(r, "cluster-a", "cluster-b", "", "bad/id"), A: vh.Pick(r, 5, 0, -1, 1785267603000)})
	}
	add(op{Op: "publish", S: id, Seed: seed(), A: vh.Pick(r, 0, 0, 0, 0, 0, 0, r.IntN(8))})
	add(op{Op: "verify", S: id})
	if r.IntN(4) == 0 {
		add(op{Op: "publish", S: id, Seed: seed(), A: vh.Pick(r, 0, 0, 4, 5, 6, 7)}) // retry of a COMPLETE archive
	}
	add(op{Op: "snap"})
	n := 3 + r.IntN(5)
	if tier == "thorough" {
		n = 6 + r.IntN(10)
	}
	for i := 0; i < n; i++ {
		switch r.IntN(12) {
		case 0:
			add(op{Op: "meta", S: vh.Pick(r, id, id, "", "nope")})
		case 1:
			add(op{Op: "slot", S: id, A: vh.Pick(r, 0, 3, 255, 256, r.IntN(256)), B: r.IntN(2)})
		case 2:
			add(op{Op: "slotref", S: id, A: r.IntN(256), B: r.IntN(2), C: r.IntN(2), Seed: seed()})
		case 3:
			add(op{Op: "read", S: id, T: genTarget(r), A: vh.Pick(r, 0, 1, 10, 300, 800, 1<<20)})
		case 4:
			add(op{Op: "msgidx", S: id, Seed: seed(), B: r.IntN(5), C: r.IntN(4)})
		case 5: // the same archive re-bound (possibly in another slot order), nothing else changed
			add(op{Op: "refresh", S: id, A: vh.Pick(r, 0, 2, 2), Seed: seed()})
			add(op{Op: "verify", S: id})
			add(op{Op: "restore"})
		default:
			// one mutation (sometimes two), verify, undo
			add(op{Op: "mut", S: id, T: genTarget(r), A: r.IntN(len(hows)), B: r.IntN(1000), U: genTarget(r), Seed: seed()})
			if r.IntN(6) == 0 {
				add(op{Op: "mut", S: id, T: genTarget(r), A: r.IntN(len(hows)), B: r.IntN(1000), U: genTarget(r), Seed: seed()})
			}
			if r.IntN(5) == 0 {
				add(op{Op: "refresh", S: id, A: r.IntN(3), Seed: seed()})
			}
			add(op{Op: "verify", S: id})
			if r.IntN(3) == 0 {
				add(op{Op: "meta", S: id})
			}
			add(op{Op: "restore"})
		}
	}
	add(op{Op: "verify", S: id})
	return in
}
