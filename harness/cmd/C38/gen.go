package main

// Deterministic builders of valid manifests (from a sub-seed) and the two families of
// perturbation: semantic (on the struct, through reflection) and textual (on the JSON).

import (
	"bytes"
	"crypto/sha256"
	"encoding/hex"
	"fmt"
	"math/rand/v2"
	"reflect"
	"strings"

	"github.com/WuKongIM/WuKongIM/pkg/backup"
)

func sub(seed uint64) *rand.Rand { return rand.New(rand.NewPCG(seed, 0xC38C38)) }

func sha(b []byte) string { s := sha256.Sum256(b); return hex.EncodeToString(s[:]) }

var digestPool = []string{sha([]byte("a")), sha([]byte("b")), sha([]byte("c")), sha(nil)}

func genDigest(r *rand.Rand) string {
	if r.IntN(3) == 0 {
		return digestPool[r.IntN(len(digestPool))]
	}
	var b [32]byte
	for i := range b {
		b[i] = byte(r.UintN(256))
	}
	return hex.EncodeToString(b[:])
}

// strings that exercise json string escaping (HTML set, control bytes, U+2028/9,
// multi-byte runes, invalid UTF-8)
var oddStrings = []string{
	"wukongim-test", "app", "a<b>&c", "q\"uote", "back\\slash", "tab\tnl\nbs\bff\fcr\r", "\x01\x1f\x7f",
	"l\u2028s\u2029p", "\u00e9\u4e16\U0001F600", "\xff", "\xe2\x80", "\xed\xa0\x80", "\xf4\x90\x80\x80", "\xc0\xaf",
	"\xe0\x9f\xbf", "\xf0\x8f\xbf\xbf", "\xc2", "caf\xc3\xa9", "\xef\xbf\xbd",
}

func genName(r *rand.Rand) string {
	switch r.IntN(4) {
	case 0:
		return oddStrings[r.IntN(len(oddStrings))]
	case 1:
		return oddStrings[r.IntN(len(oddStrings))] + oddStrings[r.IntN(len(oddStrings))]
	default:
		return []string{"wukongim", "im-node", "x", "backup.service_1"}[r.IntN(4)]
	}
}

func genIdent(r *rand.Rand) string {
	return []string{"bk1", "bk_20260729_010000_01", "cluster-1", "a.b", "Z", "c-2"}[r.IntN(6)]
}

func u64small(r *rand.Rand) uint64 {
	switch r.IntN(6) {
	case 0:
		return 0
	case 1:
		return uint64(r.IntN(3))
	case 2:
		return ^uint64(0) - uint64(r.IntN(2))
	default:
		return uint64(r.IntN(100000))
	}
}

func genDescriptor(r *rand.Rand) backup.ChunkDescriptor {
	return backup.ChunkDescriptor{
		StoredSHA256: genDigest(r), LogicalSHA256: genDigest(r),
		LogicalBytes: uint64(r.IntN(5000)), StoredBytes: 1 + uint64(r.IntN(3000)),
		Compression: backup.CompressionZstd,
	}
}

func attemptName(r *rand.Rand) string {
	switch r.IntN(5) {
	case 0:
		return oddStrings[r.IntN(len(oddStrings))]
	default:
		return fmt.Sprintf("%08d", 1+r.IntN(3))
	}
}

// slotChunkPlan returns valid ordered chunk references (descriptors random) for one slot.
func slotChunkPlan(r *rand.Rand, hs uint16, rich bool) []backup.ChunkReference {
	var out []backup.ChunkReference
	attempt := ""
	if r.IntN(2) == 0 {
		attempt = "attempts/" + attemptName(r) + "/"
	}
	add := func(kind backup.ChunkKind, prefix string, seq, stream, part uint32, final bool) {
		c := backup.ChunkReference{
			Kind: kind, Sequence: seq, Stream: stream, Part: part, Final: final,
			Key:        fmt.Sprintf("slots/%03d/%s%s-%06d.zst", hs, attempt, prefix, seq),
			Descriptor: genDescriptor(r), Records: uint64(r.IntN(50)),
		}
		if kind == backup.ChunkKindMessages && r.IntN(2) == 0 {
			c.MaxMessageID = u64small(r)
		}
		out = append(out, c)
	}
	metaParts := 1
	if rich && r.IntN(2) == 0 {
		metaParts = 2 + r.IntN(2)
	}
	for p := 1; p <= metaParts; p++ {
		add(backup.ChunkKindMetadata, "meta", uint32(p), 0, uint32(p), p == metaParts)
	}
	streams := 0
	if rich {
		streams = r.IntN(3)
	}
	seq := uint32(1)
	for s := 1; s <= streams; s++ {
		parts := 1 + r.IntN(2)
		for p := 1; p <= parts; p++ {
			add(backup.ChunkKindMessages, "messages", seq, uint32(s), uint32(p), p == parts)
			seq++
		}
	}
	return out
}

func slotTotals(m *backup.SlotManifest) {
	m.LogicalBytes, m.StoredBytes, m.Records, m.MaxMessageID = 0, 0, 0, 0
	for _, c := range m.Chunks {
		m.LogicalBytes += c.Descriptor.LogicalBytes
		m.StoredBytes += c.Descriptor.StoredBytes
		m.Records += c.Records
		if c.MaxMessageID > m.MaxMessageID {
			m.MaxMessageID = c.MaxMessageID
		}
	}
}

func genCut(r *rand.Rand) backup.SlotCut {
	return backup.SlotCut{
		PhysicalSlotID: 1 + uint32(r.IntN(8)), LeaderTerm: 1 + uint64(r.IntN(20)), AppliedTerm: 1 + uint64(r.IntN(20)),
		ConfigurationVersion: 1 + uint64(r.IntN(9)), AppliedIndex: 1 + uint64(r.IntN(1000)),
		CapturedAtUnixMillis: 1785267601000 + int64(r.IntN(1000)),
	}
}

func genSlotManifest(r *rand.Rand, hs uint16, rich bool) backup.SlotManifest {
	m := backup.SlotManifest{
		Format: backup.SlotManifestFormat, Version: backup.SlotManifestVersion, HashSlot: hs,
		Cut: genCut(r), Chunks: slotChunkPlan(r, hs, rich),
	}
	slotTotals(&m)
	return m
}

func genMsgManifest(r *rand.Rand) backup.MessageChunkManifest {
	hs := uint16(r.IntN(256))
	n := 1 + r.IntN(3)
	first := uint32(1 + r.IntN(5))
	if r.IntN(8) == 0 {
		first = ^uint32(0) - uint32(r.IntN(2)) // sequence arithmetic wraps in uint32
	}
	stream := uint32(1 + r.IntN(4))
	var cs []backup.ChunkReference
	for i := 0; i < n; i++ {
		c := backup.ChunkReference{
			Kind: backup.ChunkKindMessages, Sequence: first + uint32(i), Stream: stream, Part: uint32(i) + 1, Final: i == n-1,
			Key:        fmt.Sprintf("slots/%03d/attempts/%s/messages-%06d.zst", hs, attemptName(r), first+uint32(i)),
			Descriptor: genDescriptor(r), Records: uint64(r.IntN(50)), MaxMessageID: u64small(r),
		}
		if backup.ValidateRepositoryKey(c.Key) != nil {
			c.Key = fmt.Sprintf("slots/%03d/messages-%06d.zst", hs, first+uint32(i))
		}
		cs = append(cs, c)
	}
	m := backup.MessageChunkManifest{
		Format: backup.VerifMessageChunkManifestFormat, Version: backup.VerifMessageChunkManifestVersion,
		HashSlot: hs, Chunks: cs,
	}
	for _, c := range cs {
		m.LogicalBytes += c.Descriptor.LogicalBytes
		m.StoredBytes += c.Descriptor.StoredBytes
		m.Records += c.Records
		if c.MaxMessageID > m.MaxMessageID {
			m.MaxMessageID = c.MaxMessageID
		}
	}
	return m
}

func genSlotRefs(r *rand.Rand) []backup.SlotReference {
	slots := make([]backup.SlotReference, backup.DefaultHashSlotCount)
	for i := range slots {
		key := fmt.Sprintf("slots/%03d/manifest.json", i)
		if r.IntN(3) == 0 {
			key = fmt.Sprintf("slots/%03d/attempts/%08d/manifest.json", i, 1+r.IntN(3))
		}
		slots[i] = backup.SlotReference{
			HashSlot: uint16(i), ManifestKey: key, ManifestSHA256: genDigest(r),
			LogicalBytes: uint64(r.IntN(1000)), StoredBytes: uint64(r.IntN(1000)), Records: uint64(r.IntN(100)),
		}
		if r.IntN(4) == 0 {
			slots[i].MaxMessageID = u64small(r)
		}
	}
	if r.IntN(6) == 0 { // validateArchiveManifest accepts any permutation
		i, j := r.IntN(len(slots)), r.IntN(len(slots))
		slots[i], slots[j] = slots[j], slots[i]
	}
	return slots
}

func archiveTotals(m *backup.ArchiveManifest, r *rand.Rand) {
	var lb, sb, rc, mx uint64
	for _, s := range m.Slots {
		lb += s.LogicalBytes
		sb += s.StoredBytes
		rc += s.Records
		if s.MaxMessageID > mx {
			mx = s.MaxMessageID
		}
	}
	// a zero total is accepted as "not recorded"
	m.LogicalBytes, m.StoredBytes, m.Records, m.MaxMessageID = lb, sb, rc, mx
	if r != nil {
		switch r.IntN(8) {
		case 0:
			m.LogicalBytes = 0
		case 1:
			m.StoredBytes = 0
		case 2:
			m.Records = 0
		case 3:
			m.MaxMessageID = 0
		}
	}
}

func genArchiveManifest(r *rand.Rand) backup.ArchiveManifest {
	start := int64(1785267600000 + r.IntN(1000))
	m := backup.ArchiveManifest{
		Format: backup.ArchiveFormat, Version: backup.ArchiveVersion, ID: genIdent(r),
		Trigger:         []backup.Trigger{backup.TriggerInitial, backup.TriggerScheduled, backup.TriggerManual}[r.IntN(3)],
		SourceClusterID: genIdent(r), SourceApplication: genName(r), HashSlotCount: backup.DefaultHashSlotCount,
		StartedAtUnixMillis: start, CutStartedUnixMillis: start + int64(r.IntN(3)),
		Compression: backup.CompressionZstd, Checksum: backup.ChecksumSHA256, Slots: genSlotRefs(r),
	}
	m.CutEndedUnixMillis = m.CutStartedUnixMillis + int64(r.IntN(3))
	m.CompletedAtUnixMillis = m.CutEndedUnixMillis + int64(r.IntN(3))
	archiveTotals(&m, r)
	return m
}

func genMarker(r *rand.Rand) backup.CompleteMarker {
	return backup.CompleteMarker{
		Format: backup.CompleteMarkerFormat, Version: backup.CompleteMarkerVersion,
		ManifestSHA256: genDigest(r), ManifestBytes: 1 + uint64(r.IntN(100000)),
	}
}

func genRepoMarker(r *rand.Rand) backup.RepositoryMarker {
	return backup.RepositoryMarker{
		Format: backup.RepositoryFormat, Version: backup.RepositoryVersion, SourceClusterID: genIdent(r),
		HashSlotCount: backup.DefaultHashSlotCount, CreatedAtUnixMillis: 1 + int64(r.IntN(1<<40)),
	}
}

// ---- semantic perturbation through reflection ------------------------------------------

type leaf struct {
	v    reflect.Value
	path string
}

func leaves(v reflect.Value, path string, out *[]leaf) {
	switch v.Kind() {
	case reflect.Struct:
		for i := 0; i < v.NumField(); i++ {
			leaves(v.Field(i), path+"."+v.Type().Field(i).Name, out)
		}
	case reflect.Slice:
		*out = append(*out, leaf{v, path + "[]"})
		n := v.Len()
		// only a few elements of long slices, so that the other fields keep their share
		idx := []int{0, n / 2, n - 1}
		seen := map[int]bool{}
		for _, i := range idx {
			if i >= 0 && i < n && !seen[i] {
				seen[i] = true
				leaves(v.Index(i), fmt.Sprintf("%s[%d]", path, i), out)
			}
		}
	default:
		*out = append(*out, leaf{v, path})
	}
}

// perturbStruct changes one field (or the shape of one slice) of *p; returns a label.
func perturbStruct(r *rand.Rand, p any) string {
	var ls []leaf
	leaves(reflect.ValueOf(p).Elem(), "", &ls)
	l := ls[r.IntN(len(ls))]
	v := l.v
	switch v.Kind() {
	case reflect.String:
		s := v.String()
		switch r.IntN(8) {
		case 0:
			v.SetString("")
		case 1:
			v.SetString(s + "x")
		case 2:
			v.SetString(strings.ToUpper(s))
		case 3:
			v.SetString(oddStrings[r.IntN(len(oddStrings))])
		case 4:
			if len(s) > 0 {
				v.SetString(s[:len(s)-1])
			}
		case 5:
			v.SetString(strings.Replace(s, "/", "//", 1))
		case 6:
			v.SetString(strings.Replace(s, "slots/", "slots/../slots/", 1))
		default:
			if len(s) > 0 {
				b := []byte(s)
				b[r.IntN(len(b))] ^= byte(1 << r.UintN(7))
				v.SetString(string(b))
			}
		}
	case reflect.Uint16, reflect.Uint32, reflect.Uint64, reflect.Uint, reflect.Uint8:
		x := v.Uint()
		switch r.IntN(6) {
		case 0:
			x = 0
		case 1:
			x++
		case 2:
			x--
		case 3:
			x = ^uint64(0)
		case 4:
			x = 256
		default:
			x = uint64(r.IntN(300))
		}
		v.SetUint(x & (^uint64(0) >> (64 - uint(v.Type().Bits()))))
	case reflect.Int, reflect.Int64, reflect.Int32:
		x := v.Int()
		switch r.IntN(5) {
		case 0:
			x = 0
		case 1:
			x++
		case 2:
			x--
		case 3:
			x = -x
		default:
			x = int64(r.IntN(300))
		}
		v.SetInt(x)
	case reflect.Bool:
		v.SetBool(!v.Bool())
	case reflect.Slice:
		n := v.Len()
		switch r.IntN(4) {
		case 0:
			if n > 0 {
				v.Set(v.Slice(0, n-1))
			}
		case 1:
			if n > 0 {
				v.Set(reflect.Append(v, v.Index(r.IntN(n))))
			}
		case 2:
			if n > 1 {
				i, j := r.IntN(n), r.IntN(n)
				a, b := reflect.ValueOf(v.Index(i).Interface()), reflect.ValueOf(v.Index(j).Interface())
				v.Index(i).Set(b)
				v.Index(j).Set(a)
			}
		default:
			if n > 0 {
				v.Set(v.Slice(1, n))
			}
		}
	}
	return "sem" + l.path
}

// ---- textual perturbation of a JSON document -----------------------------------------------

func insertAt(b []byte, i int, s string) []byte {
	out := append([]byte(nil), b[:i]...)
	out = append(out, s...)
	return append(out, b[i:]...)
}

// structural positions: after '{' ',' ':' '[' outside strings
func structuralPositions(b []byte) []int {
	var pos []int
	in := false
	for i := 0; i < len(b); i++ {
		c := b[i]
		if in {
			if c == '\\' {
				i++
			} else if c == '"' {
				in = false
			}
			continue
		}
		switch c {
		case '"':
			in = true
		case '{', ',', ':', '[':
			pos = append(pos, i+1)
		}
	}
	return pos
}

var fieldRe = []string{"version", "hash_slot", "records", "format", "chunks", "slots", "id", "kind", "key", "final", "cut",
	"manifest_bytes", "manifest_sha256", "logical_bytes", "source_cluster_id", "descriptor", "part"}

// perturbText returns a variant of the canonical document and a label.
func perturbText(r *rand.Rand, b []byte) ([]byte, string) { return perturbTextKind(r, b, -1) }

// perturbTextKind applies perturbation number kind (kind < 0: drawn from r).
func perturbTextKind(r *rand.Rand, b []byte, kind int) ([]byte, string) {
	// perturbations that survive the strict decoder and validation (only the canonical-form
	// check rejects them) get half of the weight
	k := r.IntN(22)
	if r.IntN(2) == 0 {
		k = []int{0, 0, 1, 1, 2, 6, 7, 8, 8, 15}[r.IntN(10)]
	}
	if kind >= 0 {
		k = kind
	}
	switch k {
	case 0:
		ps := structuralPositions(b)
		if len(ps) == 0 {
			return b, "txt-none"
		}
		return insertAt(b, ps[r.IntN(len(ps))], []string{" ", "\n", "\t", "\r", "  "}[r.IntN(5)]), "txt-ws"
	case 1:
		return append(append([]byte(nil), b...), []string{" ", "\n", "\r\n", "\t"}[r.IntN(4)]...), "txt-trailing-ws"
	case 2:
		return append([]byte([]string{" ", "\n", "\ufeff"}[r.IntN(3)]), b...), "txt-leading"
	case 3:
		return append(append([]byte(nil), b...), []string{"{}", "null", "1", "x", "[]", "\x00"}[r.IntN(6)]...), "txt-trailing-value"
	case 4: // unknown field
		if len(b) > 1 && b[0] == '{' {
			return insertAt(b, 1, []string{`"unexpected":true,`, `"x":null,`, `"":0,`}[r.IntN(3)]), "txt-unknown-field"
		}
	case 5: // unknown field at the end / in a nested object
		i := bytes.LastIndexByte(b, '}')
		if i > 0 {
			if r.IntN(2) == 0 {
				i = bytes.IndexByte(b[1:], '}') + 1
			}
			if i > 0 {
				return insertAt(b, i, `,"extra":1`), "txt-unknown-field"
			}
		}
	case 6: // duplicate key
		f := fieldRe[r.IntN(len(fieldRe))]
		i := bytes.Index(b, []byte(`"`+f+`":`))
		if i >= 0 {
			// copy "name":value up to the next top-level comma of a scalar
			j := i + len(f) + 3
			e := j
			for e < len(b) && b[e] != ',' && b[e] != '}' && b[e] != '[' && b[e] != '{' {
				e++
			}
			if e < len(b) && (b[e] == ',' || b[e] == '}') {
				return insertAt(b, i, string(b[i:e])+","), "txt-duplicate-key"
			}
		}
	case 7: // key case (encoding/json matches names case-insensitively)
		f := fieldRe[r.IntN(len(fieldRe))]
		i := bytes.Index(b, []byte(`"`+f+`":`))
		if i >= 0 {
			out := append([]byte(nil), b...)
			copy(out[i+1:], strings.ToUpper(f[:1]))
			return out, "txt-key-case"
		}
	case 8: // escaped character inside a string value: same value, other spelling
		for try := 0; try < 8; try++ {
			i := r.IntN(len(b) + 1)
			j := bytes.IndexAny(b[min(i, len(b)):], "abcdefsz/")
			if j >= 0 {
				p := min(i, len(b)) + j
				// must be inside a string: count unescaped quotes before p
				if bytes.Count(b[:p], []byte(`"`))%2 == 1 {
					esc := fmt.Sprintf(`\u%04x`, b[p])
					if b[p] == '/' && r.IntN(2) == 0 {
						esc = `\/`
					}
					out := append([]byte(nil), b[:p]...)
					out = append(out, esc...)
					return append(out, b[p+1:]...), "txt-escape"
				}
			}
		}
	case 9: // number spelling
		// simpler: rewrite the first "version":1
		for _, pat := range []string{`"version":1`, `"part":1`, `"hash_slot_count":256`, `"sequence":1`} {
			if i := bytes.Index(b, []byte(pat)); i >= 0 {
				rep := pat + []string{".0", "e0", "E+0", ".00"}[r.IntN(4)]
				if r.IntN(3) == 0 {
					rep = pat[:strings.Index(pat, ":")+1] + []string{"01", "+1", "-0", "1 ", "0x1"}[r.IntN(5)]
				}
				return bytes.Replace(b, []byte(pat), []byte(rep), 1), "txt-number-spelling"
			}
		}
	case 10: // null for a field
		f := fieldRe[r.IntN(len(fieldRe))]
		i := bytes.Index(b, []byte(`"`+f+`":`))
		if i >= 0 {
			j := i + len(f) + 3
			e := j
			depth := 0
			inStr := false
			for e < len(b) {
				c := b[e]
				if inStr {
					if c == '\\' {
						e++
					} else if c == '"' {
						inStr = false
					}
				} else if c == '"' {
					inStr = true
				} else if c == '{' || c == '[' {
					depth++
				} else if c == '}' || c == ']' {
					if depth == 0 {
						break
					}
					depth--
				} else if c == ',' && depth == 0 {
					break
				}
				e++
			}
			out := append([]byte(nil), b[:j]...)
			out = append(out, "null"...)
			return append(out, b[e:]...), "txt-null-field"
		}
	case 11: // drop a field
		f := fieldRe[r.IntN(len(fieldRe))]
		i := bytes.Index(b, []byte(`,"`+f+`":`))
		if i >= 0 {
			e := i + 1
			depth := 0
			inStr := false
			for e < len(b) {
				c := b[e]
				if inStr {
					if c == '\\' {
						e++
					} else if c == '"' {
						inStr = false
					}
				} else if c == '"' {
					inStr = true
				} else if c == '{' || c == '[' {
					depth++
				} else if c == '}' || c == ']' {
					if depth == 0 {
						break
					}
					depth--
				} else if c == ',' && depth == 0 {
					break
				}
				e++
			}
			out := append([]byte(nil), b[:i]...)
			return append(out, b[e:]...), "txt-missing-field"
		}
	case 12:
		if len(b) > 0 {
			return b[:r.IntN(len(b))], "txt-truncated"
		}
	case 13:
		if len(b) > 0 {
			out := append([]byte(nil), b...)
			out[r.IntN(len(out))] ^= byte(1 << r.UintN(8))
			return out, "txt-bitflip"
		}
	case 14:
		return [][]byte{nil, []byte("null"), []byte("{}"), []byte("[]"), []byte(`""`), []byte("0"), []byte("{"), []byte(`{"format":1}`),
			[]byte(`{"version":18446744073709551616}`), []byte(`{"version":-1}`), []byte(`{"hash_slot":65536}`),
			[]byte(`{"chunks":null}`), []byte(`{"slots":[null]}`), []byte(`{"chunks":[{}]}`), []byte(`{"cut":null}`),
			[]byte("\xff\xfe"), []byte("(\xb5/\xfd")}[r.IntN(17)], "txt-tiny"
	case 15: // swap two adjacent top-level fields: version and the next one
		i := bytes.Index(b, []byte(`"version":1,`))
		if i >= 0 {
			j := i + len(`"version":1,`)
			e := bytes.IndexByte(b[j:], ',')
			if e > 0 && !bytes.ContainsAny(b[j:j+e], "{[") {
				out := append([]byte(nil), b[:i]...)
				out = append(out, b[j:j+e+1]...)
				out = append(out, `"version":1,`...)
				return append(out, b[j+e+1:]...), "txt-field-order"
			}
		}
	case 16: // a raw non-ASCII / control byte inside a string
		i := bytes.Index(b, []byte(`":"`))
		if i >= 0 {
			return insertAt(b, i+3, []string{"\x01", "\xff", "\u2028", "<", "\u00e9"}[r.IntN(5)]), "txt-raw-byte-in-string"
		}
	case 17: // whole document twice
		return append(append([]byte(nil), b...), b...), "txt-twice"
	case 18: // wrap in array
		return append(append([]byte("["), b...), ']'), "txt-array"
	}
	return b, "txt-none"
}
