package main

// Codec cases: the strict manifest decoders / encoders and the small validators run on
// concrete byte strings. Each op prints the input bytes, the raw strict decode
// (decodeStrictJSON through its export: the abstract JSON layer of the model) and what the
// implementation answered.

import (
	"bytes"
	"crypto/sha256"
	"encoding/hex"
	"encoding/json"
	"fmt"
	"io"
	"math/rand/v2"
	"reflect"
	"strings"
	"sync"

	"github.com/klauspost/compress/zstd"

	"github.com/WuKongIM/WuKongIM/internal/verifh/vh"
	"github.com/WuKongIM/WuKongIM/pkg/backup"
)

// ---- oracles for the abstract functions ---------------------------------------------------

type unzResult struct {
	ok   bool
	llen uint64
	lsha string
}

var (
	unzMu    sync.Mutex
	unzCache = map[string]unzResult{}
)

// unzOracle decodes a whole Zstandard stream with the library (not with pkg/backup).
func unzOracle(b []byte) unzResult {
	unzMu.Lock()
	if r, ok := unzCache[string(b)]; ok {
		unzMu.Unlock()
		return r
	}
	unzMu.Unlock()
	var res unzResult
	dec, err := zstd.NewReader(bytes.NewReader(b), zstd.WithDecoderMaxMemory(backup.MaxChunkLogicalBytes*2), zstd.WithDecoderConcurrency(1))
	if err == nil {
		h := sha256.New()
		n, cerr := io.Copy(h, dec)
		dec.Close()
		if cerr == nil {
			res = unzResult{true, uint64(n), hex.EncodeToString(h.Sum(nil))}
		}
	}
	unzMu.Lock()
	unzCache[string(b)] = res
	unzMu.Unlock()
	return res
}

func pUnz(u unzResult) string {
	if !u.ok {
		return "None"
	}
	return vh.Some(vh.Pair(vh.N(u.llen), str(u.lsha)))
}

type encoded struct {
	stored []byte
	desc   backup.ChunkDescriptor
}

var (
	encMu    sync.Mutex
	encCache = map[string]encoded{}
)

// encodeChunk runs backup.EncodeChunk (cached by content).
func encodeChunk(content []byte) encoded {
	encMu.Lock()
	if e, ok := encCache[string(content)]; ok {
		encMu.Unlock()
		return e
	}
	encMu.Unlock()
	var buf bytes.Buffer
	d, err := backup.EncodeChunk(&buf, bytes.NewReader(content))
	if err != nil {
		panic(fmt.Sprintf("EncodeChunk: %v", err))
	}
	e := encoded{buf.Bytes(), d}
	encMu.Lock()
	encCache[string(content)] = e
	encMu.Unlock()
	return e
}

func chunkContent(r *rand.Rand) []byte {
	switch r.IntN(4) {
	case 0:
		return nil
	case 1:
		return []byte(strings.Repeat("wukongim-full-backup\n", 1+r.IntN(20)))
	default:
		return []byte(fmt.Sprintf("content-%d", r.IntN(24)))
	}
}

// a Zstandard skippable frame: legal, decodes to nothing
func skippableFrame(n int) []byte {
	out := []byte{0x50, 0x2a, 0x4d, 0x18, byte(n), 0, 0, 0}
	return append(out, bytes.Repeat([]byte{0xaa}, n)...)
}

// ---- generic load op -----------------------------------------------------------------------

func loadOp[T any](ctor string, body []byte, load func([]byte) (T, error), print func(T) string) (string, string) {
	var raw T
	rawErr := backup.VerifDecodeStrictJSON(body, &raw)
	loaded, err := load(body)
	same := err == nil && rawErr == nil && reflect.DeepEqual(loaded, raw)
	return vh.App(ctor, jsonb(body), pOpt(rawErr == nil, print(raw)), pRes(err, vh.B(same))), resLabel(err)
}

// variant builds the document for a load op: mode 0 canonical, 1 text-perturbed,
// 2 semantically perturbed, 3 both.
func variant[T any](r *rand.Rand, m *T, mode int) ([]byte, string) { return variantKind(r, m, mode, -1) }

// variantKind: like variant, with the textual perturbation fixed when kind >= 0.
func variantKind[T any](r *rand.Rand, m *T, mode int, kind int) ([]byte, string) {
	label := "canon"
	if mode == 2 || mode == 3 {
		label = perturbStruct(r, m)
	}
	body, err := json.Marshal(m)
	if err != nil {
		panic(err)
	}
	if mode == 1 || mode == 3 {
		var l2 string
		body, l2 = perturbTextKind(r, body, kind)
		if mode == 1 {
			label = l2
		} else {
			label += "+" + l2
		}
	}
	return body, label
}

func coarse(label string) string {
	if strings.HasPrefix(label, "sem") {
		if i := strings.Index(label, "+"); i >= 0 {
			return "sem+" + label[i+1:]
		}
		return "sem"
	}
	return label
}

var keyAlphabet = []string{"a", "b", ".", "..", "/", "\\", "manifest.json", "slots", "007", "x.zst", ""}

func genKey(r *rand.Rand) string {
	switch r.IntN(5) {
	case 0:
		return fmt.Sprintf("slots/%03d/manifest.json", r.IntN(260))
	case 1:
		return fmt.Sprintf("slots/%03d/attempts/%s/manifest.json", r.IntN(256), attemptName(r))
	default:
		n := r.IntN(7)
		parts := make([]string, n)
		for i := range parts {
			parts[i] = keyAlphabet[r.IntN(len(keyAlphabet))]
		}
		sep := "/"
		if r.IntN(6) == 0 {
			sep = ""
		}
		return strings.Join(parts, sep)
	}
}

// runCodecOp executes one codec op and returns its Coq term and a label.
func runCodecOp(o op) (string, string) {
	r := sub(o.Seed)
	mode := o.A & 3
	switch o.Op {
	case "load_slot":
		m := genSlotManifest(r, uint16(r.IntN(256)), r.IntN(2) == 0)
		body, label := variantKind(r, &m, mode, o.C-1)
		t, res := loadOp("CLoadSlot", body, backup.LoadSlotManifest, pSM)
		return t, "load_slot/" + coarse(label) + "/" + res
	case "load_archive":
		m := genArchiveManifest(r)
		body, label := variantKind(r, &m, mode, o.C-1)
		t, res := loadOp("CLoadArchive", body, backup.LoadArchiveManifest, pAM)
		return t, "load_archive/" + coarse(label) + "/" + res
	case "load_msg":
		m := genMsgManifest(r)
		body, label := variantKind(r, &m, mode, o.C-1)
		t, res := loadOp("CLoadMsg", body, backup.LoadMessageChunkManifest, pMM)
		return t, "load_msg/" + coarse(label) + "/" + res
	case "load_repo":
		m := genRepoMarker(r)
		body, label := variantKind(r, &m, mode, o.C-1)
		t, res := loadOp("CLoadRepo", body, backup.LoadRepositoryMarker, pRM)
		return t, "load_repo/" + coarse(label) + "/" + res
	case "load_marker":
		am := genArchiveManifest(r)
		mb, _ := json.Marshal(am)
		// the marker NewCompleteMarker would build (it refuses manifests that do not load back,
		// e.g. with invalid UTF-8 in a name; those stay in the stream)
		marker := backup.CompleteMarker{Format: backup.CompleteMarkerFormat, Version: backup.CompleteMarkerVersion,
			ManifestSHA256: sha(mb), ManifestBytes: uint64(len(mb))}
		label := "canon"
		switch o.B % 6 {
		case 1: // the manifest changes under the marker
			mb, label = perturbText(r, mb)
		case 2:
			marker.ManifestBytes += uint64(1 + r.IntN(2))
			label = "marker-size"
		case 3:
			marker.ManifestSHA256 = genDigest(r)
			label = "marker-digest"
		case 4: // manifest no longer valid, marker re-bound to it
			perturbStruct(r, &am)
			mb, _ = json.Marshal(am)
			s := sha256.Sum256(mb)
			marker.ManifestSHA256, marker.ManifestBytes = hex.EncodeToString(s[:]), uint64(len(mb))
			label = "manifest-sem-rebound"
		}
		kb, l2 := variant(r, &marker, mode)
		if l2 != "canon" {
			label += "+" + coarse(l2)
		}
		var rawk backup.CompleteMarker
		rawkErr := backup.VerifDecodeStrictJSON(kb, &rawk)
		var rawm backup.ArchiveManifest
		rawmErr := backup.VerifDecodeStrictJSON(mb, &rawm)
		loaded, lerr := backup.LoadCompleteMarker(kb, mb)
		same := lerr == nil && rawkErr == nil && loaded == rawk
		s := sha256.Sum256(mb)
		return vh.App("CLoadMarker", jsonb(kb), jsonb(mb), pOpt(rawkErr == nil, pCM(rawk)), pOpt(rawmErr == nil, pAM(rawm)),
			str(hex.EncodeToString(s[:])), pRes(lerr, vh.B(same))), "load_marker/" + label + "/" + resLabel(lerr)
	case "new_marker":
		am := genArchiveManifest(r)
		mb, label := variant(r, &am, mode)
		var rawm backup.ArchiveManifest
		rawmErr := backup.VerifDecodeStrictJSON(mb, &rawm)
		marker, err := backup.NewCompleteMarker(mb)
		s := sha256.Sum256(mb)
		return vh.App("CNewMarker", jsonb(mb), pOpt(rawmErr == nil, pAM(rawm)), str(hex.EncodeToString(s[:])),
			pRes(err, pCM(marker))), "new_marker/" + coarse(label) + "/" + resLabel(err)
	case "marshal_slot":
		m := genSlotManifest(r, uint16(r.IntN(256)), true)
		label := "valid"
		if mode != 0 {
			label = "sem"
			perturbStruct(r, &m)
		}
		body, err := backup.MarshalSlotManifest(m)
		return vh.App("CMarshalSlot", pSM(m), pRes(err, jsonb(body))), "marshal_slot/" + label + "/" + resLabel(err)
	case "marshal_archive":
		m := genArchiveManifest(r)
		label := "valid"
		if mode != 0 {
			label = "sem"
			perturbStruct(r, &m)
		}
		body, err := backup.MarshalArchiveManifest(m)
		return vh.App("CMarshalArchive", pAM(m), pRes(err, jsonb(body))), "marshal_archive/" + label + "/" + resLabel(err)
	case "marshal_msg":
		m := genMsgManifest(r)
		label := "valid"
		if mode != 0 {
			label = "sem"
			perturbStruct(r, &m)
		}
		body, err := backup.MarshalMessageChunkManifest(m)
		return vh.App("CMarshalMsg", pMM(m), pRes(err, jsonb(body))), "marshal_msg/" + label + "/" + resLabel(err)
	case "marshal_marker":
		m := genMarker(r)
		label := "valid"
		if mode != 0 {
			label = "sem"
			perturbStruct(r, &m)
		}
		body, err := backup.MarshalCompleteMarker(m)
		return vh.App("CMarshalMarker", pCM(m), pRes(err, jsonb(body))), "marshal_marker/" + label + "/" + resLabel(err)
	case "marshal_repo":
		m := genRepoMarker(r)
		label := "valid"
		if mode != 0 {
			label = "sem"
			perturbStruct(r, &m)
		}
		body, err := backup.MarshalRepositoryMarker(m)
		return vh.App("CMarshalRepo", pRM(m), pRes(err, jsonb(body))), "marshal_repo/" + label + "/" + resLabel(err)
	case "new_msg":
		m := genMsgManifest(r)
		label := "valid"
		if mode != 0 {
			label = "sem"
			perturbStruct(r, &m)
		}
		got, err := backup.NewMessageChunkManifest(m.HashSlot, m.Chunks)
		return vh.App("CNewMsg", vh.N(uint64(m.HashSlot)), pCRs(m.Chunks), pRes(err, pMM(got))), "new_msg/" + label + "/" + resLabel(err)
	case "key":
		k := genKey(r)
		ok := backup.ValidateRepositoryKey(k) == nil
		return vh.App("CKey", str(k), vh.B(ok)), fmt.Sprintf("key/%v", ok)
	case "slotkey":
		k := genKey(r)
		hs := uint16(r.IntN(258))
		if r.IntN(2) == 0 && len(k) > 9 && strings.HasPrefix(k, "slots/") {
			fmt.Sscanf(k[6:9], "%d", &hs)
		}
		ok := backup.VerifValidateSlotManifestKey(hs, k) == nil
		return vh.App("CSlotKey", vh.N(uint64(hs)), str(k), vh.B(ok)), fmt.Sprintf("slotkey/%v", ok)
	case "ident":
		var s string
		switch r.IntN(6) {
		case 0:
			s = strings.Repeat("a", 126+r.IntN(5))
		case 1:
			s = genIdent(r)
		default:
			al := []string{"a", "Z", "0", "-", "_", ".", "/", "\u00e9", " ", "\xff", "..", "b"}
			for n := r.IntN(6); n > 0; n-- {
				s += al[r.IntN(len(al))]
			}
		}
		ok := backup.VerifValidateBackupIdentity(s) == nil
		return vh.App("CIdent", str(s), vh.B(ok)), fmt.Sprintf("ident/%v", ok)
	case "sha":
		s := genDigest(r)
		switch r.IntN(7) {
		case 0:
			s = strings.ToUpper(s)
		case 1:
			s = s[:63]
		case 2:
			s += "0"
		case 3:
			b := []byte(s)
			b[r.IntN(64)] = "gG xz-\xff\xc3"[r.IntN(8)]
			s = string(b)
		case 4:
			b := []byte(s)
			b[r.IntN(64)] = "ABCDEF"[r.IntN(6)]
			s = string(b)
		case 5:
			s = ""
		}
		ok := backup.VerifValidateSHA256(s) == nil
		return vh.App("CSha", str(s), vh.B(ok)), fmt.Sprintf("sha/%v", ok)
	case "decode_chunk":
		e := encodeChunk(chunkContent(r))
		stored := append([]byte(nil), e.stored...)
		d := e.desc
		label := "intact"
		switch o.B % 9 {
		case 1:
			stored[r.IntN(len(stored))] ^= byte(1 << r.UintN(8))
			label = "flip"
		case 2:
			stored = stored[:r.IntN(len(stored))]
			label = "trunc"
		case 3:
			stored = append(stored, skippableFrame(r.IntN(4))...)
			label = "skippable-frame"
		case 4:
			stored = append(stored, byte(r.UintN(256)))
			label = "trailing-byte"
		case 5:
			perturbStruct(r, &d)
			label = "descriptor"
		case 6: // a valid stream of other content
			stored = append([]byte(nil), encodeChunk(append(chunkContent(r), 'x')).stored...)
			label = "other-content"
		case 7: // two frames: legal concatenation, other stored bytes and logical content
			stored = append(stored, e.stored...)
			label = "two-frames"
		case 8:
			stored = nil
			label = "empty"
		}
		err := backup.DecodeChunk(io.Discard, bytes.NewReader(stored), d)
		return vh.App("CDecodeChunk", vh.N(uint64(len(stored))), str(sha(stored)), pUnz(unzOracle(stored)), pCD(d), pRes(err, "tt")),
			"decode_chunk/" + label + "/" + resLabel(err)
	}
	return "", ""
}

var codecOps = []string{"load_slot", "load_slot", "load_slot", "load_msg", "load_msg", "load_repo", "marshal_slot", "marshal_msg", "marshal_marker", "marshal_repo", "new_msg", "key", "slotkey", "ident", "sha",
	"decode_chunk", "decode_chunk"}

func genCodec(r *rand.Rand, big bool) input {
	n := 1 + r.IntN(3)
	in := input{Kind: "codec"}
	for i := 0; i < n; i++ {
		name := codecOps[r.IntN(len(codecOps))]
		if big && i == 0 {
			name = vh.Pick(r, "load_archive", "load_archive", "marshal_archive", "load_marker", "load_marker", "new_marker")
		}
		in.Ops = append(in.Ops, op{Op: name, Seed: r.Uint64() >> 1, A: r.IntN(4), B: r.IntN(18)})
	}
	return in
}

func runCodec(in input) vh.Result {
	resetStrings()
	var terms []string
	class := ""
	for _, o := range in.Ops {
		t, l := runCodecOp(o)
		if t == "" {
			continue
		}
		terms = append(terms, t)
		if class == "" {
			class = l
		}
	}
	return vh.Result{
		Coq:     withStrings(vh.App("CaseCodec", vh.List(terms))),
		Obs:     map[string]any{"ops": len(terms), "first": class},
		Class:   "codec/" + class,
		Trivial: len(terms) == 0,
	}
}
