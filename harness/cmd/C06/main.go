// Harness for C06: the channel runtime state machine (pkg/channel/machine) driven by
// random event lists; follower acks additionally go through the real reactor handlers
// (pkg/channel/reactor/leader_replication.go) so that the `offset > LEO` guard at each of
// the three ApplyFollowerAck call sites is exercised.
//
// Ops are RELATIVE (fence = "the current one, with this field perturbed", offset =
// "LEO + delta", ...) and are resolved against the implementation state when the case
// runs; the resolved concrete event is what goes into the Coq case term.  This keeps
// shrunk histories meaningful.
package main

import (
	"errors"
	"fmt"
	"io"
	"math/rand/v2"
	"sort"
	"strings"

	"github.com/WuKongIM/WuKongIM/internal/verifh/vh"
	ch "github.com/WuKongIM/WuKongIM/pkg/channel"
	"github.com/WuKongIM/WuKongIM/pkg/channel/machine"
	"github.com/WuKongIM/WuKongIM/pkg/channel/reactor"
)

// ---- input ---------------------------------------------------------------------------

type bw struct {
	Op     uint64   `json:"op"`
	Mode   uint8    `json:"mode"`
	IDs    []uint64 `json:"ids"`
	SAlloc bool     `json:"salloc,omitempty"`
}

type op struct {
	K string `json:"k"` // meta | prop | one | stored | quorum | ack | cancel | abort

	// meta: epochs relative to the current ones unless Abs
	KeySel    int      `json:"keysel,omitempty"` // 0 current key, 1 empty, 2 another key
	IDSel     int      `json:"idsel,omitempty"`  // 0 current id (1 when unset), 1 another id, 2 zero id
	Abs       bool     `json:"abs,omitempty"`
	Epoch     int64    `json:"epoch,omitempty"`
	LEpoch    int64    `json:"lepoch,omitempty"`
	LeaderCur bool     `json:"leadercur,omitempty"`
	Leader    uint64   `json:"leader,omitempty"`
	Replicas  []uint64 `json:"replicas,omitempty"`
	ISR       []uint64 `json:"isr,omitempty"`
	MinISR    int      `json:"minisr,omitempty"`
	Status    uint8    `json:"status,omitempty"`

	// prop / one
	Batch uint64   `json:"batch,omitempty"`
	Ws    []bw     `json:"ws,omitempty"`
	Op    uint64   `json:"op,omitempty"`
	Mode  uint8    `json:"mode,omitempty"`
	IDs   []uint64 `json:"ids,omitempty"`

	// stored / quorum: fence = current one with field Stale perturbed
	// (0 none, 1 key, 2 generation, 3 epoch, 4 leader epoch, 5 op id)
	Stale     int    `json:"stale,omitempty"`
	BaseAbs   bool   `json:"baseabs,omitempty"`
	Base      uint64 `json:"base,omitempty"`      // absolute base / first when BaseAbs
	BaseDelta int64  `json:"basedelta,omitempty"` // else LEO+1+BaseDelta
	LastDelta int64  `json:"lastdelta,omitempty"` // last = base+count-1+LastDelta
	HWDelta   int64  `json:"hwdelta,omitempty"`   // quorum: hw = last+HWDelta
	Err       uint8  `json:"err,omitempty"`       // error class of the result, 0 = none

	// ack
	Route    int    `json:"route,omitempty"` // 0 direct(+guard), 1 progress ack, 2 stopped ack, 3 pull
	KeyBad   bool   `json:"keybad,omitempty"`
	EpochD   int64  `json:"epochd,omitempty"`
	LEpochD  int64  `json:"lepochd,omitempty"`
	Follower uint64 `json:"follower,omitempty"`
	OffSel   int    `json:"offsel,omitempty"` // 0 absolute Off, 1 LEO+OffDelta, 2 target of pending waiter #Pick
	Off      uint64 `json:"off,omitempty"`
	OffDelta int64  `json:"offdelta,omitempty"`
	Pick     int    `json:"pick,omitempty"`
	VerBad   bool   `json:"verbad,omitempty"`

	// cancel / abort: Rel picks the Pick-th pending id / the current inflight batch
	Rel bool `json:"rel,omitempty"`
}

type input struct {
	Key   uint64 `json:"key"`
	Local uint64 `json:"local"`
	Gen   uint64 `json:"gen"`
	ID    uint64 `json:"id"`
	LEO   uint64 `json:"leo"`
	HW    uint64 `json:"hw"`
	CP    uint64 `json:"cp"`
	Ops   []op   `json:"ops"`
}

// ---- value mappings --------------------------------------------------------------------

func keyOf(n uint64) ch.ChannelKey {
	if n == 0 {
		return ""
	}
	return ch.ChannelKey(fmt.Sprintf("1:c06k%d", n))
}

func keyNum(k ch.ChannelKey) uint64 {
	if k == "" {
		return 0
	}
	var n uint64
	if _, err := fmt.Sscanf(string(k), "1:c06k%d", &n); err != nil {
		panic("unexpected key " + string(k))
	}
	return n
}

func idOf(n uint64) ch.ChannelID {
	if n == 0 {
		return ch.ChannelID{}
	}
	return ch.ChannelID{ID: fmt.Sprintf("c%d", n), Type: 1}
}

func idNum(id ch.ChannelID) uint64 {
	if id == (ch.ChannelID{}) {
		return 0
	}
	var n uint64
	if _, err := fmt.Sscanf(id.ID, "c%d", &n); err != nil || id.Type != 1 {
		panic("unexpected channel id " + id.ID)
	}
	return n
}

var errOther = errors.New("verif: some other error")

// error classes; the numbers are the E* constants of coq/Model/Machine.v
var sentinels = []error{nil, ch.ErrInvalidConfig, ch.ErrNotLeader, ch.ErrNotReady, ch.ErrStaleMeta,
	ch.ErrChannelNotFound, ch.ErrNotReplica, ch.ErrLogConflict, ch.ErrBackpressured, errOther}

func errClass(err error) uint64 {
	if err == nil {
		return 0
	}
	for i := 1; i < len(sentinels); i++ {
		if errors.Is(err, sentinels[i]) {
			return uint64(i)
		}
	}
	return 99
}

func errOfClass(c uint8) error {
	if int(c) < len(sentinels) {
		return sentinels[c]
	}
	return errOther
}

func nodes(xs []uint64) []ch.NodeID {
	out := make([]ch.NodeID, len(xs))
	for i, x := range xs {
		out[i] = ch.NodeID(x)
	}
	return out
}

// ---- Coq printers ------------------------------------------------------------------------

func recsTerm(rs []ch.Record) string {
	return vh.ListOf(rs, func(r ch.Record) string { return vh.Pair(vh.N(r.ID), vh.N(r.Index)) })
}

func nodeList(xs []ch.NodeID) string {
	return vh.ListOf(xs, func(n ch.NodeID) string { return vh.N(uint64(n)) })
}

func opList(xs []ch.OpID) string {
	return vh.ListOf(xs, func(n ch.OpID) string { return vh.N(uint64(n)) })
}

func stateTerm(s *machine.ChannelState) string {
	prog := make([]ch.NodeID, 0, len(s.Progress))
	for n := range s.Progress {
		prog = append(prog, n)
	}
	sort.Slice(prog, func(i, j int) bool { return prog[i] < prog[j] })
	pend := make([]ch.OpID, 0, len(s.PendingAppends))
	for id := range s.PendingAppends {
		pend = append(pend, id)
	}
	sort.Slice(pend, func(i, j int) bool { return pend[i] < pend[j] })
	infl := vh.None()
	if f := s.InflightAppend; f != nil {
		counts := make([]uint64, len(f.WaiterRecordCounts))
		for i, c := range f.WaiterRecordCounts {
			counts[i] = uint64(c)
		}
		infl = vh.Some(vh.App("Inflight", vh.N(uint64(f.OpID)), recsTerm(f.Records), opList(f.WaiterOpIDs), vh.NList(counts)))
	}
	return vh.App("State",
		vh.N(keyNum(s.Key)), vh.N(uint64(s.LocalNode)), vh.N(s.Generation), vh.N(idNum(s.ID)),
		vh.N(s.Epoch), vh.N(s.LeaderEpoch), vh.N(uint64(s.Role)), vh.N(uint64(s.Status)), vh.N(uint64(s.Leader)),
		nodeList(s.Replicas), nodeList(s.ISR), vh.Z(int64(s.MinISR)),
		vh.N(s.LEO), vh.N(s.HW), vh.N(s.CheckpointHW), vh.B(s.CommitReady),
		vh.ListOf(prog, func(n ch.NodeID) string { return vh.Pair(vh.N(uint64(n)), vh.N(s.Progress[n].Match)) }),
		vh.ListOf(pend, func(id ch.OpID) string {
			w := s.PendingAppends[id]
			if w.OpID != id {
				panic("waiter stored under a different op id")
			}
			return vh.App("Waiter", vh.N(uint64(id)), vh.N(w.Target), vh.N(uint64(w.CommitMode)), recsTerm(w.Records))
		}),
		opList(s.PendingAppendOrder), infl)
}

type replyObs struct {
	Op    uint64
	Err   uint64
	Items [][2]uint64
}

func replyTerm(r replyObs) string {
	return vh.App("Reply", vh.N(r.Op), vh.N(r.Err),
		vh.ListOf(r.Items, func(p [2]uint64) string { return vh.Pair(vh.N(p[0]), vh.N(p[1])) }))
}

func itemsOf(items []ch.AppendBatchItemResult) [][2]uint64 {
	out := make([][2]uint64, len(items))
	for i, it := range items {
		if it.Message.MessageID != it.MessageID || it.Message.MessageSeq != it.MessageSeq {
			panic("append item and its message disagree")
		}
		out[i] = [2]uint64{it.MessageID, it.MessageSeq}
	}
	return out
}

type decObs struct {
	Err     uint64
	Ret     bool
	Task    string // Coq option term
	Replies []replyObs
	Signals uint64
}

func decisionTerm(d decObs) string {
	return vh.App("Decision", vh.N(d.Err), vh.B(d.Ret), d.Task, vh.ListOf(d.Replies, replyTerm), vh.N(d.Signals))
}

func obsOfDecision(s *machine.ChannelState, d machine.Decision) decObs {
	o := decObs{Err: errClass(d.Err), Task: vh.None()}
	for _, t := range d.Tasks {
		if t.Kind != machine.TaskKindStoreAppend || t.StoreAppend == nil || o.Task != vh.None() {
			panic("unexpected task in decision")
		}
		if t.Fence.ChannelKey != s.Key || t.Fence.Generation != s.Generation {
			panic("task fence does not carry the state's key/generation")
		}
		ids := make([]uint64, len(t.StoreAppend.Records))
		for i, r := range t.StoreAppend.Records {
			ids[i] = r.ID
		}
		o.Task = vh.Some(vh.App("Task", vh.N(uint64(t.Fence.OpID)), vh.N(t.Fence.Epoch), vh.N(t.Fence.LeaderEpoch),
			vh.NList(ids), vh.B(t.StoreAppend.ServerAllocatedMessageIDs)))
	}
	for _, r := range d.Replies {
		if r.Kind != machine.ReplyKindAppend {
			panic("unexpected reply kind")
		}
		o.Replies = append(o.Replies, replyObs{Op: uint64(r.OpID), Err: errClass(r.Err), Items: itemsOf(r.AppendItems)})
	}
	for _, sg := range d.Signals {
		if sg.Kind != machine.SignalKindReplicate {
			panic("unexpected signal kind")
		}
		o.Signals++
	}
	return o
}

// ---- running one case -----------------------------------------------------------------------

func addSigned(base uint64, d int64) uint64 { return base + uint64(d) } // wraps like the caller's arithmetic would

func sortedPending(s *machine.ChannelState) []ch.OpID {
	pend := make([]ch.OpID, 0, len(s.PendingAppends))
	for id := range s.PendingAppends {
		pend = append(pend, id)
	}
	sort.Slice(pend, func(i, j int) bool { return pend[i] < pend[j] })
	return pend
}

func mkRecords(ids []uint64) []ch.Record {
	out := make([]ch.Record, len(ids))
	for i, id := range ids {
		out[i] = ch.Record{ID: id, Payload: []byte{byte(id)}, SizeBytes: 1}
	}
	return out
}

func bwTerm(w bw) string {
	return vh.App("BWaiter", vh.N(w.Op), vh.N(uint64(w.Mode)), vh.NList(w.IDs), vh.B(w.SAlloc))
}

func fenceFor(s *machine.ChannelState, stale int) ch.Fence {
	f := ch.Fence{ChannelKey: s.Key, Generation: s.Generation, Epoch: s.Epoch, LeaderEpoch: s.LeaderEpoch}
	if s.InflightAppend != nil {
		f.OpID = s.InflightAppend.OpID
	}
	switch stale {
	case 1:
		f.ChannelKey = keyOf(keyNum(s.Key) + 1)
	case 2:
		f.Generation++
	case 3:
		f.Epoch--
	case 4:
		f.LeaderEpoch++
	case 5:
		f.OpID += 1000
	}
	return f
}

func fenceTerm(f ch.Fence) string {
	return vh.App("Fence", vh.N(keyNum(f.ChannelKey)), vh.N(f.Generation), vh.N(f.Epoch), vh.N(f.LeaderEpoch), vh.N(uint64(f.OpID)))
}

type features map[string]bool

func run(in input) vh.Result {
	s := machine.NewChannelState(keyOf(in.Key), ch.NodeID(in.Local), in.Gen)
	s.ID = idOf(in.ID)
	s.LEO, s.HW, s.CheckpointHW = in.LEO, in.HW, in.CP
	s0 := stateTerm(s)
	feat := features{}
	steps := make([]string, 0, len(in.Ops))
	obs := make([]map[string]any, 0, len(in.Ops))
	admitted := false

	for _, o := range in.Ops {
		var ev string
		var d decObs
		preHW := s.HW
		switch o.K {
		case "meta":
			m := ch.Meta{Leader: ch.NodeID(o.Leader), Replicas: nodes(o.Replicas), ISR: nodes(o.ISR), MinISR: o.MinISR, Status: ch.Status(o.Status)}
			switch o.KeySel {
			case 0:
				m.Key = s.Key
			case 1:
				m.Key = ""
			default:
				m.Key = keyOf(keyNum(s.Key) + 1)
			}
			switch o.IDSel {
			case 0:
				m.ID = s.ID
				if m.ID == (ch.ChannelID{}) {
					m.ID = idOf(1)
				}
			case 1:
				m.ID = idOf(idNum(s.ID) + 1)
			default:
				m.ID = ch.ChannelID{}
			}
			if o.Abs {
				m.Epoch, m.LeaderEpoch = uint64(o.Epoch), uint64(o.LEpoch)
			} else {
				m.Epoch, m.LeaderEpoch = addSigned(s.Epoch, o.Epoch), addSigned(s.LeaderEpoch, o.LEpoch)
			}
			if o.LeaderCur {
				m.Leader = s.Leader
			}
			ev = vh.App("EvMeta", vh.App("Meta", vh.N(keyNum(m.Key)), vh.N(idNum(m.ID)), vh.N(m.Epoch), vh.N(m.LeaderEpoch),
				vh.N(uint64(m.Leader)), nodeList(m.Replicas), nodeList(m.ISR), vh.Z(int64(m.MinISR)), vh.N(uint64(m.Status))))
			dec := s.ApplyMeta(m)
			d = obsOfDecision(s, dec)
			if dec.Err == nil {
				feat["meta-ok"] = true
			} else {
				feat["meta-rej"] = true
			}
		case "prop":
			cmd := machine.AppendBatchCommand{BatchOpID: ch.OpID(o.Batch)}
			for _, w := range o.Ws {
				cmd.Waiters = append(cmd.Waiters, machine.AppendBatchWaiter{OpID: ch.OpID(w.Op), CommitMode: ch.CommitMode(w.Mode),
					Records: mkRecords(w.IDs), ServerAllocatedMessageIDs: w.SAlloc})
			}
			ev = vh.App("EvPropose", vh.N(o.Batch), vh.ListOf(o.Ws, bwTerm))
			dec := s.ProposeAppendBatch(cmd)
			d = obsOfDecision(s, dec)
			if dec.Err == nil && len(dec.Tasks) > 0 {
				admitted = true
				feat["prop-batch"] = true
			} else if dec.Err != nil {
				feat["prop-rej"] = true
			}
		case "one":
			ev = vh.App("EvProposeOne", vh.N(o.Op), vh.N(uint64(o.Mode)), vh.NList(o.IDs))
			dec := s.ProposeAppend(machine.AppendCommand{OpID: ch.OpID(o.Op), CommitMode: ch.CommitMode(o.Mode), Records: mkRecords(o.IDs)})
			d = obsOfDecision(s, dec)
			if dec.Err == nil && len(dec.Tasks) > 0 {
				admitted = true
				feat["prop-one"] = true
			} else if dec.Err != nil {
				feat["prop-rej"] = true
			}
		case "stored", "quorum":
			f := fenceFor(s, o.Stale)
			count := uint64(0)
			if s.InflightAppend != nil {
				count = uint64(len(s.InflightAppend.Records))
			}
			base := o.Base
			if !o.BaseAbs {
				base = addSigned(s.LEO+1, o.BaseDelta)
			}
			last := addSigned(base+count-1, o.LastDelta)
			hadInflight := s.InflightAppend != nil
			var dec machine.Decision
			if o.K == "stored" {
				ev = vh.App("EvStored", fenceTerm(f), vh.N(base), vh.N(last), vh.N(uint64(o.Err)))
				dec = s.ApplyAppendStored(machine.AppendStoredResult{Fence: f, BaseOffset: base, LastOffset: last, Err: errOfClass(o.Err)})
			} else {
				hw := addSigned(last, o.HWDelta)
				ev = vh.App("EvQuorum", fenceTerm(f), vh.N(base), vh.N(last), vh.N(hw), vh.N(uint64(o.Err)))
				dec = s.ApplyQuorumCommitted(machine.QuorumCommittedResult{Fence: f, First: base, Last: last, HW: hw, Err: errOfClass(o.Err)})
			}
			d = obsOfDecision(s, dec)
			switch {
			case hadInflight && s.InflightAppend != nil:
				feat["stale-fence"] = true
			case hadInflight && o.Err != 0:
				feat["result-err"] = true
			case hadInflight:
				feat[o.K+"-ok"] = true
			}
			for _, r := range d.Replies {
				if r.Err == 0 {
					feat["reply-at-"+o.K] = true
				} else {
					feat["reply-err"] = true
				}
			}
		case "ack":
			key := s.Key
			if o.KeyBad {
				key = keyOf(keyNum(s.Key) + 1)
			}
			epoch, lepoch := addSigned(s.Epoch, o.EpochD), addSigned(s.LeaderEpoch, o.LEpochD)
			var off uint64
			switch o.OffSel {
			case 0:
				off = o.Off
			case 1:
				off = addSigned(s.LEO, o.OffDelta)
			default:
				off = s.LEO
				if pend := sortedPending(s); len(pend) > 0 {
					if w := s.PendingAppends[pend[o.Pick%len(pend)]]; w.Target != 0 {
						off = w.Target
					}
				}
			}
			route := o.Route & 3
			ev = vh.App("EvAck", []string{"RDirect", "RProgress", "RStopped", "RPull"}[route], vh.N(keyNum(key)), vh.N(epoch), vh.N(lepoch),
				vh.N(o.Follower), vh.N(off), vh.B(!o.VerBad))
			over := off > s.LEO
			if route == 0 {
				// the reactor's guard, then the machine transition
				if off > s.LEO {
					d = decObs{Err: errClass(ch.ErrStaleMeta), Task: vh.None()}
				} else {
					d = obsOfDecision(s, s.ApplyFollowerAck(machine.FollowerAck{Follower: ch.NodeID(o.Follower), MatchOffset: off}))
				}
			} else {
				err, replies := reactor.VerifC06Ack(s, route, key, epoch, lepoch, ch.NodeID(o.Follower), off, !o.VerBad)
				d = decObs{Err: errClass(err), Task: vh.None()}
				for _, r := range replies {
					d.Replies = append(d.Replies, replyObs{Op: uint64(r.OpID), Err: errClass(r.Err), Items: itemsOf(r.Items)})
				}
			}
			if over {
				feat[fmt.Sprintf("ack-over-leo-r%d", route)] = true
			}
			if s.HW > preHW {
				feat[fmt.Sprintf("hw-adv-r%d", route)] = true
			}
			for _, r := range d.Replies {
				if r.Err == 0 {
					feat["reply-at-ack"] = true
				}
			}
		case "cancel":
			id := ch.OpID(o.Op)
			if o.Rel {
				if pend := sortedPending(s); len(pend) > 0 {
					id = pend[o.Pick%len(pend)]
				}
			}
			ev = vh.App("EvCancel", vh.N(uint64(id)))
			ok := s.CancelAppendWaiter(id)
			d = decObs{Ret: ok, Task: vh.None()}
			if ok {
				feat["cancel"] = true
			}
		case "abort":
			id := ch.OpID(o.Batch)
			if o.Rel && s.InflightAppend != nil {
				id = s.InflightAppend.OpID
			}
			ev = vh.App("EvAbort", vh.N(uint64(id)))
			had := s.InflightAppend != nil
			s.AbortAppendBatchProposal(id)
			d = decObs{Task: vh.None()}
			if had && s.InflightAppend == nil {
				feat["abort"] = true
			}
		default:
			panic("unknown op kind " + o.K)
		}
		if err := s.CheckInvariants(); err != nil {
			feat["CheckInvariants-failed"] = true
		}
		steps = append(steps, "("+ev+", "+decisionTerm(d)+", "+stateTerm(s)+")")
		obs = append(obs, map[string]any{"k": o.K, "err": d.Err, "replies": d.Replies, "leo": s.LEO, "hw": s.HW, "cp": s.CheckpointHW,
			"pending": sortedPending(s), "role": s.Role, "epoch": s.Epoch, "lepoch": s.LeaderEpoch})
	}

	coq := vh.App("C06Case", vh.N(in.Key), vh.N(in.Local), vh.N(in.Gen), vh.N(in.ID), vh.N(in.LEO), vh.N(in.HW), vh.N(in.CP),
		s0, "["+strings.Join(steps, ";\n  ")+"]")
	return vh.Result{Coq: coq, Obs: map[string]any{"features": featureList(feat), "steps": obs}, Class: classOf(feat), Trivial: !admitted}
}

// classOf keeps the histogram small: which reply paths the case reached (S stored result,
// Q quorum receipt, A follower ack, E error reply), whether an ack that went through a reactor
// handler advanced HW, and how many of the three reactor routes saw an ack above LEO.
func classOf(f features) string {
	rep := ""
	for _, kv := range [][2]string{{"reply-at-stored", "S"}, {"reply-at-quorum", "Q"}, {"reply-at-ack", "A"}, {"reply-err", "E"}} {
		if f[kv[0]] {
			rep += kv[1]
		}
	}
	if rep == "" {
		rep = "-"
	}
	adv, over := "n", 0
	for r := 1; r < 4; r++ {
		if f[fmt.Sprintf("hw-adv-r%d", r)] {
			adv = "y"
		}
		if f[fmt.Sprintf("ack-over-leo-r%d", r)] {
			over++
		}
	}
	c := fmt.Sprintf("replies=%s,reactor-ack-advanced-hw=%s,reactor-routes-with-ack-over-leo=%d", rep, adv, over)
	if f["CheckInvariants-failed"] {
		c += ",CHECKINVARIANTS-FAILED"
	}
	return c
}

func featureList(f features) []string {
	names := make([]string, 0, len(f))
	for k := range f {
		names = append(names, k)
	}
	sort.Strings(names)
	return names
}

// ---- generator ------------------------------------------------------------------------------------

func subset(r *rand.Rand, must []uint64, p float64) []uint64 {
	var out []uint64
	for n := uint64(1); n <= 4; n++ {
		in := vh.Chance(r, p)
		for _, m := range must {
			if m == n {
				in = true
			}
		}
		if in {
			out = append(out, n)
		}
	}
	r.Shuffle(len(out), func(i, j int) { out[i], out[j] = out[j], out[i] })
	return out
}

func genMeta(r *rand.Rand, local uint64, first bool) op {
	o := op{K: "meta"}
	switch x := r.IntN(100); {
	case x < 62:
		o.KeySel = 0
	case x < 92:
		o.KeySel = 1
	default:
		o.KeySel = 2
	}
	switch x := r.IntN(100); {
	case x < 92:
		o.IDSel = 0
	case x < 96:
		o.IDSel = 1
	default:
		o.IDSel = 2
	}
	if first {
		o.Epoch, o.LEpoch = 1, 1
	} else {
		o.Epoch = vh.Pick(r, int64(0), 0, 0, 0, 0, 0, 0, 1, 1, -1, 2)
		o.LEpoch = vh.Pick(r, int64(0), 0, 0, 0, 0, 0, 0, 1, 1, -1, 2)
	}
	if vh.Chance(r, 0.04) {
		o.Abs, o.Epoch, o.LEpoch = true, int64(r.IntN(4)), int64(r.IntN(4))
	}
	switch x := r.IntN(100); {
	case x < 45 && !first:
		o.LeaderCur = true
		o.Leader = local
	case x < 82:
		o.Leader = local
	default:
		o.Leader = uint64(r.IntN(5))
	}
	if vh.Chance(r, 0.9) {
		o.Replicas = subset(r, []uint64{local, o.Leader}, 0.6)
	} else {
		o.Replicas = subset(r, nil, 0.5)
	}
	switch x := r.IntN(100); {
	case x < 70: // ISR within replicas
		for _, n := range o.Replicas {
			if vh.Chance(r, 0.75) {
				o.ISR = append(o.ISR, n)
			}
		}
		if len(o.ISR) == 0 && len(o.Replicas) > 0 {
			o.ISR = []uint64{o.Replicas[0]}
		}
	case x < 90:
		o.ISR = append([]uint64(nil), o.Replicas...)
	default:
		o.ISR = subset(r, nil, 0.5)
	}
	switch x := r.IntN(100); {
	case x < 40:
		o.MinISR = 1
	case x < 88:
		o.MinISR = 1 + r.IntN(len(o.ISR)+1)
		if o.MinISR > len(o.ISR) && vh.Chance(r, 0.8) {
			o.MinISR = len(o.ISR)
		}
	default:
		o.MinISR = vh.Pick(r, 0, -1, len(o.ISR)+1, 2)
	}
	switch x := r.IntN(100); {
	case x < 78:
		o.Status = uint8(ch.StatusActive)
	case x < 85:
		o.Status = uint8(ch.StatusCreating)
	case x < 90:
		o.Status = uint8(ch.StatusDeleting)
	case x < 95:
		o.Status = uint8(ch.StatusDeleted)
	default:
		o.Status = vh.Pick(r, uint8(0), 5)
	}
	return o
}

type genState struct {
	nextOp   uint64
	nextMsg  uint64
	used     []uint64
	replicas []uint64 // of the last generated meta (probably the current membership)
}

func (g *genState) opID(r *rand.Rand) uint64 {
	if len(g.used) > 0 && vh.Chance(r, 0.12) {
		return g.used[r.IntN(len(g.used))]
	}
	g.nextOp++
	g.used = append(g.used, g.nextOp)
	return g.nextOp
}

func (g *genState) msgIDs(r *rand.Rand) []uint64 {
	n := 1 + r.IntN(3)
	if vh.Chance(r, 0.03) {
		n = 0
	}
	out := make([]uint64, n)
	for i := range out {
		g.nextMsg++
		out[i] = 100 + g.nextMsg
	}
	return out
}

func genMode(r *rand.Rand) uint8 {
	return vh.Pick(r, uint8(1), 1, 1, 1, 1, 1, 2, 2, 2, 0, 0, 3)
}

func genResult(r *rand.Rand, kind string) op {
	o := op{K: kind}
	if vh.Chance(r, 0.15) {
		o.Stale = 1 + r.IntN(5)
	}
	if vh.Chance(r, 0.1) {
		o.Err = uint8(1 + r.IntN(9))
	}
	switch x := r.IntN(100); {
	case x < 86:
	case x < 93:
		o.BaseDelta = vh.Pick(r, int64(-1), 1, 3, -2)
	case x < 97:
		o.BaseAbs, o.Base = true, uint64(r.IntN(30))
	default:
		o.BaseAbs, o.Base = true, ^uint64(0)-uint64(r.IntN(3))
	}
	if vh.Chance(r, 0.1) {
		o.LastDelta = vh.Pick(r, int64(-1), 1, 5, -2)
	}
	if kind == "quorum" && vh.Chance(r, 0.1) {
		o.HWDelta = vh.Pick(r, int64(-1), 1)
	}
	return o
}

func genAck(r *rand.Rand, g *genState) op {
	o := op{K: "ack", Route: r.IntN(4)}
	o.KeyBad = vh.Chance(r, 0.04)
	if vh.Chance(r, 0.05) {
		o.EpochD = vh.Pick(r, int64(1), -1)
	}
	if vh.Chance(r, 0.05) {
		o.LEpochD = vh.Pick(r, int64(1), -1)
	}
	o.Follower = uint64(1 + r.IntN(4))
	if len(g.replicas) > 0 && vh.Chance(r, 0.8) {
		o.Follower = g.replicas[r.IntN(len(g.replicas))]
	}
	if vh.Chance(r, 0.04) {
		o.Follower = vh.Pick(r, uint64(0), 5)
	}
	o.VerBad = vh.Chance(r, 0.08)
	x := r.IntN(100)
	if o.Route == 2 { // stopped acks are only accepted at exactly LEO
		switch {
		case x < 55:
			o.OffSel, o.OffDelta = 1, 0
		case x < 85:
			o.OffSel, o.OffDelta = 1, vh.Pick(r, int64(1), 1, 2, 6)
		default:
			o.OffSel, o.OffDelta = 1, vh.Pick(r, int64(-1), -2)
		}
		return o
	}
	switch {
	case x < 36:
		o.OffSel, o.OffDelta = 1, 0
	case x < 52:
		o.OffSel, o.OffDelta = 1, vh.Pick(r, int64(1), 1, 2, 7)
	case x < 64:
		o.OffSel, o.OffDelta = 1, vh.Pick(r, int64(-1), -1, -2, -3)
	case x < 86:
		o.OffSel, o.Pick = 2, r.IntN(8)
	case x < 95:
		o.OffSel, o.Off = 0, uint64(r.IntN(12))
	default:
		o.OffSel, o.Off = 0, 0
	}
	return o
}

func gen(r *rand.Rand, tier string, i int) input {
	in := input{Key: 1, Local: uint64(1 + r.IntN(2)), Gen: uint64(1 + r.IntN(3)), ID: uint64(r.IntN(2))}
	if vh.Chance(r, 0.1) {
		in.Key = 2
	}
	if vh.Chance(r, 0.4) {
		in.LEO = uint64(r.IntN(20))
		in.HW = uint64(r.IntN(int(in.LEO) + 1))
		in.CP = uint64(r.IntN(int(in.HW) + 1))
	}
	n := 6 + r.IntN(40)
	if tier == "thorough" {
		n = 6 + r.IntN(70)
	}
	g := &genState{}
	if vh.Chance(r, 0.93) {
		m := genMeta(r, in.Local, true)
		if vh.Chance(r, 0.9) {
			m.Leader, m.LeaderCur = in.Local, false
			m.Status = uint8(ch.StatusActive)
			m.KeySel, m.IDSel = vh.Pick(r, 0, 1), 0
			m.Replicas = subset(r, []uint64{in.Local}, 0.6)
			m.ISR = append([]uint64(nil), m.Replicas...)
			if vh.Chance(r, 0.3) && len(m.ISR) > 1 {
				m.ISR = m.ISR[:len(m.ISR)-1]
			}
			m.MinISR = 1 + r.IntN(len(m.ISR))
			if vh.Chance(r, 0.5) && len(m.ISR) >= 2 {
				m.MinISR = 2
			} else if vh.Chance(r, 0.3) {
				m.MinISR = 1
			}
		}
		in.Ops = append(in.Ops, m)
		g.replicas = m.Replicas
	}
	inflightLikely := false
	for len(in.Ops) < n {
		x := r.IntN(100)
		if inflightLikely && x < 50 {
			// a proposal is probably in flight: deliver its result
			kind := "stored"
			if vh.Chance(r, 0.3) {
				kind = "quorum"
			}
			o := genResult(r, kind)
			in.Ops = append(in.Ops, o)
			inflightLikely = o.Stale != 0
			continue
		}
		x = r.IntN(100)
		switch {
		case x < 6:
			m := genMeta(r, in.Local, false)
			in.Ops = append(in.Ops, m)
			g.replicas = m.Replicas
			inflightLikely = false
		case x < 20:
			o := op{K: "prop"}
			k := 1 + r.IntN(4)
			if vh.Chance(r, 0.03) {
				k = 0
			}
			for j := 0; j < k; j++ {
				o.Ws = append(o.Ws, bw{Op: g.opID(r), Mode: genMode(r), IDs: g.msgIDs(r), SAlloc: vh.Chance(r, 0.7)})
			}
			if k > 1 && vh.Chance(r, 0.05) {
				o.Ws[k-1].Op = o.Ws[0].Op
			}
			o.Batch = 1000 + g.nextOp
			if k > 0 && vh.Chance(r, 0.2) {
				o.Batch = o.Ws[0].Op
			}
			in.Ops = append(in.Ops, o)
			inflightLikely = true
		case x < 33:
			in.Ops = append(in.Ops, op{K: "one", Op: g.opID(r), Mode: genMode(r), IDs: g.msgIDs(r)})
			inflightLikely = true
		case x < 38:
			in.Ops = append(in.Ops, genResult(r, "stored"))
			inflightLikely = false
		case x < 41:
			in.Ops = append(in.Ops, genResult(r, "quorum"))
			inflightLikely = false
		case x < 91:
			in.Ops = append(in.Ops, genAck(r, g))
		case x < 96:
			o := op{K: "cancel", Rel: vh.Chance(r, 0.8), Pick: r.IntN(8)}
			if !o.Rel {
				o.Op = uint64(1 + r.IntN(int(g.nextOp)+2))
			}
			in.Ops = append(in.Ops, o)
		default:
			o := op{K: "abort", Rel: vh.Chance(r, 0.7)}
			if !o.Rel {
				o.Batch = 1000 + uint64(r.IntN(int(g.nextOp)+2))
			}
			in.Ops = append(in.Ops, o)
			inflightLikely = false
		}
	}
	return in
}

func emitConsts(w io.Writer) {
	fmt.Fprintln(w, "(* GENERATED by harness/cmd/C06 -emit-consts from the compiled /repo tree. Do not edit. *)")
	fmt.Fprintln(w, "From Coq Require Import NArith. Open Scope N_scope.")
	fmt.Fprintln(w, "(* pkg/channel: Role, Status, CommitMode enum values *)")
	p := func(name string, v uint64) { fmt.Fprintf(w, "Definition %s : N := %d.\n", name, v) }
	p("RoleFollower", uint64(ch.RoleFollower))
	p("RoleLeader", uint64(ch.RoleLeader))
	p("StatusCreating", uint64(ch.StatusCreating))
	p("StatusActive", uint64(ch.StatusActive))
	p("StatusDeleting", uint64(ch.StatusDeleting))
	p("StatusDeleted", uint64(ch.StatusDeleted))
	p("CommitModeQuorum", uint64(ch.CommitModeQuorum))
	p("CommitModeLocal", uint64(ch.CommitModeLocal))
	fmt.Fprintln(w, "(* pkg/channel/machine: TaskKind, ReplyKind, SignalKind values used by the transitions *)")
	p("TaskKindStoreAppend", uint64(machine.TaskKindStoreAppend))
	p("ReplyKindAppend", uint64(machine.ReplyKindAppend))
	p("SignalKindReplicate", uint64(machine.SignalKindReplicate))
}

func main() {
	vh.Main(vh.Harness[input]{EmitConsts: emitConsts, Gen: gen, Run: run})
}
