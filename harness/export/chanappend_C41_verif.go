//go:build verif

package channelappend

// Export for the /verif C41 harness (add-only, injected by the build overlay).

// VerifC41FutureDone reports, without blocking, whether the future has its terminal results.
func VerifC41FutureDone(f *Future) bool {
	if f == nil {
		return true
	}
	select {
	case <-f.done:
		return true
	default:
		return false
	}
}
