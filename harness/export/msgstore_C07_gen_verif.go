//go:build verif

package msgh

// History generator shared by C07 (faithful log) and C08 (uniqueness).  A small
// planner tracks an estimate of each channel (log end, stored ids and pairs) so
// that most ops take the success path; a separate malformed stream draws wild
// arguments.  All randomness comes from the one PRNG.

import (
	"encoding/hex"
	"fmt"
	"math/rand/v2"

	"github.com/WuKongIM/WuKongIM/internal/verifh/vh"
)

// Profile tunes the generator.
type Profile struct {
	MinOps, MaxOps  int
	Collide         float64 // probability that a record reuses a stored id / pair
	Malformed       bool    // wild arguments
	EmptyPayload    float64 // probability of an empty payload per record (finding C07-K2)
	Saturate        bool    // C08: first fill one channel with > 384 distinct idempotency keys
	MutWeight       int     // weight of mutating ops (out of 100)
	AppendHeavy     bool    // C08: most mutations are appends
	SaneCheckpoints bool    // C09: checkpoints never exceed the planner's log end
	BatchRate       float64 // probability that a mutation is a multi-channel StoreAppendBatch
	TrimRetry       float64 // probability that a trim is followed by a retry of a key that survived it
	TrimScenario    float64 // probability that the history starts with the scripted trim -> retry prelude
	DiscardRate     float64 // probability that a mutation is compat DiscardForRestore of the channel
	BigDiscard      float64 // probability that the history is the > 1024-row multi-page discard script
	BigTrunc        float64 // probability that the history is the > 1024-row script ending in a truncation far below LEO
}

// planRow is the planner's estimate of one stored row.
type planRow struct {
	seq      uint64
	uid, cno string
}

type planChan struct {
	leo   uint64
	first uint64 // lowest possibly present seq
	ids   []uint64
	pairs [][2]string
	uids  []string
	cnos  []string
	phys  uint64
	rows  []planRow // estimate of the stored rows (for retries of surviving keys)
	trim  uint64    // highest trim boundary requested so far
}

type planner struct {
	r      *rand.Rand
	p      Profile
	ch     [NChans]planChan
	nextID uint64
	nextNo int
	allIDs []uint64
}

var uidPool = []string{"u1", "u2", "u"}
var tsPool = []int64{1, 1700000000123, -7, 9000000000000000000, 42}

func (g *planner) payload() string {
	if vh.Chance(g.r, g.p.EmptyPayload) {
		return ""
	}
	if vh.Chance(g.r, 0.15) {
		return "6161"
	}
	return hex.EncodeToString(vh.Bytes(g.r, 1+g.r.IntN(5)))
}

func (g *planner) freshCno() string {
	g.nextNo++
	return fmt.Sprintf("m%d", g.nextNo)
}

func (g *planner) rec(c int) Rec {
	pc := &g.ch[c]
	r := Rec{Pl: g.payload(), Ts: vh.Pick(g.r, tsPool...)}
	// id
	switch {
	case vh.Chance(g.r, g.p.Collide) && len(g.allIDs) > 0:
		r.ID = g.allIDs[g.r.IntN(len(g.allIDs))]
	case vh.Chance(g.r, 0.02):
		r.ID = 0
	default:
		g.nextID++
		r.ID = g.nextID
	}
	// (uid, cno)
	switch x := g.r.IntN(100); {
	case x < 50:
		if vh.Chance(g.r, g.p.Collide) && len(pc.pairs) > 0 {
			pr := pc.pairs[g.r.IntN(len(pc.pairs))]
			r.Uid, r.Cno = pr[0], pr[1]
		} else {
			r.Uid = vh.Pick(g.r, uidPool...)
			if vh.Chance(g.r, 0.25) {
				r.Cno = vh.Pick(g.r, "n1", "n2", "n")
			} else {
				r.Cno = g.freshCno()
			}
		}
	case x < 68:
		r.Cno = vh.Pick(g.r, "n1", "n2", "n", "k1")
	case x < 84:
		r.Uid = vh.Pick(g.r, uidPool...)
	}
	return r
}

func (g *planner) noteAppend(c int, recs []Rec) {
	pc := &g.ch[c]
	for _, r := range recs {
		pc.leo++
		pc.rows = append(pc.rows, planRow{seq: pc.leo, uid: r.Uid, cno: r.Cno})
		if r.ID != 0 {
			pc.ids = append(pc.ids, r.ID)
			g.allIDs = append(g.allIDs, r.ID)
		}
		if r.Uid != "" && r.Cno != "" {
			pc.pairs = append(pc.pairs, [2]string{r.Uid, r.Cno})
		}
		if r.Uid != "" {
			pc.uids = append(pc.uids, r.Uid)
		}
		if r.Cno != "" {
			pc.cnos = append(pc.cnos, r.Cno)
		}
	}
}

// plausible says whether the planner expects the batch to be accepted.
func (g *planner) plausible(c int, mode uint8, recs []Rec) bool {
	pc := &g.ch[c]
	seenID := map[uint64]bool{}
	seenPair := map[[2]string]bool{}
	for _, r := range recs {
		if r.ID == 0 || seenID[r.ID] {
			return false
		}
		seenID[r.ID] = true
		if mode == 0 {
			for _, id := range g.allIDs {
				if id == r.ID {
					return false
				}
			}
		}
		if r.Uid != "" && r.Cno != "" {
			k := [2]string{r.Uid, r.Cno}
			if seenPair[k] {
				return false
			}
			seenPair[k] = true
			if mode != 2 {
				for _, p := range pc.pairs {
					if p == k {
						return false
					}
				}
			}
		}
		if r.Pl == "" {
			return true // accepted, then poisons the channel
		}
	}
	return true
}

func (g *planner) seqNear(c int) uint64 {
	pc := &g.ch[c]
	switch g.r.IntN(10) {
	case 0:
		return 0
	case 1:
		return pc.leo + 1 + uint64(g.r.IntN(3))
	default:
		if pc.leo == 0 {
			return uint64(g.r.IntN(3))
		}
		return 1 + uint64(g.r.IntN(int(pc.leo)))
	}
}

func (g *planner) limit() int64 {
	switch g.r.IntN(6) {
	case 0, 1, 2:
		return 0
	case 3:
		return 1
	case 4:
		return int64(1 + g.r.IntN(4))
	default:
		if g.p.Malformed {
			return -int64(g.r.IntN(3))
		}
		return int64(1 + g.r.IntN(8))
	}
}

func (g *planner) someUid(c int) string {
	pc := &g.ch[c]
	if len(pc.uids) > 0 && vh.Chance(g.r, 0.7) {
		return pc.uids[g.r.IntN(len(pc.uids))]
	}
	return vh.Pick(g.r, "", "u1", "u2", "u", "zz")
}

func (g *planner) someCno(c int) string {
	pc := &g.ch[c]
	if len(pc.cnos) > 0 && vh.Chance(g.r, 0.7) {
		return pc.cnos[g.r.IntN(len(pc.cnos))]
	}
	return vh.Pick(g.r, "", "n1", "n2", "n", "zz")
}

func (g *planner) someID(c int) uint64 {
	if len(g.allIDs) > 0 && vh.Chance(g.r, 0.8) {
		return g.allIDs[g.r.IntN(len(g.allIDs))]
	}
	return uint64(g.r.IntN(4))
}

func (g *planner) readOp(c int) Op {
	switch g.r.IntN(11) {
	case 0, 1:
		return Op{K: "read", C: c, A: g.seqNear(c), B: g.limit(), D: g.limit() * 3}
	case 2:
		return Op{K: "rread", C: c, A: g.seqNear(c), B: g.limit(), D: g.limit() * 3}
	case 3:
		return Op{K: "get", C: c, A: g.seqNear(c)}
	case 4, 5:
		return Op{K: "byid", C: c, A: g.someID(c)}
	case 6:
		return Op{K: "bycno", C: c, Cno: g.someCno(c), A: vh.Pick(g.r, uint64(0), 0, g.seqNear(c)), B: vh.Pick(g.r, int64(1), 2, 5, 0)}
	case 7, 8:
		pc := &g.ch[c]
		if len(pc.pairs) > 0 && vh.Chance(g.r, 0.75) {
			pr := pc.pairs[g.r.IntN(len(pc.pairs))]
			return Op{K: "idem", C: c, Uid: pr[0], Cno: pr[1]}
		}
		return Op{K: "idem", C: c, Uid: g.someUid(c), Cno: g.someCno(c)}
	case 9:
		return Op{K: "lasts", C: c, Uid: g.someUid(c), A: vh.Pick(g.r, g.seqNear(c), g.ch[c].leo, ^uint64(0))}
	default:
		return Op{K: vh.Pick(g.r, "leo", "ret", "lck", "hist"), C: c}
	}
}

func (g *planner) appendOp(c int) Op {
	pc := &g.ch[c]
	mode := uint8(0)
	switch x := g.r.IntN(100); {
	case x < 50:
		mode = 0
	case x < 76:
		mode = 1
	case x < 97:
		mode = 2
	default:
		mode = 3
	}
	n := 1 + g.r.IntN(4)
	if vh.Chance(g.r, 0.03) {
		n = 0
	}
	recs := make([]Rec, n)
	for i := range recs {
		recs[i] = g.rec(c)
	}
	op := Op{K: "append", C: c, Mode: mode, Recs: recs}
	switch x := g.r.IntN(10); {
	case x < 6:
	case x < 9:
		op.Base = pc.leo + 1
	default:
		op.Base = pc.leo + uint64(g.r.IntN(4))
	}
	if mode <= 2 && (op.Base == 0 || op.Base == pc.leo+1) && g.plausible(c, mode, recs) {
		g.noteAppend(c, recs)
	}
	return op
}

func (g *planner) applyOp(c int) Op {
	pc := &g.ch[c]
	n := g.r.IntN(4)
	recs := make([]Rec, n)
	for i := range recs {
		recs[i] = g.rec(c)
	}
	op := Op{K: "apply", C: c, Recs: recs}
	if vh.Chance(g.r, 0.6) {
		op.Base = pc.leo + 1
	} else if vh.Chance(g.r, 0.2) {
		op.Base = pc.leo + uint64(g.r.IntN(3))
	}
	after := pc.leo + uint64(n)
	if vh.Chance(g.r, 0.45) {
		hw := uint64(0)
		if after > 0 {
			hw = uint64(g.r.IntN(int(after) + 1))
		}
		if vh.Chance(g.r, 0.12) {
			hw = after + 1 + uint64(g.r.IntN(2))
		}
		lso := uint64(0)
		if hw > 0 && vh.Chance(g.r, 0.3) {
			lso = uint64(g.r.IntN(int(hw) + 1))
		}
		if vh.Chance(g.r, 0.05) {
			lso = hw + 1
		}
		op.Ck = &Ck{E: uint64(g.r.IntN(3)), L: lso, H: hw}
	}
	if vh.Chance(g.r, 0.4) {
		op.Ep = &Ep{E: uint64(g.r.IntN(4)), S: vh.Pick(g.r, pc.leo, pc.leo, uint64(g.r.IntN(4)))}
	}
	if (op.Base == 0 || op.Base == pc.leo+1) && g.plausible(c, 2, recs) {
		g.noteAppend(c, recs)
	}
	return op
}

func (g *planner) cappOp(c int) Op {
	pc := &g.ch[c]
	mode := vh.Pick(g.r, uint8(0), 0, 1, 2)
	n := 1 + g.r.IntN(3)
	recs := make([]Rec, n)
	for i := range recs {
		recs[i] = g.rec(c)
		if vh.Chance(g.r, 0.3) {
			recs[i].Flags = vh.Pick(g.r, uint8(4), 4, 1, 5)
		}
		if vh.Chance(g.r, 0.2) {
			recs[i].RIdx = pc.leo + 1 + uint64(i)
			if vh.Chance(g.r, 0.2) {
				recs[i].RIdx += 1
			}
		}
		if vh.Chance(g.r, 0.2) {
			recs[i].RID = recs[i].ID
			if vh.Chance(g.r, 0.2) {
				recs[i].RID += 1
			}
		}
	}
	if g.plausible(c, mode, recs) {
		g.noteAppend(c, recs)
	}
	return Op{K: "capp", C: c, Mode: mode, Recs: recs}
}

func (g *planner) cbatchOp() Op {
	chans := g.r.Perm(NChans)
	n := 2 + g.r.IntN(2)
	var items []Item
	for i := 0; i < n; i++ {
		c := chans[i%NChans]
		if vh.Chance(g.r, 0.06) {
			c = chans[0] // same channel twice: every item of it is rejected
		}
		k := 1 + g.r.IntN(2)
		if vh.Chance(g.r, 0.05) {
			k = 0
		}
		recs := make([]Rec, k)
		for j := range recs {
			recs[j] = g.rec(c)
			if vh.Chance(g.r, 0.2) {
				recs[j].Flags = 4
			}
			// the same id in two items of one batch
			if len(items) > 0 && len(items[0].Recs) > 0 && vh.Chance(g.r, g.p.Collide*0.5) {
				recs[j].ID = items[0].Recs[0].ID
			}
		}
		items = append(items, Item{C: c, Mode: vh.Pick(g.r, uint8(0), 0, 1), Recs: recs})
	}
	seen := map[int]int{}
	for _, it := range items {
		seen[it.C]++
	}
	for _, it := range items {
		if seen[it.C] == 1 && g.plausible(it.C, it.Mode, it.Recs) {
			g.noteAppend(it.C, it.Recs)
		}
	}
	return Op{K: "cbatch", Items: items}
}

func (g *planner) truncNote(c int, keepThrough uint64) {
	pc := &g.ch[c]
	if keepThrough < pc.leo {
		pc.leo = keepThrough
	}
	for len(pc.rows) > 0 && pc.rows[len(pc.rows)-1].seq > keepThrough {
		pc.rows = pc.rows[:len(pc.rows)-1]
	}
}

// noteDiscard: the channel is gone, a later append starts again at sequence 1.
func (g *planner) noteDiscard(c int) {
	g.ch[c] = planChan{}
}

// bigDiscard: more rows than one DiscardForRestore page (1024) in one channel, a
// few rows in another, checkpoint, then the discard (two pages + terminal batch)
// and a short tail that reuses the channel from sequence 1.
func (g *planner) bigDiscard() []Op {
	c := g.r.IntN(NChans)
	other := (c + 1) % NChans
	var ops []Op
	total := 1030 + g.r.IntN(60)
	for total > 0 {
		k := min(total, 300+g.r.IntN(100))
		recs := make([]Rec, k)
		for i := range recs {
			g.nextID++
			recs[i] = Rec{ID: g.nextID, Pl: "61", Ts: 5}
			if i%97 == 0 {
				recs[i].Uid, recs[i].Cno = vh.Pick(g.r, uidPool...), g.freshCno()
			}
		}
		ops = append(ops, Op{K: "append", C: c, Mode: 2, Recs: recs})
		g.noteAppend(c, recs)
		total -= k
	}
	g.nextID++
	o := Rec{ID: g.nextID, Uid: "u1", Cno: g.freshCno(), Pl: "6f", Ts: 1}
	ops = append(ops, Op{K: "append", C: other, Recs: []Rec{o}})
	g.noteAppend(other, []Rec{o})
	ops = append(ops, Op{K: "ckpt", C: c, Ck: &Ck{E: 1, H: g.ch[c].leo}})
	if vh.Chance(g.r, 0.5) {
		ops = append(ops, Op{K: "trim", C: c, A: uint64(1 + g.r.IntN(5))})
	}
	ops = append(ops, Op{K: "discard", C: c})
	g.noteDiscard(c)
	ops = append(ops, Op{K: "leo", C: c}, Op{K: "read", C: c, A: 1})
	ops = append(ops, g.appendOp(c), Op{K: "read", C: other, A: 1})
	return ops
}

// bigTrunc: more than 1024 rows in one channel, then ONE truncation call far below
// the log end (compat Truncate = truncateLocked, or typed TruncateFrom): the model
// says one batch, so no store between "before" and "after" may ever be recovered.
func (g *planner) bigTrunc() []Op {
	c := g.r.IntN(NChans)
	other := (c + 1) % NChans
	var ops []Op
	total := 1040 + g.r.IntN(80)
	for total > 0 {
		k := min(total, 300+g.r.IntN(100))
		recs := make([]Rec, k)
		for i := range recs {
			g.nextID++
			recs[i] = Rec{ID: g.nextID, Pl: "61", Ts: 5}
			if i%89 == 0 {
				recs[i].Uid, recs[i].Cno = vh.Pick(g.r, uidPool...), g.freshCno()
			}
		}
		ops = append(ops, Op{K: "append", C: c, Mode: 2, Recs: recs})
		g.noteAppend(c, recs)
		total -= k
	}
	g.nextID++
	o := Rec{ID: g.nextID, Uid: "u1", Cno: g.freshCno(), Pl: "6f", Ts: 1}
	ops = append(ops, Op{K: "append", C: other, Recs: []Rec{o}})
	g.noteAppend(other, []Rec{o})
	to := uint64(1 + g.r.IntN(12))
	if vh.Chance(g.r, 0.75) {
		ops = append(ops, Op{K: "ctrunc", C: c, A: to})
	} else {
		ops = append(ops, Op{K: "trunc", C: c, A: to + 1})
	}
	g.truncNote(c, to)
	ops = append(ops, Op{K: "leo", C: c}, Op{K: "read", C: c, A: 1})
	ops = append(ops, g.appendOp(c), Op{K: "read", C: other, A: 1})
	return ops
}

// survivors lists the keyed rows the planner expects above every trim boundary.
func (g *planner) survivors(c int) []planRow {
	pc := &g.ch[c]
	var out []planRow
	for _, r := range pc.rows {
		if r.seq > pc.trim && r.seq <= pc.leo && r.uid != "" && r.cno != "" {
			out = append(out, r)
		}
	}
	return out
}

// retryOps: a sender retries a (uid, cno) of a row that SURVIVED the prefix trim,
// under a fresh message id, in any append mode and through any append entry
// point, with or without a lease close in between but never a database reopen
// (the warm cache must carry a sound filter); then the lookups, optionally a
// truncation of the (wrongly or, in trusted mode, rightly) stored retry and the
// lookups again.
func (g *planner) retryOps(c int) []Op {
	sv := g.survivors(c)
	if len(sv) == 0 {
		return nil
	}
	pc := &g.ch[c]
	var ops []Op
	if vh.Chance(g.r, 0.45) {
		ops = append(ops, Op{K: "release", C: c})
	}
	row := sv[g.r.IntN(len(sv))]
	g.nextID++
	rec := Rec{ID: g.nextID, Uid: row.uid, Cno: row.cno, Pl: g.payload(), Ts: vh.Pick(g.r, tsPool...)}
	if rec.Pl == "" {
		rec.Pl = "72"
	}
	mode := vh.Pick(g.r, uint8(0), 0, 1, 1, 2)
	var op Op
	switch g.r.IntN(10) {
	case 0, 1, 2, 3, 4, 5:
		op = Op{K: "append", C: c, Mode: mode, Recs: []Rec{rec}}
		if vh.Chance(g.r, 0.3) {
			op.Base = pc.leo + 1
		}
	case 6, 7, 8:
		op = Op{K: "capp", C: c, Mode: mode, Recs: []Rec{rec}}
	default:
		if mode == 2 {
			mode = 0
		}
		other := (c + 1 + g.r.IntN(NChans-1)) % NChans
		g.nextID++
		o := Rec{ID: g.nextID, Uid: vh.Pick(g.r, uidPool...), Cno: g.freshCno(), Pl: "6f", Ts: 1}
		items := []Item{{C: c, Mode: mode, Recs: []Rec{rec}}, {C: other, Mode: 0, Recs: []Rec{o}}}
		if vh.Chance(g.r, 0.5) {
			items[0], items[1] = items[1], items[0]
		}
		op = Op{K: "cbatch", Items: items}
		g.noteAppend(other, []Rec{o})
	}
	ops = append(ops, op)
	before := pc.leo
	if mode == 2 && op.K != "cbatch" {
		g.noteAppend(c, []Rec{rec}) // trusted: stored next to the surviving row
	}
	look := func() {
		ops = append(ops, Op{K: "idem", C: c, Uid: row.uid, Cno: row.cno})
		if vh.Chance(g.r, 0.5) {
			ops = append(ops, Op{K: "bycno", C: c, Cno: row.cno, B: 5})
		}
	}
	look()
	if vh.Chance(g.r, 0.5) {
		// drop whatever sits above the log end the planner expected before the retry
		ops = append(ops, Op{K: "trunc", C: c, A: before + 1})
		g.truncNote(c, before)
		look()
	}
	return ops
}

// trimOp draws the entry point: typed with limits, typed without, or the compat
// one (which needs an adopted boundary: a limited typed trim adopts it first).
func (g *planner) trimVariant(op Op) []Op {
	switch g.r.IntN(4) {
	case 0:
		op.B, op.D, op.Mode = 0, 0, 1
		return []Op{op}
	case 1:
		first := op
		first.B, first.D, first.Mode = 1, 0, 0
		op.Mode = 2
		return []Op{first, op}
	}
	return []Op{op}
}

// scenario: the scripted prelude  keyed strict appends -> prefix trim that leaves
// keyed rows -> retry of a surviving key  on a fresh channel.
func (g *planner) scenario(c int) []Op {
	k := 3 + g.r.IntN(4)
	recs := make([]Rec, k)
	for i := range recs {
		g.nextID++
		recs[i] = Rec{ID: g.nextID, Uid: vh.Pick(g.r, uidPool...), Cno: g.freshCno(), Pl: "61", Ts: 5}
	}
	mode := vh.Pick(g.r, uint8(0), 0, 1)
	var ops []Op
	if vh.Chance(g.r, 0.3) {
		ops = append(ops, Op{K: "capp", C: c, Mode: mode, Recs: recs})
	} else {
		ops = append(ops, Op{K: "append", C: c, Mode: mode, Recs: recs})
	}
	g.noteAppend(c, recs)
	through := uint64(1 + g.r.IntN(k-1))
	ops = append(ops, g.trimVariant(Op{K: "trim", C: c, A: through})...)
	g.ch[c].trim = max(g.ch[c].trim, through)
	ops = append(ops, g.retryOps(c)...)
	return ops
}

func (g *planner) mutOp(c int) Op {
	pc := &g.ch[c]
	x := g.r.IntN(100)
	if g.p.AppendHeavy && vh.Chance(g.r, 0.5) {
		x = g.r.IntN(60)
	}
	if vh.Chance(g.r, g.p.BatchRate) {
		return g.cbatchOp()
	}
	if g.p.DiscardRate > 0 && vh.Chance(g.r, g.p.DiscardRate) {
		g.noteDiscard(c)
		return Op{K: "discard", C: c}
	}
	switch {
	case x < 40:
		return g.appendOp(c)
	case x < 50:
		return g.applyOp(c)
	case x < 60:
		return g.cappOp(c)
	case x < 69:
		from := g.seqNear(c)
		if vh.Chance(g.r, 0.6) && pc.leo > 0 {
			from = pc.leo - uint64(g.r.IntN(int(min(pc.leo, 3))))
		}
		if from == 0 {
			g.truncNote(c, 0)
		} else {
			g.truncNote(c, from-1)
		}
		return Op{K: "trunc", C: c, A: from}
	case x < 73:
		to := g.seqNear(c)
		if vh.Chance(g.r, 0.6) && pc.leo > 0 {
			to = pc.leo - uint64(g.r.IntN(int(min(pc.leo, 3))+1))
		}
		g.truncNote(c, to)
		return Op{K: "ctrunc", C: c, A: to}
	case x < 85:
		through := g.seqNear(c)
		if vh.Chance(g.r, 0.05) {
			through = pc.leo + 1 + uint64(g.r.IntN(3))
		}
		op := Op{K: "trim", C: c, A: through}
		switch g.r.IntN(4) {
		case 0:
			op.B = int64(1 + g.r.IntN(2))
		case 1:
			op.D = int64(1 + g.r.IntN(8))
		}
		if through > pc.leo {
			pc.leo = through
		}
		pc.trim = max(pc.trim, through)
		return op
	case x < 89:
		hw := uint64(0)
		if pc.leo > 0 {
			hw = uint64(g.r.IntN(int(pc.leo) + 1))
		}
		lso := uint64(0)
		if vh.Chance(g.r, 0.1) {
			lso = hw + 1
		}
		return Op{K: "ckpt", C: c, Ck: &Ck{E: uint64(g.r.IntN(3)), L: lso, H: hw}}
	case x < 92:
		hw := uint64(g.r.IntN(int(pc.leo) + 2))
		return Op{K: "ckptm", C: c, Ck: &Ck{E: uint64(g.r.IntN(3)), L: 0, H: hw}, A: vh.Pick(g.r, hw, pc.leo, uint64(0)), B: int64(vh.Pick(g.r, pc.leo, hw, uint64(0)))}
	case x < 96:
		return Op{K: "release", C: c}
	default:
		return Op{K: "reopen"}
	}
}

// GenHistory draws one history.
func GenHistory(r *rand.Rand, p Profile) Input {
	g := &planner{r: r, p: p}
	if p.BigDiscard > 0 && vh.Chance(r, p.BigDiscard) {
		return Input{Ops: g.bigDiscard(), Compact: true}
	}
	if p.BigTrunc > 0 && vh.Chance(r, p.BigTrunc) {
		return Input{Ops: g.bigTrunc(), Compact: true}
	}
	n := p.MinOps + r.IntN(p.MaxOps-p.MinOps+1)
	ops := make([]Op, 0, n+8)
	if p.Saturate {
		// > 384 distinct idempotency keys in channel 0, in a few big batches
		// (saturates the primary filter layer), then the normal mix.
		total := 390 + r.IntN(40)
		for total > 0 {
			k := min(total, 60+r.IntN(80))
			recs := make([]Rec, k)
			for i := range recs {
				g.nextID++
				recs[i] = Rec{ID: g.nextID, Uid: vh.Pick(r, uidPool...), Cno: g.freshCno(), Pl: "61", Ts: 5}
			}
			mode := vh.Pick(r, uint8(0), 1, 2)
			ops = append(ops, Op{K: "append", C: 0, Mode: mode, Recs: recs})
			g.noteAppend(0, recs)
			total -= k
			if vh.Chance(r, 0.3) {
				ops = append(ops, Op{K: vh.Pick(r, "release", "reopen"), C: 0})
			}
		}
	}
	// channel weights: most work on one or two channels so logs get long enough
	w := [NChans]int{5, 3, 2}
	r.Shuffle(NChans, func(i, j int) { w[i], w[j] = w[j], w[i] })
	pickChan := func() int {
		x := r.IntN(10)
		for c := 0; c < NChans; c++ {
			if x < w[c] {
				return c
			}
			x -= w[c]
		}
		return 0
	}
	if vh.Chance(r, p.TrimScenario) {
		ops = append(ops, g.scenario(pickChan())...)
	}
	target := len(ops) + n
	for len(ops) < target {
		c := pickChan()
		if p.Saturate && vh.Chance(r, 0.7) {
			c = 0
		}
		if r.IntN(100) < p.MutWeight {
			op := g.mutOp(c)
			if op.K == "trim" && vh.Chance(r, p.TrimRetry) {
				ops = append(ops, g.trimVariant(op)...)
				ops = append(ops, g.retryOps(op.C)...)
			} else {
				ops = append(ops, op)
			}
		} else {
			ops = append(ops, g.readOp(c))
		}
	}
	if p.Malformed {
		for i := range ops {
			if vh.Chance(r, 0.25) {
				ops[i].A = vh.U64Edge(r) % (1 << 20)
			}
			if vh.Chance(r, 0.1) {
				ops[i].Base = uint64(r.IntN(6))
			}
			if vh.Chance(r, 0.1) {
				ops[i].Mode = uint8(r.IntN(5))
			}
		}
	}
	return Input{Ops: ops}
}
