//go:build verif

package channels

import (
	"unsafe"

	ch "github.com/WuKongIM/WuKongIM/pkg/channel"
	channeltransport "github.com/WuKongIM/WuKongIM/pkg/channel/transport"
)

// VerifCodecConsts lists the wire constants of codec.go for Gen/Consts_C27.v.
func VerifCodecConsts() [][2]any {
	return [][2]any{
		{"legacyCodecVersionV3", legacyCodecVersionV3}, {"legacyCodecVersionV4", legacyCodecVersionV4},
		{"legacyCodecVersionV5", legacyCodecVersionV5}, {"legacyCodecVersionV6", legacyCodecVersionV6},
		{"codecVersion", codecVersion},
		{"kindPull", kindPull}, {"kindPullResponse", kindPullResponse}, {"kindAck", kindAck},
		{"kindPullHint", kindPullHint}, {"kindNotify", kindNotify}, {"kindAppend", kindAppend},
		{"kindAppendResponse", kindAppendResponse}, {"kindAppendBatch", kindAppendBatch},
		{"kindAppendBatchResponse", kindAppendBatchResponse}, {"kindPullBatch", kindPullBatch},
		{"kindPullBatchResponse", kindPullBatchResponse}, {"kindPullHintBatch", kindPullHintBatch},
		{"kindPullHintBatchResponse", kindPullHintBatchResponse}, {"kindLastVisible", kindLastVisible},
		{"kindLastVisibleResponse", kindLastVisibleResponse}, {"kindConversationHeads", kindConversationHeads},
		{"kindConversationHeadsResponse", kindConversationHeadsResponse}, {"kindCommittedReads", kindCommittedReads},
		{"kindCommittedReadsResponse", kindCommittedReadsResponse},
		{"rpcResultOK", rpcResultOK}, {"rpcResultErr", rpcResultErr},
	}
}

// VerifMaxElemSize is the largest element type a channels decoder makes a slice of
// (the count is checked against the remaining bytes, so allocation <= this * len).
func VerifMaxElemSize() uintptr {
	m := unsafe.Sizeof(channeltransport.PullRequest{})
	for _, s := range []uintptr{
		unsafe.Sizeof(channeltransport.PullBatchItemResult{}), unsafe.Sizeof(channeltransport.PullHintRequest{}),
		unsafe.Sizeof(channeltransport.PullHintBatchItemResult{}), unsafe.Sizeof(ch.Message{}), unsafe.Sizeof(ch.Record{}),
		unsafe.Sizeof(ch.AppendBatchItemResult{}), unsafe.Sizeof(ConversationHeadRequest{}), unsafe.Sizeof(ConversationHeadResult{}),
		unsafe.Sizeof(CommittedReadRequest{}), unsafe.Sizeof(CommittedReadResult{}),
	} {
		if s > m {
			m = s
		}
	}
	return m
}

// Request codecs (the unexported encode*Version / decode* pairs).
func VerifEncodePull(v channeltransport.PullRequest, ver uint8) ([]byte, error) {
	return encodePullRequestVersion(v, ver)
}
func VerifEncodePullBatch(v channeltransport.PullBatchRequest, ver uint8) ([]byte, error) {
	return encodePullBatchRequestVersion(v, ver)
}
func VerifDecodePullBatch(d []byte) (channeltransport.PullBatchRequest, error) {
	return decodePullBatchRequest(d)
}
func VerifEncodeAck(v channeltransport.AckRequest, ver uint8) ([]byte, error) {
	return encodeAckRequestVersion(v, ver)
}
func VerifDecodeAck(d []byte) (channeltransport.AckRequest, error) { return decodeAckRequest(d) }
func VerifEncodePullHint(v channeltransport.PullHintRequest, ver uint8) ([]byte, error) {
	return encodePullHintRequestVersion(v, ver)
}
func VerifDecodePullHint(d []byte) (channeltransport.PullHintRequest, error) {
	return decodePullHintRequest(d)
}
func VerifEncodePullHintBatch(v channeltransport.PullHintBatchRequest, ver uint8) ([]byte, error) {
	return encodePullHintBatchRequestVersion(v, ver)
}
func VerifDecodePullHintBatch(d []byte) (channeltransport.PullHintBatchRequest, error) {
	return decodePullHintBatchRequest(d)
}
func VerifEncodeNotify(v channeltransport.NotifyRequest, ver uint8) ([]byte, error) {
	return encodeNotifyRequestVersion(v, ver)
}
func VerifDecodeNotify(d []byte) (channeltransport.NotifyRequest, error) { return decodeNotifyRequest(d) }
func VerifEncodeAppend(v ch.AppendRequest, ver uint8) ([]byte, error) {
	return encodeAppendRequestVersion(v, ver)
}
func VerifDecodeAppend(d []byte) (ch.AppendRequest, error) { return decodeAppendRequest(d) }
func VerifEncodeAppendBatch(v ch.AppendBatchRequest, ver uint8) ([]byte, error) {
	return encodeAppendBatchRequestVersion(v, ver)
}
func VerifDecodeAppendBatch(d []byte) (ch.AppendBatchRequest, error) { return decodeAppendBatchRequest(d) }
func VerifEncodeLastVisible(v LastVisibleRequest, ver uint8) ([]byte, error) {
	return encodeLastVisibleRequestVersion(v, ver)
}
func VerifDecodeLastVisible(d []byte) (LastVisibleRequest, error) { return decodeLastVisibleRequest(d) }
func VerifEncodeConversationHeads(v ConversationHeadsRequest, ver uint8) ([]byte, error) {
	return encodeConversationHeadsRequestVersion(v, ver)
}
func VerifDecodeConversationHeads(d []byte) (ConversationHeadsRequest, error) {
	return decodeConversationHeadsRequest(d)
}
func VerifEncodeCommittedReads(v CommittedReadsRequest, ver uint8) ([]byte, error) {
	return encodeCommittedReadsRequestVersion(v, ver)
}
func VerifDecodeCommittedReads(d []byte) (CommittedReadsRequest, error) {
	return decodeCommittedReadsRequest(d)
}

// Result codecs: encodeRPCResultVersion with a nil error / decode*Response.
func VerifEncodePullResponse(v channeltransport.PullResponse, ver uint8) ([]byte, error) {
	return encodeRPCResultVersion(ver, kindPullResponse, v, nil)
}
func VerifDecodePullResponse(d []byte) (channeltransport.PullResponse, error) { return decodePullResponse(d) }
func VerifEncodeAppendResponse(v ch.AppendResult, ver uint8) ([]byte, error) {
	return encodeRPCResultVersion(ver, kindAppendResponse, v, nil)
}
func VerifDecodeAppendResponse(d []byte) (ch.AppendResult, error) { return decodeAppendResponse(d) }
func VerifEncodeLastVisibleResponse(v LastVisibleResponse, ver uint8) ([]byte, error) {
	return encodeRPCResultVersion(ver, kindLastVisibleResponse, v, nil)
}
func VerifDecodeLastVisibleResponse(d []byte) (LastVisibleResponse, error) {
	return decodeLastVisibleResponse(d)
}
func VerifEncodePullBatchResponse(v channeltransport.PullBatchResponse, ver uint8) ([]byte, error) {
	return encodeRPCResultVersion(ver, kindPullBatchResponse, v, nil)
}
func VerifDecodePullBatchResponse(d []byte) (channeltransport.PullBatchResponse, error) {
	return decodePullBatchResponse(d)
}
func VerifEncodePullHintBatchResponse(v channeltransport.PullHintBatchResponse, ver uint8) ([]byte, error) {
	return encodeRPCResultVersion(ver, kindPullHintBatchResponse, v, nil)
}
func VerifDecodePullHintBatchResponse(d []byte) (channeltransport.PullHintBatchResponse, error) {
	return decodePullHintBatchResponse(d)
}
func VerifEncodeAppendBatchResponse(v ch.AppendBatchResult, ver uint8) ([]byte, error) {
	return encodeRPCResultVersion(ver, kindAppendBatchResponse, v, nil)
}
func VerifDecodeAppendBatchResponse(d []byte) (ch.AppendBatchResult, error) {
	return decodeAppendBatchResponse(d)
}
func VerifEncodeConversationHeadsResponse(v ConversationHeadsResponse, ver uint8) ([]byte, error) {
	return encodeRPCResultVersion(ver, kindConversationHeadsResponse, v, nil)
}
func VerifDecodeConversationHeadsResponse(d []byte) (ConversationHeadsResponse, error) {
	return decodeConversationHeadsResponse(d)
}
func VerifEncodeCommittedReadsResponse(v CommittedReadsResponse, ver uint8) ([]byte, error) {
	return encodeRPCResultVersion(ver, kindCommittedReadsResponse, v, nil)
}
func VerifDecodeCommittedReadsResponse(d []byte) (CommittedReadsResponse, error) {
	return decodeCommittedReadsResponse(d)
}
