//go:build verif

package workqueue

// Exports for the C37 harness (overlay only; nothing of this exists in /repo).
// VerifHoldAdmission / VerifReleaseAdmission take and release the worker queue's
// admission lock exactly the way a slow in-flight Submit would hold it, so that
// the harness can pin "Submit calls and Close are contending for q.mu".

// VerifHoldAdmission locks q.mu.
func (q *BoundedWorkerQueue[T]) VerifHoldAdmission() { q.mu.Lock() }

// VerifReleaseAdmission unlocks q.mu.
func (q *BoundedWorkerQueue[T]) VerifReleaseAdmission() { q.mu.Unlock() }
