//go:build verif

package replication

// Export of the durable quorum log owner (newQuorumLog) for the /verif
// harnesses of C01, C02, C03 and C04, plus a deterministic in-process cluster:
// one real ReplicaStore (StoreAdapter over the memory factory or the
// Pebble-backed message DB factory) and one real ExchangeServer per voter, one
// volatile quorumLog owner per node, and a dispatcher that implements
// durabilityDispatcher / recoveryDispatcher synchronously and obeys an explicit
// per-operation fault plan.  Nothing here exists in /repo; the file is injected
// by `go build -overlay`.

import (
	"context"
	"errors"
	"time"

	ch "github.com/WuKongIM/WuKongIM/pkg/channel"
	channelstore "github.com/WuKongIM/WuKongIM/pkg/channel/store"
)

// VerifMaxRecoveryProbeIndexes exposes the recovery page bound.
const VerifMaxRecoveryProbeIndexes = maxRecoveryProbeIndexes

// VerifMaxRecoveryProbeVoters exposes the topology bound.
const VerifMaxRecoveryProbeVoters = maxRecoveryProbeVoters

var (
	errVerifUnreachable = errors.New("verif: peer unreachable")
	errVerifLost        = errors.New("verif: response lost")
	errVerifCrash       = errors.New("verif: crash before recovery page")
)

// VerifErrClass maps an error of Install/Commit to a small closed enumeration.
//
//	0 ok, 1 stale meta, 2 log conflict, 3 write fenced, 4 not ready,
//	5 backpressured, 6 invalid config, 7 durable quorum unavailable,
//	8 recovery quorum unavailable, 9 recovery probe incomplete,
//	10 injected unreachable / lost / crash, 11 invalid exchange result,
//	12 too many channels, 13 peer outcome unknown, 99 other.
func VerifErrClass(err error) uint64 {
	switch {
	case err == nil:
		return 0
	case errors.Is(err, ch.ErrStaleMeta):
		return 1
	case errors.Is(err, ch.ErrLogConflict):
		return 2
	case errors.Is(err, ch.ErrWriteFenced):
		return 3
	case errors.Is(err, ch.ErrNotReady):
		return 4
	case errors.Is(err, ch.ErrBackpressured):
		return 5
	case errors.Is(err, ch.ErrInvalidConfig):
		return 6
	case errors.Is(err, errDurableQuorumUnavailable):
		return 7
	case errors.Is(err, errRecoveryQuorumUnavailable):
		return 8
	case errors.Is(err, errRecoveryProbeIncomplete):
		return 9
	case errors.Is(err, errVerifUnreachable), errors.Is(err, errVerifLost), errors.Is(err, errVerifCrash):
		return 10
	case errors.Is(err, errInvalidExchangeResult):
		return 11
	case errors.Is(err, ch.ErrTooManyChannels):
		return 12
	case errors.Is(err, errPeerOutcomeUnknown):
		return 13
	default:
		return 99
	}
}

// VerifPreferredFollowerIndex exposes the follower rotation of runDurableRound.
func VerifPreferredFollowerIndex(key ch.ChannelKey, followers int) int {
	return preferredFollowerIndex(key, followers)
}

// VerifBarrierContent exposes the deterministic barrier command and record.
func VerifBarrierContent(authority Authority) (ch.CommandID, ch.Record) {
	return recoveryBarrierContent(authority)
}

// VerifCompareAuthorityID exposes the lexicographic authority order.
func VerifCompareAuthorityID(left, right AuthorityID) int { return compareAuthorityID(left, right) }

// VerifFaults is the fault plan of one Install or Commit call.
type VerifFaults struct {
	// Lose: the request is applied by that voter but its response is lost.
	Lose map[ch.NodeID]bool
	// Drop: the request never reaches that voter (probe, fetch and replicate).
	Drop map[ch.NodeID]bool
	// ReplaceBudget < 0: unlimited; otherwise the local store fails the
	// (ReplaceBudget+1)-th recovery page replacement of this call (crash point).
	ReplaceBudget int
	// PageDrop: the voter answers the frontier probe round (empty index list) but its identity-page
	// replies (probe rounds with indexes) are lost.
	PageDrop map[ch.NodeID]bool
}

// VerifSealed is one proposal observed at the local durability submission.
type VerifSealed struct {
	Manifest ch.ProposalManifest
	Records  []ch.Record
	Entries  []ch.EntryIdentity
}

// VerifClusterConfig fixes one cluster.
type VerifClusterConfig struct {
	Key                 ch.ChannelKey
	ID                  ch.ChannelID
	Voters              []ch.NodeID
	Factories           map[ch.NodeID]channelstore.Factory
	MaxRetainedCommands int
	MaxProposalRecords  int
	RecoveryPageBytes   int
}

// VerifCluster is the deterministic cluster.
type VerifCluster struct {
	cfg     VerifClusterConfig
	stores  map[ch.NodeID]ReplicaStore
	servers map[ch.NodeID]*ExchangeServer
	owners  map[ch.NodeID]*quorumLog
	down    map[ch.NodeID]bool
	faults  VerifFaults
	replace int
	// Sealed accumulates every proposal handed to a local durability submission.
	Sealed []VerifSealed
}

// NewVerifCluster builds stores, exchange servers and owners.
func NewVerifCluster(cfg VerifClusterConfig) (*VerifCluster, error) {
	c := &VerifCluster{
		cfg: cfg, stores: map[ch.NodeID]ReplicaStore{}, servers: map[ch.NodeID]*ExchangeServer{},
		owners: map[ch.NodeID]*quorumLog{}, down: map[ch.NodeID]bool{},
		faults: VerifFaults{ReplaceBudget: -1},
	}
	for _, voter := range cfg.Voters {
		store, err := NewStoreAdapter(StoreAdapterConfig{Factory: cfg.Factories[voter], MaxBatchItems: 8, MaxBatchBytes: 8 << 20})
		if err != nil {
			return nil, err
		}
		c.stores[voter] = store
		server, err := NewExchangeServer(ExchangeServerConfig{LocalNode: voter, Store: store, MaxBatchItems: 8, MaxBatchBytes: 8 << 20})
		if err != nil {
			return nil, err
		}
		c.servers[voter] = server
		if err := c.Restart(voter); err != nil {
			return nil, err
		}
	}
	return c, nil
}

// Restart discards the volatile owner of one node (crash-restart of the owner).
func (c *VerifCluster) Restart(node ch.NodeID) error {
	d := &verifDispatcher{c: c, local: node}
	log, err := newQuorumLog(quorumLogConfig{
		Local: node, Store: &verifLocalStore{c: c, node: node, inner: c.stores[node]}, Recovery: d, Durability: d,
		RecoveryTimeout: time.Hour, RecoveryPageBytes: c.cfg.RecoveryPageBytes,
		MaxChannels: 4, MaxVoters: 16, MaxProposalRecords: c.cfg.MaxProposalRecords, MaxProposalBytes: 1 << 20,
		MaxRetainedCommands: c.cfg.MaxRetainedCommands,
	})
	if err != nil {
		return err
	}
	c.owners[node] = log
	return nil
}

// SetDown marks a node unreachable for every peer operation until SetDown(false).
func (c *VerifCluster) SetDown(node ch.NodeID, down bool) { c.down[node] = down }

// Store returns the real ReplicaStore of a node (observation only).
func (c *VerifCluster) Store(node ch.NodeID) ReplicaStore { return c.stores[node] }

// Install runs quorumLog.Install on one node under a fault plan.
func (c *VerifCluster) Install(node ch.NodeID, authority Authority, faults VerifFaults) (Installed, error) {
	c.faults, c.replace = faults, 0
	defer func() { c.faults = VerifFaults{ReplaceBudget: -1} }()
	return c.owners[node].Install(context.Background(), authority)
}

// Commit runs quorumLog.Commit on one node under a fault plan.
func (c *VerifCluster) Commit(node ch.NodeID, proposal Proposal, faults VerifFaults) (Receipt, error) {
	c.faults, c.replace = faults, 0
	defer func() { c.faults = VerifFaults{ReplaceBudget: -1} }()
	return c.owners[node].Commit(context.Background(), proposal)
}

// LookupCommand runs the durable command index lookup of one node.
func (c *VerifCluster) LookupCommand(node ch.NodeID, command ch.CommandID) CommandLookupResult {
	store, ok := c.stores[node].(commandStore)
	if !ok {
		return CommandLookupResult{Err: ch.ErrInvalidConfig}
	}
	results := store.LookupCommands(context.Background(), []CommandLookup{{
		ChannelKey: c.cfg.Key, ChannelID: c.cfg.ID, CommandID: command, MaxRecords: 256, MaxBytes: 1 << 20,
	}})
	if len(results) != 1 {
		return CommandLookupResult{Err: ch.ErrLogConflict}
	}
	return results[0]
}

// OwnerHW is the committed watermark the owner of one node has acknowledged (0 when the
// owner has no ready channel).
func (c *VerifCluster) OwnerHW(node ch.NodeID) uint64 {
	state := c.owners[node].existingChannel(c.cfg.Key)
	if state == nil {
		return 0
	}
	state.mu.Lock()
	defer state.mu.Unlock()
	if !state.ready {
		return 0
	}
	return state.hw
}

// Checkpoint persists a standalone committed watermark on one node, as the
// reactor's TaskStoreCheckpoint does after a receipt (StoreCheckpoint ignores
// regressions).  The reactor only checkpoints what its owner has acknowledged, so
// the value is capped by OwnerHW.
func (c *VerifCluster) Checkpoint(node ch.NodeID, hw uint64) error {
	if cap := c.OwnerHW(node); hw > cap {
		hw = cap
	}
	store, err := c.cfg.Factories[node].ChannelStore(c.cfg.Key, c.cfg.ID)
	if err != nil {
		return err
	}
	defer store.Close()
	return store.StoreCheckpoint(context.Background(), ch.Checkpoint{HW: hw})
}

// RepairFollower runs the REAL leader-side gap repair, runtimeRepairOwner.repair
// (waitForRepairFrontier + repairFromFrontier), for the evidence
// {leader, follower, needFrom, manifest.LastOffset = through}: leader-side Load +
// Fetch, one ExchangeReplicate per fetched proposal through a real peerBatcher whose
// PeerLink is the follower's ExchangeServer.  The frontier precondition is checked
// first so that waitForRepairFrontier never has to wait.  It returns false as soon
// as one step fails.
func (c *VerifCluster) RepairFollower(leader, follower ch.NodeID, needFrom, through uint64) bool {
	if c.down[follower] || needFrom == 0 {
		return false
	}
	ctx := context.Background()
	var indexes []uint64
	if needFrom > 1 {
		indexes = []uint64{needFrom - 1}
	}
	loadedBatch, err := c.stores[leader].Load(ctx, LoadBatch{Items: []LoadRequest{{ChannelKey: c.cfg.Key, ChannelID: c.cfg.ID, ProbeIndexes: indexes}}})
	if err != nil || len(loadedBatch.Items) != 1 || loadedBatch.Items[0].Err != nil ||
		loadedBatch.Items[0].State.LEO < through || loadedBatch.Items[0].State.LEO < needFrom {
		return false
	}
	ownerCtx, cancel := context.WithCancel(ctx)
	defer cancel()
	peers, err := newPeerBatcher(peerBatcherConfig{
		Link: verifLink{c: c, from: leader}, Executor: verifExecutor{}, OwnerContext: ownerCtx, ExchangeTimeout: time.Minute,
		MaxTargetFlight: 1, MaxBatchItems: 1, MaxBatchBytes: 8 << 20,
		MaxQueuedItems: 64, MaxQueuedBytes: 64 << 20, MaxTargetQueuedItems: 8, MaxTargetQueuedBytes: 16 << 20,
	})
	if err != nil {
		panic("verif: peer batcher: " + err.Error())
	}
	owner := &runtimeRepairOwner{
		ctx: ownerCtx, store: c.stores[leader], peers: peers, timeout: time.Minute, maxPageBytes: c.cfg.RecoveryPageBytes,
	}
	return owner.repair(ownerCtx, followerRepair{
		channelKey: c.cfg.Key, channelID: c.cfg.ID, leader: leader, follower: follower,
		manifest: ch.ProposalManifest{LastOffset: through}, needFrom: needFrom,
	})
}

// verifLink is the PeerLink of the repair path: one synchronous Handle call on the
// target's ExchangeServer; a down target is a transport error.
type verifLink struct {
	c    *VerifCluster
	from ch.NodeID
}

func (l verifLink) Exchange(ctx context.Context, node ch.NodeID, batch ExchangeBatch) (ExchangeBatchResult, error) {
	if l.c.down[node] {
		return ExchangeBatchResult{}, errVerifUnreachable
	}
	return l.c.servers[node].Handle(ctx, l.from, batch)
}

// verifExecutor runs each accepted task on its own goroutine; the repair path waits
// for every completion before it submits the next request, so the order is fixed.
type verifExecutor struct{}

func (verifExecutor) Submit(task func()) error {
	go task()
	return nil
}

func (c *VerifCluster) exchangeReplicate(leader, follower ch.NodeID, request ReplicateRequest, priority ExchangePriority) (ReplicateResult, error) {
	response, err := c.servers[follower].Handle(context.Background(), leader, ExchangeBatch{
		Version: ExchangeVersion, Priority: priority,
		Items: []ExchangeItem{{RequestID: 1, Kind: ExchangeReplicate, Replicate: &request}},
	})
	if err != nil {
		return ReplicateResult{}, err
	}
	if len(response.Items) != 1 || !validReplicateResult(request, response.Items[0].Replicate) {
		return ReplicateResult{Status: ReplicateOutcomeUnknown}, errInvalidExchangeResult
	}
	return response.Items[0].Replicate, nil
}

// ---- local store wrapper (crash point between recovery pages) ---------------------

type verifLocalStore struct {
	c     *VerifCluster
	node  ch.NodeID
	inner ReplicaStore
}

func (s *verifLocalStore) Load(ctx context.Context, batch LoadBatch) (LoadBatchResult, error) {
	return s.inner.Load(ctx, batch)
}
func (s *verifLocalStore) Sync(ctx context.Context, mutations []Mutation) []MutationResult {
	return s.inner.Sync(ctx, mutations)
}
func (s *verifLocalStore) Fetch(ctx context.Context, ranges []FetchRange) []FetchRangeResult {
	return s.inner.Fetch(ctx, ranges)
}
func (s *verifLocalStore) Replace(ctx context.Context, replacements []RecoveryReplacement) []RecoveryReplacementResult {
	if s.c.faults.ReplaceBudget >= 0 && s.c.replace >= s.c.faults.ReplaceBudget {
		results := make([]RecoveryReplacementResult, len(replacements))
		for index := range results {
			results[index] = RecoveryReplacementResult{Outcome: ch.AppendOutcomeDefinitelyNotWritten, Err: errVerifCrash}
		}
		return results
	}
	s.c.replace++
	return s.inner.Replace(ctx, replacements)
}
func (s *verifLocalStore) LookupCommands(ctx context.Context, lookups []CommandLookup) []CommandLookupResult {
	return s.inner.(commandStore).LookupCommands(ctx, lookups)
}

// ---- deterministic dispatcher -----------------------------------------------------

type verifDispatcher struct {
	c     *VerifCluster
	local ch.NodeID
}

func (d *verifDispatcher) unreachable(voter ch.NodeID) bool {
	return voter != d.local && (d.c.down[voter] || d.c.faults.Drop[voter])
}

// submitLocal mirrors runtimeLocalDurability.runBatch for one item.
func (d *verifDispatcher) submitLocal(_ context.Context, proposal durableProposal, complete func(durabilityCompletion)) error {
	_, entries, ok := ch.SealProposalManifest(proposal.manifest, proposal.records)
	if ok {
		d.c.Sealed = append(d.c.Sealed, VerifSealed{Manifest: proposal.manifest, Records: cloneRecords(proposal.records), Entries: entries})
	}
	if d.c.faults.Drop[d.local] {
		complete(durabilityCompletion{outcome: ch.AppendOutcomeDefinitelyNotWritten, err: ch.ErrBackpressured})
		return nil
	}
	results := d.c.stores[d.local].Sync(context.Background(), []Mutation{{
		ChannelKey: proposal.channelKey, ChannelID: proposal.channelID,
		Manifest: proposal.manifest, Records: proposal.records, Committed: proposal.committed, Class: MutationClassLeaderQuorum,
		ServerAllocatedMessageIDs: proposal.serverAllocatedMessageIDs,
	}})
	if d.c.faults.Lose[d.local] {
		complete(durabilityCompletion{outcome: ch.AppendOutcomeUnknown, err: errVerifLost})
		return nil
	}
	if len(results) != 1 || !validLocalDurabilityResult(proposal, results[0]) {
		complete(durabilityCompletion{outcome: ch.AppendOutcomeUnknown, err: errInvalidExchangeResult})
		return nil
	}
	complete(durabilityCompletion{outcome: results[0].Outcome, err: results[0].Err})
	return nil
}

func (d *verifDispatcher) submitReplica(_ context.Context, follower ch.NodeID, proposal durableProposal, complete func(durabilityCompletion)) error {
	d.replicate(follower, proposal, complete, ExchangePriorityForeground)
	return nil
}

func (d *verifDispatcher) submitReplicaDeferred(_ context.Context, follower ch.NodeID, proposal durableProposal, complete func(durabilityCompletion)) error {
	d.replicate(follower, proposal, complete, ExchangePriorityBackground)
	return nil
}

// replicate mirrors batchingDurabilityDispatcher.submitReplicaWithMode's result
// mapping; transport is one synchronous ExchangeServer.Handle call.
func (d *verifDispatcher) replicate(follower ch.NodeID, proposal durableProposal, complete func(durabilityCompletion), priority ExchangePriority) {
	if d.unreachable(follower) {
		complete(durabilityCompletion{outcome: ch.AppendOutcomeUnknown, err: errVerifUnreachable})
		return
	}
	request := ReplicateRequest{
		ChannelKey: proposal.channelKey, ChannelID: proposal.channelID, Leader: proposal.leader, Follower: follower,
		Manifest: proposal.manifest, Records: proposal.records, Committed: proposal.committed,
		ServerAllocatedMessageIDs: proposal.serverAllocatedMessageIDs,
	}
	result, err := d.c.exchangeReplicate(proposal.leader, follower, request, priority)
	if d.c.faults.Lose[follower] {
		complete(durabilityCompletion{outcome: ch.AppendOutcomeUnknown, err: errVerifLost})
		return
	}
	if err != nil {
		complete(durabilityCompletion{outcome: ch.AppendOutcomeUnknown, err: err})
		return
	}
	switch result.Status {
	case ReplicateDurable:
		complete(durabilityCompletion{outcome: ch.AppendOutcomeDurable})
	case ReplicateAlreadyDurable:
		complete(durabilityCompletion{outcome: ch.AppendOutcomeAlreadyDurable})
	case ReplicateNeedFrom:
		complete(durabilityCompletion{
			outcome: ch.AppendOutcomeDefinitelyNotWritten, err: errReplicaNeedsRepair,
			follower: follower, needFrom: result.NeedFrom,
		})
	case ReplicateStaleFence:
		complete(durabilityCompletion{outcome: ch.AppendOutcomeDefinitelyNotWritten, err: ch.ErrStaleMeta})
	case ReplicateConflict:
		complete(durabilityCompletion{outcome: ch.AppendOutcomeConflict, err: ch.ErrLogConflict})
	case ReplicateBackpressured:
		complete(durabilityCompletion{outcome: ch.AppendOutcomeDefinitelyNotWritten, err: ch.ErrBackpressured})
	default:
		complete(durabilityCompletion{outcome: ch.AppendOutcomeUnknown, err: errPeerOutcomeUnknown})
	}
}

// submitRecoveryProbe: local voter as batchingRecoveryProbeDispatcher.loadLocalRecoveryProbe,
// remote voter through the follower's ExchangeServer plus the peer batcher's result validation.
func (d *verifDispatcher) submitRecoveryProbe(_ context.Context, query recoveryProbeQuery, complete func(ProbeResult, error)) error {
	ctx := context.Background()
	if query.Voter == d.local {
		loaded, err := d.c.stores[d.local].Load(ctx, LoadBatch{Items: []LoadRequest{{
			ChannelKey: query.ChannelKey, ChannelID: query.ChannelID, ProbeIndexes: append([]uint64(nil), query.Indexes...),
		}}})
		if err != nil || len(loaded.Items) != 1 {
			if err == nil {
				err = errInvalidExchangeResult
			}
			complete(ProbeResult{}, err)
			return nil
		}
		request := ProbeRequest{ChannelKey: query.ChannelKey, ChannelID: query.ChannelID, Leader: query.Leader, Follower: query.Voter, Indexes: query.Indexes}
		result, ok := mapProbeResult(request, loaded.Items[0])
		if !ok {
			complete(ProbeResult{}, errInvalidExchangeResult)
			return nil
		}
		complete(result, nil)
		return nil
	}
	if d.unreachable(query.Voter) {
		complete(ProbeResult{}, errVerifUnreachable)
		return nil
	}
	if len(query.Indexes) > 0 && d.c.faults.PageDrop[query.Voter] {
		complete(ProbeResult{}, errVerifLost)
		return nil
	}
	request := ProbeRequest{ChannelKey: query.ChannelKey, ChannelID: query.ChannelID, Leader: query.Leader, Follower: query.Voter, Indexes: append([]uint64(nil), query.Indexes...)}
	response, err := d.c.servers[query.Voter].Handle(ctx, query.Leader, ExchangeBatch{
		Version: ExchangeVersion, Priority: ExchangePriorityForeground,
		Items: []ExchangeItem{{RequestID: 1, Kind: ExchangeProbe, Probe: &request}},
	})
	if err != nil {
		complete(ProbeResult{}, err)
		return nil
	}
	if len(response.Items) != 1 || !validPeerProbeResult(request, response.Items[0].Probe) {
		complete(ProbeResult{}, errInvalidExchangeResult)
		return nil
	}
	complete(response.Items[0].Probe, nil)
	return nil
}

func (d *verifDispatcher) submitRecoveryFetch(_ context.Context, query recoveryFetchQuery, complete func(FetchResult, error)) error {
	ctx := context.Background()
	request := FetchRequest{
		ChannelKey: query.ChannelKey, ChannelID: query.ChannelID, Leader: query.Leader, Follower: query.Donor,
		Expected: query.Expected, From: query.From, Through: query.Through, Previous: query.Previous, MaxBytes: query.MaxBytes,
	}
	if query.Donor == d.local {
		fetched := d.c.stores[d.local].Fetch(ctx, []FetchRange{{
			ChannelKey: request.ChannelKey, ChannelID: request.ChannelID, Expected: request.Expected,
			From: request.From, Through: request.Through, Previous: request.Previous, MaxBytes: request.MaxBytes,
		}})
		if len(fetched) != 1 {
			complete(FetchResult{}, errInvalidExchangeResult)
			return nil
		}
		if fetched[0].Err != nil {
			complete(FetchResult{}, fetched[0].Err)
			return nil
		}
		mapped, ok := mapFetchResult(request, fetched[0])
		if !ok {
			complete(FetchResult{}, errInvalidExchangeResult)
			return nil
		}
		complete(mapped, nil)
		return nil
	}
	if d.unreachable(query.Donor) {
		complete(FetchResult{}, errVerifUnreachable)
		return nil
	}
	response, err := d.c.servers[query.Donor].Handle(ctx, query.Leader, ExchangeBatch{
		Version: ExchangeVersion, Priority: ExchangePriorityForeground,
		Items: []ExchangeItem{{RequestID: 1, Kind: ExchangeFetch, Fetch: &request}},
	})
	if err != nil {
		complete(FetchResult{}, err)
		return nil
	}
	if len(response.Items) != 1 {
		complete(FetchResult{}, errInvalidExchangeResult)
		return nil
	}
	complete(response.Items[0].Fetch, nil)
	return nil
}

var (
	_ durabilityDispatcher      = (*verifDispatcher)(nil)
	_ deferredReplicaDispatcher = (*verifDispatcher)(nil)
	_ recoveryDispatcher        = (*verifDispatcher)(nil)
	_ ReplicaStore              = (*verifLocalStore)(nil)
	_ commandStore              = (*verifLocalStore)(nil)
)
