//go:build verif

package routing

// VerifChecksumIEEEString exposes the hand-rolled table CRC to the /verif harness.
func VerifChecksumIEEEString(s string) uint32 { return checksumIEEEString(s) }
