//go:build verif

package wkproto

import (
	"github.com/WuKongIM/WuKongIM/pkg/gateway/session"
	"github.com/WuKongIM/WuKongIM/pkg/protocol/frame"
)

// Re-exports for the /verif C25 harness (model WkEnc).

// VerifDecryptSendPacketForSession exposes decryptSendPacketForSession.
func VerifDecryptSendPacketForSession(sess session.Session, send *frame.SendPacket) error {
	return decryptSendPacketForSession(sess, send)
}

// VerifSealRecvPacketForSession exposes sealRecvPacketForSession.
func VerifSealRecvPacketForSession(sess session.Session, recv *frame.RecvPacket) (*frame.RecvPacket, error) {
	return sealRecvPacketForSession(sess, recv)
}
