//go:build verif

package channels

import (
	"context"

	channelstore "github.com/WuKongIM/WuKongIM/pkg/channel/store"
)

// VerifC10ReadLocalCommitted runs Service.readLocalCommitted on a Service
// that only has its store factory set (the function uses nothing else).
func VerifC10ReadLocalCommitted(ctx context.Context, factory channelstore.Factory, read CommittedRead,
	retentionThroughSeq uint64, minISR int) (channelstore.ReadCommittedResult, error) {
	s := &Service{store: factory}
	return s.readLocalCommitted(ctx, read, retentionThroughSeq, minISR)
}
