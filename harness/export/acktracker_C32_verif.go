//go:build verif

package delivery

// Re-exports for the /verif C32 harness (injected by build overlay only).

// VerifDefaultAckTrackerShardCount is the shard count used for ShardCount <= 0.
const VerifDefaultAckTrackerShardCount = defaultAckTrackerShardCount

// VerifAckToken fabricates a token with the given id (used for never-issued tokens).
func VerifAckToken(id uint64) AckBindToken { return AckBindToken{id: id} }

// VerifAckAttempt mirrors ackBindAttempt.
type VerifAckAttempt struct {
	Token   AckBindToken
	Pending PendingRecvAck
}

// VerifAckEntry mirrors one byMessage row.
type VerifAckEntry struct {
	UID       string
	SessionID uint64
	MessageID uint64
	Pending   PendingRecvAck
	Committed bool
	Primary   AckBindToken
	Extra     []VerifAckAttempt
}

// VerifAckSession mirrors one bySession row.
type VerifAckSession struct {
	UID        string
	SessionID  uint64
	MessageIDs []uint64
}

// VerifSnapshot copies both indexes of every shard (unordered).
func (t *AckTracker) VerifSnapshot() ([]VerifAckEntry, []VerifAckSession) {
	var entries []VerifAckEntry
	var sessions []VerifAckSession
	for i := range t.shards {
		shard := &t.shards[i]
		shard.mu.Lock()
		for k, e := range shard.byMessage {
			row := VerifAckEntry{UID: k.uid, SessionID: k.sessionID, MessageID: k.messageID,
				Pending: e.pending, Committed: e.committed, Primary: e.primary}
			for _, a := range e.extraAttempts {
				row.Extra = append(row.Extra, VerifAckAttempt{Token: a.token, Pending: a.pending})
			}
			entries = append(entries, row)
		}
		for k, ms := range shard.bySession {
			row := VerifAckSession{UID: k.uid, SessionID: k.sessionID}
			for m := range ms {
				row.MessageIDs = append(row.MessageIDs, m)
			}
			sessions = append(sessions, row)
		}
		shard.mu.Unlock()
	}
	return entries, sessions
}
