//go:build verif

package jsonrpc

// Re-exports for the /verif C24 harness (model JsonRpcBridge).

// VerifJSONRPCVersion exposes the jsonRPCVersion constant.
func VerifJSONRPCVersion() string { return jsonRPCVersion }

// VerifDetermineMessageType exposes determineMessageType.
func VerifDetermineMessageType(p *Probe) (int, string, error) { return determineMessageType(p) }

// VerifMsgTypes exposes msgTypeRequest, msgTypeResponse, msgTypeNotification.
func VerifMsgTypes() (int, int, int) { return msgTypeRequest, msgTypeResponse, msgTypeNotification }
