//go:build verif

package message

// Re-exports for the /verif C11 harness (backup and restore of the message domain).
// Add-only; compiled only with -tags verif through the build overlay.

import (
	"bytes"
	"context"
	"errors"

	"github.com/WuKongIM/WuKongIM/pkg/db/internal/commit"
	"github.com/WuKongIM/WuKongIM/pkg/db/internal/dberrors"
	"github.com/WuKongIM/WuKongIM/pkg/db/internal/engine"
	"github.com/WuKongIM/WuKongIM/pkg/db/internal/keycodec"
	channel "github.com/WuKongIM/WuKongIM/pkg/db/message/channelcompat"
)

// VerifC11OpenMem opens a message DB exactly like OpenWithLogger does, on an in-memory file
// system and with a small memtable (the harness opens hundreds of short-lived stores).
func VerifC11OpenMem() (*Engine, error) {
	opts := messageEngineOptions(nil)
	opts.MemTableSize = 1 << 20
	eng, err := engine.VerifC11OpenMem(opts)
	if err != nil {
		return nil, err
	}
	cfg := effectiveCommitCoordinatorConfig(CommitCoordinatorConfig{})
	return &Engine{
		db:        NewDB(eng),
		engine:    eng,
		commitCfg: cfg,
		committer: commit.NewCoordinator(eng, commitCoordinatorConfig(cfg)),
	}, nil
}

// VerifC11DB returns the typed message domain behind the compatibility engine.
func (e *Engine) VerifC11DB() *MessageDB {
	e.mu.Lock()
	defer e.mu.Unlock()
	return e.db
}

// Constants of the stream format.
var VerifC11Magic = messageBackupSnapshotMagic

const (
	VerifC11Version              = messageBackupSnapshotVersion
	VerifC11ImportBatchMessages  = backupImportBatchMessages
	VerifC11MaxFieldBytes        = maxMessageBackupStreamFieldBytes
	VerifC11MaxChannels          = maxMessageBackupStreamChannels
	VerifC11MaxSystemEntries     = maxMessageBackupSystemEntries
	VerifC11TableIDMessage       = TableIDMessage
	VerifC11HeaderFamily         = messageHeaderFamilyID
	VerifC11PayloadFamily        = messagePayloadFamilyID
	VerifC11DomainMessage        = byte(keycodec.DomainMessage)
	VerifC11PartitionChannel     = byte(keycodec.PartitionChannel)
	VerifC11SpaceSystem          = byte(keycodec.SpaceSystem)
	VerifC11SpaceRow             = byte(keycodec.SpaceRow)
	VerifC11DurableProposalV     = DurableProposalManifestVersion
)

// VerifC11ErrClass maps a database error to a small class number:
// 0 nil, 1 invalid argument, 2 conflict, 3 corrupt value, 4 corrupt state,
// 5 checksum mismatch, 6 closed, 9 anything else (io errors, context).
func VerifC11ErrClass(err error) uint64 {
	switch {
	case err == nil:
		return 0
	case errors.Is(err, dberrors.ErrInvalidArgument):
		return 1
	case errors.Is(err, dberrors.ErrConflict):
		return 2
	case errors.Is(err, dberrors.ErrChecksumMismatch):
		return 5
	case errors.Is(err, dberrors.ErrCorruptValue):
		return 3
	case errors.Is(err, dberrors.ErrCorruptState):
		return 4
	case errors.Is(err, dberrors.ErrClosed):
		return 6
	default:
		return 9
	}
}

// Key encoders the model depends on (tied on every case).
func VerifC11SystemAllPrefix(key ChannelKey) []byte { return encodeMessageSystemAllPrefix(key) }
func VerifC11CheckpointKey(key ChannelKey) []byte   { return encodeCheckpointKey(key) }
func VerifC11CatalogKey(key ChannelKey) []byte      { return encodeCatalogKey(key) }
func VerifC11RowPrefix(key ChannelKey) []byte       { return encodeMessageRowPrefix(key) }

// VerifC11SysEntry is one system-space entry of a channel (the checkpoint excluded) with
// what the export's decoders say about it.
//
// Kind: 1 history (A = start offset), 2 proposal row (A = base offset, B = last offset;
// Ok = key/value agree and the paired by-last / by-command row is present and equal),
// 3 entry identity (A = index; Ok = key/value agree), 4 anything else, 0 = a decoder failed
// (Err = its class).
type VerifC11SysEntry struct {
	Key, Value []byte
	Kind       uint8
	A, B       uint64
	Ok         bool
	Err        uint64
}

// VerifC11Row is one stored message row (header family) with the derived payload family
// value, as visitBackupMessages computes it.
type VerifC11Row struct {
	Seq       uint64
	Header    []byte
	Payload   []byte // encodeMessagePayload of the decoded header
	MessageID uint64
	Err       uint64 // class of the header decode / payload encode error, 0 = none
	ChanOK    bool   // row.ChannelID / ChannelType equal the catalog identity asked for
}

// VerifC11ChanDump is the backup-relevant state of one channel.
type VerifC11ChanDump struct {
	Key            string
	CatalogPresent bool
	CatalogID      string
	CatalogType    uint8
	CatalogErr     uint64
	CkptPresent    bool
	Ckpt           []byte
	RetPresent     bool   // a retention state row exists
	RetErr         uint64 // class of its decode error
	RetainedMax    uint64
	Sys            []VerifC11SysEntry
	Rows           []VerifC11Row
	OtherRowKeys   int // keys under the row prefix that are not header-family rows
}

func classify(view messageBackupReadView, key ChannelKey, k, v []byte) VerifC11SysEntry {
	e := VerifC11SysEntry{Key: append([]byte(nil), k...), Value: append([]byte(nil), v...)}
	switch {
	case bytes.HasPrefix(k, encodeHistoryPrefix(key)):
		point, err := decodeEpochPointFromKeyValue(key, k, func() ([]byte, error) { return v, nil })
		if err != nil {
			e.Err = VerifC11ErrClass(err)
			return e
		}
		e.Kind, e.A, e.Ok = 1, point.StartOffset, true
	case bytes.HasPrefix(k, encodeProposalByLastPrefix(key)) || bytes.HasPrefix(k, encodeProposalByCommandPrefix(key)):
		record, err := decodeDurableProposalRecord(v)
		if err != nil {
			e.Err = VerifC11ErrClass(err)
			return e
		}
		e.Kind, e.A, e.B, e.Ok = 2, record.manifest.BaseOffset, record.manifest.LastOffset, true
		// an error of the pair load (the partner row does not decode, or the by-last / by-command
		// pair is itself inconsistent) is returned as it is by snapshotBackupSystemEntries:
		// reported like a decode error of this row (Kind 0 + class)
		pairErr := func(err error) VerifC11SysEntry {
			e.Kind, e.A, e.B, e.Ok = 0, 0, 0, false
			e.Err = VerifC11ErrClass(err)
			return e
		}
		if lastOffset, ok := decodeProposalByLastKey(key, k); ok {
			if lastOffset != record.manifest.LastOffset {
				e.Ok = false
			} else if paired, present, err := loadDurableProposalPairByLast(view, key, lastOffset); err != nil {
				return pairErr(err)
			} else if !present || paired != record {
				e.Ok = false
			}
		} else if commandID, ok := decodeProposalByCommandKey(key, k); !ok || commandID != record.manifest.CommandID {
			e.Ok = false
		} else if paired, present, err := loadDurableProposalFrom(view, encodeProposalByLastKey(key, record.manifest.LastOffset)); err != nil {
			return pairErr(err)
		} else if !present || paired != record {
			e.Ok = false
		}
	case bytes.HasPrefix(k, encodeEntryIdentityPrefix(key)):
		index, ok := decodeEntryIdentityKey(key, k)
		entry, err := decodeDurableEntryIdentity(v)
		e.Kind, e.A = 3, index
		e.Ok = ok && err == nil && entry.Index == index
	default:
		e.Kind, e.Ok = 4, true
	}
	return e
}

// VerifC11Dump reads the backup-relevant state of the listed channels from a pinned view.
func (db *MessageDB) VerifC11Dump(chans []ChannelKey, ids []ChannelID) ([]VerifC11ChanDump, error) {
	if err := db.beginUse(); err != nil {
		return nil, err
	}
	defer db.endUse()
	view, err := db.engine.NewSnapshot()
	if err != nil {
		return nil, err
	}
	defer view.Close()
	out := make([]VerifC11ChanDump, 0, len(chans))
	for ci, key := range chans {
		d := VerifC11ChanDump{Key: string(key)}
		if v, ok, err := view.Get(encodeCatalogKey(key)); err != nil {
			return nil, err
		} else if ok {
			d.CatalogPresent = true
			id, derr := decodeCatalogValue(v)
			d.CatalogErr = VerifC11ErrClass(derr)
			d.CatalogID, d.CatalogType = id.ID, id.Type
		}
		if v, ok, err := view.Get(encodeCheckpointKey(key)); err != nil {
			return nil, err
		} else if ok {
			d.CkptPresent, d.Ckpt = true, append([]byte(nil), v...)
		}
		if v, ok, err := view.Get(encodeRetentionStateKey(key)); err != nil {
			return nil, err
		} else if ok {
			d.RetPresent = true
			st, derr := decodeRetentionState(v)
			d.RetErr, d.RetainedMax = VerifC11ErrClass(derr), st.RetainedMaxSeq
		}
		span := keycodec.NewPrefixSpan(encodeMessageSystemAllPrefix(key))
		iter, err := view.NewIter(engine.Span{Start: span.Start, End: span.End}, engine.IterOptions{})
		if err != nil {
			return nil, err
		}
		for ok := iter.First(); ok; ok = iter.Next() {
			k := iter.Key()
			if bytes.Equal(k, encodeCheckpointKey(key)) {
				continue
			}
			v, err := iter.Value()
			if err != nil {
				_ = iter.Close()
				return nil, err
			}
			d.Sys = append(d.Sys, classify(view, key, k, v))
		}
		if err := iter.Close(); err != nil {
			return nil, err
		}
		rspan := keycodec.NewPrefixSpan(encodeMessageRowPrefix(key))
		riter, err := view.NewIter(engine.Span{Start: rspan.Start, End: rspan.End}, engine.IterOptions{})
		if err != nil {
			return nil, err
		}
		for ok := riter.First(); ok; ok = riter.Next() {
			k := riter.Key()
			seq, family, valid := decodeMessageRowKey(key, k)
			if !valid || family != messageHeaderFamilyID {
				d.OtherRowKeys++
				continue
			}
			v, err := riter.Value()
			if err != nil {
				_ = riter.Close()
				return nil, err
			}
			r := VerifC11Row{Seq: seq, Header: append([]byte(nil), v...)}
			row := messageRow{MessageSeq: seq}
			if derr := decodeMessageHeader(k, v, &row); derr != nil {
				r.Err = VerifC11ErrClass(derr)
			} else if p, perr := encodeMessagePayload(encodeMessageRowKey(key, seq, messagePayloadFamilyID), row); perr != nil {
				r.Err = VerifC11ErrClass(perr)
			} else {
				r.Payload, r.MessageID = p, row.MessageID
				if ci < len(ids) {
					r.ChanOK = row.ChannelID == ids[ci].ID && row.ChannelType == ids[ci].Type
				}
			}
			d.Rows = append(d.Rows, r)
		}
		if err := riter.Close(); err != nil {
			return nil, err
		}
		out = append(out, d)
	}
	return out, nil
}

// VerifC11SysValid runs validateBackupProposalSystemEntries.
func VerifC11SysValid(key ChannelKey, hw uint64, keys, values [][]byte) uint64 {
	entries := make([]backupRawEntry, len(keys))
	for i := range keys {
		entries[i] = backupRawEntry{Key: keys[i], Value: values[i]}
	}
	return VerifC11ErrClass(validateBackupProposalSystemEntries(key, hw, entries))
}

// VerifC11RowCheck decodes one streamed row the way readMessageBackupStreamRow and the
// importers do and reports: decode error class, message id, channel identity match, and
// whether the entry identity found for seq among the system entries (if any) accepts it.
func VerifC11RowCheck(key ChannelKey, id ChannelID, seq uint64, header, payload []byte, sysKeys, sysValues [][]byte) (errClass uint64, messageID uint64, chanOK bool, identOK bool, identErr uint64) {
	row := messageRow{MessageSeq: seq}
	if err := decodeMessageHeader(encodeMessageRowKey(key, seq, messageHeaderFamilyID), header, &row); err != nil {
		return VerifC11ErrClass(err), 0, false, false, 0
	}
	if err := decodeMessagePayload(encodeMessageRowKey(key, seq, messagePayloadFamilyID), payload, &row); err != nil {
		return VerifC11ErrClass(err), 0, false, false, 0
	}
	entries := make([]backupRawEntry, len(sysKeys))
	for i := range sysKeys {
		entries[i] = backupRawEntry{Key: sysKeys[i], Value: sysValues[i]}
	}
	identities, err := backupEntryIdentityMap(key, entries)
	if err != nil {
		return 0, row.MessageID, row.ChannelID == id.ID && row.ChannelType == id.Type, false, VerifC11ErrClass(err)
	}
	identOK = true
	if identity, ok := identities[seq]; ok {
		identOK = verifyBackupRowIdentity(identity, row)
	}
	return 0, row.MessageID, row.ChannelID == id.ID && row.ChannelType == id.Type, identOK, 0
}

// VerifC11ExactAppend appends records at an exact base offset under a sealed durable
// proposal manifest (what the replication layer does), returning the error.
func VerifC11ExactAppend(ctx context.Context, store *ChannelStore, base uint64, rows []VerifCompatRow11, epoch, term, fence uint64, command [32]byte, prevTerm, prevIndex uint64, prevDigest [32]byte) ([32]byte, error) {
	records := make([]channel.Record, len(rows))
	for i, in := range rows {
		rec, err := compatibilityRecordFromRow(messageRow{
			MessageID: in.MessageID, FramerFlags: in.FramerFlags, Setting: in.Setting,
			ClientMsgNo: in.ClientMsgNo, FromUID: in.FromUID, ChannelID: in.ChannelID,
			ChannelType: in.ChannelType, Payload: in.Payload, ServerTimestampMS: in.ServerTimestampMS,
		})
		if err != nil {
			return [32]byte{}, err
		}
		rec.Epoch = epoch
		records[i] = rec
	}
	manifest := DurableProposalManifest{
		Version: DurableProposalManifestVersion, ChannelEpoch: epoch, LeaderTerm: term, FenceVersion: fence,
		CommandID: command, BaseOffset: base, LastOffset: base + uint64(len(records)),
		PreviousTerm: prevTerm, PreviousIndex: prevIndex, PreviousDigest: prevDigest,
	}
	mrows, err := compatibilityRowsFromRecords(base+1, records)
	if err != nil {
		return [32]byte{}, err
	}
	entries, ok := deriveDurableProposalEntries(manifest, records, mrows)
	if !ok || len(entries) == 0 {
		return [32]byte{}, dberrors.ErrInvalidArgument
	}
	manifest.Digest = entries[len(entries)-1].Digest
	res := StoreAppendBatch(ctx, []AppendBatchItem{{
		Store: store, Records: records, ExactBaseOffset: true, ExpectedBaseOffset: base, Proposal: manifest,
	}})
	if len(res) != 1 {
		return [32]byte{}, dberrors.ErrCorruptState
	}
	return manifest.Digest, res[0].Err
}

// VerifCompatRow11 is the input row of VerifC11ExactAppend / VerifC11Record.
type VerifCompatRow11 struct {
	MessageID         uint64
	FramerFlags       uint8
	Setting           uint8
	ClientMsgNo       string
	FromUID           string
	ChannelID         string
	ChannelType       uint8
	Payload           []byte
	ServerTimestampMS int64
}

// VerifC11Record encodes one row with the production compatibility codec.
func VerifC11Record(in VerifCompatRow11) (channel.Record, error) {
	return compatibilityRecordFromRow(messageRow{
		MessageID: in.MessageID, FramerFlags: in.FramerFlags, Setting: in.Setting,
		ClientMsgNo: in.ClientMsgNo, FromUID: in.FromUID, ChannelID: in.ChannelID,
		ChannelType: in.ChannelType, Payload: in.Payload, ServerTimestampMS: in.ServerTimestampMS,
	})
}

// VerifC11RawSet writes one raw key/value into the physical store (used to build
// deliberately inconsistent sources: an unpaired proposal row, a foreign catalog id).
func (db *MessageDB) VerifC11RawSet(key, value []byte) error {
	batch := db.engine.NewBatch()
	defer batch.Close()
	if err := batch.Set(key, value); err != nil {
		return err
	}
	return batch.Commit(true)
}

// VerifC11RawDelete removes one raw key.
func (db *MessageDB) VerifC11RawDelete(key []byte) error {
	batch := db.engine.NewBatch()
	defer batch.Close()
	if err := batch.Delete(key); err != nil {
		return err
	}
	return batch.Commit(true)
}

// VerifC11CountKeys counts every key of the message domain (an untouched fresh target has none).
func (db *MessageDB) VerifC11CountKeys() (int, error) {
	if err := db.beginUse(); err != nil {
		return 0, err
	}
	defer db.endUse()
	span := keycodec.NewPrefixSpan([]byte{byte(keycodec.DomainMessage)})
	iter, err := db.engine.NewIter(engine.Span{Start: span.Start, End: span.End}, engine.IterOptions{})
	if err != nil {
		return 0, err
	}
	defer iter.Close()
	n := 0
	for ok := iter.First(); ok; ok = iter.Next() {
		n++
	}
	return n, iter.Error()
}

// VerifC11AllKV returns every key/value of the message domain (for whole-store comparison).
func (db *MessageDB) VerifC11AllKV() ([][2][]byte, error) {
	if err := db.beginUse(); err != nil {
		return nil, err
	}
	defer db.endUse()
	span := keycodec.NewPrefixSpan([]byte{byte(keycodec.DomainMessage)})
	iter, err := db.engine.NewIter(engine.Span{Start: span.Start, End: span.End}, engine.IterOptions{})
	if err != nil {
		return nil, err
	}
	defer iter.Close()
	var out [][2][]byte
	for ok := iter.First(); ok; ok = iter.Next() {
		v, err := iter.Value()
		if err != nil {
			return nil, err
		}
		out = append(out, [2][]byte{append([]byte(nil), iter.Key()...), append([]byte(nil), v...)})
	}
	return out, iter.Error()
}
