//go:build verif

package presence

import "container/heap"

// Re-exports for the /verif C33 harness (injected by build overlay only).

// VerifDefaultShardCount is the shard count used for ShardCount <= 0.
const VerifDefaultShardCount = defaultShardCount

// VerifDeviceLevelSlave / Master are the device conflict levels the directory interprets.
const (
	VerifDeviceLevelSlave  = deviceLevelSlave
	VerifDeviceLevelMaster = deviceLevelMaster
)

// VerifPending mirrors one pending conflict candidate.
type VerifPending struct {
	Token     PendingRouteToken
	Route     Route
	Conflicts []RouteIdentity
}

// VerifSeq is one owner-sequence / tombstone / expiry-index row.
type VerifSeq struct {
	ID  RouteIdentity
	Seq uint64
	// Seen is the bucket second for expiry-index rows.
	Seen int64
}

// VerifUID is one byUID row.
type VerifUID struct {
	UID string
	IDs []RouteIdentity
}

// VerifSlotDump is an unordered copy of one authority slot.
type VerifSlotDump struct {
	HashSlot  uint16
	Target    RouteTarget
	Active    []Route
	ByUID     []VerifUID
	Pending   []VerifPending
	OwnerSeq  []VerifSeq
	Tombstone []VerifSeq
	Expiry    []VerifSeq
	// Buckets is len(expiryBySeen); HeapLen is len(expiryHeap).
	Buckets int
	HeapLen int
	NextID  uint64
	// IndexOK reports the structural invariants of the bucket heap: heap order, heapIndex
	// positions, one bucket per second, bucket membership == expiryByKey.
	IndexOK bool
}

func verifID(k identityKey) RouteIdentity {
	return RouteIdentity{UID: k.uid, OwnerNodeID: k.ownerNodeID, OwnerBootID: k.ownerBootID, SessionID: k.sessionID}
}

// VerifDump copies every installed authority slot.
func (d *Directory) VerifDump() []VerifSlotDump {
	var out []VerifSlotDump
	for i := range d.shards {
		shard := &d.shards[i]
		shard.mu.RLock()
		for hs, s := range shard.slots {
			row := VerifSlotDump{HashSlot: hs, Target: s.target, NextID: s.nextID,
				Buckets: len(s.expiryBySeen), HeapLen: len(s.expiryHeap), IndexOK: true}
			for _, r := range s.active {
				row.Active = append(row.Active, r)
			}
			for uid, ks := range s.byUID {
				u := VerifUID{UID: uid}
				for k := range ks {
					u.IDs = append(u.IDs, verifID(k))
				}
				row.ByUID = append(row.ByUID, u)
			}
			for tok, p := range s.pending {
				vp := VerifPending{Token: tok, Route: p.route}
				for _, k := range p.conflicts {
					vp.Conflicts = append(vp.Conflicts, verifID(k))
				}
				row.Pending = append(row.Pending, vp)
			}
			for k, v := range s.ownerSeq {
				row.OwnerSeq = append(row.OwnerSeq, VerifSeq{ID: verifID(k), Seq: v})
			}
			for k, v := range s.tombstoneSeq {
				row.Tombstone = append(row.Tombstone, VerifSeq{ID: verifID(k), Seq: v})
			}
			members := 0
			for k, b := range s.expiryByKey {
				row.Expiry = append(row.Expiry, VerifSeq{ID: verifID(k), Seen: b.seenUnix})
				if _, ok := b.keys[k]; !ok || s.expiryBySeen[b.seenUnix] != b {
					row.IndexOK = false
				}
			}
			for i, b := range s.expiryHeap {
				if b.heapIndex != i || len(b.keys) == 0 || s.expiryBySeen[b.seenUnix] != b {
					row.IndexOK = false
				}
				if i > 0 && s.expiryHeap[(i-1)/2].seenUnix > b.seenUnix {
					row.IndexOK = false
				}
				for k := range b.keys {
					members++
					if s.expiryByKey[k] != b {
						row.IndexOK = false
					}
				}
			}
			if members != len(s.expiryByKey) || len(s.expiryHeap) != len(s.expiryBySeen) {
				row.IndexOK = false
			}
			_ = heap.Interface(&s.expiryHeap)
			out = append(out, row)
		}
		shard.mu.RUnlock()
	}
	return out
}
