//go:build verif

package message

// Re-export for the /verif C29 harness (injected by the build overlay only):
// the typed message domain behind an opened compatibility engine, so that the
// fake channel-append node of the harness can append through ChannelLog.Append
// and answer idempotency lookups through ChannelLog.LookupIdempotency.

// VerifC29DB returns the MessageDB owned by the engine.
func (e *Engine) VerifC29DB() *MessageDB {
	e.mu.Lock()
	defer e.mu.Unlock()
	return e.db
}
