//go:build verif

package wkprotoenc

// Re-exports for the /verif C25 harness (model WkEnc). Constants of the
// compiled code are recovered by running the unexported helpers.

// VerifRandomIV runs randomIV (reads crypto/rand.Reader).
func VerifRandomIV() ([]byte, error) { return randomIV() }

// VerifHexLower exposes hexLower.
func VerifHexLower(src []byte) []byte { return hexLower(src) }

// VerifHexMD5String exposes hexMD5String.
func VerifHexMD5String(sum [16]byte) string { return hexMD5String(sum) }

// VerifSessionIVSize exposes sessionIVSize.
func VerifSessionIVSize() int { return sessionIVSize }

// VerifPkcs7PaddingSize exposes pkcs7PaddingSize.
func VerifPkcs7PaddingSize(n, bs int) int { return pkcs7PaddingSize(n, bs) }

// VerifPkcs7UnpadView exposes pkcs7UnpadView.
func VerifPkcs7UnpadView(p []byte, bs int) ([]byte, error) { return pkcs7UnpadView(p, bs) }

// VerifDeriveAESKey exposes deriveAESKey.
func VerifDeriveAESKey(secret []byte) []byte { return deriveAESKey(secret) }
