//go:build verif

package meta

import (
	"github.com/WuKongIM/WuKongIM/pkg/db/internal/engine"
	"github.com/WuKongIM/WuKongIM/pkg/db/internal/keycodec"
)

// Re-exports for the /verif harness of C13 / C39 (slot state machine, model SlotFSM).

// VerifC13ActiveIndex reads the raw active-task index entry of one channel.
func VerifC13ActiveIndex(db *DB, hashSlot uint16, channelID string, channelType int64) (string, bool, error) {
	if db == nil || db.meta == nil {
		return "", false, ErrInvalidArgument
	}
	value, ok, err := db.meta.get(encodeChannelMigrationActiveIndexKey(HashSlot(hashSlot), channelID, channelType))
	return string(value), ok, err
}

// VerifC13MaxKeyStringLen is the key-string length limit of validateKeyString.
const VerifC13MaxKeyStringLen = maxKeyStringLen

// VerifC13HashSlotMigrationPhaseDone is the largest phase value validateHashSlotMigrationState accepts.
const VerifC13HashSlotMigrationPhaseDone = hashSlotMigrationPhaseDone

// VerifC13ListOutbox lists every outbox row of one hash slot in key order
// (source slot, target slot, source index).
func VerifC13ListOutbox(db *DB, hashSlot uint16) ([]HashSlotMigrationOutboxRow, error) {
	if db == nil || db.meta == nil || db.meta.engine == nil {
		return nil, ErrInvalidArgument
	}
	prefix := encodeHashSlotMigrationOutboxHashSlotPrefix(HashSlot(hashSlot))
	span := keycodec.NewPrefixSpan(prefix)
	iter, err := db.meta.engine.NewIter(engine.Span{Start: span.Start, End: span.End}, engine.IterOptions{})
	if err != nil {
		return nil, err
	}
	defer iter.Close()
	var rows []HashSlotMigrationOutboxRow
	for ok := iter.First(); ok; ok = iter.Next() {
		value, err := iter.Value()
		if err != nil {
			return nil, err
		}
		row, err := decodeHashSlotMigrationOutboxValue(HashSlot(hashSlot), iter.Key(), value)
		if err != nil {
			return nil, err
		}
		rows = append(rows, row)
	}
	return rows, iter.Error()
}

// VerifC13RawRows lists every raw key/value pair of one hash slot (row, index
// and system spans), for diagnosing a state difference.
func VerifC13RawRows(db *DB, hashSlot uint16) ([][2][]byte, error) {
	if db == nil || db.meta == nil || db.meta.engine == nil {
		return nil, ErrInvalidArgument
	}
	var out [][2][]byte
	for _, span := range hashSlotAllDataSpans(HashSlot(hashSlot)) {
		iter, err := db.meta.engine.NewIter(engine.Span{Start: span.Start, End: span.End}, engine.IterOptions{})
		if err != nil {
			return nil, err
		}
		for ok := iter.First(); ok; ok = iter.Next() {
			value, err := iter.Value()
			if err != nil {
				iter.Close()
				return nil, err
			}
			out = append(out, [2][]byte{append([]byte(nil), iter.Key()...), append([]byte(nil), value...)})
		}
		err = iter.Error()
		iter.Close()
		if err != nil {
			return nil, err
		}
	}
	return out, nil
}
