//go:build verif

package workload

// VerifPhysicalHashSlotForKey exposes the benchmark's hash-slot mapping.
func VerifPhysicalHashSlotForKey(key string, n uint16) uint16 { return physicalHashSlotForKey(key, n) }
