//go:build verif

package multiraft

import (
	"context"
)

// Hooks for the C12 harness (harness/cmd/C12).  Nothing here changes the
// driver: the functions give the harness a Runtime whose worker and ticker
// goroutines are NOT started, so that the harness itself decides when a slot
// is processed (Runtime.processSlot, the real function with the real order
// processRequests / processReady / processTick / processReady /
// processControls / processReady) and when a tick is due.

// VerifC12NewManual is New without rt.start(): same normalisation and
// validation, same scheduler and (optionally) the same apply pipeline.
func VerifC12NewManual(opts Options, asyncApply bool) (*Runtime, error) {
	opts.Raft = NormalizeRaftOptions(opts.Raft)
	if opts.NodeID == 0 ||
		opts.TickInterval <= 0 ||
		opts.Workers <= 0 ||
		opts.Transport == nil ||
		opts.Raft.ElectionTick <= 0 ||
		opts.Raft.HeartbeatTick <= 0 ||
		opts.Raft.ElectionTick <= opts.Raft.HeartbeatTick {
		return nil, ErrInvalidOptions
	}
	if err := ValidateRaftOptions(opts.Raft); err != nil {
		return nil, err
	}
	rt := &Runtime{
		opts:      opts,
		slots:     make(map[SlotID]*slot),
		scheduler: newScheduler(opts.Observer),
		stopCh:    make(chan struct{}),
	}
	if asyncApply {
		rt.apply = newApplyPipeline(opts.Workers, opts.Goroutines, opts.Observer)
	}
	return rt, nil
}

// VerifC12ProcessSlot runs one pass of the worker body over the slot.
func (r *Runtime) VerifC12ProcessSlot(slotID SlotID) bool {
	return r.processSlot(slotID)
}

// VerifC12Tick marks one tick pending (what runTicker does for every open slot).
func (r *Runtime) VerifC12Tick(slotID SlotID) {
	r.mu.RLock()
	g := r.slots[slotID]
	r.mu.RUnlock()
	if g != nil {
		g.markTickPending()
	}
}

// VerifC12WaitApplyIdle blocks until the apply pipeline holds no task of the slot.
func (r *Runtime) VerifC12WaitApplyIdle(slotID SlotID) {
	r.mu.RLock()
	g := r.slots[slotID]
	r.mu.RUnlock()
	if g != nil {
		_ = g.waitApplyIdle(context.Background())
	}
}

// VerifC12Failed reports the slot's fatal error, if any.
func (r *Runtime) VerifC12Failed(slotID SlotID) error {
	r.mu.RLock()
	g := r.slots[slotID]
	r.mu.RUnlock()
	if g == nil {
		return nil
	}
	g.mu.Lock()
	defer g.mu.Unlock()
	return g.fatalErr
}

// VerifC12Queued reports the number of queued inbound messages and controls
// (manual mode only: used to decide whether a pass would do anything).
func (r *Runtime) VerifC12Queued(slotID SlotID) (int, int) {
	r.mu.RLock()
	g := r.slots[slotID]
	r.mu.RUnlock()
	if g == nil {
		return 0, 0
	}
	g.mu.Lock()
	defer g.mu.Unlock()
	return len(g.requests), len(g.controls)
}

// VerifC12ProposalEnvelopeSize is the size of the envelope decodeProposalPayload strips.
const VerifC12ProposalEnvelopeSize = proposalEnvelopeSize
